(* Short-Weierstrass curves y^2 = x^3 + b over prime fields, as needed by ecrecover
   (secp256k1) and EIP-196 (alt_bn128 / BN254 G1).  Executable specification over Z:
   Jacobian coordinates internally (one inversion at the end), fast modular reduction
   (special form for secp256k1, Barrett for BN254) because [Z.modulo] costs ~8 multiplications
   under vm_compute.  Validated by the [Example]s below (against plain [Z.modulo] and known
   points) and by the correspondence runs; not verified against another formalisation. *)
From RevmV Require Export Base.PBytes.
Local Open Scope Z_scope.

Definition m256 : Z := pow256 - 1.

Record field := mkField { f_p : Z; f_red : Z -> Z }.

(* ---------------- secp256k1 ---------------- *)
Definition secp_p : Z := 0xFFFFFFFFFFFFFFFFFFFFFFFFFFFFFFFFFFFFFFFFFFFFFFFFFFFFFFFEFFFFFC2F.
Definition secp_n : Z := 0xFFFFFFFFFFFFFFFFFFFFFFFFFFFFFFFEBAAEDCE6AF48A03BBFD25E8CD0364141.
Definition secp_gx : Z := 0x79BE667EF9DCBBAC55A06295CE870B07029BFCDB2DCE28D959F2815B16F81798.
Definition secp_gy : Z := 0x483ADA7726A3C4655DA4FBFC0E1108A8FD17B448A68554199C47D08FFB10D4B8.
Definition secp_c : Z := 4294968273. (* 2^256 - p *)
(* x mod p for 0 <= x < 2^512, using 2^256 = c (mod p) *)
Definition secp_red (x : Z) : Z :=
  let x1 := Z.land x m256 + Z.shiftr x 256 * secp_c in
  let x2 := Z.land x1 m256 + Z.shiftr x1 256 * secp_c in
  let x3 := Z.land x2 m256 + Z.shiftr x2 256 * secp_c in
  if x3 <? secp_p then x3 else x3 - secp_p.
Definition secp_F : field := mkField secp_p secp_red.

(* ---------------- BN254 ---------------- *)
Definition bn_p : Z := 21888242871839275222246405745257275088696311157297823662689037894645226208583.
Definition bn_n : Z := 21888242871839275222246405745257275088548364400416034343698204186575808495617.
Definition bn_mu : Z := Eval vm_compute in (2 ^ 508 / bn_p).
(* Barrett reduction, 0 <= x < 2^508 *)
Definition bn_red (x : Z) : Z :=
  let q := Z.shiftr (Z.shiftr x 253 * bn_mu) 255 in
  let r := x - q * bn_p in
  let r := if r <? bn_p then r else r - bn_p in
  let r := if r <? bn_p then r else r - bn_p in
  if r <? bn_p then r else r mod bn_p.
Definition bn_F : field := mkField bn_p bn_red.

(* ---------------- field operations on reduced representatives ---------------- *)
Section Field.
  Variable F : field.
  Definition fmul (a b : Z) : Z := f_red F (a * b).
  Definition fsqr (a : Z) : Z := f_red F (a * a).
  Definition fadd (a b : Z) : Z := let s := a + b in if s <? f_p F then s else s - f_p F.
  Definition fsub (a b : Z) : Z := let d := a - b in if d <? 0 then d + f_p F else d.
  Definition fdbl (a : Z) : Z := fadd a a.

  (* modular inverse for odd prime modulus by the binary extended Euclid algorithm
     (only shifts, additions, subtractions); inverse of 0 is 0 *)
  Definition half_mod (x : Z) : Z := if Z.even x then Z.shiftr x 1 else Z.shiftr (x + f_p F) 1.
  Fixpoint finv_loop (fuel : nat) (u v x1 x2 : Z) : Z :=
    match fuel with
    | O => 0
    | S k =>
      if u =? 1 then x1 else if v =? 1 then x2 else
      if Z.even u then finv_loop k (Z.shiftr u 1) v (half_mod x1) x2
      else if Z.even v then finv_loop k u (Z.shiftr v 1) x1 (half_mod x2)
      else if v <=? u then finv_loop k (u - v) v (fsub x1 x2) x2
      else finv_loop k u (v - u) x1 (fsub x2 x1)
    end.
  Definition finv (a : Z) : Z := if a =? 0 then 0 else finv_loop 1100 a (f_p F) 1 0.

  Fixpoint fpow_pos (a : Z) (e : positive) : Z :=
    match e with
    | xH => a
    | xO e' => fsqr (fpow_pos a e')
    | xI e' => fmul (fsqr (fpow_pos a e')) a
    end.
  Definition fpow (a : Z) (e : Z) : Z := match e with Zpos e' => fpow_pos a e' | _ => 1 end.

  (* ---------- Jacobian points (X, Y, Z); Z = 0 is the point at infinity ---------- *)
  Definition jac := (Z * Z * Z)%type.
  Definition jinf : jac := (1, 1, 0).
  Definition of_affine (x y : Z) : jac := (x, y, 1).

  Definition jdbl (P : jac) : jac :=
    let '(x, y, z) := P in
    if (z =? 0) || (y =? 0) then jinf else
    let a := fsqr x in
    let b := fsqr y in
    let c := fsqr b in
    let d := fdbl (fsub (fsub (fsqr (fadd x b)) a) c) in
    let e := fadd (fdbl a) a in
    let f := fsqr e in
    let x3 := fsub f (fdbl d) in
    let y3 := fsub (fmul e (fsub d x3)) (fdbl (fdbl (fdbl c))) in
    let z3 := fdbl (fmul y z) in
    (x3, y3, z3).

  Definition jadd (P Q : jac) : jac :=
    let '(x1, y1, z1) := P in
    let '(x2, y2, z2) := Q in
    if z1 =? 0 then Q else if z2 =? 0 then P else
    let z1z1 := fsqr z1 in
    let z2z2 := fsqr z2 in
    let u1 := fmul x1 z2z2 in
    let u2 := fmul x2 z1z1 in
    let s1 := fmul (fmul y1 z2) z2z2 in
    let s2 := fmul (fmul y2 z1) z1z1 in
    if u1 =? u2 then (if s1 =? s2 then jdbl P else jinf) else
    let h := fsub u2 u1 in
    let r := fsub s2 s1 in
    let h2 := fsqr h in
    let h3 := fmul h h2 in
    let v := fmul u1 h2 in
    let x3 := fsub (fsub (fsqr r) h3) (fdbl v) in
    let y3 := fsub (fmul r (fsub v x3)) (fmul s1 h3) in
    let z3 := fmul (fmul h z1) z2 in
    (x3, y3, z3).

  Definition jneg (P : jac) : jac := let '(x, y, z) := P in (x, fsub 0 y, z).

  (* affine result; None = point at infinity *)
  Definition to_affine (P : jac) : option (Z * Z) :=
    let '(x, y, z) := P in
    if z =? 0 then None else
    let zi := finv z in
    let zi2 := fsqr zi in
    Some (fmul x zi2, fmul y (fmul zi2 zi)).

  (* k * P, double-and-add over the binary representation, most significant bit first *)
  Fixpoint jmul_pos (k : positive) (P : jac) : jac :=
    match k with
    | xH => P
    | xO k' => jdbl (jmul_pos k' P)
    | xI k' => jadd (jdbl (jmul_pos k' P)) P
    end.
  Definition jmul (k : Z) (P : jac) : jac :=
    match k with Zpos k' => jmul_pos k' P | _ => jinf end.

  (* a*P + b*Q by simultaneous double-and-add (Shamir) over [n] bits *)
  Fixpoint jmul2_loop (n : nat) (a b : Z) (P Q PQ acc : jac) : jac :=
    match n with
    | O => acc
    | S k =>
      let acc := jdbl acc in
      let i := Z.of_nat k in
      let acc := match Z.testbit a i, Z.testbit b i with
                 | true, true => jadd acc PQ
                 | true, false => jadd acc P
                 | false, true => jadd acc Q
                 | false, false => acc
                 end in
      jmul2_loop k a b P Q PQ acc
    end.
  Definition jmul2 (a : Z) (P : jac) (b : Z) (Q : jac) : jac :=
    jmul2_loop 256 a b P Q (jadd P Q) jinf.

  (* curve membership of an affine point, y^2 = x^3 + b *)
  Definition on_curve (b x y : Z) : bool := fsqr y =? fadd (fmul (fsqr x) x) b.
End Field.

(* ---------------- validation of the arithmetic ---------------- *)
Example secp_red_samples :
  forallb (fun x => secp_red x =? x mod secp_p)
    [0; 1; secp_p - 1; secp_p; secp_p + 1; pow256 - 1; pow256; (secp_p - 1) * (secp_p - 1);
     secp_gx * secp_gy; pow256 * pow256 - 1; secp_p * secp_p - 1; secp_c * pow256 + m256] = true.
Proof. vm_compute. reflexivity. Qed.
Example bn_red_samples :
  forallb (fun x => bn_red x =? x mod bn_p)
    [0; 1; bn_p - 1; bn_p; bn_p + 1; pow256 - 1; (bn_p - 1) * (bn_p - 1); bn_p * bn_p - 1;
     secp_gx mod bn_p * (secp_gy mod bn_p); 2 ^ 508 - 1; 2 ^ 253; 2 ^ 253 - 1; bn_p * 7 + 5] = true.
Proof. vm_compute. reflexivity. Qed.
Example finv_samples :
  forallb (fun x => fmul secp_F x (finv secp_F x) =? 1) [1; 2; 3; secp_gx; secp_gy; secp_p - 1; secp_p - 2] &&
  forallb (fun x => fmul bn_F x (finv bn_F x) =? 1) [1; 2; 3; 12345678901234567890; bn_p - 1; bn_p - 2] = true.
Proof. vm_compute. reflexivity. Qed.
(* n*G = infinity, (n-1)*G = -G, and 2G through both entry points *)
Example secp_order :
  to_affine secp_F (jmul secp_F secp_n (of_affine secp_gx secp_gy)) = None /\
  to_affine secp_F (jmul secp_F (secp_n - 1) (of_affine secp_gx secp_gy)) = Some (secp_gx, secp_p - secp_gy) /\
  to_affine secp_F (jmul2 secp_F 1 (of_affine secp_gx secp_gy) 1 (of_affine secp_gx secp_gy)) =
    Some (0xC6047F9441ED7D6D3045406E95C07CD85C778E4B8CEF3CA7ABAC09B95C709EE5,
          0x1AE168FEA63DC339A3C58419466CEAEEF7F632653266D0E1236431A950CFE52A).
Proof. vm_compute. repeat split. Qed.
Example bn_order :
  to_affine bn_F (jmul bn_F bn_n (of_affine 1 2)) = None /\
  to_affine bn_F (jmul bn_F (bn_n - 1) (of_affine 1 2)) = Some (1, bn_p - 2) /\
  on_curve bn_F 3 1 2 = true /\ on_curve secp_F 7 secp_gx secp_gy = true.
Proof. vm_compute. repeat split. Qed.
