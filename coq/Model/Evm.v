(* Stage C, part 2: frames and the transaction around the step function of Model/Step.v.

     crates/revm/src/evm.rs                         run_the_loop, transact_preverified_inner
     crates/revm/src/context/evm_context.rs         make_call_frame, make_create_frame, call_precompile
     crates/revm/src/context/inner_evm_context.rs   call_return, create_return, load_access_list
     crates/interpreter/src/interpreter.rs          insert_call_outcome, insert_create_outcome, run
     crates/revm/src/handler/mainnet/*.rs           load_accounts, deduct_caller, apply_eip7702_auth_list,
                                                    last_frame_return, refund, reimburse_caller,
                                                    reward_beneficiary, output
   The journaled-state side of the frame functions is Model/Frames.v (C07), the fee settlement is
   Model/Settlement.v (C09), intrinsic gas Model/Envelope.v (C02).  Frames are run by recursion on
   explicit fuel: one unit per instruction, a child frame runs on the fuel left at its call
   site.  [XOutOfFuel] is distinct from every EVM outcome.  Precompiles are an oracle table of
   the world ([w_pre]); a call that is not in the table is [XBad BAD_ORACLE]. *)
From RevmV Require Import Base.Word Model.Step.
From RevmV Require Model.Frames Model.Settlement.
Local Open Scope Z_scope.

Module Fr := Frames.
Module St := Settlement.

Definition BAD_ORACLE := 3.

Inductive xres (A : Type) := XDone (a : A) | XOutOfFuel | XBad (k : Z).
Arguments XDone {A}. Arguments XOutOfFuel {A}. Arguments XBad {A}.

(* InterpreterResult *)
Record iresult := mkIR { ir_res : Z; ir_out : list Z; ir_gas : Gas.gas }.

(* ---------------------------------------------------------------- address derivation *)
Fixpoint strip0 (l : list Z) : list Z :=
  match l with 0 :: r => strip0 r | _ => l end.
Definition rlp_u64 (n : Z) : list Z :=
  if n =? 0 then [0x80]
  else if n <? 0x80 then [n]
  else let bs := strip0 (to_be 8 n) in (0x80 + zlen bs) :: bs.
(* rlp([sender, nonce]): the payload is at most 21 + 9 bytes, so the list prefix is short *)
Definition rlp_sender_nonce (sender nonce : Z) : list Z :=
  let payload := (0x94 :: to_be 20 sender) ++ rlp_u64 nonce in
  (0xc0 + zlen payload) :: payload.
Definition low20 (h : list Z) : Z := be_bytes (skipn 12 h).
(* Address::create *)
Definition create_address (sender nonce : Z) : Z :=
  low20 (Keccak.keccak256 (rlp_sender_nonce sender nonce)).
(* Address::create2 *)
Definition create2_address (sender salt : Z) (init_hash : list Z) : Z :=
  low20 (Keccak.keccak256 (0xff :: to_be 20 sender ++ to_be 32 salt ++ init_hash)).

(* ---------------------------------------------------------------- precompile oracle *)
Definition zlist_eqb (a b : list Z) : bool :=
  (fix go a b := match a, b with
                 | [], [] => true
                 | x :: a', y :: b' => (x =? y) && go a' b'
                 | _, _ => false end) a b.
Fixpoint pre_lookup (t : list (Z * Z * list Z * pc_result)) (a gl : Z) (input : list Z) : option pc_result :=
  match t with
  | [] => None
  | (a', gl', i', r) :: rest =>
      if (a' =? a) && (gl' =? gl) && zlist_eqb i' input then Some r else pre_lookup rest a gl input
  end.
(* EvmContext::call_precompile on the looked-up outcome *)
Definition precompile_result (gl : Z) (o : pc_result) : iresult :=
  let gas := Gas.gas_new gl in
  match o with
  | POk used out =>
      (* gas_used is a u64 *)
      if used <? 0 then mkIR R_PrecompileError [] gas else
      let '(g', ok) := Gas.record_cost gas used in
      if ok then mkIR R_Return out g' else mkIR R_PrecompileOOG [] gas
  | POog => mkIR R_PrecompileOOG [] gas
  | PErr => mkIR R_PrecompileError [] gas
  end.

(* ---------------------------------------------------------------- frames *)
Definition rec_t := gstate -> fctx -> istate -> xres (gstate * iresult).

Definition code_of_account (G : gstate) (s : H.jstate) (a : Z) : option (list Z) :=
  match H.st s a with
  | None => None
  | Some acc =>
      let id := H.a_code acc in
      let id' := match delegate_of_id (g_codes G) id with
                 | Some t => match H.st s t with Some tacc => H.a_code tacc | None => 0 end
                 | None => id end in
      code_bytes (g_codes G) id'
  end.

(* make_call_frame, the frame's execution, call_return *)
Definition do_call (W : world) (rec : rec_t) (G : gstate) (c : callreq) : xres (gstate * iresult) :=
  let gl := cq_gas_limit c in
  let gas := Gas.gas_new gl in
  let oracle := if is_precompile W (cq_bytecode c)
                then Some (pre_lookup (w_pre W) (cq_bytecode c) gl (cq_input c)) else None in
  let pres := match oracle with
              | Some (Some o) => Some (precompile_result gl o)
              | _ => None end in
  let ci := Fr.mkCI (cq_caller c) (cq_target c) (cq_bytecode c)
              (if cq_transfers c then Fr.Transfer (cq_value c) else Fr.Apparent (cq_value c))
              false
              (match oracle with
               | Some _ => Some (match pres with Some r => is_ok (ir_res r) | None => false end)
               | None => None end)
              false in
  match Fr.make_call_frame (gdb W G) (g_sc G) ci with
  | None => XBad BAD_PANIC
  | Some (sc1, Fr.FResult r) =>
      let G1 := set_sc G sc1 in
      match r with
      | Fr.RCallTooDeep => XDone (G1, mkIR R_CallTooDeep [] gas)
      | Fr.ROutOfFunds => XDone (G1, mkIR R_OutOfFunds [] gas)
      | Fr.ROverflowPayment => XDone (G1, mkIR R_OverflowPayment [] gas)
      | Fr.RStop => XDone (G1, mkIR R_Stop [] gas)
      | Fr.RPrecompile _ =>
          match pres with Some pr => XDone (G1, pr) | None => XBad BAD_ORACLE end
      | _ => XBad BAD_PANIC
      end
  | Some (sc1, Fr.FFrame _) =>
      let G1 := set_sc G sc1 in
      match code_of_account G1 (fst sc1) (cq_bytecode c) with
      | None => XBad BAD_PANIC
      | Some code =>
          let F := mk_fctx code (cq_input c) (cq_target c) (cq_caller c) (cq_value c) (cq_static c) in
          match rec G1 F (istate_new gl) with
          | XDone (G2, r) =>
              match Fr.call_return (g_sc G2) (is_ok (ir_res r)) with
              | Some sc3 => XDone (set_sc G2 sc3, r)
              | None => XBad BAD_PANIC
              end
          | XOutOfFuel => XOutOfFuel
          | XBad k => XBad k
          end
      end
  end.

(* InnerEvmContext::create_return *)
Definition create_return (W : world) (G : gstate) (created : Z) (r : iresult) : option (gstate * iresult) :=
  let spec := w_spec W in
  let fail (r' : iresult) :=
    match Fr.create_return (g_sc G) created Fr.CRFail with
    | Some sc => Some (set_sc G sc, r') | None => None end in
  let out := ir_out r in
  if negb (is_ok (ir_res r)) then fail r
  else if en spec E.LONDON && (match out with 0xef :: _ => true | _ => false end)
  then fail (mkIR R_CreateContractStartingWithEF out (ir_gas r))
  else if en spec E.SPURIOUS_DRAGON && (zlen out >? G.MAX_CODE_SIZE)
  then fail (mkIR R_CreateContractSizeLimit out (ir_gas r))
  else
    let '(g', ok) := Gas.record_cost (ir_gas r) (zlen out * G.CODEDEPOSIT) in
    if negb ok && en spec E.HOMESTEAD then fail (mkIR R_OutOfGas out (ir_gas r))
    else
      let out' := if ok then out else [] in
      let '(G1, id) := add_code G out' in
      match Fr.create_return (g_sc G1) created (Fr.CRCommit id) with
      | Some sc => Some (set_sc G1 sc, mkIR R_Return out' g')
      | None => None
      end.

(* make_create_frame, the init code's execution, create_return; the created address *)
Definition do_create (W : world) (rec : rec_t) (G : gstate) (c : createreq)
    : xres (gstate * iresult * option Z) :=
  let gl := kq_gas_limit c in
  let gas := Gas.gas_new gl in
  let caller := kq_caller c in
  let '(s1, _) := H.load_account (gdb W G) (gs G) caller in
  let nonce := match H.st s1 caller with Some a => H.a_nonce a | None => 0 end in
  let created := match kq_salt c with
                 | None => create_address caller nonce
                 | Some salt => create2_address caller salt (Keccak.keccak256 (kq_init c))
                 end in
  let cr := Fr.mkCR caller (kq_value c) created false (is_precompile W created) (has_storage W created) in
  match Fr.make_create_frame (gdb W G) (g_sc G) cr with
  | None => XBad BAD_PANIC
  | Some (sc1, Fr.FResult r) =>
      let G1 := set_sc G sc1 in
      match r with
      | Fr.RCallTooDeep => XDone (G1, mkIR R_CallTooDeep [] gas, None)
      | Fr.ROutOfFunds => XDone (G1, mkIR R_OutOfFunds [] gas, None)
      | Fr.RNonceOverflow => XDone (G1, mkIR R_Return [] gas, None)
      | Fr.RCreateCollision => XDone (G1, mkIR R_CreateCollision [] gas, None)
      | Fr.ROverflowPayment => XDone (G1, mkIR R_OverflowPayment [] gas, None)
      | _ => XBad BAD_PANIC
      end
  | Some (sc1, Fr.FFrame _) =>
      let G1 := set_sc G sc1 in
      let F := mk_fctx (kq_init c) [] created caller (kq_value c) false in
      match rec G1 F (istate_new gl) with
      | XDone (G2, r) =>
          match create_return W G2 created r with
          | Some (G3, r') => XDone (G3, r', Some created)
          | None => XBad BAD_PANIC
          end
      | XOutOfFuel => XOutOfFuel
      | XBad k => XBad k
      end
  end.

(* Interpreter::insert_call_outcome *)
Definition insert_call_outcome (I : istate) (c : callreq) (r : iresult) : option istate :=
  let out := ir_out r in
  let I1 := set_pc (set_rd I out) (i_pc I + 1) in
  let tl := Z.min (cq_ret_len c) (zlen out) in
  let put_mem (I2 : istate) (flag : Z) : option istate :=
    let '(m', panicked) := M.set (i_mem I2) (cq_ret_off c) (firstn (Z.to_nat tl) out) in
    if panicked then None else Some (set_stk (set_mem I2 m') (flag :: i_stk I2)) in
  if is_ok (ir_res r) then
    match Gas.erase_cost (i_gas I1) (Gas.remaining (ir_gas r)) with
    | None => None
    | Some g1 =>
        match Gas.record_refund g1 (Gas.refunded (ir_gas r)) with
        | None => None
        | Some g2 => put_mem (set_gas I1 g2) 1
        end
    end
  else if is_revert (ir_res r) then
    match Gas.erase_cost (i_gas I1) (Gas.remaining (ir_gas r)) with
    | None => None
    | Some g1 => put_mem (set_gas I1 g1) 0
    end
  else Some (set_stk I1 (0 :: i_stk I1)).

(* Interpreter::insert_create_outcome *)
Definition insert_create_outcome (I : istate) (r : iresult) (address : option Z) : option istate :=
  let I1 := set_pc (set_rd I (if is_revert (ir_res r) then ir_out r else [])) (i_pc I + 1) in
  if is_ok (ir_res r) then
    match Gas.erase_cost (i_gas I1) (Gas.remaining (ir_gas r)) with
    | None => None
    | Some g1 =>
        match Gas.record_refund g1 (Gas.refunded (ir_gas r)) with
        | None => None
        | Some g2 => Some (set_stk (set_gas I1 g2) (match address with Some a => a | None => 0 end :: i_stk I1))
        end
    end
  else if is_revert (ir_res r) then
    match Gas.erase_cost (i_gas I1) (Gas.remaining (ir_gas r)) with
    | None => None
    | Some g1 => Some (set_stk (set_gas I1 g1) (0 :: i_stk I1))
    end
  else Some (set_stk I1 (0 :: i_stk I1)).

(* Interpreter::run + Evm::run_the_loop, as recursion over frames *)
Fixpoint exec (fuel : nat) (W : world) (G : gstate) (F : fctx) (I : istate) {struct fuel}
    : xres (gstate * iresult) :=
  match fuel with
  | O => XOutOfFuel
  | S f =>
      match step W G F I with
      | (G1, SNext I1) => exec f W G1 F I1
      | (G1, SEnd r out I1) => XDone (G1, mkIR r out (i_gas I1))
      | (G1, SCall c I1) =>
          match do_call W (exec f W) G1 c with
          | XDone (G2, r) =>
              match insert_call_outcome I1 c r with
              | Some I2 => exec f W G2 F I2
              | None => XBad BAD_PANIC
              end
          | XOutOfFuel => XOutOfFuel
          | XBad k => XBad k
          end
      | (G1, SCreate c I1) =>
          match do_create W (exec f W) G1 c with
          | XDone (G2, r, a) =>
              match insert_create_outcome I1 r a with
              | Some I2 => exec f W G2 F I2
              | None => XBad BAD_PANIC
              end
          | XOutOfFuel => XOutOfFuel
          | XBad k => XBad k
          end
      | (G1, SBad k) => XBad k
      end
  end.

(* ---------------------------------------------------------------- the transaction *)
(* EIP-2935 history storage contract (final EIP address). It is NOT pre-warmed: neither the final
   EIP nor the Prague execution specification adds it to the accessed addresses (the tree used to
   pre-warm an early draft's address; repaired by a fix: commit, see known_findings.json). *)
Definition BLOCKHASH_STORAGE_ADDRESS : Z := 0x0000F90827F1C53a10cb7A02335B175320002935.

Definition warm_preloaded (W : world) (a : Z) : bool :=
  is_precompile W a
  || (en (w_spec W) E.SHANGHAI && (a =? w_coinbase W)).

Definition gstate_new (W : world) : gstate :=
  mkG (H.jnew (en (w_spec W) E.SPURIOUS_DRAGON) (en (w_spec W) E.CANCUN) (warm_preloaded W), [])
      (w_codes W) [] 0.

(* load_access_list *)
Definition load_access_list (W : world) (G : gstate) : gstate :=
  fold_left (fun G it => set_s G (H.initial_account_load (gdb W G) (gs G) (fst it) (snd it)))
            (w_access_list W) G.

(* deduct_caller: load, new balance, nonce bump for calls, mark_touch (none of it journaled) *)
Definition deduct_caller (W : world) (G : gstate) : option gstate :=
  let '(s1, _) := H.load_account (gdb W G) (gs G) (w_caller W) in
  match H.st s1 (w_caller W) with
  | None => None
  | Some acc =>
      match St.deduct_caller_inner (w_spec W) (w_env W) (H.a_bal acc) with
      | None => None
      | Some b =>
          let acc1 := H.acc_bal acc b in
          let acc2 := match w_to W with
                      | Some _ => H.acc_nonce acc1 (sat64 (H.a_nonce acc1 + 1))
                      | None => acc1 end in
          Some (set_s G (H.put s1 (w_caller W) (H.acc_touched acc2 true)))
      end
  end.

(* apply_eip7702_auth_list: returns the state and the number of refunded accounts *)
Fixpoint apply_auths (W : world) (G : gstate) (l : list (option Z * Z * Z * Z)) (refunded : Z)
    : gstate * Z :=
  match l with
  | [] => (G, refunded)
  | (authority, chain_id, address, nonce) :: rest =>
      if negb (chain_id =? 0) && negb (chain_id =? E.c_chain_id (E.e_cfg (w_env W)))
      then apply_auths W G rest refunded
      else if nonce =? pow64 - 1 then apply_auths W G rest refunded
      else
        match authority with
        | None => apply_auths W G rest refunded
        | Some au =>
            let '(s1, _) := H.load_code (gdb W G) (gs G) au in
            let G1 := set_s G s1 in
            match H.st s1 au with
            | None => apply_auths W G1 rest refunded
            | Some acc =>
                let code := match code_bytes (g_codes G1) (H.a_code acc) with Some b => b | None => [] end in
                let is_7702 := match delegation_of code with Some _ => true | None => false end in
                if negb (zlen code =? 0) && negb is_7702 then apply_auths W G1 rest refunded
                else if negb (nonce =? H.a_nonce acc) then apply_auths W G1 rest refunded
                else
                  let refunded' := if H.is_empty_acc acc then refunded else refunded + 1 in
                  let '(G2, id) := if address =? 0 then (G1, 0) else add_code G1 (eip7702_code address) in
                  let acc' := H.acc_touched (H.acc_nonce (H.acc_code acc id) (sat64 (H.a_nonce acc + 1))) true in
                  apply_auths W (set_s G2 (H.put (gs G2) au acc')) rest refunded'
            end
        end
  end.

(* ExecutionResult + what is compared *)
Record tx_result := mkTR {
  tr_class : Z;                 (* 0 success | 1 revert | 2 halt *)
  tr_reason : Z;                (* the InstructionResult the first frame ended with *)
  tr_gas_used : Z; tr_gas_refunded : Z;
  tr_out : list Z; tr_created : option Z;
  tr_logs : list logrec;
  tr_state : H.jstate; tr_codes : codes_t }.

Definition frame_class (r : Z) : St.frame_class :=
  if is_ok r then St.FOk else if is_revert r then St.FRevert else St.FHalt.
(* SuccessOrHalt::from *)
Definition result_class (r : Z) : Z :=
  if (1 <=? r) && (r <=? 3) then 0
  else if (r =? R_Revert) || (r =? 19) || (r =? 20) then 1
  else 2.

Definition log_of_id (G : gstate) (i : Z) : logrec :=
  nth (Z.to_nat (g_nlog G - 1 - i)) (g_logtab G) (mkLog 0 [] []).

(* reimburse_caller, reward_beneficiary on the journaled state *)
Definition settle (W : world) (G : gstate) (g : Gas.gas) : option gstate :=
  let '(s1, _) := H.load_account (gdb W G) (gs G) (w_caller W) in
  match H.st s1 (w_caller W) with
  | None => None
  | Some cacc =>
      match St.reimburse_caller (w_env W) g (H.a_bal cacc) with
      | None => None
      | Some b =>
          let s2 := H.put s1 (w_caller W) (H.acc_bal cacc b) in
          let '(s3, _) := H.load_account (gdb W G) s2 (w_coinbase W) in
          match H.st s3 (w_coinbase W) with
          | None => None
          | Some bacc =>
              match St.reward_beneficiary (w_spec W) (w_env W) g (H.a_bal bacc) with
              | None => None
              | Some bb => Some (set_s G (H.put s3 (w_coinbase W) (H.acc_bal (H.acc_touched bacc true) bb)))
              end
          end
      end
  end.

(* transact_preverified_inner *)
Definition run_tx (fuel : nat) (W : world) : xres tx_result :=
  let spec := w_spec W in
  let '(initial_gas, floor_gas) := E.initial_and_floor spec (w_env W) in
  let G0 := load_access_list W (gstate_new W) in
  match deduct_caller W G0 with
  | None => XBad BAD_PANIC
  | Some G1 =>
      let gas_limit := E.tx_gas_limit (E.e_tx (w_env W)) - initial_gas in
      let '(G2, refunded_accounts) :=
        if en spec E.PRAGUE then apply_auths W G1 (w_auth_list W) 0 else (G1, 0) in
      let eip7702_refund := refunded_accounts * (G.PER_EMPTY_ACCOUNT_COST - G.PER_AUTH_BASE_COST) in
      let first : xres (gstate * iresult * option Z) :=
        match w_to W with
        | Some to =>
            match do_call W (exec fuel W) G2
                    (mkCall SchCall gas_limit to (w_caller W) to (w_value W) true false (w_data W) 0 0) with
            | XDone (G3, r) => XDone (G3, r, None)
            | XOutOfFuel => XOutOfFuel
            | XBad k => XBad k
            end
        | None => do_create W (exec fuel W) G2 (mkCreate (w_caller W) None (w_value W) (w_data W) gas_limit)
        end in
      match first with
      | XOutOfFuel => XOutOfFuel
      | XBad k => XBad k
      | XDone (G3, r, created) =>
          let fr := St.mkFrame (frame_class (ir_res r)) (Gas.remaining (ir_gas r)) (Gas.refunded (ir_gas r)) in
          match St.last_frame_return (w_env W) fr with
          | None => XBad BAD_PANIC
          | Some g1 =>
              match St.refund spec g1 eip7702_refund with
              | None => XBad BAD_PANIC
              | Some g2 =>
                  let g3 := St.floor_step g2 floor_gas in
                  match settle W G3 g3, St.output_gas g3 with
                  | Some G4, Some (used, refd) =>
                      let cls := result_class (ir_res r) in
                      XDone (mkTR cls (ir_res r) used refd
                               (if cls =? 2 then [] else ir_out r)
                               (if cls =? 0 then created else None)
                               (if cls =? 0 then map (log_of_id G4) (H.logs (gs G4)) else [])
                               (gs G4) (g_codes G4))
                  | _, _ => XBad BAD_PANIC
                  end
              end
          end
      end
  end.
