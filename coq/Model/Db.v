(* C20 model: the database wrappers of revm, function by function.
     crates/revm/src/db/in_memory_db.rs     CacheDB, DbAccount, AccountState
     crates/revm/src/db/states/state.rs     State: the read side (Database impl)
     crates/primitives/src/db.rs            WrapDatabaseRef, auto_impl(&mut, Box, &, Rc, Arc)
     crates/primitives/src/db/components.rs DatabaseComponents
   The wrapped database is plain data ([udb], Spec/DbSpec.v) and is never written (CacheDB:
   "data is never written to this database").  All modelled databases are infallible: the
   propagation of an error of the wrapped database by [?] is not modelled.
   Every &mut query returns the new cache and the answer; the _ref variants return the answer. *)
From stdpp Require Import gmap.
From Coq Require Import ZArith.
From RevmV Require Export Spec.DbSpec.
Local Open Scope Z_scope.

(* ------------------------------------------------------------------ CacheDB *)
Inductive astate := NotExisting | Touched | StorageCleared | SNone.
Record dbacc := mkAcc { a_info : info; a_state : astate; a_storage : gmap Z Z }.
Record cachedb := mkC { c_accounts : gmap Z dbacc; c_contracts : gmap Z Z; c_bh : gmap Z Z }.

(* CacheDB::new: the empty bytecode under KECCAK_EMPTY and under the zero hash *)
Definition cache_new : cachedb := mkC ∅ (<[KECCAK_EMPTY := 0]> (<[0 := 0]> ∅)) ∅.

(* matches!(state, StorageCleared | NotExisting) *)
Definition cleared (s : astate) : bool :=
  match s with StorageCleared | NotExisting => true | _ => false end.
(* DbAccount::default / new_not_existing / From<Option<AccountInfo>> / info() *)
Definition acc_default : dbacc := mkAcc info_default SNone ∅.
Definition acc_not_existing : dbacc := mkAcc info_default NotExisting ∅.
Definition acc_from (o : option info) : dbacc :=
  match o with Some i => mkAcc i SNone ∅ | None => acc_not_existing end.
Definition acc_info (a : dbacc) : option info :=
  match a_state a with NotExisting => None | _ => Some (a_info a) end.

Definition set_accounts (c : cachedb) (m : gmap Z dbacc) : cachedb := mkC m (c_contracts c) (c_bh c).
Definition set_contracts (c : cachedb) (m : gmap Z Z) : cachedb := mkC (c_accounts c) m (c_bh c).

(* insert_contract: returns the contracts map and the info as modified in place *)
Definition insert_contract (contracts : gmap Z Z) (ii : info_in) : gmap Z Z * info :=
  let i := ii_info ii in
  let '(contracts1, h1) :=
    match ii_code ii with
    | Some (cid, hs) =>
      if cid =? 0 then (contracts, i_code_hash i)             (* code.is_empty() *)
      else
        let h := if i_code_hash i =? KECCAK_EMPTY then hs else i_code_hash i in
        (match contracts !! h with Some _ => contracts | None => <[h := cid]> contracts end, h)
    | None => (contracts, i_code_hash i)
    end in
  (contracts1, mkInfo (i_nonce i) (i_balance i) (if h1 =? 0 then KECCAK_EMPTY else h1)).

(* insert_account_info: entry(address).or_default().info = info; an account cached as not
   existing becomes an existing account with cleared storage *)
Definition unhide (s : astate) : astate := match s with NotExisting => StorageCleared | _ => s end.
Definition insert_account_info (c : cachedb) (a : Z) (ii : info_in) : cachedb :=
  let '(ct, i) := insert_contract (c_contracts c) ii in
  let old := default acc_default (c_accounts c !! a) in
  mkC (<[a := mkAcc i (unhide (a_state old)) (a_storage old)]> (c_accounts c)) ct (c_bh c).

(* load_account *)
Definition load_account (u : udb) (c : cachedb) (a : Z) : cachedb * dbacc :=
  match c_accounts c !! a with
  | Some acc => (c, acc)
  | None => let acc := acc_from (p_basic u a) in (set_accounts c (<[a := acc]> (c_accounts c)), acc)
  end.
Definition insert_account_storage (u : udb) (c : cachedb) (a k v : Z) : cachedb :=
  let '(c1, acc) := load_account u c a in
  set_accounts c1 (<[a := mkAcc (a_info acc) (a_state acc) (<[k := v]> (a_storage acc))]> (c_accounts c1)).
Definition replace_account_storage (u : udb) (c : cachedb) (a : Z) (l : list (Z * Z)) : cachedb :=
  let '(c1, acc) := load_account u c a in
  set_accounts c1 (<[a := mkAcc (a_info acc) StorageCleared (write_slots l ∅)]> (c_accounts c1)).

(* DatabaseCommit for CacheDB, one (address, account) of the changes *)
Definition commit_one (c : cachedb) (ac : Z * change) : cachedb :=
  let '(a, ch) := ac in
  if negb (ch_touched ch) then c
  else if ch_selfdestructed ch then
    set_accounts c (<[a := acc_not_existing]> (c_accounts c))
  else
    let '(ct, i) := insert_contract (c_contracts c) (ch_info ch) in
    let old := default acc_default (c_accounts c !! a) in
    let st := if ch_created ch then StorageCleared
              else if cleared (a_state old) then StorageCleared else Touched in
    let base := if ch_created ch then ∅ else a_storage old in
    mkC (<[a := mkAcc i st (write_slots (ch_storage ch) base)]> (c_accounts c)) ct (c_bh c).
Definition commit (c : cachedb) (l : list (Z * change)) : cachedb := fold_left commit_one l c.

(* Database for CacheDB *)
Definition basic (u : udb) (c : cachedb) (a : Z) : cachedb * option info :=
  match c_accounts c !! a with
  | Some acc => (c, acc_info acc)
  | None => let acc := acc_from (p_basic u a) in
            (set_accounts c (<[a := acc]> (c_accounts c)), acc_info acc)
  end.
Definition code_by_hash (u : udb) (c : cachedb) (h : Z) : cachedb * Z :=
  match c_contracts c !! h with
  | Some x => (c, x)
  | None => let x := p_code_by_hash u h in (set_contracts c (<[h := x]> (c_contracts c)), x)
  end.
Definition storage (u : udb) (c : cachedb) (a k : Z) : cachedb * Z :=
  match c_accounts c !! a with
  | Some acc =>
    match a_storage acc !! k with
    | Some v => (c, v)
    | None =>
      if cleared (a_state acc) then (c, 0)
      else let v := p_storage u a k in
           (set_accounts c (<[a := mkAcc (a_info acc) (a_state acc) (<[k := v]> (a_storage acc))]> (c_accounts c)), v)
    end
  | None =>
    match p_basic u a with
    | Some i => let v := p_storage u a k in
                (set_accounts c (<[a := mkAcc i SNone (<[k := v]> ∅)]> (c_accounts c)), v)
    | None => (set_accounts c (<[a := acc_not_existing]> (c_accounts c)), 0)
    end
  end.
Definition block_hash (u : udb) (c : cachedb) (n : Z) : cachedb * Z :=
  match c_bh c !! n with
  | Some x => (c, x)
  | None => let x := p_block_hash u n in (mkC (c_accounts c) (c_contracts c) (<[n := x]> (c_bh c)), x)
  end.

(* DatabaseRef for CacheDB *)
Definition basic_ref (u : udb) (c : cachedb) (a : Z) : option info :=
  match c_accounts c !! a with Some acc => acc_info acc | None => p_basic u a end.
Definition code_by_hash_ref (u : udb) (c : cachedb) (h : Z) : Z :=
  match c_contracts c !! h with Some x => x | None => p_code_by_hash u h end.
Definition has_storage_ref (u : udb) (c : cachedb) (a : Z) : bool :=
  match c_accounts c !! a with
  | Some acc => if any_nonzero (a_storage acc) then true
                else if cleared (a_state acc) then false else u_has u a
  | None => u_has u a
  end.
Definition storage_ref (u : udb) (c : cachedb) (a k : Z) : Z :=
  match c_accounts c !! a with
  | Some acc => match a_storage acc !! k with
                | Some v => v
                | None => if cleared (a_state acc) then 0 else p_storage u a k
                end
  | None => p_storage u a k
  end.
Definition block_hash_ref (u : udb) (c : cachedb) (n : Z) : Z :=
  match c_bh c !! n with Some x => x | None => p_block_hash u n end.
(* Database::has_storage for CacheDB = self.has_storage_ref(address) *)
Definition has_storage (u : udb) (c : cachedb) (a : Z) : cachedb * bool := (c, has_storage_ref u c a).

(* ------------------------------------------------------------------ histories *)
(* How a query reaches the CacheDB.  The forwards generated by auto_impl for &mut, Box (Database,
   DatabaseCommit) and &, &mut, Box, Rc, Arc (DatabaseRef) call the same method on the wrapped
   value: they are identity wrappers, and so is every method of WrapDatabaseRef (which calls the
   _ref method).  DatabaseComponents forwards basic / code_by_hash / storage to its state
   component and block_hash to its block-hash component and does not define has_storage: the
   trait default answers false. *)
Inductive via := ViaMut      (* the Database methods: direct, through &mut, Box<T>, Box<dyn Database> *)
               | ViaRef      (* the DatabaseRef methods: direct, through &, Box, Rc, Arc, WrapDatabaseRef *)
               | ViaComp     (* DatabaseComponents { state, block_hash } over the &mut methods *)
               | ViaCompRef. (* DatabaseComponents over components that call the _ref methods *)
Inductive query := QBasic (a : Z) | QStorage (a k : Z) | QCode (h : Z) | QBlockHash (n : Z) | QHas (a : Z).
Inductive op :=
  | Query (w : via) (q : query)
  | Commit (l : list (Z * change))
  | InsInfo (a : Z) (ii : info_in)
  | InsStorage (a k v : Z)
  | ReplStorage (a : Z) (l : list (Z * Z))
  | InsContract (ii : info_in).
Inductive ans := AInfo (o : option info) | AWord (z : Z) | ABool (b : bool) | AUnit | APanic.

Definition query_mut (u : udb) (c : cachedb) (q : query) : cachedb * ans :=
  match q with
  | QBasic a => let '(c', r) := basic u c a in (c', AInfo r)
  | QStorage a k => let '(c', r) := storage u c a k in (c', AWord r)
  | QCode h => let '(c', r) := code_by_hash u c h in (c', AWord r)
  | QBlockHash n => let '(c', r) := block_hash u c n in (c', AWord r)
  | QHas a => let '(c', r) := has_storage u c a in (c', ABool r)
  end.
Definition query_ref (u : udb) (c : cachedb) (q : query) : ans :=
  match q with
  | QBasic a => AInfo (basic_ref u c a)
  | QStorage a k => AWord (storage_ref u c a k)
  | QCode h => AWord (code_by_hash_ref u c h)
  | QBlockHash n => AWord (block_hash_ref u c n)
  | QHas a => ABool (has_storage_ref u c a)
  end.
Definition query_comp (u : udb) (c : cachedb) (q : query) : cachedb * ans :=
  match q with
  | QHas _ => (c, ABool false)            (* Database::has_storage trait default *)
  | _ => query_mut u c q
  end.

Definition step (u : udb) (c : cachedb) (o : op) : cachedb * ans :=
  match o with
  | Query ViaMut q => query_mut u c q
  | Query ViaRef q => (c, query_ref u c q)
  | Query ViaComp q => query_comp u c q
  | Query ViaCompRef q => (c, match q with QHas _ => ABool false | _ => query_ref u c q end)
  | Commit l => (commit c l, AUnit)
  | InsInfo a ii => (insert_account_info c a ii, AUnit)
  | InsStorage a k v => (insert_account_storage u c a k v, AUnit)
  | ReplStorage a l => (replace_account_storage u c a l, AUnit)
  | InsContract ii => let '(ct, i) := insert_contract (c_contracts c) ii in
                      (set_contracts c ct, AWord (i_code_hash i))
  end.
Fixpoint run (u : udb) (c : cachedb) (h : list op) : list ans :=
  match h with
  | [] => []
  | o :: r => let '(c', x) := step u c o in x :: run u c' r
  end.
Fixpoint run_state (u : udb) (c : cachedb) (h : list op) : cachedb :=
  match h with [] => c | o :: r => run_state u (fst (step u c o)) r end.

(* the same history on plain data *)
Definition spec_query (s : udb) (q : query) : ans :=
  match q with
  | QBasic a => AInfo (p_basic s a)
  | QStorage a k => AWord (p_storage s a k)
  | QCode h => AWord (p_code_by_hash s h)
  | QBlockHash n => AWord (p_block_hash s n)
  | QHas a => ABool (p_has_storage s a)
  end.
Definition spec_step (s : udb) (o : op) : udb * ans :=
  match o with
  | Query _ q => (s, spec_query s q)
  | Commit l => (s_commit s l, AUnit)
  | InsInfo a ii => (s_insert_account_info s a ii, AUnit)
  | InsStorage a k v => (s_insert_account_storage s a k v, AUnit)
  | ReplStorage a l => (s_replace_account_storage s a l, AUnit)
  | InsContract ii => (s_insert_contract s ii, AWord (norm_hash ii))
  end.
Fixpoint spec_run (s : udb) (h : list op) : list ans :=
  match h with
  | [] => []
  | o :: r => let '(s', x) := spec_step s o in x :: spec_run s' r
  end.

(* ------------------------------------------------------------------ State (read side) *)
(* CacheAccount { account: Option<PlainAccount>, status }: of the status only
   is_storage_known() is read by the queries *)
Record sacc := mkSAcc { sa_acc : option (info * gmap Z Z); sa_known : bool }.
Record sstate := mkS { st_accounts : gmap Z sacc; st_contracts : gmap Z Z; st_bh : gmap Z Z }.
Definition state_new : sstate := mkS ∅ ∅ ∅.
Definition BLOCK_HASH_HISTORY : Z := 256.

(* AccountInfo::is_empty *)
Definition info_is_empty (i : info) : bool :=
  ((i_code_hash i =? KECCAK_EMPTY) || (i_code_hash i =? 0)) && (i_balance i =? 0) && (i_nonce i =? 0).
(* CacheState::insert_not_existing / insert_account / insert_account_with_storage *)
Definition sacc_of_info (i : info) (m : gmap Z Z) : sacc :=
  if info_is_empty i then mkSAcc (Some (info_default, m)) false   (* LoadedEmptyEIP161 *)
  else mkSAcc (Some (i, m)) false.                                (* Loaded *)
Definition sacc_not_existing : sacc := mkSAcc None true.          (* LoadedNotExisting *)
Definition st_set_accounts (s : sstate) (m : gmap Z sacc) := mkS m (st_contracts s) (st_bh s).

(* load_cache_account (no preloaded bundle) *)
Definition load_cache_account (u : udb) (s : sstate) (a : Z) : sstate * sacc :=
  match st_accounts s !! a with
  | Some x => (s, x)
  | None => let x := match p_basic u a with None => sacc_not_existing | Some i => sacc_of_info i ∅ end in
            (st_set_accounts s (<[a := x]> (st_accounts s)), x)
  end.
Definition st_basic (u : udb) (s : sstate) (a : Z) : sstate * option info :=
  let '(s', x) := load_cache_account u s a in (s', option_map fst (sa_acc x)).
Definition st_code_by_hash (u : udb) (s : sstate) (h : Z) : sstate * Z :=
  match st_contracts s !! h with
  | Some x => (s, x)
  | None => let x := p_code_by_hash u h in (mkS (st_accounts s) (<[h := x]> (st_contracts s)) (st_bh s), x)
  end.
Definition st_has_storage (u : udb) (s : sstate) (a : Z) : bool :=
  match st_accounts s !! a with
  | Some x =>
    if match sa_acc x with Some (_, m) => any_nonzero m | None => false end then true
    else if sa_known x then false else u_has u a
  | None => u_has u a
  end.
(* [None] = unreachable!("For accessing any storage account is guaranteed to be loaded beforehand") *)
Definition st_storage (u : udb) (s : sstate) (a k : Z) : option (sstate * Z) :=
  match st_accounts s !! a with
  | Some x =>
    match sa_acc x with
    | Some (i, m) =>
      match m !! k with
      | Some v => Some (s, v)
      | None => let v := if sa_known x then 0 else p_storage u a k in
                Some (st_set_accounts s (<[a := mkSAcc (Some (i, <[k := v]> m)) (sa_known x)]> (st_accounts s)), v)
      end
    | None => Some (s, 0)
    end
  | None => None
  end.
(* block_hash: insert, then drop every cached number below number.saturating_sub(256) *)
Definition st_block_hash (u : udb) (s : sstate) (n : Z) : sstate * Z :=
  match st_bh s !! n with
  | Some x => (s, x)
  | None =>
    let x := p_block_hash u n in
    let last := Z.max 0 (n - BLOCK_HASH_HISTORY) in
    (mkS (st_accounts s) (st_contracts s) (filter (fun kv => last <= fst kv) (<[n := x]> (st_bh s))), x)
  end.

Inductive sop :=
  | SQuery (q : query)
  | SInsNotExisting (a : Z)
  | SInsAccount (a : Z) (i : info) (l : list (Z * Z)).   (* insert_account(_with_storage) *)
Definition st_step (u : udb) (s : sstate) (o : sop) : sstate * ans :=
  match o with
  | SQuery (QBasic a) => let '(s', r) := st_basic u s a in (s', AInfo r)
  | SQuery (QStorage a k) => match st_storage u s a k with Some (s', r) => (s', AWord r) | None => (s, APanic) end
  | SQuery (QCode h) => let '(s', r) := st_code_by_hash u s h in (s', AWord r)
  | SQuery (QBlockHash n) => let '(s', r) := st_block_hash u s n in (s', AWord r)
  | SQuery (QHas a) => (s, ABool (st_has_storage u s a))
  | SInsNotExisting a => (st_set_accounts s (<[a := sacc_not_existing]> (st_accounts s)), AUnit)
  | SInsAccount a i l => (st_set_accounts s (<[a := sacc_of_info i (write_slots l ∅)]> (st_accounts s)), AUnit)
  end.
Fixpoint st_run (u : udb) (s : sstate) (h : list sop) : list ans :=
  match h with
  | [] => []
  | o :: r => let '(s', x) := st_step u s o in x :: st_run u s' r
  end.
(* what the preloading calls of State mean on plain data *)
Definition st_spec_step (s : udb) (o : sop) : udb * ans :=
  match o with
  | SQuery q => (s, spec_query s q)
  | SInsNotExisting a => (set_stor (set_acc s (delete a)) (delete a), AUnit)
  | SInsAccount a i l =>
      (set_stor (set_acc s (<[a := if info_is_empty i then info_default else i]>))
                (<[a := write_slots l (slots_of (u_stor s) a)]>), AUnit)
  end.
Fixpoint st_spec_run (s : udb) (h : list sop) : list ans :=
  match h with
  | [] => []
  | o :: r => let '(s', x) := st_spec_step s o in x :: st_spec_run s' r
  end.
