(* Model of crates/interpreter/src/interpreter/stack.rs (struct Stack) and of the stack
   opcodes of crates/interpreter/src/instructions/stack.rs.

   The stack is the Rust [Vec<U256>] itself: a list of words, BOTTOM FIRST / TOP LAST, exactly
   the order of [Stack::data()].  Every function computes the same vector index the Rust code
   computes ([len - no_from_top - 1], [len - n], [len - 1 - n], ...) and has the same guards in
   the same order.  [usize] arguments are [Z]; the [assume!] preconditions ([n > 0], [m > 0];
   debug build: panic, release build: undefined behaviour) are the [Panic] outcome.
   [push_slice] is modelled at the level of the 64-bit limbs the Rust code writes through the
   raw pointer. *)
From RevmV Require Import Base.Word.
Local Open Scope Z_scope.

Definition STACK_LIMIT : Z := 1024.
(* InstructionResult discriminants (repr(u8)) *)
Definition StackUnderflow : Z := 91. (* 0x5b *)
Definition StackOverflow : Z := 92.  (* 0x5c *)

Definition stack := list Z.
Definition slen (d : stack) : Z := Z.of_nat (length d).

(* outcome of a method: Ok with a returned word (0 when the method returns unit),
   Err e, or the assume!/usize-overflow panic *)
Inductive outcome := Ok (v : Z) | Err (e : Z) | Panic.

Definition znth (i : Z) (d : list Z) : Z := nth (Z.to_nat i) d 0.
Fixpoint upd_nat (i : nat) (v : Z) (d : list Z) : list Z :=
  match d, i with
  | [], _ => []
  | _ :: r, O => v :: r
  | x :: r, S i' => x :: upd_nat i' v r
  end.
Definition zupd (i : Z) (v : Z) (d : list Z) : list Z :=
  if i <? 0 then d else upd_nat (Z.to_nat i) v d.

(* ---------------------------------------------------------------- safe methods *)

(* pub fn push: if self.data.len() == STACK_LIMIT { Err(StackOverflow) } else { data.push(v) } *)
Definition push (d : stack) (v : Z) : stack * outcome :=
  if slen d =? STACK_LIMIT then (d, Err StackOverflow) else (d ++ [v], Ok 0).

(* pub fn pop: self.data.pop().ok_or(StackUnderflow) *)
Definition pop (d : stack) : stack * outcome :=
  match d with
  | [] => (d, Err StackUnderflow)
  | _ => (removelast d, Ok (last d 0))
  end.

(* pub fn peek: if len > n { Ok(data[len - n - 1]) } else { Err(StackUnderflow) } *)
Definition peek (d : stack) (n : Z) : stack * outcome :=
  if slen d >? n then (d, Ok (znth (slen d - n - 1) d)) else (d, Err StackUnderflow).

(* pub fn set: if len > n { data[len - n - 1] = val; Ok } else { Err(StackUnderflow) } *)
Definition set (d : stack) (n v : Z) : stack * outcome :=
  if slen d >? n then (zupd (slen d - n - 1) v d, Ok 0) else (d, Err StackUnderflow).

(* pub fn dup(n): assume!(n > 0); if len < n { Underflow } else if len + 1 > STACK_LIMIT
   { Overflow } else { copy data[len - n] to data[len]; set_len(len + 1) } *)
Definition dup_src (d : stack) (n : Z) : Z := slen d - n.   (* ptr.sub(n), ptr = base + len *)
Definition dup_dst (d : stack) : Z := slen d.               (* ptr *)
Definition dup (d : stack) (n : Z) : stack * outcome :=
  if n >? 0 then
    if slen d <? n then (d, Err StackUnderflow)
    else if slen d + 1 >? STACK_LIMIT then (d, Err StackOverflow)
    else (d ++ [znth (dup_src d n) d], Ok 0)
  else (d, Panic).

(* pub fn exchange(n, m): assume!(m > 0); n_m_index = n + m (usize addition);
   if n_m_index >= len { Underflow } else { swap data[len-1-n], data[len-1-n_m_index] } *)
Definition exch_i1 (d : stack) (n : Z) : Z := slen d - 1 - n.
Definition exch_i2 (d : stack) (n m : Z) : Z := slen d - 1 - (n + m).
Definition exchange (d : stack) (n m : Z) : stack * outcome :=
  if m >? 0 then
    match checked64 (n + m) with
    | None => (d, Panic)
    | Some nm =>
      if nm >=? slen d then (d, Err StackUnderflow)
      else
        let i1 := exch_i1 d n in let i2 := exch_i2 d n m in
        let a := znth i1 d in let b := znth i2 d in
        (zupd i2 a (zupd i1 b d), Ok 0)
    end
  else (d, Panic).

(* pub fn swap(n) = self.exchange(0, n) *)
Definition swap (d : stack) (n : Z) : stack * outcome := exchange d 0 n.

(* ---------------------------------------------------------------- push_slice *)

(* big-endian value of a byte list (u64::from_be_bytes on 8 bytes) *)
Definition be_bytes (bs : list Z) : Z := fold_left (fun a b => a * 256 + b) bs 0.

(* [shorter l k] = (len(l) < k), looking only at the first k elements (keeps evaluation of
   long slices linear) *)
Definition shorter (l : list Z) (k : nat) : bool := (length (firstn k l) <? k)%nat.

(* slice::chunks_exact(k): chunks from the front, remainder (shorter than k) at the end *)
Fixpoint chunks_exact_f (fuel k : nat) (l : list Z) : list (list Z) * list Z :=
  match fuel with
  | O => ([], l)
  | S f => if shorter l k then ([], l)
           else let '(cs, r) := chunks_exact_f f k (skipn k l) in (firstn k l :: cs, r)
  end.
Definition chunks_exact (k : nat) (l : list Z) := chunks_exact_f (length l) k l.

(* slice::rchunks_exact(k): chunks from the back, LAST chunk first; remainder at the front *)
Fixpoint rchunks_exact_f (fuel k : nat) (l : list Z) : list (list Z) * list Z :=
  match fuel with
  | O => ([], l)
  | S f => if (length l <? k)%nat then ([], l)
           else let i := (length l - k)%nat in
                let '(cs, r) := rchunks_exact_f f k (firstn i l) in (skipn i l :: cs, r)
  end.
Definition rchunks_exact (k : nat) (l : list Z) := rchunks_exact_f (length l) k l.

Definition zeros (n : nat) : list Z := repeat 0 n.

(* The sequence of u64 limbs written at dst[0], dst[1], ... by push_slice (for a non-empty
   slice), including the final write_bytes(0, 4 - m). *)
Definition push_slice_limbs (bs : list Z) : list Z :=
  let '(words, partial) := chunks_exact 32 bs in
  (* for word in words { for l in word.rchunks_exact(8) { write(from_be_bytes(l)) } } *)
  let full := flat_map (fun w => map be_bytes (fst (rchunks_exact 8 w))) words in
  match partial with
  | [] => full
  | _ =>
    let '(limbs, partial_last_limb) := rchunks_exact 8 partial in
    let t1 := map be_bytes limbs in
    let t2 := match partial_last_limb with
              | [] => []
              | _ => (* tmp[8 - len..].copy_from_slice(partial_last_limb) *)
                     [be_bytes (zeros (8 - length partial_last_limb) ++ partial_last_limb)]
              end in
    let i := (length full + length t1 + length t2)%nat in   (* the counter [i] *)
    let m := (i mod 4)%nat in
    full ++ t1 ++ t2 ++ match m with O => [] | _ => zeros (4 - m) end
  end.

(* U256 = 4 little-endian u64 limbs *)
Definition word_of_limbs (l0 l1 l2 l3 : Z) : Z := l0 + l1 * pow64 + l2 * pow128 + l3 * (pow128 * pow64).
Fixpoint words_of_limbs (ls : list Z) : list Z :=
  match ls with
  | l0 :: l1 :: l2 :: l3 :: r => word_of_limbs l0 l1 l2 l3 :: words_of_limbs r
  | _ => []
  end.

(* pub fn push_slice: if slice.is_empty() { Ok } ; n_words = (len + 31) / 32;
   new_len = self.len() + n_words; if new_len > STACK_LIMIT { Overflow }; write limbs *)
Definition n_words (bs : list Z) : Z := (Z.of_nat (length bs) + 31) / 32.
Definition push_slice (d : stack) (bs : list Z) : stack * outcome :=
  match bs with
  | [] => (d, Ok 0)
  | _ =>
    let new_len := slen d + n_words bs in
    if new_len >? STACK_LIMIT then (d, Err StackOverflow)
    else (d ++ words_of_limbs (push_slice_limbs bs), Ok 0)
  end.

(* pub fn push_b256(value: B256) = self.push(value.into()); B256 -> U256 is from_be_bytes *)
Definition push_b256 (d : stack) (b32 : list Z) : stack * outcome := push d (be_bytes b32).

(* ---------------------------------------------------------------- unsafe variants
   (callers check the length first; [Panic] stands for a violated precondition) *)
Definition pop_unsafe (d : stack) : stack * outcome :=
  match d with [] => (d, Panic) | _ => (removelast d, Ok (last d 0)) end.
(* top_unsafe: &mut data[len - 1]; the model of a caller that writes [v] through it *)
Definition top_unsafe_write (d : stack) (v : Z) : stack * outcome :=
  match d with [] => (d, Panic) | _ => (zupd (slen d - 1) v d, Ok (znth (slen d - 1) d)) end.
(* pop_top_unsafe: pop, then top of the rest; the caller writes [v] through the reference
   (binary operators); returns the popped word; needs len >= 2 *)
Definition pop_top_unsafe_write (d : stack) (v : Z) : stack * outcome :=
  if slen d >=? 2 then
    let d1 := removelast d in (zupd (slen d1 - 1) v d1, Ok (last d 0))
  else (d, Panic).

(* ---------------------------------------------------------------- operation histories *)
Inductive stack_op :=
| OPush (v : Z) | OPop | OPeek (n : Z) | OSet (n v : Z) | ODup (n : Z) | OSwap (n : Z)
| OExchange (n m : Z) | OPushSlice (bs : list Z) | OPushB256 (bs : list Z)
| OPopUnsafe | OTopWrite (v : Z) | OPopTopWrite (v : Z).

Definition stack_step (d : stack) (o : stack_op) : stack * outcome :=
  match o with
  | OPush v => push d v
  | OPop => pop d
  | OPeek n => peek d n
  | OSet n v => set d n v
  | ODup n => dup d n
  | OSwap n => swap d n
  | OExchange n m => exchange d n m
  | OPushSlice bs => push_slice d bs
  | OPushB256 bs => push_b256 d bs
  | OPopUnsafe => pop_unsafe d
  | OTopWrite v => top_unsafe_write d v
  | OPopTopWrite v => pop_top_unsafe_write d v
  end.

Definition stack_run (d : stack) (h : list stack_op) : stack :=
  fold_left (fun d o => fst (stack_step d o)) h d.

(* arguments are machine values: words are u256, indices are usize, bytes are u8, B256 has
   32 bytes *)
Definition is_byte (b : Z) : Prop := 0 <= b < 256.
Definition op_wf (o : stack_op) : Prop :=
  match o with
  | OPush v | OTopWrite v | OPopTopWrite v => in_u256 v
  | OPop | OPopUnsafe => True
  | OPeek n | ODup n | OSwap n => in_u64 n
  | OSet n v => in_u64 n /\ in_u256 v
  | OExchange n m => in_u64 n /\ in_u64 m
  | OPushSlice bs => Forall is_byte bs
  | OPushB256 bs => Forall is_byte bs /\ length bs = 32%nat
  end.

(* ---------------------------------------------------------------- instructions/stack.rs
   A program of stack opcodes run on an interpreter: (gas remaining, pc, stack).  The byte
   code is padded with zeros by analysis, so immediates past the end read 0 and the byte
   after the last one is STOP. *)
Definition OutOfGas : Z := 80.                  (* 0x50 *)
Definition EOFOpcodeDisabledInLegacy : Z := 103. (* 0x67 *)
Definition NotActivated : Z := 90.               (* 0x5a *)
Definition OpcodeNotFound : Z := 85.             (* 0x55 *)
Definition Continue : Z := 0.
Definition Stop : Z := 1.
Definition GAS_BASE : Z := 2.
Definition GAS_VERYLOW : Z := 3.

Definition code_at (code : list Z) (pc : Z) : Z := if pc <? 0 then 0 else nth (Z.to_nat pc) code 0.
Definition code_slice (code : list Z) (pc : Z) (n : nat) : list Z :=
  map (fun k => code_at code (pc + Z.of_nat k)) (seq 0 n).

Record istate := mkI { i_gas : Z; i_pc : Z; i_stack : stack; i_res : Z }.

Definition res_of (o : outcome) : Z :=
  match o with Ok _ => Continue | Err e => e | Panic => 255 end.

(* one [Interpreter::step]: pc is incremented, then the instruction runs.  [eof] is
   interpreter.is_eof, [shanghai] whether SPEC enables SHANGHAI (PUSH0).  Returns [None] for an
   opcode outside the stack group (not modelled here). *)
Definition istep (eof shanghai : bool) (code : list Z) (s : istate) : option istate :=
  let op := code_at code (i_pc s) in
  let pc := i_pc s + 1 in
  let charge (cost : Z) (k : Z -> istate) : istate :=
      if cost <=? i_gas s then k (i_gas s - cost) else mkI (i_gas s) pc (i_stack s) OutOfGas in
  let fin (g pc' : Z) (r : stack * outcome) : istate := mkI g pc' (fst r) (res_of (snd r)) in
  if op =? 0 then Some (mkI (i_gas s) pc (i_stack s) Stop)
  else if op =? 80 (* POP *) then
    Some (charge GAS_BASE (fun g => fin g pc (pop (i_stack s))))
  else if op =? 95 (* PUSH0 *) then
    if shanghai then Some (charge GAS_BASE (fun g => fin g pc (push (i_stack s) 0)))
    else Some (mkI (i_gas s) pc (i_stack s) NotActivated)
  else if (96 <=? op) && (op <=? 127) (* PUSH1..PUSH32 *) then
    let n := Z.to_nat (op - 95) in
    Some (charge GAS_VERYLOW (fun g =>
      let r := push_slice (i_stack s) (code_slice code pc n) in
      match snd r with
      | Ok _ => fin g (pc + Z.of_nat n) r
      | _ => fin g pc r      (* on error the instruction pointer is not advanced *)
      end))
  else if (128 <=? op) && (op <=? 143) (* DUP1..DUP16 *) then
    Some (charge GAS_VERYLOW (fun g => fin g pc (dup (i_stack s) (op - 127))))
  else if (144 <=? op) && (op <=? 159) (* SWAP1..SWAP16 *) then
    Some (charge GAS_VERYLOW (fun g => fin g pc (swap (i_stack s) (op - 143))))
  else if op =? 230 (* DUPN 0xe6 *) then
    if eof then Some (charge GAS_VERYLOW (fun g => fin g (pc + 1) (dup (i_stack s) (code_at code pc + 1))))
    else Some (mkI (i_gas s) pc (i_stack s) EOFOpcodeDisabledInLegacy)
  else if op =? 231 (* SWAPN 0xe7 *) then
    if eof then Some (charge GAS_VERYLOW (fun g => fin g (pc + 1) (swap (i_stack s) (code_at code pc + 1))))
    else Some (mkI (i_gas s) pc (i_stack s) EOFOpcodeDisabledInLegacy)
  else if op =? 232 (* EXCHANGE 0xe8 *) then
    if eof then
      Some (charge GAS_VERYLOW (fun g =>
        let imm := code_at code pc in
        fin g (pc + 1) (exchange (i_stack s) (imm / 16 + 1) (imm mod 16 + 1))))
    else Some (mkI (i_gas s) pc (i_stack s) EOFOpcodeDisabledInLegacy)
  else None.

(* [Interpreter::run]: step while instruction_result == Continue; the trace of states after
   every step *)
Fixpoint irun (fuel : nat) (eof shanghai : bool) (code : list Z) (s : istate) : list istate :=
  match fuel with
  | O => []
  | S f =>
    match istep eof shanghai code s with
    | None => []
    | Some s' => s' :: (if i_res s' =? Continue then irun f eof shanghai code s' else [])
    end
  end.
