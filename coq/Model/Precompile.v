(* The precompiled contracts of crates/precompile, one Gallina function per Rust `run`
   function, same order of checks, same error kinds.  Cryptographic cores that are OPAQUE here
   (BN254 pairing value, KZG proof verification, BLS12-381 group
   operations / subgroup checks / maps) take the implementation's observed result as an
   [oracle] argument: the model then fixes gas, input-length, padding, canonical-encoding and
   curve-membership rules and the shape of the output, and returns the oracle's value for the
   opaque part. *)
From RevmV Require Export Base.PBytes Base.KeccakP Model.Sha256 Model.Ripemd160 Model.Blake2
  Model.Curves Model.Modexp.
Local Open Scope Z_scope.

(* precompile spec ids (PrecompileSpecId) *)
Definition S_HOMESTEAD := 0.
Definition S_BYZANTIUM := 1.
Definition S_ISTANBUL := 2.
Definition S_BERLIN := 3.
Definition S_CANCUN := 4.
Definition S_PRAGUE := 5.

(* calc_linear_cost_u32(len, base, word) = (len as u64).div_ceil(32) * word + base.
   Stated on unbounded integers; [linear_cost_fits] (Proofs) shows the u64 arithmetic is exact
   for every length below 2^56. *)
Definition calc_linear_cost (len base word : Z) : Z := (len + 31) / 32 * word + base.

(* ---------------- 0x04 identity, 0x02 sha256, 0x03 ripemd160 ---------------- *)
Definition identity_run (input : bytes) (gas_limit : Z) : presult :=
  let gas_used := calc_linear_cost (zlen input) 15 3 in
  if gas_limit <? gas_used then PErr E_OutOfGas else POk gas_used input.

Definition sha256_run (input : bytes) (gas_limit : Z) : presult :=
  let cost := calc_linear_cost (zlen input) 60 12 in
  if gas_limit <? cost then PErr E_OutOfGas else POk cost (sha256 input).

Definition ripemd160_run (input : bytes) (gas_limit : Z) : presult :=
  let gas_used := calc_linear_cost (zlen input) 600 120 in
  if gas_limit <? gas_used then PErr E_OutOfGas else POk gas_used (zeros 12 ++ ripemd160 input).

(* ---------------- 0x09 blake2f ---------------- *)
Definition blake2_run (input : bytes) (gas_limit : Z) : presult :=
  if negb (zlen input =? 213) then PErr E_Blake2WrongLength else
  let rounds := be_to_Z (slice 0 4 input) in
  let gas_used := rounds * 1 in
  if gas_limit <? gas_used then PErr E_OutOfGas else
  let fb := nth 212 input 0 in
  if negb ((fb =? 1) || (fb =? 0)) then PErr E_Blake2WrongFinalIndicatorFlag else
  let h := map le_to_Z (chunks 8 (slice 4 64 input)) in
  let m := map le_to_Z (chunks 8 (slice 68 128 input)) in
  let t0 := le_to_Z (slice 196 8 input) in
  let t1 := le_to_Z (slice 204 8 input) in
  POk gas_used (flat_map (Z_to_le 8) (b2_F (Z.to_nat rounds) h m t0 t1 (fb =? 1))).

(* ---------------- 0x01 ecrecover ---------------- *)
(* square root in the secp256k1 field (p = 3 mod 4); None when [a] is not a square *)
Definition secp_sqrt (a : Z) : option Z :=
  let y := fpow secp_F a ((secp_p + 1) / 4) in
  if fsqr secp_F y =? a then Some y else None.

(* inverse modulo n by the binary algorithm of Curves.finv over the field record of n *)
Definition secp_nF : field := mkField secp_n (fun x => x mod secp_n).

(* public key recovery (SEC 1, 4.1.6) for recovery ids 0 and 1: x = r (r < n < p), y with the
   parity given by the recovery id, Q = r^-1 (s R - z G).  [z] = message hash as an integer. *)
Definition ecrecover_key (z r s recid : Z) : option (Z * Z) :=
  if (r <=? 0) || (secp_n <=? r) || (s <=? 0) || (secp_n <=? s) then None else
  let x := r in
  match secp_sqrt (fadd secp_F (fmul secp_F (fsqr secp_F x) x) 7) with
  | None => None
  | Some y0 =>
    let y := if Bool.eqb (Z.odd y0) (Z.odd recid) then y0 else fsub secp_F 0 y0 in
    let rinv := finv secp_nF r in
    let u1 := fsub secp_nF 0 (fmul secp_nF (z mod secp_n) rinv) in
    let u2 := fmul secp_nF s rinv in
    to_affine secp_F (jmul2 secp_F u1 (of_affine secp_gx secp_gy) u2 (of_affine x y))
  end.

(* secp256k1::ecrecover: keccak of the uncompressed key, first 12 bytes zeroed *)
Definition ecrecover_core (msg sig : bytes) (recid : Z) : option bytes :=
  match ecrecover_key (be_to_Z msg) (be_to_Z (firstn 32 sig)) (be_to_Z (skipn 32 sig)) recid with
  | None => None
  | Some (qx, qy) => Some (zeros 12 ++ skipn 12 (keccak256 (Z_to_be 32 qx ++ Z_to_be 32 qy)))
  end.

Definition ec_recover_run (input : bytes) (gas_limit : Z) : presult :=
  if gas_limit <? 3000 then PErr E_OutOfGas else
  let input := take_pad 128 input in
  let v := nth 63 input 0 in
  if negb (all_zero (slice 32 31 input) && ((v =? 27) || (v =? 28))) then POk 3000 [] else
  let msg := slice 0 32 input in
  let recid := v - 27 in
  let sig := slice 64 64 input in
  match ecrecover_core msg sig recid with
  | Some out => POk 3000 out
  | None => POk 3000 []
  end.

(* ---------------- 0x06 / 0x07 BN254 add, mul ---------------- *)
Inductive rd (A : Type) := ROk (a : A) | RErr (kind : Z).
Arguments ROk {A} a. Arguments RErr {A} kind.

(* read_point: two coordinates < p, (0,0) = infinity, otherwise on the curve *)
Definition bn_read_point (b : bytes) : rd (option (Z * Z)) :=
  let px := be_to_Z (slice 0 32 b) in
  let py := be_to_Z (slice 32 32 b) in
  if bn_p <=? px then RErr E_Bn128FieldPointNotAMember else
  if bn_p <=? py then RErr E_Bn128FieldPointNotAMember else
  if (px =? 0) && (py =? 0) then ROk None else
  if on_curve bn_F 3 px py then ROk (Some (px, py)) else RErr E_Bn128AffineGFailedToCreate.

Definition bn_jac (p : option (Z * Z)) : jac :=
  match p with None => jinf | Some (x, y) => of_affine x y end.
Definition bn_encode (p : option (Z * Z)) : bytes :=
  match p with None => zeros 64 | Some (x, y) => Z_to_be 32 x ++ Z_to_be 32 y end.

Definition bn_add_gas (spec : Z) : Z := if spec <? S_ISTANBUL then 500 else 150.
Definition bn_mul_gas (spec : Z) : Z := if spec <? S_ISTANBUL then 40000 else 6000.
Definition bn_pair_base (spec : Z) : Z := if spec <? S_ISTANBUL then 100000 else 45000.
Definition bn_pair_per_point (spec : Z) : Z := if spec <? S_ISTANBUL then 80000 else 34000.

Definition bn_run_add (input : bytes) (gas_cost gas_limit : Z) : presult :=
  if gas_limit <? gas_cost then PErr E_OutOfGas else
  let input := take_pad 128 input in
  match bn_read_point (slice 0 64 input) with
  | RErr k => PErr k
  | ROk p1 =>
    match bn_read_point (slice 64 64 input) with
    | RErr k => PErr k
    | ROk p2 => POk gas_cost (bn_encode (to_affine bn_F (jadd bn_F (bn_jac p1) (bn_jac p2))))
    end
  end.

Definition bn_run_mul (input : bytes) (gas_cost gas_limit : Z) : presult :=
  if gas_limit <? gas_cost then PErr E_OutOfGas else
  let input := take_pad 96 input in
  match bn_read_point (slice 0 64 input) with
  | RErr k => PErr k
  | ROk p =>
    let fr := be_to_Z (slice 64 32 input) in
    POk gas_cost (bn_encode (to_affine bn_F (jmul bn_F fr (bn_jac p))))
  end.

(* ---------------- 0x08 BN254 pairing: gas, length and point-format rules ---------------- *)
Definition bool32 (b : bool) : bytes := zeros 31 ++ [if b then 1 else 0].

(* ---- G2 of BN254: the twist y^2 = x^3 + 3/(9+i) over Fp2 = Fp[i]/(i^2+1), elements (re, im).
   AffineG2::new of substrate-bn accepts a point iff it is on the twist and in the subgroup of
   order n (it checks n*P = O). Both are executable here. *)
Definition fp2 := (Z * Z)%type.
Definition f2_add (a b : fp2) : fp2 := (fadd bn_F (fst a) (fst b), fadd bn_F (snd a) (snd b)).
Definition f2_sub (a b : fp2) : fp2 := (fsub bn_F (fst a) (fst b), fsub bn_F (snd a) (snd b)).
(* operands are reduced representatives (0 <= . < p): products stay below 2^508 for the Barrett step *)
Definition f2_mul (a b : fp2) : fp2 :=
  (fsub bn_F (fmul bn_F (fst a) (fst b)) (fmul bn_F (snd a) (snd b)),
   fadd bn_F (fmul bn_F (fst a) (snd b)) (fmul bn_F (snd a) (fst b))).
Definition f2_sqr (a : fp2) : fp2 := f2_mul a a.
Definition f2_dbl (a : fp2) : fp2 := f2_add a a.
Definition f2_eqb (a b : fp2) : bool := (fst a =? fst b) && (snd a =? snd b).
Definition f2_zero : fp2 := (0, 0).
Definition bn_twist_b : fp2 :=
  (19485874751759354771024239261021720505790618469301721065564631296452457478373,
   266929791119991161246907387137283842545076965332900288569378510910307636690).
Definition g2_on_curve (x y : fp2) : bool :=
  f2_eqb (f2_sqr y) (f2_add (f2_mul (f2_sqr x) x) bn_twist_b).
(* Jacobian coordinates (X, Y, Z) over Fp2, curve coefficient a = 0; Z = 0 is the point at infinity *)
Definition g2j := (fp2 * fp2 * fp2)%type.
Definition g2j_inf : g2j := ((1, 0), (1, 0), f2_zero).
Definition g2j_is_inf (p : g2j) : bool := f2_eqb (snd p) f2_zero.
Definition g2j_double (p : g2j) : g2j :=
  let '(x, y, z) := p in
  if f2_eqb z f2_zero then p else
  let a := f2_sqr x in let b := f2_sqr y in let c := f2_sqr b in
  let d := f2_dbl (f2_sub (f2_sub (f2_sqr (f2_add x b)) a) c) in
  let e := f2_add (f2_dbl a) a in
  let f := f2_sqr e in
  let x3 := f2_sub f (f2_dbl d) in
  let y3 := f2_sub (f2_mul e (f2_sub d x3)) (f2_dbl (f2_dbl (f2_dbl c))) in
  let z3 := f2_dbl (f2_mul y z) in
  (x3, y3, z3).
(* mixed addition of the affine point (x2, y2) *)
Definition g2j_add_affine (p : g2j) (x2 y2 : fp2) : g2j :=
  let '(x1, y1, z1) := p in
  if f2_eqb z1 f2_zero then (x2, y2, (1, 0)) else
  let z1z1 := f2_sqr z1 in
  let u2 := f2_mul x2 z1z1 in
  let s2 := f2_mul (f2_mul y2 z1) z1z1 in
  if f2_eqb u2 x1 then
    (if f2_eqb s2 y1 then g2j_double p else g2j_inf)
  else
    let h := f2_sub u2 x1 in
    let hh := f2_sqr h in
    let i := f2_dbl (f2_dbl hh) in
    let j := f2_mul h i in
    let r := f2_dbl (f2_sub s2 y1) in
    let v := f2_mul x1 i in
    let x3 := f2_sub (f2_sub (f2_sqr r) j) (f2_dbl v) in
    let y3 := f2_sub (f2_mul r (f2_sub v x3)) (f2_dbl (f2_mul y1 j)) in
    let z3 := f2_sub (f2_sub (f2_sqr (f2_add z1 h)) z1z1) hh in
    (x3, y3, z3).
(* k * (x, y), bits of k from the most significant one *)
Fixpoint g2_mul_bits (bits : list bool) (acc : g2j) (x y : fp2) : g2j :=
  match bits with
  | [] => acc
  | b :: r => let d := g2j_double acc in g2_mul_bits r (if b then g2j_add_affine d x y else d) x y
  end.
Definition bits_msb (n : Z) : list bool := rev (map (Z.testbit n) (map Z.of_nat (seq 0 254))).
Definition g2_in_subgroup (x y : fp2) : bool := g2j_is_inf (g2_mul_bits (bits_msb bn_n) g2j_inf x y).
(* the four field elements of the encoding: x = fq3 + fq2 i, y = fq5 + fq4 i (imaginary part first) *)
Definition bn_g2_valid (xi xr yi yr : Z) : bool :=
  if g2_on_curve (xr, xi) (yr, yi) then g2_in_subgroup (xr, xi) (yr, yi) else false.
(* The subgroup check costs ~25 s under vm_compute. Two points that the generated inputs reuse
   (the G2 generator and the first G2 point of the EIP-197 test vector) are answered from a table;
   Proofs/PrecompileProofs.v proves that the table agrees with [bn_g2_valid]
   (bn_g2_valid_memo_exact), so the memoised function IS the executable definition above. *)
Definition bn_g2_known : list (Z * Z * Z * Z) :=
  [(11559732032986387107991004021392285783925812861821192530917403151452391805634,
    10857046999023057135944570762232829481370756359578518086990519993285655852781,
    4082367875863433681332203403145435568316851327593401208105741076214120093531,
    8495653923123431417604973247489272438418190587263600148770280649306958101930);
   (14752851163271972921165116810778899752274893127848647655434033030151679466487,
    2146841959437886920191033516947821737903543682424168472444605468016078231160,
    19774899457345372253936887903062884289284519982717033379297427576421785416781,
    8159591693044959083845993640644415462154314071906244874217244895511876957520)].
Definition q4_eqb (a b : Z * Z * Z * Z) : bool :=
  let '(a1, a2, a3, a4) := a in let '(b1, b2, b3, b4) := b in
  (a1 =? b1) && (a2 =? b2) && (a3 =? b3) && (a4 =? b4).
Definition bn_g2_valid_memo (xi xr yi yr : Z) : bool :=
  if existsb (q4_eqb (xi, xr, yi, yr)) bn_g2_known then true else bn_g2_valid xi xr yi yr.

(* state of the walk over the pairs: [all_trivial] = every pair so far has G1 or G2 at infinity *)
Fixpoint bn_pair_walk (elems : list bytes) (oracle : presult) (all_trivial : bool) (gas_used : Z) : presult :=
  match elems with
  | [] =>
    if all_trivial then POk gas_used (bool32 true) else
    match oracle with
    | POk g out => if bytes_eqb out (bool32 true) || bytes_eqb out (bool32 false)
                   then POk gas_used out else PErr 99
    | PErr _ => PErr 99
    end
  | e :: rest =>
    let fq n := be_to_Z (slice (32 * n) 32 e) in
    if existsb (fun n => bn_p <=? fq n) (seq 0 6) then PErr E_Bn128FieldPointNotAMember else
    let ax := fq 0%nat in let ay := fq 1%nat in
    let g1_inf := (ax =? 0) && (ay =? 0) in
    if negb g1_inf && negb (on_curve bn_F 3 ax ay) then PErr E_Bn128AffineGFailedToCreate else
    let g2_inf := forallb (fun n => fq n =? 0) (seq 2 4) in
    if g2_inf then bn_pair_walk rest oracle all_trivial gas_used
    else
      (* the G2 point must be on the twist and in the subgroup of order n, whatever it is paired with *)
      if negb (bn_g2_valid_memo (fq 2%nat) (fq 3%nat) (fq 4%nat) (fq 5%nat)) then PErr E_Bn128AffineGFailedToCreate
      else bn_pair_walk rest oracle (all_trivial && g1_inf) gas_used
  end.

Definition bn_run_pair (input : bytes) (per_point base gas_limit : Z) (oracle : presult) : presult :=
  let gas_used := zlen input / 192 * per_point + base in
  if gas_limit <? gas_used then PErr E_OutOfGas else
  if negb (zlen input mod 192 =? 0) then PErr E_Bn128PairLength else
  bn_pair_walk (chunks 192 input) oracle true gas_used.

(* ---------------- 0x0a KZG point evaluation ---------------- *)
Definition bls_modulus : Z := 0x73eda753299d7d483339d80809a1d80553bda402fffe5bfeffffffff00000001.
Definition kzg_return_value : bytes := Z_to_be 32 4096 ++ Z_to_be 32 bls_modulus.
Definition kzg_to_versioned_hash (commitment : bytes) : bytes :=
  match sha256 commitment with _ :: t => 1 :: t | [] => [] end.

Definition kzg_run (input : bytes) (gas_limit : Z) (oracle : presult) : presult :=
  if gas_limit <? 50000 then PErr E_OutOfGas else
  if negb (zlen input =? 192) then PErr E_BlobInvalidInputLength else
  let versioned_hash := slice 0 32 input in
  let commitment := slice 96 48 input in
  if negb (bytes_eqb (kzg_to_versioned_hash commitment) versioned_hash) then PErr E_BlobMismatchedVersion else
  let z := be_to_Z (slice 32 32 input) in
  let y := be_to_Z (slice 64 32 input) in
  (* non-canonical field elements are rejected by verify_kzg_proof *)
  if (bls_modulus <=? z) || (bls_modulus <=? y) then PErr E_BlobVerifyKzgProofFailed else
  (* OPAQUE: the proof verification itself *)
  match oracle with
  | PErr 12 => PErr E_BlobVerifyKzgProofFailed
  | POk _ _ => POk 50000 kzg_return_value
  | PErr _ => PErr 99
  end.

(* ---------------- 0x0b..0x11 BLS12-381 (EIP-2537) ---------------- *)
Definition bls_p : Z := 0x1a0111ea397fe69a4b1ba7b6434bacd764774b84f38512bf6730d2a0f6b0f6241eabfffeb153ffffb9feffffffffaaab.

(* remove_padding + fp_from_bendian: 64 bytes, 16 leading zero bytes, value < p *)
Definition bls_fp (b : bytes) : option Z :=
  if negb (all_zero (firstn 16 b)) then None else
  let v := be_to_Z (skipn 16 b) in
  if bls_p <=? v then None else Some v.

Definition bls_g1_on_curve (x y : Z) : bool :=
  ((x =? 0) && (y =? 0)) || ((y * y) mod bls_p =? ((x * x) mod bls_p * x + 4) mod bls_p).

(* extract_g1_input up to (not including) the subgroup check.
   Some true = well-formed point on the curve (or infinity); None = definite error *)
Definition bls_g1_format (b : bytes) : bool :=
  match bls_fp (slice 0 64 b), bls_fp (slice 64 64 b) with
  | Some x, Some y => bls_g1_on_curve x y
  | _, _ => false
  end.
(* G2: four field elements; curve membership over Fp2 and subgroup membership are OPAQUE *)
Definition bls_g2_format (b : bytes) : bool :=
  forallb (fun i => match bls_fp (slice (64 * i) 64 b) with Some _ => true | None => false end) (seq 0 4).

(* shape of an encoded output: [n] padded field elements *)
Definition bls_out_wellformed (n : nat) (out : bytes) : bool :=
  (length out =? 64 * n)%nat &&
  forallb (fun i => match bls_fp (slice (64 * i) 64 out) with Some _ => true | None => false end) (seq 0 n).
Definition bls_g1_out_ok (out : bytes) : bool := bls_out_wellformed 2 out && bls_g1_format out.

(* the OPAQUE part: success with the fixed gas and a well-formed output, or error `Other` *)
Definition bls_opaque (gas : Z) (out_ok : bytes -> bool) (may_fail : bool) (oracle : presult) : presult :=
  match oracle with
  | POk _ out => if out_ok out then POk gas out else PErr 99
  | PErr 13 => if may_fail then PErr E_Other else PErr 98
  | PErr _ => PErr 99
  end.

Definition bls_g1_add_run (input : bytes) (gas_limit : Z) (oracle : presult) : presult :=
  if gas_limit <? 375 then PErr E_OutOfGas else
  if negb (zlen input =? 256) then PErr E_Other else
  if negb (bls_g1_format (slice 0 128 input) && bls_g1_format (slice 128 128 input)) then PErr E_Other else
  (* no subgroup check: the addition cannot fail; the sum is OPAQUE *)
  bls_opaque 375 bls_g1_out_ok false oracle.

Definition bls_g2_add_run (input : bytes) (gas_limit : Z) (oracle : presult) : presult :=
  if gas_limit <? 600 then PErr E_OutOfGas else
  if negb (zlen input =? 512) then PErr E_Other else
  if negb (bls_g2_format (slice 0 256 input) && bls_g2_format (slice 256 256 input)) then PErr E_Other else
  (* curve membership over Fp2 is OPAQUE: may fail *)
  bls_opaque 600 (bls_out_wellformed 4) true oracle.

(* msm_required_gas(k, discount_table, multiplication_cost) *)
Definition msm_required_gas (k : Z) (table : list Z) (multiplication_cost : Z) : Z :=
  if k =? 0 then 0 else
  let index := Z.min (k - 1) (zlen table - 1) in
  let discount := nth (Z.to_nat index) table 0 in
  k * discount * multiplication_cost / 1000.

Definition bls_msm_run (g2 : bool) (table : list Z) (input : bytes) (gas_limit : Z) (oracle : presult) : presult :=
  let item := if g2 then 288 else 160 in
  let plen := if g2 then 256%nat else 128%nat in
  let input_len := zlen input in
  if (input_len =? 0) || negb (input_len mod item =? 0) then PErr E_Other else
  let k := input_len / item in
  let required_gas := msm_required_gas k table (if g2 then 22500 else 12000) in
  if gas_limit <? required_gas then PErr E_OutOfGas else
  let pts := map (firstn plen) (chunks (Z.to_nat item) input) in
  (* all-zero point encodings are skipped; the others must be well formed *)
  let nz := filter (fun p => negb (all_zero p)) pts in
  if negb (forallb (fun p => if g2 then bls_g2_format p else bls_g1_format p) nz) then PErr E_Other else
  match nz with
  | [] => POk required_gas (zeros plen)
  | _ => (* subgroup checks and the sum are OPAQUE *)
    bls_opaque required_gas (if g2 then bls_out_wellformed 4 else bls_g1_out_ok) true oracle
  end.

Definition bls_pairing_run (input : bytes) (gas_limit : Z) (oracle : presult) : presult :=
  let input_len := zlen input in
  if (input_len =? 0) || negb (input_len mod 384 =? 0) then PErr E_Other else
  let k := input_len / 384 in
  let required_gas := 32600 * k + 37700 in
  if gas_limit <? required_gas then PErr E_OutOfGas else
  if negb (forallb (fun e => bls_g1_format (slice 0 128 e) && bls_g2_format (slice 128 256 e)) (chunks 384 input))
  then PErr E_Other else
  bls_opaque required_gas (fun out => bytes_eqb out (bool32 true) || bytes_eqb out (bool32 false)) true oracle.

Definition bls_map_fp_to_g1_run (input : bytes) (gas_limit : Z) (oracle : presult) : presult :=
  if gas_limit <? 5500 then PErr E_OutOfGas else
  if negb (zlen input =? 64) then PErr E_Other else
  match bls_fp input with
  | None => PErr E_Other
  | Some _ => bls_opaque 5500 bls_g1_out_ok false oracle
  end.

Definition bls_map_fp2_to_g2_run (input : bytes) (gas_limit : Z) (oracle : presult) : presult :=
  if gas_limit <? 23800 then PErr E_OutOfGas else
  if negb (zlen input =? 128) then PErr E_Other else
  match bls_fp (slice 0 64 input), bls_fp (slice 64 64 input) with
  | Some _, Some _ => bls_opaque 23800 (bls_out_wellformed 4) false oracle
  | _, _ => PErr E_Other
  end.

(* ---------------- Precompiles::new(spec).get(address) ---------------- *)
(* None = no precompile at this address in this spec.  [g1t]/[g2t] = the MSM discount tables
   (instantiated with the tables reflected from the code in Corr/C23.v). *)
Definition precompile_run (g1t g2t : list Z) (spec addr : Z) (input : bytes) (gas_limit : Z)
    (oracle : presult) : option presult :=
  if (1 <=? addr) && (addr <=? 4) then
    Some (if addr =? 1 then ec_recover_run input gas_limit
          else if addr =? 2 then sha256_run input gas_limit
          else if addr =? 3 then ripemd160_run input gas_limit
          else identity_run input gas_limit)
  else if (5 <=? addr) && (addr <=? 8) then
    if spec <? S_BYZANTIUM then None else
    Some (if addr =? 5 then modexp_run_inner (S_BERLIN <=? spec) input gas_limit
          else if addr =? 6 then bn_run_add input (bn_add_gas spec) gas_limit
          else if addr =? 7 then bn_run_mul input (bn_mul_gas spec) gas_limit
          else bn_run_pair input (bn_pair_per_point spec) (bn_pair_base spec) gas_limit oracle)
  else if addr =? 9 then (if spec <? S_ISTANBUL then None else Some (blake2_run input gas_limit))
  else if addr =? 10 then (if spec <? S_CANCUN then None else Some (kzg_run input gas_limit oracle))
  else if (11 <=? addr) && (addr <=? 17) then
    if spec <? S_PRAGUE then None else
    Some (if addr =? 11 then bls_g1_add_run input gas_limit oracle
          else if addr =? 12 then bls_msm_run false g1t input gas_limit oracle
          else if addr =? 13 then bls_g2_add_run input gas_limit oracle
          else if addr =? 14 then bls_msm_run true g2t input gas_limit oracle
          else if addr =? 15 then bls_pairing_run input gas_limit oracle
          else if addr =? 16 then bls_map_fp_to_g1_run input gas_limit oracle
          else bls_map_fp2_to_g2_run input gas_limit oracle)
  else None.

(* ---------------- EvmContext::call_precompile ---------------- *)
(* result class: 0 = Return, 1 = PrecompileOOG, 2 = PrecompileError, 3 = fatal (EVMError);
   [remaining] = gas left in the returned InterpreterResult; the caller gives back
   [remaining] only for class 0 (handler call_return), so an error consumes all passed gas *)
Definition call_precompile (passed : Z) (r : presult) : Z * Z * bytes :=
  match r with
  | POk gas_used out =>
    if gas_used <=? passed then (0, passed - gas_used, out) else (1, passed, [])
  | PErr k => if k =? E_OutOfGas then (1, passed, []) else if k =? E_Fatal then (3, passed, []) else (2, passed, [])
  end.
(* gas the caller is charged for the sub-call *)
Definition call_consumed (passed : Z) (r : presult) : Z :=
  let '(cls, remaining, _) := call_precompile passed r in
  if cls =? 0 then passed - remaining else passed.
