(* Control-flow skeleton of the legacy interpreter loop.
     crates/interpreter/src/interpreter.rs          Interpreter::step / run (fetch `*instruction_pointer`, advance by one, dispatch)
     crates/interpreter/src/instructions/stack.rs   push::<N> (reads N bytes at the pointer, advances by N)
     crates/interpreter/src/instructions/control.rs jump, jumpi, jump_inner, stop, ret, revert, invalid, unknown
     crates/interpreter/src/interpreter/analysis.rs to_analysed (33 zero bytes of padding)   -> Model/Jump.v
     crates/interpreter/src/opcode.rs               OPCODE_INFO_JUMPTABLE                    -> Gen/OpInfo.v (reflected)
     crates/interpreter/src/gas.rs                  Gas::record_cost                         -> Model/Gas.v
   The data side of every instruction is abstracted: an instruction that is neither a jump nor
   terminating "may continue at the next instruction or stop with an error".  What is kept:
   the program counter, the remaining gas of the frame, the length of the operand stack.
   Program counters are Z (offsets of the instruction pointer from the start of the buffer). *)
From RevmV Require Import Base.Word Model.Jump Model.Gas Gen.OpInfo.
Local Open Scope Z_scope.

(* ---- the reflected opcode table --------------------------------------------------------- *)
Definition op_row (op : Z) : option (Z * Z * Z * bool * bool) :=
  if (0 <=? op) && (op <? 256) then nth (Z.to_nat op) op_info_table None else None.
Definition op_inputs (op : Z) : Z := match op_row op with Some (i, _, _, _, _) => i | None => 0 end.
Definition op_outputs (op : Z) : Z := match op_row op with Some (_, o, _, _, _) => o | None => 0 end.
(* OpCodeInfo::immediate_size (includes the immediates of EOF-only opcodes) *)
Definition imm_size (op : Z) : Z := match op_row op with Some (_, _, m, _, _) => m | None => 0 end.
Definition op_terminating (op : Z) : bool := match op_row op with Some (_, _, _, _, t) => t | None => false end.
Definition op_defined (op : Z) : bool := match op_row op with Some _ => true | None => false end.

(* bytes following the opcode that a legacy instruction consumes: only PUSH1..PUSH32 do
   ([advance] of Model/Jump.v is the distance the jump analysis skips for the same byte) *)
Definition legacy_imm (op : Z) : Z := Z.of_nat (advance op).

(* ---- classes of opcodes as seen by the instruction pointer ------------------------------- *)
Inductive cf_class :=
| CTerm             (* the run ends here: STOP, RETURN, REVERT, INVALID, SELFDESTRUCT, undefined bytes
                       (OpcodeNotFound), EOF-only opcodes (EOFOpcodeDisabledInLegacy) *)
| CJump | CJumpI
| CSeq (imm : Z).   (* continues at pc + 1 + imm, or stops with an error *)

Definition cf_class_of (op : Z) : cf_class :=
  match op_row op with
  | None => CTerm
  | Some (_, _, imm, _, term) =>
    if term then CTerm
    else if op =? OP_JUMP then CJump
    else if op =? OP_JUMPI then CJumpI
    else if imm =? legacy_imm op then CSeq imm
    else CTerm     (* an immediate that legacy code does not read: RJUMPI, RJUMPV, CALLF, DUPN, SWAPN, EXCHANGE,
                      EOFCREATE, DATALOADN: `require_eof!` ends the run (Props/C25.v proves it from the
                      executed table for every SpecId) *)
  end.

(* ---- the buffer the instruction pointer walks over ---------------------------------------- *)
(* Interpreter::new: bytecode = contract.bytecode.bytecode() of the analysed code = code ++ 33 zeros *)
Definition code_buffer (code : list Z) : list Z :=
  match to_analysed (LegacyRaw code) with
  | LegacyAnalyzed a => la_bytecode a
  | _ => []
  end.
(* let opcode = unsafe { *self.instruction_pointer } *)
Definition fetch (code : list Z) (pc : Z) : Z := nth (Z.to_nat pc) (code_buffer code) 0.
(* the bytes push::<N> reads: slice::from_raw_parts(ip, N) with ip = pc + 1 *)
Definition push_read (code : list Z) (pc : Z) (n : Z) : list Z :=
  firstn (Z.to_nat n) (skipn (Z.to_nat (pc + 1)) (code_buffer code)).

(* ---- one iteration of the loop, nondeterministic in the data --------------------------------- *)
Inductive cf_step (code : list Z) : Z -> Z -> Prop :=
| S_seq pc imm :
    0 <= pc -> cf_class_of (fetch code pc) = CSeq imm -> cf_step code pc (pc + 1 + imm)
| S_jump pc t :
    0 <= pc -> cf_class_of (fetch code pc) = CJump -> 0 <= t < pow256 ->
    jump_ok (to_analysed (LegacyRaw code)) t = true -> cf_step code pc t
| S_jumpi_taken pc t :
    0 <= pc -> cf_class_of (fetch code pc) = CJumpI -> 0 <= t < pow256 ->
    jump_ok (to_analysed (LegacyRaw code)) t = true -> cf_step code pc t
| S_jumpi_fall pc :
    0 <= pc -> cf_class_of (fetch code pc) = CJumpI -> cf_step code pc (pc + 1).

(* program counters at which an opcode is fetched in some run from pc = 0 *)
Inductive cf_reach (code : list Z) : Z -> Prop :=
| R_start : cf_reach code 0
| R_step pc pc' : cf_reach code pc -> cf_step code pc pc' -> cf_reach code pc'.

(* executable form used by the correspondence check: is pc' an allowed successor of pc? *)
Definition cf_succ_ok (code : list Z) (pc pc' : Z) : bool :=
  (0 <=? pc) &&
  match cf_class_of (fetch code pc) with
  | CTerm => false
  | CSeq imm => pc' =? pc + 1 + imm
  | CJump => (0 <=? pc') && jump_ok (to_analysed (LegacyRaw code)) pc'
  | CJumpI => (pc' =? pc + 1) || ((0 <=? pc') && jump_ok (to_analysed (LegacyRaw code)) pc')
  end.
Fixpoint cf_trace_from (code : list Z) (pc : Z) (rest : list Z) : bool :=
  match rest with
  | [] => true
  | pc' :: r => cf_succ_ok code pc pc' && cf_trace_from code pc' r
  end.
(* a recorded list of program counters is (a prefix of) a run of the model *)
Definition cf_trace_ok (code : list Z) (pcs : list Z) : bool :=
  match pcs with
  | [] => true
  | p :: r => (p =? 0) && cf_trace_from code p r
  end.

(* ---- the frame machine: program counter + gas + stack length ---------------------------------- *)
(* pop!/push! of the instruction macros, by the reflected (inputs, outputs):
   `if stack.len() < inputs { StackUnderflow }`, then the pushes fail with StackOverflow when the
   length would exceed STACK_LIMIT *)
Definition stack_effect (inputs outputs len : Z) : option Z :=
  if len <? inputs then None
  else if STACK_LIMIT <? len - inputs + outputs then None
  else Some (len - inputs + outputs).

Record cfg := mkCfg { c_pc : Z; c_gas : gas; c_slen : Z }.

(* [lb op = Some m]: an execution of [op] that leaves the instruction result at Continue /
   CallOrCreate charges at least [m]; [None]: no such execution exists.  The machine charges any
   amount >= m through Gas::record_cost. *)
Inductive m_step (lb : Z -> option Z) (code : list Z) : cfg -> cfg -> Prop :=
| M_step s pc' m cost g' sl' :
    cf_step code (c_pc s) pc' ->
    lb (fetch code (c_pc s)) = Some m -> m <= cost ->
    record_cost (c_gas s) cost = (g', true) ->
    stack_effect (op_inputs (fetch code (c_pc s))) (op_outputs (fetch code (c_pc s))) (c_slen s) = Some sl' ->
    m_step lb code s (mkCfg pc' g' sl').

(* n continuing steps *)
Inductive m_run (lb : Z -> option Z) (code : list Z) : nat -> cfg -> cfg -> Prop :=
| MR_nil s : m_run lb code 0 s s
| MR_cons n s s' s'' : m_step lb code s s' -> m_run lb code n s' s'' -> m_run lb code (S n) s s''.

(* Interpreter::new(contract, gas_limit, _): pc 0, Gas::new(gas_limit), empty stack *)
Definition cfg_init (gas_limit : Z) : cfg := mkCfg 0 (gas_new gas_limit) 0.
