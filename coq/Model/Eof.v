(* Model of the EOF container codec of /repo/crates/primitives/src/bytecode/eof.rs,
   eof/header.rs, eof/body.rs, eof/types_section.rs, eof/decode_helpers.rs.

   Bytes are [Z] (0..255), byte strings are lists. One Gallina function per Rust function, same
   order of checks, same error values. Every slice / index operation the Rust code performs
   ([input[i]], [&input[a..]], [Bytes::slice(a..b)], [Bytes::split_off(n)]) is written with an
   option-returning accessor; an out-of-range access makes the model return [Panic].
   [Proofs/EofProofs.v] shows that [Panic] is unreachable.

   usize arithmetic: all sums are bounded by 65535*65535 + small < 2^64 (sizes are u16, at most
   65535 of them), so no wrap can occur; the model uses unbounded Z for them.
   [as u16] casts are written [mod 65536]. *)
From Coq Require Export ZArith List Lia Bool.
Export ListNotations.
Local Open Scope Z_scope.

Definition bytes := list Z.
Definition is_byte (b : Z) : bool := (0 <=? b) && (b <? 256).
Definition is_bytes (l : bytes) : bool := forallb is_byte l.

Inductive EofDecodeError :=
| MissingInput | MissingBodyWithoutData | DanglingData | InvalidTypesSection
| InvalidTypesSectionSize | InvalidEOFMagicNumber | InvalidEOFVersion | InvalidTypesKind
| InvalidCodeKind | InvalidTerminalByte | InvalidDataKind | InvalidKindAfterCode
| MismatchCodeAndTypesSize | NonSizes | ShortInputForSizes | ZeroSize | TooManyCodeSections
| ZeroCodeSections | TooManyContainerSections | InvalidEOFSize.

(* discriminant order of the Rust enum; used by the harness to print errors *)
Definition err_code (e : EofDecodeError) : Z :=
  match e with
  | MissingInput => 0 | MissingBodyWithoutData => 1 | DanglingData => 2 | InvalidTypesSection => 3
  | InvalidTypesSectionSize => 4 | InvalidEOFMagicNumber => 5 | InvalidEOFVersion => 6
  | InvalidTypesKind => 7 | InvalidCodeKind => 8 | InvalidTerminalByte => 9 | InvalidDataKind => 10
  | InvalidKindAfterCode => 11 | MismatchCodeAndTypesSize => 12 | NonSizes => 13
  | ShortInputForSizes => 14 | ZeroSize => 15 | TooManyCodeSections => 16 | ZeroCodeSections => 17
  | TooManyContainerSections => 18 | InvalidEOFSize => 19
  end.

(* result of a Rust function that may return Err or panic on an out-of-range index *)
Inductive res (A : Type) := Ok (a : A) | Err (e : EofDecodeError) | Panic.
Arguments Ok {A} a. Arguments Err {A} e. Arguments Panic {A}.
Definition bind {A B} (r : res A) (f : A -> res B) : res B :=
  match r with Ok a => f a | Err e => Err e | Panic => Panic end.
Notation "'let*' x ':=' r 'in' k" := (bind r (fun x => k))
  (at level 200, x name, r at level 100, k at level 200, right associativity).
(* an indexing operation: None = index out of range = panic in Rust *)
Definition idx {A} (o : option A) : res A := match o with Some a => Ok a | None => Panic end.

(* ---- slices ---- *)
Definition len {A} (l : list A) : Z := Z.of_nat (length l).
(* l[i] *)
Definition get (l : bytes) (i : Z) : option Z :=
  if (0 <=? i) && (i <? len l) then nth_error l (Z.to_nat i) else None.
(* &l[a..] *)
Definition slice_from (l : bytes) (a : Z) : option bytes :=
  if (0 <=? a) && (a <=? len l) then Some (skipn (Z.to_nat a) l) else None.
(* &l[a..b] / Bytes::slice(a..b): panics unless a <= b <= len *)
Definition slice (l : bytes) (a b : Z) : option bytes :=
  if (0 <=? a) && (a <=? b) && (b <=? len l)
  then Some (firstn (Z.to_nat (b - a)) (skipn (Z.to_nat a) l)) else None.

Definition u16_of_be (hi lo : Z) : Z := hi * 256 + lo.
Definition u16_to_be (x : Z) : bytes := [x / 256; x mod 256].
Definition as_u16 (x : Z) : Z := x mod 65536.

(* ---- decode_helpers.rs ---- *)
Definition consume_u8 (input : bytes) : res (bytes * Z) :=
  if len input =? 0 then Err MissingInput
  else let* rest := idx (slice_from input 1) in
       let* b := idx (get input 0) in
       Ok (rest, b).

Definition consume_u16 (input : bytes) : res (bytes * Z) :=
  if len input <? 2 then Err MissingInput
  else (* input.split_at(2) *)
       let* int_bytes := idx (slice input 0 2) in
       let* rest := idx (slice_from input 2) in
       let* b0 := idx (get int_bytes 0) in
       let* b1 := idx (get int_bytes 1) in
       Ok (rest, u16_of_be b0 b1).

(* ---- types_section.rs ---- *)
Record TypesSection := mkTypes { inputs : Z; outputs : Z; max_stack_size : Z }.

Definition types_validate (t : TypesSection) : res unit :=
  if (inputs t >? 127) || (outputs t >? 128) || (max_stack_size t >? 1023) then Err InvalidTypesSection
  else if inputs t >? max_stack_size t then Err InvalidTypesSection
  else Ok tt.

Definition types_encode (t : TypesSection) : bytes :=
  [inputs t; outputs t] ++ u16_to_be (max_stack_size t).

Definition types_decode (input : bytes) : res (TypesSection * bytes) :=
  let* p1 := consume_u8 input in
  let* p2 := consume_u8 (fst p1) in
  let* p3 := consume_u16 (fst p2) in
  let section := mkTypes (snd p1) (snd p2) (snd p3) in
  let* _ := types_validate section in
  Ok (section, fst p3).

(* ---- header.rs ---- *)
Record EofHeader := mkHeader {
  types_size : Z;
  code_sizes : list Z;
  container_sizes : list Z;
  data_size : Z;
  sum_code_sizes : Z;
  sum_container_sizes : Z }.

Definition KIND_TERMINAL := 0.
Definition KIND_TYPES := 1.
Definition KIND_CODE := 2.
Definition KIND_CONTAINER := 3.
Definition KIND_DATA := 4.

Definition sum_list (l : list Z) : Z := fold_right Z.add 0 l.

(* the [for i in 0..num_sections] loop: reads input[i*2], input[i*2+1] *)
Fixpoint read_sizes (input : bytes) (i : Z) (cnt : nat) : res (list Z) :=
  match cnt with
  | O => Ok []
  | S c =>
    let* hi := idx (get input (i * 2)) in
    let* lo := idx (get input (i * 2 + 1)) in
    let code_size := u16_of_be hi lo in
    if code_size =? 0 then Err ZeroSize
    else let* rest := read_sizes input (i + 1) c in Ok (code_size :: rest)
  end.

Definition consume_header_section_size (input : bytes) : res (bytes * list Z * Z) :=
  let* p := consume_u16 input in
  let input := fst p in
  let num_sections := snd p in
  if num_sections =? 0 then Err NonSizes
  else
    let byte_size := num_sections * 2 in
    if len input <? byte_size then Err ShortInputForSizes
    else
      let* sizes := read_sizes input 0 (Z.to_nat num_sections) in
      let* rest := idx (slice_from input byte_size) in
      Ok (rest, sizes, sum_list sizes).

Definition header_size (h : EofHeader) : Z :=
  2 + 1 + 3 + 3 + 2 * len (code_sizes h)
  + (if len (container_sizes h) =? 0 then 0 else 3 + 2 * len (container_sizes h))
  + 3 + 1.
Definition data_size_raw_i (h : EofHeader) : Z := header_size h - 3.
Definition types_count (h : EofHeader) : Z := types_size h / 4.
Definition body_size (h : EofHeader) : Z :=
  types_size h + sum_code_sizes h + sum_container_sizes h + data_size h.
Definition eof_size (h : EofHeader) : Z := header_size h + body_size h.

Definition encode_sizes (l : list Z) : bytes := flat_map u16_to_be l.

Definition header_encode (h : EofHeader) : bytes :=
  [239; 0] ++ [1] ++ [KIND_TYPES] ++ u16_to_be (types_size h) ++ [KIND_CODE]
  ++ u16_to_be (as_u16 (len (code_sizes h))) ++ encode_sizes (code_sizes h)
  ++ (if len (container_sizes h) =? 0 then [KIND_DATA]
      else [KIND_CONTAINER] ++ u16_to_be (as_u16 (len (container_sizes h)))
           ++ encode_sizes (container_sizes h) ++ [KIND_DATA])
  ++ u16_to_be (data_size h) ++ [KIND_TERMINAL].

Definition header_decode (input : bytes) : res (EofHeader * bytes) :=
  let* p := consume_u16 input in
  if negb (snd p =? 61184) then Err InvalidEOFMagicNumber else
  let* p := consume_u8 (fst p) in
  if negb (snd p =? 1) then Err InvalidEOFVersion else
  let* p := consume_u8 (fst p) in
  if negb (snd p =? KIND_TYPES) then Err InvalidTypesKind else
  let* p := consume_u16 (fst p) in
  let tsize := snd p in
  if negb (tsize mod 4 =? 0) then Err InvalidTypesSection else
  let* p := consume_u8 (fst p) in
  if negb (snd p =? KIND_CODE) then Err InvalidCodeKind else
  let* q := consume_header_section_size (fst p) in
  let '(input, sizes, sum) := q in
  if len sizes >? 1024 then Err TooManyCodeSections else
  if len sizes =? 0 then Err ZeroCodeSections else
  if negb (len sizes =? tsize / 4) then Err MismatchCodeAndTypesSize else
  let* p := consume_u8 input in
  let kind := snd p in
  let* r :=
    (if kind =? KIND_CONTAINER then
       let* q := consume_header_section_size (fst p) in
       let '(input, csizes, csum) := q in
       if len csizes >? 256 then Err TooManyContainerSections else
       let* p := consume_u8 input in
       if negb (snd p =? KIND_DATA) then Err InvalidDataKind else
       Ok (fst p, csizes, csum)
     else if kind =? KIND_DATA then Ok (fst p, [], 0)
     else Err InvalidKindAfterCode) in
  let '(input, csizes, csum) := r in
  let* p := consume_u16 input in
  let dsize := snd p in
  let* p := consume_u8 (fst p) in
  if negb (snd p =? KIND_TERMINAL) then Err InvalidTerminalByte else
  Ok (mkHeader tsize sizes csizes dsize sum csum, fst p).

(* ---- body.rs ---- *)
Record EofBody := mkBody {
  types_section : list TypesSection;
  code_section : list bytes;
  container_section : list bytes;
  data_section : bytes;
  is_data_filled : bool }.

Definition body_encode (b : EofBody) : bytes :=
  flat_map types_encode (types_section b) ++ concat (code_section b)
  ++ concat (container_section b) ++ data_section b.

(* [for _ in 0..header.types_count()] *)
Fixpoint decode_types (input : bytes) (cnt : nat) : res (list TypesSection) :=
  match cnt with
  | O => Ok []
  | S c => let* p := types_decode input in
           let* rest := decode_types (snd p) c in
           Ok (fst p :: rest)
  end.

(* [for size in sizes { v.push(input.slice(start..start+size)); start += size }] *)
Fixpoint extract (input : bytes) (start : Z) (sizes : list Z) : res (list bytes * Z) :=
  match sizes with
  | [] => Ok ([], start)
  | size :: r => let* s := idx (slice input start (start + size)) in
                 let* p := extract input (start + size) r in
                 Ok (s :: fst p, snd p)
  end.

Definition body_decode (input : bytes) (h : EofHeader) : res EofBody :=
  let header_len := header_size h in
  let partial_body_len := sum_code_sizes h + sum_container_sizes h + types_size h in
  let full_body_len := partial_body_len + data_size h in
  if len input <? header_len + partial_body_len then Err MissingBodyWithoutData else
  if len input >? header_len + full_body_len then Err DanglingData else
  let* types_input := idx (slice_from input header_len) in
  let* types := decode_types types_input (Z.to_nat (types_count h)) in
  let start := header_len + types_size h in
  let* pc := extract input start (code_sizes h) in
  let* pk := extract input (snd pc) (container_sizes h) in
  let* data := idx (slice_from input (snd pk)) in
  Ok (mkBody types (fst pc) (fst pk) data (len data =? data_size h)).

(* ---- eof.rs ---- *)
Record Eof := mkEof { header : EofHeader; body : EofBody; raw : bytes }.

Definition encode_slow (e : Eof) : bytes := header_encode (header e) ++ body_encode (body e).

Definition decode (raw : bytes) : res Eof :=
  let* p := header_decode raw in
  let* b := body_decode raw (fst p) in
  Ok (mkEof (fst p) b raw).

Definition decode_dangling (raw : bytes) : res (Eof * bytes) :=
  let* p := header_decode raw in
  let h := fst p in
  let esize := body_size h + header_size h in
  if esize >? len raw then Err MissingInput else
  (* raw.split_off(eof_size): panics if eof_size > len *)
  let* dangling := idx (slice_from raw esize) in
  let* raw' := idx (slice raw 0 esize) in
  let* b := body_decode raw' h in
  Ok (mkEof h b raw', dangling).

(* EofBody::into_eof (Eof::new): header computed from the body with [as u16] truncation *)
Definition into_eof (b : EofBody) : Eof :=
  let h := mkHeader (as_u16 (as_u16 (len (types_section b)) * 4))
                    (map (fun x => as_u16 (len x)) (code_section b))
                    (map (fun x => as_u16 (len x)) (container_section b))
                    (as_u16 (len (data_section b)))
                    (sum_list (map (fun x => len x) (code_section b)))
                    (sum_list (map (fun x => len x) (container_section b))) in
  mkEof h b (header_encode h ++ body_encode b).

(* ---- facts the interpreter relies on (instructions/contract.rs return_contract) ---- *)
(* the output built by RETURNCONTRACT from a stored sub-container and the aux data; None = one
   of the usize subtractions underflows or the patch indexes out of range (= panic);
   Some (inl code) = instruction result EofAuxDataOverflow (1) / EofAuxDataTooSmall (2) *)
Definition patch2 (l : bytes) (i : Z) (b : bytes) : option bytes :=
  if (0 <=? i) && (i + 2 <=? len l)
  then Some (firstn (Z.to_nat i) l ++ b ++ skipn (Z.to_nat (i + 2)) l) else None.

Definition return_contract_output (container aux : bytes) : option (Z + bytes) :=
  match header_decode container with
  | Ok (h, _) =>
    if eof_size h <? len container then None else
    let static_aux_size := eof_size h - len container in
    if data_size h <? static_aux_size then None else
    let new_data_size := data_size h - static_aux_size + len aux in
    if new_data_size >? 65535 then Some (inl 1)
    else if new_data_size <? data_size h then Some (inl 2)
    else match patch2 (container ++ aux) (data_size_raw_i h) (u16_to_be new_data_size) with
         | Some o => Some (inr o)
         | None => None
         end
  | _ => None
  end.
