(* Model of the Bytecode value (crates/primitives/src/bytecode.rs), LegacyAnalyzedBytecode
   accessors (bytecode/legacy.rs) and Eip7702Bytecode (eip7702/bytecode.rs).
   The variant type [bytecode], [to_analysed] and the jump table live in Model/Jump.v.
   The EOF codec (Eof::decode) is another property (C26): here only its place in the
   classification is modelled, through the parameter [eof_decodes] (does Eof::decode succeed on
   these bytes), and the fact that the decoded value retains the raw bytes. *)
From RevmV Require Export Base.Word Base.Keccak Model.Jump.
Local Open Scope Z_scope.

Definition EOF_MAGIC_BYTES : list Z := [0xef; 0x00].
Definition EIP7702_MAGIC_BYTES : list Z := [0xef; 0x01].
Definition EIP7702_VERSION : Z := 0.
(* utilities.rs: KECCAK_EMPTY, as 32 bytes *)
Definition KECCAK_EMPTY : list Z :=
  [0xc5; 0xd2; 0x46; 0x01; 0x86; 0xf7; 0x23; 0x3c; 0x92; 0x7e; 0x7d; 0xb2; 0xdc; 0xc7; 0x03; 0xc0;
   0xe5; 0x00; 0xb6; 0x53; 0xca; 0x82; 0x27; 0x3b; 0x7b; 0xfa; 0xd8; 0x04; 0x5d; 0x85; 0xa4; 0x70].

Fixpoint bytes_eqb (a b : list Z) : bool :=
  match a, b with
  | [], [] => true
  | x :: a', y :: b' => (x =? y) && bytes_eqb a' b'
  | _, _ => false
  end.

(* slice::starts_with *)
Definition starts_with (l p : list Z) : bool :=
  (length p <=? length l)%nat && bytes_eqb (firstn (length p) l) p.

(* ---- Eip7702Bytecode ---------------------------------------------------------------------- *)
Inductive eip7702_error := InvalidLength | InvalidMagic | UnsupportedVersion.

(* new_raw: length, then magic, then version; the address is raw[3..] *)
Definition eip7702_new_raw (raw : list Z) : eip7702_bytecode + eip7702_error :=
  if negb (zlen raw =? 23) then inr InvalidLength
  else if negb (starts_with raw EIP7702_MAGIC_BYTES) then inr InvalidMagic
  else if negb (nth 2 raw 0 =? EIP7702_VERSION) then inr UnsupportedVersion
  else inl (mk7702 (skipn 3 raw) EIP7702_VERSION raw).

(* new: MAGIC ++ [VERSION] ++ address *)
Definition eip7702_new (address : list Z) : eip7702_bytecode :=
  mk7702 address EIP7702_VERSION (EIP7702_MAGIC_BYTES ++ [EIP7702_VERSION] ++ address).

Definition eip7702_raw (e : eip7702_bytecode) : list Z := e7_raw e.
Definition eip7702_address (e : eip7702_bytecode) : list Z := delegated_address e.

(* ---- Bytecode constructors ---------------------------------------------------------------- *)
Inductive decode_error := ErrEof | ErrEip7702 (e : eip7702_error).

Definition new_legacy (raw : list Z) : bytecode := LegacyRaw raw.
Definition new_eip7702 (address : list Z) : bytecode := Eip7702 (eip7702_new address).
(* Bytecode::new() = LegacyAnalyzedBytecode::default(): one STOP byte, length 0, one zero bit *)
Definition bytecode_default : bytecode := LegacyAnalyzed (mkAnalyzed [0] 0 [false]).

(* bytecode.get(..2) *)
Definition prefix2 (b : list Z) : option (list Z) :=
  if (2 <=? length b)%nat then Some (firstn 2 b) else None.

Definition new_raw_checked (eof_decodes : list Z -> bool) (b : list Z) : bytecode + decode_error :=
  match prefix2 b with
  | Some p =>
    if bytes_eqb p EOF_MAGIC_BYTES then
      (if eof_decodes b then inl (Eof b) else inr ErrEof)
    else if bytes_eqb p EIP7702_MAGIC_BYTES then
      match eip7702_new_raw b with
      | inl e => inl (Eip7702 e)
      | inr err => inr (ErrEip7702 err)
      end
    else inl (LegacyRaw b)
  | None => inl (LegacyRaw b)
  end.

(* ---- accessors ----------------------------------------------------------------------------- *)
(* LegacyAnalyzedBytecode::original_bytes / original_byte_slice: bytecode[..original_len]
   (Rust panics when original_len exceeds the length; only reachable through the unsafe
   constructor new_analyzed — [firstn] is total) *)
Definition la_original_bytes (a : legacy_analyzed) : list Z :=
  firstn (Z.to_nat (la_original_len a)) (la_bytecode a).

Definition original_bytes (bc : bytecode) : list Z :=
  match bc with
  | LegacyRaw b => b
  | LegacyAnalyzed a => la_original_bytes a
  | Eof raw => raw
  | Eip7702 e => eip7702_raw e
  end.
Definition original_byte_slice (bc : bytecode) : list Z :=
  match bc with
  | LegacyRaw b => b
  | LegacyAnalyzed a => la_original_bytes a
  | Eof raw => raw
  | Eip7702 e => eip7702_raw e
  end.
Definition bc_len (bc : bytecode) : Z := zlen (original_byte_slice bc).
Definition is_empty (bc : bytecode) : bool := bc_len bc =? 0.

(* bytes(): the padded bytes for analysed code, the original bytes otherwise *)
Definition bc_bytes (bc : bytecode) : list Z :=
  match bc with
  | LegacyAnalyzed a => la_bytecode a
  | _ => original_bytes bc
  end.

Definition hash_slow (bc : bytecode) : list Z :=
  if is_empty bc then KECCAK_EMPTY else keccak256 (original_byte_slice bc).

Definition is_eof (bc : bytecode) : bool := match bc with Eof _ => true | _ => false end.
Definition is_eip7702 (bc : bytecode) : bool := match bc with Eip7702 _ => true | _ => false end.
Definition is_execution_ready (bc : bytecode) : bool :=
  match bc with LegacyRaw _ => false | _ => true end.
