(* Model of crates/revm/src/journaled_state.rs (JournaledState) and of primitives/src/state.rs
   (Account, EvmStorageSlot, status flags). One Gallina function per Rust method, same order of
   reads, writes and journal pushes. [None] = the Rust code panics here (unwrap on an account
   that is not loaded, u64/U256 arithmetic overflow) — callers inside revm guarantee these
   preconditions; the theorems state them.

   Representation choices (modelled, not verified):
   * HashMap<Address, Account> / HashMap<U256, slot> are partial functions Z -> option _;
   * code is an identity (Z, 0 = empty code / KECCAK_EMPTY); the Option caching of
     AccountInfo.code is not represented (PartialEq of AccountInfo ignores it as well);
   * U256 `+=` / `-=` of the ruint library wrap modulo 2^256 (they never panic);
   * the database is a pair of total functions and never fails (database errors are fatal
     in revm and abort the transaction). *)
From RevmV Require Import Base.Word.
Local Open Scope Z_scope.

Definition upd {V} (m : Z -> V) (a : Z) (v : V) : Z -> V :=
  fun x => if x =? a then v else m x.
Definition upd2 {V} (m : Z -> Z -> V) (a k : Z) (v : V) : Z -> Z -> V :=
  fun x y => if (x =? a) && (y =? k) then v else m x y.

Record slot := mkSlot { s_orig : Z; s_pres : Z; s_cold : bool }.

Record account := mkAcc {
  a_bal : Z; a_nonce : Z; a_code : Z;
  a_created : bool; a_selfd : bool; a_touched : bool; a_lane : bool; a_cold : bool;
  a_storage : Z -> option slot }.

Record db := mkDb {
  db_basic : Z -> option (Z * Z * Z);        (* balance, nonce, code *)
  db_storage : Z -> Z -> Z;
  db_delegate : Z -> option Z }.             (* code identity -> EIP-7702 delegation target *)

Inductive entry :=
| AccountWarmed (a : Z)
| AccountDestroyed (a target : Z) (was_destroyed : bool) (had_balance : Z)
| AccountTouched (a : Z)
| BalanceTransfer (from to balance : Z)
| NonceChange (a : Z)
| AccountCreated (a : Z)
| StorageChanged (a k had : Z)
| StorageWarmed (a k : Z)
| TransientStorageChange (a k had : Z)
| CodeChange (a : Z).

Record jstate := mkJ {
  st : Z -> option account;
  ts : Z -> Z -> Z;                 (* transient storage; absent = 0 *)
  logs : list Z;                    (* oldest first *)
  depth : Z;
  journal : list (list entry);      (* head = current (last) frame; entries newest first *)
  spurious : bool; cancun : bool;   (* what JournaledState.spec is used for *)
  warm_pre : Z -> bool }.

Definition PRECOMPILE3 : Z := 3.
Definition U64MAX : Z := pow64 - 1.

Definition set_st (s : jstate) f := mkJ f (ts s) (logs s) (depth s) (journal s) (spurious s) (cancun s) (warm_pre s).
Definition set_ts (s : jstate) f := mkJ (st s) f (logs s) (depth s) (journal s) (spurious s) (cancun s) (warm_pre s).
Definition set_logs (s : jstate) l := mkJ (st s) (ts s) l (depth s) (journal s) (spurious s) (cancun s) (warm_pre s).
Definition set_depth (s : jstate) d := mkJ (st s) (ts s) (logs s) d (journal s) (spurious s) (cancun s) (warm_pre s).
Definition set_journal (s : jstate) j := mkJ (st s) (ts s) (logs s) (depth s) j (spurious s) (cancun s) (warm_pre s).

(* journal.last_mut().unwrap().push(e) *)
Definition push (s : jstate) (e : entry) : jstate :=
  match journal s with
  | f :: r => set_journal s ((e :: f) :: r)
  | [] => set_journal s [[e]]     (* unreachable: the journal always has a frame *)
  end.
Definition put (s : jstate) (a : Z) (acc : account) : jstate := set_st s (upd (st s) a (Some acc)).

Definition acc_bal acc v := mkAcc v (a_nonce acc) (a_code acc) (a_created acc) (a_selfd acc) (a_touched acc) (a_lane acc) (a_cold acc) (a_storage acc).
Definition acc_nonce acc v := mkAcc (a_bal acc) v (a_code acc) (a_created acc) (a_selfd acc) (a_touched acc) (a_lane acc) (a_cold acc) (a_storage acc).
Definition acc_code acc v := mkAcc (a_bal acc) (a_nonce acc) v (a_created acc) (a_selfd acc) (a_touched acc) (a_lane acc) (a_cold acc) (a_storage acc).
Definition acc_created acc v := mkAcc (a_bal acc) (a_nonce acc) (a_code acc) v (a_selfd acc) (a_touched acc) (a_lane acc) (a_cold acc) (a_storage acc).
Definition acc_selfd acc v := mkAcc (a_bal acc) (a_nonce acc) (a_code acc) (a_created acc) v (a_touched acc) (a_lane acc) (a_cold acc) (a_storage acc).
Definition acc_touched acc v := mkAcc (a_bal acc) (a_nonce acc) (a_code acc) (a_created acc) (a_selfd acc) v (a_lane acc) (a_cold acc) (a_storage acc).
Definition acc_cold acc v := mkAcc (a_bal acc) (a_nonce acc) (a_code acc) (a_created acc) (a_selfd acc) (a_touched acc) (a_lane acc) v (a_storage acc).
Definition acc_storage acc v := mkAcc (a_bal acc) (a_nonce acc) (a_code acc) (a_created acc) (a_selfd acc) (a_touched acc) (a_lane acc) (a_cold acc) v.

(* Account::from(AccountInfo) / Account::new_not_existing() *)
Definition account_from_db (d : db) (a : Z) : account :=
  match db_basic d a with
  | Some (b, n, c) => mkAcc b n c false false false false false (fun _ => None)
  | None => mkAcc 0 0 0 false false false true false (fun _ => None)
  end.

Definition jnew (spur canc : bool) (wp : Z -> bool) : jstate :=
  mkJ (fun _ => None) (fun _ _ => 0) [] 0 [[]] spur canc wp.

(* ---------------------------------------------------------------- touch *)
Definition touch_account (s : jstate) (a : Z) (acc : account) : jstate :=
  if a_touched acc then s
  else put (push s (AccountTouched a)) a (acc_touched acc true).

Definition touch (s : jstate) (a : Z) : jstate :=
  match st s a with Some acc => touch_account s a acc | None => s end.

(* ---------------------------------------------------------------- loads *)
Definition load_account (d : db) (s : jstate) (a : Z) : jstate * bool :=
  match st s a with
  | Some acc =>
      if a_cold acc
      then (push (put s a (acc_cold acc false)) (AccountWarmed a), true)
      else (s, false)
  | None =>
      let s1 := put s a (account_from_db d a) in
      if warm_pre s a then (s1, false) else (push s1 (AccountWarmed a), true)
  end.

Definition load_code := load_account.

(* returns (state, is_cold, is_empty (state-clear aware), delegate is_cold) *)
Definition is_empty_acc (acc : account) : bool :=
  (a_code acc =? 0) && (a_bal acc =? 0) && (a_nonce acc =? 0).
Definition state_clear_aware_is_empty (s : jstate) (acc : account) : bool :=
  if spurious s then is_empty_acc acc else a_lane acc && negb (a_touched acc).

Definition load_account_delegated (d : db) (s : jstate) (a : Z) : jstate * bool * bool * option bool :=
  let '(s1, cold) := load_code d s a in
  match st s1 a with
  | Some acc =>
      let empty := state_clear_aware_is_empty s1 acc in
      match db_delegate d (a_code acc) with
      | Some t => let '(s2, dcold) := load_account d s1 t in (s2, cold, empty, Some dcold)
      | None => (s1, cold, empty, None)
      end
  | None => (s1, cold, false, None)   (* unreachable: just loaded *)
  end.

(* initial_account_load: not journaled; preloads access-list slots *)
Fixpoint preload_slots (d : db) (a : Z) (acc : account) (keys : list Z) : account :=
  match keys with
  | [] => acc
  | k :: r =>
      let acc' := match a_storage acc k with
                  | Some _ => acc
                  | None => let v := db_storage d a k in
                            acc_storage acc (upd (a_storage acc) k (Some (mkSlot v v false)))
                  end in
      preload_slots d a acc' r
  end.
Definition initial_account_load (d : db) (s : jstate) (a : Z) (keys : list Z) : jstate :=
  let acc := match st s a with Some acc => acc | None => account_from_db d a end in
  put s a (preload_slots d a acc keys).

(* ---------------------------------------------------------------- nonce / code *)
(* inc_nonce: Some (state, Some new_nonce) | Some (state, None) on overflow | None = panic *)
Definition inc_nonce (s : jstate) (a : Z) : option (jstate * option Z) :=
  match st s a with
  | None => None
  | Some acc =>
      if a_nonce acc =? U64MAX then Some (s, None)
      else
        let s1 := touch_account s a acc in
        match st s1 a with
        | Some acc1 =>
            let s2 := push s1 (NonceChange a) in
            Some (put s2 a (acc_nonce acc1 (a_nonce acc1 + 1)), Some (a_nonce acc1 + 1))
        | None => None
        end
  end.

Definition set_code (s : jstate) (a c : Z) : option jstate :=
  match st s a with
  | None => None
  | Some acc =>
      let s1 := touch_account s a acc in
      match st s1 a with
      | Some acc1 => Some (put (push s1 (CodeChange a)) a (acc_code acc1 c))
      | None => None
      end
  end.

(* ---------------------------------------------------------------- transfer *)
Inductive xfer_result := XferOk | OutOfFunds | OverflowPayment.

Definition transfer (d : db) (s : jstate) (from to v : Z) : option (jstate * xfer_result) :=
  let '(s1, _) := load_account d s from in
  let '(s2, _) := load_account d s1 to in
  match st s2 from with
  | None => None
  | Some fa =>
      let s3 := touch_account s2 from fa in
      match st s3 from with
      | None => None
      | Some fa3 =>
          if a_bal fa3 <? v then Some (s3, OutOfFunds)
          else
            let s4 := put s3 from (acc_bal fa3 (a_bal fa3 - v)) in
            match st s4 to with
            | None => None
            | Some ta =>
                let s5 := touch_account s4 to ta in
                match st s5 to with
                | None => None
                | Some ta5 =>
                    if pow256 <=? a_bal ta5 + v then
                      (* fix F1: the debit is undone before reporting the failed payment *)
                      match st s5 from with
                      | Some fa5 => Some (put s5 from (acc_bal fa5 (a_bal fa5 + v)), OverflowPayment)
                      | None => None
                      end
                    else
                      let s6 := put s5 to (acc_bal ta5 (a_bal ta5 + v)) in
                      Some (push s6 (BalanceTransfer from to v), XferOk)
                end
            end
      end
  end.

(* ---------------------------------------------------------------- storage *)
Definition sload (d : db) (s : jstate) (a k : Z) : option (jstate * Z * bool) :=
  match st s a with
  | None => None
  | Some acc =>
      match a_storage acc k with
      | Some sl =>
          if s_cold sl then
            let acc' := acc_storage acc (upd (a_storage acc) k (Some (mkSlot (s_orig sl) (s_pres sl) false))) in
            Some (push (put s a acc') (StorageWarmed a k), s_pres sl, true)
          else Some (s, s_pres sl, false)
      | None =>
          let v := if a_created acc then 0 else db_storage d a k in
          let acc' := acc_storage acc (upd (a_storage acc) k (Some (mkSlot v v false))) in
          Some (push (put s a acc') (StorageWarmed a k), v, true)
      end
  end.

(* returns (state, original, present, is_cold) *)
Definition sstore (d : db) (s : jstate) (a k new : Z) : option (jstate * Z * Z * bool) :=
  match sload d s a k with
  | None => None
  | Some (s1, present, cold) =>
      match st s1 a with
      | None => None
      | Some acc =>
          match a_storage acc k with
          | None => None
          | Some sl =>
              if present =? new then Some (s1, s_orig sl, present, cold)
              else
                let s2 := push s1 (StorageChanged a k present) in
                let acc' := acc_storage acc (upd (a_storage acc) k (Some (mkSlot (s_orig sl) new (s_cold sl)))) in
                Some (put s2 a acc', s_orig sl, present, cold)
          end
      end
  end.

Definition tload (s : jstate) (a k : Z) : Z := ts s a k.

Definition tstore (s : jstate) (a k new : Z) : jstate :=
  let prev := ts s a k in
  let s1 := set_ts s (upd2 (ts s) a k new) in
  if new =? 0 then
    (* remove(): journaled if an entry existed. An existing entry is never zero (zero values
       are removed), so "existed" = previous value non-zero. *)
    if prev =? 0 then s1 else push s1 (TransientStorageChange a k prev)
  else if prev =? new then s1 else push s1 (TransientStorageChange a k prev).

Definition log (s : jstate) (l : Z) : jstate := set_logs s (logs s ++ [l]).

(* ---------------------------------------------------------------- checkpoints *)
Record checkpoint_t := mkCp { log_i : nat; journal_i : nat }.

Definition checkpoint (s : jstate) : jstate * checkpoint_t :=
  (set_journal (set_depth s (depth s + 1)) ([] :: journal s),
   mkCp (length (logs s)) (length (journal s))).

Definition checkpoint_commit (s : jstate) : jstate := set_depth s (depth s - 1).

(* journal_revert of one entry on (state, transient storage) *)
Definition undo (spur : bool) (e : entry) (s : jstate) : option jstate :=
  match e with
  | AccountWarmed a =>
      match st s a with Some acc => Some (put s a (acc_cold acc true)) | None => None end
  | AccountTouched a =>
      if spur && (a =? PRECOMPILE3) then Some s
      else match st s a with Some acc => Some (put s a (acc_touched acc false)) | None => None end
  | AccountDestroyed a t was had =>
      match st s a with
      | None => None
      | Some acc =>
          let s1 := put s a (acc_bal (acc_selfd acc was) (wrap256 (a_bal acc + had))) in
          if a =? t then Some s1
          else match st s1 t with
               | Some tacc => Some (put s1 t (acc_bal tacc (wrap256 (a_bal tacc - had))))
               | None => None
               end
      end
  | BalanceTransfer f t v =>
      match st s f with
      | None => None
      | Some fa =>
          let s1 := put s f (acc_bal fa (wrap256 (a_bal fa + v))) in
          match st s1 t with
          | Some ta => Some (put s1 t (acc_bal ta (wrap256 (a_bal ta - v))))
          | None => None
          end
      end
  | NonceChange a =>
      match st s a with Some acc => Some (put s a (acc_nonce acc (a_nonce acc - 1))) | None => None end
  | AccountCreated a =>
      (* fix F2: slots are no longer marked cold wholesale *)
      match st s a with Some acc => Some (put s a (acc_nonce (acc_created acc false) 0)) | None => None end
  | StorageWarmed a k =>
      match st s a with
      | Some acc =>
          match a_storage acc k with
          | Some sl => Some (put s a (acc_storage acc (upd (a_storage acc) k (Some (mkSlot (s_orig sl) (s_pres sl) true)))))
          | None => None
          end
      | None => None
      end
  | StorageChanged a k had =>
      match st s a with
      | Some acc =>
          match a_storage acc k with
          | Some sl => Some (put s a (acc_storage acc (upd (a_storage acc) k (Some (mkSlot (s_orig sl) had (s_cold sl))))))
          | None => None
          end
      | None => None
      end
  | TransientStorageChange a k had => Some (set_ts s (upd2 (ts s) a k had))
  | CodeChange a =>
      match st s a with Some acc => Some (put s a (acc_code acc 0)) | None => None end
  end.

Fixpoint undo_list (spur : bool) (es : list entry) (s : jstate) : option jstate :=
  match es with
  | [] => Some s
  | e :: r => match undo spur e s with Some s' => undo_list spur r s' | None => None end
  end.

(* frames to revert: the last (len - journal_i) ones, most recent first *)
Definition checkpoint_revert (s : jstate) (cp : checkpoint_t) : option jstate :=
  let n := (length (journal s) - journal_i cp)%nat in
  match undo_list (spurious s) (concat (firstn n (journal s))) s with
  | None => None
  | Some s1 =>
      Some (set_journal (set_logs (set_depth s1 (depth s - 1)) (firstn (log_i cp) (logs s)))
                        (skipn n (journal s)))
  end.

(* ---------------------------------------------------------------- create / selfdestruct *)
Inductive create_result := CreateOk (cp : checkpoint_t) | CreateCollision | CreateOverflow.

Definition create_account_checkpoint (s : jstate) (caller addr : Z) (has_storage : bool) (v : Z)
    (spec_spurious : bool) : option (jstate * create_result) :=
  let '(s1, cp) := checkpoint s in
  match st s1 addr with
  | None => None
  | Some acc =>
      if negb (a_code acc =? 0) || negb (a_nonce acc =? 0) || has_storage then
        match checkpoint_revert s1 cp with Some s2 => Some (s2, CreateCollision) | None => None end
      else
        let s2 := push (put s1 addr (acc_created acc true)) (AccountCreated addr) in
        match st s2 addr with
        | None => None
        | Some acc2 =>
            let s3 := touch_account s2 addr acc2 in
            match st s3 addr with
            | None => None
            | Some acc3 =>
                if pow256 <=? a_bal acc3 + v then
                  match checkpoint_revert s3 cp with Some s4 => Some (s4, CreateOverflow) | None => None end
                else
                  let acc4 := acc_bal acc3 (a_bal acc3 + v) in
                  let acc5 := if spec_spurious then acc_nonce acc4 1 else acc4 in
                  let s5 := put s3 addr acc5 in
                  match st s5 caller with
                  | None => None
                  | Some cacc =>
                      (* ruint `-=` wraps; create_inner has checked the balance before *)
                      let s6 := put s5 caller (acc_bal cacc (wrap256 (a_bal cacc - v))) in
                      Some (push s6 (BalanceTransfer caller addr v), CreateOk cp)
                  end
            end
        end
  end.

(* returns (state, had_value, target_exists, previously_destroyed, is_cold) *)
Definition selfdestruct (d : db) (s : jstate) (a t : Z) : option (jstate * bool * bool * bool * bool) :=
  let '(s1, cold) := load_account d s t in
  match st s1 t with
  | None => None
  | Some tacc0 =>
      let empty := state_clear_aware_is_empty s1 tacc0 in
      let s3o :=
        if a =? t then Some s1
        else match st s1 a with
             | None => None
             | Some acc =>
                 let s2 := touch_account s1 t tacc0 in
                 match st s2 t with
                 | None => None
                 | Some tacc =>
                     (* F13: ruint `+=` wraps silently when the beneficiary overflows *)
                     Some (put s2 t (acc_bal tacc (wrap256 (a_bal tacc + a_bal acc))))
                 end
             end in
      match s3o with
      | None => None
      | Some s3 =>
          match st s3 a with
          | None => None
          | Some acc =>
              let balance := a_bal acc in
              let prev := a_selfd acc in
              let s4 :=
                if a_created acc || negb (cancun s3) then
                  push (put s3 a (acc_bal (acc_selfd acc true) 0)) (AccountDestroyed a t prev balance)
                else if negb (a =? t) then
                  push (put s3 a (acc_bal acc 0)) (BalanceTransfer a t balance)
                else s3 in
              Some (s4, negb (balance =? 0), negb empty, prev, cold)
          end
      end
  end.

Definition clear (s : jstate) : jstate := jnew (spurious s) (cancun s) (fun _ => false).
Definition finalize (s : jstate) : jstate :=
  mkJ (fun _ => None) (fun _ _ => 0) [] 0 [[]] (spurious s) (cancun s) (warm_pre s).

(* ---------------------------------------------------------------- operation histories *)
Inductive hop :=
| HLoad (a : Z) | HLoadDelegated (a : Z) | HTouch (a : Z) | HIncNonce (a : Z) | HSetCode (a c : Z)
| HTransfer (f t v : Z) | HCreate (caller addr : Z) (has_storage : bool) (v : Z)
| HSload (a k : Z) | HSstore (a k v : Z) | HTload (a k : Z) | HTstore (a k v : Z) | HLog (l : Z)
| HSelfdestruct (a t : Z)
| HCheckpoint | HCommit | HRevert.

(* A history is run with the stack of checkpoints it opened itself (HCommit / HRevert close the
   innermost one; with an empty stack they are no-ops). HCreate opens a checkpoint on success
   (the create frame), exactly as create_account_checkpoint does. *)
Definition run_hop (d : db) (sc : jstate * list checkpoint_t) (o : hop) : option (jstate * list checkpoint_t) :=
  let '(s, cps) := sc in
  match o with
  | HLoad a => Some (fst (load_account d s a), cps)
  | HLoadDelegated a => let '(s1, _, _, _) := load_account_delegated d s a in Some (s1, cps)
  | HTouch a => Some (touch s a, cps)
  | HIncNonce a => match inc_nonce s a with Some (s1, _) => Some (s1, cps) | None => None end
  | HSetCode a c => match set_code s a c with Some s1 => Some (s1, cps) | None => None end
  | HTransfer f t v => match transfer d s f t v with Some (s1, _) => Some (s1, cps) | None => None end
  | HCreate c a hs v =>
      match create_account_checkpoint s c a hs v (spurious s) with
      | Some (s1, CreateOk cp) => Some (s1, cp :: cps)
      | Some (s1, _) => Some (s1, cps)
      | None => None
      end
  | HSload a k => match sload d s a k with Some (s1, _, _) => Some (s1, cps) | None => None end
  | HSstore a k v => match sstore d s a k v with Some (s1, _, _, _) => Some (s1, cps) | None => None end
  | HTload a k => Some (s, cps)
  | HTstore a k v => Some (tstore s a k v, cps)
  | HLog l => Some (log s l, cps)
  | HSelfdestruct a t => match selfdestruct d s a t with Some (s1, _, _, _, _) => Some (s1, cps) | None => None end
  | HCheckpoint => let '(s1, cp) := checkpoint s in Some (s1, cp :: cps)
  | HCommit => match cps with _ :: r => Some (checkpoint_commit s, r) | [] => Some (s, cps) end
  | HRevert => match cps with
               | cp :: r => match checkpoint_revert s cp with Some s1 => Some (s1, r) | None => None end
               | [] => Some (s, cps)
               end
  end.

Fixpoint run_hops (d : db) (sc : jstate * list checkpoint_t) (h : list hop) : option (jstate * list checkpoint_t) :=
  match h with
  | [] => Some sc
  | o :: r => match run_hop d sc o with Some sc' => run_hops d sc' r | None => None end
  end.
