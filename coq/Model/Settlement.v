(* Model of the gas / fee settlement of a transaction (everything of transact_preverified_inner
   around the execution of the first frame):
     crates/revm/src/handler/mainnet/pre_execution.rs   deduct_caller_inner
     crates/revm/src/handler/mainnet/execution.rs       last_frame_return
     crates/revm/src/handler/mainnet/post_execution.rs  refund, reimburse_caller, reward_beneficiary, output
     crates/revm/src/evm.rs                             transact_preverified_inner (EIP-7623 floor step)
   The gas meter is Model/Gas.v (C13); prices and the environment are Model/Envelope.v (C02).
   [None] = a u64/i64 `+`/`-` of the code would overflow (panic in debug builds); the U256
   operators `*` wrap and saturating_* saturate, as written. *)
From RevmV Require Import Base.Word Model.Gas Model.Envelope.
Local Open Scope Z_scope.

Inductive frame_class := FOk | FRevert | FHalt.   (* return_ok! / return_revert! / anything else *)

(* what the execution of the first frame hands to last_frame_return *)
Record frame_result := mkFrame {
  f_class : frame_class;
  f_remaining : Z;        (* gas.remaining() of the frame result, u64 *)
  f_refunded : Z          (* gas.refunded() of the frame result, i64 *)
}.

(* ---- pre_execution::deduct_caller_inner: new caller balance ([None]: `expect("already checked")`) *)
Definition deduct_caller_inner (spec : Z) (e : env) (balance : Z) : option Z :=
  let gas_cost := sat256 (tx_gas_limit (e_tx e) * effective_gas_price e) in
  if enabled spec CANCUN then
    match calc_data_fee e with
    | Some data_fee => Some (sat256 (balance - sat256 (gas_cost + data_fee)))
    | None => None
    end
  else Some (sat256 (balance - gas_cost)).

(* ---- execution::last_frame_return *)
Definition last_frame_return (e : env) (f : frame_result) : option gas :=
  let g := gas_new_spent (tx_gas_limit (e_tx e)) in
  match f_class f with
  | FOk => match erase_cost g (f_remaining f) with
           | Some g1 => record_refund g1 (f_refunded f)
           | None => None end
  | FRevert => erase_cost g (f_remaining f)
  | FHalt => Some g
  end.

(* ---- post_execution::refund: record the EIP-7702 refund, then cap by spent / (5 | 2) *)
Definition refund (spec : Z) (g : gas) (eip7702_refund : Z) : option gas :=
  match record_refund g eip7702_refund with
  | Some g1 => set_final_refund_chk g1 (enabled spec LONDON)
  | None => None
  end.

(* ---- evm.rs: EIP-7623 floor step *)
Definition floor_step (g : gas) (floor_gas : Z) : gas :=
  if spent_sub_refunded g <? floor_gas then set_refund (set_spent g floor_gas) 0 else g.

(* `gas.refunded() as u64` *)
Definition refunded_u64 (g : gas) : Z := i64_as_u64 (refunded g).

(* ---- post_execution::reimburse_caller: balance.saturating_add(price * (remaining + refunded)) *)
Definition reimburse_caller (e : env) (g : gas) (balance : Z) : option Z :=
  match checked64 (remaining g + refunded_u64 g) with
  | Some n => Some (sat256 (balance + wrap256 (effective_gas_price e * n)))
  | None => None
  end.

(* ---- post_execution::reward_beneficiary *)
Definition coinbase_gas_price (spec : Z) (e : env) : Z :=
  if enabled spec LONDON then sat256 (effective_gas_price e - b_basefee (e_block e))
  else effective_gas_price e.
Definition reward_beneficiary (spec : Z) (e : env) (g : gas) (balance : Z) : option Z :=
  match checked64 (spent g - refunded_u64 g) with
  | Some n => Some (sat256 (balance + wrap256 (coinbase_gas_price spec e * n)))
  | None => None
  end.

(* ---- post_execution::output: (gas_used, gas_refunded) *)
Definition output_gas (g : gas) : option (Z * Z) :=
  match checked64 (spent g - refunded_u64 g) with
  | Some used => Some (used, refunded_u64 g)
  | None => None
  end.

(* ---- the whole settlement. [exec_delta] is what the execution itself did to the caller's balance
   between deduct_caller and reimburse_caller (value transfers; 0 if none), kept apart because the
   property speaks about fees only. *)
Record settlement := mkSettle {
  st_gas : gas;                 (* the meter handed to reimburse / reward / output *)
  st_gas_used : Z;
  st_gas_refunded : Z;
  st_caller : Z;                (* caller balance at the end *)
  st_coinbase : Z               (* beneficiary balance at the end *)
}.

Definition settle (spec : Z) (e : env) (floor_gas : Z) (f : frame_result) (eip7702_refund : Z)
           (caller_balance exec_delta coinbase_balance : Z) : option settlement :=
  match deduct_caller_inner spec e caller_balance with
  | None => None
  | Some b1 =>
    match last_frame_return e f with
    | None => None
    | Some g1 =>
      match refund spec g1 eip7702_refund with
      | None => None
      | Some g2 =>
        let g3 := floor_step g2 floor_gas in
        match reimburse_caller e g3 (b1 + exec_delta), reward_beneficiary spec e g3 coinbase_balance,
              output_gas g3 with
        | Some b3, Some c1, Some (used, refd) => Some (mkSettle g3 used refd b3 c1)
        | _, _, _ => None
        end
      end
    end
  end.
