(* Model of the handler configuration state machine and of the post-execution settlement.

   Code modelled (function by function, same order of effects):
     crates/revm/src/handler.rs           Handler::{new, mainnet, optimism, *_with_spec,
                                          with_reward_beneficiary, append_handler_register*,
                                          pop_handle_register, create_handle_generic, modify_spec_id}
     crates/revm/src/handler/handle_types/post_execution.rs   PostExecutionHandler::{new, reward_beneficiary}
     crates/revm/src/handler/register.rs  HandleRegisters::{Plain, Box}
     crates/revm/src/optimism/handler_register.rs   optimism_handle_register(flag), reward_beneficiary
     crates/revm/src/builder.rs           every method that assigns `handler`
     crates/revm/src/evm.rs               Evm::{new, modify, modify_spec_id, into_context_with_handler_cfg},
                                          the tail of transact_preverified_inner
     crates/revm/src/handler/mainnet/post_execution.rs   refund, reimburse_caller, reward_beneficiary, output

   What is abstract: a handle register is an opaque closure in Rust; here it is described by its
   effect on the reward handle only ([KeepsReward] / [SetsReward o]); the other handles (validation,
   pre-execution, execution, the remaining post-execution handles, instruction table) do not
   appear because nothing in this file reads them. *)
From RevmV Require Import Base.Word Model.Gas.
Local Open Scope Z_scope.

(* ------------------------------------------------------------------ handler state *)

(* which function sits in PostExecutionHandler::reward_beneficiary *)
Inductive reward_fn := MainnetReward | OptimismReward | CustomReward (id : Z).

Inductive reg_kind := Plain | Boxed.                 (* HandleRegisters::{Plain, Box} *)
Inductive reward_effect :=
| KeepsReward                                       (* the register does not assign the reward handle *)
| SetsReward (o : option reward_fn).                 (* handler.post_execution.reward_beneficiary = o *)
Record register := mkReg { r_kind : reg_kind; r_eff : reward_effect }.

Record handler := mkHandler {
  h_spec : Z;                          (* cfg.spec_id (discriminant) *)
  h_reward : option reward_fn;         (* post_execution.reward_beneficiary *)
  h_regs : list register;              (* registers, oldest first *)
  h_optimism : bool                    (* cfg.is_optimism (false when the feature is off) *)
}.

(* cargo features that change the code paths below *)
Record features := mkFeat {
  f_optimism : bool;                   (* feature "optimism" *)
  f_op_default : bool;                 (* "optimism-default-handler" and not "negate-optimism-default-handler" *)
  f_canon : Z -> Z                     (* spec_to_generic!(s, SPEC::SPEC_ID): the SpecId of the generic Spec type chosen
                                          for [s] (FRONTIER_THAWING -> FRONTIER, MUIR_GLACIER -> ISTANBUL, ...) *)
}.

Definition is_some {A} (o : option A) : bool := match o with Some _ => true | None => false end.

(* Handler::with_reward_beneficiary(&self) = post_execution.reward_beneficiary.is_some() *)
Definition reward_on (h : handler) : bool := is_some (h_reward h).

Definition apply_effect (e : reward_effect) (cur : option reward_fn) : option reward_fn :=
  match e with KeepsReward => cur | SetsReward o => o end.

Section WithFeatures.
Variable fe : features.

(* HandlerCfg::new(spec).is_optimism *)
Definition cfg_default_optimism : bool := f_optimism fe && f_op_default fe.

(* Handler::mainnet::<SPEC>(with_reward_beneficiary) / mainnet_with_spec:
   cfg = HandlerCfg::new(SPEC::SPEC_ID) (the canonical id of the generic type);
   PostExecutionHandler::new::<SPEC>(flag) puts Some(mainnet::reward_beneficiary) iff flag *)
Definition mainnet_with_spec (s : Z) (flag : bool) : handler :=
  mkHandler (f_canon fe s) (if flag then Some MainnetReward else None) [] cfg_default_optimism.

(* Handler::append_handler_register (also _plain / _box): register.register(self); registers.push *)
Definition append_handler_register (h : handler) (r : register) : handler :=
  mkHandler (h_spec h) (apply_effect (r_eff r) (h_reward h)) (h_regs h ++ [r]) (h_optimism h).

(* optimism_handle_register(flag): `if with_reward_beneficiary { reward_beneficiary = Some(op) }` *)
Definition optimism_register (flag : bool) : register :=
  mkReg Boxed (if flag then SetsReward (Some OptimismReward) else KeepsReward).

(* Handler::optimism::<SPEC>(flag) / optimism_with_spec (feature "optimism") *)
Definition optimism_with_spec (s : Z) (flag : bool) : handler :=
  let h := mainnet_with_spec s flag in
  append_handler_register (mkHandler (h_spec h) (h_reward h) (h_regs h) true) (optimism_register flag).

(* Handler::new(cfg): always with_reward_beneficiary = true *)
Definition handler_new (s : Z) (is_optimism : bool) : handler :=
  if f_optimism fe && is_optimism then optimism_with_spec s true else mainnet_with_spec s true.

(* `for register in registers { base.append_handler_register(register) }` *)
Definition reapply (base : handler) (regs : list register) : handler :=
  fold_left append_handler_register regs base.

(* Handler::pop_handle_register: `*self = base_handler` replaces cfg as well *)
Definition pop_handle_register (h : handler) : handler * option register :=
  match h_regs h with
  | [] => (h, None)
  | _ => (reapply (mainnet_with_spec (h_spec h) (reward_on h)) (removelast (h_regs h)),
          Some (last (h_regs h) (mkReg Plain KeepsReward)))
  end.

(* Handler::create_handle_generic::<SPEC>(&mut self): returns the new handler; `self` keeps its
   handles but loses its registers (mem::take) *)
Definition create_handle_generic (h : handler) (s : Z) : handler * handler :=
  (reapply (mainnet_with_spec s (reward_on h)) (h_regs h),
   mkHandler (h_spec h) (h_reward h) [] (h_optimism h)).

(* Handler::modify_spec_id *)
Definition modify_spec_id (h : handler) (s : Z) : handler :=
  if h_spec h =? s then h
  else let h' := reapply (mainnet_with_spec s (reward_on h)) (h_regs h) in
       mkHandler s (h_reward h') (h_regs h') (h_optimism h).     (* handler.cfg = self.cfg(); cfg.spec_id = s *)

(* ------------------------------------------------------------------ builder / Evm level *)

(* Operations that a user can apply to a built Evm or to its builder. [route] only records
   through which public entry point the same handler function was reached. *)
Inductive route := ViaHandler | ViaEvm | ViaBuilder.

(* Builder methods that replace the handler by `Handler::new(cfg)` (or a fixed default) *)
Inductive reset_kind :=
| ResetHandler            (* reset_handler, reset_handler_with_empty_db, reset_handler_with_db,
                             reset_handler_with_ref_db, reset_handler_with_external_context;
                             SetGenericStage: with_empty_db, with_db, with_ref_db, with_external_context:
                             handler(self.handler.cfg()) *)
| WithHandlerCfg (s : Z) (opt : bool)
                          (* with_handler_cfg, with_env_with_handler_cfg, with_cfg_env_with_handler_cfg,
                             with_context_with_handler_cfg (hence the round trip through
                             Evm::into_context_with_handler_cfg): handler(handler_cfg) *)
| BuilderOptimism         (* optimism(): Handler::optimism_with_spec(spec, true) *)
| BuilderMainnet.         (* mainnet(), reset_handler_with_mainnet(): Handler::mainnet_with_spec(spec, true) *)

Inductive op :=
| ModifySpecId (rt : route) (s : Z)   (* Handler::modify_spec_id | Evm::modify_spec_id | EvmBuilder::with_spec_id *)
| Append (rt : route) (r : register)  (* Handler::append_handler_register{,_plain,_box} | EvmBuilder::append_handler_register{,_box} *)
| Pop                                 (* evm.handler.pop_handle_register() *)
| CreateGeneric (s : Z)               (* evm.handler = evm.handler.create_handle_generic::<SPEC>() *)
| ModifyBuild                         (* evm.modify().build(): EvmBuilder::new moves the handler, build moves it back *)
| Install (h : handler)               (* evm.modify().with_handler(h).build() *)
| Reset (k : reset_kind).

Definition reset (h : handler) (k : reset_kind) : handler :=
  match k with
  | ResetHandler => handler_new (h_spec h) (h_optimism h)
  | WithHandlerCfg s opt => handler_new s opt
  | BuilderOptimism => optimism_with_spec (h_spec h) true
  | BuilderMainnet => mainnet_with_spec (h_spec h) true
  end.

Definition step (h : handler) (o : op) : handler :=
  match o with
  | ModifySpecId _ s => modify_spec_id h s
  | Append _ r => append_handler_register h r
  | Pop => fst (pop_handle_register h)
  | CreateGeneric s => fst (create_handle_generic h s)
  | ModifyBuild => h
  | Install h' => h'
  | Reset k => reset h k
  end.

Definition run (h : handler) (ops : list op) : handler := fold_left step ops h.

(* observation trace used by the correspondence check: state after every operation *)
Fixpoint trace (h : handler) (ops : list op) : list handler :=
  match ops with
  | [] => []
  | o :: t => let h' := step h o in h' :: trace h' t
  end.

End WithFeatures.

(* The flag of the handler the user installed last ([Install]), else the initial one. *)
Fixpoint installed_flag (b : bool) (ops : list op) : bool :=
  match ops with
  | [] => b
  | Install h :: t => installed_flag (reward_on h) t
  | _ :: t => installed_flag b t
  end.

(* A register is compatible with flag [b] when it leaves the reward handle alone or assigns a
   handle of the same presence (the Optimism register of a handler built with flag [b]). *)
Definition eff_ok (b : bool) (e : reward_effect) : bool :=
  match e with KeepsReward => true | SetsReward o => Bool.eqb (is_some o) b end.
Definition regs_ok (b : bool) (l : list register) : bool := forallb (fun r => eff_ok b (r_eff r)) l.
Definition wf (h : handler) : bool := regs_ok (reward_on h) (h_regs h).

(* reconfiguration sequences covered by the property: no documented reset, every register added
   compatible with the setting in force, every installed handler well formed *)
Fixpoint ops_ok (b : bool) (ops : list op) : bool :=
  match ops with
  | [] => true
  | Append _ r :: t => eff_ok b (r_eff r) && ops_ok b t
  | Install h :: t => wf h && ops_ok (reward_on h) t
  | Reset _ :: _ => false
  | _ :: t => ops_ok b t
  end.

(* flag-level view of re-applying registers *)
Definition apply_flag (e : reward_effect) (b : bool) : bool :=
  match e with KeepsReward => b | SetsReward o => is_some o end.
Definition fold_flag (regs : list register) (b : bool) : bool :=
  fold_left (fun b r => apply_flag (r_eff r) b) regs b.
(* the current flag is what re-applying the registers to a base with that flag gives back *)
Definition consistent (h : handler) : Prop := fold_flag (h_regs h) (reward_on h) = reward_on h.

(* ------------------------------------------------------------------ settlement *)

(* journaled state restricted to what settlement touches: balance and the Touched flag *)
Record acct := mkAcct { a_bal : Z; a_touched : bool }.
Definition jstate := list (Z * acct).

Fixpoint jget (s : jstate) (a : Z) : option acct :=
  match s with
  | [] => None
  | (k, v) :: t => if k =? a then Some v else jget t a
  end.
Fixpoint jset (s : jstate) (a : Z) (v : acct) : jstate :=
  match s with
  | [] => [(a, v)]
  | (k, w) :: t => if k =? a then (k, v) :: t else (k, w) :: jset t a v
  end.

(* JournaledState::load_account on a database without errors: an account already in the state is
   returned as is; otherwise the database balance ([db a], 0 for a missing account) is inserted *)
Definition load_account (db : Z -> Z) (s : jstate) (a : Z) : jstate * acct :=
  match jget s a with
  | Some v => (s, v)
  | None => let v := mkAcct (db a) false in (jset s a v, v)
  end.

Record penv := mkPenv {
  p_caller : Z; p_coinbase : Z;
  p_egp : Z;                 (* env.effective_gas_price() *)
  p_basefee : Z;
  p_london : bool;           (* SPEC::enabled(LONDON) *)
  p_deposit : bool;          (* Optimism: tx.optimism.source_hash.is_some() *)
  p_l1_cost : Z;             (* Optimism: l1_block_info.calculate_tx_l1_cost(enveloped_tx)  (C33's subject) *)
  p_operator_fee : Z;        (* Optimism: l1_block_info.operator_fee_charge(gas used)        (C33's subject) *)
  p_reward_disabled : bool   (* env.cfg.is_beneficiary_reward_disabled(): CfgEnv::disable_beneficiary_reward when the
                                feature optional_beneficiary_reward is compiled in, else false *)
}.

Definition L1_FEE_RECIPIENT : Z := 0x420000000000000000000000000000000000001A.
Definition BASE_FEE_RECIPIENT : Z := 0x4200000000000000000000000000000000000019.
Definition OPERATOR_FEE_RECIPIENT : Z := 0x420000000000000000000000000000000000001B.

(* gas.spent() - gas.refunded() as u64 (u64 subtraction; in range after set_final_refund) *)
Definition gas_used (g : gas) : Z := spent g - i64_as_u64 (refunded g).

(* mainnet::refund, then the EIP-7623 floor of transact_preverified_inner *)
Definition refund_and_floor (g : gas) (eip7702_refund floor : Z) (london : bool) : gas :=
  let g1 := set_final_refund (record_refund_wrap g eip7702_refund) london in
  if spent_sub_refunded g1 <? floor then set_refund (set_spent g1 floor) 0 else g1.

(* mainnet::reimburse_caller: balance.saturating_add(egp * (remaining + refunded)) *)
Definition reimburse_caller (db : Z -> Z) (e : penv) (g : gas) (s : jstate) : jstate :=
  let '(s1, c) := load_account db s (p_caller e) in
  jset s1 (p_caller e)
       (mkAcct (sat256 (a_bal c + wrap256 (p_egp e * wrap64 (remaining g + i64_as_u64 (refunded g)))))
               (a_touched c)).

(* mainnet::reward_beneficiary: mark_touch; balance.saturating_add(coinbase_gas_price * used) *)
Definition credit_touch_sat (db : Z -> Z) (s : jstate) (a amount : Z) : jstate :=
  let '(s1, c) := load_account db s a in
  jset s1 a (mkAcct (sat256 (a_bal c + amount)) true).
(* Optimism vault credits use `+=` on U256 (wraps in release builds, panics in debug builds) *)
Definition credit_touch_wrap (db : Z -> Z) (s : jstate) (a amount : Z) : jstate :=
  let '(s1, c) := load_account db s a in
  jset s1 a (mkAcct (wrap256 (a_bal c + amount)) true).

Definition coinbase_gas_price (e : penv) : Z :=
  if p_london e then sat256 (p_egp e - p_basefee e) else p_egp e.

Definition mainnet_reward (db : Z -> Z) (e : penv) (used : Z) (s : jstate) : jstate :=
  credit_touch_sat db s (p_coinbase e) (wrap256 (coinbase_gas_price e * used)).

Definition optimism_reward (db : Z -> Z) (e : penv) (used : Z) (s : jstate) : jstate :=
  if p_deposit e then s
  else
    let s1 := mainnet_reward db e used s in
    let s2 := credit_touch_wrap db s1 L1_FEE_RECIPIENT (p_l1_cost e) in
    let s3 := credit_touch_wrap db s2 BASE_FEE_RECIPIENT (wrap256 (p_basefee e * used)) in
    credit_touch_wrap db s3 OPERATOR_FEE_RECIPIENT (p_operator_fee e).

(* PostExecutionHandler::reward_beneficiary:
     `if cfg.is_beneficiary_reward_disabled() { return Ok(()) }
      if let Some(f) = &self.reward_beneficiary { f(..) } else { Ok(()) }`.
   A custom handle is whatever the user supplied: [custom]. *)
Definition reward_step (custom : Z -> jstate -> jstate) (db : Z -> Z) (e : penv) (used : Z)
           (r : option reward_fn) (s : jstate) : jstate :=
  if p_reward_disabled e then s else
  match r with
  | None => s
  | Some MainnetReward => mainnet_reward db e used s
  | Some OptimismReward => optimism_reward db e used s
  | Some (CustomReward id) => custom id s
  end.

(* tail of transact_preverified_inner after last_frame_return: refund, floor, reimburse, reward,
   output (= (gas used, gas refunded, finalize())) *)
Definition post_execution (custom : Z -> jstate -> jstate) (db : Z -> Z) (e : penv)
           (r : option reward_fn) (g : gas) (eip7702_refund floor : Z) (s : jstate)
  : Z * Z * jstate :=
  let g1 := refund_and_floor g eip7702_refund floor (p_london e) in
  let s1 := reimburse_caller db e g1 s in
  let s2 := reward_step custom db e (gas_used g1) r s1 in
  (gas_used g1, i64_as_u64 (refunded g1), s2).

(* the addresses a reward function may write *)
Definition beneficiaries (e : penv) (r : option reward_fn) : list Z :=
  match r with
  | Some OptimismReward => [p_coinbase e; L1_FEE_RECIPIENT; BASE_FEE_RECIPIENT; OPERATOR_FEE_RECIPIENT]
  | _ => [p_coinbase e]
  end.
