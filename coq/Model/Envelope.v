(* Model of transaction validation:
     crates/primitives/src/env.rs        Env::{effective_gas_price, calc_max_data_fee, calc_data_fee,
                                          validate_block_env, validate_tx, validate_tx_against_state},
                                         CfgEnv::blob_max_count, TxEnv::get_total_blob_gas
     crates/interpreter/src/gas/calc.rs  calculate_initial_tx_gas, get_tokens_in_calldata,
                                         calc_tx_floor_cost, initcode_cost
     crates/revm/src/handler/mainnet/validation.rs   validate_env, validate_initial_tx_gas,
                                         validate_tx_against_state
     crates/revm/src/evm.rs              preverify_transaction_inner, transact (rejection path), clear
   One Gallina function per Rust function, checks in the order of the code, every
   wrapping / saturating / checked U256 or u64 operation explicit.

   Data abstraction (only what the rules look at is kept):
     tx.data            list of bytes                       (zero / non-zero count, length)
     tx.access_list     list of the numbers of storage keys, one entry per address item
     tx.blob_hashes     list of the first bytes (version byte) of the versioned hashes
     tx.authorization_list   Some n = list with n tuples, None = field absent
     tx.transact_to     is_create : bool
     sender account     nonce, balance, code kind (empty / EIP-7702 designator / other)  *)
From RevmV Require Import Base.Word.
Local Open Scope Z_scope.

(* ---------------------------------------------------------------- SpecId (discriminants) *)
Definition FRONTIER : Z := 0.
Definition FRONTIER_THAWING : Z := 1.
Definition HOMESTEAD : Z := 2.
Definition DAO_FORK : Z := 3.
Definition TANGERINE : Z := 4.
Definition SPURIOUS_DRAGON : Z := 5.
Definition BYZANTIUM : Z := 6.
Definition CONSTANTINOPLE : Z := 7.
Definition PETERSBURG : Z := 8.
Definition ISTANBUL : Z := 9.
Definition MUIR_GLACIER : Z := 10.
Definition BERLIN : Z := 11.
Definition LONDON : Z := 12.
Definition ARROW_GLACIER : Z := 13.
Definition GRAY_GLACIER : Z := 14.
Definition MERGE : Z := 15.
Definition SHANGHAI : Z := 16.
Definition CANCUN : Z := 17.
Definition PRAGUE : Z := 18.
Definition OSAKA : Z := 19.
Definition mainnet_specs : list Z := [0;1;2;3;4;5;6;7;8;9;10;11;12;13;14;15;16;17;18].
(* SpecId::enabled(our, other) = our as u8 >= other as u8 *)
Definition enabled (our other : Z) : bool := other <=? our.

(* ---------------------------------------------------------------- constants *)
Definition STANDARD_TOKEN_COST : Z := 4.
Definition NON_ZERO_BYTE_MULTIPLIER : Z := 17.          (* 68 / 4 *)
Definition NON_ZERO_BYTE_MULTIPLIER_ISTANBUL : Z := 4.  (* 16 / 4 *)
Definition TOTAL_COST_FLOOR_PER_TOKEN : Z := 10.
Definition ACCESS_LIST_ADDRESS : Z := 2400.
Definition ACCESS_LIST_STORAGE_KEY : Z := 1900.
Definition INITCODE_WORD_COST : Z := 2.
Definition PER_EMPTY_ACCOUNT_COST : Z := 25000.
Definition PER_AUTH_BASE_COST : Z := 12500.
Definition MAX_CODE_SIZE : Z := 24576.
Definition MAX_INITCODE_SIZE : Z := 2 * MAX_CODE_SIZE.
Definition GAS_PER_BLOB : Z := 131072.
Definition VERSIONED_HASH_VERSION_KZG : Z := 1.

(* ---------------------------------------------------------------- environment records *)
Record tx_env := mkTx {
  tx_gas_limit : Z;                       (* u64 *)
  tx_gas_price : Z;                       (* U256; max_fee_per_gas for EIP-1559 style txs *)
  tx_is_create : bool;                    (* transact_to.is_create() *)
  tx_value : Z;                           (* U256 *)
  tx_data : list Z;                       (* bytes *)
  tx_nonce : option Z;                    (* Option<u64> *)
  tx_chain_id : option Z;                 (* Option<u64> *)
  tx_access_list : list Z;                (* storage-key count per item *)
  tx_gas_priority_fee : option Z;         (* Option<U256> *)
  tx_blob_hashes : list Z;                (* version bytes *)
  tx_max_fee_per_blob_gas : option Z;     (* Option<U256> *)
  tx_authorization_list : option Z        (* Option<len> *)
}.
Record block_env := mkBlock {
  b_gas_limit : Z;                        (* U256 *)
  b_basefee : Z;                          (* U256 *)
  b_prevrandao_set : bool;                (* prevrandao.is_some() *)
  b_blob_gasprice : option Z              (* blob_excess_gas_and_price.map(.blob_gasprice), u128 *)
}.
Record cfg_env := mkCfg {
  c_chain_id : Z;                         (* u64 *)
  c_limit_contract_code_size : option Z;  (* Option<usize> *)
  c_blob_table : list (Z * Z * Z);        (* blob_target_and_max_count: (spec, target, max) *)
  (* the optional_* cargo features; all [false] in the harness build (features off) *)
  c_disable_balance_check : bool;
  c_disable_block_gas_limit : bool;
  c_disable_eip3607 : bool;
  c_disable_base_fee : bool
}.
Record env := mkEnv { e_cfg : cfg_env; e_block : block_env; e_tx : tx_env }.

Definition default_blob_table : list (Z * Z * Z) := [(CANCUN, 3, 6); (PRAGUE, 6, 9)].
Definition mainnet_cfg (chain : Z) : cfg_env :=
  mkCfg chain None default_blob_table false false false false.

(* sender account as seen by validate_tx_against_state *)
Inductive code_kind := CodeEmpty | CodeEip7702 | CodeOther.
Record sender := mkSender { s_nonce : Z; s_balance : Z; s_code : code_kind }.

(* run-length encoded byte strings: how the harness writes large calldata / initcode in case files *)
Definition rle (l : list (Z * Z)) : list Z :=
  flat_map (fun p => Z.iter (snd p) (cons (fst p)) []) l.

(* ---------------------------------------------------------------- errors *)
Inductive invalid_header := PrevrandaoNotSet | ExcessBlobGasNotSet.
Inductive invalid_tx :=
| PriorityFeeGreaterThanMaxFee | GasPriceLessThanBasefee | CallerGasLimitMoreThanBlock
| CallGasCostMoreThanGasLimit | GasFloorMoreThanGasLimit | RejectCallerWithCode
| LackOfFundForMaxFee (fee balance : Z) | OverflowPaymentInTransaction | NonceOverflowInTransaction
| NonceTooHigh (tx state : Z) | NonceTooLow (tx state : Z) | CreateInitCodeSizeLimit
| InvalidChainId | AccessListNotSupported | MaxFeePerBlobGasNotSupported
| BlobVersionedHashesNotSupported | BlobGasPriceGreaterThanMax | EmptyBlobs | BlobCreateTransaction
| TooManyBlobs (have : Z) | BlobVersionNotSupported | EofCrateShouldHaveToAddress
| AuthorizationListNotSupported | AuthorizationListInvalidFields | EmptyAuthorizationList.

(* outcome of the validation pipeline. [VPanic] = an `expect`/`unwrap` of the code would fire
   (shown unreachable through validate_env in Proofs/EnvelopeProofs.v) *)
Inductive outcome := VOk | VHeader (h : invalid_header) | VTx (e : invalid_tx) | VPanic.

(* ---------------------------------------------------------------- env.rs helpers *)
(* min(gas_price, basefee + priority_fee): ruint's `+` wraps *)
Definition effective_gas_price (e : env) : Z :=
  match tx_gas_priority_fee (e_tx e) with
  | Some p => Z.min (tx_gas_price (e_tx e)) (wrap256 (b_basefee (e_block e) + p))
  | None => tx_gas_price (e_tx e)
  end.

Definition zlen {A} (l : list A) : Z := Z.of_nat (length l).

(* GAS_PER_BLOB * blob_hashes.len() as u64 *)
Definition get_total_blob_gas (t : tx_env) : Z := GAS_PER_BLOB * zlen (tx_blob_hashes t).

(* max_fee_per_blob_gas.saturating_mul(total_blob_gas) *)
Definition calc_max_data_fee (e : env) : option Z :=
  match tx_max_fee_per_blob_gas (e_tx e) with
  | Some m => Some (sat256 (m * get_total_blob_gas (e_tx e)))
  | None => None
  end.
(* blob_gasprice.saturating_mul(total_blob_gas) *)
Definition calc_data_fee (e : env) : option Z :=
  match b_blob_gasprice (e_block e) with
  | Some p => Some (sat256 (p * get_total_blob_gas (e_tx e)))
  | None => None
  end.

(* CfgEnv::blob_max_count: last entry (in list order) whose spec is <= spec_id, default 6 *)
Fixpoint find_blob_max (spec : Z) (l : list (Z * Z * Z)) : option Z :=
  match l with
  | [] => None
  | (id, _, mx) :: r => if id <=? spec then Some mx else find_blob_max spec r
  end.
Definition blob_max_count (c : cfg_env) (spec : Z) : Z :=
  match find_blob_max spec (rev (c_blob_table c)) with Some m => m | None => 6 end.

(* ---------------------------------------------------------------- validate_block_env *)
Definition validate_block_env (spec : Z) (e : env) : option invalid_header :=
  if enabled spec MERGE && negb (b_prevrandao_set (e_block e)) then Some PrevrandaoNotSet
  else if enabled spec CANCUN && (match b_blob_gasprice (e_block e) with None => true | _ => false end)
  then Some ExcessBlobGasNotSet
  else None.

(* ---------------------------------------------------------------- validate_tx *)
Definition is_some {A} (o : option A) : bool := match o with Some _ => true | None => false end.
Definition is_nil {A} (l : list A) : bool := match l with [] => true | _ => false end.

(* the `for blob in blob_hashes` loop *)
Definition all_version_kzg (l : list Z) : bool := forallb (fun b => b =? VERSIONED_HASH_VERSION_KZG) l.

Definition validate_tx (spec : Z) (e : env) : outcome :=
  let t := e_tx e in let c := e_cfg e in let b := e_block e in
  (* chain id *)
  if (match tx_chain_id t with Some id => negb (id =? c_chain_id c) | None => false end)
  then VTx InvalidChainId else
  (* block gas limit *)
  if negb (c_disable_block_gas_limit c) && (b_gas_limit b <? tx_gas_limit t)
  then VTx CallerGasLimitMoreThanBlock else
  (* access list before BERLIN *)
  if negb (enabled spec BERLIN) && negb (is_nil (tx_access_list t))
  then VTx AccessListNotSupported else
  (* LONDON base fee checks *)
  let london :=
    if enabled spec LONDON then
      if (match tx_gas_priority_fee t with Some p => tx_gas_price t <? p | None => false end)
      then Some PriorityFeeGreaterThanMaxFee
      else if negb (c_disable_base_fee c) && (effective_gas_price e <? b_basefee b)
      then Some GasPriceLessThanBasefee else None
    else None in
  match london with Some er => VTx er | None =>
  (* EIP-3860 *)
  if enabled spec SHANGHAI && tx_is_create t &&
     ((match c_limit_contract_code_size c with Some l => sat64 (l * 2) | None => MAX_INITCODE_SIZE end)
        <? zlen (tx_data t))
  then VTx CreateInitCodeSizeLimit else
  (* blob fields before CANCUN *)
  if negb (enabled spec CANCUN) &&
     (is_some (tx_max_fee_per_blob_gas t) || negb (is_nil (tx_blob_hashes t)))
  then VTx BlobVersionedHashesNotSupported else
  let blob :=
    match tx_max_fee_per_blob_gas t with
    | Some mx =>
      match b_blob_gasprice b with
      | None => Some VPanic                                   (* .expect("already checked") *)
      | Some price =>
        if mx <? price then Some (VTx BlobGasPriceGreaterThanMax)
        else if is_nil (tx_blob_hashes t) then Some (VTx EmptyBlobs)
        else if tx_is_create t then Some (VTx BlobCreateTransaction)
        else if negb (all_version_kzg (tx_blob_hashes t)) then Some (VTx BlobVersionNotSupported)
        else if enabled spec CANCUN && (blob_max_count c spec <? zlen (tx_blob_hashes t))
        then Some (VTx (TooManyBlobs (zlen (tx_blob_hashes t))))
        else None
      end
    | None =>
      if negb (is_nil (tx_blob_hashes t)) then Some (VTx BlobVersionedHashesNotSupported) else None
    end in
  match blob with Some o => o | None =>
  (* EIP-7702 *)
  if negb (enabled spec PRAGUE) && is_some (tx_authorization_list t)
  then VTx AuthorizationListNotSupported else
  match tx_authorization_list t with
  | Some n =>
    if n =? 0 then VTx EmptyAuthorizationList
    else if is_some (tx_max_fee_per_blob_gas t) || negb (is_nil (tx_blob_hashes t))
    then VTx AuthorizationListInvalidFields
    (* EIP-7702: the destination of a set-code transaction must not be null (fix 32f9c32f) *)
    else if tx_is_create t then VTx AuthorizationListInvalidFields else VOk
  | None => VOk
  end end end.

(* validation.rs: validate_env — block first, then tx *)
Definition validate_env (spec : Z) (e : env) : outcome :=
  match validate_block_env spec e with
  | Some h => VHeader h
  | None => validate_tx spec e
  end.

(* ---------------------------------------------------------------- intrinsic / floor gas *)
Definition count_zero (d : list Z) : Z := zlen (filter (fun b => b =? 0) d).
Definition get_tokens_in_calldata (d : list Z) (is_istanbul : bool) : Z :=
  let z := count_zero d in
  let nz := zlen d - z in
  z + nz * (if is_istanbul then NON_ZERO_BYTE_MULTIPLIER_ISTANBUL else NON_ZERO_BYTE_MULTIPLIER).
Definition calc_tx_floor_cost (tokens : Z) : Z := tokens * TOTAL_COST_FLOOR_PER_TOKEN + 21000.
(* num_words(len) = len.saturating_add(31) / 32 ; initcode_cost = 2 * num_words *)
Definition num_words (len : Z) : Z := sat64 (len + 31) / 32.
Definition initcode_cost (len : Z) : Z := INITCODE_WORD_COST * num_words len.
Definition zsum (l : list Z) : Z := fold_right Z.add 0 l.

(* calculate_initial_tx_gas; the u64 additions are written in Z: they cannot overflow for any
   calldata / list that fits in memory (each term < 2^64 / 8 as long as lengths < 2^54) *)
Definition calculate_initial_tx_gas (spec : Z) (d : list Z) (is_create : bool) (al : list Z)
           (auth_num : Z) : Z * Z :=
  let tokens := get_tokens_in_calldata d (enabled spec ISTANBUL) in
  let g0 := tokens * STANDARD_TOKEN_COST in
  let g1 := if enabled spec BERLIN
            then g0 + zlen al * ACCESS_LIST_ADDRESS + zsum al * ACCESS_LIST_STORAGE_KEY else g0 in
  let g2 := g1 + (if is_create then (if enabled spec HOMESTEAD then 53000 else 21000) else 21000) in
  let g3 := if enabled spec SHANGHAI && is_create then g2 + initcode_cost (zlen d) else g2 in
  if enabled spec PRAGUE
  then (g3 + auth_num * PER_EMPTY_ACCOUNT_COST, calc_tx_floor_cost tokens)
  else (g3, 0).

Definition initial_and_floor (spec : Z) (e : env) : Z * Z :=
  let t := e_tx e in
  calculate_initial_tx_gas spec (tx_data t) (tx_is_create t) (tx_access_list t)
    (match tx_authorization_list t with Some n => n | None => 0 end).

(* validation.rs: validate_initial_tx_gas *)
Definition validate_initial_tx_gas (spec : Z) (e : env) : option invalid_tx :=
  let '(initial, floor) := initial_and_floor spec e in
  if tx_gas_limit (e_tx e) <? initial then Some CallGasCostMoreThanGasLimit
  else if enabled spec PRAGUE && (tx_gas_limit (e_tx e) <? floor) then Some GasFloorMoreThanGasLimit
  else None.

(* ---------------------------------------------------------------- validate_tx_against_state *)
(* checked_mul / checked_add on U256 *)
Definition checked256 (x : Z) : option Z := if is_u256 x then Some x else None.

(* returns the error, or the (possibly raised, disable_balance_check) sender balance *)
Definition validate_tx_against_state (spec : Z) (e : env) (a : sender) : invalid_tx + Z :=
  let t := e_tx e in let c := e_cfg e in
  (* !bytecode.is_empty() && !(SPEC::enabled(PRAGUE) && bytecode.is_eip7702())  (fix 6f6e4336) *)
  if negb (c_disable_eip3607 c) &&
     (match s_code a with
      | CodeEmpty => false
      | CodeEip7702 => negb (enabled spec PRAGUE)
      | CodeOther => true end)
  then inl RejectCallerWithCode else
  match (match tx_nonce t with
         | Some n => if s_nonce a <? n then Some (NonceTooHigh n (s_nonce a))
                     else if n <? s_nonce a then Some (NonceTooLow n (s_nonce a)) else None
         | None => None end) with
  | Some er => inl er
  | None =>
  if s_nonce a =? pow64 - 1 then inl NonceOverflowInTransaction else
  match (match checked256 (tx_gas_limit t * tx_gas_price t) with
         | Some gc => checked256 (gc + tx_value t) | None => None end) with
  | None => inl OverflowPaymentInTransaction
  | Some bc0 =>
    (* max_fee_per_blob_gas.checked_mul(total_blob_gas) (fix 8fca020b), then checked_add *)
    match (if enabled spec CANCUN
           then match (match tx_max_fee_per_blob_gas t with
                       | Some m => checked256 (m * get_total_blob_gas t)
                       | None => Some 0 end) with
                | Some fee => checked256 (bc0 + fee)
                | None => None
                end
           else Some bc0) with
    | None => inl OverflowPaymentInTransaction
    | Some bc =>
      if s_balance a <? bc then
        if c_disable_balance_check c then inr bc
        else inl (LackOfFundForMaxFee bc (s_balance a))
      else inr (s_balance a)
    end
  end end.

(* ---------------------------------------------------------------- preverify_transaction_inner *)
(* evm.rs: validation().env ; validation().initial_tx_gas ; validation().tx_against_state *)
Definition preverify (spec : Z) (e : env) (a : sender) : outcome :=
  match validate_env spec e with
  | VOk =>
    match validate_initial_tx_gas spec e with
    | Some er => VTx er
    | None => match validate_tx_against_state spec e a with inl er => VTx er | inr _ => VOk end
    end
  | o => o
  end.

(* ---------------------------------------------------------------- the rejection path of transact *)
(* A small model of the Evm instance: the journaled state (loaded accounts, journal, logs,
   transient storage, depth, spec, warm set), the error slot and the database. The database is
   an opaque value [D] reached only through the calls the code makes ([basic], [code_by_hash]
   take `&mut self`, so they return a new database value: caches may fill). *)
Inductive jentry := AccountWarmed (addr : Z).
Record jstate := mkJs {
  js_state : list (Z * sender);      (* EvmState: loaded accounts *)
  js_journal : list (list jentry);
  js_logs : Z; js_transient : Z;     (* number of logs / transient entries *)
  js_depth : Z;
  js_spec : Z;
  js_warm : list Z                   (* warm_preloaded_addresses *)
}.
(* JournaledState::new(spec, HashSet::default()) *)
Definition js_new (spec : Z) : jstate := mkJs [] [[]] 0 0 0 spec [].
(* JournaledState::clear: keeps only the spec *)
Definition js_clear (j : jstate) : jstate := js_new (js_spec j).

Inductive db_call := DbBasic (addr : Z) | DbCodeByHash (addr : Z) | DbCommit.

Section Instance.
  Variable D : Type.
  (* db.basic(addr): new database value, account (None = not existing -> Account::new_not_existing) *)
  Variable db_basic : D -> Z -> D * option sender.
  (* db.code_by_hash for the account's code hash (called when info.code is None and the hash is
     not KECCAK_EMPTY); only the database value matters here, the code kind is in [sender] *)
  Variable db_code_by_hash : D -> Z -> D.

  Record inst := mkInst {
    i_js : jstate;
    i_error : bool;                  (* context.evm.error.is_err() *)
    i_db : D;
    i_calls : list db_call           (* calls made on the database so far, newest first *)
  }.

  (* post_execution::clear: take_error ; journaled_state.clear() *)
  Definition clear (i : inst) : inst := mkInst (js_clear (i_js i)) false (i_db i) (i_calls i).

  Fixpoint lookup (a : Z) (l : list (Z * sender)) : option sender :=
    match l with [] => None | (k, v) :: r => if k =? a then Some v else lookup a r end.
  Definition not_existing : sender := mkSender 0 0 CodeEmpty.
  Definition push_journal (en : jentry) (j : list (list jentry)) : list (list jentry) :=
    match rev j with
    | [] => j                                  (* `.last_mut().unwrap()`: journal is never empty *)
    | lst :: before => rev before ++ [lst ++ [en]]
    end.

  (* journaled_state.load_code(caller, db) on the validation path *)
  Definition load_code (i : inst) (caller : Z) : inst * sender :=
    let j := i_js i in
    match lookup caller (js_state j) with
    | Some a => (i, a)   (* already loaded and warm: nothing changes (is_cold = false on this path
                            because validation runs on a cleared journaled state; see idle) *)
    | None =>
      let '(d1, oa) := db_basic (i_db i) caller in
      let a := match oa with Some a => a | None => not_existing end in
      let is_cold := negb (existsb (Z.eqb caller) (js_warm j)) in
      let jr := if is_cold then push_journal (AccountWarmed caller) (js_journal j) else js_journal j in
      let calls1 := DbBasic caller :: i_calls i in
      (* code is loaded when the account has a non-empty code hash *)
      let '(d2, calls2) := match s_code a with
                           | CodeEmpty => (d1, calls1)
                           | _ => (db_code_by_hash d1 caller, DbCodeByHash caller :: calls1) end in
      (mkInst (mkJs ((caller, a) :: js_state j) jr (js_logs j) (js_transient j) (js_depth j)
                    (js_spec j) (js_warm j)) (i_error i) d2 calls2, a)
    end.

  (* Evm::transact up to the decision: [inl] = rejected (after inspect_err(clear)),
     [inr] = the instance as handed to transact_preverified_inner *)
  Definition transact_validate (spec : Z) (e : env) (caller : Z) (i : inst) : (inst * outcome) + inst :=
    match validate_env spec e with
    | VOk =>
      match validate_initial_tx_gas spec e with
      | Some er => inl (clear i, VTx er)
      | None =>
        let '(i1, a) := load_code i caller in
        match validate_tx_against_state spec e a with
        | inl er => inl (clear i1, VTx er)
        | inr _ => inr i1
        end
      end
    | o => inl (clear i, o)
    end.

  (* an instance between transactions: what Evm::builder()...build() creates and what every
     transact leaves behind (clear at the end of transact) *)
  Definition idle (i : inst) : Prop := i_js i = js_new (js_spec (i_js i)) /\ i_error i = false.
  Definition only_reads (l : list db_call) : Prop := Forall (fun c => c <> DbCommit) l.
End Instance.
