(* Opcode layer over Model/Memory.v: the instructions that touch memory, written by mirroring
   crates/interpreter/src/instructions/memory.rs (MLOAD MSTORE MSTORE8 MSIZE MCOPY),
   system.rs (KECCAK256 CALLDATACOPY CODECOPY RETURNDATACOPY), host.rs (LOGn), control.rs
   (RETURN REVERT STOP), contract.rs::call + contract/call_helpers.rs (CALL: the in/out ranges
   are resized before the child runs), the macros gas! / gas_or_fail! / as_usize_or_fail! /
   as_usize_saturated! / resize_memory! (instructions/macros.rs), and what
   Interpreter::insert_call_outcome does with the child's result.

   Same order of checks as the code: every function threads (memory, gas remaining) and stops at
   the first failing check with the InstructionResult the code sets; gas charged before the
   failing check stays charged (Gas::record_cost does not change the meter when it fails).
   Stack operands are 256-bit words (0 <= v < 2^256); usize = u64. *)
From RevmV Require Import Base.Word Model.Memory.
Local Open Scope Z_scope.

(* InstructionResult discriminants (instruction_result.rs, repr(u8)) *)
Definition R_Continue : Z := 0.
Definition R_Stop : Z := 1.
Definition R_Return : Z := 2.
Definition R_Revert : Z := 16.
Definition R_CallOrCreate : Z := 32.
Definition R_OutOfGas : Z := 80.
Definition R_InvalidOperandOOG : Z := 84.
Definition R_OutOfOffset : Z := 93.
(* not an InstructionResult: the code would hit debug_unreachable! / a slice-index or
   arithmetic-overflow panic *)
Definition R_Panic : Z := 255.

(* what a frame's instructions read besides memory: contract.input, the bytecode's
   original_byte_slice(), return_data_buffer *)
Record fenv := mkEnv { e_input : list Z; e_code : list Z; e_retbuf : list Z }.

Inductive pop :=
| PMload (off : Z) | PMstore (off v : Z) | PMstore8 (off v : Z) | PMsize
| PMcopy (dst src len : Z)
| PCalldatacopy (moff doff len : Z) | PCodecopy (moff doff len : Z) | PReturndatacopy (moff doff len : Z)
| PKeccak (off len : Z) | PLog (n off len : Z)
| PReturn (off len : Z) | PRevert (off len : Z) | PStop
(* CALL with value 0 to a warm, non-delegated target in a non-static frame, BERLIN or later *)
| PCall (gas_arg in_off in_len out_off out_len : Z).

(* memory, gas remaining, instruction_result, value left on the stack (MLOAD, MSIZE), bytes
   produced (LOG data, RETURN/REVERT output, CALL input), gas limit handed to the child *)
Record ores := mkO { o_mem : smem; o_gas : Z; o_res : Z; o_val : Z; o_data : list Z; o_fwd : Z }.

Definition fail (m : smem) (g r : Z) : ores := mkO m g r 0 [] 0.
Definition done (m : smem) (g : Z) : ores := mkO m g R_Continue 0 [] 0.

(* gas!: Gas::record_cost *)
Definition charge (m : smem) (g c : Z) (k : Z -> ores) : ores :=
  if c <=? g then k (g - c) else fail m g R_OutOfGas.
(* gas_or_fail! *)
Definition charge_opt (m : smem) (g : Z) (c : option Z) (k : Z -> ores) : ores :=
  match c with Some c => charge m g c k | None => fail m g R_OutOfGas end.
(* as_usize_or_fail! *)
Definition usize_or_fail (m : smem) (g v : Z) (k : Z -> ores) : ores :=
  if v <? pow64 then k v else fail m g R_InvalidOperandOOG.
(* as_usize_saturated! *)
Definition usize_sat (v : Z) : Z := if v <? pow64 then v else pow64 - 1.
(* resize_memory!(interp, off, len) then continue *)
Definition with_mem (m : smem) (g off len : Z) (k : smem -> Z -> ores) : ores :=
  match resize_macro m g off len with
  | None => fail m g R_Panic
  | Some (m', g', r) => if r =? 0 then k m' g' else fail m' g' r
  end.
Definition after_write (w : mres) (g : Z) : ores :=
  let '(m, p) := w in if p then fail m g R_Panic else done m g.

(* gas/calc.rs *)
Definition cost_per_word (len mult : Z) : option Z := checked64 (mult * num_words len).
Definition verylowcopy_cost (len : Z) : option Z :=
  match cost_per_word len 3 with Some c => checked64 (3 + c) | None => None end.
Definition keccak256_cost (len : Z) : option Z :=
  match cost_per_word len 6 with Some c => checked64 (30 + c) | None => None end.
Definition log_cost (n len : Z) : option Z :=
  match checked64 (8 * len) with
  | Some a => match checked64 (375 + a) with Some b => checked64 (b + 375 * n) | None => None end
  | None => None
  end.
Definition WARM_STORAGE_READ_COST : Z := 100.

(* the three *COPY instructions that go through SharedMemory::set_data *)
Definition data_copy (m : smem) (g moff doff len : Z) (data : list Z) : ores :=
  usize_or_fail m g len (fun len =>
  charge_opt m g (verylowcopy_cost len) (fun g =>
  if len =? 0 then done m g else
  usize_or_fail m g moff (fun moff =>
  let doff := usize_sat doff in
  with_mem m g moff len (fun m g => after_write (set_data m moff doff len data) g)))).

(* call_helpers.rs::resize_memory (one of the two ranges of a CALL) *)
Definition call_range (m : smem) (g off len : Z) (k : smem -> Z -> ores) : ores :=
  usize_or_fail m g len (fun len =>
  if len =? 0 then k m g else
  usize_or_fail m g off (fun off => with_mem m g off len k)).

(* control.rs::return_inner *)
Definition return_inner (m : smem) (g off len r : Z) : ores :=
  usize_or_fail m g len (fun len =>
  if len =? 0 then mkO m g r 0 [] 0 else
  usize_or_fail m g off (fun off =>
  with_mem m g off len (fun m g =>
    match slice m off len with Some d => mkO m g r 0 d 0 | None => fail m g R_Panic end))).

Definition exec (e : fenv) (m : smem) (g : Z) (o : pop) : ores :=
  match o with
  | PMload off =>
      charge m g 3 (fun g => usize_or_fail m g off (fun off => with_mem m g off 32 (fun m g =>
        match get_u256 m off with Some v => mkO m g R_Continue v [] 0 | None => fail m g R_Panic end)))
  | PMstore off v =>
      charge m g 3 (fun g => usize_or_fail m g off (fun off => with_mem m g off 32 (fun m g =>
        after_write (set_u256 m off v) g)))
  | PMstore8 off v =>
      charge m g 3 (fun g => usize_or_fail m g off (fun off => with_mem m g off 1 (fun m g =>
        after_write (set_byte m off (v mod 256)) g)))
  | PMsize => charge m g 2 (fun g => mkO m g R_Continue (mlen m) [] 0)
  | PMcopy dst src len =>
      usize_or_fail m g len (fun len =>
      charge_opt m g (verylowcopy_cost len) (fun g =>
      if len =? 0 then done m g else
      usize_or_fail m g dst (fun dst => usize_or_fail m g src (fun src =>
      with_mem m g (Z.max dst src) len (fun m g => after_write (copy m dst src len) g)))))
  | PCalldatacopy moff doff len => data_copy m g moff doff len (e_input e)
  | PCodecopy moff doff len => data_copy m g moff doff len (e_code e)
  | PReturndatacopy moff doff len =>
      usize_or_fail m g len (fun len =>
      charge_opt m g (verylowcopy_cost len) (fun g =>
      let doff := usize_sat doff in
      let data_end := sat64 (doff + len) in
      if data_end >? zlen (e_retbuf e) then fail m g R_OutOfOffset else
      if len =? 0 then done m g else
      usize_or_fail m g moff (fun moff =>
      with_mem m g moff len (fun m g => after_write (set_data m moff doff len (e_retbuf e)) g))))
  | PKeccak off len =>
      usize_or_fail m g len (fun len =>
      charge_opt m g (keccak256_cost len) (fun g =>
      if len =? 0 then done m g else
      usize_or_fail m g off (fun off => with_mem m g off len (fun m g =>
        match slice m off len with Some d => mkO m g R_Continue 0 d 0 | None => fail m g R_Panic end))))
  | PLog n off len =>
      usize_or_fail m g len (fun len =>
      charge_opt m g (log_cost n len) (fun g =>
      if len =? 0 then done m g else
      usize_or_fail m g off (fun off => with_mem m g off len (fun m g =>
        match slice m off len with Some d => mkO m g R_Continue 0 d 0 | None => fail m g R_Panic end))))
  | PReturn off len => return_inner m g off len R_Return
  | PRevert off len => return_inner m g off len R_Revert
  | PStop => mkO m g R_Stop 0 [] 0
  | PCall gas_arg in_off in_len out_off out_len =>
      let local := usize_sat gas_arg in   (* u64::try_from(..).unwrap_or(u64::MAX) *)
      call_range m g in_off in_len (fun m g =>
      match (if in_len =? 0 then Some [] else slice m in_off in_len) with
      | None => fail m g R_Panic
      | Some input =>
        call_range m g out_off out_len (fun m g =>
        charge m g WARM_STORAGE_READ_COST (fun g =>
        let limit := Z.min (g - g / 64) local in     (* EIP-150: remaining_63_of_64_parts *)
        charge m g limit (fun g => mkO m g R_CallOrCreate 0 input limit)))
      end)
  end.

(* return_ok! / return_revert! *)
Definition is_ok (r : Z) : bool := (0 <=? r) && (r <=? 4).
Definition is_revert (r : Z) : bool := (16 <=? r) && (r <=? 21).
(* Interpreter::insert_call_outcome, memory part: the window is written for ok and revert
   results only; [out_len = 0] stands for the (usize::MAX, 0) range of an empty window *)
Definition call_outcome_mem (m : smem) (out_off out_len class : Z) (ret : list Z) : mres :=
  if is_ok class || is_revert class then insert_call_outcome_mem m out_off out_len ret else (m, false).
(* evm.rs::run_the_loop around a child interpreter frame: new_context before its first
   instruction; free_context when it returns, then the outcome goes into the parent *)
Definition child_enter (m : smem) : smem := new_context m.
Definition child_exit (m : smem) (out_off out_len class : Z) (ret : list Z) : mres :=
  call_outcome_mem (free_context m) out_off out_len class ret.
