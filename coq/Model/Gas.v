(* Model of crates/interpreter/src/gas.rs (struct Gas). One Gallina function per Rust
   method, same guards. u64/i64 arithmetic that can overflow in Rust ("+" on u64/i64: panic
   in debug builds, wrap in release builds) returns [None] at exactly those points; the
   release behaviour is given separately by the *_wrap variants. *)
From RevmV Require Import Base.Word.
Local Open Scope Z_scope.

Record gas := mkGas { limit : Z; remaining : Z; refunded : Z }.

Definition gas_new (l : Z) : gas := mkGas l l 0.
Definition gas_new_spent (l : Z) : gas := mkGas l 0 0.

(* const fn spent: self.limit - self.remaining  (u64 subtraction) *)
Definition spent (g : gas) : Z := limit g - remaining g.
(* spent().saturating_sub(self.refunded as u64) *)
Definition spent_sub_refunded (g : gas) : Z :=
  sat64 (spent g - i64_as_u64 (refunded g)).
Definition remaining_63_of_64_parts (g : gas) : Z := remaining g - remaining g / 64.

(* record_cost: overflowing_sub; on overflow nothing is written *)
Definition record_cost (g : gas) (cost : Z) : gas * bool :=
  if cost <=? remaining g
  then (mkGas (limit g) (remaining g - cost) (refunded g), true)
  else (g, false).

(* erase_cost: self.remaining += returned *)
Definition erase_cost (g : gas) (returned : Z) : option gas :=
  match checked64 (remaining g + returned) with
  | Some r => Some (mkGas (limit g) r (refunded g))
  | None => None
  end.
Definition erase_cost_wrap (g : gas) (returned : Z) : gas :=
  mkGas (limit g) (wrap64 (remaining g + returned)) (refunded g).

Definition spend_all (g : gas) : gas := mkGas (limit g) 0 (refunded g).

(* record_refund: self.refunded += refund  (i64) *)
Definition record_refund (g : gas) (refund : Z) : option gas :=
  let r := refunded g + refund in
  if is_i64 r then Some (mkGas (limit g) (remaining g) r) else None.
Definition record_refund_wrap (g : gas) (refund : Z) : gas :=
  mkGas (limit g) (remaining g) (to_i64 (refunded g + refund)).

(* set_final_refund: (refunded as u64).min(spent / q) as i64 *)
Definition set_final_refund (g : gas) (is_london : bool) : gas :=
  let q := if is_london then 5 else 2 in
  mkGas (limit g) (remaining g) (to_i64 (Z.min (i64_as_u64 (refunded g)) (spent g / q))).

(* spent() inside set_final_refund is a u64 subtraction: it overflows when remaining > limit
   (only possible outside the contract) *)
Definition set_final_refund_chk (g : gas) (is_london : bool) : option gas :=
  if remaining g <=? limit g then Some (set_final_refund g is_london) else None.
Definition set_final_refund_wrap (g : gas) (is_london : bool) : gas :=
  let q := if is_london then 5 else 2 in
  mkGas (limit g) (remaining g)
        (to_i64 (Z.min (i64_as_u64 (refunded g)) (wrap64 (spent g) / q))).

Definition set_refund (g : gas) (refund : Z) : gas := mkGas (limit g) (remaining g) refund.
(* set_spent: remaining = limit.saturating_sub(spent) *)
Definition set_spent (g : gas) (s : Z) : gas := mkGas (limit g) (sat64 (limit g - s)) (refunded g).

(* Operation histories *)
Inductive gas_op :=
| RecordCost (c : Z) | EraseCost (r : Z) | RecordRefund (x : Z) | SetFinalRefund (london : bool)
| SpendAll | SetSpent (s : Z) | SetRefund (x : Z).

(* [None] = the Rust code would overflow here (debug: panic, release: wrap) *)
Definition gas_step (g : gas) (o : gas_op) : option gas :=
  match o with
  | RecordCost c => Some (fst (record_cost g c))
  | EraseCost r => erase_cost g r
  | RecordRefund x => record_refund g x
  | SetFinalRefund b => set_final_refund_chk g b
  | SpendAll => Some (spend_all g)
  | SetSpent s => Some (set_spent g s)
  | SetRefund x => Some (set_refund g x)
  end.

Fixpoint gas_run (g : gas) (h : list gas_op) : option gas :=
  match h with
  | [] => Some g
  | o :: h' => match gas_step g o with Some g' => gas_run g' h' | None => None end
  end.

(* Frame-accounting contract: arguments are machine integers, gas handed back never exceeds
   what was taken before (remaining + returned <= limit), recorded refunds keep the i64 sum in
   range. *)
Definition op_ok (g : gas) (o : gas_op) : Prop :=
  match o with
  | RecordCost c => in_u64 c
  | EraseCost r => in_u64 r /\ remaining g + r <= limit g
  | RecordRefund x => in_i64 x /\ in_i64 (refunded g + x)
  | SetFinalRefund _ => True
  | SpendAll => True
  | SetSpent s => in_u64 s
  | SetRefund x => in_i64 x
  end.

Fixpoint contract (g : gas) (h : list gas_op) : Prop :=
  match h with
  | [] => True
  | o :: h' => op_ok g o /\ match gas_step g o with Some g' => contract g' h' | None => False end
  end.

Definition gas_inv (g : gas) : Prop :=
  in_u64 (limit g) /\ 0 <= remaining g <= limit g /\ in_i64 (refunded g).
