(* RIPEMD-160 (Dobbertin, Bosselaers, Preneel 1996) as an executable Gallina function.
   Executable specification: validated on the standard vectors below and by the correspondence
   with the ripemd crate on generated inputs. *)
From RevmV Require Export Base.PBytes Model.Sha256.
Local Open Scope Z_scope.

Definition rmd_f (j : Z) (x y z : Z) : Z :=
  if j <? 16 then Z.lxor (Z.lxor x y) z
  else if j <? 32 then Z.lor (Z.land x y) (Z.land (not32 x) z)
  else if j <? 48 then Z.lxor (Z.lor x (not32 y)) z
  else if j <? 64 then Z.lor (Z.land x z) (Z.land y (not32 z))
  else Z.lxor x (Z.lor y (not32 z)).

Definition rmd_K (j : Z) : Z :=
  if j <? 16 then 0 else if j <? 32 then 0x5A827999 else if j <? 48 then 0x6ED9EBA1
  else if j <? 64 then 0x8F1BBCDC else 0xA953FD4E.
Definition rmd_K' (j : Z) : Z :=
  if j <? 16 then 0x50A28BE6 else if j <? 32 then 0x5C4DD124 else if j <? 48 then 0x6D703EF3
  else if j <? 64 then 0x7A6D76E9 else 0.

Definition rmd_r : list nat :=
 [0;1;2;3;4;5;6;7;8;9;10;11;12;13;14;15;
  7;4;13;1;10;6;15;3;12;0;9;5;2;14;11;8;
  3;10;14;4;9;15;8;1;2;7;0;6;13;11;5;12;
  1;9;11;10;0;8;12;4;13;3;7;15;14;5;6;2;
  4;0;5;9;7;12;2;10;14;1;3;8;11;6;15;13]%nat.
Definition rmd_r' : list nat :=
 [5;14;7;0;9;2;11;4;13;6;15;8;1;10;3;12;
  6;11;3;7;0;13;5;10;14;15;8;12;4;9;1;2;
  15;5;1;3;7;14;6;9;11;8;12;2;10;0;4;13;
  8;6;4;1;3;11;15;0;5;12;2;13;9;7;10;14;
  12;15;10;4;1;5;8;7;6;2;13;14;0;3;9;11]%nat.
Definition rmd_s : list Z :=
 [11;14;15;12;5;8;7;9;11;13;14;15;6;7;9;8;
  7;6;8;13;11;9;7;15;7;12;15;9;11;7;13;12;
  11;13;6;7;14;9;13;15;14;8;13;6;5;12;7;5;
  11;12;14;15;14;15;9;8;9;14;5;6;8;6;5;12;
  9;15;5;11;6;8;13;12;5;12;13;14;11;8;5;6].
Definition rmd_s' : list Z :=
 [8;9;9;11;13;15;15;5;7;7;8;11;14;14;12;6;
  9;13;15;7;12;8;9;11;7;7;12;7;6;15;13;11;
  9;7;15;11;8;6;6;14;12;13;5;14;13;13;7;5;
  15;5;8;11;14;14;6;14;6;9;12;9;12;5;15;8;
  8;5;12;9;12;5;14;6;8;13;6;5;15;13;11;11].

(* one step of a line; [fj] is the index used for the boolean function *)
Definition rmd_step (st : list Z) (x : list Z) (fj k s : Z) (r : nat) : list Z :=
  match st with
  | [a; b; c; d; e] =>
    let t := add32 (rotl32 (add32 (add32 (add32 a (rmd_f fj b c d)) (nth r x 0)) k) s) e in
    [e; t; b; rotl32 c 10; d]
  | _ => st
  end.

Fixpoint rmd_line (left : bool) (j : Z) (rs : list nat) (ss : list Z) (st x : list Z) : list Z :=
  match rs, ss with
  | r :: rs', s :: ss' =>
    let st' := if left then rmd_step st x j (rmd_K j) s r
               else rmd_step st x (79 - j) (rmd_K' j) s r in
    rmd_line left (j + 1) rs' ss' st' x
  | _, _ => st
  end.

Definition rmd_block (h : list Z) (block : bytes) : list Z :=
  let x := map le_to_Z (chunks 4 block) in
  let l := rmd_line true 0 rmd_r rmd_s h x in
  let r := rmd_line false 0 rmd_r' rmd_s' h x in
  match h, l, r with
  | [h0; h1; h2; h3; h4], [a; b; c; d; e], [a'; b'; c'; d'; e'] =>
    [add32 (add32 h1 c) d'; add32 (add32 h2 d) e'; add32 (add32 h3 e) a';
     add32 (add32 h4 a) b'; add32 (add32 h0 b) c']
  | _, _, _ => h
  end.

Definition rmd_pad (msg : bytes) : bytes :=
  let l := zlen msg in
  let k := Z.land (55 - l) 63 in
  msg ++ [128] ++ zeros (Z.to_nat k) ++ Z_to_le 8 (8 * l).

Definition rmd_H0 : list Z := [0x67452301; 0xEFCDAB89; 0x98BADCFE; 0x10325476; 0xC3D2E1F0].

Definition ripemd160 (msg : bytes) : bytes :=
  flat_map (Z_to_le 4) (fold_left rmd_block (chunks 64 (rmd_pad msg)) rmd_H0).

Example ripemd160_empty : ripemd160 [] = Z_to_be 20 0x9c1185a5c5e9fc54612808977ee8f548b2258d31.
Proof. vm_compute. reflexivity. Qed.
Example ripemd160_abc : ripemd160 [97; 98; 99] = Z_to_be 20 0x8eb208f7e05d987a9b044a8e98c6b087f15a0bfc.
Proof. vm_compute. reflexivity. Qed.
