(* EIP-198 / EIP-2565 modular exponentiation precompile: mirrors
   crates/precompile/src/modexp.rs function by function. *)
From RevmV Require Export Base.PBytes.
Local Open Scope Z_scope.

(* ---- the value: square-and-multiply, most significant bit first ---- *)
Fixpoint modexp_pos (b : Z) (e : positive) (m : Z) : Z :=
  match e with
  | xH => b mod m
  | xO e' => let t := modexp_pos b e' m in (t * t) mod m
  | xI e' => let t := modexp_pos b e' m in ((t * t) mod m * b) mod m
  end.
(* aurora_engine_modexp::modexp: zero modulus gives the empty (= zero) result *)
Definition modexp (b e m : Z) : Z :=
  if m =? 0 then 0 else
  match e with
  | Zpos e' => modexp_pos b e' m
  | _ => 1 mod m
  end.

(* ---- gas ---- *)
(* U256::bit_len *)
Definition bit_len (x : Z) : Z := if x <=? 0 then 0 else Z.log2 x + 1.

(* calculate_iteration_count(exp_length: u64, exp_highp: &U256) -> u64 *)
Definition calculate_iteration_count (exp_length exp_highp : Z) : Z :=
  let it :=
    if (exp_length <=? 32) && (exp_highp =? 0) then 0
    else if exp_length <=? 32 then bit_len exp_highp - 1
    else sat64 (sat64 (8 * (exp_length - 32)) + (Z.max 1 (bit_len exp_highp) - 1)) in
  Z.max it 1.

Definition mul_complexity (x : Z) : Z :=
  if x <=? 64 then x * x
  else if x <=? 1024 then x * x / 4 + 96 * x - 3072
  else x * x / 16 + 480 * x - 199680.

(* byzantium_gas_calc: U256 arithmetic (no overflow for u64 arguments), saturating_to::<u64> *)
Definition byzantium_gas_calc (base_len exp_len mod_len exp_highp : Z) : Z :=
  let mul := mul_complexity (Z.max mod_len base_len) in
  let iter_count := calculate_iteration_count exp_len exp_highp in
  sat64 (mul * iter_count / 20).

Definition calculate_multiplication_complexity (base_length mod_length : Z) : Z :=
  let max_length := Z.max base_length mod_length in
  let words := max_length / 8 + (if 0 <? max_length mod 8 then 1 else 0) in
  words * words.

Definition berlin_gas_calc (base_length exp_length mod_length exp_highp : Z) : Z :=
  let mc := calculate_multiplication_complexity base_length mod_length in
  let iteration_count := calculate_iteration_count exp_length exp_highp in
  Z.max 200 (sat64 (mc * iteration_count / 3)).

(* ---- run_inner ---- *)
Inductive presult := POk (gas : Z) (out : bytes) | PErr (kind : Z).
Definition E_OutOfGas := 1.
Definition E_Blake2WrongLength := 2.
Definition E_Blake2WrongFinalIndicatorFlag := 3.
Definition E_ModexpExpOverflow := 4.
Definition E_ModexpBaseOverflow := 5.
Definition E_ModexpModOverflow := 6.
Definition E_Bn128FieldPointNotAMember := 7.
Definition E_Bn128AffineGFailedToCreate := 8.
Definition E_Bn128PairLength := 9.
Definition E_BlobInvalidInputLength := 10.
Definition E_BlobMismatchedVersion := 11.
Definition E_BlobVerifyKzgProofFailed := 12.
Definition E_Other := 13.
Definition E_Fatal := 14.
Definition E_Panic := 15.

(* the header: three 32-byte big-endian lengths read with right padding *)
Definition header_word (input : bytes) (off : Z) : Z := be_to_Z (right_pad_off 32 input off).

(* exp_highp: the first min(exp_len,32) bytes of the exponent (right padded with zeros when
   the call data is short), as a big-endian number *)
Definition exp_highp_of (input : bytes) (base_len exp_len : Z) : Z :=
  let data := drop 96 input in
  let right_padded_highp := right_pad_off 32 data base_len in
  be_to_Z (firstn (Z.to_nat (Z.min exp_len 32)) right_padded_highp).

Definition modexp_run_inner (berlin : bool) (input : bytes) (gas_limit : Z) : presult :=
  let min_gas := if berlin then 200 else 0 in
  if gas_limit <? min_gas then PErr E_OutOfGas else
  let base_len := header_word input 0 in
  let exp_len := header_word input 32 in
  let mod_len := header_word input 64 in
  (* usize::try_from *)
  if pow64 <=? base_len then PErr E_ModexpBaseOverflow else
  if pow64 <=? mod_len then PErr E_ModexpModOverflow else
  if (base_len =? 0) && (mod_len =? 0) then POk min_gas [] else
  if pow64 <=? exp_len then PErr E_ModexpModOverflow else
  let exp_highp := exp_highp_of input base_len exp_len in
  let gas_cost := if berlin then berlin_gas_calc base_len exp_len mod_len exp_highp
                  else byzantium_gas_calc base_len exp_len mod_len exp_highp in
  if gas_limit <? gas_cost then PErr E_OutOfGas else
  let data := drop 96 input in
  let base := take_pad (Z.to_nat base_len) data in
  let exponent := take_pad (Z.to_nat exp_len) (drop base_len data) in
  let modulus := take_pad (Z.to_nat mod_len) (drop (base_len + exp_len) data) in
  let r := modexp (be_to_Z base) (be_to_Z exponent) (be_to_Z modulus) in
  POk gas_cost (Z_to_be (Z.to_nat mod_len) r).

Example modexp_eip198_vector1 : (* 3 ^ (p-1) mod p = 1 for the secp256k1 field prime *)
  modexp 3 0xfffffffffffffffffffffffffffffffffffffffffffffffffffffffefffffc2e
           0xfffffffffffffffffffffffffffffffffffffffffffffffffffffffefffffc2f = 1.
Proof. vm_compute. reflexivity. Qed.
