(* C08: the quantities of ether conservation over the journaled-state model (Model/Host.v).
   [bal d s a]   the balance observed for address a: the loaded account's, else the database's
                 (= v_bal (view_acc d s a), Proofs/EtherProofs.v bal_view);
   [total d s us] the sum of the observed balances over a finite universe us;
   [jburn j]     the ether that the self-destructs recorded in journal j have burnt: the
                 had_balance of every AccountDestroyed entry whose target is the account itself
                 (JournalEntry::AccountDestroyed { address, target, had_balance, .. } with
                 address == target). Reverting a checkpoint drops its entries, so an undone burn
                 leaves the journal together with its entry. *)
From RevmV Require Import Base.Word Model.Host.
Local Open Scope Z_scope.

Definition bal (d : db) (s : jstate) (a : Z) : Z :=
  match st s a with Some acc => a_bal acc | None => a_bal (account_from_db d a) end.

Fixpoint sumf (f : Z -> Z) (us : list Z) : Z :=
  match us with [] => 0 | a :: r => f a + sumf f r end.

Definition total (d : db) (s : jstate) (us : list Z) : Z := sumf (bal d s) us.

Definition eburn (e : entry) : Z :=
  match e with AccountDestroyed a t _ had => if a =? t then had else 0 | _ => 0 end.
Fixpoint fburn (f : list entry) : Z :=
  match f with [] => 0 | e :: r => eburn e + fburn r end.
Fixpoint jburn (j : list (list entry)) : Z :=
  match j with [] => 0 | f :: r => fburn f + jburn r end.

(* addresses whose balance an operation can write *)
Definition hop_addrs (o : hop) : list Z :=
  match o with
  | HTransfer f t _ => [f; t]
  | HCreate c a _ _ => [c; a]
  | HSelfdestruct a t => [a; t]
  | _ => []
  end.
Fixpoint hist_addrs (h : list hop) : list Z :=
  match h with [] => [] | o :: r => hop_addrs o ++ hist_addrs r end.
