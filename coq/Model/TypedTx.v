(* The mapping of typed transactions (Spec/ValidSpec.v) to the untyped TxEnv of the code
   (DESIGN.md note 6.4) and of the code's environment to the context validity is judged in.
   The harness implements the same mapping in Rust (p_c02.rs: to_tx_env). *)
From RevmV Require Import Base.Word Model.Envelope Spec.ValidSpec.
Local Open Scope Z_scope.

Definition to_tx_env (t : Spec.typed_tx) : tx_env :=
  let c := Spec.common_of t in
  mkTx (Spec.gas_limit c) (Spec.max_fee_of t)
       (match Spec.to c with None => true | Some _ => false end)
       (Spec.value c) (Spec.data c) (Some (Spec.nonce c)) (Spec.chain_id_of t)
       (Spec.access_list_of t) (Spec.priority_of t) (Spec.blobs_of t)
       (match t with Spec.Eip4844 _ _ _ _ _ m _ => Some m | _ => None end)
       (match t with Spec.Eip7702 _ _ _ _ _ n => Some n | _ => None end).

Definition code_class_of (k : code_kind) : Spec.code_class :=
  match k with CodeEmpty => Spec.NoCode | CodeEip7702 => Spec.Delegation | CodeOther => Spec.Code end.

(* max initcode = 2 * code size limit (usize saturating; 49152 by default); the fork's blob maximum is
   read from the chain configuration (EIP-7840 blob schedule) *)
Definition ctx_of (spec : Z) (c : cfg_env) (b : block_env) (s : sender) : Spec.context :=
  Spec.mkCtx spec (c_chain_id c) (b_gas_limit b) (b_basefee b) (b_prevrandao_set b) (b_blob_gasprice b)
    (match c_limit_contract_code_size c with Some l => Z.min (2 * l) (pow64 - 1) | None => 49152 end)
    (blob_max_count c spec)
    (s_nonce s) (s_balance s) (code_class_of (s_code s)).

