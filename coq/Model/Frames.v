(* Model of the frame functions of crates/revm/src/context/evm_context.rs and
   inner_evm_context.rs: make_call_frame, make_create_frame (also the Opcode kind of
   make_eofcreate_frame, which performs the same journaled-state calls after its depth check),
   call_return, create_return / eofcreate_return. Only what touches the journaled state and
   the depth is modelled; the interpreter that runs inside a frame is represented by the
   events a frame may issue (Proofs/FramesProofs.v).

   Environment facts that are not journaled state are parameters of the inputs:
   which addresses are precompiles and whether the precompile call succeeds, whether code is
   EOF, has_storage of the created address, properties of the returned init code. *)
From RevmV Require Import Base.Word Model.Host.
Local Open Scope Z_scope.

Definition CALL_STACK_LIMIT : Z := 1024.

Inductive call_value := Transfer (v : Z) | Apparent (v : Z).

Record call_inputs := mkCI {
  ci_caller : Z; ci_target : Z; ci_bytecode : Z; ci_value : call_value;
  ci_ext_delegate : bool;
  ci_precompile : option bool;      (* Some ok: bytecode address is a precompile and the call succeeds / fails *)
  ci_code_is_eof : bool }.          (* the loaded code starts with the EOF magic *)

Inductive fres :=
| RCallTooDeep | ROutOfFunds | ROverflowPayment | RPrecompile (ok : bool)
| RInvalidExtDelegateCallTarget | RStop
| RCreateInitCodeStartingEF00 | RNonceOverflow | RCreateCollision.

Inductive frame_or_result := FResult (r : fres) | FFrame (cp : checkpoint_t).

Definition st_sc := (jstate * list checkpoint_t)%type.

(* the functions work on (state, stack of open frame checkpoints); the checkpoint of a created
   frame is pushed, call_return / create_return pop it *)
Definition make_call_frame (d : db) (sc : st_sc) (ci : call_inputs) : option (st_sc * frame_or_result) :=
  let '(s, cps) := sc in
  if depth s >? CALL_STACK_LIMIT then Some (sc, FResult RCallTooDeep) else
  let '(s1, _, _, _) := load_account_delegated d s (ci_bytecode ci) in
  let '(s2, cp) := checkpoint s1 in
  let after_value : option (jstate * option fres) :=
    match ci_value ci with
    | Transfer v =>
        if v =? 0 then
          Some (touch (fst (load_account d s2 (ci_target ci))) (ci_target ci), None)
        else
          match transfer d s2 (ci_caller ci) (ci_target ci) v with
          | Some (s3, XferOk) => Some (s3, None)
          | Some (s3, OutOfFunds) => Some (s3, Some ROutOfFunds)
          | Some (s3, OverflowPayment) => Some (s3, Some ROverflowPayment)
          | None => None
          end
    | Apparent _ => Some (s2, None)
    end in
  match after_value with
  | None => None
  | Some (s3, Some err) =>
      match checkpoint_revert s3 cp with Some s4 => Some ((s4, cps), FResult err) | None => None end
  | Some (s3, None) =>
      match (if ci_ext_delegate ci then None else ci_precompile ci) with
      | Some true => Some ((checkpoint_commit s3, cps), FResult (RPrecompile true))
      | Some false =>
          match checkpoint_revert s3 cp with Some s4 => Some ((s4, cps), FResult (RPrecompile false)) | None => None end
      | None =>
          let '(s4, _) := load_code d s3 (ci_bytecode ci) in
          match st s4 (ci_bytecode ci) with
          | None => None
          | Some acc =>
              if ci_ext_delegate ci && negb (ci_code_is_eof ci) then
                (* fix F3: the checkpoint is reverted before returning *)
                match checkpoint_revert s4 cp with
                | Some s5 => Some ((s5, cps), FResult RInvalidExtDelegateCallTarget)
                | None => None
                end
              else if a_code acc =? 0 then Some ((checkpoint_commit s4, cps), FResult RStop)
              else
                let s5 := match db_delegate d (a_code acc) with
                          | Some t => fst (load_code d s4 t)
                          | None => s4
                          end in
                Some ((s5, cp :: cps), FFrame cp)
          end
      end
  end.

Definition call_return (sc : st_sc) (ok : bool) : option st_sc :=
  let '(s, cps) := sc in
  match cps with
  | [] => None
  | cp :: r =>
      if ok then Some (checkpoint_commit s, r)
      else match checkpoint_revert s cp with Some s' => Some (s', r) | None => None end
  end.

Record create_inputs := mkCR {
  cr_caller : Z; cr_value : Z; cr_created : Z;
  cr_init_is_ef00 : bool;           (* OSAKA and init code starts with EF00 (legacy create only) *)
  cr_created_is_precompile : bool;
  cr_has_storage : bool }.

Definition make_create_frame (d : db) (sc : st_sc) (cr : create_inputs) : option (st_sc * frame_or_result) :=
  let '(s, cps) := sc in
  if depth s >? CALL_STACK_LIMIT then Some (sc, FResult RCallTooDeep) else
  if cr_init_is_ef00 cr then Some (sc, FResult RCreateInitCodeStartingEF00) else
  let '(s1, _) := load_account d s (cr_caller cr) in                     (* self.balance(caller) *)
  match st s1 (cr_caller cr) with
  | None => None
  | Some cacc =>
      if a_bal cacc <? cr_value cr then Some ((s1, cps), FResult ROutOfFunds) else
      match inc_nonce s1 (cr_caller cr) with
      | None => None
      | Some (s2, None) => Some ((s2, cps), FResult RNonceOverflow)
      | Some (s2, Some _) =>
          if cr_created_is_precompile cr then Some ((s2, cps), FResult RCreateCollision) else
          let '(s3, _) := load_account d s2 (cr_created cr) in
          match create_account_checkpoint s3 (cr_caller cr) (cr_created cr) (cr_has_storage cr)
                                          (cr_value cr) (spurious s3) with
          | None => None
          | Some (s4, CreateOk cp) => Some ((s4, cp :: cps), FFrame cp)
          | Some (s4, CreateCollision) => Some ((s4, cps), FResult RCreateCollision)
          | Some (s4, CreateOverflow) => Some ((s4, cps), FResult ROverflowPayment)
          end
      end
  end.

(* what create_return / eofcreate_return decide from the interpreter result *)
Inductive create_ret :=
| CRFail            (* result not ok, or EF first byte, or size limit, or deposit out of gas (Homestead+) *)
| CRCommit (code : Z).   (* commit, then set_code *)

Definition create_return (sc : st_sc) (created : Z) (r : create_ret) : option st_sc :=
  let '(s, cps) := sc in
  match cps with
  | [] => None
  | cp :: rest =>
      match r with
      | CRFail => match checkpoint_revert s cp with Some s' => Some (s', rest) | None => None end
      | CRCommit c =>
          match set_code (checkpoint_commit s) created c with
          | Some s' => Some (s', rest)
          | None => None
          end
      end
  end.

(* events a transaction's frame tree issues against the context, in execution order *)
Inductive fevent :=
| EHop (o : hop)                      (* a host operation of the running frame *)
| ECall (ci : call_inputs)
| ECallReturn (ok : bool)
| ECreate (cr : create_inputs)
| ECreateReturn (created : Z) (r : create_ret).

Definition plain_hop (o : hop) : bool :=
  match o with HCheckpoint | HCommit | HRevert | HCreate _ _ _ _ => false | _ => true end.

Definition fstep (d : db) (sc : st_sc) (e : fevent) : option (st_sc * option frame_or_result) :=
  match e with
  | EHop o => if plain_hop o then
                match run_hop d sc o with Some sc' => Some (sc', None) | None => None end
              else None
  | ECall ci => match make_call_frame d sc ci with Some (sc', r) => Some (sc', Some r) | None => None end
  | ECallReturn ok => match call_return sc ok with Some sc' => Some (sc', None) | None => None end
  | ECreate cr => match make_create_frame d sc cr with Some (sc', r) => Some (sc', Some r) | None => None end
  | ECreateReturn a r => match create_return sc a r with Some sc' => Some (sc', None) | None => None end
  end.

Fixpoint frun (d : db) (sc : st_sc) (es : list fevent) : option st_sc :=
  match es with
  | [] => Some sc
  | e :: r => match fstep d sc e with Some (sc', _) => frun d sc' r | None => None end
  end.
