(* SHA-256 (FIPS 180-4) as an executable Gallina function over Z words.
   This is an executable specification: validated on the standard vectors below and by the
   correspondence with the sha2 crate, not verified against another formalisation. *)
From RevmV Require Export Base.PBytes.
Local Open Scope Z_scope.

Definition m32 : Z := 4294967295.
Definition add32 (a b : Z) : Z := Z.land (a + b) m32.
Definition rotr32 (x n : Z) : Z := Z.lor (Z.shiftr x n) (Z.land (Z.shiftl x (32 - n)) m32).
Definition rotl32 (x n : Z) : Z := Z.lor (Z.land (Z.shiftl x n) m32) (Z.shiftr x (32 - n)).
Definition not32 (x : Z) : Z := Z.lxor x m32.

Definition sha_K : list Z :=
 [0x428a2f98; 0x71374491; 0xb5c0fbcf; 0xe9b5dba5; 0x3956c25b; 0x59f111f1; 0x923f82a4; 0xab1c5ed5;
  0xd807aa98; 0x12835b01; 0x243185be; 0x550c7dc3; 0x72be5d74; 0x80deb1fe; 0x9bdc06a7; 0xc19bf174;
  0xe49b69c1; 0xefbe4786; 0x0fc19dc6; 0x240ca1cc; 0x2de92c6f; 0x4a7484aa; 0x5cb0a9dc; 0x76f988da;
  0x983e5152; 0xa831c66d; 0xb00327c8; 0xbf597fc7; 0xc6e00bf3; 0xd5a79147; 0x06ca6351; 0x14292967;
  0x27b70a85; 0x2e1b2138; 0x4d2c6dfc; 0x53380d13; 0x650a7354; 0x766a0abb; 0x81c2c92e; 0x92722c85;
  0xa2bfe8a1; 0xa81a664b; 0xc24b8b70; 0xc76c51a3; 0xd192e819; 0xd6990624; 0xf40e3585; 0x106aa070;
  0x19a4c116; 0x1e376c08; 0x2748774c; 0x34b0bcb5; 0x391c0cb3; 0x4ed8aa4a; 0x5b9cca4f; 0x682e6ff3;
  0x748f82ee; 0x78a5636f; 0x84c87814; 0x8cc70208; 0x90befffa; 0xa4506ceb; 0xbef9a3f7; 0xc67178f2].
Definition sha_H0 : list Z :=
 [0x6a09e667; 0xbb67ae85; 0x3c6ef372; 0xa54ff53a; 0x510e527f; 0x9b05688c; 0x1f83d9ab; 0x5be0cd19].

Definition Ch (x y z : Z) := Z.lxor (Z.land x y) (Z.land (not32 x) z).
Definition Maj (x y z : Z) := Z.lxor (Z.lxor (Z.land x y) (Z.land x z)) (Z.land y z).
Definition bSig0 x := Z.lxor (Z.lxor (rotr32 x 2) (rotr32 x 13)) (rotr32 x 22).
Definition bSig1 x := Z.lxor (Z.lxor (rotr32 x 6) (rotr32 x 11)) (rotr32 x 25).
Definition sSig0 x := Z.lxor (Z.lxor (rotr32 x 7) (rotr32 x 18)) (Z.shiftr x 3).
Definition sSig1 x := Z.lxor (Z.lxor (rotr32 x 17) (rotr32 x 19)) (Z.shiftr x 10).

(* state (a,b,c,d,e,f,g,h) as a list of 8; [w] = sliding window W[t..t+15] *)
Definition sha_round (st : list Z) (k wt : Z) : list Z :=
  match st with
  | [a; b; c; d; e; f; g; h] =>
    let t1 := add32 (add32 (add32 (add32 h (bSig1 e)) (Ch e f g)) k) wt in
    let t2 := add32 (bSig0 a) (Maj a b c) in
    [add32 t1 t2; a; b; c; add32 d t1; e; f; g]
  | _ => st
  end.

Definition next_w (w : list Z) : list Z :=
  let nw := add32 (add32 (add32 (sSig1 (nth 14 w 0)) (nth 9 w 0)) (sSig0 (nth 1 w 0))) (nth 0 w 0) in
  tl w ++ [nw].

Fixpoint sha_rounds (ks : list Z) (st w : list Z) : list Z :=
  match ks with
  | [] => st
  | k :: ks' => sha_rounds ks' (sha_round st k (hd 0 w)) (next_w w)
  end.

Definition sha_block (h : list Z) (block : bytes) : list Z :=
  let w := map be_to_Z (chunks 4 block) in
  map (fun p => add32 (fst p) (snd p)) (combine h (sha_rounds sha_K h w)).

(* padding: 0x80, zeros up to 56 mod 64, bit length as 8 big-endian bytes *)
Definition sha_pad (msg : bytes) : bytes :=
  let l := zlen msg in
  let k := Z.land (55 - l) 63 in
  msg ++ [128] ++ zeros (Z.to_nat k) ++ Z_to_be 8 (8 * l).

Definition sha256 (msg : bytes) : bytes :=
  let h := fold_left sha_block (chunks 64 (sha_pad msg)) sha_H0 in
  flat_map (Z_to_be 4) h.

Example sha256_empty : sha256 [] = Z_to_be 32 0xe3b0c44298fc1c149afbf4c8996fb92427ae41e4649b934ca495991b7852b855.
Proof. vm_compute. reflexivity. Qed.
Example sha256_abc : sha256 [97; 98; 99] = Z_to_be 32 0xba7816bf8f01cfea414140de5dae2223b00361a396177a9cb410ff61f20015ad.
Proof. vm_compute. reflexivity. Qed.
