(* Model of legacy jump analysis and the JUMP / JUMPI target check.
     crates/interpreter/src/interpreter/analysis.rs    to_analysed, analyze
     crates/primitives/src/bytecode/legacy/jump_map.rs JumpTable::is_valid
     crates/primitives/src/bytecode/legacy.rs          LegacyAnalyzedBytecode
     crates/primitives/src/bytecode.rs                 Bytecode (the four variants), legacy_jump_table
     crates/interpreter/src/interpreter/contract.rs    Contract::new (lazy analysis), is_valid_jump
     crates/interpreter/src/instructions/control.rs    jump, jumpi, jump_inner
     crates/interpreter/src/instructions/macros.rs     as_usize_or_fail
   Bytes are Z in [0,256); a byte string is [list Z]; list positions are [nat]; jump targets and
   program counters are Z (a target is a 256-bit word). *)
From RevmV Require Import Base.Word.
Local Open Scope Z_scope.

Definition byte_ok (b : Z) : Prop := 0 <= b < 256.
Definition bytes_ok (l : list Z) : Prop := Forall byte_ok l.
Definition is_byte (b : Z) : bool := (0 <=? b) && (b <? 256).
Definition are_bytes (l : list Z) : bool := forallb is_byte l.

Definition OP_JUMPDEST : Z := 0x5b.
Definition OP_PUSH1 : Z := 0x60.
Definition OP_JUMP : Z := 0x56.
Definition OP_JUMPI : Z := 0x57.

Definition zlen {A} (l : list A) : Z := Z.of_nat (length l).

(* ---- the four Bytecode variants (crates/primitives/src/bytecode.rs) ---------------------- *)
(* JumpTable(Arc<BitVec<u8>>): a bit vector with its own length *)
Definition jump_table := list bool.

Record legacy_analyzed := mkAnalyzed {
  la_bytecode : list Z;       (* padded bytes *)
  la_original_len : Z;
  la_jump_table : jump_table }.

Record eip7702_bytecode := mk7702 {
  delegated_address : list Z; (* 20 bytes *)
  e7_version : Z;
  e7_raw : list Z }.

Inductive bytecode :=
| LegacyRaw (b : list Z)
| LegacyAnalyzed (a : legacy_analyzed)
| Eof (raw : list Z)          (* Arc<Eof>: only the retained raw bytes are modelled (codec = C26) *)
| Eip7702 (e : eip7702_bytecode).

(* ---- analyze ----------------------------------------------------------------------------- *)
(* One iteration of the `while iterator < end` loop decides how far the iterator advances:
     opcode == JUMPDEST              -> set bit, advance 1
     opcode.wrapping_sub(PUSH1) < 32 -> advance push_offset + 2
     otherwise                       -> advance 1
   [advance] is that distance minus one, i.e. the number of following bytes stepped over. *)
Definition push_offset (opcode : Z) : Z := (opcode - OP_PUSH1) mod 256.   (* u8 wrapping_sub *)
Definition advance (opcode : Z) : nat :=
  if opcode =? OP_JUMPDEST then 0%nat
  else if push_offset opcode <? 32 then Z.to_nat (push_offset opcode + 1) else 0%nat.

(* The loop as structural recursion over the bytes with a skip counter: [skip] is the number of
   bytes that still lie before the iterator.  The result has one bit per byte (the BitVec is
   created with code.len() zero bits). *)
Fixpoint analyze_from (skip : nat) (code : list Z) : jump_table :=
  match code with
  | [] => []
  | b :: r =>
    match skip with
    | S k => false :: analyze_from k r
    | O => (b =? OP_JUMPDEST) :: analyze_from (advance b) r
    end
  end.
Definition analyze (code : list Z) : jump_table := analyze_from 0 code.

Definition padding : list Z := repeat 0 33.

(* to_analysed: LegacyRaw is padded with 33 zero bytes and analysed *on the padded bytes*;
   every other variant is returned unchanged. *)
Definition to_analysed (bc : bytecode) : bytecode :=
  match bc with
  | LegacyRaw b =>
    let padded := b ++ padding in
    LegacyAnalyzed (mkAnalyzed padded (zlen b) (analyze padded))
  | n => n
  end.

(* ---- validity check ---------------------------------------------------------------------- *)
(* JumpTable::is_valid: pc < self.0.len() && self.0[pc]   (pc : usize) *)
Definition jt_is_valid (jt : jump_table) (pc : Z) : bool :=
  if (0 <=? pc) && (pc <? zlen jt) then nth (Z.to_nat pc) jt false else false.

Definition legacy_jump_table (bc : bytecode) : option jump_table :=
  match bc with LegacyAnalyzed a => Some (la_jump_table a) | _ => None end.

(* Contract::is_valid_jump: legacy_jump_table().map(|i| i.is_valid(pos)).unwrap_or(false) *)
Definition is_valid_jump (bc : bytecode) (pos : Z) : bool :=
  match legacy_jump_table bc with Some jt => jt_is_valid jt pos | None => false end.

(* Contract::new analyses lazily *)
Definition contract_new (bc : bytecode) : bytecode := to_analysed bc.

(* as_usize_or_fail on a 64-bit target: fails when the word does not fit in u64 *)
Definition as_usize (w : Z) : option Z := if w <? pow64 then Some w else None.

(* jump_inner: the target word is accepted iff this is true *)
Definition jump_ok (bc : bytecode) (target : Z) : bool :=
  match as_usize target with
  | Some t => is_valid_jump bc t
  | None => false
  end.

(* ---- the two opcodes --------------------------------------------------------------------- *)
Inductive jump_result :=
| JContinue (new_pc : Z)    (* instruction_result stays Continue, program counter afterwards *)
| JInvalidJump.

(* [pc] is the position of the opcode; step() has already advanced the pointer by one. *)
Definition jump_inner (bc : bytecode) (pc target : Z) : jump_result :=
  if jump_ok bc target then JContinue target else JInvalidJump.
Definition op_jump (bc : bytecode) (pc target : Z) : jump_result := jump_inner bc pc target.
Definition op_jumpi (bc : bytecode) (pc target cond : Z) : jump_result :=
  if cond =? 0 then JContinue (pc + 1) else jump_inner bc pc target.

