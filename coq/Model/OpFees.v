(* Model of the Optimism fee pipeline:
     crates/revm/src/optimism/handler_register.rs  (validate_env, validate_tx_against_state,
         deduct_caller, last_frame_return, refund, reimburse_caller, reward_beneficiary, output, end)
     crates/revm/src/optimism/l1block.rs           (operator_fee_charge, operator_fee_refund)
     crates/revm/src/handler/mainnet/{pre_execution,post_execution,validation}.rs  (the reused parts:
         deduct_caller_inner, reimburse_caller, reward_beneficiary, refund, output, validate_initial_tx_gas)
     crates/revm/src/evm.rs                        (transact / transact_preverified_inner: order of the stages,
         EIP-7623 floor)
     crates/primitives/src/env.rs                  (effective_gas_price, the LONDON part of validate_tx)
   One Gallina function per Rust function, same order of checks.  U256 arithmetic is written with
   its Rust flavour: [sat_*] = saturating_*, [chk_*] = checked_* ([None] = the error branch),
   [w_add]/[w_mul] = the plain operators "+", "*", "+=" of ruint::Uint, which wrap modulo 2^256 in
   every build profile (impl_bin_op!(Add, add, AddAssign, add_assign, wrapping_add)).  Only the u64
   operations on Gas values can panic (debug profile).
   What is NOT modelled here (taken as inputs of the model):
     - [l1]: the value returned by L1BlockInfo::calculate_tx_l1_cost for the enveloped transaction
       (FastLZ length + bedrock/ecotone/fjord formula).  The three call sites (validation,
       deduct_caller, reward_beneficiary) go through the same cache [tx_l1_cost], are given the same
       [enveloped_tx] and [SPEC::SPEC_ID], and read the same L1BlockInfo that is fetched once per
       transaction, so they receive one value.  (L1Cost.v models the arithmetic of the formulas.)
     - [intrinsic], [floor_gas]: result of gas::calculate_initial_tx_gas.
     - the frame result [fres] (class, gas remaining, refund counter) of the top-level call/create.
   Blob transactions and EIP-7702 authorization lists are not generated: the blob data fee and
   the 7702 refund are 0. *)
From RevmV Require Import Base.Word Model.Gas.
Local Open Scope Z_scope.

(* ---------------------------------------------------------------- U256 arithmetic *)
Definition max256 : Z := pow256 - 1.
Definition sat_add (a b : Z) : Z := Z.min (a + b) max256.
Definition sat_sub (a b : Z) : Z := Z.max (a - b) 0.
Definition sat_mul (a b : Z) : Z := Z.min (a * b) max256.
(* "+" / "*" / "+=" of ruint::Uint wrap *)
Definition w_add (a b : Z) : Z := wrap256 (a + b).
Definition w_mul (a b : Z) : Z := wrap256 (a * b).
(* checked_add / checked_mul *)
Definition chk (x : Z) : option Z := if x <? pow256 then Some x else None.
Definition chk_add (a b : Z) : option Z := chk (a + b).
Definition chk_mul (a b : Z) : option Z := chk (a * b).
Definition u64_sat_add (a b : Z) : Z := Z.min (a + b) (pow64 - 1).

Definition obind {A B} (o : option A) (f : A -> option B) : option B :=
  match o with Some x => f x | None => None end.
Notation "'do' x <- e ; k" := (obind e (fun x => k)) (at level 200, x name, e at level 100, k at level 200).

(* ---------------------------------------------------------------- SpecId (optimism feature) *)
Definition LONDON := 12.  Definition MERGE := 15.
Definition BEDROCK := 16. Definition REGOLITH := 17. Definition SHANGHAI := 18.
Definition CANYON := 19.  Definition CANCUN := 20.   Definition ECOTONE := 21.
Definition FJORD := 22.   Definition GRANITE := 23.  Definition HOLOCENE := 24.
Definition PRAGUE := 25.  Definition OSAKA := 26.    Definition ISTHMUS := 27.
(* SpecId::enabled(our, other) = our as u8 >= other as u8 *)
Definition enabled (our other : Z) : bool := other <=? our.
Definition op_specs : list Z := [BEDROCK; REGOLITH; CANYON; ECOTONE; FJORD; GRANITE; HOLOCENE; ISTHMUS].

(* ---------------------------------------------------------------- inputs *)
Record optx := mkTx {
  spec : Z;
  is_deposit : bool;          (* tx.optimism.source_hash.is_some() *)
  mint : option Z;            (* tx.optimism.mint : Option<u128> *)
  is_system : bool;           (* tx.optimism.is_system_transaction.unwrap_or(false) *)
  has_envelope : bool;        (* tx.optimism.enveloped_tx.is_some() *)
  is_call : bool;             (* transact_to is TxKind::Call *)
  gas_limit : Z;              (* u64 *)
  gas_price : Z;
  priority : option Z;        (* gas_priority_fee *)
  basefee : Z;                (* block.basefee *)
  value : Z;
  l1 : Z;                     (* calculate_tx_l1_cost(enveloped_tx, spec) *)
  op_scalar : Z;              (* L1BlockInfo.operator_fee_scalar  (ISTHMUS) *)
  op_const : Z;               (* L1BlockInfo.operator_fee_constant (ISTHMUS) *)
  intrinsic : Z;              (* InitialAndFloorGas.initial_gas *)
  floor_gas : Z               (* InitialAndFloorGas.floor_gas (0 before PRAGUE) *)
}.

(* result of the top-level frame.  [fclass]: 0 = return_ok!, 1 = return_revert!, 2 = anything else
   (what last_frame_return matches on); [rclass]: SuccessOrHalt::from(result): 0 Success, 1 Revert,
   2 Halt (OutOfFunds and CallTooDeep are return_revert! for gas but Halt for the result) *)
Record fres := mkFres { fclass : Z; rclass : Z; frem : Z; fref : Z }.

(* balances of the six roles (distinct accounts) and the sender's nonce *)
Record ost := mkSt {
  b_sender : Z; b_rcpt : Z; b_coinbase : Z; b_l1v : Z; b_basev : Z; b_opv : Z; nonce : Z }.

Inductive outcome :=
| Invalid (code : Z)    (* Err(..) out of preverify_transaction_inner: nothing is written *)
| Executed (class gas_used gas_refunded : Z) (s : ost)
                        (* class 0 Success, 1 Revert, 2 Halt, 3 Halt{FailedDeposit} *)
| Panic.                (* an unchecked u64 operation on Gas values overflows (debug build: panic),
                           or the frame result is inconsistent with the balances *)

(* error codes of [Invalid] *)
Definition E_SYSTEM_TX := 20.     (* DepositSystemTxPostRegolith *)
Definition E_PRIORITY := 21.      (* PriorityFeeGreaterThanMaxFee *)
Definition E_BASEFEE := 22.       (* GasPriceLessThanBasefee *)
Definition E_INTRINSIC := 23.     (* CallGasCostMoreThanGasLimit *)
Definition E_FLOOR := 24.         (* GasFloorMoreThanGasLimit *)
Definition E_OVERFLOW := 25.      (* OverflowPaymentInTransaction *)
Definition E_FUNDS := 26.         (* LackOfFundForMaxFee *)
Definition E_ENVELOPE := 27.      (* Custom("[OPTIMISM] Failed to load enveloped transaction.") *)

(* ---------------------------------------------------------------- l1block.rs *)
Definition OPERATOR_FEE_SCALAR_DECIMAL := 1000000.

(* operator_fee_charge(&self, gas_limit: U256, spec_id) *)
Definition operator_fee_charge (sp scalar const g : Z) : Z :=
  if negb (enabled sp ISTHMUS) then 0
  else sat_add (sat_mul g scalar / OPERATOR_FEE_SCALAR_DECIMAL) const.

(* gas.spent() - gas.refunded() as u64 *)
Definition used (g : gas) : Z := spent g - i64_as_u64 (refunded g).

(* operator_fee_refund(&self, gas: &Gas, spec_id) *)
Definition operator_fee_refund (sp scalar const : Z) (g : gas) : Z :=
  if negb (enabled sp ISTHMUS) then 0
  else sat_sub (operator_fee_charge sp scalar const (limit g))
               (operator_fee_charge sp scalar const (used g)).

(* ---------------------------------------------------------------- env.rs *)
(* Env::effective_gas_price: min(gas_price, basefee + priority_fee); "+" wraps *)
Definition effective_gas_price (t : optx) : Z :=
  match priority t with
  | Some p => Z.min (gas_price t) (w_add (basefee t) p)
  | None => gas_price t
  end.

(* ---------------------------------------------------------------- validation *)
(* optimism::validate_env (block checks are not in scope: the harness always supplies
   prevrandao and blob_excess_gas), then Env::validate_tx restricted to the fee rules *)
Definition validate_env (t : optx) : Z :=
  if is_deposit t then 0
  else if is_system t && enabled (spec t) REGOLITH then E_SYSTEM_TX
  else (* LONDON is enabled in every Optimism spec *)
    if (match priority t with Some p => gas_price t <? p | None => false end) then E_PRIORITY
    else if effective_gas_price t <? basefee t then E_BASEFEE else 0.

(* mainnet::validate_initial_tx_gas *)
Definition validate_initial_tx_gas (t : optx) : Z :=
  if gas_limit t <? intrinsic t then E_INTRINSIC
  else if enabled (spec t) PRAGUE && (gas_limit t <? floor_gas t) then E_FLOOR
  else 0.

(* optimism::validate_tx_against_state: nonce / code checks are not in scope (tx.nonce = None,
   the sender has no code); balance_check = limit*price + value + l1 + operator charge, all checked *)
Definition balance_check (t : optx) : option Z :=
  do a <- chk_mul (gas_limit t) (gas_price t);
  do b <- chk_add a (value t);
  do c <- chk_add b (l1 t);
  chk_add c (operator_fee_charge (spec t) (op_scalar t) (op_const t) (gas_limit t)).

Definition validate_tx_against_state (t : optx) (s : ost) : Z :=
  if is_deposit t then 0
  else if negb (has_envelope t) then E_ENVELOPE
  else match balance_check t with
       | None => E_OVERFLOW
       | Some c => if b_sender s <? c then E_FUNDS else 0   (* max data fee: no blobs, + 0 *)
       end.

(* Evm::preverify_transaction_inner *)
Definition preverify (t : optx) (s : ost) : Z :=
  let e := validate_env t in
  if negb (e =? 0) then e
  else let e2 := validate_initial_tx_gas t in
       if negb (e2 =? 0) then e2 else validate_tx_against_state t s.

(* ---------------------------------------------------------------- pre-execution *)
(* optimism::deduct_caller, with mainnet::deduct_caller_inner inlined at its call site *)
Definition deduct_caller (t : optx) (s : ost) : ost :=
  (* caller_account.info.balance += U256::from(mint)       -- whenever mint is Some *)
  let b1 := match mint t with Some m => w_add (b_sender s) m | None => b_sender s end in
  (* deduct_caller_inner: gas_cost = limit.saturating_mul(effective_gas_price) (+ data fee 0) *)
  let eff := effective_gas_price t in
  let gas_cost := sat_mul (gas_limit t) eff in
  let b2 := sat_sub b1 gas_cost in
  let n := if is_call t then u64_sat_add (nonce s) 1 else nonce s in
  let b4 := if is_deposit t then b2
            else sat_sub (sat_sub b2 (l1 t))
                         (operator_fee_charge (spec t) (op_scalar t) (op_const t) (gas_limit t)) in
  mkSt b4 (b_rcpt s) (b_coinbase s) (b_l1v s) (b_basev s) (b_opv s) n.

(* the top-level frame as far as the sender is concerned: the value moves iff the frame
   returns ok (JournaledState::transfer inside a checkpoint that is reverted otherwise); a CREATE
   bumps the nonce once the balance pre-check has passed (make_create_frame) *)
Definition frame_effect (t : optx) (f : fres) (s : ost) : option ost :=
  let n := if is_call t then nonce s
           else if b_sender s <? value t then nonce s else u64_sat_add (nonce s) 1 in
  if fclass f =? 0 then
    if b_sender s <? value t then None
    else do r <- chk_add (b_rcpt s) (value t);
         Some (mkSt (b_sender s - value t) r (b_coinbase s) (b_l1v s) (b_basev s) (b_opv s) n)
  else Some (mkSt (b_sender s) (b_rcpt s) (b_coinbase s) (b_l1v s) (b_basev s) (b_opv s) n).

(* ---------------------------------------------------------------- gas accounting *)
(* optimism::last_frame_return *)
Definition last_frame_return (t : optx) (f : fres) : option gas :=
  let g := gas_new_spent (gas_limit t) in
  let is_regolith := enabled (spec t) REGOLITH in
  if fclass f =? 0 then
    if negb (is_deposit t) || is_regolith then
      do g1 <- erase_cost g (frem f); record_refund g1 (fref f)
    else if is_deposit t && is_system t then erase_cost g (gas_limit t)
    else Some g
  else if fclass f =? 1 then
    if negb (is_deposit t) || is_regolith then erase_cost g (frem f) else Some g
  else Some g.

(* optimism::refund with eip7702_refund = 0; cfg.is_gas_refund_disabled() = false (feature off) *)
Definition refund (t : optx) (g : gas) : option gas :=
  do g1 <- record_refund g 0;
  if is_deposit t && negb (enabled (spec t) REGOLITH) then Some g1
  else set_final_refund_chk g1 (enabled (spec t) LONDON).

(* evm.rs: EIP-7623 floor *)
Definition apply_floor (t : optx) (g : gas) : gas :=
  if spent_sub_refunded g <? floor_gas t then set_refund (set_spent g (floor_gas t)) 0 else g.

Definition final_gas (t : optx) (f : fres) : option gas :=
  do g <- last_frame_return t f; do g2 <- refund t g; Some (apply_floor t g2).

(* ---------------------------------------------------------------- post-execution *)
(* optimism::reimburse_caller = mainnet::reimburse_caller + operator fee refund *)
Definition reimburse_caller (t : optx) (g : gas) (s : ost) : option ost :=
  (* gas.remaining() + gas.refunded() as u64 : u64 addition *)
  do units <- checked64 (remaining g + i64_as_u64 (refunded g));
  let back := w_mul (effective_gas_price t) units in
  let b1 := sat_add (b_sender s) back in
  let b2 := if is_deposit t then b1
            else sat_add b1 (operator_fee_refund (spec t) (op_scalar t) (op_const t) g) in
  Some (mkSt b2 (b_rcpt s) (b_coinbase s) (b_l1v s) (b_basev s) (b_opv s) (nonce s)).

(* optimism::reward_beneficiary (mainnet::reward_beneficiary first) *)
Definition reward_beneficiary (t : optx) (g : gas) (s : ost) : option ost :=
  if is_deposit t then Some s
  else
    if used g <? 0 then None else
    let cb := w_mul (sat_sub (effective_gas_price t) (basefee t)) (used g) in
    let coinbase := sat_add (b_coinbase s) cb in
    let l1v := w_add (b_l1v s) (l1 t) in
    let basev := w_add (b_basev s) (w_mul (basefee t) (used g)) in
    let opv := w_add (b_opv s) (operator_fee_charge (spec t) (op_scalar t) (op_const t) (used g)) in
    Some (mkSt (b_sender s) (b_rcpt s) coinbase l1v basev opv (nonce s)).

(* optimism::end for a deposit whose execution ended in Err(EVMError::Transaction(_)):
   only the caller, read from the database, with nonce + 1 and balance + mint *)
Definition failed_deposit (t : optx) (s0 : ost) : outcome :=
  let m := match mint t with Some m => m | None => 0 end in
  let gu := if enabled (spec t) REGOLITH || negb (is_system t) then gas_limit t else 0 in
  Executed 3 gu 0
    (mkSt (sat_add (b_sender s0) m) (b_rcpt s0) (b_coinbase s0) (b_l1v s0) (b_basev s0) (b_opv s0)
          (u64_sat_add (nonce s0) 1)).

(* mainnet::output, optimism::output, optimism::end *)
Definition output (t : optx) (f : fres) (g : gas) (s0 s : ost) : outcome :=
  if used g <? 0 then Panic else
  let class := if rclass f =? 0 then 0 else if rclass f =? 1 then 1 else 2 in
  if (class =? 2) && is_deposit t && enabled (spec t) REGOLITH then failed_deposit t s0
  else Executed class (used g) (if class =? 0 then i64_as_u64 (refunded g) else 0) s.

(* Evm::transact_preverified_inner, after validation *)
Definition execute (t : optx) (f : fres) (s0 : ost) : outcome :=
  match (let s1 := deduct_caller t s0 in
         do s2 <- frame_effect t f s1;
         do g <- final_gas t f;
         do s3 <- reimburse_caller t g s2;
         do s4 <- reward_beneficiary t g s3;
         Some (g, s4)) with
  | Some (g, s4) => output t f g s0 s4
  | None => Panic
  end.

(* Evm::transact *)
Definition transact (t : optx) (f : fres) (s0 : ost) : outcome :=
  let e := preverify t s0 in if e =? 0 then execute t f s0 else Invalid e.
