(* Model of EOF validation: crates/interpreter/src/interpreter/analysis.rs
   (validate_raw_eof_inner, validate_eof_inner, validate_eof_codes, validate_eof_code,
   AccessTracker). Same order of checks, same error values. The opcode table and opcode numbers
   come from Gen/EofOps.v (printed from the compiled code).

   i32 / isize arithmetic is written over Z: the values are bounded by small multiples of the
   code length and the stack limit, no wrap can occur on inputs that pass the earlier checks;
   a debug-build overflow would be a panic and is observed as such by the harness.
   Every index ([code[i]], [jumps[i]], [types[i]], [codes[i]], the unsafe [read_i16]/[read_u16]
   pointer reads) goes through an option-returning accessor; out of range = [VPanic]. *)
From RevmV Require Export Model.Eof Gen.EofOps.
Local Open Scope Z_scope.

Inductive CodeType := ReturnContract | ReturnOrStop.
Definition code_type_eqb (a b : CodeType) : bool :=
  match a, b with ReturnContract, ReturnContract | ReturnOrStop, ReturnOrStop => true | _, _ => false end.

Inductive EofValidationError :=
| FalsePositive | UnknownOpcode | OpcodeDisabled | InstructionNotForwardAccessed
| MissingImmediateBytes | MissingRJUMPVImmediateBytes | JumpToImmediateBytes
| BackwardJumpToImmediateBytes | RJUMPVZeroMaxIndex | JumpZeroOffset | EOFCREATEInvalidIndex
| CodeSectionOutOfBounds | CALLFNonReturningFunction | StackOverflow | JUMPFEnoughOutputs
| JUMPFStackHigherThanOutputs | DataLoadOutOfBounds | RETFBiggestStackNumMoreThenOutputs
| StackUnderflow | TypesStackUnderflow | JumpUnderflow | JumpOverflow
| BackwardJumpBiggestNumMismatch | BackwardJumpSmallestNumMismatch | LastInstructionNotTerminating
| CodeSectionNotAccessed | VInvalidTypesSection | InvalidFirstTypesSection | MaxStackMismatch
| NoCodeSections | SubContainerCalledInTwoModes | SubContainerNotAccessed | DataNotFilled
| NonReturningSectionIsReturning.

Definition verr_code (e : EofValidationError) : Z :=
  match e with
  | FalsePositive => 0 | UnknownOpcode => 1 | OpcodeDisabled => 2 | InstructionNotForwardAccessed => 3
  | MissingImmediateBytes => 4 | MissingRJUMPVImmediateBytes => 5 | JumpToImmediateBytes => 6
  | BackwardJumpToImmediateBytes => 7 | RJUMPVZeroMaxIndex => 8 | JumpZeroOffset => 9
  | EOFCREATEInvalidIndex => 10 | CodeSectionOutOfBounds => 11 | CALLFNonReturningFunction => 12
  | StackOverflow => 13 | JUMPFEnoughOutputs => 14 | JUMPFStackHigherThanOutputs => 15
  | DataLoadOutOfBounds => 16 | RETFBiggestStackNumMoreThenOutputs => 17 | StackUnderflow => 18
  | TypesStackUnderflow => 19 | JumpUnderflow => 20 | JumpOverflow => 21
  | BackwardJumpBiggestNumMismatch => 22 | BackwardJumpSmallestNumMismatch => 23
  | LastInstructionNotTerminating => 24 | CodeSectionNotAccessed => 25 | VInvalidTypesSection => 26
  | InvalidFirstTypesSection => 27 | MaxStackMismatch => 28 | NoCodeSections => 29
  | SubContainerCalledInTwoModes => 30 | SubContainerNotAccessed => 31 | DataNotFilled => 32
  | NonReturningSectionIsReturning => 33
  end.

(* EofError = Decode d | Validation v; panics separate *)
Inductive vr (A : Type) := VOk (a : A) | VErrV (e : EofValidationError) | VErrD (e : EofDecodeError) | VPanic.
Arguments VOk {A} a. Arguments VErrV {A} e. Arguments VErrD {A} e. Arguments VPanic {A}.
Definition vbind {A B} (r : vr A) (f : A -> vr B) : vr B :=
  match r with VOk a => f a | VErrV e => VErrV e | VErrD e => VErrD e | VPanic => VPanic end.
Notation "'let+' x ':=' r 'in' k" := (vbind r (fun x => k))
  (at level 200, x name, r at level 100, k at level 200, right associativity).
Definition vidx {A} (o : option A) : vr A := match o with Some a => VOk a | None => VPanic end.

(* ---- opcode table ---- *)
Record OpInfo := mkOp { op_inputs : Z; op_outputs : Z; op_imm : Z; op_not_eof : bool; op_term : bool }.
Definition op_info (op : Z) : option OpInfo :=
  match nth_error eof_op_table (Z.to_nat op) with
  | Some (Some (i, o, m, ne, t)) => Some (mkOp i o m ne t)
  | _ => None
  end.

(* ---- per-byte analysis record ---- *)
Record Info := mkInfo { is_immediate : bool; is_jumpdest : bool; smallest : Z; biggest : Z }.
Definition i32_MAX := 2147483647.
Definition i32_MIN := -2147483648.
Definition info_default := mkInfo false false i32_MAX i32_MIN.

Definition nth_z {A} (l : list A) (i : Z) : option A :=
  if (0 <=? i) then nth_error l (Z.to_nat i) else None.
Fixpoint upd_nat {A} (l : list A) (n : nat) (x : A) : list A :=
  match l, n with
  | [], _ => []
  | _ :: r, O => x :: r
  | y :: r, S m => y :: upd_nat r m x
  end.
Definition upd_z {A} (l : list A) (i : Z) (x : A) : list A := upd_nat l (Z.to_nat i) x.

(* InstructionInfo::mark_as_immediate on jumps[j] for j = from .. from+cnt-1 *)
Fixpoint mark_immediates (jumps : list Info) (from : Z) (cnt : nat) : vr (list Info) :=
  match cnt with
  | O => VOk jumps
  | S c =>
    let+ inf := vidx (nth_z jumps from) in
    if is_jumpdest inf then VErrV JumpToImmediateBytes
    else mark_immediates (upd_z jumps from (mkInfo true (is_jumpdest inf) (smallest inf) (biggest inf)))
                         (from + 1) c
  end.

Definition read_u16_at (code : bytes) (i : Z) : vr Z :=
  let+ hi := vidx (get code i) in let+ lo := vidx (get code (i + 1)) in VOk (hi * 256 + lo).
Definition read_i16_at (code : bytes) (i : Z) : vr Z :=
  let+ u := read_u16_at code i in VOk (if u <? 32768 then u else u - 65536).

(* RJUMPV table: for vtablei in 0..len *)
Fixpoint rjumpv_targets (code : bytes) (i : Z) (add : Z) (v : Z) (cnt : nat) : vr (list Z) :=
  match cnt with
  | O => VOk []
  | S c =>
    let+ off := read_i16_at code (i + 2 + 2 * v) in
    let+ rest := rjumpv_targets code i add (v + 1) c in
    VOk ((off + i + 2 + add) :: rest)
  end.

(* ---- AccessTracker ---- *)
Record Tracker := mkTracker {
  this_type : option CodeType;
  codes : list bool;
  pstack : list Z;          (* processing_stack, top = head *)
  subs : list (option CodeType) }.

Definition tracker_new (t : option CodeType) (ncodes nsubs : nat) : vr Tracker :=
  match ncodes with
  | O => VPanic
  | S n => VOk (mkTracker t (true :: repeat false n) [0] (repeat None nsubs))
  end.

Definition access_code (tr : Tracker) (index : Z) : vr Tracker :=
  let+ was := vidx (nth_z (codes tr) index) in
  let cs := upd_z (codes tr) index true in
  VOk (mkTracker (this_type tr) cs (if was then pstack tr else index :: pstack tr) (subs tr)).

Definition set_subcontainer_type (tr : Tracker) (index : Z) (nt : CodeType) : vr Tracker :=
  let+ cur := vidx (nth_z (subs tr) index) in
  match cur with
  | None => VOk (mkTracker (this_type tr) (codes tr) (pstack tr) (upd_z (subs tr) index (Some nt)))
  | Some ct => if code_type_eqb ct nt then VOk tr else VErrV SubContainerCalledInTwoModes
  end.

(* this_container_code_type.get_or_insert(t) != t *)
Definition get_or_insert_differs (tr : Tracker) (t : CodeType) : Tracker * bool :=
  match this_type tr with
  | None => (mkTracker (Some t) (codes tr) (pstack tr) (subs tr), false)
  | Some c => (tr, negb (code_type_eqb c t))
  end.

Definition is_non_returning (t : TypesSection) : bool := outputs t =? 128.

(* ---- one instruction of validate_eof_code ---- *)
Record LoopState := mkLoop {
  l_i : Z; l_jumps : list Info; l_after_term : bool; l_next_smallest : Z; l_next_biggest : Z;
  l_returning : bool; l_tracker : Tracker }.

(* the [for absolute_jump in absolute_jumpdest] loop *)
Fixpoint process_jumps (jumps : list Info) (code_len i next_smallest next_biggest : Z) (targets : list Z)
  : vr (list Info) :=
  match targets with
  | [] => VOk jumps
  | a :: rest =>
    if a <? 0 then VErrV JumpUnderflow else
    if a >=? code_len then VErrV JumpOverflow else
    let+ tj := vidx (nth_z jumps a) in
    if is_immediate tj then VErrV BackwardJumpToImmediateBytes else
    if a <=? i then
      if negb (biggest tj =? next_biggest) then VErrV BackwardJumpBiggestNumMismatch else
      if negb (smallest tj =? next_smallest) then VErrV BackwardJumpSmallestNumMismatch else
      process_jumps (upd_z jumps a (mkInfo (is_immediate tj) true (smallest tj) (biggest tj)))
                    code_len i next_smallest next_biggest rest
    else
      process_jumps (upd_z jumps a (mkInfo (is_immediate tj) true (Z.min (smallest tj) next_smallest)
                                            (Z.max (biggest tj) next_biggest)))
                    code_len i next_smallest next_biggest rest
  end.

Definition step (code : bytes) (data_size : Z) (this_types : TypesSection) (num_of_containers : Z)
           (types : list TypesSection) (s : LoopState) : vr LoopState :=
  let i := l_i s in
  let code_len := len code in
  let+ op := vidx (get code i) in
  match op_info op with
  | None => VErrV UnknownOpcode
  | Some opcode =>
    if op_not_eof opcode then VErrV OpcodeDisabled else
    let+ ti0 := vidx (nth_z (l_jumps s) i) in
    let ti := if l_after_term s then ti0
              else mkInfo (is_immediate ti0) (is_jumpdest ti0)
                          (Z.min (smallest ti0) (l_next_smallest s)) (Z.max (biggest ti0) (l_next_biggest s)) in
    let jumps := upd_z (l_jumps s) i ti in
    if l_after_term s && negb (is_jumpdest ti) then VErrV InstructionNotForwardAccessed else
    let after_term := op_term opcode in
    let imm := op_imm opcode in
    let+ jumps :=
      (if negb (imm =? 0) then
         if i + imm >=? code_len then VErrV MissingImmediateBytes
         else mark_immediates jumps (i + 1) (Z.to_nat imm)
       else VOk jumps) in
    let io_diff := op_outputs opcode - op_inputs opcode in
    let req := op_inputs opcode in
    (* result of the big match: (jumps, stack_io_diff, stack_requirement, rjumpv_additional, targets, is_returning, tracker) *)
    let+ m :=
      (if (op =? OP_RJUMP) || (op =? OP_RJUMPI) then
         let+ off := read_i16_at code (i + 1) in
         VOk (jumps, io_diff, req, 0, [off + 3 + i], l_returning s, l_tracker s)
       else if op =? OP_RJUMPV then
         let+ max_index := vidx (get code (i + 1)) in
         let ln := max_index + 1 in
         let add := ln * 2 in
         if i + 1 + add >=? code_len then VErrV MissingRJUMPVImmediateBytes else
         let+ jumps := mark_immediates jumps (i + 2) (Z.to_nat add) in
         let+ tg := rjumpv_targets code i add 0 (Z.to_nat ln) in
         VOk (jumps, io_diff, req, add, tg, l_returning s, l_tracker s)
       else if op =? OP_CALLF then
         let+ section_i := read_u16_at code (i + 1) in
         match nth_z types section_i with
         | None => VErrV CodeSectionOutOfBounds
         | Some tgt =>
           if is_non_returning tgt then VErrV CALLFNonReturningFunction else
           let req := inputs tgt in
           let diff := outputs tgt - inputs tgt in
           let+ tr := access_code (l_tracker s) section_i in
           if biggest ti - req + max_stack_size tgt >? STACK_LIMIT then VErrV StackOverflow
           else VOk (jumps, diff, req, 0, [], l_returning s, tr)
         end
       else if op =? OP_JUMPF then
         let+ target_index := read_u16_at code (i + 1) in
         match nth_z types target_index with
         | None => VErrV CodeSectionOutOfBounds
         | Some tgt =>
           if biggest ti - inputs tgt + max_stack_size tgt >? STACK_LIMIT then VErrV StackOverflow else
           let+ tr := access_code (l_tracker s) target_index in
           if is_non_returning tgt then VOk (jumps, io_diff, inputs tgt, 0, [], l_returning s, tr)
           else
             if outputs this_types <? outputs tgt then VErrV JUMPFEnoughOutputs else
             let req := outputs this_types + inputs tgt - outputs tgt in
             if biggest ti >? req then VErrV JUMPFStackHigherThanOutputs else
             if biggest ti + req >? STACK_LIMIT then VErrV StackOverflow else
             VOk (jumps, io_diff, req, 0, [], true, tr)
         end
       else if op =? OP_EOFCREATE then
         let+ index := vidx (get code (i + 1)) in
         if index >=? num_of_containers then VErrV EOFCREATEInvalidIndex else
         let+ tr := set_subcontainer_type (l_tracker s) index ReturnContract in
         VOk (jumps, io_diff, req, 0, [], l_returning s, tr)
       else if op =? OP_RETURNCONTRACT then
         let+ index := vidx (get code (i + 1)) in
         if index >=? num_of_containers then VErrV EOFCREATEInvalidIndex else
         let '(tr, differs) := get_or_insert_differs (l_tracker s) ReturnContract in
         if differs then VErrV SubContainerCalledInTwoModes else
         let+ tr := set_subcontainer_type tr index ReturnOrStop in
         VOk (jumps, io_diff, req, 0, [], l_returning s, tr)
       else if (op =? OP_RETURN) || (op =? OP_STOP) then
         let '(tr, differs) := get_or_insert_differs (l_tracker s) ReturnOrStop in
         if differs then VErrV SubContainerCalledInTwoModes else
         VOk (jumps, io_diff, req, 0, [], l_returning s, tr)
       else if op =? OP_DATALOADN then
         let+ index := read_u16_at code (i + 1) in
         if (data_size <? 32) || (index >? data_size - 32) then VErrV DataLoadOutOfBounds
         else VOk (jumps, io_diff, req, 0, [], l_returning s, l_tracker s)
       else if op =? OP_RETF then
         let req := outputs this_types in
         if biggest ti >? req then VErrV RETFBiggestStackNumMoreThenOutputs
         else VOk (jumps, io_diff, req, 0, [], true, l_tracker s)
       else if op =? OP_DUPN then
         let+ n := vidx (get code (i + 1)) in
         VOk (jumps, io_diff, n + 1, 0, [], l_returning s, l_tracker s)
       else if op =? OP_SWAPN then
         let+ n := vidx (get code (i + 1)) in
         VOk (jumps, io_diff, n + 2, 0, [], l_returning s, l_tracker s)
       else if op =? OP_EXCHANGE then
         let+ im := vidx (get code (i + 1)) in
         VOk (jumps, io_diff, (im / 16 + 1) + (im mod 16 + 1) + 1, 0, [], l_returning s, l_tracker s)
       else VOk (jumps, io_diff, req, 0, [], l_returning s, l_tracker s)) in
    let '(jumps, diff, req, add, targets, returning, tr) := m in
    if req >? smallest ti then VErrV StackUnderflow else
    let next_smallest := smallest ti + diff in
    let next_biggest := biggest ti + diff in
    let+ jumps := process_jumps jumps code_len i next_smallest next_biggest targets in
    VOk (mkLoop (i + 1 + imm + add) jumps after_term next_smallest next_biggest returning tr)
  end.

Fixpoint code_loop (fuel : nat) (code : bytes) (data_size : Z) (this_types : TypesSection)
         (num_of_containers : Z) (types : list TypesSection) (s : LoopState) : vr LoopState :=
  if l_i s <? len code then
    match fuel with
    | O => VPanic (* cannot happen: every step advances i by at least 1 *)
    | S f => let+ s' := step code data_size this_types num_of_containers types s in
             code_loop f code data_size this_types num_of_containers types s'
    end
  else VOk s.

Definition validate_eof_code (code : bytes) (data_size : Z) (this_types_index : Z)
           (num_of_containers : Z) (types : list TypesSection) (tracker : Tracker) : vr Tracker :=
  let+ this_types := vidx (nth_z types this_types_index) in
  let s0 := mkLoop 0 (repeat info_default (length code)) false (inputs this_types) (inputs this_types) false tracker in
  let+ s := code_loop (length code) code data_size this_types num_of_containers types s0 in
  if Bool.eqb (l_returning s) (is_non_returning this_types) then VErrV NonReturningSectionIsReturning else
  if negb (l_after_term s) then VErrV LastInstructionNotTerminating else
  let max_req := fold_left (fun acc inf => Z.max (biggest inf) acc) (l_jumps s) 0 in
  if negb (max_req =? max_stack_size this_types) then VErrV MaxStackMismatch else
  VOk (l_tracker s).

(* the [while let Some(index) = tracker.processing_stack.pop()] loop *)
Fixpoint sections_loop (fuel : nat) (e : Eof) (tr : Tracker) : vr Tracker :=
  match pstack tr with
  | [] => VOk tr
  | index :: rest =>
    match fuel with
    | O => VPanic (* cannot happen: each section index is pushed at most once *)
    | S f =>
      let tr := mkTracker (this_type tr) (codes tr) rest (subs tr) in
      let+ code := vidx (nth_z (code_section (body e)) index) in
      let+ tr := validate_eof_code code (data_size (header e)) index
                   (len (container_section (body e))) (types_section (body e)) tr in
      sections_loop f e tr
    end
  end.

Fixpoint unwrap_all (l : list (option CodeType)) : option (list CodeType) :=
  match l with
  | [] => Some []
  | Some c :: r => match unwrap_all r with Some r' => Some (c :: r') | None => None end
  | None :: _ => None
  end.

Definition validate_eof_codes (e : Eof) (this_code_type : option CodeType) : vr (list CodeType) :=
  let b := body e in
  if negb (len (code_section b) =? len (types_section b)) then VErrV VInvalidTypesSection else
  if len (code_section b) =? 0 then VErrV NoCodeSections else
  let+ first_types := vidx (nth_z (types_section b) 0) in
  if negb (inputs first_types =? 0) || negb (is_non_returning first_types) then VErrV VInvalidTypesSection else
  let+ tr := tracker_new this_code_type (length (code_section b)) (length (container_section b)) in
  let+ tr := sections_loop (S (length (code_section b))) e tr in
  if negb (forallb (fun x => x) (codes tr)) then VErrV CodeSectionNotAccessed else
  match unwrap_all (subs tr) with
  | None => VErrV SubContainerNotAccessed
  | Some l =>
    if match this_type tr with Some ReturnContract => negb (is_data_filled b) | _ => false end
    then VErrV DataNotFilled else VOk l
  end.

(* validate_eof_inner: explicit stack of (container, code type); sub-containers are decoded *)
Fixpoint zip_push (conts : list bytes) (cts : list CodeType) (stack : list (Eof * option CodeType))
  : vr (list (Eof * option CodeType)) :=
  match conts, cts with
  | c :: cr, t :: tr =>
    match decode c with
    | Ok e => zip_push cr tr ((e, Some t) :: stack)
    | Err d => VErrD d
    | Panic => VPanic
    end
  | _, _ => VOk stack
  end.

Fixpoint containers_loop (fuel : nat) (stack : list (Eof * option CodeType)) : vr unit :=
  match stack with
  | [] => VOk tt
  | (e, ct) :: rest =>
    match fuel with
    | O => VPanic (* cannot happen: nested containers are strictly smaller, at most len(raw) of them *)
    | S f =>
      let+ cts := validate_eof_codes e ct in
      let+ stack := zip_push (container_section (body e)) cts rest in
      containers_loop f stack
    end
  end.

Definition validate_eof_inner (e : Eof) (first : option CodeType) : vr unit :=
  if negb (is_data_filled (body e)) then VErrV DataNotFilled else
  if len (container_section (body e)) =? 0 then
    let+ _ := validate_eof_codes e first in VOk tt
  else containers_loop (S (length (raw e))) [(e, first)].

Definition validate_raw_eof_inner_r (raw : bytes) (first : option CodeType) : vr unit :=
  if len raw >? MAX_INITCODE_SIZE then VErrD InvalidEOFSize else
  match decode raw with
  | Err d => VErrD d
  | Panic => VPanic
  | Ok e => validate_eof_inner e first
  end.

(* verdict code: 0 accepted, 100+d Decode(d), 200+v Validation(v) *)
Inductive vres := VKnown (code : Z) | VUnknown | VPanicked.
Definition validate_raw_eof_inner (raw : bytes) (first : option CodeType) : vres :=
  match validate_raw_eof_inner_r raw first with
  | VOk _ => VKnown 0
  | VErrD d => VKnown (100 + err_code d)
  | VErrV v => VKnown (200 + verr_code v)
  | VPanic => VPanicked
  end.
