(* Model of crates/primitives/src/utilities.rs: calc_excess_blob_gas, calc_blob_gasprice,
   fake_exponential (as repaired by the `fix:` commits: 256-bit checked intermediates, saturation
   to u128::MAX; excess widened to u128 and saturated to u64::MAX).
   U256 `*`, `+=` of ruint are wrapping (written [wrap256]); `checked_add`/`checked_mul` are
   [checked256] = option. The `while` loop is a fuelled recursion; [FeFuel] = fuel exhausted
   (Proofs/BlobProofs.v shows that [fe_fuel] iterations always suffice). *)
From RevmV Require Import Base.Word.
Local Open Scope Z_scope.

Definition checked256 (x : Z) : option Z := if is_u256 x then Some x else None.
Definition u128_max : Z := pow128 - 1.
Definition u64_max : Z := pow64 - 1.
(* Uint::saturating_to::<u128> *)
Definition saturating_to_u128 (x : Z) : Z := if x <? pow128 then x else u128_max.

(* constants of crates/primitives/src/constants.rs (pinned against the compiled code by the
   correspondence cases: calc_blob_gasprice is compared with fake_exponential on these) *)
Definition MIN_BLOB_GASPRICE : Z := 1.
Definition BLOB_BASE_FEE_UPDATE_FRACTION_CANCUN : Z := 3338477.
Definition BLOB_BASE_FEE_UPDATE_FRACTION_ELECTRA : Z := 5007716.

Inductive fe_out := FePanic | FeFuel | FeVal (v : Z).

(* one evaluation of the loop condition + body:
     while !numerator_accum.is_zero() {
        output = output.checked_add(numerator_accum)  or return u128::MAX
        numerator_accum = numerator_accum.checked_mul(numerator) / (denominator * i)  or return u128::MAX
        i += 1 }
     (output / denominator).saturating_to::<u128>() *)
Fixpoint fe_loop (fuel : nat) (numerator denominator i output accum : Z) : fe_out :=
  if accum =? 0 then FeVal (saturating_to_u128 (output / denominator)) else
  match fuel with
  | O => FeFuel
  | S k =>
    match checked256 (output + accum) with
    | None => FeVal u128_max
    | Some output' =>
      match checked256 (accum * numerator) with
      | None => FeVal u128_max
      | Some product =>
          fe_loop k numerator denominator (wrap256 (i + 1)) output'
                  (product / wrap256 (denominator * i))
      end
    end
  end.

Definition fe_fuel : nat := Z.to_nat 2048.

Definition fake_exponential_fuel (fuel : nat) (factor numerator denominator : Z) : fe_out :=
  if denominator =? 0 then FePanic (* assert_ne!(denominator, 0) *)
  else fe_loop fuel numerator denominator 1 0 (wrap256 (factor * denominator)).

Definition fake_exponential := fake_exponential_fuel fe_fuel.

Definition calc_blob_gasprice (excess_blob_gas : Z) (is_prague : bool) : fe_out :=
  fake_exponential MIN_BLOB_GASPRICE excess_blob_gas
    (if is_prague then BLOB_BASE_FEE_UPDATE_FRACTION_ELECTRA else BLOB_BASE_FEE_UPDATE_FRACTION_CANCUN).

(* sum = a as u128 + b as u128; excess = sum.saturating_sub(t as u128);
   u64::try_from(excess).unwrap_or(u64::MAX) *)
Definition calc_excess_blob_gas (parent_excess parent_used parent_target : Z) : Z :=
  let sum := parent_excess + parent_used in
  let excess := if sum <? parent_target then 0 else sum - parent_target in
  if excess <? pow64 then excess else u64_max.
