(* Executable model of the block-state database (crates/revm/src/db/states):
   cache_account.rs (CacheAccount and its transition methods), cache.rs
   (CacheState::apply_account_state / apply_evm_state), state.rs (State::load_cache_account,
   Database for State, increment_balances, drain_balances, DatabaseCommit).
   One function per Rust method, same order of checks; [unreachable!]/[expect]/[unwrap] = [None].
   The underlying database is a pair of finite maps and never fails. *)
From RevmV Require Export Model.AcctStatus.
Local Open Scope Z_scope.

Definition pow128 : Z := 340282366920938463463374607431768211456.
Definition max256 : Z :=
  115792089237316195423570985008687907853269984665640564039457584007913129639935.

(* ---- finite maps as association lists, first match wins *)
Fixpoint aget {A} (k : Z) (m : list (Z * A)) : option A :=
  match m with
  | [] => None
  | (k', v) :: r => if k =? k' then Some v else aget k r
  end.
Definition aset {A} (k : Z) (v : A) (m : list (Z * A)) : list (Z * A) := (k, v) :: m.

Definition smap := list (Z * Z).            (* PlainStorage *)
Definition sget (k : Z) (m : smap) : option Z := aget k m.

Record plain := mkPlain { p_info : info; p_storage : smap }.          (* PlainAccount *)
Record cacc := mkCacc { ca_account : option plain; ca_status : status }. (* CacheAccount *)

(* one storage slot of the EVM output / StorageSlot with its original value *)
Record eslot := mkSlot { s_key : Z; s_orig : Z; s_present : Z }.
(* primitives::Account as seen by apply_account_state *)
Record eacc := mkEacc { e_info : info; e_storage : list eslot;
                        e_touched : bool; e_created : bool; e_selfdestructed : bool }.

(* TransitionAccount, as produced *)
Record transition_account := mkTrans {
  t_info : option info; t_status : status; t_prev_info : option info; t_prev_status : status;
  t_storage : list eslot; t_wipe : bool }.

Definition slot_changed (s : eslot) : bool := negb (s_orig s =? s_present s).
Definition changed_slots (l : list eslot) : list eslot := filter slot_changed l.
Definition present_map (l : list eslot) : smap := map (fun s => (s_key s, s_present s)) l.
Definition opt_info (c : cacc) : option info := option_map p_info (ca_account c).

(* ---- constructors *)
Definition new_loaded (i : info) (st : smap) := mkCacc (Some (mkPlain i st)) Loaded.
Definition new_loaded_empty_eip161 (st : smap) := mkCacc (Some (mkPlain info_default st)) LoadedEmptyEIP161.
Definition new_loaded_not_existing := mkCacc None LoadedNotExisting.

(* ---- CacheAccount::touch_create_pre_eip161 *)
Definition touch_create_pre_eip161 (c : cacc) (st : list eslot)
  : option (cacc * option transition_account) :=
  let had_no_info := match ca_account c with Some p => info_is_empty (p_info p) | None => false end in
  match on_touched_created_pre_eip161 (ca_status c) had_no_info with
  | None => None
  | Some None => Some (c, None)
  | Some (Some s') =>
    Some (mkCacc (Some (mkPlain info_default (present_map st))) s',
          Some (mkTrans (Some info_default) s' (opt_info c) (ca_status c) st false))
  end.

(* ---- CacheAccount::touch_empty_eip161 *)
Definition touch_empty_eip161 (c : cacc) : option (cacc * option transition_account) :=
  match on_touched_empty_post_eip161 (ca_status c) with
  | None => None
  | Some s' =>
    Some (mkCacc None s',
          match ca_status c with
          | LoadedNotExisting | Destroyed | DestroyedAgain => None
          | _ => Some (mkTrans None s' (opt_info c) (ca_status c) [] true)
          end)
  end.

(* ---- CacheAccount::selfdestruct *)
Definition selfdestruct (c : cacc) : cacc * option transition_account :=
  let s' := on_selfdestructed (ca_status c) in
  (mkCacc None s',
   match ca_status c with
   | LoadedNotExisting => None
   | _ => Some (mkTrans None s' (opt_info c) (ca_status c) [] true)
   end).

(* ---- CacheAccount::newly_created *)
Definition newly_created (c : cacc) (new_info : info) (st : list eslot) : cacc * transition_account :=
  let s' := on_created (ca_status c) in
  (mkCacc (Some (mkPlain new_info (present_map st))) s',
   mkTrans (Some new_info) s' (opt_info c) (ca_status c) st false).

(* ---- CacheAccount::account_info_change (private helper of increment/drain) *)
Definition account_info_change (c : cacc) (f : info -> info) : cacc * transition_account :=
  let prev := opt_info c in
  let acct := match ca_account c with Some p => p | None => mkPlain info_default [] end in
  let i' := f (p_info acct) in
  let had := match prev with Some i => has_no_code_and_nonce i | None => false end in
  let s' := on_changed (ca_status c) had in
  (mkCacc (Some (mkPlain i' (p_storage acct))) s',
   mkTrans (Some i') s' prev (ca_status c) [] false).

Definition set_balance (i : info) (b : Z) : info := mkInfo b (i_nonce i) (i_code_hash i) (i_code i).
(* balance.saturating_add(U256::from(n)) *)
Definition add_balance_sat (i : info) (n : Z) : info := set_balance i (Z.min (i_balance i + n) max256).

(* ---- CacheAccount::increment_balance: None = "no transition" (amount 0) *)
Definition increment_balance (c : cacc) (n : Z) : option (cacc * transition_account) :=
  if n =? 0 then None else Some (account_info_change c (fun i => add_balance_sat i n)).

(* ---- CacheAccount::drain_balance: the u128 conversion [unwrap]s *)
Definition drain_balance (c : cacc) : option (Z * (cacc * transition_account)) :=
  let bal := match ca_account c with Some p => i_balance (p_info p) | None => 0 end in
  if bal <? pow128 then Some (bal, account_info_change c (fun i => set_balance i 0)) else None.

(* ---- CacheAccount::change *)
Definition change (c : cacc) (new : info) (st : list eslot) : cacc * transition_account :=
  let prev := opt_info c in
  let this_storage := match ca_account c with Some p => p_storage p | None => [] end in
  let had := match prev with Some i => has_no_code_and_nonce i | None => false end in
  let s' := on_changed (ca_status c) had in
  (mkCacc (Some (mkPlain new (present_map st ++ this_storage))) s',
   mkTrans (Some new) s' prev (ca_status c) st false).

(* ---- CacheState::apply_account_state on an account that is present in the cache *)
Definition apply_account_state (clear : bool) (c : cacc) (e : eacc)
  : option (cacc * option transition_account) :=
  if negb (e_touched e) then Some (c, None)
  else if e_selfdestructed e then Some (selfdestruct c)
  else
    let ch := changed_slots (e_storage e) in
    if e_created e then
      let '(c', t) := newly_created c (e_info e) ch in Some (c', Some t)
    else if info_is_empty (e_info e) then
      (if clear then touch_empty_eip161 c else touch_create_pre_eip161 c ch)
    else let '(c', t) := change c (e_info e) ch in Some (c', Some t).

(* ---- reading one cached account (Database for State, per account).
   [ds] answers the underlying database's storage query for this address. *)
Definition cacc_basic (c : cacc) : option info := opt_info c.
Definition cacc_storage (ds : Z -> Z) (c : cacc) (k : Z) : cacc * Z :=
  match ca_account c with
  | None => (c, 0)
  | Some p =>
    match sget k (p_storage p) with
    | Some v => (c, v)
    | None =>
      let v := if is_storage_known (ca_status c) then 0 else ds k in
      (mkCacc (Some (mkPlain (p_info p) ((k, v) :: p_storage p))) (ca_status c), v)
    end
  end.

(* ---- BundleAccount (only what State reads: info, storage with present values, status) and
   From<BundleAccount> for CacheAccount *)
Record bacc := mkBacc { b_info : option info; b_storage : list eslot; b_status : status }.
Definition cacc_of_bundle (b : bacc) : cacc :=
  mkCacc (option_map (fun i => mkPlain i (present_map (b_storage b))) (b_info b)) (b_status b).

(* ---- the underlying database *)
Record dbacc := mkDbAcc { d_info : info; d_storage : smap }.
Record db := mkDb { db_accounts : list (Z * dbacc); db_contracts : list (Z * Z) }.
Definition db_basic (D : db) (a : Z) : option info := option_map d_info (aget a (db_accounts D)).
Definition db_storage (D : db) (a k : Z) : Z :=
  match aget a (db_accounts D) with
  | Some d => match sget k (d_storage d) with Some v => v | None => 0 end
  | None => 0
  end.
(* unknown hashes answer Bytecode::default() (EmptyDB at the bottom) *)
Definition db_code (D : db) (h : Z) : Z :=
  match sget h (db_contracts D) with Some c => c | None => 1 end.

(* ---- State *)
Record state := mkState {
  st_accounts : list (Z * cacc);          (* cache.accounts *)
  st_contracts : list (Z * Z);            (* cache.contracts *)
  st_clear : bool;                        (* cache.has_state_clear *)
  st_db : db;                             (* database *)
  st_use_bundle : bool;                   (* use_preloaded_bundle *)
  st_bundle : list (Z * bacc);            (* bundle_state.state (prestate) *)
  st_bundle_contracts : list (Z * Z) }.   (* bundle_state.contracts *)

Definition state_new (D : db) (clear : bool) : state := mkState [] [] clear D false [] [].
Definition state_with_bundle (D : db) (clear : bool) (b : list (Z * bacc)) (bc : list (Z * Z)) : state :=
  mkState [] [] clear D true b bc.

Definition with_accounts (s : state) (m : list (Z * cacc)) : state :=
  mkState m (st_contracts s) (st_clear s) (st_db s) (st_use_bundle s) (st_bundle s) (st_bundle_contracts s).
Definition with_contracts (s : state) (m : list (Z * Z)) : state :=
  mkState (st_accounts s) m (st_clear s) (st_db s) (st_use_bundle s) (st_bundle s) (st_bundle_contracts s).
Definition set_state_clear_flag (s : state) (b : bool) : state :=
  mkState (st_accounts s) (st_contracts s) b (st_db s) (st_use_bundle s) (st_bundle s) (st_bundle_contracts s).

(* what a vacant cache entry is filled with *)
Definition load_from_db (D : db) (a : Z) : cacc :=
  match db_basic D a with
  | None => new_loaded_not_existing
  | Some i => if info_is_empty i then new_loaded_empty_eip161 [] else new_loaded i []
  end.
Definition load_fresh (s : state) (a : Z) : cacc :=
  match (if st_use_bundle s then aget a (st_bundle s) else None) with
  | Some b => cacc_of_bundle b
  | None => load_from_db (st_db s) a
  end.

(* State::load_cache_account *)
Definition load_cache_account (s : state) (a : Z) : state * cacc :=
  match aget a (st_accounts s) with
  | Some c => (s, c)
  | None => let c := load_fresh s a in (with_accounts s (aset a c (st_accounts s)), c)
  end.

(* Database::basic *)
Definition st_basic (s : state) (a : Z) : state * option info :=
  let '(s', c) := load_cache_account s a in (s', cacc_basic c).

(* Database::storage: [None] = unreachable! (account not loaded beforehand) *)
Definition st_storage (s : state) (a k : Z) : option (state * Z) :=
  match aget a (st_accounts s) with
  | None => None
  | Some c =>
    let '(c', v) := cacc_storage (db_storage (st_db s) a) c k in
    Some (with_accounts s (aset a c' (st_accounts s)), v)
  end.

(* Database::code_by_hash *)
Definition st_code_by_hash (s : state) (h : Z) : state * Z :=
  match sget h (st_contracts s) with
  | Some c => (s, c)
  | None =>
    match (if st_use_bundle s then sget h (st_bundle_contracts s) else None) with
    | Some c => (with_contracts s (aset h c (st_contracts s)), c)
    | None => let c := db_code (st_db s) h in (with_contracts s (aset h c (st_contracts s)), c)
    end
  end.

(* CacheState::apply_evm_state + State::commit. [None] = a touched account is not in the
   cache ("All accounts should be present inside cache") or a status cell panicked. *)
Fixpoint apply_evm_state (clear : bool) (m : list (Z * cacc)) (l : list (Z * eacc))
  : option (list (Z * cacc) * list (Z * transition_account)) :=
  match l with
  | [] => Some (m, [])
  | (a, e) :: r =>
    if negb (e_touched e) then apply_evm_state clear m r
    else
      match aget a m with
      | None => None
      | Some c =>
        match apply_account_state clear c e with
        | None => None
        | Some (c', t) =>
          match apply_evm_state clear (aset a c' m) r with
          | None => None
          | Some (m', ts) => Some (m', match t with Some t => (a, t) :: ts | None => ts end)
          end
        end
      end
  end.
Definition st_commit (s : state) (l : list (Z * eacc)) : option (state * list (Z * transition_account)) :=
  match apply_evm_state (st_clear s) (st_accounts s) l with
  | None => None
  | Some (m, ts) => Some (with_accounts s m, ts)
  end.

(* State::increment_balances *)
Fixpoint st_increment_balances (s : state) (l : list (Z * Z))
  : state * list (Z * transition_account) :=
  match l with
  | [] => (s, [])
  | (a, n) :: r =>
    if n =? 0 then st_increment_balances s r
    else
      let '(s1, c) := load_cache_account s a in
      match increment_balance c n with
      | None => st_increment_balances s1 r  (* not reachable: n <> 0 *)
      | Some (c', t) =>
        let '(s2, ts) := st_increment_balances (with_accounts s1 (aset a c' (st_accounts s1))) r in
        (s2, (a, t) :: ts)
      end
  end.

(* State::drain_balances *)
Fixpoint st_drain_balances (s : state) (l : list Z)
  : option (state * list Z * list (Z * transition_account)) :=
  match l with
  | [] => Some (s, [], [])
  | a :: r =>
    let '(s1, c) := load_cache_account s a in
    match drain_balance c with
    | None => None
    | Some (b, (c', t)) =>
      match st_drain_balances (with_accounts s1 (aset a c' (st_accounts s1))) r with
      | None => None
      | Some (s2, bs, ts) => Some (s2, b :: bs, (a, t) :: ts)
      end
    end
  end.

(* ---- histories on a State *)
Inductive sop :=
| OBasic (a : Z) | OStorage (a k : Z) | OCode (h : Z)
| OCommit (l : list (Z * eacc)) | OIncr (l : list (Z * Z)) | ODrain (l : list Z)
| OSetClear (b : bool).
Inductive sres :=
| RInfo (o : option info) | RVal (v : Z) | RUnit
| RTrans (ts : list (Z * transition_account)) | RDrained (bs : list Z) (ts : list (Z * transition_account)).

Definition st_step (s : state) (o : sop) : option (state * sres) :=
  match o with
  | OBasic a => let '(s', r) := st_basic s a in Some (s', RInfo r)
  | OStorage a k => match st_storage s a k with Some (s', v) => Some (s', RVal v) | None => None end
  | OCode h => let '(s', c) := st_code_by_hash s h in Some (s', RVal c)
  | OCommit l => match st_commit s l with Some (s', ts) => Some (s', RTrans ts) | None => None end
  | OIncr l => let '(s', ts) := st_increment_balances s l in Some (s', RTrans ts)
  | ODrain l => match st_drain_balances s l with Some (s', bs, ts) => Some (s', RDrained bs ts) | None => None end
  | OSetClear b => Some (set_state_clear_flag s b, RUnit)
  end.

(* ---- histories on one cached account (the per-account view used by the proofs) *)
Inductive aop :=
| ACommit (clear : bool) (e : eacc) | AIncr (n : Z) | ADrain | AStorage (k : Z) | ABasic.

Definition acc_step (ds : Z -> Z) (c : cacc) (o : aop) : option cacc :=
  match o with
  | ACommit clear e => option_map fst (apply_account_state clear c e)
  | AIncr n => match increment_balance c n with Some (c', _) => Some c' | None => Some c end
  | ADrain => match drain_balance c with Some (_, (c', _)) => Some c' | None => None end
  | AStorage k => Some (fst (cacc_storage ds c k))
  | ABasic => Some c
  end.
Fixpoint acc_run (ds : Z -> Z) (c : cacc) (h : list aop) : option cacc :=
  match h with
  | [] => Some c
  | o :: r => match acc_step ds c o with Some c' => acc_run ds c' r | None => None end
  end.
