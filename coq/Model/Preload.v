(* C19: a State built with a preloaded bundle versus a State built over the database with the
   bundle's changeset applied.
   Preloaded side: State::load_cache_account / code_by_hash with [use_preloaded_bundle]
   (Model/StateDb.v: [load_fresh], [st_code_by_hash], [cacc_of_bundle] = From<BundleAccount>).
   Merged side: [apply_bundle_db] = the database update described by
   BundleState::to_plain_state(OriginalValuesKnown::No): every bundle account writes its info
   (None removes the account), wipes the storage when its status says destroyed, writes every
   slot's present value; contracts are inserted (the empty-code hash is skipped). *)
From RevmV Require Export Model.AcctStatus Model.StateDb.
Local Open Scope Z_scope.

Definition apply_bundle_acc (d : option dbacc) (b : bacc) : option dbacc :=
  match b_info b with
  | None => None
  | Some i =>
    Some (mkDbAcc i (present_map (b_storage b) ++
                     (if was_destroyed (b_status b) then []
                      else match d with Some d => d_storage d | None => [] end)))
  end.

Definition has_key {A} (a : Z) (m : list (Z * A)) : bool :=
  match aget a m with Some _ => true | None => false end.

(* first occurrence of every address of the bundle *)
Fixpoint bundle_accounts (D : db) (seen : list Z) (B : list (Z * bacc)) : list (Z * dbacc) :=
  match B with
  | [] => []
  | (a, b) :: r =>
    if existsb (Z.eqb a) seen then bundle_accounts D seen r
    else match apply_bundle_acc (aget a (db_accounts D)) b with
         | Some d' => (a, d') :: bundle_accounts D (a :: seen) r
         | None => bundle_accounts D (a :: seen) r
         end
  end.

Definition apply_bundle_db (D : db) (B : list (Z * bacc)) (Bc : list (Z * Z)) : db :=
  mkDb (bundle_accounts D [] B ++ filter (fun ad => negb (has_key (fst ad) B)) (db_accounts D))
       (filter (fun hc => negb (fst hc =? KECCAK_EMPTY)) Bc ++ db_contracts D).

(* what the merged database answers for one address *)
Definition merged_acc (D : db) (B : list (Z * bacc)) (a : Z) : option dbacc :=
  match aget a B with
  | Some b => apply_bundle_acc (aget a (db_accounts D)) b
  | None => aget a (db_accounts D)
  end.
