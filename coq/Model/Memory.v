(* Model of crates/interpreter/src/interpreter/shared_memory.rs (struct SharedMemory),
   interpreter.rs::resize_memory, the resize_memory! macro (instructions/macros.rs),
   gas/calc.rs::memory_gas (as it is now: 128-bit square) and the return-data window of
   Interpreter::insert_call_outcome.

   The Vec<u8> is [buf] (the live part, length = Vec::len) plus [stale]: the bytes physically
   left behind the length by [set_len] in free_context (what a later resize would find in the
   allocation).  Vec::resize writes zeros over them; the model keeps them to state that they
   can never be observed.  usize/u64 arithmetic that can overflow, and the debug_unreachable!
   / slice-index panics, are the [true] flag of [mres] (state unchanged). *)
From RevmV Require Import Base.Word.
Local Open Scope Z_scope.

Record smem := mkM { buf : list Z; stale : list Z; cps : list Z; last_cp : Z }.
Definition mres := (smem * bool)%type. (* bool: panicked *)

Definition zlen (l : list Z) : Z := Z.of_nat (length l).
Definition zfirstn (n : Z) (l : list Z) : list Z := firstn (Z.to_nat n) l.
Definition zskipn (n : Z) (l : list Z) : list Z := skipn (Z.to_nat n) l.
Definition zeros (n : Z) : list Z := repeat 0 (Z.to_nat n).

Definition mem_new : smem := mkM [] [] [] 0.
Definition blen (m : smem) : Z := zlen (buf m).
(* pub fn len: self.buffer.len() - self.last_checkpoint *)
Definition mlen (m : smem) : Z := blen m - last_cp m.
(* context_memory: buffer[last_checkpoint .. len] *)
Definition ctx (m : smem) : list Z := zskipn (last_cp m) (buf m).

(* new_context: checkpoints.push(buffer.len()); last_checkpoint = buffer.len() *)
Definition new_context (m : smem) : smem :=
  mkM (buf m) (stale m) (cps m ++ [blen m]) (blen m).

(* free_context: if let Some(old) = checkpoints.pop() { last_checkpoint =
   checkpoints.last().unwrap_or_default(); buffer.set_len(old) } *)
Definition free_context (m : smem) : smem :=
  match cps m with
  | [] => m
  | _ => let old := last (cps m) 0 in
         let cps' := removelast (cps m) in
         mkM (zfirstn old (buf m)) (zskipn old (buf m) ++ stale m) cps' (last cps' 0)
  end.

(* resize: buffer.resize(last_checkpoint + new_size, 0): truncate, or append zeros (which
   overwrite whatever the allocation held there) *)
Definition resize (m : smem) (new_size : Z) : smem :=
  let target := last_cp m + new_size in
  if target <=? blen m
  then mkM (zfirstn target (buf m)) (zskipn target (buf m) ++ stale m) (cps m) (last_cp m)
  else mkM (buf m ++ zeros (target - blen m)) (zskipn (target - blen m) (stale m)) (cps m) (last_cp m).

(* slice_mut(offset, size).copy_from_slice(v): [offset + size] is a usize addition; out of
   bounds is debug_unreachable! *)
Definition write (m : smem) (off : Z) (v : list Z) : mres :=
  if (0 <=? off) && (off + zlen v <? pow64) && (off + zlen v <=? mlen m) then
    let a := last_cp m + off in
    (mkM (zfirstn a (buf m) ++ v ++ zskipn (a + zlen v) (buf m)) (stale m) (cps m) (last_cp m), false)
  else (m, true).

(* slice(offset, size) *)
Definition slice (m : smem) (off size : Z) : option (list Z) :=
  if (0 <=? off) && (0 <=? size) && (off + size <? pow64) && (off + size <=? mlen m)
  then Some (zfirstn size (zskipn off (ctx m))) else None.

(* set: if !value.is_empty() { slice_mut(..).copy_from_slice(value) } *)
Definition set (m : smem) (off : Z) (v : list Z) : mres :=
  match v with [] => (m, false) | _ => write m off v end.

Definition be_bytes (bs : list Z) : Z := fold_left (fun a b => a * 256 + b) bs 0.
(* U256::to_be_bytes::<32>() *)
Definition to_be32 (v : Z) : list Z :=
  map (fun i => Z.land (Z.shiftr v (8 * (31 - Z.of_nat i))) 255) (seq 0 32).
Definition set_byte (m : smem) (off b : Z) : mres := set m off [b].
Definition set_word (m : smem) (off : Z) (w32 : list Z) : mres := set m off w32.
Definition set_u256 (m : smem) (off v : Z) : mres := set m off (to_be32 v).
Definition get_byte (m : smem) (off : Z) : option Z :=
  match slice m off 1 with Some [b] => Some b | _ => None end.
Definition get_word (m : smem) (off : Z) : option (list Z) := slice m off 32.
Definition get_u256 (m : smem) (off : Z) : option Z :=
  match slice m off 32 with Some w => Some (be_bytes w) | None => None end.

(* set_data(memory_offset, data_offset, len, data) — three branches *)
Definition set_data (m : smem) (moff doff len : Z) (data : list Z) : mres :=
  if doff >=? zlen data then write m moff (zeros len)       (* nullify all *)
  else
    let data_end := Z.min (doff + len) (zlen data) in
    let data_len := data_end - doff in
    let '(m1, p1) := write m moff (zfirstn data_len (zskipn doff data)) in
    if p1 then (m1, true)
    else write m1 (moff + data_len) (zeros (len - data_len)).   (* nullify the rest *)

(* copy(dst, src, len): context_memory_mut().copy_within(src..src+len, dst) *)
Definition copy (m : smem) (dst src len : Z) : mres :=
  match slice m src len with
  | Some v => if (0 <=? dst) && (dst + len <=? mlen m) then write m dst v else (m, true)
  | None => (m, true)
  end.

(* ---------------------------------------------------------------- gas *)
(* num_words(len) = len.saturating_add(31) / 32 *)
Definition num_words (len : Z) : Z := sat64 (len + 31) / 32.
Definition MEMORY : Z := 3.
(* memory_gas: quadratic = (w as u128 * w as u128) / 512, clamped to u64::MAX;
   MEMORY.saturating_mul(w).saturating_add(quadratic) *)
Definition memory_gas (w : Z) : Z :=
  let q := (w * w) / 512 in
  let q := if q >? pow64 - 1 then pow64 - 1 else q in
  sat64 (sat64 (MEMORY * w) + q).
Definition memory_gas_for_len (len : Z) : Z := memory_gas (num_words len).
Definition current_expansion_cost (m : smem) : Z := memory_gas_for_len (mlen m).

(* interpreter.rs::resize_memory(memory, gas, new_size) -> bool; [gas] is Gas::remaining,
   record_cost fails without change when cost > remaining.  [new_cost - current_cost] is a u64
   subtraction ([None] = would underflow: panic/wrap) *)
Definition resize_memory (m : smem) (gas : Z) (new_size : Z) : option (smem * Z * bool) :=
  let new_words := num_words new_size in
  let new_cost := memory_gas new_words in
  let current_cost := current_expansion_cost m in
  let cost := new_cost - current_cost in
  if cost <? 0 then None
  else if cost <=? gas then Some (resize m (new_words * 32), gas - cost, true)
  else Some (m, gas, false).

(* resize_memory!(interp, offset, len): new_size = offset.saturating_add(len);
   if new_size > memory.len() { if !resize_memory(..) { MemoryOOG } } *)
Definition MemoryOOG : Z := 81. (* 0x51 *)
Definition resize_macro (m : smem) (gas off len : Z) : option (smem * Z * Z) :=
  let new_size := sat64 (off + len) in
  if new_size >? mlen m then
    match resize_memory m gas new_size with
    | None => None
    | Some (m', g', true) => Some (m', g', 0)
    | Some (m', g', false) => Some (m', g', MemoryOOG)
    end
  else Some (m, gas, 0).

(* insert_call_outcome: target_len = min(out_len, return_data.len());
   shared_memory.set(out_offset, &return_data[..target_len]) (for ok and revert results) *)
Definition insert_call_outcome_mem (m : smem) (out_off out_len : Z) (ret : list Z) : mres :=
  set m out_off (zfirstn (Z.min out_len (zlen ret)) ret).

(* ---------------------------------------------------------------- histories *)
Inductive mem_op :=
| MNew | MFree | MResize (n : Z) | MSet (off : Z) (v : list Z) | MSetByte (off b : Z)
| MSetWord (off : Z) (w : list Z) | MSetU256 (off v : Z) | MSetData (moff doff len : Z) (data : list Z)
| MCopy (dst src len : Z) | MOutcome (out_off out_len : Z) (ret : list Z).

Definition mem_step (m : smem) (o : mem_op) : mres :=
  match o with
  | MNew => (new_context m, false)
  | MFree => (free_context m, false)
  | MResize n => (resize m n, false)
  | MSet off v => set m off v
  | MSetByte off b => set_byte m off b
  | MSetWord off w => set_word m off w
  | MSetU256 off v => set_u256 m off v
  | MSetData a b c d => set_data m a b c d
  | MCopy d s l => copy m d s l
  | MOutcome o l r => insert_call_outcome_mem m o l r
  end.

(* A frame's life as a tree: operations of the frame itself and complete child frames
   (new_context ... free_context), which is exactly how the EVM drives SharedMemory. *)
Inductive hist :=
| HNil
| HOp (o : mem_op) (rest : hist)      (* o is not MNew / MFree *)
| HCall (child : hist) (rest : hist).

Fixpoint run (m : smem) (h : hist) : smem :=
  match h with
  | HNil => m
  | HOp o r => run (fst (mem_step m o)) r
  | HCall c r => run (free_context (run (new_context m) c)) r
  end.

Fixpoint hist_ok (h : hist) : Prop :=
  match h with
  | HNil => True
  | HOp o r => o <> MNew /\ o <> MFree /\ (forall n, o = MResize n -> 0 <= n) /\ hist_ok r
  | HCall c r => hist_ok c /\ hist_ok r
  end.

Fixpoint flatten (h : hist) : list mem_op :=
  match h with
  | HNil => []
  | HOp o r => o :: flatten r
  | HCall c r => MNew :: flatten c ++ MFree :: flatten r
  end.
Definition run_flat (m : smem) (l : list mem_op) : smem :=
  fold_left (fun m o => fst (mem_step m o)) l m.
