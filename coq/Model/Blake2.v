(* BLAKE2b compression function F (RFC 7693 section 3.2) with a variable number of rounds,
   as used by EIP-152.  Executable specification over 64-bit words in Z. *)
From RevmV Require Export Base.PBytes.
Local Open Scope Z_scope.

Definition m64 : Z := 18446744073709551615.
Definition add64 (a b : Z) : Z := Z.land (a + b) m64.
Definition rotr64 (x n : Z) : Z := Z.lor (Z.shiftr x n) (Z.land (Z.shiftl x (64 - n)) m64).

Definition b2_sigma : list (list nat) :=
 [[0;1;2;3;4;5;6;7;8;9;10;11;12;13;14;15];
  [14;10;4;8;9;15;13;6;1;12;0;2;11;7;5;3];
  [11;8;12;0;5;2;15;13;10;14;3;6;7;1;9;4];
  [7;9;3;1;13;12;11;14;2;6;5;10;4;0;15;8];
  [9;0;5;7;2;4;10;15;14;1;11;12;6;8;3;13];
  [2;12;6;10;0;11;8;3;4;13;7;5;15;14;1;9];
  [12;5;1;15;14;13;4;10;0;7;6;3;9;2;8;11];
  [13;11;7;14;12;1;3;9;5;0;15;4;8;6;2;10];
  [6;15;14;9;11;3;0;8;12;2;13;7;1;4;10;5];
  [10;2;8;4;7;6;1;5;15;11;9;14;3;12;13;0]]%nat.
Definition b2_iv : list Z :=
 [0x6a09e667f3bcc908; 0xbb67ae8584caa73b; 0x3c6ef372fe94f82b; 0xa54ff53a5f1d36f1;
  0x510e527fade682d1; 0x9b05688c2b3e6c1f; 0x1f83d9abfb41bd6b; 0x5be0cd19137e2179].

Fixpoint set_nth (i : nat) (x : Z) (l : list Z) : list Z :=
  match l, i with
  | [], _ => []
  | _ :: r, O => x :: r
  | y :: r, S k => y :: set_nth k x r
  end.

(* mixing function G (RFC 7693 3.1), rotations 32, 24, 16, 63 *)
Definition b2_G (v : list Z) (a b c d : nat) (x y : Z) : list Z :=
  let va := nth a v 0 in let vb := nth b v 0 in let vc := nth c v 0 in let vd := nth d v 0 in
  let va := add64 (add64 va vb) x in
  let vd := rotr64 (Z.lxor vd va) 32 in
  let vc := add64 vc vd in
  let vb := rotr64 (Z.lxor vb vc) 24 in
  let va := add64 (add64 va vb) y in
  let vd := rotr64 (Z.lxor vd va) 16 in
  let vc := add64 vc vd in
  let vb := rotr64 (Z.lxor vb vc) 63 in
  set_nth a va (set_nth b vb (set_nth c vc (set_nth d vd v))).

Definition b2_round (m : list Z) (s : list nat) (v : list Z) : list Z :=
  let ms i := nth (nth i s O) m 0 in
  let v := b2_G v 0 4 8 12 (ms 0%nat) (ms 1%nat) in
  let v := b2_G v 1 5 9 13 (ms 2%nat) (ms 3%nat) in
  let v := b2_G v 2 6 10 14 (ms 4%nat) (ms 5%nat) in
  let v := b2_G v 3 7 11 15 (ms 6%nat) (ms 7%nat) in
  let v := b2_G v 0 5 10 15 (ms 8%nat) (ms 9%nat) in
  let v := b2_G v 1 6 11 12 (ms 10%nat) (ms 11%nat) in
  let v := b2_G v 2 7 8 13 (ms 12%nat) (ms 13%nat) in
  b2_G v 3 4 9 14 (ms 14%nat) (ms 15%nat).

(* rounds are numbered 0 .. r-1; round i uses SIGMA[i mod 10]; [n] = rounds still to do *)
Fixpoint b2_rounds (n : nat) (i : nat) (m v : list Z) : list Z :=
  match n with
  | O => v
  | S k => b2_rounds k (S i) m (b2_round m (nth (i mod 10) b2_sigma []) v)
  end.

Definition b2_F (rounds : nat) (h m : list Z) (t0 t1 : Z) (final : bool) : list Z :=
  let v := h ++ b2_iv in
  let v := set_nth 12 (Z.lxor (nth 12 v 0) t0) v in
  let v := set_nth 13 (Z.lxor (nth 13 v 0) t1) v in
  let v := if final then set_nth 14 (Z.lxor (nth 14 v 0) m64) v else v in
  let v := b2_rounds rounds 0 m v in
  map (fun i => Z.lxor (Z.lxor (nth i h 0) (nth i v 0)) (nth (i + 8) v 0)) (seq 0 8).

(* EIP-152 test vector 5 (12 rounds, "abc", final) *)
Example b2_F_eip152_vector5 :
  flat_map (Z_to_le 8)
   (b2_F 12 (map le_to_Z (chunks 8 (Z_to_be 64 0x48c9bdf267e6096a3ba7ca8485ae67bb2bf894fe72f36e3cf1361d5f3af54fa5d182e6ad7f520e511f6c3e2b8c68059b6bbd41fbabd9831f79217e1319cde05b)))
              (0x636261 :: map (fun _ => 0) (seq 0 15)) 3 0 true)
  = Z_to_be 64 0xba80a53f981c4d0d6a2797b69f12f6e94c212f14685ac4b74b12bb6fdbffa2d17d87c5392aab792dc252d5de4533cc9518d38aa8dbf1925ab92386edd4009923.
Proof. vm_compute. reflexivity. Qed.
