(* Model of the inspector wiring of crates/revm/src/inspector/handler_register.rs
   (inspector_handle_register) together with the frame loop of crates/revm/src/evm.rs
   (transact_preverified_inner, run_the_loop), over an abstract frame tree.

   What is abstracted: what instructions compute.  A frame is the list of things its
   interpreter does, in order, until it returns (InterpreterAction::Return); the result it
   returns does not influence which hooks fire, so it is not part of the tree.
   What is kept: every place where a hook is called, and every push / pop of the three
   input stacks (call_input_stack, create_input_stack, eofcreate_input_stack), in the order
   of the code.  The recursion of [run_frame] on a child frame stands for the explicit
   call_stack of run_the_loop (push of the new frame, execute it until it returns, pop it,
   insert the result into the frame below). *)
From Coq Require Import ZArith List Bool.
From RevmV Require Export Spec.InspectorSpec.
Import ListNotations.
Local Open Scope Z_scope.

(* how a call / create / eofcreate that produced no frame was resolved *)
Inductive how :=
| ByInspector   (* Inspector::call/create/eofcreate returned Some(outcome) *)
| Immediate.    (* prev handler returned FrameOrResult::Result: depth limit, OutOfFunds,
                   precompile, empty code, nonce overflow, collision, ... *)

Inductive frame :=
| FEnd                                   (* the interpreter returns *)
| FInstr (rest : frame)                  (* an instruction other than the ones below (also the
                                            failing/terminating ones: STOP, RETURN, errors) *)
| FLog (journaled : bool) (rest : frame) (* LOG0..4; journaled = a log was appended *)
| FSd (completed : bool) (rest : frame)  (* SELFDESTRUCT; completed = result is SelfDestruct *)
| FSubNoFrame (k : kind) (i : Z) (h : how) (rest : frame)
    (* an instruction that ended with next_action Call/Create/EOFCreate with inputs [i],
       resolved without a frame *)
| FSubFrame (k : kind) (i : Z) (child : frame) (rest : frame).
    (* same, a child frame was made and run *)

(* the transaction level: transact_preverified_inner calls the same (wrapped) handlers *)
Inductive tx :=
| TxNoFrame (k : kind) (i : Z) (h : how)
| TxFrame (k : kind) (i : Z) (f : frame).

(* ---- the three input stacks ---- *)
Record stacks := mkStacks { s_call : list Z; s_create : list Z; s_eof : list Z }.
Definition empty_stacks := mkStacks [] [] [].

Definition push (k : kind) (i : Z) (s : stacks) : stacks :=
  match k with
  | KCall => mkStacks (i :: s_call s) (s_create s) (s_eof s)
  | KCreate => mkStacks (s_call s) (i :: s_create s) (s_eof s)
  | KEof => mkStacks (s_call s) (s_create s) (i :: s_eof s)
  end.
(* Vec::pop(): None models the panic of .unwrap() *)
Definition pop (k : kind) (s : stacks) : option (Z * stacks) :=
  match k with
  | KCall => match s_call s with i :: r => Some (i, mkStacks r (s_create s) (s_eof s)) | [] => None end
  | KCreate => match s_create s with i :: r => Some (i, mkStacks (s_call s) r (s_eof s)) | [] => None end
  | KEof => match s_eof s with i :: r => Some (i, mkStacks (s_call s) (s_create s) r) | [] => None end
  end.

(* handler.execution.call / create / eofcreate as replaced by the register:
   the hook is called with the inputs, then the (possibly modified) inputs are cloned onto the
   stack of that kind; this happens on both branches (outcome from the inspector or not).
   [i] names the inputs as they are after the hook. *)
Definition h_open (k : kind) (i : Z) (s : stacks) : stacks * list token :=
  (push k i s, [TOpen k i]).

(* insert_call_outcome / insert_create_outcome / insert_eofcreate_outcome as replaced:
   pop().unwrap() from the stack selected by the kind of the FrameResult, call *_end with
   the popped inputs. *)
Definition h_insert_outcome (k : kind) (s : stacks) : option (stacks * list token) :=
  match pop k s with
  | Some (j, s') => Some (s', [TClose k j])
  | None => None
  end.
(* last_frame_return as replaced: same pop and hook, selected by the FrameResult variant *)
Definition h_last_frame_return (k : kind) (s : stacks) : option (stacks * list token) :=
  match pop k s with
  | Some (j, s') => Some (s', [TClose k j])
  | None => None
  end.

(* the wrapped instruction table.  table.update_all(inspector_instruction) puts step /
   step_end around every opcode; afterwards update_boxed wraps LOG0..4 and SELFDESTRUCT once
   more, so for these the inner (already wrapped) instruction runs first and the log /
   selfdestruct notification comes after its step_end. *)
Definition inspector_instruction (prev : list token) : list token := TStep :: prev ++ [TStepEnd].
Definition instr_plain : list token := inspector_instruction [].
Definition instr_log (journaled : bool) : list token :=
  instr_plain ++ (if journaled then [TLog] else []).
Definition instr_sd (completed : bool) : list token :=
  instr_plain ++ (if completed then [TSelfDestruct] else []).

Definition bind {A B} (x : option A) (f : A -> option B) : option B :=
  match x with Some a => f a | None => None end.

(* run one frame until it returns; result: stacks afterwards and the hooks fired *)
Fixpoint run_frame (f : frame) (s : stacks) : option (stacks * list token) :=
  match f with
  | FEnd => Some (s, [])
  | FInstr rest =>
      bind (run_frame rest s) (fun '(s', t) => Some (s', instr_plain ++ t))
  | FLog j rest =>
      bind (run_frame rest s) (fun '(s', t) => Some (s', instr_log j ++ t))
  | FSd c rest =>
      bind (run_frame rest s) (fun '(s', t) => Some (s', instr_sd c ++ t))
  | FSubNoFrame k i _ rest =>
      (* the CALL/CREATE/EOFCREATE instruction itself, then exec.call(..) -> Result,
         then exec.insert_*_outcome on the same frame, then the frame continues *)
      let '(s1, t1) := h_open k i s in
      bind (h_insert_outcome k s1) (fun '(s2, t2) =>
      bind (run_frame rest s2) (fun '(s3, t3) =>
      Some (s3, instr_plain ++ t1 ++ t2 ++ t3)))
  | FSubFrame k i child rest =>
      (* exec.call(..) -> Frame: initialize_interp, push on call_stack, run it; when it
         returns: call_return, FrameResult of the frame's kind, insert into the frame below *)
      let '(s1, t1) := h_open k i s in
      bind (run_frame child s1) (fun '(sc, tc) =>
      bind (h_insert_outcome k sc) (fun '(s2, t2) =>
      bind (run_frame rest s2) (fun '(s3, t3) =>
      Some (s3, instr_plain ++ t1 ++ [TInitInterp] ++ tc ++ t2 ++ t3))))
  end.

(* transact_preverified_inner: first frame or result through the same handlers, then
   last_frame_return *)
Definition transact (x : tx) (s : stacks) : option (stacks * list token) :=
  match x with
  | TxNoFrame k i _ =>
      let '(s1, t1) := h_open k i s in
      bind (h_last_frame_return k s1) (fun '(s2, t2) => Some (s2, t1 ++ t2))
  | TxFrame k i f =>
      let '(s1, t1) := h_open k i s in
      bind (run_frame f s1) (fun '(sc, tc) =>
      bind (h_last_frame_return k sc) (fun '(s2, t2) =>
      Some (s2, t1 ++ [TInitInterp] ++ tc ++ t2)))
  end.

(* several transactions on one Evm: the stacks live as long as the handler *)
Fixpoint transact_all (xs : list tx) (s : stacks) : option (stacks * list (list token)) :=
  match xs with
  | [] => Some (s, [])
  | x :: r => bind (transact x s) (fun '(s1, t) =>
              bind (transact_all r s1) (fun '(s2, ts) => Some (s2, t :: ts)))
  end.

(* ---- reference trace: what the property says should be reported (no stacks) ---- *)
Fixpoint spec_frame (f : frame) : list token :=
  match f with
  | FEnd => []
  | FInstr rest => TStep :: TStepEnd :: spec_frame rest
  | FLog j rest => TStep :: TStepEnd :: (if j then [TLog] else []) ++ spec_frame rest
  | FSd c rest => TStep :: TStepEnd :: (if c then [TSelfDestruct] else []) ++ spec_frame rest
  | FSubNoFrame k i _ rest => TStep :: TStepEnd :: TOpen k i :: TClose k i :: spec_frame rest
  | FSubFrame k i child rest =>
      TStep :: TStepEnd :: TOpen k i :: TInitInterp :: spec_frame child ++ TClose k i :: spec_frame rest
  end.
Definition spec_tx (x : tx) : list token :=
  match x with
  | TxNoFrame k i _ => [TOpen k i; TClose k i]
  | TxFrame k i f => TOpen k i :: TInitInterp :: spec_frame f ++ [TClose k i]
  end.

(* sizes of a tree *)
Fixpoint n_instr (f : frame) : Z :=
  match f with
  | FEnd => 0
  | FInstr r | FLog _ r | FSd _ r | FSubNoFrame _ _ _ r => 1 + n_instr r
  | FSubFrame _ _ c r => 1 + n_instr c + n_instr r
  end.
Fixpoint n_logs (f : frame) : Z :=
  match f with
  | FEnd => 0
  | FLog j r => (if j then 1 else 0) + n_logs r
  | FInstr r | FSd _ r | FSubNoFrame _ _ _ r => n_logs r
  | FSubFrame _ _ c r => n_logs c + n_logs r
  end.
Fixpoint n_sd (f : frame) : Z :=
  match f with
  | FEnd => 0
  | FSd c r => (if c then 1 else 0) + n_sd r
  | FInstr r | FLog _ r | FSubNoFrame _ _ _ r => n_sd r
  | FSubFrame _ _ c r => n_sd c + n_sd r
  end.
Fixpoint n_frames (f : frame) : Z :=
  match f with
  | FEnd => 0
  | FInstr r | FLog _ r | FSd _ r | FSubNoFrame _ _ _ r => n_frames r
  | FSubFrame _ _ c r => 1 + n_frames c + n_frames r
  end.

(* ---- the same loop with the explicit call_stack of Evm::run_the_loop ----
   [execute_frame] is Interpreter::run with the registered table: instructions until the next
   action.  [run_the_loop] is the `loop { .. }` of evm.rs, one iteration per unit of fuel:
   execute the top frame; Call/Create/EOFCreate -> the replaced handler (hook, push inputs),
   then either push the new frame (initialize_interp) or insert the result into the top
   frame (pop inputs, *_end hook); Return -> pop the frame, its FrameResult has the frame's
   kind, insert it into the frame below, or leave the loop when the stack is empty.
   Proofs/InspectorProofs.v shows it computes what [run_frame] computes. *)
Inductive action :=
| AReturn
| ASubNoFrame (k : kind) (i : Z) (h : how)
| ASubFrame (k : kind) (i : Z) (child : frame).

Fixpoint execute_frame (f : frame) : list token * action * frame :=
  match f with
  | FEnd => ([], AReturn, FEnd)
  | FInstr r => let '(t, a, f') := execute_frame r in (instr_plain ++ t, a, f')
  | FLog j r => let '(t, a, f') := execute_frame r in (instr_log j ++ t, a, f')
  | FSd c r => let '(t, a, f') := execute_frame r in (instr_sd c ++ t, a, f')
  | FSubNoFrame k i h r => (instr_plain, ASubNoFrame k i h, r)
  | FSubFrame k i c r => (instr_plain, ASubFrame k i c, r)
  end.

Inductive loop_result :=
| OutOfFuel
| Panic                                              (* an unwrap() / expect() failed *)
| Returned (k : kind) (s : stacks) (t : list token). (* Ok(FrameResult of kind k) *)

Definition pre (t : list token) (r : loop_result) : loop_result :=
  match r with Returned k s t' => Returned k s (t ++ t') | x => x end.

Fixpoint run_the_loop (fuel : nat) (call_stack : list (kind * frame)) (s : stacks) : loop_result :=
  match fuel with
  | O => OutOfFuel
  | S n =>
    match call_stack with
    | [] => Panic
    | (k, f) :: below =>
        let '(t, a, f') := execute_frame f in
        match a with
        | AReturn =>
            match below with
            | [] => Returned k s t
            | _ :: _ =>
                match h_insert_outcome k s with
                | Some (s', t2) => pre (t ++ t2) (run_the_loop n below s')
                | None => Panic
                end
            end
        | ASubNoFrame k' i _ =>
            let '(s1, t1) := h_open k' i s in
            match h_insert_outcome k' s1 with
            | Some (s2, t2) => pre (t ++ t1 ++ t2) (run_the_loop n ((k, f') :: below) s2)
            | None => Panic
            end
        | ASubFrame k' i c =>
            let '(s1, t1) := h_open k' i s in
            pre (t ++ t1 ++ [TInitInterp]) (run_the_loop n ((k', c) :: (k, f') :: below) s1)
        end
    end
  end.

Definition transact_loop (fuel : nat) (x : tx) (s : stacks) : loop_result :=
  match x with
  | TxNoFrame k i _ =>
      let '(s1, t1) := h_open k i s in
      match h_last_frame_return k s1 with
      | Some (s2, t2) => Returned k s2 (t1 ++ t2)
      | None => Panic
      end
  | TxFrame k i f =>
      let '(s1, t1) := h_open k i s in
      match run_the_loop fuel [(k, f)] s1 with
      | Returned k' sc tc =>
          match h_last_frame_return k' sc with
          | Some (s2, t2) => Returned k' s2 (t1 ++ [TInitInterp] ++ tc ++ t2)
          | None => Panic
          end
      | r => r
      end
  end.

(* iterations of the loop a frame needs until it has returned *)
Fixpoint iters (f : frame) : nat :=
  match f with
  | FEnd => 1
  | FInstr r | FLog _ r | FSd _ r => iters r
  | FSubNoFrame _ _ _ r => S (iters r)
  | FSubFrame _ _ c r => S (iters c + iters r)
  end.
