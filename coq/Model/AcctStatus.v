(* Shared vocabulary of the block-state layer (crates/revm/src/db/states):
   [AccountStatus] with every function of account_status.rs, and the plain account info.
   [unreachable!] cells are [None]. *)
From Coq Require Export ZArith List Lia Bool.
Export ListNotations.
Local Open Scope Z_scope.

Inductive status :=
| LoadedNotExisting | Loaded | LoadedEmptyEIP161 | InMemoryChange
| Changed | Destroyed | DestroyedChanged | DestroyedAgain.

Definition status_eqb (a b : status) : bool :=
  match a, b with
  | LoadedNotExisting, LoadedNotExisting | Loaded, Loaded | LoadedEmptyEIP161, LoadedEmptyEIP161
  | InMemoryChange, InMemoryChange | Changed, Changed | Destroyed, Destroyed
  | DestroyedChanged, DestroyedChanged | DestroyedAgain, DestroyedAgain => true
  | _, _ => false
  end.
Lemma status_eqb_eq a b : status_eqb a b = true <-> a = b.
Proof. destruct a, b; simpl; split; intro H; try reflexivity; try discriminate. Qed.

(* declaration order of the Rust enum = the number used by the reflector *)
Definition status_to_Z (s : status) : Z :=
  match s with
  | LoadedNotExisting => 0 | Loaded => 1 | LoadedEmptyEIP161 => 2 | InMemoryChange => 3
  | Changed => 4 | Destroyed => 5 | DestroyedChanged => 6 | DestroyedAgain => 7
  end.
Definition status_of_Z (z : Z) : option status :=
  match z with
  | 0 => Some LoadedNotExisting | 1 => Some Loaded | 2 => Some LoadedEmptyEIP161
  | 3 => Some InMemoryChange | 4 => Some Changed | 5 => Some Destroyed
  | 6 => Some DestroyedChanged | 7 => Some DestroyedAgain | _ => None
  end.
Definition all_status : list status :=
  [LoadedNotExisting; Loaded; LoadedEmptyEIP161; InMemoryChange; Changed; Destroyed;
   DestroyedChanged; DestroyedAgain].
Lemma all_status_complete s : In s all_status.
Proof. destruct s; simpl; tauto. Qed.
Lemma status_of_to s : status_of_Z (status_to_Z s) = Some s.
Proof. destruct s; reflexivity. Qed.

(* predicates *)
Definition is_not_modified (s : status) : bool :=
  match s with LoadedNotExisting | Loaded | LoadedEmptyEIP161 => true | _ => false end.
Definition was_destroyed (s : status) : bool :=
  match s with Destroyed | DestroyedChanged | DestroyedAgain => true | _ => false end.
Definition is_storage_known (s : status) : bool :=
  match s with
  | LoadedNotExisting | InMemoryChange | Destroyed | DestroyedChanged | DestroyedAgain => true
  | _ => false
  end.
Definition is_modified_and_not_destroyed (s : status) : bool :=
  match s with Changed | InMemoryChange => true | _ => false end.

(* transitions; the total ones are plain functions *)
Definition on_created (s : status) : status :=
  match s with
  | DestroyedAgain | Destroyed | DestroyedChanged => DestroyedChanged
  | LoadedNotExisting | LoadedEmptyEIP161 | Loaded | Changed | InMemoryChange => InMemoryChange
  end.

Definition on_touched_empty_post_eip161 (s : status) : option status :=
  match s with
  | LoadedNotExisting => Some LoadedNotExisting
  | InMemoryChange | Destroyed | LoadedEmptyEIP161 => Some Destroyed
  | DestroyedAgain | DestroyedChanged => Some DestroyedAgain
  | Loaded | Changed => None                 (* unreachable! *)
  end.

(* outer [None] = unreachable!, inner [None] = "status did not change" *)
Definition on_touched_created_pre_eip161 (s : status) (had_no_info : bool)
  : option (option status) :=
  match s with
  | LoadedEmptyEIP161 => Some None
  | DestroyedChanged => if had_no_info then Some None else Some (Some DestroyedChanged)
  | Destroyed | DestroyedAgain => Some (Some DestroyedChanged)
  | InMemoryChange | LoadedNotExisting => Some (Some InMemoryChange)
  | Loaded | Changed => None                 (* unreachable! *)
  end.

Definition on_changed (s : status) (had_no_nonce_and_code : bool) : status :=
  match s with
  | LoadedNotExisting => InMemoryChange
  | LoadedEmptyEIP161 => InMemoryChange
  | Loaded => if had_no_nonce_and_code then InMemoryChange else Changed
  | Changed => Changed
  | InMemoryChange => InMemoryChange
  | DestroyedChanged => DestroyedChanged
  | Destroyed | DestroyedAgain => DestroyedChanged
  end.

Definition on_selfdestructed (s : status) : status :=
  match s with
  | LoadedNotExisting => LoadedNotExisting
  | DestroyedChanged | DestroyedAgain | Destroyed => DestroyedAgain
  | _ => Destroyed
  end.

Definition transition (s other : status) : status :=
  match was_destroyed s, was_destroyed other with
  | true, false => DestroyedChanged
  | false, false => if status_eqb s InMemoryChange then InMemoryChange else other
  | _, _ => other
  end.

(* ---- account info (primitives::AccountInfo). [i_code] is the optional inline bytecode,
   represented by a number (the bytes behind a leading 0x01). Rust's [PartialEq] ignores it. *)
Definition KECCAK_EMPTY : Z :=
  0xc5d2460186f7233c927e7db2dcc703c0e500b653ca82273b7bfad8045d85a470.

Record info := mkInfo { i_balance : Z; i_nonce : Z; i_code_hash : Z; i_code : option Z }.

(* Bytecode::default(): original bytes are the empty string, printed as 0x01 *)
Definition default_code : option Z := Some 1.
Definition info_default : info := mkInfo 0 0 KECCAK_EMPTY default_code.

Definition is_empty_code_hash (i : info) : bool := i_code_hash i =? KECCAK_EMPTY.
Definition info_is_empty (i : info) : bool :=
  (is_empty_code_hash i || (i_code_hash i =? 0)) && (i_balance i =? 0) && (i_nonce i =? 0).
Definition has_no_code_and_nonce (i : info) : bool :=
  is_empty_code_hash i && (i_nonce i =? 0).

(* AccountInfo's PartialEq: balance, nonce, code hash *)
Definition info_eqb (a b : info) : bool :=
  (i_balance a =? i_balance b) && (i_nonce a =? i_nonce b) && (i_code_hash a =? i_code_hash b).
Definition info_same (a b : info) : Prop :=
  i_balance a = i_balance b /\ i_nonce a = i_nonce b /\ i_code_hash a = i_code_hash b.
Lemma info_eqb_same a b : info_eqb a b = true <-> info_same a b.
Proof.
  unfold info_eqb, info_same. rewrite !andb_true_iff, !Z.eqb_eq. tauto.
Qed.
