(* Model of the SELFDESTRUCT wrapper of crates/revm/src/inspector/handler_register.rs
   (table.update_boxed(opcode::SELFDESTRUCT, ..)) around the instruction
   crates/interpreter/src/instructions/host.rs selfdestruct and the balance effects of
   crates/revm/src/journaled_state.rs JournaledState::selfdestruct.

   Only the two balances involved are kept from the state; gas is abstracted to "the charge
   after the host call succeeds or not" (its amount is C14/C34 material). *)
From RevmV Require Import Base.Word.
Local Open Scope Z_scope.

Definition pow160 : Z := 1461501637330902918203684832716283019655932542976.
(* Address::from_word(B256::from(word)): the low 20 bytes *)
Definition addr_of_word (w : Z) : Z := w mod pow160.

(* instruction results that matter here *)
Inductive sd_result :=
| RStateChangeDuringStaticCall   (* require_non_staticcall! *)
| RStackUnderflow                (* pop_address! *)
| ROutOfGas                      (* gas!(selfdestruct_cost) after the host call *)
| RSelfDestruct.                 (* completed *)

Record sd_state := mkSd {
  is_static : bool;
  stack : list Z;          (* top first *)
  contract : Z;            (* interpreter.contract.target_address *)
  bal_contract : Z;        (* state[contract].info.balance *)
  bal_target : Z;          (* state[target].info.balance (after load_account); unused if target = contract *)
  created : bool;          (* state[contract].is_created(): created in this transaction *)
  cancun : bool;           (* SpecId::enabled(spec, CANCUN) *)
  gas_enough : bool        (* remaining gas covers selfdestruct_cost(spec, res) *)
}.

(* JournaledState::selfdestruct: balances of (contract, target) afterwards.
   None = the u256 addition target.balance += balance overflows (F13: panic in debug builds). *)
Definition journal_selfdestruct (s : sd_state) (target : Z) : option (Z * Z) :=
  if contract s =? target then
    (* no credit; destroyed (balance burnt) when created in this tx or before Cancun,
       otherwise nothing changes *)
    if created s || negb (cancun s) then Some (0, 0) else Some (bal_contract s, bal_contract s)
  else
    if is_u256 (bal_target s + bal_contract s)
    then (* both remaining branches zero the contract: AccountDestroyed or BalanceTransfer *)
         Some (0, bal_target s + bal_contract s)
    else None.

(* the instruction: result, contract balance afterwards *)
Definition selfdestruct_instr (s : sd_state) : option (sd_result * Z) :=
  if is_static s then Some (RStateChangeDuringStaticCall, bal_contract s)
  else match stack s with
       | [] => Some (RStackUnderflow, bal_contract s)
       | top :: _ =>
           match journal_selfdestruct s (addr_of_word top) with
           | None => None
           | Some (bc, _) =>
               (* the balance effects stay in the journal also when the gas charge fails;
                  they are undone when the frame is reverted *)
               if gas_enough s then Some (RSelfDestruct, bc) else Some (ROutOfGas, bc)
           end
       end.

Definition sd_result_eqb (a b : sd_result) : bool :=
  match a, b with
  | RStateChangeDuringStaticCall, RStateChangeDuringStaticCall | RStackUnderflow, RStackUnderflow
  | ROutOfGas, ROutOfGas | RSelfDestruct, RSelfDestruct => true
  | _, _ => false
  end.

(* the wrapper as a function of what it reads: the instruction's result, the contract, the
   word on top of the stack before the instruction (stack.peek(0).ok()), and the contract's
   balance before / after.  value = balance_before.saturating_sub(balance_after). *)
Definition notification := (Z * Z * Z)%type.   (* contract, target, value *)
Definition sd_wrapper (res : sd_result) (contract : Z) (top : option Z) (before after : Z)
  : option notification :=
  if sd_result_eqb res RSelfDestruct then
    match top with
    | Some w => Some (contract, addr_of_word w, Z.max 0 (before - after))
    | None => None
    end
  else None.

(* wrapper around the modelled instruction *)
Definition wrapped_selfdestruct (s : sd_state) : option (sd_result * Z * option notification) :=
  match selfdestruct_instr s with
  | Some (res, after) =>
      Some (res, after, sd_wrapper res (contract s) (hd_error (stack s)) (bal_contract s) after)
  | None => None
  end.

(* ---- specification: the balance that leaves the contract ---- *)
Definition balance_that_left (contract target bal : Z) (created cancun : bool) : Z :=
  if negb (contract =? target) || created || negb cancun then bal else 0.
