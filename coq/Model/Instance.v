(* Model of the life cycle of one Evm instance across transactions.

   Code modelled:
     crates/revm/src/evm.rs                 Evm::{new, transact, transact_commit, preverify_transaction,
                                            transact_preverified, preverify_transaction_inner,
                                            transact_preverified_inner (its frame: load_accounts,
                                            set_precompiles, ..., output), clear, modify_spec_id}
     crates/revm/src/handler/mainnet/post_execution.rs   clear, end, output
     crates/revm/src/optimism/handler_register.rs        clear, end, the l1_block_info part of validate_tx_against_state
     crates/revm/src/journaled_state.rs     JournaledState::{new, clear, finalize, set_spec_id}
     crates/revm/src/context/evm_context.rs set_precompiles;  inner_evm_context.rs  take_error, load_access_list
     crates/revm/src/handler/mainnet/pre_execution.rs     load_accounts, load_precompiles

   Everything between `set_precompiles` and `post_execution.output` (deduct_caller, EIP-7702,
   the frame loop, last_frame_return, refund, reimburse, reward) is the Section variable [exec]: an
   arbitrary function of exactly what that code can read (spec, environment, initial gas,
   journaled state, database, precompile set, cached L1 block info) that may leave the journaled
   state, the database and the error slot in any condition. Validation (C02) is likewise a
   parameter. The contents of accounts, logs and journal entries are opaque numbers: nothing
   here inspects them. *)
From RevmV Require Import Base.Word.
Local Open Scope Z_scope.

(* ------------------------------------------------------------------ JournaledState *)

Record jstate := mkJ {
  j_state : list (Z * Z);            (* EvmState: address -> account (opaque) *)
  j_transient : list (Z * Z * Z);    (* TransientStorage *)
  j_logs : list Z;
  j_depth : Z;
  j_journal : list (list Z);         (* Vec<Vec<JournalEntry>> *)
  j_spec : Z;
  j_warm : list Z                    (* warm_preloaded_addresses *)
}.

(* JournaledState::new *)
Definition js_new (spec : Z) (warm : list Z) : jstate := mkJ [] [] [] 0 [[]] spec warm.
(* JournaledState::clear: `*self = Self::new(spec, HashSet::default())` *)
Definition js_clear (js : jstate) : jstate := js_new (j_spec js) [].
(* JournaledState::finalize: takes state and logs, resets transient storage, journal, depth;
   keeps spec and warm_preloaded_addresses *)
Definition js_finalize (js : jstate) : (list (Z * Z) * list Z) * jstate :=
  ((j_state js, j_logs js), mkJ [] [] [] 0 [[]] (j_spec js) (j_warm js)).
Definition js_set_spec (js : jstate) (s : Z) : jstate :=
  mkJ (j_state js) (j_transient js) (j_logs js) (j_depth js) (j_journal js) s (j_warm js).
Definition js_add_warm (js : jstate) (l : list Z) : jstate :=
  mkJ (j_state js) (j_transient js) (j_logs js) (j_depth js) (j_journal js) (j_spec js) (j_warm js ++ l).

Definition BLOCKHASH_STORAGE_ADDRESS : Z := 0x0000F90827F1C53a10cb7A02335B175320002935.

Section Instance.
(* opaque data *)
Variables (db txenv err rcore l1info : Type).
(* outside this property: the fork predicates, validation, precompile sets, execution, commit *)
Variable canon : Z -> Z.                                   (* SpecId of the generic Spec type of the handles *)
Variable shanghai prague : Z -> bool.
Variable validate_env : bool -> Z -> txenv -> option err.    (* handler.validation().env *)
Variable initial_tx_gas : Z -> txenv -> err + (Z * Z).       (* handler.validation().initial_tx_gas *)
Variable is_deposit : txenv -> bool.
Variable l1_fetch : Z -> db -> db * (err + l1info).          (* L1BlockInfo::try_fetch (reads the database) *)
(* the rest of validate_tx_against_state: load_code(caller) into the journaled state (reads state,
   warm set, database), then the nonce/balance/code checks; never reads the journaled spec *)
Variable tx_against_state :
  bool -> Z -> txenv -> option l1info -> db -> list (Z * Z) -> list Z -> (list (Z * Z) * db) * option err.
Variable coinbase_of : txenv -> Z.
Variable load_access_list : txenv -> db -> jstate -> (jstate * db) * option err.
Variable precompiles_of : bool -> Z -> list Z.               (* load_precompiles().addresses_set() *)
Record exec_out := mkOut { o_frame : err + rcore; o_js : jstate; o_db : db; o_err : option err }.
Variable exec : bool -> Z -> txenv -> Z * Z -> jstate -> db -> list Z -> option l1info -> exec_out.
Variable end_handle : bool -> Z -> txenv -> db -> (err + (rcore * list (Z * Z) * list Z))
                      -> db * (err + (rcore * list (Z * Z) * list Z)).   (* post_execution.end *)
Variable commit : db -> list (Z * Z) -> db.                  (* DatabaseCommit::commit *)

Record instance := mkI {
  i_js : jstate;
  i_err : option err;               (* context.evm.error: None = Ok(()) *)
  i_precompiles : list Z;           (* context.evm.precompiles (address set) *)
  i_db : db;
  i_l1 : option l1info;             (* context.evm.l1_block_info (feature optimism) *)
  i_spec : Z;                       (* handler.cfg.spec_id *)
  i_optimism : bool                 (* the Optimism register is installed *)
}.

Definition result := (err + (rcore * list (Z * Z) * list Z))%type.   (* Result<ResultAndState> with the logs *)

(* Evm::new over Context::new_with_db(db): JournaledState::new(LATEST, {}) then set_spec_id(handler spec) *)
Definition fresh (spec : Z) (opt : bool) (d : db) : instance :=
  mkI (js_new spec []) None [] d None spec opt.

(* post_execution.clear: mainnet::clear = take_error + journaled_state.clear();
   optimism::clear additionally l1_block_info = None *)
Definition clear (i : instance) : instance :=
  mkI (js_clear (i_js i)) None (i_precompiles i) (i_db i)
      (if i_optimism i then None else i_l1 i) (i_spec i) (i_optimism i).

(* Evm::modify_spec_id: only the handler changes *)
Definition modify_spec_id (i : instance) (s : Z) : instance :=
  mkI (i_js i) (i_err i) (i_precompiles i) (i_db i) (i_l1 i) s (i_optimism i).

(* preverify_transaction_inner *)
Definition preverify_inner (i : instance) (tx : txenv) : (err + (Z * Z)) * instance :=
  match validate_env (i_optimism i) (i_spec i) tx with
  | Some e => (inl e, i)
  | None =>
    match initial_tx_gas (i_spec i) tx with
    | inl e => (inl e, i)
    | inr gas =>
      (* Optimism, non-deposit: `if l1_block_info.is_none() { l1_block_info = Some(try_fetch(db)?) }` *)
      let '(d1, l1r) :=
        if i_optimism i && negb (is_deposit tx) then
          match i_l1 i with
          | Some x => (i_db i, inr (Some x))
          | None => let '(d, r) := l1_fetch (i_spec i) (i_db i) in
                    (d, match r with inl e => inl e | inr x => inr (Some x) end)
          end
        else (i_db i, inr (i_l1 i)) in
      match l1r with
      | inl e => (inl e, mkI (i_js i) (i_err i) (i_precompiles i) d1 (i_l1 i) (i_spec i) (i_optimism i))
      | inr l1 =>
        if i_optimism i && is_deposit tx
        then (inr gas, mkI (i_js i) (i_err i) (i_precompiles i) d1 l1 (i_spec i) (i_optimism i))
        else
          let '((st, d2), e) :=
            tx_against_state (i_optimism i) (i_spec i) tx l1 d1 (j_state (i_js i)) (j_warm (i_js i)) in
          let js := mkJ st (j_transient (i_js i)) (j_logs (i_js i)) (j_depth (i_js i))
                        (j_journal (i_js i)) (j_spec (i_js i)) (j_warm (i_js i)) in
          let i' := mkI js (i_err i) (i_precompiles i) d2 l1 (i_spec i) (i_optimism i) in
          match e with Some e => (inl e, i') | None => (inr gas, i') end
      end
    end
  end.

(* post_execution.output: take_error()?; finalize; build the result *)
Definition output (i : instance) (r : rcore) : result * instance :=
  match i_err i with
  | Some e => (inl e, mkI (i_js i) None (i_precompiles i) (i_db i) (i_l1 i) (i_spec i) (i_optimism i))
  | None =>
    let '((st, logs), js) := js_finalize (i_js i) in
    (inr (r, st, logs), mkI js None (i_precompiles i) (i_db i) (i_l1 i) (i_spec i) (i_optimism i))
  end.

(* transact_preverified_inner *)
Definition transact_preverified_inner (i : instance) (tx : txenv) (gas : Z * Z) : result * instance :=
  let s := canon (i_spec i) in
  (* load_accounts: set_spec_id(SPEC); warm coinbase (SHANGHAI), blockhash contract (PRAGUE); access list *)
  let js1 := js_add_warm (js_set_spec (i_js i) s)
               ((if shanghai s then [coinbase_of tx] else []) ++ (if prague s then [BLOCKHASH_STORAGE_ADDRESS] else [])) in
  let '((js2, d2), e) := load_access_list tx (i_db i) js1 in
  match e with
  | Some e => (inl e, mkI js2 (i_err i) (i_precompiles i) d2 (i_l1 i) (i_spec i) (i_optimism i))
  | None =>
    (* set_precompiles: warm set extended, precompiles replaced *)
    let pcs := precompiles_of (i_optimism i) s in
    let js3 := js_add_warm js2 pcs in
    let o := exec (i_optimism i) s tx gas js3 d2 pcs (i_l1 i) in
    let i4 := mkI (o_js o) (o_err o) pcs (o_db o) (i_l1 i) (i_spec i) (i_optimism i) in
    match o_frame o with
    | inl e => (inl e, i4)
    | inr r => output i4 r
    end
  end.

Definition finish (i : instance) (tx : txenv) (out : result) : result * instance :=
  let '(d, out') := end_handle (i_optimism i) (i_spec i) tx (i_db i) out in
  (out', clear (mkI (i_js i) (i_err i) (i_precompiles i) d (i_l1 i) (i_spec i) (i_optimism i))).

(* Evm::transact *)
Definition transact (i : instance) (tx : txenv) : result * instance :=
  match preverify_inner i tx with
  | (inl e, i1) => (inl e, clear i1)
  | (inr gas, i1) => let '(out, i2) := transact_preverified_inner i1 tx gas in finish i2 tx out
  end.

(* Evm::preverify_transaction; the unit result is mapped to a result without state *)
Definition preverify_transaction (i : instance) (tx : txenv) : option err * instance :=
  match preverify_inner i tx with
  | (inl e, i1) => (Some e, clear i1)
  | (inr _, i1) => (None, clear i1)
  end.

(* Evm::transact_preverified *)
Definition transact_preverified (i : instance) (tx : txenv) : result * instance :=
  match initial_tx_gas (i_spec i) tx with
  | inl e => (inl e, clear i)
  | inr gas => let '(out, i2) := transact_preverified_inner i tx gas in finish i2 tx out
  end.

(* Evm::transact_commit *)
Definition transact_commit (i : instance) (tx : txenv) : result * instance :=
  let '(out, i1) := transact i tx in
  match out with
  | inr (r, st, logs) =>
    (out, mkI (i_js i1) (i_err i1) (i_precompiles i1) (commit (i_db i1) st) (i_l1 i1) (i_spec i1) (i_optimism i1))
  | inl _ => (out, i1)
  end.

(* ------------------------------------------------------------------ sequences *)

Inductive entry := Transact | TransactCommit | Preverify | TransactPreverified.
Inductive step := Call (e : entry) (tx : txenv) | SetSpec (s : Z).

(* observable outcome of one call *)
Inductive outcome := OResult (r : result) | OVerify (e : option err).

Definition call (i : instance) (e : entry) (tx : txenv) : outcome * instance :=
  match e with
  | Transact => let '(r, i') := transact i tx in (OResult r, i')
  | TransactCommit => let '(r, i') := transact_commit i tx in (OResult r, i')
  | Preverify => let '(r, i') := preverify_transaction i tx in (OVerify r, i')
  | TransactPreverified => let '(r, i') := transact_preverified i tx in (OResult r, i')
  end.

(* one instance reused for the whole sequence: outcomes and the final instance *)
Fixpoint run_reused (i : instance) (l : list step) : list outcome * instance :=
  match l with
  | [] => ([], i)
  | Call e tx :: t => let '(o, i') := call i e tx in let '(os, i'') := run_reused i' t in (o :: os, i'')
  | SetSpec s :: t => run_reused (modify_spec_id i s) t
  end.

(* a freshly built instance for every call, over the database as it is at that point *)
Fixpoint run_fresh (spec : Z) (opt : bool) (d : db) (l : list step) : list outcome * db :=
  match l with
  | [] => ([], d)
  | Call e tx :: t => let '(o, i') := call (fresh spec opt d) e tx in
                      let '(os, d') := run_fresh spec opt (i_db i') t in (o :: os, d')
  | SetSpec s :: t => run_fresh s opt d t
  end.

(* no residue of earlier transactions: what every entry point leaves behind *)
Definition clean (i : instance) : Prop :=
  i_js i = js_new (j_spec (i_js i)) [] /\ i_err i = None /\ i_l1 i = None.

(* two instances that the next call cannot tell apart: they may differ in the precompile set and
   in the journaled spec, both of which are overwritten before they are read *)
Definition sim (a b : instance) : Prop :=
  j_state (i_js a) = j_state (i_js b) /\ j_transient (i_js a) = j_transient (i_js b) /\
  j_logs (i_js a) = j_logs (i_js b) /\ j_depth (i_js a) = j_depth (i_js b) /\
  j_journal (i_js a) = j_journal (i_js b) /\ j_warm (i_js a) = j_warm (i_js b) /\
  i_err a = i_err b /\ i_db a = i_db b /\ i_l1 a = i_l1 b /\ i_spec a = i_spec b /\
  i_optimism a = i_optimism b.

End Instance.

(* the opaque types are inferred *)
Arguments mkOut {db err rcore}. Arguments o_frame {db err rcore}. Arguments o_js {db err rcore}.
Arguments o_db {db err rcore}. Arguments o_err {db err rcore}.
Arguments mkI {db err l1info}. Arguments i_js {db err l1info}. Arguments i_err {db err l1info}.
Arguments i_precompiles {db err l1info}. Arguments i_db {db err l1info}. Arguments i_l1 {db err l1info}.
Arguments i_spec {db err l1info}. Arguments i_optimism {db err l1info}.
Arguments fresh {db err l1info}. Arguments clear {db err l1info}. Arguments modify_spec_id {db err l1info}.
Arguments clean {db err l1info}. Arguments sim {db err l1info}.
Arguments preverify_inner {db txenv err l1info}. Arguments output {db err rcore l1info}.
Arguments transact_preverified_inner {db txenv err rcore l1info}. Arguments finish {db txenv err rcore l1info}.
Arguments transact {db txenv err rcore l1info}. Arguments preverify_transaction {db txenv err l1info}.
Arguments transact_preverified {db txenv err rcore l1info}. Arguments transact_commit {db txenv err rcore l1info}.
Arguments call {db txenv err rcore l1info}. Arguments run_reused {db txenv err rcore l1info}.
Arguments run_fresh {db txenv err rcore l1info}.
Arguments Call {txenv}. Arguments SetSpec {txenv}.
Arguments OResult {err rcore}. Arguments OVerify {err rcore}.
