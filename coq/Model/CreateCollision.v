(* C21 model: the decision part of EvmContext::make_create_frame / make_eofcreate_frame
   (crates/revm/src/context/evm_context.rs) with JournaledState::create_account_checkpoint
   (journaled_state.rs), and what the caller of the create does with the gas
   (Interpreter::insert_create_outcome, handler last_frame_return).
   Address derivation (caller.create(nonce) / create2(salt, hash)) is abstracted: the case
   gives the target's pre-state and whether the target is a precompile.  The has_storage answer
   comes from the database layer ([db.has_storage(created_address)]; C20 / Model/Db.v). *)
From Coq Require Import ZArith List Bool Lia.
Import ListNotations.
Local Open Scope Z_scope.

Definition KECCAK_EMPTY_ : Z := 0xc5d2460186f7233c927e7db2dcc703c0e500b653ca82273b7bfad8045d85a470.
Definition CALL_STACK_LIMIT : Z := 1024.
Definition U64_MAX : Z := 18446744073709551615.
Definition pow256_ : Z := 2 ^ 256.

Record acct := mkAcct { t_nonce : Z; t_balance : Z; t_code_hash : Z }.
Record cenv := mkEnv {
  e_depth : Z;                 (* journaled_state.depth() *)
  e_osaka_ef : bool;           (* OSAKA enabled and init code starts with 0xEF00 (legacy create only) *)
  e_caller : acct;             (* the creating account as loaded in the journal *)
  e_value : Z;
  e_target_precompile : bool;  (* precompiles.contains(created_address) *)
  e_target : acct;             (* the created address as loaded from the database *)
  e_has_storage : bool;        (* db.has_storage(created_address) *)
  e_spurious : bool;           (* SPURIOUS_DRAGON enabled *)
  e_gas_limit : Z }.           (* gas passed to the create *)

Inductive cresult :=
  | RCallTooDeep | RInitCodeEF00 | ROutOfFunds | RNonceOverflowReturn
  | RCreateCollision | ROverflowPayment | RStarted.
(* post-state of the two accounts when make_create_frame returns *)
Record cpost := mkPost { p_res : cresult; p_caller : acct; p_target : acct; p_target_created : bool }.

(* create_account_checkpoint *)
Definition create_account_checkpoint (e : cenv) (caller : acct) : cpost :=
  let t := e_target e in
  if negb (t_code_hash t =? KECCAK_EMPTY_) || negb (t_nonce t =? 0) || e_has_storage e
  then mkPost RCreateCollision caller t false                 (* checkpoint_revert: nothing was changed *)
  else if pow256_ <=? t_balance t + e_value e                 (* checked_add *)
  then mkPost ROverflowPayment caller t false                 (* checkpoint_revert undoes created/touch *)
  else mkPost RStarted
         (mkAcct (t_nonce caller) (t_balance caller - e_value e) (t_code_hash caller))
         (mkAcct (if e_spurious e then 1 else t_nonce t) (t_balance t + e_value e) (t_code_hash t)) true.

Definition make_create_frame (e : cenv) : cpost :=
  let c := e_caller e in
  if CALL_STACK_LIMIT <? e_depth e then mkPost RCallTooDeep c (e_target e) false
  else if e_osaka_ef e then mkPost RInitCodeEF00 c (e_target e) false
  else if t_balance c <? e_value e then mkPost ROutOfFunds c (e_target e) false
  else if t_nonce c =? U64_MAX then mkPost RNonceOverflowReturn c (e_target e) false   (* inc_nonce = None *)
  else
    let c1 := mkAcct (t_nonce c + 1) (t_balance c) (t_code_hash c) in
    if e_target_precompile e then mkPost RCreateCollision c1 (e_target e) false
    else create_account_checkpoint e c1.

(* The result carries Gas::new(gas_limit) (nothing spent).  insert_create_outcome /
   last_frame_return give the remaining gas back to the caller for the ok and revert classes
   only; for every other result the whole passed gas stays consumed. *)
Definition gas_given_back (r : cresult) (gas_limit : Z) : Z :=
  match r with
  | RCallTooDeep | RInitCodeEF00 | ROutOfFunds => gas_limit      (* return_revert!() *)
  | RNonceOverflowReturn => gas_limit                            (* return_ok!() *)
  | RCreateCollision | ROverflowPayment => 0
  | RStarted => gas_limit                                        (* not a result: the frame owns the gas *)
  end.

(* the checks that precede the collision test *)
Definition checks_pass (e : cenv) : Prop :=
  e_depth e <= CALL_STACK_LIMIT /\ e_osaka_ef e = false /\ e_value e <= t_balance (e_caller e) /\
  t_nonce (e_caller e) <> U64_MAX /\ e_target_precompile e = false.
Definition occupied (e : cenv) : Prop :=
  t_code_hash (e_target e) <> KECCAK_EMPTY_ \/ t_nonce (e_target e) <> 0 \/ e_has_storage e = true.
