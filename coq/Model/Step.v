(* Stage C, part 1: the instruction step function of the reference interpreter.

   One Gallina function per opcode group of crates/interpreter/src/instructions/*.rs, same
   order of checks (gas!, pop!, as_usize_or_fail!, resize_memory!, host call), built from the
   component models that carry their own theorems:
     arithmetic / comparison / bitwise / shifts     Model/Arith.v        (C03)
     JUMP / JUMPI target check, jump analysis       Model/Jump.v         (C04)
     opcode availability per hardfork               Spec/GateSpec.v      (C05, the EIP table)
     memory, expansion gas                          Model/Memory.v       (C11)
     the gas meter                                  Model/Gas.v          (C13)
     dynamic gas formulas                           Model/GasCalc.v + Gen/GasConst.v (C14)
     journaled state (host calls)                   Model/Host.v         (C06, C34)
     keccak256                                      Base/Keccak.v
   The stack is a list of words, TOP FIRST.  Words are Z in [0, 2^256); addresses Z in [0, 2^160).

   Code identities: Host.v keeps a code *identity* per account.  Here the identity of a
   non-empty byte string is its keccak256 hash (as a number) and 0 stands for the empty code;
   [codes] maps identities to bytes.  Logs are kept in an append-only table; Host.v's log list
   holds indices into it (so that a revert truncates exactly as the implementation does). *)
From RevmV Require Import Base.Word.
From RevmV Require Base.Keccak Gen.GasConst Gen.Specs Spec.GateSpec.
From RevmV Require Model.Gas Model.Arith Model.Jump Model.Memory Model.GasCalc Model.Host Model.Envelope.
Local Open Scope Z_scope.

Module G := GasConst.
Module E := Envelope.
Module H := Host.
Module M := Memory.

(* ---------------------------------------------------------------- InstructionResult codes *)
Definition R_Stop := 1.            Definition R_Return := 2.         Definition R_SelfDestruct := 3.
Definition R_Revert := 16.         Definition R_CallTooDeep := 17.   Definition R_OutOfFunds := 18.
Definition R_OutOfGas := 80.       Definition R_MemoryOOG := 81.     Definition R_PrecompileOOG := 83.
Definition R_InvalidOperandOOG := 84. Definition R_OpcodeNotFound := 85.
Definition R_CallNotAllowedInsideStatic := 86. Definition R_StateChangeDuringStaticCall := 87.
Definition R_InvalidFEOpcode := 88. Definition R_InvalidJump := 89.  Definition R_NotActivated := 90.
Definition R_StackUnderflow := 91.  Definition R_StackOverflow := 92. Definition R_OutOfOffset := 93.
Definition R_CreateCollision := 94. Definition R_OverflowPayment := 95. Definition R_PrecompileError := 96.
Definition R_NonceOverflow := 97.   Definition R_CreateContractSizeLimit := 98.
Definition R_CreateContractStartingWithEF := 99. Definition R_CreateInitCodeSizeLimit := 100.
Definition R_EOFOpcodeDisabledInLegacy := 103.

(* return_ok! / return_revert! *)
Definition is_ok (r : Z) : bool := (0 <=? r) && (r <=? 4).
Definition is_revert (r : Z) : bool := (16 <=? r) && (r <=? 21).

(* ---------------------------------------------------------------- hardforks *)
Definition spec_of_z (s : Z) : Specs.spec :=
  if s =? 0 then Specs.FRONTIER else if s =? 1 then Specs.FRONTIER_THAWING
  else if s =? 2 then Specs.HOMESTEAD else if s =? 3 then Specs.DAO_FORK
  else if s =? 4 then Specs.TANGERINE else if s =? 5 then Specs.SPURIOUS_DRAGON
  else if s =? 6 then Specs.BYZANTIUM else if s =? 7 then Specs.CONSTANTINOPLE
  else if s =? 8 then Specs.PETERSBURG else if s =? 9 then Specs.ISTANBUL
  else if s =? 10 then Specs.MUIR_GLACIER else if s =? 11 then Specs.BERLIN
  else if s =? 12 then Specs.LONDON else if s =? 13 then Specs.ARROW_GLACIER
  else if s =? 14 then Specs.GRAY_GLACIER else if s =? 15 then Specs.MERGE
  else if s =? 16 then Specs.SHANGHAI else if s =? 17 then Specs.CANCUN
  else if s =? 18 then Specs.PRAGUE else if s =? 19 then Specs.OSAKA else Specs.LATEST.
Definition en (s f : Z) : bool := E.enabled s f.

(* ---------------------------------------------------------------- byte helpers *)
Definition zlen {A} (l : list A) : Z := Z.of_nat (length l).
Definition be_bytes (bs : list Z) : Z := fold_left (fun a b => a * 256 + b) bs 0.
Definition mask160 : Z := 2 ^ 160 - 1.
Definition addr_of_word (w : Z) : Z := Z.land w mask160.
(* n big-endian bytes of v *)
Definition to_be (n : nat) (v : Z) : list Z :=
  map (fun i => Z.land (Z.shiftr v (8 * (Z.of_nat n - 1 - Z.of_nat i))) 255) (seq 0 n).
Definition keccak_word (bs : list Z) : Z := Keccak.be_word (Keccak.keccak256 bs).
Definition KECCAK_EMPTY : Z := 0xc5d2460186f7233c927e7db2dcc703c0e500b653ca82273b7bfad8045d85a470.
(* [skipn]/[firstn] with a Z count that is compared before it is converted *)
Definition zskip (n : Z) (l : list Z) : list Z := if n <? zlen l then skipn (Z.to_nat n) l else [].
Definition ztake (n : Z) (l : list Z) : list Z := if n <? zlen l then firstn (Z.to_nat n) l else l.

(* ---------------------------------------------------------------- code table *)
Definition codes_t := list (Z * list Z).
Fixpoint code_lookup (cs : codes_t) (id : Z) : option (list Z) :=
  match cs with
  | [] => None
  | (k, b) :: r => if k =? id then Some b else code_lookup r id
  end.
Definition code_bytes (cs : codes_t) (id : Z) : option (list Z) :=
  if id =? 0 then Some [] else code_lookup cs id.
Definition code_id (b : list Z) : Z := match b with [] => 0 | _ => keccak_word b end.
(* Bytecode::new_raw: 0xef01 prefix = EIP-7702 designator (0xef0100 ++ 20 bytes) *)
Definition delegation_of (b : list Z) : option Z :=
  match b with
  | 0xef :: 0x01 :: 0x00 :: a => if zlen a =? 20 then Some (be_bytes a) else None
  | _ => None
  end.
Definition delegate_of_id (cs : codes_t) (id : Z) : option Z :=
  match code_bytes cs id with Some b => delegation_of b | None => None end.
Definition eip7702_code (a : Z) : list Z := 0xef :: 0x01 :: 0x00 :: to_be 20 a.

(* ---------------------------------------------------------------- the world of one case *)
Inductive pc_result := POk (gas_used : Z) (out : list Z) | POog | PErr.

Record world := mkW {
  w_spec : Z;
  w_env : E.env;                    (* what validation / settlement look at (C02, C09) *)
  w_caller : Z; w_to : option Z; w_value : Z; w_data : list Z;
  w_blob_hashes : list Z;           (* full versioned hashes *)
  w_access_list : list (Z * list Z);
  w_auth_list : list (option Z * Z * Z * Z);   (* authority (None = invalid), chain id, address, nonce *)
  w_coinbase : Z; w_number : Z; w_timestamp : Z; w_difficulty : Z; w_prevrandao : Z;
  w_accounts : list (Z * (Z * Z * Z));   (* address -> balance, nonce, code identity *)
  w_storage : list (Z * Z * Z);          (* (address, key, value) *)
  w_codes : codes_t;
  w_pre : list (Z * Z * list Z * pc_result)   (* precompile oracle: (address, gas limit, input) -> outcome *)
}.

Fixpoint acc_lookup (l : list (Z * (Z * Z * Z))) (a : Z) : option (Z * Z * Z) :=
  match l with [] => None | (k, v) :: r => if k =? a then Some v else acc_lookup r a end.
Fixpoint sto_lookup (l : list (Z * Z * Z)) (a k : Z) : Z :=
  match l with [] => 0 | (a', k', v) :: r => if (a' =? a) && (k' =? k) then v else sto_lookup r a k end.
(* CacheDB::has_storage: a non-zero slot held for the address *)
Definition has_storage (W : world) (a : Z) : bool :=
  existsb (fun t => let '(a', _, v) := t in (a' =? a) && negb (v =? 0)) (w_storage W).

Definition the_db (W : world) (cs : codes_t) : H.db :=
  H.mkDb (acc_lookup (w_accounts W)) (sto_lookup (w_storage W)) (delegate_of_id cs).

(* EmptyDB::block_hash(n) = keccak256(n.to_string()) *)
Fixpoint dec_digits (fuel : nat) (n : Z) (acc : list Z) : list Z :=
  match fuel with
  | O => acc
  | S f => let acc' := (48 + n mod 10) :: acc in if n <? 10 then acc' else dec_digits f (n / 10) acc'
  end.
Definition db_block_hash (n : Z) : Z := keccak_word (dec_digits 20 n []).

Definition is_precompile (W : world) (a : Z) : bool := GateSpec.is_precompile (w_spec W) a.

(* ---------------------------------------------------------------- transaction-global state *)
Record logrec := mkLog { l_addr : Z; l_topics : list Z; l_data : list Z }.

Record gstate := mkG {
  g_sc : H.jstate * list H.checkpoint_t;   (* journaled state, stack of open frame checkpoints *)
  g_codes : codes_t;
  g_logtab : list logrec;                  (* newest first; entry i (from the end) has identity i *)
  g_nlog : Z }.
Definition gs (G : gstate) : H.jstate := fst (g_sc G).
Definition set_s (G : gstate) (s : H.jstate) : gstate :=
  mkG (s, snd (g_sc G)) (g_codes G) (g_logtab G) (g_nlog G).
Definition set_sc (G : gstate) sc : gstate := mkG sc (g_codes G) (g_logtab G) (g_nlog G).
Definition add_code (G : gstate) (b : list Z) : gstate * Z :=
  let id := code_id b in
  if id =? 0 then (G, 0)
  else (mkG (g_sc G) ((id, b) :: g_codes G) (g_logtab G) (g_nlog G), id).
Definition gdb (W : world) (G : gstate) : H.db := the_db W (g_codes G).

(* ---------------------------------------------------------------- a frame *)
Record fctx := mkF {
  f_code : list Z;            (* original bytes *)
  f_bc : Jump.bytecode;       (* analysed: padded bytes + jump table *)
  f_input : list Z;
  f_target : Z; f_caller : Z; f_value : Z;
  f_static : bool }.

Definition padded_of (bc : Jump.bytecode) : list Z :=
  match bc with Jump.LegacyAnalyzed a => Jump.la_bytecode a | Jump.LegacyRaw b => b | _ => [] end.
Definition mk_fctx (code input : list Z) (target caller value : Z) (static : bool) : fctx :=
  mkF code (Jump.contract_new (Jump.LegacyRaw code)) input target caller value static.

Record istate := mkI {
  i_pc : Z; i_stk : list Z; i_mem : M.smem; i_gas : Gas.gas; i_rd : list Z }.
Definition set_pc I v := mkI v (i_stk I) (i_mem I) (i_gas I) (i_rd I).
Definition set_stk I v := mkI (i_pc I) v (i_mem I) (i_gas I) (i_rd I).
Definition set_mem I v := mkI (i_pc I) (i_stk I) v (i_gas I) (i_rd I).
Definition set_gas I v := mkI (i_pc I) (i_stk I) (i_mem I) v (i_rd I).
Definition set_rd I v := mkI (i_pc I) (i_stk I) (i_mem I) (i_gas I) v.
Definition istate_new (gas_limit : Z) : istate := mkI 0 [] M.mem_new (Gas.gas_new gas_limit) [].
Definition rem (I : istate) : Z := Gas.remaining (i_gas I).

Inductive scheme := SchCall | SchCallCode | SchDelegateCall | SchStaticCall.
Record callreq := mkCall {
  cq_scheme : scheme; cq_gas_limit : Z; cq_target : Z; cq_caller : Z; cq_bytecode : Z;
  cq_value : Z; cq_transfers : bool;      (* CallValue::Transfer v / Apparent v *)
  cq_static : bool; cq_input : list Z; cq_ret_off : Z; cq_ret_len : Z }.
Record createreq := mkCreate {
  kq_caller : Z; kq_salt : option Z; kq_value : Z; kq_init : list Z; kq_gas_limit : Z }.

(* outcome of one instruction *)
Inductive sres :=
| SNext (I : istate)                                (* InstructionResult::Continue *)
| SEnd (r : Z) (out : list Z) (I : istate)          (* the frame ends with result r *)
| SCall (c : callreq) (I : istate)                  (* InterpreterAction::Call *)
| SCreate (c : createreq) (I : istate)              (* InterpreterAction::Create *)
| SBad (k : Z).                                     (* 1: the model hit a panic point; 2: unsupported *)

Definition BAD_PANIC := 1.
Definition BAD_UNSUPPORTED := 2.

(* ---------------------------------------------------------------- combinators (macros.rs) *)
Definition halt (r : Z) (I : istate) : sres := SEnd r [] I.
Definition next (I : istate) : sres := SNext (set_pc I (i_pc I + 1)).
(* gas!(interp, c) *)
Definition with_gas (c : Z) (I : istate) (k : istate -> sres) : sres :=
  let '(g', ok) := Gas.record_cost (i_gas I) c in
  if ok then k (set_gas I g') else halt R_OutOfGas I.
(* gas_or_fail! *)
Definition with_gas_opt (oc : option Z) (I : istate) (k : istate -> sres) : sres :=
  match oc with Some c => with_gas c I k | None => halt R_OutOfGas I end.
(* push! *)
Definition push_next (v : Z) (I : istate) : sres :=
  if 1024 <=? zlen (i_stk I) then halt R_StackOverflow I else next (set_stk I (v :: i_stk I)).
(* as_usize_or_fail! (64-bit target) *)
Definition usize_or_fail (v : Z) (I : istate) (k : Z -> sres) : sres :=
  if v <? pow64 then k v else halt R_InvalidOperandOOG I.
(* resize_memory! *)
Definition mem_resize (I : istate) (off len : Z) (k : istate -> sres) : sres :=
  match M.resize_macro (i_mem I) (rem I) off len with
  | None => SBad BAD_PANIC
  | Some (m', g', c) =>
      if c =? 0 then k (set_gas (set_mem I m') (Gas.mkGas (Gas.limit (i_gas I)) g' (Gas.refunded (i_gas I))))
      else halt R_MemoryOOG I
  end.
Definition mem_op (r : M.mres) (I : istate) (k : istate -> sres) : sres :=
  let '(m', panicked) := r in if panicked then SBad BAD_PANIC else k (set_mem I m').
Definition sat_u64 (v : Z) : Z := Arith.as_u64_saturated v.

(* ---------------------------------------------------------------- pure instructions *)
Definition op_arith (W : world) (op : Z) (I : istate) : sres :=
  let r := Arith.step (w_spec W) op (i_stk I) (i_gas I) in
  match Arith.i_res r with
  | Arith.Continue => next (set_gas (set_stk I (Arith.i_stack r)) (Arith.i_gas r))
  | Arith.StackUnderflow => halt R_StackUnderflow I
  | Arith.OutOfGas => halt R_OutOfGas I
  | Arith.NotActivated => halt R_NotActivated I
  | Arith.OpcodeNotFound => halt R_OpcodeNotFound I
  end.

Definition op_keccak256 (I : istate) : sres :=
  match i_stk I with
  | off :: len :: r =>
      usize_or_fail len I (fun len =>
      with_gas_opt (GasCalc.keccak256_cost len) I (fun I1 =>
        if len =? 0 then next (set_stk I1 (KECCAK_EMPTY :: r))
        else usize_or_fail off I1 (fun off =>
             mem_resize I1 off len (fun I2 =>
               match M.slice (i_mem I2) off len with
               | Some bs => next (set_stk I2 (keccak_word bs :: r))
               | None => SBad BAD_PANIC
               end))))
  | _ => halt R_StackUnderflow I
  end.

(* gas!(BASE); push!(v) *)
Definition op_push_env (v : Z) (I : istate) : sres := with_gas G.BASE I (push_next v).

Definition op_calldataload (F : fctx) (I : istate) : sres :=
  with_gas G.VERYLOW I (fun I1 =>
    match i_stk I1 with
    | off :: r =>
        let off := sat_u64 off in
        let w := if off <? zlen (f_input F)
                 then be_bytes (firstn 32 (skipn (Z.to_nat off) (f_input F) ++ repeat 0 32)) else 0 in
        next (set_stk I1 (w :: r))
    | _ => halt R_StackUnderflow I1
    end).

(* CALLDATACOPY / CODECOPY: pop!(memory_offset, data_offset, len) ... set_data *)
Definition op_copy (data : list Z) (I : istate) : sres :=
  match i_stk I with
  | mo :: dof :: len :: r =>
      let I0 := set_stk I r in
      usize_or_fail len I0 (fun len =>
      with_gas_opt (GasCalc.verylowcopy_cost len) I0 (fun I1 =>
        if len =? 0 then next I1
        else usize_or_fail mo I1 (fun mo =>
             let dof := sat_u64 dof in
             mem_resize I1 mo len (fun I2 =>
               mem_op (M.set_data (i_mem I2) mo dof len data) I2 next))))
  | _ => halt R_StackUnderflow I
  end.

Definition op_returndatacopy (I : istate) : sres :=
  match i_stk I with
  | mo :: dof :: len :: r =>
      let I0 := set_stk I r in
      usize_or_fail len I0 (fun len =>
      with_gas_opt (GasCalc.verylowcopy_cost len) I0 (fun I1 =>
        let dof := sat_u64 dof in
        let data_end := sat64 (dof + len) in
        if data_end >? zlen (i_rd I1) then halt R_OutOfOffset I1
        else if len =? 0 then next I1
        else usize_or_fail mo I1 (fun mo =>
             mem_resize I1 mo len (fun I2 =>
               mem_op (M.set_data (i_mem I2) mo dof len (i_rd I2)) I2 next))))
  | _ => halt R_StackUnderflow I
  end.

Definition op_pop (I : istate) : sres :=
  with_gas G.BASE I (fun I1 =>
    match i_stk I1 with _ :: r => next (set_stk I1 r) | [] => halt R_StackUnderflow I1 end).

Definition op_mload (I : istate) : sres :=
  with_gas G.VERYLOW I (fun I1 =>
    match i_stk I1 with
    | off :: r =>
        usize_or_fail off I1 (fun off =>
        mem_resize I1 off 32 (fun I2 =>
          match M.get_u256 (i_mem I2) off with
          | Some v => next (set_stk I2 (v :: r))
          | None => SBad BAD_PANIC
          end))
    | _ => halt R_StackUnderflow I1
    end).

Definition op_mstore (I : istate) : sres :=
  with_gas G.VERYLOW I (fun I1 =>
    match i_stk I1 with
    | off :: v :: r =>
        let I1 := set_stk I1 r in
        usize_or_fail off I1 (fun off =>
        mem_resize I1 off 32 (fun I2 => mem_op (M.set_u256 (i_mem I2) off v) I2 next))
    | _ => halt R_StackUnderflow I1
    end).

Definition op_mstore8 (I : istate) : sres :=
  with_gas G.VERYLOW I (fun I1 =>
    match i_stk I1 with
    | off :: v :: r =>
        let I1 := set_stk I1 r in
        usize_or_fail off I1 (fun off =>
        mem_resize I1 off 1 (fun I2 => mem_op (M.set_byte (i_mem I2) off (Z.land v 255)) I2 next))
    | _ => halt R_StackUnderflow I1
    end).

Definition op_mcopy (I : istate) : sres :=
  match i_stk I with
  | dst :: src :: len :: r =>
      let I0 := set_stk I r in
      usize_or_fail len I0 (fun len =>
      with_gas_opt (GasCalc.verylowcopy_cost len) I0 (fun I1 =>
        if len =? 0 then next I1
        else usize_or_fail dst I1 (fun dst =>
             usize_or_fail src I1 (fun src =>
             mem_resize I1 (Z.max dst src) len (fun I2 =>
               mem_op (M.copy (i_mem I2) dst src len) I2 next)))))
  | _ => halt R_StackUnderflow I
  end.

Definition op_jump (F : fctx) (I : istate) : sres :=
  with_gas G.MID I (fun I1 =>
    match i_stk I1 with
    | t :: r =>
        match Jump.op_jump (f_bc F) (i_pc I1) t with
        | Jump.JContinue p => SNext (set_pc (set_stk I1 r) p)
        | Jump.JInvalidJump => halt R_InvalidJump I1
        end
    | _ => halt R_StackUnderflow I1
    end).
Definition op_jumpi (F : fctx) (I : istate) : sres :=
  with_gas G.HIGH I (fun I1 =>
    match i_stk I1 with
    | t :: c :: r =>
        match Jump.op_jumpi (f_bc F) (i_pc I1) t c with
        | Jump.JContinue p => SNext (set_pc (set_stk I1 r) p)
        | Jump.JInvalidJump => halt R_InvalidJump I1
        end
    | _ => halt R_StackUnderflow I1
    end).

(* PUSH1..PUSH32: gas!(VERYLOW); push_slice of the n bytes after the opcode (the padding makes
   the read total); the pointer then advances by n *)
Definition op_pushn (F : fctx) (n : Z) (I : istate) : sres :=
  with_gas G.VERYLOW I (fun I1 =>
    if 1024 <=? zlen (i_stk I1) then halt R_StackOverflow I1
    else
      let v := be_bytes (firstn (Z.to_nat n) (skipn (Z.to_nat (i_pc I1 + 1)) (padded_of (f_bc F)))) in
      SNext (set_pc (set_stk I1 (v :: i_stk I1)) (i_pc I1 + 1 + n))).

(* Stack::dup(n) on a top-first list *)
Definition op_dup (n : Z) (I : istate) : sres :=
  with_gas G.VERYLOW I (fun I1 =>
    let l := zlen (i_stk I1) in
    if l <? n then halt R_StackUnderflow I1
    else if l + 1 >? 1024 then halt R_StackOverflow I1
    else next (set_stk I1 (nth (Z.to_nat (n - 1)) (i_stk I1) 0 :: i_stk I1))).

Fixpoint set_nth (i : nat) (v : Z) (l : list Z) : list Z :=
  match l, i with
  | [], _ => []
  | _ :: r, O => v :: r
  | x :: r, S j => x :: set_nth j v r
  end.
(* Stack::swap(n) = exchange(0, n) *)
Definition op_swap (n : Z) (I : istate) : sres :=
  with_gas G.VERYLOW I (fun I1 =>
    match i_stk I1 with
    | a :: r =>
        if n >=? zlen (i_stk I1) then halt R_StackUnderflow I1
        else let b := nth (Z.to_nat (n - 1)) r 0 in
             next (set_stk I1 (b :: set_nth (Z.to_nat (n - 1)) a r))
    | [] => halt R_StackUnderflow I1
    end).

(* return_inner *)
Definition op_return (res : Z) (I : istate) : sres :=
  match i_stk I with
  | off :: len :: r =>
      let I0 := set_stk I r in
      usize_or_fail len I0 (fun len =>
        if len =? 0 then SEnd res [] I0
        else usize_or_fail off I0 (fun off =>
             mem_resize I0 off len (fun I2 =>
               match M.slice (i_mem I2) off len with
               | Some bs => SEnd res bs I2
               | None => SBad BAD_PANIC
               end)))
  | _ => halt R_StackUnderflow I
  end.

Definition op_blobhash (W : world) (I : istate) : sres :=
  with_gas G.VERYLOW I (fun I1 =>
    match i_stk I1 with
    | i :: r =>
        let i := sat_u64 i in
        let v := if i <? zlen (w_blob_hashes W) then nth (Z.to_nat i) (w_blob_hashes W) 0 else 0 in
        next (set_stk I1 (v :: r))
    | _ => halt R_StackUnderflow I1
    end).

(* Host::block_hash of Context *)
Definition host_block_hash (W : world) (requested : Z) : Z :=
  let bn := sat_u64 (w_number W) in
  if bn <? requested then 0
  else let diff := bn - requested in
       if diff =? 0 then 0
       else if diff <=? G.BLOCK_HASH_HISTORY then db_block_hash requested else 0.
Definition op_blockhash (W : world) (I : istate) : sres :=
  with_gas G.BLOCKHASH I (fun I1 =>
    match i_stk I1 with
    | n :: r => next (set_stk I1 (host_block_hash W (sat_u64 n) :: r))
    | _ => halt R_StackUnderflow I1
    end).

(* ---------------------------------------------------------------- host instructions *)
Definition hres := (gstate * sres)%type.
Definition pure (G : gstate) (r : sres) : hres := (G, r).
Definition gs_en (W : world) := GasCalc.enabled (spec_of_z (w_spec W)).

Definition op_balance (W : world) (G : gstate) (I : istate) : hres :=
  match i_stk I with
  | a :: r =>
      let a := addr_of_word a in
      let '(s1, cold) := H.load_account (gdb W G) (gs G) a in
      let bal := match H.st s1 a with Some acc => H.a_bal acc | None => 0 end in
      let c := if en (w_spec W) E.BERLIN then GasCalc.warm_cold_cost cold
               else if en (w_spec W) E.ISTANBUL then 700
               else if en (w_spec W) E.TANGERINE then 400 else 20 in
      (set_s G s1, with_gas c (set_stk I r) (push_next bal))
  | _ => (G, halt R_StackUnderflow I)
  end.

Definition op_selfbalance (W : world) (G : gstate) (F : fctx) (I : istate) : hres :=
  let '(g', ok) := Gas.record_cost (i_gas I) G.LOW in
  if ok then
    let '(s1, _) := H.load_account (gdb W G) (gs G) (f_target F) in
    let bal := match H.st s1 (f_target F) with Some acc => H.a_bal acc | None => 0 end in
    (set_s G s1, push_next bal (set_gas I g'))
  else (G, halt R_OutOfGas I).

(* Host::code: the account's code bytes *)
Definition host_code (W : world) (G : gstate) (a : Z) : gstate * option (list Z) * bool :=
  let '(s1, cold) := H.load_code (gdb W G) (gs G) a in
  let id := match H.st s1 a with Some acc => H.a_code acc | None => 0 end in
  (set_s G s1, code_bytes (g_codes G) id, cold).

Definition op_extcodesize (W : world) (G : gstate) (I : istate) : hres :=
  match i_stk I with
  | a :: r =>
      let '(G1, ob, cold) := host_code W G (addr_of_word a) in
      match ob with
      | None => (G1, SBad BAD_PANIC)
      | Some b =>
          let c := if en (w_spec W) E.BERLIN then GasCalc.warm_cold_cost cold
                   else if en (w_spec W) E.TANGERINE then 700 else 20 in
          (G1, with_gas c (set_stk I r) (push_next (zlen b)))
      end
  | _ => (G, halt R_StackUnderflow I)
  end.

Definition op_extcodehash (W : world) (G : gstate) (I : istate) : hres :=
  match i_stk I with
  | a :: r =>
      let a := addr_of_word a in
      let '(s1, cold) := H.load_code (gdb W G) (gs G) a in
      let h := match H.st s1 a with
               | Some acc => if H.is_empty_acc acc then 0
                             else if H.a_code acc =? 0 then KECCAK_EMPTY else H.a_code acc
               | None => 0 end in
      let c := if en (w_spec W) E.BERLIN then GasCalc.warm_cold_cost cold
               else if en (w_spec W) E.ISTANBUL then 700 else 400 in
      (set_s G s1, with_gas c (set_stk I r) (push_next h))
  | _ => (G, halt R_StackUnderflow I)
  end.

Definition op_extcodecopy (W : world) (G : gstate) (I : istate) : hres :=
  match i_stk I with
  | a :: mo :: cof :: len :: r =>
      let I0 := set_stk I r in
      let '(G1, ob, cold) := host_code W G (addr_of_word a) in
      match ob with
      | None => (G1, SBad BAD_PANIC)
      | Some code =>
        (G1,
         usize_or_fail len I0 (fun len =>
         with_gas_opt (GasCalc.extcodecopy_cost (spec_of_z (w_spec W)) len cold) I0 (fun I1 =>
           if len =? 0 then next I1
           else usize_or_fail mo I1 (fun mo =>
                let cof := Z.min (sat_u64 cof) (zlen code) in
                mem_resize I1 mo len (fun I2 =>
                  mem_op (M.set_data (i_mem I2) mo cof len code) I2 next)))))
      end
  | _ => (G, halt R_StackUnderflow I)
  end.

Definition op_sload (W : world) (G : gstate) (F : fctx) (I : istate) : hres :=
  match i_stk I with
  | k :: r =>
      match H.sload (gdb W G) (gs G) (f_target F) k with
      | None => (G, SBad BAD_PANIC)
      | Some (s1, v, cold) =>
          (set_s G s1, with_gas (GasCalc.sload_cost (spec_of_z (w_spec W)) cold) I
                         (fun I1 => next (set_stk I1 (v :: r))))
      end
  | _ => (G, halt R_StackUnderflow I)
  end.

Definition op_sstore (W : world) (G : gstate) (F : fctx) (I : istate) : hres :=
  if f_static F then (G, halt R_StateChangeDuringStaticCall I) else
  match i_stk I with
  | k :: v :: r =>
      let I0 := set_stk I r in
      match H.sstore (gdb W G) (gs G) (f_target F) k v with
      | None => (G, SBad BAD_PANIC)
      | Some (s1, orig, present, cold) =>
          let sr := GasCalc.mkSStore orig present v in
          (set_s G s1,
           with_gas_opt (GasCalc.sstore_cost (spec_of_z (w_spec W)) sr (rem I0) cold) I0 (fun I1 =>
             match Gas.record_refund (i_gas I1) (GasCalc.sstore_refund (spec_of_z (w_spec W)) sr) with
             | Some g' => next (set_gas I1 g')
             | None => SBad BAD_PANIC
             end))
      end
  | _ => (G, halt R_StackUnderflow I)
  end.

Definition op_tload (G : gstate) (F : fctx) (I : istate) : hres :=
  (G, with_gas G.WARM_STORAGE_READ_COST I (fun I1 =>
        match i_stk I1 with
        | k :: r => next (set_stk I1 (H.tload (gs G) (f_target F) k :: r))
        | _ => halt R_StackUnderflow I1
        end)).

Definition op_tstore (G : gstate) (F : fctx) (I : istate) : hres :=
  if f_static F then (G, halt R_StateChangeDuringStaticCall I) else
  let '(g', ok) := Gas.record_cost (i_gas I) G.WARM_STORAGE_READ_COST in
  if negb ok then (G, halt R_OutOfGas I) else
  let I1 := set_gas I g' in
  match i_stk I1 with
  | k :: v :: r => (set_s G (H.tstore (gs G) (f_target F) k v), next (set_stk I1 r))
  | _ => (G, halt R_StackUnderflow I1)
  end.

(* instructions whose host part comes after a fallible pure part are split: the pure part ends
   in a request that [step] completes against the host *)
Record callpre := mkCallPre {
  cp_scheme : scheme; cp_to : Z; cp_local : Z; cp_value : Z;
  cp_input : list Z; cp_ret_off : Z; cp_ret_len : Z }.
Inductive pre :=
| PDone (r : sres)
| PLog (l : logrec) (I : istate)            (* host.log(l), then continue with I *)
| PCall (c : callpre) (I : istate).         (* load_account_delegated, gas, InterpreterAction::Call *)

Definition op_log (F : fctx) (n : Z) (I : istate) : pre :=
  if f_static F then PDone (halt R_StateChangeDuringStaticCall I) else
  match i_stk I with
  | off :: len :: r =>
      let I0 := set_stk I r in
      if pow64 <=? len then PDone (halt R_InvalidOperandOOG I0) else
      match GasCalc.log_cost n len with
      | None => PDone (halt R_OutOfGas I0)
      | Some c =>
          let '(g', ok) := Gas.record_cost (i_gas I0) c in
          if negb ok then PDone (halt R_OutOfGas I0) else
          let I1 := set_gas I0 g' in
          let fin (I2 : istate) (data : list Z) : pre :=
            if zlen (i_stk I2) <? n then PDone (halt R_StackUnderflow I2)
            else PLog (mkLog (f_target F) (firstn (Z.to_nat n) (i_stk I2)) data)
                      (set_pc (set_stk I2 (skipn (Z.to_nat n) (i_stk I2))) (i_pc I2 + 1)) in
          if len =? 0 then fin I1 []
          else if pow64 <=? off then PDone (halt R_InvalidOperandOOG I1)
          else
            match M.resize_macro (i_mem I1) (rem I1) off len with
            | None => PDone (SBad BAD_PANIC)
            | Some (m', gr, c) =>
                if c =? 0 then
                  let I2 := set_gas (set_mem I1 m') (Gas.mkGas (Gas.limit (i_gas I1)) gr (Gas.refunded (i_gas I1))) in
                  match M.slice (i_mem I2) off len with
                  | Some bs => fin I2 bs
                  | None => PDone (SBad BAD_PANIC)
                  end
                else PDone (halt R_MemoryOOG I1)
            end
      end
  | _ => PDone (halt R_StackUnderflow I)
  end.
Definition do_log (G : gstate) (l : logrec) : gstate :=
  set_s (mkG (g_sc G) (g_codes G) (l :: g_logtab G) (g_nlog G + 1)) (H.log (gs G) (g_nlog G)).

Definition op_selfdestruct (W : world) (G : gstate) (F : fctx) (I : istate) : hres :=
  if f_static F then (G, halt R_StateChangeDuringStaticCall I) else
  match i_stk I with
  | t :: r =>
      let I0 := set_stk I r in
      match H.selfdestruct (gdb W G) (gs G) (f_target F) (addr_of_word t) with
      | None => (G, SBad BAD_PANIC)
      | Some (s1, had_value, target_exists, prev, cold) =>
          let og := if negb (en (w_spec W) E.LONDON) && negb prev
                    then Gas.record_refund (i_gas I0) G.SELFDESTRUCT else Some (i_gas I0) in
          match og with
          | None => (G, SBad BAD_PANIC)
          | Some g1 =>
              (set_s G s1,
               with_gas (GasCalc.selfdestruct_cost (spec_of_z (w_spec W)) had_value target_exists cold)
                        (set_gas I0 g1) (fun I1 => SEnd R_SelfDestruct [] I1))
          end
      end
  | _ => (G, halt R_StackUnderflow I)
  end.

(* ---------------------------------------------------------------- CALL family / CREATE *)
(* call_helpers::resize_memory: offset is unused when len = 0 *)
Definition call_mem (I : istate) (off len : Z) : sres + (istate * Z * Z) :=
  if pow64 <=? len then inl (halt R_InvalidOperandOOG I)
  else if len =? 0 then inr (I, 0, 0)
  else if pow64 <=? off then inl (halt R_InvalidOperandOOG I)
  else match M.resize_macro (i_mem I) (rem I) off len with
       | None => inl (SBad BAD_PANIC)
       | Some (m', gr, c) =>
           if c =? 0 then inr (set_gas (set_mem I m') (Gas.mkGas (Gas.limit (i_gas I)) gr (Gas.refunded (i_gas I))), off, len)
           else inl (halt R_MemoryOOG I)
       end.

(* pops, the static check of CALL, get_memory_input_and_out_ranges *)
Definition op_call_pre (F : fctx) (sch : scheme) (I : istate) : pre :=
  let has_value_operand := match sch with SchCall | SchCallCode => true | _ => false end in
  match i_stk I with
  | lg :: to :: r =>
      let popv := if has_value_operand
                  then match r with v :: r' => Some (v, r') | [] => None end
                  else Some (0, r) in
      match popv with
      | None => PDone (halt R_StackUnderflow I)
      | Some (value, r1) =>
          let I0 := set_stk I r1 in
          if value <? 0 then PDone (SBad BAD_PANIC) else       (* a U256 is never negative *)
          if (match sch with SchCall => f_static F && negb (value =? 0) | _ => false end)
          then PDone (halt R_CallNotAllowedInsideStatic I0)
          else
            match i_stk I0 with
            | io :: il :: oo :: ol :: r2 =>
                let I1 := set_stk I0 r2 in
                match call_mem I1 io il with
                | inl e => PDone e
                | inr (I2, io, il) =>
                    match (if il =? 0 then Some [] else M.slice (i_mem I2) io il) with
                    | None => PDone (SBad BAD_PANIC)
                    | Some input =>
                        match call_mem I2 oo ol with
                        | inl e => PDone e
                        | inr (I3, oo, ol) =>
                            PCall (mkCallPre sch (addr_of_word to) (sat_u64 lg) value input oo ol) I3
                        end
                    end
                end
            | _ => PDone (halt R_StackUnderflow I0)
            end
      end
  | _ => PDone (halt R_StackUnderflow I)
  end.

(* load_account_delegated, calc_call_gas, gas!(gas_limit), the stipend, the CallInputs *)
Definition op_call_post (W : world) (G : gstate) (F : fctx) (c : callpre) (I : istate) : hres :=
  let sch := cp_scheme c in
  let to := cp_to c in
  let value := cp_value c in
  let has_transfer := negb (value =? 0) in
  let '(s1, cold, empty, dcold) := H.load_account_delegated (gdb W G) (gs G) to in
  let empty := match sch with SchCall => empty | _ => false end in
  let cost := GasCalc.call_cost (spec_of_z (w_spec W)) has_transfer cold dcold empty in
  (set_s G s1,
   with_gas cost I (fun I1 =>
     let gl := if en (w_spec W) E.TANGERINE
               then Z.min (Gas.remaining_63_of_64_parts (i_gas I1)) (cp_local c) else cp_local c in
     with_gas gl I1 (fun I2 =>
       let gl := if has_transfer then sat64 (gl + G.CALL_STIPEND) else gl in
       let input := cp_input c in let oo := cp_ret_off c in let ol := cp_ret_len c in
       let q :=
         match sch with
         | SchCall => mkCall sch gl to (f_target F) to value true (f_static F) input oo ol
         | SchCallCode => mkCall sch gl (f_target F) (f_target F) to value true (f_static F) input oo ol
         | SchDelegateCall => mkCall sch gl (f_target F) (f_caller F) to (f_value F) false (f_static F) input oo ol
         | SchStaticCall => mkCall sch gl to (f_target F) to 0 true true input oo ol
         end in
       SCall q I2))).

Definition MAX_INITCODE_SIZE := G.MAX_INITCODE_SIZE.

Definition op_create (W : world) (F : fctx) (is2 : bool) (I : istate) : sres :=
  if f_static F then halt R_StateChangeDuringStaticCall I else
  if is2 && negb (en (w_spec W) E.PETERSBURG) then halt R_NotActivated I else
  match i_stk I with
  | value :: cof :: len :: r =>
      let I0 := set_stk I r in
      usize_or_fail len I0 (fun len =>
        let after_code (I1 : istate) (code : list Z) : sres :=
          let scheme_part (I2 : istate) (salt : option Z) : sres :=
            let gl := rem I2 in
            let gl := if en (w_spec W) E.TANGERINE then gl - gl / 64 else gl in
            with_gas gl I2 (fun I3 => SCreate (mkCreate (f_target F) salt value code gl) I3) in
          if is2 then
            match i_stk I1 with
            | salt :: r2 =>
                let I1' := set_stk I1 r2 in
                with_gas_opt (GasCalc.create2_cost len) I1' (fun I2 => scheme_part I2 (Some salt))
            | [] => halt R_StackUnderflow I1
            end
          else with_gas G.CREATE I1 (fun I2 => scheme_part I2 None) in
        if len =? 0 then after_code I0 []
        else
          let shanghai_part (k : istate -> sres) : sres :=
            if en (w_spec W) E.SHANGHAI then
              if len >? MAX_INITCODE_SIZE then halt R_CreateInitCodeSizeLimit I0
              else with_gas_opt (GasCalc.initcode_cost len) I0 k
            else k I0 in
          shanghai_part (fun I1 =>
            usize_or_fail cof I1 (fun cof =>
              mem_resize I1 cof len (fun I2 =>
                match M.slice (i_mem I2) cof len with
                | Some code => after_code I2 code
                | None => SBad BAD_PANIC
                end))))
  | _ => halt R_StackUnderflow I
  end.

(* ---------------------------------------------------------------- dispatch *)
Definition opcode_at (F : fctx) (pc : Z) : Z := nth (Z.to_nat pc) (padded_of (f_bc F)) 0.

Definition effective_gas_price (W : world) : Z := E.effective_gas_price (w_env W).

Definition finish_pre (W : world) (G : gstate) (F : fctx) (p : pre) : hres :=
  match p with
  | PDone r => (G, r)
  | PLog l I' => (do_log G l, SNext I')
  | PCall c I' => op_call_post W G F c I'
  end.

Definition step (W : world) (G : gstate) (F : fctx) (I : istate) : hres :=
  let op := opcode_at F (i_pc I) in
  let spec := w_spec W in
  (* CREATE2 tests is_static before the hardfork check; every other instruction starts with check! *)
  if (op =? 0xf5) && f_static F then (G, halt R_StateChangeDuringStaticCall I) else
  let c := GateSpec.gate spec op GateSpec.Legacy in
  if c =? GateSpec.C_LATER then (G, halt R_NotActivated I)
  else if c =? GateSpec.C_UNDEFINED then (G, halt R_OpcodeNotFound I)
  else if c =? GateSpec.C_EOF_ONLY then (G, halt R_EOFOpcodeDisabledInLegacy I)
  else if c =? GateSpec.C_INVALID then (G, halt R_InvalidFEOpcode I)
  else if negb (c =? GateSpec.C_DEFINED) then (G, SBad BAD_UNSUPPORTED)
  else
  if op =? 0x00 then (G, SEnd R_Stop [] I)
  else if op <=? 0x1d then (G, op_arith W op I)
  else if op =? 0x20 then (G, op_keccak256 I)
  else if op =? 0x30 then (G, op_push_env (f_target F) I)
  else if op =? 0x31 then op_balance W G I
  else if op =? 0x32 then (G, op_push_env (w_caller W) I)
  else if op =? 0x33 then (G, op_push_env (f_caller F) I)
  else if op =? 0x34 then (G, op_push_env (f_value F) I)
  else if op =? 0x35 then (G, op_calldataload F I)
  else if op =? 0x36 then (G, op_push_env (zlen (f_input F)) I)
  else if op =? 0x37 then (G, op_copy (f_input F) I)
  else if op =? 0x38 then (G, op_push_env (zlen (f_code F)) I)
  else if op =? 0x39 then (G, op_copy (f_code F) I)
  else if op =? 0x3a then (G, op_push_env (effective_gas_price W) I)
  else if op =? 0x3b then op_extcodesize W G I
  else if op =? 0x3c then op_extcodecopy W G I
  else if op =? 0x3d then (G, op_push_env (zlen (i_rd I)) I)
  else if op =? 0x3e then (G, op_returndatacopy I)
  else if op =? 0x3f then op_extcodehash W G I
  else if op =? 0x40 then (G, op_blockhash W I)
  else if op =? 0x41 then (G, op_push_env (w_coinbase W) I)
  else if op =? 0x42 then (G, op_push_env (w_timestamp W) I)
  else if op =? 0x43 then (G, op_push_env (w_number W) I)
  else if op =? 0x44 then (G, op_push_env (if en spec E.MERGE then w_prevrandao W else w_difficulty W) I)
  else if op =? 0x45 then (G, op_push_env (E.b_gas_limit (E.e_block (w_env W))) I)
  else if op =? 0x46 then (G, op_push_env (E.c_chain_id (E.e_cfg (w_env W))) I)
  else if op =? 0x47 then op_selfbalance W G F I
  else if op =? 0x48 then (G, op_push_env (E.b_basefee (E.e_block (w_env W))) I)
  else if op =? 0x49 then (G, op_blobhash W I)
  else if op =? 0x4a then (G, op_push_env (match E.b_blob_gasprice (E.e_block (w_env W)) with Some p => p | None => 0 end) I)
  else if op =? 0x50 then (G, op_pop I)
  else if op =? 0x51 then (G, op_mload I)
  else if op =? 0x52 then (G, op_mstore I)
  else if op =? 0x53 then (G, op_mstore8 I)
  else if op =? 0x54 then op_sload W G F I
  else if op =? 0x55 then op_sstore W G F I
  else if op =? 0x56 then (G, op_jump F I)
  else if op =? 0x57 then (G, op_jumpi F I)
  else if op =? 0x58 then (G, op_push_env (i_pc I) I)
  else if op =? 0x59 then (G, op_push_env (M.mlen (i_mem I)) I)
  else if op =? 0x5a then (G, with_gas G.BASE I (fun I1 => push_next (rem I1) I1))
  else if op =? 0x5b then (G, with_gas G.JUMPDEST I next)
  else if op =? 0x5c then op_tload G F I
  else if op =? 0x5d then op_tstore G F I
  else if op =? 0x5e then (G, op_mcopy I)
  else if op =? 0x5f then (G, op_push_env 0 I)
  else if op <=? 0x7f then (G, op_pushn F (op - 0x5f) I)
  else if op <=? 0x8f then (G, op_dup (op - 0x7f) I)
  else if op <=? 0x9f then (G, op_swap (op - 0x8f) I)
  else if op <=? 0xa4 then finish_pre W G F (op_log F (op - 0xa0) I)
  else if op =? 0xf0 then (G, op_create W F false I)
  else if op =? 0xf1 then finish_pre W G F (op_call_pre F SchCall I)
  else if op =? 0xf2 then finish_pre W G F (op_call_pre F SchCallCode I)
  else if op =? 0xf3 then (G, op_return R_Return I)
  else if op =? 0xf4 then finish_pre W G F (op_call_pre F SchDelegateCall I)
  else if op =? 0xf5 then (G, op_create W F true I)
  else if op =? 0xfa then finish_pre W G F (op_call_pre F SchStaticCall I)
  else if op =? 0xfd then (G, op_return R_Revert I)
  else if op =? 0xff then op_selfdestruct W G F I
  else (G, SBad BAD_UNSUPPORTED).
