(* The EOF validator model never reaches its [VPanic] outcome (an out-of-range index, or a loop
   running out of the fuel the model gives it): part 1, one code section. *)
From RevmV Require Import Model.Eof Model.EofValidate Proofs.EofProofs Proofs.EofValidateProofs
  Proofs.EofValidateTables Proofs.EofValidateStep Proofs.EofValidateDispatch Proofs.EofValidateProofs2
  Proofs.EofValidateSection.
From Coq Require Import ZArith List Lia Bool.
Import ListNotations.
Local Open Scope Z_scope.

Definition np {A} (r : vr A) : Prop := r <> VPanic.

Lemma vbind_np {A B} (r : vr A) (f : A -> vr B) :
  np r -> (forall a, r = VOk a -> np (f a)) -> np (vbind r f).
Proof. unfold np. intros Hr Hf. destruct r; cbn [vbind]; try congruence. apply Hf. reflexivity. Qed.

Lemma read_u16_np code i : 0 <= i -> i + 1 < len code -> exists x, read_u16_at code i = VOk x.
Proof.
  intros H0 H1. unfold read_u16_at.
  destruct (get_defined code i ltac:(lia)) as (h & ->). destruct (get_defined code (i + 1) ltac:(lia)) as (l & ->).
  cbn [vidx vbind]. eauto.
Qed.
Lemma read_i16_np code i : 0 <= i -> i + 1 < len code -> exists x, read_i16_at code i = VOk x.
Proof. intros H0 H1. unfold read_i16_at. destruct (read_u16_np code i H0 H1) as (u & ->). cbn [vbind]. eauto. Qed.

Lemma mark_np : forall cnt J from, 0 <= from -> from + Z.of_nat cnt <= len J -> np (mark_immediates J from cnt).
Proof.
  induction cnt as [|c IH]; intros J from H0 H1; cbn [mark_immediates]; [unfold np; discriminate|].
  destruct (nth_z_defined J from ltac:(lia)) as (inf & ->). cbn [vidx vbind].
  destruct (is_jumpdest inf); [unfold np; discriminate|]. apply IH; [lia|].
  unfold len in *. rewrite upd_z_length. lia.
Qed.

Lemma rjumpv_np code i add : forall cnt v, 0 <= i -> 0 <= v -> i + 2 + 2 * (v + Z.of_nat cnt) <= len code ->
  np (rjumpv_targets code i add v cnt).
Proof.
  induction cnt as [|c IH]; intros v H0 Hv H1; cbn [rjumpv_targets]; [unfold np; discriminate|].
  destruct (read_i16_np code (i + 2 + 2 * v) ltac:(lia) ltac:(lia)) as (off & ->). cbn [vbind].
  apply vbind_np; [apply IH; lia|]. intros a _. unfold np. discriminate.
Qed.

Lemma process_np : forall targets J clen i ns nb, clen = len J -> np (process_jumps J clen i ns nb targets).
Proof.
  induction targets as [|t rest IH]; intros J clen i ns nb Hl; cbn [process_jumps]; [unfold np; discriminate|].
  destruct (Z.ltb_spec t 0); [unfold np; discriminate|].
  destruct (Z.geb_spec t clen); [unfold np; discriminate|].
  destruct (nth_z_defined J t ltac:(lia)) as (tj & ->). cbn [vidx vbind].
  destruct (is_immediate tj); [unfold np; discriminate|].
  destruct (t <=? i).
  - destruct (negb (biggest tj =? nb)); [unfold np; discriminate|].
    destruct (negb (smallest tj =? ns)); [unfold np; discriminate|].
    apply IH. unfold len in *. rewrite upd_z_length. exact Hl.
  - apply IH. unfold len in *. rewrite upd_z_length. exact Hl.
Qed.

Lemma imm_table op o : op_info op = Some o ->
  ((op = OP_RJUMP \/ op = OP_RJUMPI \/ op = OP_CALLF \/ op = OP_JUMPF \/ op = OP_DATALOADN) -> op_imm o = 2) /\
  ((op = OP_RJUMPV \/ op = OP_EOFCREATE \/ op = OP_RETURNCONTRACT \/ op = OP_DUPN \/ op = OP_SWAPN \/ op = OP_EXCHANGE) -> op_imm o = 1).
Proof.
  intros E. split; intros H;
    repeat (destruct H as [H|H]); subst op; vm_compute in E; inversion E; reflexivity.
Qed.

Lemma goid_subs t c tr d : get_or_insert_differs t c = (tr, d) -> subs tr = subs t /\ codes tr = codes t.
Proof.
  unfold get_or_insert_differs. destruct (this_type t); intros H; inversion H; subst; split; reflexivity.
Qed.

Ltac np_done :=
  unfold np;
  repeat (match goal with
          | |- (if ?c then _ else _) <> _ => destruct c
          | |- (let '(_, _) := ?p in _) <> _ => destruct p
          end);
  try discriminate.

Lemma access_code_np tr idx : 0 <= idx < len (codes tr) -> exists tr', access_code tr idx = VOk tr'.
Proof. intros H. unfold access_code. destruct (nth_z_defined (codes tr) idx H) as (w & ->). cbn [vidx vbind]. eauto. Qed.
Lemma set_sub_np tr idx ct : 0 <= idx < len (subs tr) -> np (set_subcontainer_type tr idx ct).
Proof.
  intros H. unfold set_subcontainer_type. destruct (nth_z_defined (subs tr) idx H) as (w & ->). cbn [vidx vbind].
  destruct w as [c|]; [destruct (code_type_eqb c ct)|]; unfold np; discriminate.
Qed.

Lemma dispatch_np code ds tt nc types s op o ti J :
  bytes_ok code -> get code (l_i s) = Some op -> op_info op = Some o ->
  (op_imm o <> 0 -> l_i s + op_imm o < len code) -> length J = length code ->
  len (codes (l_tracker s)) = len types -> len (subs (l_tracker s)) = nc ->
  np (dispatch code ds tt nc types s op o ti J).
Proof.
  intros Hb Eop Eo Himm HJ Hc Hs. pose proof (get_lt _ _ _ Eop) as Bi.
  destruct (imm_table _ _ Eo) as (I2 & I1). unfold dispatch. cbv zeta.
  destruct ((op =? OP_RJUMP) || (op =? OP_RJUMPI)) eqn:B1.
  { apply orb_true_iff in B1. rewrite !Z.eqb_eq in B1. specialize (I2 ltac:(tauto)).
    destruct (read_i16_np code (l_i s + 1) ltac:(lia) ltac:(lia)) as (x & ->). cbn [vbind]. np_done. }
  destruct (Z.eqb_spec op OP_RJUMPV) as [B2|B2].
  { specialize (I1 ltac:(tauto)).
    destruct (get_defined code (l_i s + 1) ltac:(lia)) as (mx & Emx). rewrite Emx. cbn [vidx vbind].
    pose proof (get_byte _ _ _ Hb Emx) as Bm.
    destruct (Z.geb_spec (l_i s + 1 + (mx + 1) * 2) (len code)); [unfold np; discriminate|].
    apply vbind_np; [apply mark_np; [lia|]; unfold len in *; rewrite HJ; rewrite Z2Nat.id; lia|].
    intros J3 _. apply vbind_np; [apply rjumpv_np; try lia; rewrite Z2Nat.id; lia|].
    intros tg _. unfold np. discriminate. }
  destruct (Z.eqb_spec op OP_CALLF) as [B3|B3].
  { specialize (I2 ltac:(tauto)).
    destruct (read_u16_np code (l_i s + 1) ltac:(lia) ltac:(lia)) as (x & ->). cbn [vbind].
    destruct (nth_z types x) as [tgt|] eqn:En; [|unfold np; discriminate]. apply nth_z_lt in En.
    destruct (is_non_returning tgt); [unfold np; discriminate|].
    destruct (access_code_np (l_tracker s) x ltac:(lia)) as (tr' & ->). cbn [vbind]. np_done. }
  destruct (Z.eqb_spec op OP_JUMPF) as [B4|B4].
  { specialize (I2 ltac:(tauto)).
    destruct (read_u16_np code (l_i s + 1) ltac:(lia) ltac:(lia)) as (x & ->). cbn [vbind].
    destruct (nth_z types x) as [tgt|] eqn:En; [|unfold np; discriminate]. apply nth_z_lt in En.
    destruct (_ >? STACK_LIMIT); [unfold np; discriminate|].
    destruct (access_code_np (l_tracker s) x ltac:(lia)) as (tr' & ->). cbn [vbind]. np_done. }
  destruct (Z.eqb_spec op OP_EOFCREATE) as [B5|B5].
  { specialize (I1 ltac:(tauto)).
    destruct (get_defined code (l_i s + 1) ltac:(lia)) as (x & Ex). rewrite Ex. cbn [vidx vbind].
    pose proof (get_byte _ _ _ Hb Ex) as Bx.
    destruct (Z.geb_spec x nc); [unfold np; discriminate|].
    apply vbind_np; [apply set_sub_np; lia|]. intros tr' _. unfold np. discriminate. }
  destruct (Z.eqb_spec op OP_RETURNCONTRACT) as [B6|B6].
  { specialize (I1 ltac:(tauto)).
    destruct (get_defined code (l_i s + 1) ltac:(lia)) as (x & Ex). rewrite Ex. cbn [vidx vbind].
    pose proof (get_byte _ _ _ Hb Ex) as Bx.
    destruct (Z.geb_spec x nc); [unfold np; discriminate|].
    destruct (get_or_insert_differs (l_tracker s) ReturnContract) as [tr d] eqn:Eg.
    apply goid_subs in Eg. destruct Eg as (Eg & _).
    destruct d; [unfold np; discriminate|].
    apply vbind_np; [apply set_sub_np; rewrite Eg; lia|]. intros tr' _. unfold np. discriminate. }
  destruct ((op =? OP_RETURN) || (op =? OP_STOP)); [np_done|].
  destruct (Z.eqb_spec op OP_DATALOADN) as [B8|B8].
  { specialize (I2 ltac:(tauto)).
    destruct (read_u16_np code (l_i s + 1) ltac:(lia) ltac:(lia)) as (x & ->). cbn [vbind]. np_done. }
  destruct (op =? OP_RETF); [np_done|].
  destruct (Z.eqb_spec op OP_DUPN) as [B10|B10].
  { specialize (I1 ltac:(tauto)).
    destruct (get_defined code (l_i s + 1) ltac:(lia)) as (x & ->). cbn [vidx vbind]. np_done. }
  destruct (Z.eqb_spec op OP_SWAPN) as [B11|B11].
  { specialize (I1 ltac:(tauto)).
    destruct (get_defined code (l_i s + 1) ltac:(lia)) as (x & ->). cbn [vidx vbind]. np_done. }
  destruct (Z.eqb_spec op OP_EXCHANGE) as [B12|B12].
  { specialize (I1 ltac:(tauto)).
    destruct (get_defined code (l_i s + 1) ltac:(lia)) as (x & ->). cbn [vidx vbind]. np_done. }
  np_done.
Qed.

Lemma step_np code ds tt nc types s :
  bytes_ok code -> length (l_jumps s) = length code -> 0 <= l_i s < len code ->
  len (codes (l_tracker s)) = len types -> len (subs (l_tracker s)) = nc ->
  np (step code ds tt nc types s).
Proof.
  intros Hb HJ Bi Hc Hs. rewrite step_unfold. cbv zeta.
  destruct (get_defined code (l_i s) Bi) as (op & Eop). rewrite Eop. cbn [vidx vbind].
  destruct (op_info op) as [o|] eqn:Eo; [|unfold np; discriminate].
  destruct (op_not_eof o); [unfold np; discriminate|].
  destruct (nth_z_defined (l_jumps s) (l_i s)) as (ti0 & Eti); [unfold len in *; lia|].
  rewrite Eti. cbn [vidx vbind].
  destruct (l_after_term s && negb (is_jumpdest (cur_info s ti0))); [unfold np; discriminate|].
  pose proof (op_info_imm_nonneg _ _ Eo) as Himm.
  set (J1 := upd_z (l_jumps s) (l_i s) (cur_info s ti0)).
  assert (L1 : length J1 = length code) by (unfold J1; rewrite upd_z_length; exact HJ).
  apply vbind_np.
  { destruct (op_imm o =? 0); cbn [negb]; [unfold np; discriminate|].
    destruct (Z.geb_spec (l_i s + op_imm o) (len code)); [unfold np; discriminate|].
    apply mark_np; [lia|]. unfold len in *. rewrite L1, Z2Nat.id; lia. }
  intros J2 EJ2.
  assert (L2 : length J2 = length code /\ (op_imm o <> 0 -> l_i s + op_imm o < len code)).
  { destruct (Z.eqb_spec (op_imm o) 0) as [E0|E0]; cbn [negb] in EJ2.
    - inversion EJ2. subst J2. split; [exact L1|lia].
    - destruct (Z.geb_spec (l_i s + op_imm o) (len code)); [discriminate|].
      apply mark_immediates_spec in EJ2; [|lia]. destruct EJ2 as ((L & _) & _). split; [congruence|lia]. }
  destruct L2 as (L2 & Hlt).
  apply vbind_np; [apply dispatch_np; assumption|].
  intros m Em. destruct m as [[[[[[J3 diff] req] add] targets] returning] tr].
  destruct (req >? smallest (cur_info s ti0)); [unfold np; discriminate|].
  apply vbind_np; [|intros; unfold np; discriminate].
  apply process_np.
  destruct (dispatch_shape _ _ _ _ _ _ _ _ _ _ _ _ _ _ _ _ _ Em Eop) as (_ & Hsh).
  destruct (op =? OP_RJUMPV).
  - destruct Hsh as (mx & _ & _ & _ & Hm). apply mark_immediates_spec in Hm; [|lia].
    destruct Hm as ((L & _) & _). unfold len. congruence.
  - destruct Hsh as (_ & ->). unfold len. congruence.
Qed.

Lemma code_loop_np code ds tt nc types tr0 :
  bytes_ok code -> len (codes tr0) = len types -> len (subs tr0) = nc ->
  forall fuel s, Inv1 code (len types) nc ds s -> InvT code tr0 s ->
    len code - l_i s <= Z.of_nat fuel -> np (code_loop fuel code ds tt nc types s).
Proof.
  intros Hb Hc Hs. induction fuel as [|f IH]; intros s I1 IT Hf; cbn [code_loop];
    destruct (Z.ltb_spec (l_i s) (len code)) as [Hlt|Hge]; try (unfold np; discriminate); [lia|].
  pose proof I1 as (L & R & _). pose proof IT as ((T1 & T2 & _) & _).
  pose proof (reach_nonneg _ _ Hb R) as I0.
  apply vbind_np.
  - apply step_np; try assumption; try lia; unfold len in *; congruence.
  - intros s' Es. pose proof (step_table _ _ _ _ _ _ _ Hb Es) as (_ & _ & _ & Bi & _).
    apply IH; [eapply step_Inv1; eassumption|eapply step_InvT; eassumption|lia].
Qed.

(* validate_eof_code never panics when the section index is in range and the tracker has one
   flag per code section (= types entry) and one slot per sub-container *)
Theorem validate_eof_code_np code ds idx nc types tr :
  bytes_ok code -> 0 <= idx < len types -> len (codes tr) = len types -> len (subs tr) = nc ->
  np (validate_eof_code code ds idx nc types tr).
Proof.
  intros Hb Bi Hc Hs. unfold validate_eof_code.
  destruct (nth_z_defined types idx Bi) as (tt & ->). cbn [vidx vbind].
  apply vbind_np.
  - apply (code_loop_np code ds tt nc types tr Hb Hc Hs).
    + apply Inv1_init. exact Hb.
    + split; [apply tr_le_refl|]. cbn [l_i]. intros p Hp Hlt. pose proof (reach_nonneg _ _ Hb Hp). lia.
    + cbn [l_i]. unfold len. lia.
  - intros sf _. np_done.
Qed.
