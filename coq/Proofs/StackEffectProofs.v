(* C25 (e): the abstract stack effect of Model/ControlFlow.v ([stack_effect inputs outputs len], the
   checks of the pop!/push! macros over the reflected (inputs, outputs)) agrees with the stack
   methods of Model/Stack.v (C12) that the stack opcodes call: push (PUSH0, PUSHn, PC, ...),
   pop (POP), dup(n) (DUPn), swap(n) (SWAPn). *)
From Coq Require Import ZifyBool.
From RevmV Require Import Base.Word Gen.OpInfo Model.ControlFlow.
From RevmV Require Model.Stack Proofs.StackProofs.
Local Open Scope Z_scope.

Lemma push_effect d v :
  match stack_effect 0 1 (Stack.slen d) with
  | Some l => snd (Stack.push d v) = Stack.Ok 0 /\ Stack.slen (fst (Stack.push d v)) = l
  | None => Stack.slen d <= 1024 -> Stack.push d v = (d, Stack.Err Stack.StackOverflow)
  end.
Proof.
  unfold stack_effect, Stack.push, STACK_LIMIT, Stack.STACK_LIMIT.
  pose proof (StackProofs.slen_nonneg d) as H0.
  destruct (Stack.slen d <? 0) eqn:E0; [lia|].
  destruct (1024 <? Stack.slen d - 0 + 1) eqn:E1.
  - intros Hle. destruct (Stack.slen d =? 1024) eqn:E2; [reflexivity|lia].
  - destruct (Stack.slen d =? 1024) eqn:E2; [lia|]. cbn [fst snd]. split; [reflexivity|].
    rewrite StackProofs.slen_app. unfold Stack.slen at 2. cbn. lia.
Qed.

Lemma pop_effect d :
  Stack.slen d <= 1024 ->
  match stack_effect 1 0 (Stack.slen d) with
  | Some l => (exists v, snd (Stack.pop d) = Stack.Ok v) /\ Stack.slen (fst (Stack.pop d)) = l
  | None => Stack.pop d = (d, Stack.Err Stack.StackUnderflow)
  end.
Proof.
  intros Hle. unfold stack_effect, STACK_LIMIT.
  destruct d as [|a t].
  - cbn. reflexivity.
  - destruct (@exists_last _ (a :: t)) as (r & x & E); [discriminate|]. rewrite E in *.
    rewrite StackProofs.pop_snoc. rewrite StackProofs.slen_app in *.
    change (Stack.slen [x]) with 1 in *. pose proof (StackProofs.slen_nonneg r) as H0.
    destruct (Stack.slen r + 1 <? 1) eqn:E0; [lia|].
    destruct (1024 <? Stack.slen r + 1 - 1 + 0) eqn:E1; [lia|].
    cbn [fst snd]. split; [eexists; reflexivity|lia].
Qed.

Lemma dup_effect d n :
  0 < n -> Stack.slen d <= 1024 ->
  match stack_effect n (n + 1) (Stack.slen d) with
  | Some l => snd (Stack.dup d n) = Stack.Ok 0 /\ Stack.slen (fst (Stack.dup d n)) = l
  | None => exists e, Stack.dup d n = (d, Stack.Err e) /\ (e = Stack.StackUnderflow \/ e = Stack.StackOverflow)
  end.
Proof.
  intros Hn Hle. unfold stack_effect, Stack.dup, STACK_LIMIT, Stack.STACK_LIMIT.
  destruct (n >? 0) eqn:En; [|lia].
  destruct (Stack.slen d <? n) eqn:E0; [eexists; split; [reflexivity|left; reflexivity]|].
  destruct (1024 <? Stack.slen d - n + (n + 1)) eqn:E1.
  - destruct (Stack.slen d + 1 >? 1024) eqn:E2; [|lia]. eexists; split; [reflexivity|right; reflexivity].
  - destruct (Stack.slen d + 1 >? 1024) eqn:E2; [lia|]. cbn [fst snd]. split; [reflexivity|].
    rewrite StackProofs.slen_app. unfold Stack.slen at 2. cbn. lia.
Qed.

Lemma swap_effect d n :
  0 < n < pow64 -> Stack.slen d <= 1024 ->
  match stack_effect (n + 1) (n + 1) (Stack.slen d) with
  | Some l => snd (Stack.swap d n) = Stack.Ok 0 /\ Stack.slen (fst (Stack.swap d n)) = l
  | None => Stack.swap d n = (d, Stack.Err Stack.StackUnderflow)
  end.
Proof.
  intros Hn Hle. unfold stack_effect, Stack.swap, Stack.exchange, STACK_LIMIT.
  destruct (n >? 0) eqn:En; [|lia].
  assert (Hc : checked64 (0 + n) = Some n).
  { unfold checked64, is_u64. cbn [Z.add]. destruct ((0 <=? n) && (n <? pow64)) eqn:E; [reflexivity|lia]. }
  rewrite Hc.
  destruct (Stack.slen d <? n + 1) eqn:E0.
  - destruct (n >=? Stack.slen d) eqn:E1; [reflexivity|lia].
  - destruct (n >=? Stack.slen d) eqn:E1; [lia|].
    destruct (1024 <? Stack.slen d - (n + 1) + (n + 1)) eqn:E2; [lia|].
    cbn [fst snd]. split; [reflexivity|]. rewrite !StackProofs.zupd_length. lia.
Qed.

(* the reflected (inputs, outputs) of the stack opcodes are the arguments used above *)
Lemma stack_opcodes_io :
  map (fun op => (op_inputs op, op_outputs op)) [0x50; 0x5f; 0x60; 0x7f; 0x58; 0x80; 0x8f; 0x90; 0x9f] =
  [(1, 0); (0, 1); (0, 1); (0, 1); (0, 1); (1, 2); (16, 17); (2, 2); (17, 17)].
Proof. vm_compute. reflexivity. Qed.

Lemma dup_swap_io n :
  1 <= n <= 16 ->
  op_inputs (0x7f + n) = n /\ op_outputs (0x7f + n) = n + 1 /\
  op_inputs (0x8f + n) = n + 1 /\ op_outputs (0x8f + n) = n + 1.
Proof.
  intros H.
  assert (n = 1 \/ n = 2 \/ n = 3 \/ n = 4 \/ n = 5 \/ n = 6 \/ n = 7 \/ n = 8 \/ n = 9 \/ n = 10 \/
          n = 11 \/ n = 12 \/ n = 13 \/ n = 14 \/ n = 15 \/ n = 16) as C by lia.
  repeat (destruct C as [C|C]; [subst n; vm_compute; repeat split|]). subst n; vm_compute; repeat split.
Qed.
