(* C16 preservation, part 2: BundleAccount::update_and_create_revert (and the insertion of an
   address the bundle does not know) preserves the per-account invariant, for every reachable
   (bundle status, merged transition status) cell. *)
From stdpp Require Import gmap.
From Coq Require Import ZArith Lia.
From RevmV Require Import Model.Bundle Spec.BundleSpec Spec.BundleHist Proofs.BundleProofs Proofs.BundleProofsBase.
Local Open Scope Z_scope.

Definition acct_inv2 (p0 p : plain) (a : Z) (s : status) (ob : option bacc) : Prop :=
  match ob with
  | None => acc_get p a = acc_get p0 a /\ (forall k, stor_get p a k = stor_get p0 a k)
            /\ s <> DestroyedChanged
  | Some b =>
      strip <$> b_info b = acc_get p a
      /\ strip <$> b_oinfo b = acc_get p0 a
      /\ (forall k, stor_get p a k = slot_view b p0 a k)
      /\ (was_destroyed (b_status b) = false ->
          forall k sl, b_storage b !! k = Some sl -> s_orig sl = stor_get p0 a k)
      /\ b_status b = s /\ present_status s = true
  end.

Lemma acct_inv2_inv p0 p a s ob : acct_inv2 p0 p a s ob -> acct_inv p0 p a ob.
Proof.
  destruct ob as [b|]; simpl.
  - intros (Hi & Ho & Hs & Hc & _). split; [exact Hi|]. split; [|split; [exact Hs|]].
    + intros He. apply oinfo_eqb_strip in He. congruence.
    + intros Hd k sl Hk Heq. rewrite <- Heq. symmetry. apply (Hc Hd _ _ Hk).
  - intros (Ha & Hk & _). auto.
Qed.

Lemma lookup_extend_storage (m u : gmap Z slot) k :
  extend_storage m u !! k = extend_slot (m !! k) (u !! k).
Proof. unfold extend_storage. rewrite lookup_merge. destruct (m !! k), (u !! k); reflexivity. Qed.

(* shape A: the bundle storage is extended by the transition's *)
Lemma inv_extend p0 p1 p2 a b t :
  acct_inv2 p0 p1 a (b_status b) (Some b) -> mt_ok p1 p2 a t ->
  was_destroyed (t_status t) = was_destroyed (b_status b) ->
  (t_wiped t = true -> forall k, stor_get p1 a k = 0) ->
  acct_inv2 p0 p2 a (t_status t)
    (Some (mkBA (t_info t) (b_oinfo b) (extend_storage (b_storage b) (t_storage t)) (t_status t))).
Proof.
  intros (Hi & Ho & Hs & Hc & _ & _) [Mp Mi Mr Mg Mw1 Mw2 Ms Mo] Hwd Hz.
  cbn [acct_inv2 b_info b_oinfo b_storage b_status].
  split; [exact Mi|]. split; [exact Ho|]. split; [|split; [|split; [reflexivity|]]].
  - intros k. rewrite Ms. unfold slot_view; cbn [b_storage b_status].
    rewrite lookup_extend_storage. specialize (Hs k). unfold slot_view in Hs.
    destruct (t_storage t !! k) as [u|] eqn:Eu; cbn [extend_slot].
    + destruct (b_storage b !! k); reflexivity.
    + assert (E : (if t_wiped t then 0 else stor_get p1 a k) = stor_get p1 a k).
      { destruct (t_wiped t) eqn:Ew; [|reflexivity]. symmetry. apply Hz. reflexivity. }
      rewrite E, Hs. destruct (b_storage b !! k); [reflexivity|]. rewrite Hwd. reflexivity.
  - intros Hd k sl. rewrite lookup_extend_storage. rewrite Hwd in Hd.
    assert (Ew : t_wiped t = false).
    { destruct (t_wiped t) eqn:Ew; [|reflexivity]. rewrite (Mw1 eq_refl) in Hwd. congruence. }
    destruct (t_storage t !! k) as [u|] eqn:Eu; cbn [extend_slot].
    + destruct (b_storage b !! k) as [m|] eqn:Em; intros [= <-]; cbn [s_orig].
      * apply (Hc Hd _ _ Em).
      * rewrite (Mo _ _ Eu), Ew. rewrite (Hs k). unfold slot_view. rewrite Em, Hd. reflexivity.
    + intros Hm. apply (Hc Hd _ _ Hm).
  - apply (reach_present _ _ Mr).
Qed.

(* shape B: the transition wiped the account and its storage is the new storage *)
Lemma inv_replace p0 p1 p2 a t boi (sto : gmap Z slot) :
  mt_ok p1 p2 a t -> strip <$> boi = acc_get p0 a ->
  t_wiped t = true -> (forall k, sto !! k = t_storage t !! k) ->
  acct_inv2 p0 p2 a (t_status t) (Some (mkBA (t_info t) boi sto (t_status t))).
Proof.
  intros [Mp Mi Mr Mg Mw1 Mw2 Ms Mo] Ho Hw Hsto.
  cbn [acct_inv2 b_info b_oinfo b_storage b_status].
  split; [exact Mi|]. split; [exact Ho|]. split; [|split; [|split; [reflexivity|]]].
  - intros k. rewrite Ms. unfold slot_view; cbn [b_storage b_status].
    rewrite Hsto, Hw, (Mw1 Hw). reflexivity.
  - rewrite (Mw1 Hw). discriminate.
  - apply (reach_present _ _ Mr).
Qed.

(* shape C: the account is gone *)
Lemma inv_gone p0 p1 p2 a t boi :
  mt_ok p1 p2 a t -> strip <$> boi = acc_get p0 a -> t_info t = None ->
  acct_inv2 p0 p2 a (t_status t) (Some (mkBA None boi ∅ (t_status t))).
Proof.
  intros [Mp Mi Mr Mg Mw1 Mw2 Ms Mo] Ho Hi. rewrite Hi in *. destruct Mg as (Hg & Hw & Hs).
  cbn [acct_inv2 b_info b_oinfo b_storage b_status].
  split; [exact Mi|]. split; [exact Ho|]. split; [|split; [|split; [reflexivity|]]].
  - intros k. rewrite Ms. unfold slot_view; cbn [b_storage b_status].
    rewrite Hs, Hw, (Mw1 Hw), !lookup_empty. reflexivity.
  - rewrite (Mw1 Hw). discriminate.
  - apply (reach_present _ _ Mr).
Qed.
Lemma extend_storage_empty_l (u : gmap Z slot) k : extend_storage ∅ u !! k = u !! k.
Proof. rewrite lookup_extend_storage, lookup_empty. destruct (u !! k); reflexivity. Qed.

Lemma acct_step_present p0 p1 p2 a b t :
  acct_inv2 p0 p1 a (t_pstatus t) (Some b) -> mt_ok p1 p2 a t ->
  (is_gone (t_pstatus t) = true <-> acc_get p1 a = None) ->
  (acc_get p1 a = None -> forall k, stor_get p1 a k = 0) ->
  exists b' r, update_and_create_revert b t = Some (b', r)
               /\ acct_inv2 p0 p2 a (t_status t) (Some b').
Proof.
  intros Hinv Hm Hg Hz.
  assert (Hb : b_status b = t_pstatus t) by (destruct Hinv as (_&_&_&_&H&_); exact H).
  assert (Hps : present_status (t_pstatus t) = true) by (destruct Hinv as (_&_&_&_&_&H); exact H).
  assert (Ho : strip <$> b_oinfo b = acc_get p0 a) by (destruct Hinv as (_&H&_); exact H).
  rewrite <- Hb in Hinv.
  pose proof (mt_reach _ _ _ _ Hm) as Hr. pose proof (mt_gone _ _ _ _ Hm) as Mg.
  pose proof (mt_wiped1 _ _ _ _ Hm) as Mw1. pose proof (mt_wiped2 _ _ _ _ Hm) as Mw2.
  assert (Hgone : t_info t = None -> acct_inv2 p0 p2 a (t_status t) (Some (mkBA None (b_oinfo b) ∅ (t_status t))))
    by (intros Hi; apply (inv_gone _ p1); assumption).
  assert (Hext : was_destroyed (t_status t) = was_destroyed (b_status b) ->
                 (t_wiped t = true -> forall k, stor_get p1 a k = 0) ->
                 acct_inv2 p0 p2 a (t_status t)
                   (Some (mkBA (t_info t) (b_oinfo b) (extend_storage (b_storage b) (t_storage t)) (t_status t))))
    by (intros H1 H2; apply (inv_extend _ p1); assumption).
  assert (Hrep : forall sto : gmap Z slot, t_wiped t = true -> (forall k, sto !! k = t_storage t !! k) ->
                 acct_inv2 p0 p2 a (t_status t) (Some (mkBA (t_info t) (b_oinfo b) sto (t_status t))))
    by (intros sto H1 H2; apply (inv_replace _ p1); assumption).
  assert (Hz' : is_gone (t_pstatus t) = true -> forall k, stor_get p1 a k = 0)
    by (intros H; apply Hz, Hg, H).
  clear Hinv Hm Hg Hz.
  destruct (t_pstatus t) eqn:Eps; try discriminate Hps;
    destruct (t_status t) eqn:Ets; try discriminate Hr.
  - (* IMC, IMC *)
    eexists _, _. split; [unfold update_and_create_revert; rewrite Ets, Hb; reflexivity|].
    apply Hext; [rewrite Hb; reflexivity|]. intros Hw. specialize (Mw1 Hw). discriminate.
  - (* IMC, D *)
    eexists _, _. split; [unfold update_and_create_revert; rewrite Ets, Hb; reflexivity|].
    apply Hgone. destruct (t_info t); [discriminate Mg | reflexivity].
  - (* IMC, DC *)
    eexists _, _. split; [unfold update_and_create_revert, new_selfdestructed_from_bundle; rewrite Ets, Hb; reflexivity|].
    apply Hrep; [|reflexivity].
    destruct (t_wiped t); [reflexivity|]. specialize (Mw2 eq_refl eq_refl). discriminate.
  - (* IMC, DA *)
    eexists _, _. split; [unfold update_and_create_revert, new_selfdestructed_from_bundle; rewrite Ets, Hb; reflexivity|].
    apply Hgone. destruct (t_info t); [discriminate Mg | reflexivity].
  - (* Changed, Changed *)
    eexists _, _. split; [unfold update_and_create_revert; rewrite Ets, Hb; reflexivity|].
    apply Hext; [rewrite Hb; reflexivity|]. intros Hw. specialize (Mw1 Hw). discriminate.
  - (* Changed, D *)
    eexists _, _. split; [unfold update_and_create_revert; rewrite Ets, Hb; reflexivity|].
    apply Hgone. destruct (t_info t); [discriminate Mg | reflexivity].
  - (* Changed, DC *)
    eexists _, _. split; [unfold update_and_create_revert, new_selfdestructed_from_bundle; rewrite Ets, Hb; reflexivity|].
    apply Hrep; [|reflexivity].
    destruct (t_wiped t); [reflexivity|]. specialize (Mw2 eq_refl eq_refl). discriminate.
  - (* Changed, DA *)
    eexists _, _. split; [unfold update_and_create_revert, new_selfdestructed_from_bundle; rewrite Ets, Hb; reflexivity|].
    apply Hgone. destruct (t_info t); [discriminate Mg | reflexivity].
  - (* D, DC *)
    eexists _, _. split; [unfold update_and_create_revert, new_selfdestructed_from_bundle; rewrite Ets, Hb; reflexivity|].
    apply Hext; [rewrite Hb; reflexivity|]. intros _. apply Hz'. reflexivity.
  - (* D, DA *)
    eexists _, _. split; [unfold update_and_create_revert, new_selfdestructed_from_bundle; rewrite Ets, Hb; reflexivity|].
    apply Hgone. destruct (t_info t); [discriminate Mg | reflexivity].
  - (* DC, DC *)
    destruct (t_wiped t) eqn:Ew.
    + eexists _, _. split; [unfold update_and_create_revert, new_selfdestructed_from_bundle; rewrite Ets, Hb, Ew; reflexivity|].
      apply Hrep; [reflexivity|]. intros k. apply extend_storage_empty_l.
    + eexists _, _. split; [unfold update_and_create_revert, new_selfdestructed_from_bundle; rewrite Ets, Hb, Ew; reflexivity|].
      apply Hext; [rewrite Hb; reflexivity|]. discriminate.
  - (* DC, DA *)
    eexists _, _. split; [unfold update_and_create_revert, new_selfdestructed_from_bundle; rewrite Ets, Hb; reflexivity|].
    apply Hgone. destruct (t_info t); [discriminate Mg | reflexivity].
  - (* DA, DC *)
    eexists _, _. split; [unfold update_and_create_revert, new_selfdestructed_from_bundle; rewrite Ets, Hb; reflexivity|].
    apply Hext; [rewrite Hb; reflexivity|]. intros _. apply Hz'. reflexivity.
  - (* DA, DA *)
    eexists _, _. split; [unfold update_and_create_revert, new_selfdestructed_from_bundle; rewrite Ets, Hb; reflexivity|].
    apply Hgone. destruct (t_info t); [discriminate Mg | reflexivity].
Qed.
Lemma fe_none ir ps st w :
  filter_empty (Some (mkAR ir ps st w)) = None -> ir = DoNothing /\ ps = ∅ /\ w = false.
Proof.
  unfold filter_empty, ar_is_empty; cbn [r_acc r_storage r_wipe].
  destruct ir; [|intros H; discriminate H..].
  destruct (map_is_empty ps) eqn:E; destruct w; intros H; try discriminate H.
  apply map_is_empty_true in E. auto.
Qed.

Ltac ucr_red H :=
  cbv beta iota zeta delta
    [update_and_create_revert original_bundle_account new_selfdestructed_from_bundle
     new_selfdestructed_again new_selfdestructed
     b_status b_info b_oinfo b_storage t_status t_info t_pinfo t_pstatus t_storage t_wiped
     r_acc r_storage r_wipe r_pstatus fst snd] in H.
Ltac ucr_red_goal :=
  cbv beta iota zeta delta
    [update_and_create_revert original_bundle_account new_selfdestructed_from_bundle
     new_selfdestructed_again new_selfdestructed
     b_status b_info b_oinfo b_storage t_status t_info t_pinfo t_pstatus t_storage t_wiped
     r_acc r_storage r_wipe r_pstatus fst snd].

(* the merge of a transition into a bundle that does not know the address never panics *)
Lemma ucr_orig_some t :
  reach (t_pstatus t) (t_status t) = true ->
  exists x r, update_and_create_revert (original_bundle_account t) t = Some (x, r).
Proof.
  destruct t as [ti ts tpi tps tsto tw]; cbn [t_pstatus t_status]. intros Hr.
  destruct tps, ts; try discriminate Hr; ucr_red_goal;
    try (eexists _, _; reflexivity); destruct tw; eexists _, _; reflexivity.
Qed.

(* ... and when it yields no revert, nothing happened to the address *)
Lemma absent_none_cases t x :
  reach (t_pstatus t) (t_status t) = true -> t_pstatus t <> DestroyedChanged ->
  update_and_create_revert (original_bundle_account t) t = Some (x, None) ->
  (was_destroyed (t_status t) = false /\ oinfo_eqb (t_pinfo t) (t_info t) = true
   /\ previous_storage_from_update (t_storage t) = ∅)
  \/ (is_gone (t_pstatus t) = true /\ is_gone (t_status t) = true).
Proof.
  destruct t as [ti ts tpi tps tsto tw];
    cbn [t_pstatus t_status t_info t_pinfo t_storage t_wiped]. intros Hr Hn H.
  destruct tps, ts; try discriminate Hr; try congruence; ucr_red H;
    try (right; split; reflexivity);
    injection H as _ H; try discriminate H;
    apply fe_none in H as (Hi & Hp & Hw); try discriminate Hi; try discriminate Hw;
    (destruct (oinfo_eqb tpi ti); [|discriminate Hi]); left; auto.
Qed.
Lemma inv_absent_present p0 p1 p2 a t :
  acct_inv2 p0 p1 a (t_pstatus t) None -> mt_ok p1 p2 a t ->
  (is_gone (t_pstatus t) = true -> forall k, stor_get p1 a k = 0) ->
  acct_inv2 p0 p2 a (t_status t) (Some (present_bundle_account t)).
Proof.
  intros (Ha & Hk & Hn) [Mp Mi Mr Mg Mw1 Mw2 Ms Mo] Hz.
  unfold present_bundle_account. cbn [acct_inv2 b_info b_oinfo b_storage b_status].
  split; [exact Mi|]. split; [rewrite Mp; exact Ha|]. split; [|split; [|split; [reflexivity|]]].
  - intros k. rewrite Ms. unfold slot_view; cbn [b_storage b_status].
    destruct (t_storage t !! k); [reflexivity|].
    destruct (t_wiped t) eqn:Ew.
    + rewrite (Mw1 eq_refl). reflexivity.
    + destruct (was_destroyed (t_status t)) eqn:Ed.
      * apply Hz. specialize (Mw2 eq_refl eq_refl).
        destruct (t_pstatus t); try discriminate Mw2; try reflexivity. congruence.
      * apply Hk.
  - intros Hd k sl Hsl. rewrite (Mo _ _ Hsl).
    destruct (t_wiped t) eqn:Ew; [rewrite (Mw1 eq_refl) in Hd; discriminate|]. apply Hk.
  - apply (reach_present _ _ Mr).
Qed.

Lemma inv_absent_absent p0 p1 p2 a t x :
  acct_inv2 p0 p1 a (t_pstatus t) None -> mt_ok p1 p2 a t ->
  (is_gone (t_pstatus t) = true <-> acc_get p1 a = None) ->
  (acc_get p1 a = None -> forall k, stor_get p1 a k = 0) ->
  update_and_create_revert (original_bundle_account t) t = Some (x, None) ->
  acct_inv2 p0 p2 a (t_status t) None.
Proof.
  intros (Ha & Hk & Hn) [Mp Mi Mr Mg Mw1 Mw2 Ms Mo] Hg Hz Hu.
  destruct (absent_none_cases _ _ Mr Hn Hu) as [(Hd & He & Hp)|(Hg1 & Hg2)];
    cbn [acct_inv2].
  - assert (Ew : t_wiped t = false).
    { destruct (t_wiped t); [|reflexivity]. rewrite (Mw1 eq_refl) in Hd. discriminate. }
    split; [|split].
    + rewrite <- Ha, <- Mi, <- Mp. symmetry. apply oinfo_eqb_strip, He.
    + intros k. rewrite Ms, Ew, <- Hk.
      destruct (t_storage t !! k) as [s|] eqn:Es; [|reflexivity].
      assert (Hl : previous_storage_from_update (t_storage t) !! k = None)
        by (rewrite Hp; apply lookup_empty).
      unfold previous_storage_from_update in Hl. rewrite lookup_omap, Es in Hl. cbn in Hl.
      destruct (is_changed s) eqn:Ec; [discriminate|].
      unfold is_changed in Ec. apply negb_false_iff, Z.eqb_eq in Ec.
      rewrite <- Ec, (Mo _ _ Es), Ew. reflexivity.
    + intros E. rewrite E in Hd. discriminate.
  - destruct (t_info t); [congruence|]. destruct Mg as (_ & Hw & Hs).
    pose proof (proj1 Hg Hg1) as Hnone.
    split; [|split].
    + rewrite <- Ha, <- Mi, Hnone. reflexivity.
    + intros k. rewrite Ms, Hs, Hw, lookup_empty, <- Hk, (Hz Hnone). reflexivity.
    + intros E. rewrite E in Hg2. discriminate.
Qed.

(* the per-address step of apply_transitions_and_create_reverts *)
Lemma acct_step p0 p1 p2 a ob t :
  acct_inv2 p0 p1 a (t_pstatus t) ob -> mt_ok p1 p2 a t ->
  (is_gone (t_pstatus t) = true <-> acc_get p1 a = None) ->
  (acc_get p1 a = None -> forall k, stor_get p1 a k = 0) ->
  exists ob' r, acct_apply ob t = Some (ob', r) /\ acct_inv2 p0 p2 a (t_status t) ob'.
Proof.
  intros Hinv Hm Hg Hz. destruct ob as [b|]; unfold acct_apply.
  - destruct (acct_step_present _ _ _ _ _ _ Hinv Hm Hg Hz) as (b' & r & -> & H').
    eexists _, _. split; [reflexivity | exact H'].
  - destruct (ucr_orig_some t (mt_reach _ _ _ _ Hm)) as (x & r & Hu). rewrite Hu.
    destruct r as [r|].
    + eexists _, _. split; [reflexivity|]. apply (inv_absent_present _ p1); try assumption.
      intros H. apply Hz, Hg, H.
    + eexists _, _. split; [reflexivity|]. apply (inv_absent_absent _ p1 _ _ _ x); assumption.
Qed.
