(* C16 preservation, part 1: facts about the history side (plain_step, trans_ok, the history
   invariant) and about TransitionAccount::update: the transition that a merge group accumulates
   for one address describes the plain states at the two ends of the group ([mt_ok]). *)
From stdpp Require Import gmap.
From Coq Require Import ZArith Lia.
From RevmV Require Import Model.Bundle Spec.BundleSpec Spec.BundleHist Proofs.BundleProofs.
Local Open Scope Z_scope.

(* ------------------------------------------------------------------ plain_step, pointwise *)
Lemma acc_get_step_eq p a t : acc_get (plain_step p a t) a = strip <$> t_info t.
Proof.
  unfold acc_get, plain_step; simpl.
  destruct (t_info t); simpl; [apply lookup_insert | apply lookup_delete].
Qed.
Lemma acc_get_step_ne p a a' t : a <> a' -> acc_get (plain_step p a t) a' = acc_get p a'.
Proof.
  intros Hne. unfold acc_get, plain_step; simpl.
  destruct (t_info t); simpl; [apply lookup_insert_ne | apply lookup_delete_ne]; exact Hne.
Qed.
Lemma stor_get_step_eq p a t k :
  stor_get (plain_step p a t) a k =
  match t_storage t !! k with
  | Some s => s_pres s
  | None => if t_wiped t then 0 else stor_get p a k
  end.
Proof.
  unfold stor_get, plain_step; simpl. rewrite lookup_insert.
  rewrite lookup_merge, lookup_fmap, diag_None_l by reflexivity.
  destruct (t_storage t !! k); simpl; [reflexivity|].
  destruct (t_wiped t); simpl.
  - rewrite lookup_empty. reflexivity.
  - destruct (p_stor p !! a); simpl; [|rewrite lookup_empty]; reflexivity.
Qed.
Lemma stor_get_step_ne p a a' t k : a <> a' -> stor_get (plain_step p a t) a' k = stor_get p a' k.
Proof. intros Hne. unfold stor_get, plain_step; simpl. rewrite lookup_insert_ne by exact Hne. reflexivity. Qed.

(* ------------------------------------------------------------------ status tables *)
Lemma status_eqb_eq a b : status_eqb a b = true <-> a = b.
Proof. destruct a, b; simpl; split; intros H; congruence. Qed.

(* statuses a bundle entry / the cache can have after a transition *)
Definition present_status (s : status) : bool :=
  match s with LoadedNotExisting | Loaded | LoadedEmptyEIP161 => false | _ => true end.

(* the (first previous status, last status) pairs a sequence of legal steps can produce *)
Definition reach (prev next : status) : bool :=
  match prev, next with
  | (LoadedNotExisting | LoadedEmptyEIP161 | InMemoryChange),
    (InMemoryChange | Destroyed | DestroyedChanged | DestroyedAgain) => true
  | Loaded, (InMemoryChange | Changed | Destroyed | DestroyedChanged | DestroyedAgain) => true
  | Changed, (Changed | Destroyed | DestroyedChanged | DestroyedAgain) => true
  | (Destroyed | DestroyedChanged | DestroyedAgain), (DestroyedChanged | DestroyedAgain) => true
  | _, _ => false
  end.
Lemma legal_reach a b : legal_step a b = true -> reach a b = true.
Proof. destruct a, b; simpl; congruence. Qed.
Lemma reach_step a b c : reach a b = true -> legal_step b c = true -> reach a c = true.
Proof. destruct a, b, c; simpl; congruence. Qed.
Lemma reach_present a b : reach a b = true -> present_status b = true.
Proof. destruct a, b; simpl; congruence. Qed.

(* ------------------------------------------------------------------ the history invariant *)
Definition nocode (p : plain) : Prop := forall a i, acc_get p a = Some i -> strip i = i.
Definition st_coh (p : plain) (st : gmap Z status) : Prop :=
  forall a s, st !! a = Some s ->
    present_status s = true /\ (is_gone s = true <-> acc_get p a = None).
Definition hinv (h : hstate) : Prop :=
  plain_wf (h_plain h) /\ nocode (h_plain h) /\ st_coh (h_plain h) (h_st h).

Lemma nocode_strip p a : nocode p -> strip <$> acc_get p a = acc_get p a.
Proof. intros H. destruct (acc_get p a) as [i|] eqn:E; simpl; [|reflexivity]. rewrite (H _ _ E). reflexivity. Qed.

Lemma hinv_h0 p : plain_wf p -> nocode p -> hinv (h0 p).
Proof.
  intros Hw Hn. split; [exact Hw|]. split; [exact Hn|].
  intros a s H. simpl in H. rewrite lookup_empty in H. discriminate.
Qed.

Lemma status_at_gone h a :
  hinv h -> (is_gone (status_at (h_st h) (h_plain h) a) = true <-> acc_get (h_plain h) a = None).
Proof.
  intros (_ & _ & Hc). unfold status_at.
  destruct (h_st h !! a) as [s|] eqn:E.
  - apply (Hc _ _ E).
  - unfold load_status. destruct (acc_get (h_plain h) a) as [i|]; simpl.
    + destruct (info_is_empty i); simpl; split; intros; discriminate.
    + split; reflexivity.
Qed.

(* ------------------------------------------------------------------ TransOK unpacked *)
Lemma slots_ok_elim p a (sto : storage) :
  slots_ok p a sto = true -> forall k s, sto !! k = Some s -> s_orig s = stor_get p a k.
Proof.
  unfold slots_ok. rewrite forallb_forall. intros H k s Hk.
  apply elem_of_map_to_list, elem_of_list_In in Hk.
  specialize (H _ Hk). simpl in H. apply Z.eqb_eq in H. exact H.
Qed.

Lemma trans_ok_elim h a t :
  trans_ok h a t = true ->
  t_pstatus t = status_at (h_st h) (h_plain h) a /\
  strip <$> t_pinfo t = strip <$> acc_get (h_plain h) a /\
  legal_step (t_pstatus t) (t_status t) = true /\
  (forall k s, t_storage t !! k = Some s -> s_orig s = stor_get (h_plain h) a k) /\
  match t_info t with
  | None => is_gone (t_status t) = true /\ t_wiped t = true /\ t_storage t = ∅
  | Some _ => is_gone (t_status t) = false /\ t_wiped t = false
  end.
Proof.
  unfold trans_ok. rewrite !andb_true_iff.
  intros ((((((H1 & H2) & H3) & H4) & H5) & _) & _).
  split; [apply status_eqb_eq; exact H1|].
  split; [apply oinfo_eqb_strip; exact H2|].
  split; [exact H3|].
  split; [apply slots_ok_elim; exact H4|].
  destruct (t_info t).
  - apply andb_true_iff in H5 as [Ha Hb]. apply negb_true_iff in Ha, Hb. auto.
  - apply andb_true_iff in H5 as [Hab Hc]. apply andb_true_iff in Hab as [Ha Hb].
    apply map_is_empty_true in Hc. auto.
Qed.

Lemma hinv_step h a t : hinv h -> trans_ok h a t = true -> hinv (hist_step h (a, t)).
Proof.
  intros (Hw & Hn & Hc) Hok. apply trans_ok_elim in Hok as (_ & _ & Hl & _ & Hi).
  unfold hinv, hist_step; cbn [h_plain h_st fst snd]. split; [|split].
  - intros a' k Ha'. destruct (decide (a = a')) as [<-|Hne].
    + rewrite acc_get_step_eq in Ha'. rewrite stor_get_step_eq.
      destruct (t_info t); [discriminate|]. destruct Hi as (_ & -> & ->).
      rewrite lookup_empty. reflexivity.
    + rewrite acc_get_step_ne in Ha' by exact Hne. rewrite stor_get_step_ne by exact Hne.
      apply Hw, Ha'.
  - intros a' i Ha'. destruct (decide (a = a')) as [<-|Hne].
    + rewrite acc_get_step_eq in Ha'. destruct (t_info t); [|discriminate].
      injection Ha' as <-. reflexivity.
    + rewrite acc_get_step_ne in Ha' by exact Hne. apply (Hn _ _ Ha').
  - intros a' s Hs. destruct (decide (a = a')) as [<-|Hne].
    + rewrite lookup_insert in Hs. injection Hs as <-. rewrite acc_get_step_eq.
      split; [apply legal_reach, reach_present in Hl; exact Hl|].
      destruct (t_info t); simpl.
      * destruct Hi as (-> & _). split; discriminate.
      * destruct Hi as (-> & _). split; reflexivity.
    + rewrite lookup_insert_ne in Hs by exact Hne. rewrite acc_get_step_ne by exact Hne.
      apply (Hc _ _ Hs).
Qed.

(* ------------------------------------------------------------------ merged transitions *)
(* what the transition accumulated for address [a] since the start of the group says about the
   plain state [p1] at the start of the group and the plain state [p2] now *)
Record mt_ok (p1 p2 : plain) (a : Z) (t : tacc) : Prop := mkMT {
  mt_pinfo : strip <$> t_pinfo t = acc_get p1 a;
  mt_info : strip <$> t_info t = acc_get p2 a;
  mt_reach : reach (t_pstatus t) (t_status t) = true;
  mt_gone : match t_info t with
            | None => is_gone (t_status t) = true /\ t_wiped t = true /\ t_storage t = ∅
            | Some _ => is_gone (t_status t) = false
            end;
  mt_wiped1 : t_wiped t = true -> was_destroyed (t_status t) = true;
  mt_wiped2 : t_wiped t = false -> was_destroyed (t_status t) = true ->
              was_destroyed (t_pstatus t) = true;
  mt_stor : forall k, stor_get p2 a k =
                      match t_storage t !! k with
                      | Some s => s_pres s
                      | None => if t_wiped t then 0 else stor_get p1 a k
                      end;
  mt_orig : forall k s, t_storage t !! k = Some s ->
                        s_orig s = if t_wiped t then 0 else stor_get p1 a k }.

Lemma mt_single h a t :
  hinv h -> trans_ok h a t = true -> mt_ok (h_plain h) (plain_step (h_plain h) a t) a t.
Proof.
  intros (Hw & Hn & Hc) Hok. apply trans_ok_elim in Hok as (_ & Hp & Hl & Ho & Hi).
  split.
  - rewrite Hp. apply nocode_strip, Hn.
  - symmetry. apply acc_get_step_eq.
  - apply legal_reach, Hl.
  - destruct (t_info t); tauto.
  - intros Hwp. destruct (t_info t); [destruct Hi as (_ & Hi); congruence|].
    destruct Hi as (Hg & _). destruct (t_pstatus t), (t_status t); simpl in *; congruence.
  - intros Hwp Hd. destruct (t_info t); [|destruct Hi as (_ & Hi & _); congruence].
    destruct Hi as (Hg & _). destruct (t_pstatus t), (t_status t); simpl in *; congruence.
  - intros k. apply stor_get_step_eq.
  - intros k s Hk. destruct (t_wiped t) eqn:Ew.
    + destruct (t_info t); [destruct Hi as (_ & Hi); congruence|].
      destruct Hi as (_ & _ & He). rewrite He, lookup_empty in Hk. discriminate.
    + apply (Ho _ _ Hk).
Qed.

Lemma mt_merge p1 h a t o :
  hinv h -> mt_ok p1 (h_plain h) a t -> h_st h !! a = Some (t_status t) ->
  trans_ok h a o = true ->
  mt_ok p1 (plain_step (h_plain h) a o) a (ta_update t o).
Proof.
  intros Hh [Mp Mi Mr Mg Mw1 Mw2 Ms Mo] Hst Hok.
  apply trans_ok_elim in Hok as (Hps & _ & Hl & Ho & Hi).
  unfold status_at in Hps. rewrite Hst in Hps.
  assert (Hr' : reach (t_pstatus t) (t_status o) = true)
    by (apply (reach_step _ _ _ Mr); rewrite <- Hps; exact Hl).
  destruct (t_info o) as [io|] eqn:Eio.
  - (* the account lives: merge the storage *)
    destruct Hi as (Hg & Hwo).
    assert (Eu : ta_update t o =
                 mkTA (t_info o) (t_status o) (t_pinfo t) (t_pstatus t)
                      (merge ta_update_slot (t_storage t) (t_storage o)) (t_wiped t)).
    { unfold ta_update. destruct (t_status o); try reflexivity; discriminate. }
    rewrite Eu. split; cbn [t_info t_status t_pinfo t_pstatus t_storage t_wiped].
    + exact Mp.
    + rewrite acc_get_step_eq. reflexivity.
    + exact Hr'.
    + rewrite Eio. exact Hg.
    + intros Hwp. specialize (Mw1 Hwp). rewrite Hps in Hl.
      destruct (t_status t), (t_status o); simpl in *; congruence.
    + intros Hwp Hd. rewrite Hps in Hl.
      assert (Hdt : was_destroyed (t_status t) = true)
        by (destruct (t_status t), (t_status o); simpl in *; congruence).
      apply (Mw2 Hwp Hdt).
    + intros k. rewrite stor_get_step_eq, Hwo, lookup_merge.
      specialize (Ms k).
      destruct (t_storage t !! k) as [v|] eqn:Ev, (t_storage o !! k) as [s|] eqn:Es;
        cbn [diag_None ta_update_slot].
      * destruct (s_orig v =? s_pres s) eqn:E; [|reflexivity].
        apply Z.eqb_eq in E. rewrite <- E. apply (Mo _ _ Ev).
      * exact Ms.
      * reflexivity.
      * exact Ms.
    + intros k s'. rewrite lookup_merge.
      destruct (t_storage t !! k) as [v|] eqn:Ev, (t_storage o !! k) as [s|] eqn:Es;
        cbn [diag_None ta_update_slot]; intros Hk.
      * destruct (s_orig v =? s_pres s); [discriminate|]. injection Hk as <-. simpl.
        apply (Mo _ _ Ev).
      * injection Hk as <-. apply (Mo _ _ Ev).
      * injection Hk as <-. rewrite (Ho _ _ Es). specialize (Ms k). rewrite Ev in Ms. exact Ms.
      * discriminate.
  - (* destruction: the storage of [other] replaces everything *)
    destruct Hi as (Hg & Hwo & Hso).
    assert (Eu : ta_update t o =
                 mkTA None (t_status o) (t_pinfo t) (t_pstatus t) ∅ true).
    { unfold ta_update. rewrite Eio, Hso. rewrite Hps in Hl.
      destruct (t_status t), (t_status o); try reflexivity; discriminate. }
    rewrite Eu. split; cbn [t_info t_status t_pinfo t_pstatus t_storage t_wiped].
    + exact Mp.
    + rewrite acc_get_step_eq, Eio. reflexivity.
    + exact Hr'.
    + auto.
    + intros _. rewrite Hps in Hl. destruct (t_status t), (t_status o); simpl in *; congruence.
    + discriminate.
    + intros k. rewrite stor_get_step_eq, Hso, Hwo, !lookup_empty. reflexivity.
    + intros k s. rewrite lookup_empty. discriminate.
Qed.

(* ------------------------------------------------------------------ a group's TransitionState *)
(* [m] is the TransitionState accumulated since the group started in history state [h1];
   [h2] is the history state now *)
Definition ginv (h1 h2 : hstate) (m : tstate) : Prop :=
  forall a,
    match m !! a with
    | None => acc_get (h_plain h2) a = acc_get (h_plain h1) a
              /\ (forall k, stor_get (h_plain h2) a k = stor_get (h_plain h1) a k)
              /\ h_st h2 !! a = h_st h1 !! a
    | Some t => mt_ok (h_plain h1) (h_plain h2) a t
                /\ t_pstatus t = status_at (h_st h1) (h_plain h1) a
                /\ h_st h2 !! a = Some (t_status t)
    end.

Lemma ginv_start h : ginv h h ∅.
Proof.
  intros a. assert (E : (∅ : tstate) !! a = None) by apply lookup_empty.
  rewrite E. auto.
Qed.

Lemma ginv_step h1 h2 m at_ :
  hinv h2 -> ginv h1 h2 m -> trans_ok h2 at_.1 at_.2 = true ->
  ginv h1 (hist_step h2 at_) (add_transition m at_).
Proof.
  destruct at_ as [a t]; cbn [fst snd]. intros Hh Hg Hok a'.
  unfold ginv, add_transition, tstate in *; cbn [fst snd].
  destruct (decide (a = a')) as [<-|Hne].
  - specialize (Hg a). destruct (m !! a) as [e|] eqn:Em.
    + rewrite lookup_insert. destruct Hg as (Hm & Hp & Hs).
      split; [apply mt_merge; assumption|]. split.
      * unfold ta_update. destruct (t_status t); exact Hp.
      * unfold hist_step; cbn [h_st fst snd]. rewrite lookup_insert.
        unfold ta_update. destruct (t_status t); reflexivity.
    + rewrite lookup_insert. destruct Hg as (Ha & Hk & Hs).
      pose proof (mt_single _ _ _ Hh Hok) as [Mp Mi Mr Mg Mw1 Mw2 Ms Mo].
      pose proof (trans_ok_elim _ _ _ Hok) as (Hps & _).
      split; [split|split].
      * rewrite Mp. exact Ha.
      * exact Mi.
      * exact Mr.
      * exact Mg.
      * exact Mw1.
      * exact Mw2.
      * intros k. rewrite Ms. destruct (t_storage t !! k); [reflexivity|]. rewrite Hk. reflexivity.
      * intros k s Hks. rewrite (Mo _ _ Hks). rewrite Hk. reflexivity.
      * rewrite Hps. unfold status_at. rewrite Hs, <- Ha. reflexivity.
      * unfold hist_step; cbn [h_st fst snd]. apply lookup_insert.
  - assert (Hl : (match m !! a with Some e => <[a := ta_update e t]> m | None => <[a := t]> m end) !! a'
                 = m !! a').
    { destruct (m !! a); apply lookup_insert_ne; exact Hne. }
    rewrite Hl. specialize (Hg a').
    unfold hist_step; cbn [h_plain h_st fst snd].
    destruct (m !! a') as [e|].
    + destruct Hg as ([Mp Mi Mr Mg Mw1 Mw2 Ms Mo] & Hp & Hs). split; [split|split]; try assumption.
      * rewrite acc_get_step_ne by exact Hne. exact Mi.
      * intros k. rewrite stor_get_step_ne by exact Hne. apply Ms.
      * rewrite lookup_insert_ne by exact Hne. exact Hs.
    + destruct Hg as (Ha & Hk & Hs). split; [|split].
      * rewrite acc_get_step_ne by exact Hne. exact Ha.
      * intros k. rewrite stor_get_step_ne by exact Hne. apply Hk.
      * rewrite lookup_insert_ne by exact Hne. exact Hs.
Qed.

(* running a list of transitions from inside a group *)
Lemma ginv_run h1 l : forall h2 m,
  hinv h2 -> ginv h1 h2 m -> hist_ok h2 l = true ->
  hinv (hist_run h2 l) /\ ginv h1 (hist_run h2 l) (add_transitions m l).
Proof.
  induction l as [|x l IH]; intros h2 m Hh Hg Hok; simpl in *.
  - auto.
  - apply andb_true_iff in Hok as [Hx Hl].
    apply IH.
    + destruct x; apply hinv_step; assumption.
    + apply ginv_step; assumption.
    + exact Hl.
Qed.

Lemma hist_ok_app h l1 l2 :
  hist_ok h (l1 ++ l2) = hist_ok h l1 && hist_ok (hist_run h l1) l2.
Proof.
  revert h. induction l1 as [|x l1 IH]; intros h; simpl; [reflexivity|].
  rewrite IH, andb_assoc. reflexivity.
Qed.
Lemma hist_run_app h l1 l2 : hist_run h (l1 ++ l2) = hist_run (hist_run h l1) l2.
Proof. unfold hist_run. apply fold_left_app. Qed.

(* a whole group: [group_tstate g] describes the two ends of the group *)
Lemma ginv_group_from h1 g : forall h2 m,
  hinv h2 -> ginv h1 h2 m -> hist_ok h2 (concat g) = true ->
  hinv (hist_run h2 (concat g)) /\ ginv h1 (hist_run h2 (concat g)) (fold_left add_transitions g m).
Proof.
  induction g as [|tx g IH]; intros h2 m Hh Hg Hok; simpl in *.
  - auto.
  - rewrite hist_ok_app in Hok. apply andb_true_iff in Hok as [Ht Hr].
    destruct (ginv_run h1 tx h2 m Hh Hg Ht) as (Hh' & Hg').
    rewrite hist_run_app. apply IH; assumption.
Qed.
Lemma ginv_group h g :
  hinv h -> hist_ok h (concat g) = true ->
  hinv (hist_run h (concat g)) /\ ginv h (hist_run h (concat g)) (group_tstate g).
Proof. intros Hh Hok. apply ginv_group_from; [exact Hh | apply ginv_start | exact Hok]. Qed.
