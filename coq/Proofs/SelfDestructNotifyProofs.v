From RevmV Require Import Base.Word Model.SelfDestructNotify.
Local Open Scope Z_scope.

Lemma notify_iff_result : forall s res after n,
  wrapped_selfdestruct s = Some (res, after, n) ->
  (n <> None <-> res = RSelfDestruct).
Proof.
  intros s res after n H. unfold wrapped_selfdestruct in H.
  destruct (selfdestruct_instr s) as [[r a]|] eqn:E; [|discriminate].
  inversion H; subst; clear H.
  unfold selfdestruct_instr in E.
  destruct (is_static s).
  { inversion E; subst. simpl. split; [intro H; exfalso; apply H; reflexivity|discriminate]. }
  destruct (stack s) as [|top rest].
  { inversion E; subst. simpl. split; [intro H; exfalso; apply H; reflexivity|discriminate]. }
  destruct (journal_selfdestruct s (addr_of_word top)) as [[bc bt]|]; [|discriminate].
  destruct (gas_enough s); inversion E; subst; simpl.
  - split; [reflexivity|discriminate].
  - split; [intro H; exfalso; apply H; reflexivity|discriminate].
Qed.

Lemma notify_value : forall s after n,
  0 <= bal_contract s ->
  wrapped_selfdestruct s = Some (RSelfDestruct, after, n) ->
  exists top rest, stack s = top :: rest /\ is_static s = false /\
    n = Some (contract s, addr_of_word top,
              balance_that_left (contract s) (addr_of_word top) (bal_contract s) (created s) (cancun s)) /\
    after = bal_contract s - balance_that_left (contract s) (addr_of_word top) (bal_contract s) (created s) (cancun s).
Proof.
  intros s after n Hb H. unfold wrapped_selfdestruct in H.
  destruct (selfdestruct_instr s) as [[r a]|] eqn:E; [|discriminate].
  inversion H; subst; clear H.
  unfold selfdestruct_instr in E.
  destruct (is_static s) eqn:Es; [inversion E|].
  destruct (stack s) as [|top rest] eqn:Est; [inversion E|].
  exists top, rest. split; [reflexivity|]. split; [reflexivity|].
  unfold journal_selfdestruct in E. unfold balance_that_left.
  destruct (contract s =? addr_of_word top) eqn:Eeq; cbn [negb orb].
  - destruct (created s || negb (cancun s)) eqn:Ec;
      destruct (gas_enough s); inversion E; subst; cbn [hd_error sd_wrapper sd_result_eqb];
      (split; [f_equal; f_equal; lia|lia]).
  - destruct (is_u256 (bal_target s + bal_contract s)); [|discriminate].
    destruct (gas_enough s); inversion E; subst; cbn [hd_error sd_wrapper sd_result_eqb].
    split; [f_equal; f_equal; lia|lia].
Qed.

(* no notification for any outcome but completion, whatever the journal did to the balance *)
Lemma wrapper_silent : forall res c top b a, res <> RSelfDestruct -> sd_wrapper res c top b a = None.
Proof. intros res c top b a H. unfold sd_wrapper. destruct res; simpl; congruence. Qed.
