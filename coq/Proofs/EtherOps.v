(* C08 part 2: the three operations that move ether: transfer, create_account_checkpoint,
   selfdestruct. [phi] = total + ether burnt according to the journal. *)
From Coq Require Import FunctionalExtensionality Lia.
From RevmV Require Import Base.Word Model.Host Model.Ether Proofs.HostView Proofs.HostUndo Proofs.HostGood
  Proofs.HostOps Proofs.HostOps2 Proofs.HostOps3 Proofs.HostOps4 Proofs.HostRevert Proofs.HostMain
  Proofs.EtherProofs.
Local Open Scope Z_scope.

Definition phi (d : db) (us : list Z) (s : jstate) : Z := total d s us + jburn (journal s).

Lemma same8_phi d us s s' : same8 d s s' -> phi d us s' = phi d us s.
Proof. intros S. unfold phi. rewrite (same8_total d s s' us S). destruct S as [_ ->]. reflexivity. Qed.

Lemma total_put_present d s a acc acc' us :
  NoDup us -> In a us -> st s a = Some acc ->
  total d (put s a acc') us = total d s us - a_bal acc + a_bal acc'.
Proof. intros N I E. rewrite (total_put d s a acc' us N I), (bal_present d s a acc E). reflexivity. Qed.

(* ------------------------------------------------------------------ transfer: all three outcomes *)
Lemma transfer_total d s f t v s' r us :
  WF d s -> 0 <= v -> NoDup us -> In f us -> In t us ->
  transfer d s f t v = Some (s', r) ->
  total d s' us = total d s us /\ jburn (journal s') = jburn (journal s).
Proof.
  intros W Hv ND If It. unfold transfer.
  pose proof (proj2 (proj2 W)) as N.
  pose proof (same8_load d s f N) as S1. pose proof (load_journal_ne d s f N) as N1.
  destruct (load_account d s f) as [s1 c1]. cbn [fst] in *.
  pose proof (same8_load d s1 t N1) as S2. pose proof (load_journal_ne d s1 t N1) as N2.
  destruct (load_account d s1 t) as [s2 c2]. cbn [fst] in *.
  destruct (st s2 f) as [fa|] eqn:Ef; [|discriminate].
  pose proof (same8_touch_account d s2 f fa N2 Ef) as S3.
  pose proof (touch_account_journal_ne s2 f fa N2) as N3.
  set (s3 := touch_account s2 f fa) in *.
  assert (S03 : same8 d s s3) by (eapply same8_trans; [exact S1|]; eapply same8_trans; eauto).
  destruct (st s3 f) as [fa3|] eqn:Ef3; [|discriminate].
  destruct (a_bal fa3 <? v).
  { intros [= <- _]. split; [apply same8_total; exact S03|apply S03]. }
  set (s4 := put s3 f (acc_bal fa3 (a_bal fa3 - v))).
  assert (T4 : total d s4 us = total d s3 us - v).
  { unfold s4. rewrite (total_put_present d s3 f fa3 _ us ND If Ef3). cbn. lia. }
  destruct (st s4 t) as [ta|] eqn:Et; [|discriminate].
  assert (N4 : journal s4 <> []) by exact N3.
  pose proof (same8_touch_account d s4 t ta N4 Et) as S5.
  set (s5 := touch_account s4 t ta) in *.
  destruct (st s5 t) as [ta5|] eqn:Et5; [|discriminate].
  assert (J5 : jburn (journal s5) = jburn (journal s)).
  { destruct S5 as [_ ->]. unfold s4. rewrite journal_put. apply S03. }
  assert (T5 : total d s5 us = total d s us - v).
  { rewrite (same8_total d s4 s5 us S5), T4, (same8_total d s s3 us S03). reflexivity. }
  destruct (pow256 <=? a_bal ta5 + v).
  - destruct (st s5 f) as [fa5|] eqn:Ef5; [|discriminate]. intros [= <- _]. split.
    + rewrite (total_put_present d s5 f fa5 _ us ND If Ef5), T5. cbn.
      assert (a_bal fa5 = a_bal fa3 - v).
      { rewrite <- (bal_present d s5 f fa5 Ef5). destruct S5 as [B _]. rewrite B. unfold s4.
        rewrite bal_put, Z.eqb_refl. reflexivity. }
      lia.
    + rewrite journal_put. exact J5.
  - intros [= <- _]. split.
    + rewrite total_push, (total_put_present d s5 t ta5 _ us ND It Et5), T5. cbn. lia.
    + rewrite jburn_push; [rewrite journal_put, J5; cbn; lia|].
      rewrite journal_put. apply touch_account_journal_ne. exact N4.
Qed.

(* ------------------------------------------------------------------ reverting to the state before a checkpoint *)
Definition cp_of (s : jstate) : checkpoint_t := mkCp (length (logs s)) (length (journal s)).

Lemma checkpoint_snd s : snd (checkpoint s) = cp_of s. Proof. reflexivity. Qed.

(* the C06 invariant relative to s0 (the state before its checkpoint) lets the checkpoint of s0
   be reverted, with the whole observation and the journal of s0 as result *)
Lemma Inv_revert_base d s0 s cps :
  Inv d s0 s cps -> journal s0 <> [] ->
  exists s3, checkpoint_revert s (cp_of s0) = Some s3 /\ cview_of d s3 = cview_of d s0 /\
             journal s3 = journal s0 /\ WF d s3 /\ same_cfg s0 s3.
Proof.
  intros (top & N & J & (u & U & V) & (ex & L) & (c1 & c2 & c3) & W2 & F) N0.
  unfold checkpoint_revert, cp_of. cbn [journal_i log_i].
  assert (Hn : (length (journal s) - length (journal s0))%nat = length top) by (rewrite J, app_length; lia).
  rewrite Hn.
  assert (Hf : firstn (length top) (journal s) = top) by (rewrite J, firstn_app_le by lia; apply firstn_all).
  assert (Hk : skipn (length top) (journal s) = journal s0) by (rewrite J, skipn_app_le by lia; rewrite skipn_all; reflexivity).
  rewrite Hf, Hk, c1, U.
  eexists. split; [reflexivity|].
  destruct (undo_list_frame _ _ _ _ U) as (f1 & f2 & f3 & f4 & f5 & f6 & _ & _).
  split; [exact V|]. split; [reflexivity|]. split.
  - change (WF d (reframe u (firstn (length (logs s0)) (logs s)) (depth s - 1) (journal s0))).
    apply WF_reframe; [eapply WF_undo_list; eauto|exact N0].
  - unfold same_cfg. cbn. repeat split; congruence.
Qed.

Lemma Inv_after_checkpoint d s : WF d s -> Inv d s (fst (checkpoint s)) [].
Proof.
  intros W. unfold checkpoint. cbn [fst]. exists [[]].
  split; [congruence|]. split; [reflexivity|].
  split; [exists (set_journal (set_depth s (depth s + 1)) ([] :: journal s)); split; reflexivity|].
  split; [exists []; cbn; rewrite app_nil_r; reflexivity|]. split; [repeat split|].
  split; [|constructor]. destruct W as (A & B & N). split; [exact A|]. split; [exact B|cbn; congruence].
Qed.

Lemma bal_range d s x : WF d s -> in_u256 (bal d s x).
Proof.
  intros (A & _ & _). unfold bal. destruct (st s x) as [acc|] eqn:E.
  - destruct A as [A _]. eapply A; eauto.
  - eapply from_db_bal; eauto.
Qed.

(* a checkpoint, Good steps, and the revert of that checkpoint: back to the observation of s *)
Lemma revert_after_good d s sB s' :
  WF d s -> Good d (fst (checkpoint s)) sB -> WF d sB ->
  checkpoint_revert sB (snd (checkpoint s)) = Some s' ->
  cview_of d s' = cview_of d s /\ journal s' = journal s /\ WF d s'.
Proof.
  intros W G WB R.
  pose proof (Inv_good d s _ sB [] (Inv_after_checkpoint d s W) G WB) as I.
  destruct (Inv_revert_base d s sB [] I (proj2 (proj2 W))) as (s3 & R3 & V & J & W3 & _).
  rewrite checkpoint_snd in R. rewrite R in R3. injection R3 as <-. auto.
Qed.

(* ------------------------------------------------------------------ create_account_checkpoint *)
Lemma create_total d s c a hs v s' r us :
  WF d s -> hop_ok d s (HCreate c a hs v) -> v <= bal d s c ->
  NoDup us -> In c us -> In a us ->
  create_account_checkpoint s c a hs v (spurious s) = Some (s', r) ->
  total d s' us = total d s us /\ jburn (journal s') = jburn (journal s).
Proof.
  intros W Hok Hb ND Ic Ia L.
  destruct (create_spec d s c a hs v s' r W Hok L) as (sB & G & WB & R).
  assert (Fail : checkpoint_revert sB (snd (checkpoint s)) = Some s' ->
                 total d s' us = total d s us /\ jburn (journal s') = jburn (journal s)).
  { intros R'. destruct (revert_after_good d s sB s' W G WB R') as (V & J & _).
    split; [apply total_of_cview; exact V|congruence]. }
  destruct r as [cp'| |]; [|exact (Fail R)|exact (Fail R)]. clear Fail R G WB sB.
  destruct Hok as (Hv & Nca & _ & _).
  revert L. unfold create_account_checkpoint.
  pose proof (same8_checkpoint d s) as S1.
  destruct (checkpoint s) as [s1 cp] eqn:CP. cbn [fst] in S1.
  assert (N1 : journal s1 <> []) by (unfold checkpoint in CP; injection CP as <- _; cbn; congruence).
  destruct (st s1 a) as [acc|] eqn:Ea; [|discriminate].
  destruct (negb (a_code acc =? 0) || negb (a_nonce acc =? 0) || hs).
  { destruct (checkpoint_revert s1 cp); [intros [= _ ?]|]; discriminate. }
  set (s2 := push (put s1 a (acc_created acc true)) (AccountCreated a)).
  assert (S2 : same8 d s1 s2).
  { unfold s2. eapply same8_trans; [apply (same8_put d s1 a (acc_created acc true)); cbn; symmetry; apply bal_present; exact Ea|].
    apply same8_push; [rewrite journal_put; exact N1|reflexivity]. }
  assert (N2 : journal s2 <> []) by apply journal_push_ne.
  assert (E2 : st s2 a = Some (acc_created acc true)) by (unfold s2; rewrite st_push, st_put, Z.eqb_refl; reflexivity).
  rewrite E2.
  pose proof (same8_touch_account d s2 a _ N2 E2) as S3.
  pose proof (touch_account_journal_ne s2 a (acc_created acc true) N2) as N3.
  set (s3 := touch_account s2 a (acc_created acc true)) in *.
  assert (S03 : same8 d s s3) by (eapply same8_trans; [exact S1|]; eapply same8_trans; eauto).
  destruct (st s3 a) as [acc3|] eqn:E3; [|discriminate].
  destruct (pow256 <=? a_bal acc3 + v).
  { destruct (checkpoint_revert s3 cp); [intros [= _ ?]|]; discriminate. }
  set (acc5 := if spurious s then acc_nonce (acc_bal acc3 (a_bal acc3 + v)) 1 else acc_bal acc3 (a_bal acc3 + v)).
  assert (B5 : a_bal acc5 = a_bal acc3 + v) by (unfold acc5; destruct (spurious s); reflexivity).
  set (s5 := put s3 a acc5).
  destruct (st s5 c) as [cacc|] eqn:Ec; [|discriminate]. intros [= <- _].
  assert (Bc : a_bal cacc = bal d s c).
  { rewrite <- (bal_present d s5 c cacc Ec). unfold s5. rewrite bal_put, (eqb_ne c a Nca). apply S03. }
  pose proof (bal_range d s c W) as Rc.
  split.
  - rewrite total_push, (total_put_present d s5 c cacc _ us ND Ic Ec). unfold s5.
    rewrite (total_put_present d s3 a acc3 _ us ND Ia E3), B5, (same8_total d s s3 us S03).
    cbn [a_bal acc_bal]. rewrite wrap256_id; [lia|]. rewrite Bc. unfold in_u256 in *. lia.
  - rewrite jburn_push; [|rewrite journal_put; unfold s5; rewrite journal_put; exact N3].
    rewrite journal_put. unfold s5. rewrite journal_put. cbn [eburn]. destruct S03 as [_ ->]. lia.
Qed.

(* ------------------------------------------------------------------ selfdestruct *)
(* does a self-destruct of a delete the account: created in this transaction, or before CANCUN *)
Definition sd_deletes (s : jstate) (a : Z) : bool :=
  (match st s a with Some acc => a_created acc | None => false end) || negb (cancun s).

Lemma cancun_push s e : cancun (push s e) = cancun s.
Proof. unfold push. destruct (journal s); reflexivity. Qed.

Lemma load_self_acc d s a :
  exists acc1, st (fst (load_account d s a)) a = Some acc1 /\
    a_created acc1 = (match st s a with Some acc => a_created acc | None => false end) /\
    cancun (fst (load_account d s a)) = cancun s.
Proof.
  unfold load_account. destruct (st s a) as [acc|] eqn:E.
  - destruct (a_cold acc); cbn [fst].
    + eexists. rewrite st_push, st_put, Z.eqb_refl, cancun_push. split; [reflexivity|]. split; reflexivity.
    + exists acc. auto.
  - assert (C : a_created (account_from_db d a) = false) by (unfold account_from_db; destruct (db_basic d a) as [[[? ?] ?]|]; reflexivity).
    destruct (warm_pre s a); cbn [fst]; eexists; rewrite ?st_push, ?cancun_push, st_put, Z.eqb_refl;
      (split; [reflexivity|]); split; [exact C|reflexivity|exact C|reflexivity].
Qed.

Lemma selfdestruct_self_total d s a s' hv te pd c us :
  WF d s -> NoDup us -> In a us ->
  selfdestruct d s a a = Some (s', hv, te, pd, c) ->
  total d s' us = total d s us - (if sd_deletes s a then bal d s a else 0) /\
  jburn (journal s') = jburn (journal s) + (if sd_deletes s a then bal d s a else 0).
Proof.
  intros W ND Ia. unfold selfdestruct, sd_deletes.
  pose proof (proj2 (proj2 W)) as N.
  pose proof (same8_load d s a N) as S1. pose proof (load_journal_ne d s a N) as N1.
  destruct (load_self_acc d s a) as (acc1 & E1 & C1 & K1).
  destruct (load_account d s a) as [s1 cold]. cbn [fst] in *.
  rewrite E1, Z.eqb_refl, E1, C1, K1.
  assert (B1 : a_bal acc1 = bal d s a) by (rewrite <- (bal_present d s1 a acc1 E1); apply S1).
  destruct ((match st s a with Some acc => a_created acc | None => false end) || negb (cancun s)).
  - intros [= <- _ _ _ _]. split.
    + rewrite total_push, (total_put_present d s1 a acc1 _ us ND Ia E1), (same8_total d s s1 us S1).
      cbn [a_bal acc_bal]. lia.
    + rewrite jburn_push by (rewrite journal_put; exact N1). rewrite journal_put.
      cbn [eburn]. rewrite Z.eqb_refl. destruct S1 as [_ ->]. lia.
  - intros [= <- _ _ _ _]. split; [rewrite (same8_total d s s1 us S1); lia|destruct S1 as [_ ->]; lia].
Qed.

Lemma selfdestruct_other_total d s a t s' hv te pd c us :
  WF d s -> NoDup us -> In a us -> In t us -> a <> t ->
  selfdestruct d s a t = Some (s', hv, te, pd, c) ->
  total d s' us = total d s us - (if pow256 <=? bal d s t + bal d s a then pow256 else 0) /\
  jburn (journal s') = jburn (journal s).
Proof.
  intros W ND Ia It Nat. unfold selfdestruct.
  pose proof (proj2 (proj2 W)) as N.
  pose proof (same8_load d s t N) as S1. pose proof (load_journal_ne d s t N) as N1.
  destruct (load_account d s t) as [s1 cold]. cbn [fst] in *.
  destruct (st s1 t) as [tacc0|] eqn:Et0; [|discriminate].
  rewrite (eqb_ne a t Nat).
  destruct (st s1 a) as [acc|] eqn:Ea; [|discriminate].
  pose proof (same8_touch_account d s1 t tacc0 N1 Et0) as S2.
  pose proof (touch_account_journal_ne s1 t tacc0 N1) as N2.
  set (s2 := touch_account s1 t tacc0) in *.
  assert (S02 : same8 d s s2) by (eapply same8_trans; eauto).
  destruct (st s2 t) as [tacc|] eqn:Et; [|discriminate].
  assert (Ea2 : st s2 a = Some acc).
  { unfold s2. rewrite touch_account_st, (eqb_ne a t Nat). cbn. exact Ea. }
  set (s3 := put s2 t (acc_bal tacc (wrap256 (a_bal tacc + a_bal acc)))).
  assert (Ea3 : st s3 a = Some acc) by (unfold s3; rewrite st_put, (eqb_ne a t Nat); exact Ea2).
  rewrite Ea3.
  assert (Bt : a_bal tacc = bal d s t) by (rewrite <- (bal_present d s2 t tacc Et); apply S02).
  assert (Ba : a_bal acc = bal d s a) by (rewrite <- (bal_present d s2 a acc Ea2); apply S02).
  pose proof (bal_range d s t W) as Rt. pose proof (bal_range d s a W) as Ra.
  assert (T3 : total d s3 us = total d s us + bal d s a - (if pow256 <=? bal d s t + bal d s a then pow256 else 0)).
  { unfold s3. rewrite (total_put_present d s2 t tacc _ us ND It Et), (same8_total d s s2 us S02).
    cbn [a_bal acc_bal]. rewrite Bt, Ba. unfold wrap256. unfold in_u256 in *.
    destruct (pow256 <=? bal d s t + bal d s a) eqn:O.
    - apply Z.leb_le in O.
      replace ((bal d s t + bal d s a) mod pow256) with (bal d s t + bal d s a - pow256); [lia|].
      apply Z.mod_unique with (q := 1); lia.
    - apply Z.leb_gt in O. rewrite Z.mod_small by lia. lia. }
  assert (J3 : jburn (journal s3) = jburn (journal s)) by (unfold s3; rewrite journal_put; apply S02).
  assert (N3 : journal s3 <> []) by (unfold s3; rewrite journal_put; exact N2).
  assert (Fin : forall e, eburn e = 0 ->
            total d (push (put s3 a (acc_bal acc 0)) e) us = total d s us - (if pow256 <=? bal d s t + bal d s a then pow256 else 0) /\
            jburn (journal (push (put s3 a (acc_bal acc 0)) e)) = jburn (journal s)).
  { intros e He. split.
    - rewrite total_push, (total_put_present d s3 a acc _ us ND Ia Ea3), T3. cbn [a_bal acc_bal]. lia.
    - rewrite jburn_push by (rewrite journal_put; exact N3). rewrite journal_put, J3, He. lia. }
  destruct (a_created acc || negb (cancun s3)).
  - intros [= <- _ _ _ _].
    split.
    + rewrite total_push, (total_put_present d s3 a acc _ us ND Ia Ea3), T3. cbn [a_bal acc_bal]. lia.
    + rewrite jburn_push by (rewrite journal_put; exact N3). rewrite journal_put, J3. cbn [eburn].
      rewrite (eqb_ne a t Nat). lia.
  - cbn [negb]. intros [= <- _ _ _ _]. apply Fin. reflexivity.
Qed.
