(* C34 refinement, part 3: the frame chain, one step, all histories. *)
From Coq Require Import FunctionalExtensionality.
From RevmV Require Import Base.Word Model.Host Spec.AccessSpec Proofs.HostView Proofs.HostUndo
  Proofs.HostGood Proofs.HostOps Proofs.HostOps2 Proofs.HostOps3 Proofs.HostOps4 Proofs.HostRevert
  Proofs.HostMain Proofs.AccessProofs Proofs.AccessRefine Proofs.AccessRefine2.
Local Open Scope Z_scope.

(* what the model answers, and the annotations the specification needs *)
Definition hop_ann (d : db) (s : jstate) (o : hop) : ann :=
  match o with
  | HLoadDelegated a =>
      mkAnn (let '(s1, _) := load_code d s a in
             match st s1 a with Some acc => db_delegate d (a_code acc) | None => None end) false
  | HCreate c a hs v =>
      mkAnn None (match create_account_checkpoint s c a hs v (spurious s) with
                  | Some (_, CreateOk _) => true | _ => false end)
  | _ => mkAnn None false
  end.

Definition model_cold (d : db) (s : jstate) (o : hop) : list bool :=
  match o with
  | HLoad a => [snd (load_account d s a)]
  | HLoadDelegated a =>
      let '(_, c, _, dc) := load_account_delegated d s a in
      match dc with Some c2 => [c; c2] | None => [c] end
  | HSload a k => match sload d s a k with Some (_, _, c) => [c] | None => [] end
  | HSstore a k v => match sstore d s a k v with Some (_, _, _, c) => [c] | None => [] end
  | HSelfdestruct a t => match selfdestruct d s a t with Some (_, _, _, _, c) => [c] | None => [] end
  | _ => []
  end.

Fixpoint model_trace (d : db) (sc : jstate * list checkpoint_t) (h : list hop) : list (list bool) :=
  match h with
  | [] => []
  | o :: r => model_cold d (fst sc) o ::
              match run_hop d sc o with Some sc' => model_trace d sc' r | None => [] end
  end.
Fixpoint model_anns (d : db) (sc : jstate * list checkpoint_t) (h : list hop) : list ann :=
  match h with
  | [] => []
  | o :: r => hop_ann d (fst sc) o ::
              match run_hop d sc o with Some sc' => model_anns d sc' r | None => [] end
  end.

(* ------------------------------------------------------------------ the chain of open frames *)
Fixpoint Chain (d : db) (s : jstate) (above cps : list checkpoint_t) (stk : list asets) : Prop :=
  match cps, stk with
  | [], [] => True
  | cp :: rest, w0 :: stk' =>
      (exists s0, cp = cp_of s0 /\ R d s0 w0 /\ WF d s0 /\ Inv d s0 s above) /\
      Chain d s (above ++ [cp]) rest stk'
  | _, _ => False
  end.

Lemma Chain_transport d s s' (F G : list checkpoint_t -> list checkpoint_t) :
  (forall ab c, F (ab ++ [c]) = F ab ++ [c]) -> (forall ab c, G (ab ++ [c]) = G ab ++ [c]) ->
  (forall s0 ab, Inv d s0 s (F ab) -> Inv d s0 s' (G ab)) ->
  forall cps stk ab, Chain d s (F ab) cps stk -> Chain d s' (G ab) cps stk.
Proof.
  intros HF HG H. induction cps as [|cp rest IH]; intros stk ab; destruct stk as [|w0 stk']; cbn [Chain]; auto.
  intros [(s0 & E & Rw & W0 & I) C]. split.
  - exists s0. split; [exact E|]. split; [exact Rw|]. split; [exact W0|]. apply H. exact I.
  - rewrite <- HG. apply IH. rewrite HF. exact C.
Qed.

Lemma Chain_id d s s' :
  (forall s0 ab, Inv d s0 s ab -> Inv d s0 s' ab) ->
  forall cps stk ab, Chain d s ab cps stk -> Chain d s' ab cps stk.
Proof. intros H. apply (Chain_transport d s s' (fun x => x) (fun x => x)); auto. Qed.

Lemma Chain_push d s cp :
  (forall s0 ab, Inv d s0 s ab -> Inv d s0 (fst (checkpoint s)) (cp :: ab)) ->
  forall cps stk ab, Chain d s ab cps stk -> Chain d (fst (checkpoint s)) (cp :: ab) cps stk.
Proof. intros H. apply (Chain_transport d s _ (fun x => x) (fun x => cp :: x)); auto. Qed.

Lemma Chain_pop d s s' cp :
  (forall s0 ab, Inv d s0 s (cp :: ab) -> Inv d s0 s' ab) ->
  forall cps stk ab, Chain d s (cp :: ab) cps stk -> Chain d s' ab cps stk.
Proof. intros H. apply (Chain_transport d s s' (fun x => cp :: x) (fun x => x)); auto. Qed.

(* plain operations do not look at the checkpoint stack *)
Definition plain (o : hop) : bool :=
  match o with HCheckpoint | HCommit | HRevert | HCreate _ _ _ _ => false | _ => true end.

Lemma run_hop_plain d s c1 o s' c1' :
  plain o = true -> run_hop d (s, c1) o = Some (s', c1') ->
  c1' = c1 /\ forall c2, run_hop d (s, c2) o = Some (s', c2).
Proof.
  destruct o; cbn [plain run_hop]; try discriminate; intros _;
    repeat match goal with
           | |- context [let '(_, _) := ?x in _] => destruct x
           | |- context [match ?x with _ => _ end] => destruct x
           end; try discriminate; intros [= <- <-]; split; reflexivity.
Qed.

Definition GI (d : db) (s : jstate) (cps : list checkpoint_t) (w : asets) (stk : list asets) : Prop :=
  WF d s /\ R d s w /\ Chain d s [] cps stk.

Lemma WF_log d s l : WF d s -> WF d (log s l).
Proof. intros (A & B & C). exact (conj A (conj B C)). Qed.

Lemma WF_outer_revert d s0 s cps s3 :
  Inv d s0 s cps -> WF d s0 -> checkpoint_revert s (cp_of s0) = Some s3 -> WF d s3.
Proof.
  intros (top & N & J & (u & U & V) & (ex & L) & (c1 & c2 & c3) & W2 & F) W0.
  unfold checkpoint_revert, cp_of. cbn [journal_i log_i].
  assert (Hn : (length (journal s) - length (journal s0))%nat = length top) by (rewrite J, app_length; lia).
  rewrite Hn.
  assert (Hf : firstn (length top) (journal s) = top) by (rewrite J, firstn_app_le by lia; apply firstn_all).
  assert (Hk : skipn (length top) (journal s) = journal s0) by (rewrite J, skipn_app_le by lia; rewrite skipn_all; reflexivity).
  rewrite Hf, Hk, c1, U. intros [= <-].
  pose proof (WF_undo_list d _ _ _ _ W2 U) as (A & B & _).
  split; [exact A|]. split; [exact B|]. cbn. apply W0.
Qed.

(* ------------------------------------------------------------------ one step *)
Lemma GI_step d s cps w stk o s' cps' :
  GI d s cps w stk -> hop_ok d s o -> run_hop d (s, cps) o = Some (s', cps') ->
  let '((w', stk'), ans) := spec_step (w, stk) o (hop_ann d s o) in
  GI d s' cps' w' stk' /\ ans = model_cold d s o.
Proof.
  intros (W & Rw & C) Hok Run.
  assert (Plain : plain o = true ->
            forall w1, R d s' w1 -> WF d s' -> cps' = cps /\ GI d s' cps' w1 stk).
  { intros P w1 R1 W1. destruct (run_hop_plain d s cps o s' cps' P Run) as [-> Ind].
    split; [reflexivity|]. split; [exact W1|]. split; [exact R1|].
    eapply Chain_id; [|exact C]. intros s0 ab I. eapply Inv_hop; [exact I|exact Hok|apply Ind]. }
  destruct o; cbn [spec_step hop_ann model_cold an_deleg an_created].
  - (* HLoad *)
    cbn [run_hop] in Run. injection Run as <- <-.
    destruct (eff_load d s a w Rw) as [R1 A1]. unfold acc_access in *. cbn [fst snd] in *.
    split; [|rewrite A1; reflexivity].
    refine (proj2 (Plain eq_refl _ R1 (WF_load d s a W))).
  - (* HLoadDelegated *)
    cbn [run_hop] in Run. unfold load_account_delegated, load_code in *.
    destruct (eff_load d s a w Rw) as [R1 A1].
    pose proof (WF_load d s a W) as W1.
    destruct (load_account d s a) as [s1 c1]. cbn [fst snd] in *. unfold acc_access in *. cbn [fst snd] in *.
    destruct (st s1 a) as [acc|].
    + destruct (db_delegate d (a_code acc)) as [t|].
      * destruct (eff_load d s1 t _ R1) as [R2 A2]. pose proof (WF_load d s1 t W1) as W2.
        destruct (load_account d s1 t) as [s2 c2]. cbn [fst snd] in *. injection Run as <- <-.
        unfold acc_access in *. cbn [fst snd] in *. split; [|rewrite A1, A2; reflexivity].
        refine (proj2 (Plain eq_refl _ R2 W2)).
      * injection Run as <- <-. split; [|rewrite A1; reflexivity]. refine (proj2 (Plain eq_refl _ R1 W1)).
    + injection Run as <- <-. split; [|rewrite A1; reflexivity]. refine (proj2 (Plain eq_refl _ R1 W1)).
  - (* HTouch *)
    cbn [run_hop] in Run. injection Run as <- <-. split; [|reflexivity].
    refine (proj2 (Plain eq_refl _ (R_sw d s _ w Rw (sw_touch d s a)) (WF_touch d s a W))).
  - (* HIncNonce *)
    cbn [run_hop] in Run. destruct (inc_nonce s a) as [[s1 r]|] eqn:L; [|discriminate]. injection Run as <- <-.
    split; [|reflexivity].
    refine (proj2 (Plain eq_refl _ (R_sw d s _ w Rw (sw_inc_nonce d s a s1 r L)) (WF_inc_nonce d s a s1 r W L))).
  - (* HSetCode *)
    cbn [run_hop] in Run. destruct (set_code s a c) as [s1|] eqn:L; [|discriminate]. injection Run as <- <-.
    split; [|reflexivity].
    refine (proj2 (Plain eq_refl _ (R_sw d s _ w Rw (sw_set_code d s a c s1 L)) (WF_set_code d s a c s1 W L))).
  - (* HTransfer *)
    cbn [run_hop] in Run. destruct (transfer d s f t v) as [[s1 r]|] eqn:L; [|discriminate]. injection Run as <- <-.
    destruct (eff_load d s f w Rw) as [R1 _]. destruct (eff_load d _ t _ R1) as [R2 _].
    unfold acc_access in *. cbn [fst snd] in *. split; [|reflexivity].
    cbn [hop_ok] in Hok. destruct (Good_transfer d s f t v s1 r W Hok L) as [_ W1].
    refine (proj2 (Plain eq_refl _ (R_sw d _ _ _ R2 (sw_transfer d s f t v s1 r L)) W1)).
  - (* HCreate *)
    cbn [run_hop] in Run.
    destruct (create_account_checkpoint s caller addr has_storage v (spurious s)) as [[s1 r]|] eqn:L; [|discriminate].
    destruct (create_spec d s caller addr has_storage v s1 r W Hok L) as (sB & G & WB & Rs).
    assert (CB : forall ab, Chain d s ab cps stk -> Chain d sB (snd (checkpoint s) :: ab) cps stk).
    { intros ab Cab. eapply (Chain_id d (fst (checkpoint s)) sB).
      - intros s0 ab' I. eapply Inv_good; [exact I|exact G|exact WB].
      - apply Chain_push; [|exact Cab]. intros s0 ab' I. apply Inv_checkpoint. exact I. }
    assert (IB : Inv d s sB []) by (eapply Inv_good; [apply Inv_init; exact W|exact G|exact WB]).
    destruct r as [cp'| |].
    + destruct Rs as [-> ->]. injection Run as <- <-. split; [|reflexivity].
      split; [exact WB|]. split; [exact (R_sw d s _ w Rw (sw_create_ok d s _ _ _ _ _ _ _ L))|].
      cbn [Chain]. split; [exists s; split; [reflexivity|]; split; [exact Rw|]; split; [exact W|exact IB]|]. apply (CB [] C).
    + injection Run as <- <-. split; [|reflexivity].
      destruct (Inv_outer_revert d s sB [] IB) as (s3 & R3 & V3 & _).
      change (cp_of s) with (snd (checkpoint s)) in R3. rewrite Rs in R3. injection R3 as <-.
      split; [eapply WF_outer_revert; [exact IB|exact W|exact Rs]|].
      split; [exact (R_sw d s _ w Rw (warm_of_view d s _ V3))|].
      eapply Chain_pop; [|apply (CB [] C)]. intros s0 ab I.
      destruct (Inv_revert d s0 sB _ ab I) as (s2 & R2 & I2). rewrite Rs in R2. injection R2 as <-. exact I2.
    + injection Run as <- <-. split; [|reflexivity].
      destruct (Inv_outer_revert d s sB [] IB) as (s3 & R3 & V3 & _).
      change (cp_of s) with (snd (checkpoint s)) in R3. rewrite Rs in R3. injection R3 as <-.
      split; [eapply WF_outer_revert; [exact IB|exact W|exact Rs]|].
      split; [exact (R_sw d s _ w Rw (warm_of_view d s _ V3))|].
      eapply Chain_pop; [|apply (CB [] C)]. intros s0 ab I.
      destruct (Inv_revert d s0 sB _ ab I) as (s2 & R2 & I2). rewrite Rs in R2. injection R2 as <-. exact I2.
  - (* HSload *)
    cbn [run_hop] in Run. destruct (sload d s a k) as [[[s1 v] c]|] eqn:L; [|discriminate]. injection Run as <- <-.
    destruct (eff_sload d s a k s1 v c w Rw L) as [R1 A1]. unfold slot_access in *. cbn [fst snd] in *.
    split; [|rewrite A1; reflexivity].
    refine (proj2 (Plain eq_refl _ R1 (WF_sload d s a k s1 v c W L))).
  - (* HSstore *)
    cbn [run_hop] in Run. destruct (sstore d s a k v) as [[[[s1 o] p] c]|] eqn:L; [|discriminate]. injection Run as <- <-.
    destruct (sw_sstore_tail d s a k v s1 o p c L) as (s0 & v0 & L0 & S0).
    destruct (eff_sload d s a k s0 v0 c w Rw L0) as [R1 A1]. unfold slot_access in *. cbn [fst snd] in *.
    split; [|rewrite A1; reflexivity].
    refine (proj2 (Plain eq_refl _ (R_sw d _ _ _ R1 S0) (WF_sstore d s a k v s1 o p c W L))).
  - (* HTload *)
    cbn [run_hop] in Run. injection Run as <- <-. split; [|reflexivity]. refine (proj2 (Plain eq_refl _ Rw W)).
  - (* HTstore *)
    cbn [run_hop] in Run. injection Run as <- <-. split; [|reflexivity].
    refine (proj2 (Plain eq_refl _ (R_sw d s _ w Rw (sw_tstore d s a k v)) (WF_tstore d s a k v W))).
  - (* HLog *)
    cbn [run_hop] in Run. injection Run as <- <-. split; [|reflexivity].
    refine (proj2 (Plain eq_refl _ (R_sw d s _ w Rw (sw_log d s l)) (WF_log d s l W))).
  - (* HSelfdestruct *)
    cbn [run_hop] in Run. destruct (selfdestruct d s a t) as [[[[[s1 hv] te] pd] c]|] eqn:L; [|discriminate].
    injection Run as <- <-. destruct (sw_selfdestruct d s a t s1 hv te pd c L) as [S1 A0].
    destruct (eff_load d s t w Rw) as [R1 A1]. unfold acc_access in *. cbn [fst snd] in *.
    split; [|rewrite A0, A1; reflexivity].
    destruct (Good_selfdestruct d s a t s1 hv te pd c W L) as [_ W1].
    refine (proj2 (Plain eq_refl _ (R_sw d _ _ _ R1 S1) W1)).
  - (* HCheckpoint *)
    cbn [run_hop] in Run. injection Run as <- <-. split; [|reflexivity].
    split; [apply WF_checkpoint; exact W|]. split; [exact (R_sw d s _ w Rw (sw_reframe d s _ _ _))|].
    cbn [Chain]. split.
    + exists s. split; [reflexivity|]. split; [exact Rw|]. split; [exact W|]. apply Inv_init. exact W.
    + apply Chain_push; [|exact C]. intros s0 ab I. apply Inv_checkpoint. exact I.
  - (* HCommit *)
    cbn [run_hop] in Run. destruct cps as [|cp rest].
    + injection Run as <- <-. destruct stk; [|contradiction]. split; [|reflexivity]. split; [exact W|]. split; [exact Rw|exact C].
    + injection Run as <- <-. destruct stk as [|w0 stk']; [contradiction|]. destruct C as [_ C]. split; [|reflexivity].
      split; [exact (WF_reframe d s _ _ _ W (proj2 (proj2 W)))|]. split; [exact (R_sw d s _ w Rw (sw_reframe d s _ _ _))|].
      eapply Chain_pop; [|exact C]. intros s0 ab I. eapply Inv_commit; eauto.
  - (* HRevert *)
    cbn [run_hop] in Run. destruct cps as [|cp rest].
    + injection Run as <- <-. destruct stk; [|contradiction]. split; [|reflexivity]. split; [exact W|]. split; [exact Rw|exact C].
    + destruct (checkpoint_revert s cp) as [s1|] eqn:Rv; [|discriminate]. injection Run as <- <-.
      destruct stk as [|w0 stk']; [contradiction|]. destruct C as [(s0 & -> & R0 & W0 & I0) C]. split; [|reflexivity].
      destruct (Inv_outer_revert d s0 s [] I0) as (s3 & R3 & V3 & _). rewrite Rv in R3. injection R3 as <-.
      split; [eapply WF_outer_revert; [exact I0|exact W0|exact Rv]|].
      split; [exact (R_sw d s0 _ w0 R0 (warm_of_view d s0 _ V3))|].
      eapply Chain_pop; [|exact C]. intros s0' ab I.
      destruct (Inv_revert d s0' s _ ab I) as (s2 & R2 & I2). rewrite Rv in R2. injection R2 as <-. exact I2.
Qed.

Theorem access_refinement d h : forall s cps w stk sc',
  GI d s cps w stk -> contract d (s, cps) h -> run_hops d (s, cps) h = Some sc' ->
  snd (spec_run (w, stk) h (model_anns d (s, cps) h)) = model_trace d (s, cps) h.
Proof.
  induction h as [|o r IH]; intros s cps w stk sc' G C Run; cbn [spec_run model_anns model_trace run_hops contract fst] in *.
  - reflexivity.
  - destruct C as [Hok C]. cbn [fst] in Hok.
    destruct (run_hop d (s, cps) o) as [[s1 cps1]|] eqn:E; [|discriminate].
    pose proof (GI_step d s cps w stk o s1 cps1 G Hok E) as St.
    destruct (spec_step (w, stk) o (hop_ann d s o)) as [[w1 stk1] ans]. destruct St as [G1 A1].
    specialize (IH s1 cps1 w1 stk1 sc' G1 C Run).
    destruct (spec_run (w1, stk1) r (model_anns d (s1, cps1) r)) as [ws2 ar]. cbn [snd] in *.
    rewrite A1, IH. reflexivity.
Qed.

(* ------------------------------------------------------------------ the start of a transaction *)
Lemma R_jnew d sp ca wp : R d (jnew sp ca wp) (mkAS wp (fun _ _ => false)).
Proof. split; intros; reflexivity. Qed.

Lemma mem_z_In ks k : mem_z ks k = true <-> In k ks.
Proof.
  induction ks as [|x r IH]; cbn; [split; [discriminate|contradiction]|].
  rewrite orb_true_iff, IH, Z.eqb_eq. intuition.
Qed.

(* loading an access-list entry for an address that is not loaded yet *)
Lemma R_initial_load d s a ks w :
  R d s w -> st s a = None ->
  R d (initial_account_load d s a ks)
      (mkAS (upd (as_acc w) a true) (fun x k => as_slot w x k || ((x =? a) && mem_z ks k))).
Proof.
  intros [A B] E. destruct (initial_load_warms d s a ks E) as [Wa Ws].
  split.
  - intros x. cbn [as_acc]. unfold upd. destruct (x =? a) eqn:X.
    + apply Z.eqb_eq in X. subst. exact Wa.
    + rewrite <- A. unfold acc_warm, initial_account_load. rewrite E, view_acc_put, X. reflexivity.
  - intros x k. cbn [as_slot]. destruct (x =? a) eqn:X; cbn [andb].
    + apply Z.eqb_eq in X. subst. rewrite <- B.
      assert (slot_warm d s a k = false) as -> by (unfold slot_warm; rewrite (view_absent d s a E); reflexivity).
      cbn [orb]. destruct (mem_z ks k) eqn:M.
      * apply Ws. apply mem_z_In. exact M.
      * unfold slot_warm, initial_account_load. rewrite E, view_acc_put, Z.eqb_refl. cbn [v_slot view_of_acc].
        unfold slot_view. pose proof (preload_slots_spec d a ks (account_from_db d a) k) as P.
        destruct (a_storage (preload_slots d a (account_from_db d a) ks) k) as [sl|]; [|reflexivity].
        destruct P as [(sl0 & H0 & _)|(_ & Hin & _)].
        -- unfold account_from_db in H0. destruct (db_basic d a) as [[[b n] c]|]; discriminate.
        -- apply mem_z_In in Hin. congruence.
    + rewrite orb_false_r, <- B. unfold slot_warm, initial_account_load. rewrite E, view_acc_put, X. reflexivity.
Qed.
