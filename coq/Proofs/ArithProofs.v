From Coq Require Import ZArith List Lia Bool ZifyBool Zpow_facts.
From RevmV Require Import Base.Word Model.Gas Model.Arith.
From RevmV Require Spec.ArithSpec.
Import ListNotations.
Local Open Scope Z_scope.
Module S := ArithSpec.

Lemma W_eq : S.W = pow256. Proof. reflexivity. Qed.
Lemma two255 : 2 ^ 255 = pow255. Proof. reflexivity. Qed.
Lemma two256 : 2 ^ 256 = pow256. Proof. reflexivity. Qed.
Lemma pow256_pos : 0 < pow256. Proof. reflexivity. Qed.
Lemma pow256_split : pow256 = 2 * pow255. Proof. reflexivity. Qed.

Ltac dm := Z.div_mod_to_equations; lia.

(* ---------- easy opcodes ---------- *)
Lemma add_ok a b : op_add a b = S.ADD a b. Proof. reflexivity. Qed.
Lemma mul_ok a b : op_mul a b = S.MUL a b. Proof. reflexivity. Qed.
Lemma sub_ok a b : op_sub a b = S.SUB a b. Proof. reflexivity. Qed.
Lemma div_ok a b : op_div a b = S.DIV a b.
Proof. unfold op_div, S.DIV, udiv. destruct (b =? 0) eqn:E; cbn [negb]; [lia|reflexivity]. Qed.
Lemma rem_ok a b : op_rem a b = S.MOD a b.
Proof. unfold op_rem, S.MOD, urem. destruct (b =? 0) eqn:E; cbn [negb]; [lia|reflexivity]. Qed.
Lemma addmod_ok a b n : in_u256 a -> in_u256 b -> in_u256 n -> op_addmod a b n = S.ADDMOD a b n.
Proof.
  intros Ha Hb Hn. unfold op_addmod, add_mod, reduce_mod, S.ADDMOD.
  destruct (n =? 0) eqn:E0.
  - assert (n = 0) as -> by lia. reflexivity.
  - assert (N : 0 < n) by (destruct Hn; lia).
    assert (LA : (if n <=? a then a mod n else a) = a mod n).
    { destruct (n <=? a) eqn:E; [reflexivity|]. symmetry. apply Z.mod_small. destruct Ha. lia. }
    assert (LB : (if n <=? b then b mod n else b) = b mod n).
    { destruct (n <=? b) eqn:E; [reflexivity|]. symmetry. apply Z.mod_small. destruct Hb. lia. }
    rewrite LA, LB. rewrite (Z.add_mod a b n) by lia.
    pose proof (Z.mod_pos_bound a n N) as BA. pose proof (Z.mod_pos_bound b n N) as BB.
    set (l := a mod n) in *. set (r := b mod n) in *. destruct Hn as [_ Hn].
    destruct (pow256 <=? l + r) eqn:OV; cbn [orb].
    + assert (R : (l + r) mod pow256 = l + r - pow256)
        by (symmetry; apply (Z.mod_unique _ _ 1); [left; unfold pow256 in *; lia|lia]).
      rewrite R.
      assert (R2 : (l + r - pow256 - n) mod pow256 = l + r - n)
        by (symmetry; apply (Z.mod_unique _ _ (-1)); [left; unfold pow256 in *; lia|lia]).
      rewrite R2. apply (Z.mod_unique _ _ 1); [left; lia|lia].
    + rewrite (Z.mod_small (l + r) pow256) by lia.
      destruct (n <=? l + r) eqn:GE.
      * rewrite (Z.mod_small (l + r - n) pow256) by lia. apply (Z.mod_unique _ _ 1); [left; lia|lia].
      * symmetry. apply Z.mod_small. lia.
Qed.
Lemma mulmod_ok a b n : op_mulmod a b n = S.MULMOD a b n. Proof. reflexivity. Qed.
Lemma lt_ok a b : op_lt a b = S.LT a b. Proof. reflexivity. Qed.
Lemma gt_ok a b : op_gt a b = S.GT a b.
Proof. unfold op_gt, S.GT. rewrite Z.gtb_ltb. reflexivity. Qed.
Lemma eq_ok a b : op_eq a b = S.EQ a b. Proof. reflexivity. Qed.
Lemma iszero_ok a : op_iszero a = S.ISZERO a. Proof. reflexivity. Qed.

(* ---------- sign bit ---------- *)
Lemma bit255 v : in_u256 v -> bit v 255 = (pow255 <=? v).
Proof.
  intros H. unfold bit. cbn [Z.ltb Z.compare Pos.compare Pos.compare_cont].
  pose proof (Z.testbit_spec' v 255 ltac:(lia)) as T. rewrite two255 in T.
  unfold_pows. destruct (Z.testbit v 255); cbn [Z.b2z] in T; dm.
Qed.

Lemma signed_lo v : v < pow255 -> S.signed v = v.
Proof. intros. unfold S.signed. rewrite two255. destruct (v <? pow255) eqn:E; lia. Qed.
Lemma signed_hi v : pow255 <= v -> S.signed v = v - pow256.
Proof. intros. unfold S.signed. rewrite two255, W_eq. destruct (v <? pow255) eqn:E; lia. Qed.

Lemma i256_sign_cases v : in_u256 v ->
  (v = 0 /\ i256_sign v = Zero) \/ (0 < v < pow255 /\ i256_sign v = Plus) \/
  (pow255 <= v /\ i256_sign v = Minus).
Proof.
  intros H. unfold i256_sign. rewrite (bit255 v H).
  destruct (pow255 <=? v) eqn:E; [right; right; split; [lia|reflexivity]|].
  destruct (v =? 0) eqn:E0; [left; split; [lia|reflexivity]| right; left; split; [unfold_pows; lia|reflexivity]].
Qed.

(* ---------- SLT / SGT ---------- *)
Lemma i256_cmp_ok a b : in_u256 a -> in_u256 b -> i256_cmp a b = (S.signed a ?= S.signed b).
Proof.
  intros Ha Hb. unfold i256_cmp.
  destruct (i256_sign_cases a Ha) as [[A ->]|[[A ->]|[A ->]]];
  destruct (i256_sign_cases b Hb) as [[B ->]|[[B ->]|[B ->]]]; cbn [sign_ord Z.compare Pos.compare Pos.compare_cont CompOpp];
  try rewrite (signed_lo a) by (unfold_pows; lia); try rewrite (signed_hi a) by lia;
  try rewrite (signed_lo b) by (unfold_pows; lia); try rewrite (signed_hi b) by lia;
  unfold_pows; symmetry; try reflexivity;
  try (apply Z.compare_lt_iff; lia); try (apply Z.compare_gt_iff; lia);
  try (destruct (a ?= b) eqn:C;
       [apply Z.compare_eq_iff in C; apply Z.compare_eq_iff; lia
       |rewrite Z.compare_lt_iff in C; apply Z.compare_lt_iff; lia
       |rewrite Z.compare_gt_iff in C; apply Z.compare_gt_iff; lia]).
Qed.

Lemma slt_ok a b : in_u256 a -> in_u256 b -> op_slt a b = S.SLT a b.
Proof.
  intros Ha Hb. unfold op_slt, S.SLT. rewrite (i256_cmp_ok a b Ha Hb).
  unfold Z.ltb. destruct (S.signed a ?= S.signed b); reflexivity.
Qed.
Lemma sgt_ok a b : in_u256 a -> in_u256 b -> op_sgt a b = S.SGT a b.
Proof.
  intros Ha Hb. unfold op_sgt, S.SGT. rewrite (i256_cmp_ok a b Ha Hb).
  unfold Z.ltb. rewrite (Z.compare_antisym (S.signed a) (S.signed b)).
  destruct (S.signed a ?= S.signed b); reflexivity.
Qed.
(* ---------- bit-by-bit value ---------- *)
Lemma bits_value_ext n p q :
  (forall i, 0 <= i < Z.of_nat n -> p i = q i) -> S.bits_value n p = S.bits_value n q.
Proof.
  induction n as [|m IH]; intros E; [reflexivity|].
  cbn [S.bits_value]. rewrite IH by (intros; apply E; lia). rewrite (E (Z.of_nat m)) by lia.
  reflexivity.
Qed.

Lemma bits_value_testbit n x : S.bits_value n (Z.testbit x) = x mod 2 ^ Z.of_nat n.
Proof.
  induction n as [|m IH]; [cbn; now rewrite Z.mod_1_r|].
  cbn [S.bits_value]. rewrite IH. rewrite Nat2Z.inj_succ, Z.pow_succ_r by lia.
  rewrite (Z.mul_comm 2). rewrite Z.rem_mul_r by lia.
  rewrite <- Z.testbit_spec' by lia.
  destruct (Z.testbit x (Z.of_nat m)); cbn [Z.b2z]; lia.
Qed.

Lemma u256_log2 v : in_u256 v -> Z.log2 v < 256.
Proof.
  intros [H0 H1]. destruct (Z.eq_dec v 0) as [->|N]; [reflexivity|].
  apply Z.log2_lt_pow2; [lia|]. rewrite two256. exact H1.
Qed.
Lemma log2_u256 v : 0 <= v -> Z.log2 v < 256 -> in_u256 v.
Proof.
  intros H0 L. split; [exact H0|]. destruct (Z.eq_dec v 0) as [->|N]; [reflexivity|].
  rewrite <- two256. apply Z.log2_lt_pow2; lia.
Qed.

Lemma land_u256 a b : in_u256 a -> in_u256 b -> in_u256 (Z.land a b).
Proof.
  intros Ha Hb. pose proof (u256_log2 a Ha). pose proof (u256_log2 b Hb).
  destruct Ha, Hb. apply log2_u256; [apply Z.land_nonneg; lia|].
  pose proof (Z.log2_land a b ltac:(lia) ltac:(lia)). lia.
Qed.
Lemma lor_u256 a b : in_u256 a -> in_u256 b -> in_u256 (Z.lor a b).
Proof.
  intros Ha Hb. pose proof (u256_log2 a Ha). pose proof (u256_log2 b Hb).
  destruct Ha, Hb. apply log2_u256; [apply Z.lor_nonneg; lia|].
  rewrite (Z.log2_lor a b) by lia. lia.
Qed.
Lemma lxor_u256 a b : in_u256 a -> in_u256 b -> in_u256 (Z.lxor a b).
Proof.
  intros Ha Hb. pose proof (u256_log2 a Ha). pose proof (u256_log2 b Hb).
  destruct Ha, Hb. apply log2_u256; [apply Z.lxor_nonneg; lia|].
  pose proof (Z.log2_lxor a b ltac:(lia) ltac:(lia)). lia.
Qed.

Lemma bits_value_256 x : in_u256 x -> S.bits_value 256 (Z.testbit x) = x.
Proof.
  intros H. rewrite bits_value_testbit. change (2 ^ Z.of_nat 256) with pow256.
  apply Z.mod_small. exact H.
Qed.

Lemma and_ok a b : in_u256 a -> in_u256 b -> op_and a b = S.AND a b.
Proof.
  intros Ha Hb. unfold op_and, bitand, S.AND.
  rewrite (bits_value_ext 256 _ (Z.testbit (Z.land a b)))
    by (intros; unfold S.bitwise; now rewrite Z.land_spec).
  symmetry. apply bits_value_256. now apply land_u256.
Qed.
Lemma or_ok a b : in_u256 a -> in_u256 b -> op_or a b = S.OR a b.
Proof.
  intros Ha Hb. unfold op_or, bitor, S.OR.
  rewrite (bits_value_ext 256 _ (Z.testbit (Z.lor a b)))
    by (intros; unfold S.bitwise; now rewrite Z.lor_spec).
  symmetry. apply bits_value_256. now apply lor_u256.
Qed.
Lemma xor_ok a b : in_u256 a -> in_u256 b -> op_xor a b = S.XOR a b.
Proof.
  intros Ha Hb. unfold op_xor, bitxor, S.XOR.
  rewrite (bits_value_ext 256 _ (Z.testbit (Z.lxor a b)))
    by (intros; unfold S.bitwise; now rewrite Z.lxor_spec).
  symmetry. apply bits_value_256. now apply lxor_u256.
Qed.

Lemma max_ones : U256_MAX = Z.ones 256. Proof. reflexivity. Qed.
Lemma bitnot_val a : in_u256 a -> bitnot a = pow256 - 1 - a.
Proof.
  intros Ha. unfold bitnot. rewrite max_ones.
  pose proof (u256_log2 a Ha) as L. destruct Ha as [H0 H1].
  rewrite <- (Z.ldiff_ones_l_low a 256 H0 L).
  rewrite <- Z.sub_nocarry_ldiff by (apply Z.ldiff_ones_r_low; assumption).
  reflexivity.
Qed.
Lemma not_ok a : in_u256 a -> op_not a = S.NOT a.
Proof. intros Ha. unfold op_not, S.NOT. rewrite W_eq. now apply bitnot_val. Qed.
(* ---------- saturated conversion ---------- *)
Lemma sat_val v : in_u256 v -> as_usize_saturated v = if v <? pow64 then v else pow64 - 1.
Proof.
  intros H. unfold as_usize_saturated, as_u64_saturated. unfold_pows.
  destruct (v / _ =? 0) eqn:E; destruct (v <? _) eqn:F; dm.
Qed.

Lemma pow2_pos n : 0 < 2 ^ n \/ n < 0.
Proof. destruct (Z_lt_le_dec n 0); [right; lia|left; apply Z.pow_pos_nonneg; lia]. Qed.

Lemma pow256_factor s : 0 <= s <= 256 -> pow256 = 2 ^ (256 - s) * 2 ^ s.
Proof. intros. rewrite <- Z.pow_add_r by lia. replace (256 - s + s) with 256 by lia. reflexivity. Qed.

Lemma pow_ge_256 s : 256 <= s -> exists q, 0 < q /\ 2 ^ s = q * pow256.
Proof.
  intros. exists (2 ^ (s - 256)). split; [apply Z.pow_pos_nonneg; lia|].
  rewrite <- two256, <- Z.pow_add_r by lia. f_equal. lia.
Qed.

(* ---------- BYTE ---------- *)
Lemma byte_ok i x : in_u256 i -> op_byte i x = S.BYTE i x.
Proof.
  intros Hi. unfold op_byte, S.BYTE. rewrite (sat_val i Hi).
  destruct (i <? 32) eqn:E.
  - assert (i <? pow64 = true) as -> by (unfold pow64; lia).
    rewrite E. unfold le_byte. replace (8 * (31 - i)) with (8 * (31 - i)) by lia.
    rewrite (Z.pow_mul_r 2 8 (31 - i)) by (destruct Hi; lia). reflexivity.
  - destruct (i <? pow64) eqn:F; [rewrite E; reflexivity|reflexivity].
Qed.

(* ---------- SHL / SHR ---------- *)
Lemma sat_lt_256 s : in_u256 s -> (as_usize_saturated s <? 256) = (s <? 256).
Proof.
  intros H. rewrite (sat_val s H). unfold pow64.
  destruct (s <? 18446744073709551616) eqn:F; [reflexivity|]. lia.
Qed.
Lemma sat_small s : in_u256 s -> s < 256 -> as_usize_saturated s = s.
Proof. intros H L. rewrite (sat_val s H). unfold pow64. destruct (s <? _) eqn:F; lia. Qed.

Lemma shl_ok s x : in_u256 s -> in_u256 x -> op_shl s x = S.SHL s x.
Proof.
  intros Hs Hx. unfold op_shl, S.SHL, S.word. rewrite W_eq, (sat_lt_256 s Hs).
  destruct (s <? 256) eqn:E.
  - rewrite (sat_small s Hs) by lia. unfold shl_usize. rewrite E.
    rewrite Z.shiftl_mul_pow2 by (destruct Hs; lia). reflexivity.
  - destruct (pow_ge_256 s ltac:(lia)) as [q [Hq ->]].
    rewrite Z.mul_assoc, Z.mod_mul by (unfold pow256; lia). reflexivity.
Qed.

Lemma shr_ok s x : in_u256 s -> in_u256 x -> op_shr s x = S.SHR s x.
Proof.
  intros Hs Hx. unfold op_shr, S.SHR. rewrite (sat_lt_256 s Hs).
  destruct (s <? 256) eqn:E.
  - rewrite (sat_small s Hs) by lia. unfold shr_usize. rewrite E.
    rewrite Z.shiftr_div_pow2 by (destruct Hs; lia). reflexivity.
  - destruct (pow_ge_256 s ltac:(lia)) as [q [Hq ->]]. symmetry. apply Z.div_small.
    destruct Hx. split; [lia|]. assert (pow256 <= q * pow256) by (unfold pow256 in *; nia). lia.
Qed.

(* ---------- SAR ---------- *)
Lemma land_disjoint a c k : 0 <= a < 2 ^ k -> 0 <= k -> Z.land a (c * 2 ^ k) = 0.
Proof.
  intros Ha Hk. apply Z.bits_inj'. intros n Hn. rewrite Z.land_spec, Z.bits_0.
  destruct (Z_lt_le_dec n k) as [L|G].
  - rewrite Z.mul_pow2_bits_low by lia. apply andb_false_r.
  - destruct (Z.eq_dec a 0) as [->|N]; [rewrite Z.bits_0; reflexivity|].
    rewrite (Z.bits_above_log2 a n); [reflexivity|lia|].
    assert (Z.log2 a < k) by (apply Z.log2_lt_pow2; lia). lia.
Qed.
Lemma lor_disjoint_add a c k : 0 <= a < 2 ^ k -> 0 <= k -> Z.lor a (c * 2 ^ k) = a + c * 2 ^ k.
Proof.
  intros Ha Hk. pose proof (land_disjoint a c k Ha Hk) as D.
  rewrite <- Z.lxor_lor by exact D. symmetry. apply Z.add_nocarry_lxor. exact D.
Qed.

Lemma div_neg_small a b : 0 < b -> - b <= a < 0 -> a / b = -1.
Proof. intros Hb Ha. symmetry. apply (Z.div_unique a b (-1) (a + b)); lia. Qed.

(* MAX << n, 0 <= n <= 256 (zero for n = 256) *)
Lemma shl_max n : 0 <= n <= 256 -> shl_usize U256_MAX n = pow256 - 2 ^ n.
Proof.
  intros Hn. unfold shl_usize. destruct (n <? 256) eqn:E.
  - rewrite Z.shiftl_mul_pow2 by lia. unfold U256_MAX.
    assert (0 < 2 ^ n) by (apply Z.pow_pos_nonneg; lia).
    assert (2 ^ n < pow256) by (rewrite <- two256; apply Z.pow_lt_mono_r; lia).
    symmetry. apply (Z.mod_unique _ _ (2 ^ n - 1)); [lia|]. ring.
  - assert (n = 256) as -> by lia. rewrite two256. lia.
Qed.

Lemma sar_ok s x : in_u256 s -> in_u256 x -> op_sar s x = S.SAR s x.
Proof.
  intros Hs Hx. unfold op_sar, S.SAR, S.word. rewrite W_eq, (sat_lt_256 s Hs), (bit255 x Hx).
  destruct (s <? 256) eqn:E.
  - rewrite (sat_small s Hs) by lia. unfold arithmetic_shr. rewrite (bit255 x Hx).
    assert (Hs0 : 0 <= s < 256) by (destruct Hs; lia).
    unfold shr_usize. rewrite E, Z.shiftr_div_pow2 by lia.
    assert (P : 0 < 2 ^ s) by (apply Z.pow_pos_nonneg; lia).
    pose proof (pow256_factor s ltac:(lia)) as F.
    assert (Q : 0 < 2 ^ (256 - s)) by (apply Z.pow_pos_nonneg; lia).
    assert (R : 0 <= x / 2 ^ s < 2 ^ (256 - s)).
    { destruct Hx. split; [apply Z.div_pos; lia|]. apply Z.div_lt_upper_bound; [lia|]. rewrite Z.mul_comm. lia. }
    destruct (pow255 <=? x) eqn:Sg.
    + rewrite signed_hi by lia.
      rewrite Z.max_r by lia. rewrite shl_max by lia.
      replace (pow256 - 2 ^ (256 - s)) with ((2 ^ s - 1) * 2 ^ (256 - s)) by (rewrite F; ring).
      rewrite lor_disjoint_add by lia.
      replace (x - pow256) with (x + (- 2 ^ (256 - s)) * 2 ^ s) by (rewrite F; ring).
      rewrite Z.div_add by lia.
      apply (Z.mod_unique _ _ (-1)); [left|rewrite F; ring].
      rewrite F. nia.
    + rewrite signed_lo by lia. symmetry. apply Z.mod_small.
      assert (2 ^ (256 - s) <= pow256) by (rewrite F; nia). lia.
  - destruct (pow_ge_256 s ltac:(lia)) as [q [Hq Eq]].
    assert (G : pow256 <= 2 ^ s) by (rewrite Eq; unfold pow256 in *; nia).
    destruct (pow255 <=? x) eqn:Sg.
    + rewrite signed_hi by lia. rewrite div_neg_small by (destruct Hx; lia). reflexivity.
    + rewrite signed_lo by lia. rewrite Z.div_small by (destruct Hx; lia). reflexivity.
Qed.
(* ---------- SIGNEXTEND ---------- *)
Lemma mod_pow2_succ x n : 0 <= n ->
  x mod 2 ^ (n + 1) = x mod 2 ^ n + 2 ^ n * Z.b2z (Z.testbit x n).
Proof.
  intros Hn. rewrite Z.pow_add_r, Z.pow_1_r by lia.
  assert (0 < 2 ^ n) by (apply Z.pow_pos_nonneg; lia).
  rewrite Z.rem_mul_r by lia. rewrite <- Z.testbit_spec' by lia. reflexivity.
Qed.

(* x | (2^256 - 2^n): every bit from n upwards set *)
Lemma lor_high_ones x n : in_u256 x -> 0 <= n < 256 ->
  Z.lor x (pow256 - 2 ^ n) = x mod 2 ^ n + (pow256 - 2 ^ n).
Proof.
  intros Hx Hn.
  assert (P : 0 < 2 ^ n) by (apply Z.pow_pos_nonneg; lia).
  pose proof (pow256_factor n ltac:(lia)) as F.
  assert (Q : 0 < 2 ^ (256 - n)) by (apply Z.pow_pos_nonneg; lia).
  set (l := x mod 2 ^ n). set (h := x / 2 ^ n).
  assert (Hl : 0 <= l < 2 ^ n) by (apply Z.mod_pos_bound; lia).
  assert (Hh : 0 <= h < 2 ^ (256 - n)).
  { destruct Hx. split; [apply Z.div_pos; lia|]. apply Z.div_lt_upper_bound; [lia|]. rewrite Z.mul_comm. lia. }
  assert (X : x = Z.lor l (h * 2 ^ n)).
  { rewrite lor_disjoint_add by lia. unfold l, h. rewrite (Z.mul_comm _ (2 ^ n)), Z.add_comm.
    apply Z.div_mod. lia. }
  replace (pow256 - 2 ^ n) with (Z.ones (256 - n) * 2 ^ n)
    by (rewrite Z.ones_equiv, F; unfold Z.pred; ring).
  rewrite X at 1. rewrite <- Z.lor_assoc.
  rewrite <- !Z.shiftl_mul_pow2 by lia. rewrite <- Z.shiftl_lor.
  rewrite Z.lor_ones_low; [|lia|].
  - rewrite Z.shiftl_mul_pow2 by lia. apply lor_disjoint_add; lia.
  - destruct (Z.eq_dec h 0) as [->|N]; [change (Z.log2 0) with 0; lia|]. apply Z.log2_lt_pow2; lia.
Qed.

Lemma signextend_ok k x : in_u256 k -> in_u256 x -> op_signextend k x = S.SIGNEXTEND k x.
Proof.
  intros Hk Hx. unfold op_signextend, S.SIGNEXTEND.
  destruct (k <? 31) eqn:E; [|reflexivity].
  assert (K : 0 <= k < 31) by (destruct Hk; lia).
  rewrite (Z.mod_small k pow64) by (unfold pow64; lia).
  rewrite (Z.mod_small (8 * k + 7) pow64) by (unfold pow64; lia).
  set (n := 8 * k + 7). replace (8 * (k + 1)) with (n + 1) by (unfold n; lia).
  replace (n + 1 - 1) with n by lia.
  assert (N : 0 <= n < 256) by (unfold n; lia).
  assert (P : 0 < 2 ^ n) by (apply Z.pow_pos_nonneg; lia).
  assert (PL : 2 ^ n < pow256) by (rewrite <- two256; apply Z.pow_lt_mono_r; lia).
  unfold bit. assert (n <? 256 = true) as -> by lia.
  assert (M : wrapping_sub (shl_usize 1 n) 1 = 2 ^ n - 1).
  { unfold wrapping_sub, shl_usize. assert (n <? 256 = true) as -> by lia.
    rewrite Z.shiftl_mul_pow2, Z.mul_1_l by lia.
    rewrite (Z.mod_small (2 ^ n)) by lia. apply Z.mod_small. lia. }
  rewrite M. rewrite mod_pow2_succ by lia.
  assert (L : 0 <= x mod 2 ^ n < 2 ^ n) by (apply Z.mod_pos_bound; lia).
  unfold S.word. rewrite W_eq.
  destruct (Z.testbit x n) eqn:B; cbn [Z.b2z].
  - unfold bitor. rewrite bitnot_val by (unfold in_u256; lia).
    replace (pow256 - 1 - (2 ^ n - 1)) with (pow256 - 2 ^ n) by lia.
    rewrite lor_high_ones by assumption.
    assert ((x mod 2 ^ n + 2 ^ n * 1 <? 2 ^ n) = false) as -> by lia.
    rewrite Z.pow_add_r, Z.pow_1_r by lia.
    apply (Z.mod_unique _ _ (-1)); [left; lia|lia].
  - unfold bitand. replace (2 ^ n - 1) with (Z.ones n) by (rewrite Z.ones_equiv; lia).
    rewrite Z.land_ones by lia.
    assert ((x mod 2 ^ n + 2 ^ n * 0 <? 2 ^ n) = true) as -> by lia.
    rewrite Z.mul_0_r, Z.add_0_r. symmetry. apply Z.mod_small. lia.
Qed.

(* the bit-replication reading of the specification *)
Lemma SIGNEXTEND_bits k x i : 0 <= k < 31 -> in_u256 x -> 0 <= i < 256 ->
  Z.testbit (S.SIGNEXTEND k x) i = Z.testbit x (if i <? 8 * k + 7 then i else 8 * k + 7).
Proof.
  intros K Hx Hi. rewrite <- (signextend_ok k x) by (unfold in_u256 in *; unfold pow256; lia || assumption).
  unfold op_signextend. assert (k <? 31 = true) as -> by lia.
  rewrite (Z.mod_small k pow64) by (unfold pow64; lia).
  rewrite (Z.mod_small (8 * k + 7) pow64) by (unfold pow64; lia).
  set (n := 8 * k + 7). assert (N : 0 <= n < 256) by (unfold n; lia).
  assert (P : 0 < 2 ^ n) by (apply Z.pow_pos_nonneg; lia).
  assert (PL : 2 ^ n < pow256) by (rewrite <- two256; apply Z.pow_lt_mono_r; lia).
  unfold bit. assert (n <? 256 = true) as -> by lia.
  assert (M : wrapping_sub (shl_usize 1 n) 1 = Z.ones n).
  { unfold wrapping_sub, shl_usize. assert (n <? 256 = true) as -> by lia.
    rewrite Z.shiftl_mul_pow2, Z.mul_1_l by lia.
    rewrite (Z.mod_small (2 ^ n)) by lia. rewrite Z.ones_equiv. apply Z.mod_small. lia. }
  rewrite M.
  destruct (Z.testbit x n) eqn:B.
  - unfold bitor, bitnot. rewrite Z.lor_spec, Z.lxor_spec, max_ones.
    rewrite (Z.ones_spec_low 256 i) by lia.
    destruct (i <? n) eqn:C.
    + rewrite Z.ones_spec_low by lia. cbn. apply orb_false_r.
    + rewrite Z.ones_spec_high by lia. cbn. rewrite B. apply orb_true_r.
  - unfold bitand. rewrite Z.land_spec.
    destruct (i <? n) eqn:C.
    + rewrite Z.ones_spec_low by lia. apply andb_true_r.
    + rewrite Z.ones_spec_high by lia. rewrite B. apply andb_false_r.
Qed.
(* ---------- SDIV / SMOD ---------- *)
Ltac signs :=
  change (sign_eqb Zero Minus) with false; change (sign_eqb Plus Minus) with false;
  change (sign_eqb Minus Minus) with true; change (sign_eqb Zero Zero) with true;
  change (sign_eqb Plus Zero) with false; change (sign_eqb Minus Zero) with false;
  cbn [negb andb orb].
Ltac use_core C := let H := fresh "C" in pose proof C as H; cbv beta iota zeta in H; rewrite H; clear H.
Lemma two_compl_val v : 0 < v <= pow256 -> two_compl v = pow256 - v.
Proof.
  intros H. unfold two_compl, wrapping_neg. symmetry.
  apply (Z.mod_unique _ _ (-1)); [left; lia|lia].
Qed.
Lemma two_compl_0 : two_compl 0 = 0. Proof. reflexivity. Qed.
Lemma two_compl_word v : two_compl v = S.word (- v). Proof. reflexivity. Qed.

Lemma sign_compl_cases v : in_u256 v ->
  (v = 0 /\ i256_sign_compl v = (Zero, 0) /\ S.signed v = 0) \/
  (0 < v < pow255 /\ i256_sign_compl v = (Plus, v) /\ S.signed v = v) \/
  (pow255 <= v /\ i256_sign_compl v = (Minus, pow256 - v) /\ S.signed v = - (pow256 - v)).
Proof.
  intros H. unfold i256_sign_compl.
  destruct (i256_sign_cases v H) as [[A ->]|[[A ->]|[A ->]]]; signs.
  - left. subst v. repeat split; reflexivity.
  - right; left. repeat split; try lia. apply signed_lo; lia.
  - right; right. repeat split; try lia.
    + rewrite two_compl_val by (destruct H; unfold_pows; lia). reflexivity.
    + rewrite signed_hi by lia. lia.
Qed.

Lemma remove_sign_id d : 0 <= d < pow255 -> u256_remove_sign d = d.
Proof.
  intros H. unfold u256_remove_sign. change (pow255 - 1) with (Z.ones 255).
  rewrite Z.land_ones by lia. rewrite two255. apply Z.mod_small. exact H.
Qed.

Lemma word_small v : in_u256 v -> S.word v = v.
Proof. intros H. unfold S.word. rewrite W_eq. apply Z.mod_small. exact H. Qed.

Lemma sdiv_core a' b' (ng : bool) : 0 <= a' <= pow255 -> 1 <= b' <= pow255 ->
  (if (a' =? MIN_NEGATIVE_VALUE) && (b' =? 1) then two_compl MIN_NEGATIVE_VALUE
   else if ng then two_compl (u256_remove_sign (udiv a' b')) else u256_remove_sign (udiv a' b'))
  = S.word ((if ng then -1 else 1) * (a' / b')).
Proof.
  intros Ha Hb. unfold MIN_NEGATIVE_VALUE, udiv.
  destruct ((a' =? pow255) && (b' =? 1)) eqn:E.
  - assert (a' = pow255 /\ b' = 1) as [-> ->] by lia. rewrite Z.div_1_r.
    destruct ng; vm_compute; reflexivity.
  - assert (D : 0 <= a' / b' < pow255).
    { split; [apply Z.div_pos; lia|].
      destruct (Z.eq_dec b' 1) as [->|N].
      - rewrite Z.div_1_r. lia.
      - apply Z.div_lt_upper_bound; [lia|]. unfold pow255 in *. nia. }
    cbv zeta. rewrite remove_sign_id by exact D.
    destruct ng.
    + rewrite two_compl_word. f_equal; lia.
    + rewrite Z.mul_1_l. symmetry. apply word_small. unfold_pows. lia.
Qed.

Lemma sdiv_ok a b : in_u256 a -> in_u256 b -> op_sdiv a b = S.SDIV a b.
Proof.
  intros Ha Hb. unfold op_sdiv, i256_div, S.SDIV.
  destruct (sign_compl_cases b Hb) as [[B [-> SB]]|[[B [-> SB]]|[B [-> SB]]]]; rewrite SB; signs.
  - subst b. reflexivity.
  - assert (b =? 0 = false) as -> by lia.
    destruct (sign_compl_cases a Ha) as [[A [-> SA]]|[[A [-> SA]]|[A [-> SA]]]]; rewrite SA; signs.
    + use_core (sdiv_core 0 b false ltac:(unfold_pows; lia) ltac:(unfold_pows; lia)). reflexivity.
    + use_core (sdiv_core a b false ltac:(unfold_pows; lia) ltac:(unfold_pows; lia)).
      rewrite Z.quot_div_nonneg by lia. f_equal; lia.
    + use_core (sdiv_core (pow256 - a) b true ltac:(destruct Ha; unfold_pows; lia) ltac:(destruct Ha; unfold_pows; lia)).
      rewrite Z.quot_opp_l by lia. rewrite Z.quot_div_nonneg by (destruct Ha; lia). f_equal; lia.
  - assert (b =? 0 = false) as -> by (unfold_pows; lia).
    destruct (sign_compl_cases a Ha) as [[A [-> SA]]|[[A [-> SA]]|[A [-> SA]]]]; rewrite SA; signs.
    + use_core (sdiv_core 0 (pow256 - b) true ltac:(destruct Hb; unfold_pows; lia) ltac:(destruct Hb; unfold_pows; lia)). reflexivity.
    + use_core (sdiv_core a (pow256 - b) true ltac:(destruct Hb; unfold_pows; lia) ltac:(destruct Hb; unfold_pows; lia)).
      rewrite Z.quot_opp_r by (destruct Hb; lia).
      rewrite Z.quot_div_nonneg by (destruct Hb; lia). f_equal; lia.
    + use_core (sdiv_core (pow256 - a) (pow256 - b) false ltac:(destruct Ha, Hb; unfold_pows; lia) ltac:(destruct Ha, Hb; unfold_pows; lia)).
      rewrite Z.quot_opp_opp by (destruct Hb; lia).
      rewrite Z.quot_div_nonneg by (destruct Ha, Hb; lia). f_equal; lia.
Qed.

Lemma smod_core a' b' (ng : bool) : 0 <= a' -> 1 <= b' <= pow255 ->
  (if ng then two_compl (u256_remove_sign (urem a' b')) else u256_remove_sign (urem a' b'))
  = S.word ((if ng then -1 else 1) * (a' mod b')).
Proof.
  intros Ha Hb. unfold urem. cbv zeta.
  pose proof (Z.mod_pos_bound a' b' ltac:(lia)) as R.
  rewrite remove_sign_id by lia.
  destruct ng.
  - rewrite two_compl_word. f_equal; lia.
  - rewrite Z.mul_1_l. symmetry. apply word_small. unfold_pows. lia.
Qed.

Lemma smod_ok a b : in_u256 a -> in_u256 b -> op_smod a b = S.SMOD a b.
Proof.
  intros Ha Hb. unfold op_smod, i256_mod, S.SMOD.
  destruct (sign_compl_cases a Ha) as [[A [-> SA]]|[[A [-> SA]]|[A [-> SA]]]]; rewrite SA; signs.
  - destruct (b =? 0); [reflexivity|]. change (Z.rem 0 (S.signed b)) with 0. reflexivity.
  - destruct (sign_compl_cases b Hb) as [[B [-> SB]]|[[B [-> SB]]|[B [-> SB]]]]; rewrite SB; signs.
    + subst b. reflexivity.
    + assert (b =? 0 = false) as -> by lia.
      use_core (smod_core a b false ltac:(unfold_pows; lia) ltac:(unfold_pows; lia)).
      rewrite Z.rem_mod_nonneg by lia. f_equal; lia.
    + assert (b =? 0 = false) as -> by (unfold_pows; lia).
      use_core (smod_core a (pow256 - b) false ltac:(destruct Hb; unfold_pows; lia) ltac:(destruct Hb; unfold_pows; lia)).
      rewrite Z.rem_opp_r'. rewrite Z.rem_mod_nonneg by (destruct Hb; lia). f_equal; lia.
  - destruct (sign_compl_cases b Hb) as [[B [-> SB]]|[[B [-> SB]]|[B [-> SB]]]]; rewrite SB; signs.
    + subst b. reflexivity.
    + assert (b =? 0 = false) as -> by lia.
      use_core (smod_core (pow256 - a) b true ltac:(destruct Ha; unfold_pows; lia) ltac:(destruct Ha; unfold_pows; lia)).
      rewrite Z.rem_opp_l'. rewrite Z.rem_mod_nonneg by (destruct Ha; lia). f_equal; lia.
    + assert (b =? 0 = false) as -> by (unfold_pows; lia).
      use_core (smod_core (pow256 - a) (pow256 - b) true ltac:(destruct Ha, Hb; unfold_pows; lia) ltac:(destruct Ha, Hb; unfold_pows; lia)).
      rewrite Z.rem_opp_l', Z.rem_opp_r'.
      rewrite Z.rem_mod_nonneg by (destruct Ha, Hb; lia). f_equal; lia.
Qed.
(* ---------- EXP ---------- *)
Lemma pow_loop_ok fuel : forall base e r, 0 <= e < 2 ^ Z.of_nat fuel -> in_u256 r ->
  pow_loop fuel base e r = (r * base ^ e) mod pow256.
Proof.
  induction fuel as [|f IH]; intros base e r He Hr.
  - cbn in He. assert (e = 0) as -> by lia. cbn [pow_loop]. rewrite Z.pow_0_r, Z.mul_1_r.
    symmetry. apply Z.mod_small. exact Hr.
  - cbn [pow_loop]. destruct (e =? 0) eqn:E0.
    + assert (e = 0) as -> by lia. rewrite Z.pow_0_r, Z.mul_1_r. symmetry. apply Z.mod_small. exact Hr.
    + rewrite Nat2Z.inj_succ, Z.pow_succ_r in He by lia.
      rewrite Z.shiftr_div_pow2, Z.pow_1_r by lia.
      pose proof (Z.bit0_mod e) as B0. pose proof (Z.div_mod e 2 ltac:(lia)) as DM.
      assert (Hh : 0 <= e / 2 < 2 ^ Z.of_nat f) by dm.
      assert (PW : base ^ e = (base * base) ^ (e / 2) * base ^ (Z.b2z (Z.testbit e 0))).
      { rewrite DM at 1. rewrite B0. rewrite Z.pow_add_r by dm. rewrite Z.pow_mul_r by dm.
        rewrite Z.pow_2_r. reflexivity. }
      rewrite PW. unfold wrapping_mul.
      assert (XM : forall r', ((r' mod pow256) * ((base * base) mod pow256) ^ (e / 2)) mod pow256
                        = (r' * (base * base) ^ (e / 2)) mod pow256).
      { intros r'. rewrite Z.mul_mod_idemp_l by (unfold pow256; lia).
        rewrite <- Z.mul_mod_idemp_r by (unfold pow256; lia).
        rewrite <- Zpower_mod by reflexivity.
        rewrite Z.mul_mod_idemp_r by (unfold pow256; lia). reflexivity. }
      destruct (Z.testbit e 0); cbn [Z.b2z].
      * rewrite IH; [|exact Hh|apply Z.mod_pos_bound; reflexivity].
        rewrite XM. f_equal. rewrite Z.pow_1_r. ring.
      * rewrite IH; [|exact Hh|exact Hr].
        rewrite <- (Z.mod_small r pow256) at 1 by exact Hr.
        rewrite XM. f_equal. rewrite Z.pow_0_r. ring.
Qed.

Lemma exp_ok a e : in_u256 e -> op_exp a e = S.EXP a e.
Proof.
  intros He. unfold op_exp, wrapping_pow, S.EXP, S.word. rewrite W_eq.
  rewrite pow_loop_ok; [rewrite Z.mul_1_l; reflexivity|exact He|unfold_pows; lia].
Qed.

Lemma pow_pos_mod_ok a p : S.pow_pos_mod a p = (a ^ Zpos p) mod S.W.
Proof.
  assert (WP : S.W <> 0) by (rewrite W_eq; unfold pow256; lia).
  induction p as [q IH|q IH|]; cbn [S.pow_pos_mod]; unfold S.word.
  - rewrite IH. rewrite Pos2Z.inj_xI.
    replace (2 * Z.pos q + 1) with (Z.pos q + Z.pos q + 1) by lia.
    rewrite !Z.pow_add_r, Z.pow_1_r by lia.
    rewrite <- (Z.mul_mod (a ^ Z.pos q) (a ^ Z.pos q)) by exact WP.
    rewrite Z.mul_mod_idemp_l by exact WP. reflexivity.
  - rewrite IH. rewrite Pos2Z.inj_xO.
    replace (2 * Z.pos q) with (Z.pos q + Z.pos q) by lia.
    rewrite Z.pow_add_r by lia. rewrite <- Z.mul_mod by exact WP. reflexivity.
  - rewrite Z.pow_1_r. reflexivity.
Qed.

Lemma EXP_fast_ok a b : 0 <= b -> S.EXP_fast a b = S.EXP a b.
Proof.
  intros Hb. unfold S.EXP_fast, S.EXP. destruct b as [|p|p]; [reflexivity| |lia].
  unfold S.word at 1. apply pow_pos_mod_ok.
Qed.

(* ---------- evaluable shift forms ---------- *)
Lemma SHL_fast_ok s x : in_u256 s -> in_u256 x -> S.SHL_fast s x = S.SHL s x.
Proof.
  intros Hs Hx. unfold S.SHL_fast. destruct (s <? 256) eqn:E; [reflexivity|].
  rewrite <- shl_ok by assumption. unfold op_shl. rewrite sat_lt_256, E by assumption. reflexivity.
Qed.
Lemma SHR_fast_ok s x : in_u256 s -> in_u256 x -> S.SHR_fast s x = S.SHR s x.
Proof.
  intros Hs Hx. unfold S.SHR_fast. destruct (s <? 256) eqn:E; [reflexivity|].
  rewrite <- shr_ok by assumption. unfold op_shr. rewrite sat_lt_256, E by assumption. reflexivity.
Qed.
Lemma SAR_fast_ok s x : in_u256 s -> in_u256 x -> S.SAR_fast s x = S.SAR s x.
Proof.
  intros Hs Hx. unfold S.SAR_fast. destruct (Z_lt_le_dec s 256) as [L|G].
  - rewrite Z.min_l by lia. reflexivity.
  - rewrite Z.min_r by lia. assert (H256 : in_u256 256) by (unfold_pows; lia).
    rewrite <- (sar_ok 256 x H256 Hx), <- (sar_ok s x Hs Hx). unfold op_sar.
    rewrite !sat_lt_256 by assumption.
    assert (s <? 256 = false) as -> by lia. reflexivity.
Qed.
(* ---------- exp_cost ---------- *)
Lemma log2_split v k : 0 <= k -> 0 < v / 2 ^ k -> Z.log2 v = k + Z.log2 (v / 2 ^ k).
Proof.
  intros Hk Hx. set (x := v / 2 ^ k) in *.
  assert (P : 0 < 2 ^ k) by (apply Z.pow_pos_nonneg; lia).
  pose proof (Z.log2_spec x Hx) as [L1 L2]. pose proof (Z.log2_nonneg x) as J.
  set (j := Z.log2 x) in *.
  pose proof (Z.div_mod v (2 ^ k) ltac:(lia)) as DM. fold x in DM.
  pose proof (Z.mod_pos_bound v (2 ^ k) P) as R.
  apply Z.log2_unique; [lia|].
  replace (Z.succ (k + j)) with (k + Z.succ j) by lia. rewrite !Z.pow_add_r by lia.
  set (A := 2 ^ k) in *. set (B := 2 ^ j) in *. set (C := 2 ^ Z.succ j) in *.
  assert (M1 : A * B <= A * x) by (apply Z.mul_le_mono_nonneg_l; lia).
  assert (M2 : A * (x + 1) <= A * C) by (apply Z.mul_le_mono_nonneg_l; lia).
  clearbody A B C. nia.
Qed.

Lemma log2floor_loop_ok n : forall v, 0 < v < 2 ^ (64 * Z.of_nat n) ->
  log2floor_loop n v (64 * Z.of_nat n) = Z.log2 v.
Proof.
  induction n as [|i IH]; intros v Hv.
  - cbn in Hv. lia.
  - cbn [log2floor_loop]. unfold limb.
    assert (P : 0 < 2 ^ (64 * Z.of_nat i)) by (apply Z.pow_pos_nonneg; lia).
    assert (B : 2 ^ (64 * Z.of_nat (S i)) = 2 ^ (64 * Z.of_nat i) * pow64).
    { rewrite pow64_eq, <- Z.pow_add_r by lia. f_equal. lia. }
    assert (X : 0 <= v / 2 ^ (64 * Z.of_nat i) < pow64).
    { split; [apply Z.div_pos; lia|]. apply Z.div_lt_upper_bound; [lia|]. lia. }
    rewrite (Z.mod_small _ pow64) by exact X.
    destruct (v / 2 ^ (64 * Z.of_nat i) =? 0) eqn:E.
    + replace (64 * Z.of_nat (S i) - 64) with (64 * Z.of_nat i) by lia. apply IH.
      assert (v / 2 ^ (64 * Z.of_nat i) = 0) as Z0 by lia.
      apply Z.div_small_iff in Z0; lia.
    + unfold leading_zeros64. rewrite E. cbv iota.
      pose proof (Z.log2_nonneg (v / 2 ^ (64 * Z.of_nat i))) as J.
      rewrite (log2_split v (64 * Z.of_nat i)) by lia.
      match goal with |- context [if ?c =? 0 then _ else _] => destruct (c =? 0) eqn:E2 end; lia.
Qed.

Lemma log2floor_ok v : 0 < v < pow256 -> log2floor v = Z.log2 v.
Proof. intros H. unfold log2floor. apply (log2floor_loop_ok 4 v). rewrite <- two256 in H. exact H. Qed.

Lemma byte_size_fuel_ok f : forall e, 0 < e < 256 ^ Z.of_nat f ->
  S.byte_size_fuel f e = Z.log2 e / 8 + 1.
Proof.
  induction f as [|g IH]; intros e He.
  - cbn in He. lia.
  - cbn [S.byte_size_fuel]. assert (e <=? 0 = false) as -> by lia.
    rewrite Nat2Z.inj_succ, Z.pow_succ_r in He by lia.
    destruct (Z.eq_dec (e / 256) 0) as [Z0|NZ].
    + rewrite Z0. assert (S.byte_size_fuel g 0 = 0) as -> by (destruct g; reflexivity).
      apply Z.div_small_iff in Z0; [|lia].
      assert (Z.log2 e < 8) by (apply Z.log2_lt_pow2; [lia|]; change (2 ^ 8) with 256; lia).
      pose proof (Z.log2_nonneg e). dm.
    + assert (0 < e / 256) by dm.
      rewrite IH by dm.
      rewrite (log2_split e 8) by (change (2 ^ 8) with 256; lia). change (2 ^ 8) with 256.
      pose proof (Z.log2_nonneg (e / 256)). dm.
Qed.

Lemma byte_size_ok e : 0 < e < pow256 -> S.byte_size e = Z.log2 e / 8 + 1.
Proof.
  intros H. apply byte_size_fuel_ok. change (256 ^ Z.of_nat 33) with (256 * pow256). lia.
Qed.

(* the number of bytes is characterised by 256^(n-1) <= e < 256^n *)
Lemma byte_size_spec e : 0 < e < pow256 ->
  256 ^ (S.byte_size e - 1) <= e < 256 ^ (S.byte_size e) /\ 1 <= S.byte_size e <= 32.
Proof.
  intros H. rewrite byte_size_ok by exact H.
  pose proof (Z.log2_spec e ltac:(lia)) as [L1 L2]. pose proof (Z.log2_nonneg e) as J.
  assert (LL : Z.log2 e < 256) by (apply Z.log2_lt_pow2; [lia|rewrite two256; lia]).
  set (j := Z.log2 e) in *.
  replace (j / 8 + 1 - 1) with (j / 8) by lia.
  change 256 with (2 ^ 8) at 1 2. rewrite <- !Z.pow_mul_r by dm.
  split; [split|dm].
  - apply Z.le_trans with (2 ^ j); [apply Z.pow_le_mono_r; dm|exact L1].
  - apply Z.lt_le_trans with (2 ^ Z.succ j); [exact L2|apply Z.pow_le_mono_r; dm].
Qed.

Lemma exp_cost_ok spec e : in_u256 e -> exp_cost spec e = Some (S.exp_gas spec e).
Proof.
  intros He. unfold exp_cost, S.exp_gas, S.G_exp, S.G_expbyte, EXP, is_enabled_in, SPURIOUS_DRAGON.
  destruct (e =? 0) eqn:E0.
  - assert (e = 0) as -> by lia. cbn. destruct (5 <=? spec); reflexivity.
  - assert (E : 0 < e < pow256) by (destruct He; lia).
    rewrite log2floor_ok, byte_size_ok by exact E.
    assert (LL : Z.log2 e < 256) by (apply Z.log2_lt_pow2; [lia|rewrite two256; lia]).
    pose proof (Z.log2_nonneg e) as J.
    assert (N : 1 <= Z.log2 e / 8 + 1 <= 32) by dm.
    set (n := Z.log2 e / 8 + 1) in *.
    unfold checked_mul256, checked_add256.
    destruct (5 <=? spec).
    + assert (50 * n <? pow256 = true) as -> by (unfold pow256; lia).
      assert (10 + 50 * n <? pow256 = true) as -> by (unfold pow256; lia).
      assert (10 + 50 * n <? pow64 = true) as -> by (unfold pow64; lia). reflexivity.
    + assert (10 * n <? pow256 = true) as -> by (unfold pow256; lia).
      assert (10 + 10 * n <? pow256 = true) as -> by (unfold pow256; lia).
      assert (10 + 10 * n <? pow64 = true) as -> by (unfold pow64; lia). reflexivity.
Qed.
(* ---------- the instruction step: stack effect, gas, value ---------- *)
Definition c03_opcodes : list Z :=
  [0x01; 0x02; 0x03; 0x04; 0x05; 0x06; 0x07; 0x08; 0x09; 0x0A; 0x0B;
   0x10; 0x11; 0x12; 0x13; 0x14; 0x15; 0x16; 0x17; 0x18; 0x19; 0x1A; 0x1B; 0x1C; 0x1D].

Definition charged (g : gas) (c : Z) : gas := mkGas (limit g) (remaining g - c) (refunded g).

Lemma exp_fast_ok a e : in_u256 e -> op_exp a e = S.EXP_fast a e.
Proof. intros H. rewrite EXP_fast_ok by (destruct H; lia). now apply exp_ok. Qed.
Lemma shl_fast_ok s x : in_u256 s -> in_u256 x -> op_shl s x = S.SHL_fast s x.
Proof. intros. rewrite SHL_fast_ok by assumption. now apply shl_ok. Qed.
Lemma shr_fast_ok s x : in_u256 s -> in_u256 x -> op_shr s x = S.SHR_fast s x.
Proof. intros. rewrite SHR_fast_ok by assumption. now apply shr_ok. Qed.
Lemma sar_fast_ok s x : in_u256 s -> in_u256 x -> op_sar s x = S.SAR_fast s x.
Proof. intros. rewrite SAR_fast_ok by assumption. now apply sar_ok. Qed.

Ltac split_in H :=
  repeat (destruct H as [H|H]; [symmetry in H; subst|]); [..|destruct H].

Ltac value_ok :=
  match goal with
  | |- op_add _ _ = _ => apply add_ok | |- op_mul _ _ = _ => apply mul_ok
  | |- op_sub _ _ = _ => apply sub_ok | |- op_div _ _ = _ => apply div_ok
  | |- op_sdiv _ _ = _ => apply sdiv_ok | |- op_rem _ _ = _ => apply rem_ok
  | |- op_smod _ _ = _ => apply smod_ok | |- op_addmod _ _ _ = _ => apply addmod_ok
  | |- op_mulmod _ _ _ = _ => apply mulmod_ok | |- op_exp _ _ = _ => apply exp_fast_ok
  | |- op_signextend _ _ = _ => apply signextend_ok
  | |- op_lt _ _ = _ => apply lt_ok | |- op_gt _ _ = _ => apply gt_ok
  | |- op_slt _ _ = _ => apply slt_ok | |- op_sgt _ _ = _ => apply sgt_ok
  | |- op_eq _ _ = _ => apply eq_ok | |- op_iszero _ = _ => apply iszero_ok
  | |- op_and _ _ = _ => apply and_ok | |- op_or _ _ = _ => apply or_ok
  | |- op_xor _ _ = _ => apply xor_ok | |- op_not _ = _ => apply not_ok
  | |- op_byte _ _ = _ => apply byte_ok
  | |- op_shl _ _ = _ => apply shl_fast_ok | |- op_shr _ _ = _ => apply shr_fast_ok
  | |- op_sar _ _ = _ => apply sar_fast_ok
  end; assumption.

(* model value = specification value, for every opcode of the property *)
Lemma op_value_ok op args v : In op c03_opcodes -> Forall in_u256 args -> S.value op args = Some v ->
  Z.of_nat (length args) = S.arity op /\ op_value op args = Some v.
Proof.
  intros I F V. unfold c03_opcodes in I. split_in I;
  (destruct args as [|a [|b [|m [|z zs]]]]; cbn [S.value] in V; try discriminate V;
   injection V as <-;
   repeat match goal with H : Forall _ (_ :: _) |- _ => inversion H; clear H; subst end;
   split; [reflexivity|cbn [op_value]; f_equal; value_ok]).
Qed.

Theorem step_runs spec op args rest g v c :
  In op c03_opcodes -> S.available spec op = true -> Forall in_u256 args ->
  S.value op args = Some v -> S.gas_of spec op args = Some c -> c <= remaining g ->
  step spec op (args ++ rest) g = mkI Continue (v :: rest) (charged g c).
Proof.
  intros I A F V G C. destruct (op_value_ok op args v I F V) as [_ MV].
  unfold c03_opcodes in I. split_in I;
  (destruct args as [|a [|b [|m [|z zs]]]]; cbn [S.value] in V; try discriminate V; clear V;
   cbn [op_value] in MV; injection MV as <-;
   repeat match goal with H : Forall _ (_ :: _) |- _ => inversion H; clear H; subst end).
  all: cbn [app step].
  10: { (* EXP *) unfold S.gas_of in G. change (10 =? 10) with true in G. cbv iota in G. injection G as <-.
    unfold expop. rewrite exp_cost_ok by assumption. unfold record_cost.
    assert (S.exp_gas spec b <=? remaining g = true) as -> by lia. reflexivity. }
  all: try (vm_compute in G; injection G as <-;
            unfold binop, unop, ternop, with_gas, record_cost, VERYLOW, LOW, MID;
            match goal with |- context [?k <=? ?r] => assert (k <=? r = true) as -> by lia end;
            reflexivity).
  - vm_compute in G; injection G as <-. unfold shiftop. change (S.available spec 27) with (7 <=? spec) in A.
    unfold is_enabled_in, CONSTANTINOPLE. rewrite A. cbn [negb].
    unfold binop, with_gas, record_cost, VERYLOW.
    assert (3 <=? remaining g = true) as -> by lia. reflexivity.
  - vm_compute in G; injection G as <-. unfold shiftop. change (S.available spec 28) with (7 <=? spec) in A.
    unfold is_enabled_in, CONSTANTINOPLE. rewrite A. cbn [negb].
    unfold binop, with_gas, record_cost, VERYLOW.
    assert (3 <=? remaining g = true) as -> by lia. reflexivity.
  - vm_compute in G; injection G as <-. unfold shiftop. change (S.available spec 29) with (7 <=? spec) in A.
    unfold is_enabled_in, CONSTANTINOPLE. rewrite A. cbn [negb].
    unfold binop, with_gas, record_cost, VERYLOW.
    assert (3 <=? remaining g = true) as -> by lia. reflexivity.
Qed.
(* ---------- failing steps run nothing ---------- *)
Ltac eval_arity H :=
  match type of H with context [S.arity ?o] =>
    let v := eval vm_compute in (S.arity o) in change (S.arity o) with v in H end.

Theorem step_not_available spec op st g :
  In op c03_opcodes -> S.available spec op = false -> step spec op st g = mkI NotActivated st g.
Proof.
  intros I A. unfold c03_opcodes in I. split_in I.
  all: try (match type of A with S.available _ ?o = _ =>
              assert (S.available spec o = true) as T by reflexivity; rewrite T in A; discriminate A end).
  all: cbn [step]; unfold shiftop, is_enabled_in, CONSTANTINOPLE.
  - change (S.available spec 27) with (7 <=? spec) in A. rewrite A. reflexivity.
  - change (S.available spec 28) with (7 <=? spec) in A. rewrite A. reflexivity.
  - change (S.available spec 29) with (7 <=? spec) in A. rewrite A. reflexivity.
Qed.

Theorem step_underflow spec op st g :
  In op c03_opcodes -> Z.of_nat (length st) < S.arity op ->
  i_res (step spec op st g) <> Continue /\ i_stack (step spec op st g) = st.
Proof.
  intros I L. unfold c03_opcodes in I. split_in I; eval_arity L.
  all: destruct st as [|a [|b [|m st]]]; cbn [length] in L; try lia.
  all: cbn [step]; unfold shiftop, expop, binop, unop, ternop, with_gas, record_cost, is_enabled_in.
  all: repeat match goal with |- context [if negb ?c then _ else _] => destruct c; cbn [negb] end.
  all: repeat match goal with |- context [?k <=? ?r] => destruct (k <=? r) end.
  all: cbn [i_res i_stack]; split; [discriminate|reflexivity].
Qed.

Theorem step_out_of_gas spec op args rest g c :
  In op c03_opcodes -> S.available spec op = true -> Forall in_u256 args ->
  Z.of_nat (length args) = S.arity op -> S.gas_of spec op args = Some c -> remaining g < c ->
  i_res (step spec op (args ++ rest) g) = OutOfGas /\ i_gas (step spec op (args ++ rest) g) = g.
Proof.
  intros I A F L G C. unfold c03_opcodes in I. split_in I; eval_arity L.
  all: destruct args as [|a [|b [|m [|z zs]]]]; cbn [length] in L; try lia.
  all: repeat match goal with H : Forall _ (_ :: _) |- _ => inversion H; clear H; subst end.
  all: cbn [app step].
  10: { unfold S.gas_of in G. change (10 =? 10) with true in G. cbv iota in G. injection G as <-.
    unfold expop. rewrite exp_cost_ok by assumption. unfold record_cost.
    assert (S.exp_gas spec b <=? remaining g = false) as -> by lia. split; reflexivity. }
  all: vm_compute in G; injection G as <-.
  all: try (change (S.available spec 27) with (7 <=? spec) in A);
       try (change (S.available spec 28) with (7 <=? spec) in A);
       try (change (S.available spec 29) with (7 <=? spec) in A).
  all: unfold shiftop, binop, unop, ternop, with_gas, record_cost, VERYLOW, LOW, MID, is_enabled_in, CONSTANTINOPLE.
  all: try rewrite A; cbn [negb].
  all: match goal with |- context [?k <=? ?r] => assert (k <=? r = false) as -> by lia end.
  all: split; reflexivity.
Qed.

(* ---------- static prices ---------- *)
Theorem static_gas_charged op : In op c03_opcodes -> op <> 0x0A ->
  forall spec st g, S.available spec op = true -> Z.of_nat (length st) >= S.arity op ->
    forall c, S.static_gas op = Some c -> c <= remaining g ->
      remaining (i_gas (step spec op st g)) = remaining g - c.
Proof.
  intros I N spec st g A L c G C. unfold c03_opcodes in I. split_in I; try (exfalso; apply N; reflexivity).
  all: eval_arity L; vm_compute in G; injection G as <-.
  all: destruct st as [|a [|b [|m st]]]; cbn [length] in L; try lia.
  all: try (change (S.available spec 27) with (7 <=? spec) in A);
       try (change (S.available spec 28) with (7 <=? spec) in A);
       try (change (S.available spec 29) with (7 <=? spec) in A).
  all: cbn [step]; unfold shiftop, binop, unop, ternop, with_gas, record_cost, VERYLOW, LOW, MID, is_enabled_in, CONSTANTINOPLE.
  all: try rewrite A; cbn [negb].
  all: match goal with |- context [?k <=? ?r] => assert (k <=? r = true) as -> by lia end.
  all: reflexivity.
Qed.

(* ---------- sanity of the specification itself ---------- *)
Lemma signed_range_roundtrip x : in_u256 x ->
  - pow255 <= S.signed x < pow255 /\ S.word (S.signed x) = x.
Proof.
  intros Hx. unfold S.word. rewrite W_eq.
  destruct (Z_lt_le_dec x pow255) as [L|G].
  - rewrite signed_lo by exact L. split; [destruct Hx; unfold_pows; lia|]. apply Z.mod_small. exact Hx.
  - rewrite signed_hi by exact G. split; [destruct Hx; unfold_pows; lia|].
    symmetry. apply (Z.mod_unique _ _ (-1)); [left; exact Hx|lia].
Qed.

(* SDIV and SMOD are quotient and remainder of one division: (a sdiv b) * b + (a smod b) = a *)
Lemma SDIV_SMOD_euclid a b : in_u256 a -> in_u256 b -> b <> 0 ->
  S.ADD (S.MUL (S.SDIV a b) b) (S.SMOD a b) = a.
Proof.
  intros Ha Hb Nb. unfold S.ADD, S.MUL, S.SDIV, S.SMOD.
  assert (b =? 0 = false) as -> by lia.
  destruct (signed_range_roundtrip a Ha) as [_ RA].
  set (sa := S.signed a) in *. set (sb := S.signed b).
  assert (WP : S.W <> 0) by (rewrite W_eq; unfold pow256; lia).
  assert (B : exists k, b = sb + k * S.W).
  { unfold sb. rewrite W_eq. destruct (Z_lt_le_dec b pow255) as [L|G].
    - exists 0. rewrite signed_lo by exact L. lia.
    - exists 1. rewrite signed_hi by exact G. lia. }
  destruct B as [k B].
  pose proof (Z.quot_rem' sa sb) as QR.
  set (q := Z.quot sa sb) in *. set (r := Z.rem sa sb) in *.
  unfold S.word in *.
  rewrite Z.mul_mod_idemp_l by exact WP. rewrite <- Z.add_mod by exact WP.
  replace (q * b + r) with (sa + (q * k) * S.W) by (rewrite B; lia).
  rewrite Z.mod_add by exact WP. exact RA.
Qed.

(* BYTE reads the big-endian base-256 digits: the 32 bytes rebuild the word *)
Lemma be_value_mod n x : (n <= 32)%nat -> S.be_value n x = x mod 256 ^ Z.of_nat n.
Proof.
  induction n as [|m IH]; intros Hn; [cbn; now rewrite Z.mod_1_r|].
  cbn [S.be_value]. rewrite IH by lia. unfold S.BYTE.
  assert (31 - Z.of_nat m <? 32 = true) as -> by lia.
  replace (31 - (31 - Z.of_nat m)) with (Z.of_nat m) by lia.
  rewrite Nat2Z.inj_succ, Z.pow_succ_r by lia.
  assert (P : 0 < 256 ^ Z.of_nat m) by (apply Z.pow_pos_nonneg; lia).
  rewrite (Z.mul_comm 256). rewrite Z.rem_mul_r by lia. lia.
Qed.
Lemma BYTE_big_endian x : in_u256 x -> S.be_value 32 x = x.
Proof.
  intros Hx. rewrite be_value_mod by lia. change (256 ^ Z.of_nat 32) with pow256.
  apply Z.mod_small. exact Hx.
Qed.
