(* C19: loading a cache account from a preloaded bundle and loading it from the database with
   the bundle's changeset applied establish the same C15 invariant w.r.t. the same reference
   account; hence all reads agree, now and after any further history. *)
From RevmV Require Import Model.AcctStatus Model.StateDb Model.Preload Spec.PlainStateSpec Proofs.StateDbProofs.
Local Open Scope Z_scope.

(* ---- lookups in the merged database *)
Lemma aget_filter_keys {A B} (a : Z) (Bm : list (Z * B)) (l : list (Z * A)) :
  aget a (filter (fun ad => negb (has_key (fst ad) Bm)) l) = if has_key a Bm then None else aget a l.
Proof.
  induction l as [|[k v] l IH]; simpl; [destruct (has_key a Bm); reflexivity|].
  destruct (has_key k Bm) eqn:Ek; simpl.
  - rewrite IH. destruct (a =? k) eqn:E; [|reflexivity]. apply Z.eqb_eq in E. subst. rewrite Ek. reflexivity.
  - destruct (a =? k) eqn:E.
    + apply Z.eqb_eq in E. subst. rewrite Ek. reflexivity.
    + exact IH.
Qed.

Lemma bundle_accounts_lookup D B : forall seen a,
  aget a (bundle_accounts D seen B) =
  if existsb (Z.eqb a) seen then None
  else match aget a B with
       | Some b => apply_bundle_acc (aget a (db_accounts D)) b
       | None => None
       end.
Proof.
  induction B as [|[a0 b0] B IH]; intros seen a; simpl.
  - destruct (existsb (Z.eqb a) seen); reflexivity.
  - destruct (existsb (Z.eqb a0) seen) eqn:Es0.
    + rewrite IH. destruct (existsb (Z.eqb a) seen) eqn:Es; [reflexivity|].
      destruct (a =? a0) eqn:E; [|reflexivity]. apply Z.eqb_eq in E. subst. congruence.
    + assert (Hcons : forall x, existsb (Z.eqb x) (a0 :: seen) = (x =? a0) || existsb (Z.eqb x) seen) by reflexivity.
      destruct (apply_bundle_acc (aget a0 (db_accounts D)) b0) as [d'|] eqn:Ed; simpl.
      * destruct (a =? a0) eqn:E.
        { apply Z.eqb_eq in E. subst. rewrite Es0. symmetry. exact Ed. }
        { rewrite IH, Hcons, E. reflexivity. }
      * rewrite IH, Hcons. destruct (a =? a0) eqn:E; simpl.
        { apply Z.eqb_eq in E. subst. rewrite Es0. symmetry. exact Ed. }
        { reflexivity. }
Qed.

Lemma merged_lookup D B Bc a :
  aget a (db_accounts (apply_bundle_db D B Bc)) = merged_acc D B a.
Proof.
  unfold apply_bundle_db, merged_acc. simpl. rewrite aget_app, bundle_accounts_lookup. simpl.
  rewrite aget_filter_keys. unfold has_key.
  destruct (aget a B) as [b|]; [|reflexivity].
  destruct (apply_bundle_acc (aget a (db_accounts D)) b); reflexivity.
Qed.

Lemma merged_basic D B Bc a :
  load_from_db (apply_bundle_db D B Bc) a = load_acc (merged_acc D B a).
Proof. unfold load_from_db, db_basic, load_acc. rewrite merged_lookup. reflexivity. Qed.
Lemma merged_storage D B Bc a k :
  db_storage (apply_bundle_db D B Bc) a k = ds_of (merged_acc D B a) k.
Proof. unfold db_storage, ds_of. rewrite merged_lookup. reflexivity. Qed.
Lemma plain_storage D a k : db_storage D a k = ds_of (aget a (db_accounts D)) k.
Proof. reflexivity. Qed.

Lemma preloaded_fresh D clear B Bc a :
  load_fresh (state_with_bundle D clear B Bc) a =
  match aget a B with Some b => cacc_of_bundle b | None => load_acc (aget a (db_accounts D)) end.
Proof. unfold load_fresh, state_with_bundle. simpl. destruct (aget a B); reflexivity. Qed.

(* ---- code *)
Lemma aget_filter_hash (K h : Z) (Bc : list (Z * Z)) :
  aget h (filter (fun hc => negb (fst hc =? K)) Bc) = if h =? K then None else aget h Bc.
Proof.
  induction Bc as [|[k v] l IH]; simpl; [destruct (h =? K); reflexivity|].
  destruct (k =? K) eqn:Ek; simpl.
  - rewrite IH. destruct (h =? K) eqn:Eh; [reflexivity|].
    destruct (h =? k) eqn:E; [|reflexivity]. apply Z.eqb_eq in E, Ek. subst. rewrite Z.eqb_refl in Eh. discriminate.
  - destruct (h =? k) eqn:E.
    + apply Z.eqb_eq in E. subst. rewrite Ek. reflexivity.
    + exact IH.
Qed.

Definition BundleCodeOK (D : db) (Bc : list (Z * Z)) : Prop :=
  forall c, sget KECCAK_EMPTY Bc = Some c -> c = db_code D KECCAK_EMPTY.

Lemma preload_code D clear B Bc h :
  BundleCodeOK D Bc ->
  snd (st_code_by_hash (state_with_bundle D clear B Bc) h)
  = snd (st_code_by_hash (state_new (apply_bundle_db D B Bc) clear) h).
Proof.
  intro Hk. unfold st_code_by_hash, state_with_bundle, state_new. simpl.
  unfold db_code, apply_bundle_db, sget. simpl. rewrite aget_app, aget_filter_hash.
  destruct (h =? KECCAK_EMPTY) eqn:E.
  - apply Z.eqb_eq in E. subst. destruct (aget KECCAK_EMPTY Bc) as [c|] eqn:Ec; simpl; [|reflexivity].
    apply Hk in Ec. unfold db_code, sget in Ec. exact Ec.
  - destruct (aget h Bc); reflexivity.
Qed.

(* ---- one account *)
Definition BundleAccOK (d : option dbacc) (b : bacc) : Prop :=
  match b_info b with
  | None => b_status b = LoadedNotExisting \/ b_status b = Destroyed \/ b_status b = DestroyedAgain
  | Some i =>
    (b_status b <> LoadedNotExisting /\ b_status b <> Destroyed /\ b_status b <> DestroyedAgain) /\
    i_code_hash i <> 0 /\
    (b_status b = Loaded -> info_is_empty i = false) /\
    (b_status b = Changed -> has_no_code_and_nonce i = false) /\
    (b_status b = LoadedEmptyEIP161 -> info_is_empty i = true) /\
    (* storage claimed as fully known without a wipe: the database holds nothing else *)
    (is_storage_known (b_status b) = true -> was_destroyed (b_status b) = false ->
       forall k, sget k (present_map (b_storage b)) = None -> ds_of d k = 0) /\
    (* no storage under an account without code and nonce (the F15/F17 class) *)
    (has_no_code_and_nonce i = true ->
       (forall s, In s (b_storage b) -> s_present s = 0) /\
       (was_destroyed (b_status b) = false -> forall k, ds_of d k = 0))
  end.

Lemma sget_present_some l k v :
  sget k (present_map l) = Some v -> exists s, In s l /\ s_present s = v.
Proof.
  unfold sget. induction l as [|s r IH]; simpl; [discriminate|].
  destruct (k =? s_key s).
  - intro H. inversion H. exists s. split; [left; reflexivity|reflexivity].
  - intro H. destruct (IH H) as [t [Ht Hv]]. exists t. split; [right; exact Ht|exact Hv].
Qed.

Lemma merged_ds d b i k :
  b_info b = Some i ->
  ds_of (apply_bundle_acc d b) k =
  match sget k (present_map (b_storage b)) with
  | Some v => v
  | None => if was_destroyed (b_status b) then 0 else ds_of d k
  end.
Proof.
  intro Hi. unfold apply_bundle_acc. rewrite Hi. unfold ds_of. simpl. unfold sget. rewrite aget_app.
  destruct (aget k (present_map (b_storage b))); [reflexivity|].
  destruct (was_destroyed (b_status b)); [reflexivity|]. destruct d; reflexivity.
Qed.

Theorem preload_inv d b :
  BundleAccOK d b ->
  let d' := apply_bundle_acc d b in
  let r := option_map ref_of_dbacc d' in
  Inv (ds_of d) (cacc_of_bundle b) r /\ Inv (ds_of d') (load_acc d') r.
Proof.
  unfold BundleAccOK. intros H. simpl.
  destruct (b_info b) as [i|] eqn:Ei.
  2:{ unfold apply_bundle_acc, cacc_of_bundle. rewrite Ei. simpl. split.
      - apply inv_gone. exact H.
      - apply (load_inv_sem None). exact I. }
  destruct H as [[Hs1 [Hs2 Hs3]] [Hh [Hl [Hc [Hle [Hknown Horph]]]]]].
  assert (Hd' : apply_bundle_acc d b = Some (mkDbAcc i (present_map (b_storage b) ++
                 (if was_destroyed (b_status b) then [] else match d with Some d => d_storage d | None => [] end)))).
  { unfold apply_bundle_acc. rewrite Ei. reflexivity. }
  assert (Hrs : forall k, ref_storage (option_map ref_of_dbacc (apply_bundle_acc d b)) k = ds_of (apply_bundle_acc d b) k).
  { intro k. rewrite Hd'. reflexivity. }
  assert (Hzero : has_no_code_and_nonce i = true -> forall k, ds_of (apply_bundle_acc d b) k = 0).
  { intros Hn k. destruct (Horph Hn) as [Hp Hd]. rewrite (merged_ds d b i k Ei).
    destruct (sget k (present_map (b_storage b))) as [v|] eqn:E.
    - apply sget_present_some in E as [s [Hin Hv]]. rewrite <- Hv. apply Hp. exact Hin.
    - destruct (was_destroyed (b_status b)); [reflexivity|]. apply Hd. reflexivity. }
  split.
  - unfold cacc_of_bundle. rewrite Ei. simpl. constructor; simpl.
    + unfold shape_ok. simpl. destruct (b_status b); try discriminate; congruence.
    + unfold info_rel. simpl. rewrite Hd'. simpl. apply same_refl.
    + intro k. rewrite Hrs, (merged_ds d b i k Ei). unfold storage_view. simpl.
      destruct (sget k (present_map (b_storage b))) as [v|] eqn:E; [reflexivity|].
      destruct (is_storage_known (b_status b)) eqn:Ek; destruct (was_destroyed (b_status b)) eqn:Ew; try reflexivity.
      * symmetry. apply Hknown; auto.
      * destruct (b_status b); discriminate.
    + intros q Hq Hn k. rewrite Hd' in Hq. inversion Hq; subst q. simpl in Hn.
      pose proof (Hzero Hn k) as Hz. rewrite Hd' in Hz. exact Hz.
    + intros Hst q Hq. rewrite Hd' in Hq. inversion Hq; subst q. simpl. apply Hl. exact Hst.
    + intros Hst q Hq. rewrite Hd' in Hq. inversion Hq; subst q. simpl. apply Hc. exact Hst.
    + intros Hst q Hq. rewrite Hd' in Hq. inversion Hq; subst q. simpl. apply Hle. exact Hst.
    + intros q Hq. rewrite Hd' in Hq. inversion Hq; subst q. simpl. exact Hh.
  - apply load_inv_sem. rewrite Hd'. simpl. split; [exact Hh|].
    intros Hn k. pose proof (Hzero Hn k) as Hz. rewrite Hd' in Hz. exact Hz.
Qed.

(* every read agrees, immediately and after any further history of commits / increments /
   drains / reads that satisfies EvmOutOK w.r.t. the common reference account *)
Theorem preload_agree d b h :
  BundleAccOK d b ->
  let d' := apply_bundle_acc d b in
  let r := option_map ref_of_dbacc d' in
  hist_ok r h ->
  exists cA cB,
    acc_run (ds_of d) (cacc_of_bundle b) h = Some cA /\
    acc_run (ds_of d') (load_acc d') h = Some cB /\
    oinfo_same (cacc_basic cA) (ref_basic (spec_run r h)) /\
    oinfo_same (cacc_basic cB) (ref_basic (spec_run r h)) /\
    forall k, snd (cacc_storage (ds_of d) cA k) = snd (cacc_storage (ds_of d') cB k).
Proof.
  intros Hb d' r Hh. destruct (preload_inv d b Hb) as [HA HB]. fold d' in HA, HB. fold r in HA, HB.
  destruct (run_any (ds_of d) h _ _ HA Hh) as [cA [EA IA]].
  destruct (run_any (ds_of d') h _ _ HB Hh) as [cB [EB IB]].
  exists cA, cB. destruct (inv_reads _ _ _ IA) as [A1 A2]. destruct (inv_reads _ _ _ IB) as [B1 B2].
  repeat split; try assumption. intro k. rewrite A2, B2. reflexivity.
Qed.

(* ---- the two freshly built States *)
Lemma oinfo_same_sym a b : oinfo_same a b -> oinfo_same b a.
Proof. unfold oinfo_same. destruct a, b; try tauto. apply same_sym. Qed.
Lemma oinfo_same_trans a b c : oinfo_same a b -> oinfo_same b c -> oinfo_same a c.
Proof. unfold oinfo_same. destruct a, b, c; try tauto. apply same_trans. Qed.
Lemma oinfo_same_refl a : oinfo_same a a.
Proof. destruct a; simpl; [apply same_refl|exact I]. Qed.

Definition BundleOK (D : db) (B : list (Z * bacc)) (Bc : list (Z * Z)) : Prop :=
  (forall a b, aget a B = Some b -> BundleAccOK (aget a (db_accounts D)) b) /\ BundleCodeOK D Bc.

Lemma fresh_first_read s a k :
  st_accounts s = [] ->
  snd (st_basic s a) = cacc_basic (load_fresh s a) /\
  exists s', st_storage (fst (st_basic s a)) a k
             = Some (s', snd (cacc_storage (db_storage (st_db s) a) (load_fresh s a) k)).
Proof.
  intro He. unfold st_basic, load_cache_account. rewrite He. simpl. split; [reflexivity|].
  unfold st_storage. simpl. rewrite Z.eqb_refl.
  destruct (cacc_storage (db_storage (st_db s) a) (load_fresh s a) k) as [c' v]. eexists. reflexivity.
Qed.

Theorem fresh_reads_agree D clear B Bc a :
  BundleOK D B Bc ->
  let sA := state_with_bundle D clear B Bc in
  let sB := state_new (apply_bundle_db D B Bc) clear in
  oinfo_same (snd (st_basic sA a)) (snd (st_basic sB a)) /\
  (forall k sA' vA sB' vB,
     st_storage (fst (st_basic sA a)) a k = Some (sA', vA) ->
     st_storage (fst (st_basic sB a)) a k = Some (sB', vB) -> vA = vB) /\
  (forall h, snd (st_code_by_hash sA h) = snd (st_code_by_hash sB h)).
Proof.
  intros [Hacc Hcode] sA sB.
  assert (HfA : load_fresh sA a = match aget a B with Some b => cacc_of_bundle b | None => load_acc (aget a (db_accounts D)) end)
    by apply preloaded_fresh.
  assert (HfB : load_fresh sB a = load_acc (merged_acc D B a)).
  { unfold load_fresh, sB, state_new. simpl. apply merged_basic. }
  assert (HdA : forall k, db_storage (st_db sA) a k = ds_of (aget a (db_accounts D)) k) by reflexivity.
  assert (HdB : forall k, db_storage (st_db sB) a k = ds_of (merged_acc D B a) k).
  { intro k. unfold sB, state_new. simpl. apply merged_storage. }
  split; [|split].
  - destruct (fresh_first_read sA a 0 eq_refl) as [E1 _]. destruct (fresh_first_read sB a 0 eq_refl) as [E2 _].
    rewrite E1, E2, HfA, HfB. unfold merged_acc. destruct (aget a B) as [b|] eqn:Eb.
    + destruct (preload_agree (aget a (db_accounts D)) b [] (Hacc a b Eb) I) as [cA [cB [EA [EB [IA [IB _]]]]]].
      simpl in EA, EB. inversion EA; inversion EB; subst.
      eapply oinfo_same_trans; [exact IA|apply oinfo_same_sym; exact IB].
    + apply oinfo_same_refl.
  - intros k sA' vA sB' vB H1 H2.
    destruct (fresh_first_read sA a k eq_refl) as [_ [s1 E1]]. destruct (fresh_first_read sB a k eq_refl) as [_ [s2 E2]].
    rewrite E1 in H1. rewrite E2 in H2. inversion H1; inversion H2; subst.
    rewrite HfA, HfB. unfold merged_acc.
    replace (db_storage (st_db sA) a) with (ds_of (aget a (db_accounts D))) by reflexivity.
    assert (Hfun : db_storage (st_db sB) a = ds_of (merged_acc D B a) \/ True) by (right; exact I).
    destruct (aget a B) as [b|] eqn:Eb.
    + destruct (preload_agree (aget a (db_accounts D)) b [] (Hacc a b Eb) I) as [cA [cB [EA [EB [_ [_ Hst]]]]]].
      simpl in EA, EB. inversion EA; inversion EB; subst.
      rewrite Hst. rewrite !cacc_storage_view. unfold storage_view.
      destruct (ca_account (load_acc (apply_bundle_acc (aget a (db_accounts D)) b))); [|reflexivity].
      destruct (sget k (p_storage p)); [reflexivity|].
      destruct (is_storage_known _); [reflexivity|].
      specialize (HdB k). unfold merged_acc in HdB. rewrite Eb in HdB. symmetry. exact HdB.
    + rewrite !cacc_storage_view. unfold storage_view.
      destruct (ca_account (load_acc (aget a (db_accounts D)))); [|reflexivity].
      destruct (sget k (p_storage p)); [reflexivity|].
      destruct (is_storage_known _); [reflexivity|].
      specialize (HdB k). unfold merged_acc in HdB. rewrite Eb in HdB. symmetry. exact HdB.
  - intro h. apply preload_code. exact Hcode.
Qed.
