(* C05: the reflected tables (Gen/OpGate.v, Gen/Precompiles.v — the code's behaviour on its whole
   finite domain) equal the specification tables (Spec/GateSpec.v).  Finite, by computation. *)
From Coq Require Import ZArith List Bool Lia.
From RevmV Require Import Gen.OpGate Gen.Precompiles Spec.GateSpec.
Import ListNotations.
Local Open Scope Z_scope.

(* ---- reading the generated tables (default 99 = "no such cell", never a specification value) *)
Definition row_get (r : list Z) (b : Z) : Z := nth (Z.to_nat b) r 99.
Definition find_row (rows : list (Z * list Z)) (s : Z) : option (list Z) :=
  match find (fun p => fst p =? s) rows with Some p => Some (snd p) | None => None end.
Definition cell (rows : list (Z * list Z)) (s b : Z) : Z :=
  match find_row rows s with Some r => row_get r b | None => 99 end.

(* RETURNCONTRACT (0xee) is guarded by `require_init_eof!`, whose result in legacy code is
   ReturnContractInNotInitEOF (raw class 7) instead of EOFOpcodeDisabledInLegacy (3); both are
   the same halt (HaltReason::OpcodeNotFound, all gas) — identified here. *)
Definition norm_legacy (c : Z) : Z := if c =? 7 then 3 else c.

(* class of executing byte [b] in hardfork [s] as legacy / EOF code, as the code does it.
   EOF: a byte that EOF validation rejects can never be executed: class 4 + validation class. *)
Definition gen_gate (s b : Z) (k : kind) : Z :=
  match k with
  | Legacy => norm_legacy (cell OpGate.legacy_rows s b)
  | Eof => let v := row_get OpGate.eof_validate b in
           if v =? 0 then cell OpGate.eof_rows s b else 4 + v
  end.

Definition gen_precompiles (s : Z) : option (list Z) := find_row Precompiles.new_rows s.
Definition gen_precompiles_loaded (s : Z) : option (list Z) := find_row Precompiles.loaded_rows s.

(* ---- finite quantification *)
Definition bytes : list Z := map Z.of_nat (seq 0 256).
Lemma In_bytes : forall b, 0 <= b < 256 -> In b bytes.
Proof.
  intros b Hb. unfold bytes. rewrite <- (Z2Nat.id b) by lia.
  apply in_map. apply in_seq. lia.
Qed.

Definition zlist_eqb (a b : list Z) : bool :=
  (Nat.eqb (length a) (length b)) && forallb (fun p => fst p =? snd p) (combine a b).
Lemma zlist_eqb_eq : forall a b, zlist_eqb a b = true -> a = b.
Proof.
  induction a as [|x a IH]; destruct b as [|y b]; unfold zlist_eqb; cbn; intros H; try discriminate; auto.
  apply andb_true_iff in H. destruct H as [Hl H]. apply andb_true_iff in H. destruct H as [Hxy H].
  apply Z.eqb_eq in Hxy. subst y. f_equal. apply IH. unfold zlist_eqb. now rewrite Hl, H.
Qed.

Definition check_kind (k : kind) (ss : list Z) : bool :=
  forallb (fun s => forallb (fun b => gen_gate s b k =? gate s b k) bytes) ss.

Lemma check_kind_sound : forall k ss, check_kind k ss = true ->
  forall s b, In s ss -> 0 <= b < 256 -> gen_gate s b k = gate s b k.
Proof.
  intros k ss H s b Hs Hb. unfold check_kind in H.
  rewrite forallb_forall in H. specialize (H s Hs).
  rewrite forallb_forall in H. specialize (H b (In_bytes b Hb)).
  now apply Z.eqb_eq.
Qed.

Definition eof_specs : list Z := filter (fun s => enabled s OSAKA) GateSpec.specs.
Definition pre_eof_specs : list Z := filter (fun s => negb (enabled s OSAKA)) GateSpec.specs.

Lemma specs_same : OpGate.specs = GateSpec.specs.
Proof. vm_compute. reflexivity. Qed.

Lemma legacy_ok : check_kind Legacy GateSpec.specs = true.
Proof. vm_compute. reflexivity. Qed.
Lemma eof_ok : check_kind Eof eof_specs = true.
Proof. vm_compute. reflexivity. Qed.
(* not part of the property (no EOF code exists before OSAKA): the interpreter itself has no OSAKA
   gate on EOF instructions; an EOF container executed in an earlier hardfork sees the same
   instruction set minus the legacy instructions of later hardforks *)
Lemma eof_pre_osaka_ok : check_kind Eof pre_eof_specs = true.
Proof. vm_compute. reflexivity. Qed.

Lemma gate_legacy : forall s b, In s GateSpec.specs -> 0 <= b < 256 -> gen_gate s b Legacy = gate s b Legacy.
Proof. exact (check_kind_sound Legacy _ legacy_ok). Qed.
Lemma gate_eof : forall s b, In s GateSpec.specs -> enabled s OSAKA = true -> 0 <= b < 256 ->
  gen_gate s b Eof = gate s b Eof.
Proof.
  intros s b Hs He Hb. apply (check_kind_sound Eof _ eof_ok); auto.
  unfold eof_specs. apply filter_In. auto.
Qed.
Lemma gate_eof_pre : forall s b, In s GateSpec.specs -> enabled s OSAKA = false -> 0 <= b < 256 ->
  gen_gate s b Eof = gate s b Eof.
Proof.
  intros s b Hs He Hb. apply (check_kind_sound Eof _ eof_pre_osaka_ok); auto.
  unfold pre_eof_specs. apply filter_In. rewrite He. auto.
Qed.

(* the property's "if and only if" *)
Definition check_iff (k : kind) (ss : list Z) : bool :=
  forallb (fun s => forallb (fun b => Bool.eqb (undefined_like (gen_gate s b k)) (negb (introduced s b k))) bytes) ss.
Lemma iff_legacy_ok : check_iff Legacy GateSpec.specs = true.
Proof. vm_compute. reflexivity. Qed.
Lemma iff_eof_ok : check_iff Eof eof_specs = true.
Proof. vm_compute. reflexivity. Qed.
Lemma check_iff_sound : forall k ss, check_iff k ss = true ->
  forall s b, In s ss -> 0 <= b < 256 -> (undefined_like (gen_gate s b k) = true <-> introduced s b k = false).
Proof.
  intros k ss H s b Hs Hb. unfold check_iff in H.
  rewrite forallb_forall in H. specialize (H s Hs).
  rewrite forallb_forall in H. specialize (H b (In_bytes b Hb)).
  apply Bool.eqb_prop in H. rewrite H. destruct (introduced s b k); cbn; split; congruence.
Qed.

(* ---- precompile sets *)
Definition opt_list_eqb (a : option (list Z)) (b : list Z) : bool :=
  match a with Some l => zlist_eqb l b | None => false end.
Definition check_pc (f : Z -> option (list Z)) : bool :=
  forallb (fun s => opt_list_eqb (f s) (precompiles s)) GateSpec.specs.
Lemma pc_new_ok : check_pc gen_precompiles = true.
Proof. vm_compute. reflexivity. Qed.
Lemma pc_loaded_ok : check_pc gen_precompiles_loaded = true.
Proof. vm_compute. reflexivity. Qed.
Lemma check_pc_sound : forall f, check_pc f = true ->
  forall s, In s GateSpec.specs -> f s = Some (precompiles s).
Proof.
  intros f H s Hs. unfold check_pc in H. rewrite forallb_forall in H. specialize (H s Hs).
  unfold opt_list_eqb in H. destruct (f s) as [l|]; try discriminate.
  f_equal. now apply zlist_eqb_eq.
Qed.

(* every row of the generated tables has 256 cells / the tables have one row per hardfork *)
Definition rows_wf (rows : list (Z * list Z)) : bool :=
  zlist_eqb (map fst rows) GateSpec.specs && forallb (fun p => Nat.eqb (length (snd p)) 256) rows.
Lemma tables_wf : rows_wf OpGate.legacy_rows = true /\ rows_wf OpGate.eof_rows = true /\
                  length OpGate.eof_validate = 256%nat.
Proof. vm_compute. auto. Qed.
