(* C34: refinement of the journaled state's cold/warm answers to the accessed-set
   specification (Spec/AccessSpec.v), for all histories. Part 1: toolkit. *)
From Coq Require Import FunctionalExtensionality.
From RevmV Require Import Base.Word Model.Host Spec.AccessSpec Proofs.HostView Proofs.HostUndo
  Proofs.HostGood Proofs.HostOps Proofs.HostOps2 Proofs.HostOps3 Proofs.HostOps4 Proofs.HostRevert
  Proofs.HostMain Proofs.AccessProofs.
Local Open Scope Z_scope.

(* ------------------------------------------------------------------ invariants re-packaged *)
Lemma Inv_init d s : WF d s -> Inv d s (fst (checkpoint s)) [].
Proof.
  intros W. cbn [checkpoint fst]. exists [[]].
  split; [congruence|]. split; [reflexivity|].
  split; [exists (set_journal (set_depth s (depth s + 1)) ([] :: journal s)); split; reflexivity|].
  split; [exists []; cbn; rewrite app_nil_r; reflexivity|]. split; [repeat split|].
  split; [|constructor]. destruct W as (A & B & N). split; [exact A|]. split; [exact B|cbn; congruence].
Qed.

Definition cp_of (s : jstate) : checkpoint_t := mkCp (length (logs s)) (length (journal s)).

Lemma Inv_outer_revert d s0 s cps :
  Inv d s0 s cps ->
  exists s3, checkpoint_revert s (cp_of s0) = Some s3 /\ cview_of d s3 = cview_of d s0 /\
             spurious s3 = spurious s0 /\ warm_pre s3 = warm_pre s0.
Proof.
  intros (top & N & J & (u & U & V) & (ex & L) & (c1 & c2 & c3) & W2 & F).
  unfold checkpoint_revert, cp_of. cbn [journal_i log_i].
  assert (Hn : (length (journal s) - length (journal s0))%nat = length top) by (rewrite J, app_length; lia).
  rewrite Hn.
  assert (Hf : firstn (length top) (journal s) = top) by (rewrite J, firstn_app_le by lia; apply firstn_all).
  rewrite Hf, c1, U. eexists. split; [reflexivity|].
  destruct (undo_list_frame _ _ _ _ U) as (f1 & f2 & f3 & f4 & f5 & f6 & _ & _).
  split; [exact V|]. cbn [spurious warm_pre set_journal set_logs set_depth]. split; congruence.
Qed.

(* ------------------------------------------------------------------ warm status of a state *)
Definition R (d : db) (s : jstate) (w : asets) : Prop :=
  (forall a, acc_warm d s a = as_acc w a) /\ (forall a k, slot_warm d s a k = as_slot w a k).

Definition same_warm (d : db) (s s' : jstate) : Prop :=
  (forall a, acc_warm d s' a = acc_warm d s a) /\ (forall a k, slot_warm d s' a k = slot_warm d s a k).

Lemma sw_refl d s : same_warm d s s. Proof. split; reflexivity. Qed.
Lemma sw_trans d a b c : same_warm d a b -> same_warm d b c -> same_warm d a c.
Proof. intros [A1 A2] [B1 B2]. split; intros; [rewrite B1, A1|rewrite B2, A2]; reflexivity. Qed.
Lemma R_sw d s s' w : R d s w -> same_warm d s s' -> R d s' w.
Proof. intros [A B] [C D]. split; intros; [rewrite C, A|rewrite D, B]; reflexivity. Qed.

Lemma warm_of_view d s s' : cview_of d s' = cview_of d s -> same_warm d s s'.
Proof.
  intros V. assert (forall a, view_acc d s' a = view_acc d s a) as H.
  { intros a. change (cv_acc (cview_of d s') a = cv_acc (cview_of d s) a). rewrite V. reflexivity. }
  split; intros; unfold acc_warm, slot_warm; rewrite H; reflexivity.
Qed.

Lemma sw_push d s e : same_warm d s (push s e).
Proof. apply warm_of_view. apply view_push. Qed.

(* rewriting one account without touching cold flags keeps every warm status *)
Lemma sw_put d s a acc acc' :
  st s a = Some acc -> a_cold acc' = a_cold acc ->
  (forall k, snd (slot_view d a acc' k) = snd (slot_view d a acc k)) ->
  same_warm d s (put s a acc').
Proof.
  intros E C K. split; intros x; [|intros k]; unfold acc_warm, slot_warm; rewrite view_acc_put;
    destruct (x =? a) eqn:X; try reflexivity; apply Z.eqb_eq in X; subst;
    rewrite (view_acc_present d s a acc E); cbn; [rewrite C; reflexivity|apply K].
Qed.

Lemma sw_put_same_storage d s a acc acc' :
  st s a = Some acc -> a_cold acc' = a_cold acc -> a_storage acc' = a_storage acc ->
  same_warm d s (put s a acc').
Proof.
  intros E C S. apply (sw_put d s a acc acc' E C). intros k. unfold slot_view. rewrite S. reflexivity.
Qed.

Lemma sw_touch_account d s a acc : st s a = Some acc -> same_warm d s (touch_account s a acc).
Proof.
  intros E. unfold touch_account. destruct (a_touched acc); [apply sw_refl|].
  eapply sw_trans; [apply (sw_push d s (AccountTouched a))|].
  apply (sw_put_same_storage d _ a acc); [rewrite st_push; exact E|reflexivity|reflexivity].
Qed.
