(* C18: on a clean split, extend joins the two bundles into one that describes the final state.
   The second bundle is built by the same code from the history state at the split (not a fresh
   one): addresses whose status is a destroyed one at the split are never touched by the second
   part ([F], from CleanSplit), all others are covered by the per-cell analysis of
   Proofs/BundleProofsAcct.v.  The first loop of extend drains the storage of an address only when
   the second bundle holds a wiping revert for it, and then the second bundle's entry ends in a
   destroyed status, so extend_state replaces the storage anyway. *)
From stdpp Require Import gmap.
From Coq Require Import ZArith Lia.
From RevmV Require Import Model.Bundle Spec.BundleSpec Spec.BundleHist Spec.BundleSplit Proofs.BundleProofs
  Proofs.BundleProofsBase Proofs.BundleProofsAcct Proofs.BundleProofsLift Proofs.BundleProofsRev.
Local Open Scope Z_scope.

(* ---- a revert that wipes belongs to a transition that ends destroyed; a revert means the
   address is in the bundle afterwards *)
Lemma fe_some x r0 : filter_empty (Some x) = Some r0 -> r0 = x.
Proof. unfold filter_empty. destruct (ar_is_empty x); [discriminate|]. intros [= <-]. reflexivity. Qed.

Lemma ucr_wipe b t b' r0 :
  update_and_create_revert b t = Some (b', Some r0) -> r_wipe r0 = true ->
  was_destroyed (t_status t) = true.
Proof.
  destruct b as [bi boi B bs], t as [ti ts tpi tps T w]; cbn [t_status]. intros Hu Hw.
  destruct bs, ts; try reflexivity; ucr_red Hu; try discriminate Hu;
    try (destruct w; ucr_red Hu);
    apply (f_equal (fun o : option (bacc * option arevert) => match o with Some x => snd x | None => None end)) in Hu;
    cbv beta iota delta [snd] in Hu; try discriminate Hu;
    apply fe_some in Hu; subst r0; discriminate Hw.
Qed.

Lemma acct_apply_wipe ob t ob' r0 :
  acct_apply ob t = Some (ob', Some r0) ->
  is_Some ob' /\ (r_wipe r0 = true -> was_destroyed (t_status t) = true).
Proof.
  unfold acct_apply. destruct ob as [b|].
  - destruct (update_and_create_revert b t) as [[b1 r1]|] eqn:Hu; [|discriminate].
    intros [= <- ->]. split; [eexists; reflexivity|]. apply (ucr_wipe _ _ _ _ Hu).
  - destruct (update_and_create_revert (original_bundle_account t) t) as [[b1 [r1|]]|] eqn:Hu;
      try discriminate.
    intros [= <- <-]. split; [eexists; reflexivity|]. apply (ucr_wipe _ _ _ _ Hu).
Qed.

Lemma acct_apply_keeps b t ob' r :
  acct_apply (Some b) t = Some (ob', r) -> is_Some ob'.
Proof.
  unfold acct_apply. destruct (update_and_create_revert b t) as [[b1 r1]|]; [|discriminate].
  intros [= <- _]. eexists; reflexivity.
Qed.
(* ---- bundles built from a history state that is not fresh: addresses in [F] are never touched *)
Definition acct_ok (F : Z -> Prop) (p0 p : plain) (a : Z) (s : status) (ob : option bacc) : Prop :=
  (F a /\ ob = None /\ acc_get p a = acc_get p0 a /\ forall k, stor_get p a k = stor_get p0 a k)
  \/ (~ F a /\ acct_inv2 p0 p a s ob).
Definition binvF (F : Z -> Prop) (b : bundle) (p0 : plain) (h : hstate) : Prop :=
  forall a, acct_ok F p0 (h_plain h) a (status_at (h_st h) (h_plain h) a) (bs_state b !! a).
(* every recorded revert belongs to an address the bundle knows, and a wiping revert to an address
   whose status is (still) a destroyed one *)
Definition rinv (b : bundle) (h : hstate) : Prop :=
  forall g a r, In g (bs_reverts b) -> g !! a = Some r ->
    is_Some (bs_state b !! a)
    /\ (r_wipe r = true -> was_destroyed (status_at (h_st h) (h_plain h) a) = true).

Lemma reach_destroyed s1 s2 : reach s1 s2 = true -> was_destroyed s1 = true -> was_destroyed s2 = true.
Proof. destruct s1, s2; simpl; congruence. Qed.

Lemma pointwiseF F b p0 h1 h2 (m : gmap Z tacc) a :
  hinv h1 ->
  acct_ok F p0 (h_plain h1) a (status_at (h_st h1) (h_plain h1) a) (bs_state b !! a) ->
  ginv h1 h2 m -> (F a -> m !! a = None) ->
  let x := diag_None apply_merge (bs_state b !! a) (m !! a) in
  let s2 := status_at (h_st h2) (h_plain h2) a in
  acct_ok F p0 (h_plain h2) a s2 (x ≫= state_of)
  /\ (x = None \/ exists y, x = Some (Some y))
  /\ (is_Some (bs_state b !! a) -> is_Some (x ≫= state_of))
  /\ (was_destroyed (status_at (h_st h1) (h_plain h1) a) = true -> was_destroyed s2 = true)
  /\ (forall r0, x ≫= rev_proj = Some r0 ->
        is_Some (x ≫= state_of) /\ (r_wipe r0 = true -> was_destroyed s2 = true)).
Proof.
  intros Hh Hb Hg HF. specialize (Hg a). unfold ginv, tstate in *.
  destruct (m !! a) as [t|] eqn:Em.
  - destruct Hb as [(Hfa & _)|(Hnf & Hb)]; [specialize (HF Hfa); discriminate|].
    destruct Hg as (Hm & Hp & Hs).
    rewrite <- Hp in Hb.
    assert (Hgone : is_gone (t_pstatus t) = true <-> acc_get (h_plain h1) a = None)
      by (rewrite Hp; apply status_at_gone, Hh).
    assert (Hz : acc_get (h_plain h1) a = None -> forall k, stor_get (h_plain h1) a k = 0)
      by (intros H k; apply (proj1 Hh), H).
    destruct (acct_step _ _ _ _ _ _ Hb Hm Hgone Hz) as (ob' & r & Ha & Hi).
    assert (E : diag_None apply_merge (bs_state b !! a) (Some t) = Some (Some (ob', r)))
      by (destruct (bs_state b !! a); cbn [diag_None apply_merge]; rewrite Ha; reflexivity).
    assert (Es : status_at (h_st h2) (h_plain h2) a = t_status t)
      by (unfold status_at; rewrite Hs; reflexivity).
    cbv zeta. rewrite E, Es. cbn [mbind option_bind state_of rev_proj].
    assert (E1 : match ob' with Some ba => Some ba | None => None end = ob') by (destruct ob'; reflexivity).
    rewrite E1.
    split; [right; split; [exact Hnf | exact Hi]|]. split; [right; eexists; reflexivity|].
    split; [|split].
    + intros [b0 Hb0]. rewrite Hb0 in Ha. apply (acct_apply_keeps _ _ _ _ Ha).
    + rewrite <- Hp. apply reach_destroyed, (mt_reach _ _ _ _ Hm).
    + intros r0 Hr0. destruct r as [r1|]; [|discriminate]. injection Hr0 as ->.
      apply (acct_apply_wipe _ _ _ _ Ha).
  - destruct Hg as (Ha & Hk & Hs).
    assert (Hst : status_at (h_st h2) (h_plain h2) a = status_at (h_st h1) (h_plain h1) a)
      by (unfold status_at; rewrite Hs, Ha; reflexivity).
    assert (E : diag_None apply_merge (bs_state b !! a) None ≫= state_of = bs_state b !! a)
      by (destruct (bs_state b !! a); reflexivity).
    assert (E2 : diag_None apply_merge (bs_state b !! a) None ≫= rev_proj = None)
      by (destruct (bs_state b !! a); reflexivity).
    cbv zeta. rewrite E, E2, Hst.
    split; [|split; [|split; [|split]]].
    + destruct Hb as [(Hfa & Hn & Hacc & Hsto)|(Hnf & Hb)].
      * left. split; [exact Hfa|]. split; [exact Hn|]. split; [congruence|].
        intros k. rewrite Hk. apply Hsto.
      * right. split; [exact Hnf|]. apply (acct_inv2_ext _ (h_plain h1)); assumption.
    + destruct (bs_state b !! a); [right; eexists; reflexivity | left; reflexivity].
    + auto.
    + auto.
    + discriminate.
Qed.
Lemma binvF_group F b p0 h1 h2 (m : gmap Z tacc) :
  hinv h1 -> binvF F b p0 h1 -> rinv b h1 -> ginv h1 h2 m -> (forall a, F a -> m !! a = None) ->
  exists b', apply_transitions_and_create_reverts b m true = Some b'
             /\ binvF F b' p0 h2 /\ rinv b' h2.
Proof.
  intros Hh Hb Hr Hg HF. unfold apply_transitions_and_create_reverts, tstate in *.
  assert (Hpw := fun a => pointwiseF F b p0 h1 h2 m a Hh (Hb a) Hg (HF a)). cbv zeta in Hpw.
  rewrite bool_decide_eq_true_2.
  - eexists. split; [reflexivity|]. split.
    + intros a. cbn [bs_state]. rewrite lookup_omap, lookup_merge.
      exact (proj1 (Hpw a)).
    + intros g a r Hin Hga. cbn [bs_state bs_reverts] in *. rewrite lookup_omap, lookup_merge.
      destruct (Hpw a) as (_ & _ & Hkeep & Hwd & Hnew).
      apply in_app_or in Hin as [Hin|[<-|[]]].
      * destruct (Hr g a r Hin Hga) as (Hs & Hw). split; [apply Hkeep, Hs|].
        intros Hwr. apply Hwd, Hw, Hwr.
      * rewrite lookup_omap, lookup_merge in Hga. apply (Hnew r Hga).
  - apply map_Forall_lookup. intros a x. rewrite lookup_merge.
    destruct (Hpw a) as (_ & [->|(y & ->)] & _); [discriminate|].
    intros [= <-]. eexists. reflexivity.
Qed.

Definition untouched (a : Z) (l : list (Z * tacc)) : Prop := forall t, ~ In (a, t) l.

Lemma add_transitions_untouched a l : forall (m : gmap Z tacc),
  untouched a l -> add_transitions m l !! a = m !! a.
Proof.
  induction l as [|[a' t] l IH]; intros m Hu; [reflexivity|].
  unfold add_transitions in *. cbn [fold_left]. rewrite IH.
  - unfold add_transition, tstate; cbn [fst snd].
    assert (Hne : a' <> a) by (intros ->; apply (Hu t); left; reflexivity).
    destruct (m !! a'); apply lookup_insert_ne; exact Hne.
  - intros t0 Hin. apply (Hu t0). right. exact Hin.
Qed.
Lemma group_tstate_untouched a g : untouched a (concat g) -> group_tstate g !! a = None.
Proof.
  unfold group_tstate. intros Hu.
  assert (H : forall (m : gmap Z tacc), fold_left add_transitions g m !! a = m !! a).
  { revert Hu. induction g as [|tx g IH]; intros Hu m; [reflexivity|].
    cbn [fold_left]. rewrite IH.
    - apply add_transitions_untouched. intros t Hin. apply (Hu t). cbn [concat].
      apply in_or_app. left. exact Hin.
    - intros t Hin. apply (Hu t). cbn [concat]. apply in_or_app. right. exact Hin. }
  rewrite H. apply lookup_empty.
Qed.

Lemma binvF_history F p0 groups : forall b h,
  hinv h -> binvF F b p0 h -> rinv b h -> (forall a, F a -> untouched a (flat groups)) ->
  hist_ok h (flat groups) = true ->
  exists b', bundle_from true b groups = Some b'
             /\ binvF F b' p0 (hist_run h (flat groups)) /\ rinv b' (hist_run h (flat groups)).
Proof.
  induction groups as [|g gs IH]; intros b h Hh Hb Hr HF Hok.
  - exists b. split; [reflexivity|]. split; assumption.
  - rewrite flat_cons in *. rewrite hist_ok_app in Hok. apply andb_true_iff in Hok as [Hg Hrest].
    destruct (ginv_group h g Hh Hg) as (Hh' & Hgi).
    destruct (binvF_group F b p0 h _ _ Hh Hb Hr Hgi) as (b1 & Hb1 & Hbi & Hri).
    { intros a Ha. apply group_tstate_untouched. intros t Hin. apply (HF a Ha t).
      apply in_or_app. left. exact Hin. }
    destruct (IH b1 _ Hh' Hbi Hri) as (b' & Hb' & Hfin); [|exact Hrest|].
    { intros a Ha t Hin. apply (HF a Ha t). apply in_or_app. right. exact Hin. }
    exists b'. split; [|rewrite hist_run_app; exact Hfin].
    rewrite bundle_from_cons, Hb1. exact Hb'.
Qed.
(* ---- clean splits: an address whose status is a destroyed one at the split is never touched *)
Lemma status_at_step_ne h a a' t :
  a' <> a ->
  status_at (h_st (hist_step h (a', t))) (h_plain (hist_step h (a', t))) a
  = status_at (h_st h) (h_plain h) a.
Proof.
  intros Hne. unfold status_at, hist_step; cbn [h_st h_plain fst snd].
  rewrite lookup_insert_ne by exact Hne. rewrite acc_get_step_ne by exact Hne. reflexivity.
Qed.

Lemma clean_untouched l : forall seen h a,
  starts_destroyed seen l = false -> hist_ok h l = true -> ~ In a seen ->
  was_destroyed (status_at (h_st h) (h_plain h) a) = true -> untouched a l.
Proof.
  induction l as [|[a' t] l IH]; intros seen h a Hs Hok Hns Hd t0 Hin; [destruct Hin|].
  cbn [starts_destroyed] in Hs. cbn [hist_ok fst snd] in Hok.
  apply andb_true_iff in Hok as [Ht Hl].
  destruct (existsb (Z.eqb a') seen) eqn:Ee.
  - apply existsb_exists in Ee as (x & Hx & Hxe). apply Z.eqb_eq in Hxe. subst x.
    assert (Hne : a' <> a) by (intros ->; contradiction).
    destruct Hin as [Hin|Hin]; [congruence|].
    refine (IH seen (hist_step h (a', t)) a Hs Hl Hns _ t0 Hin).
    rewrite status_at_step_ne by exact Hne. exact Hd.
  - apply orb_false_iff in Hs as [Hp Hs].
    destruct (decide (a' = a)) as [->|Hne].
    + apply trans_ok_elim in Ht as (Hps & _). rewrite Hps in Hp. congruence.
    + destruct Hin as [Hin|Hin]; [congruence|].
      refine (IH (a' :: seen) (hist_step h (a', t)) a Hs Hl _ _ t0 Hin).
      * intros [H|H]; [congruence | contradiction].
      * rewrite status_at_step_ne by exact Hne. exact Hd.
Qed.

(* ---- the first loop of extend only ever empties the storage of an address for which the
   other bundle holds a wiping revert *)
Definition drained (ta : bacc) : bacc := mkBA (b_info ta) (b_oinfo ta) ∅ (b_status ta).

Lemma extend_fold_state revs : forall (st : gmap Z bacc) acc a,
  let st' := (fold_left extend_group revs (st, acc)).1 in
  st' !! a = st !! a
  \/ exists ta g r, st !! a = Some ta /\ st' !! a = Some (drained ta)
                    /\ In g revs /\ g !! a = Some r /\ r_wipe r = true.
Proof.
  induction revs as [|g revs IH]; intros st acc a; cbn [fold_left]; [left; reflexivity|].
  unfold extend_group at 2; cbn [fst snd].
  specialize (IH (merge extend_drain_acct st g) (acc ++ [merge extend_revert_acct g st]) a).
  cbv zeta in IH.
  assert (E : merge extend_drain_acct st g !! a =
              match st !! a, g !! a with
              | Some ta, Some r => if r_wipe r then Some (drained ta) else Some ta
              | x, _ => x
              end).
  { rewrite lookup_merge. destruct (st !! a), (g !! a); reflexivity. }
  rewrite E in IH.
  destruct IH as [IH|(ta & g' & r & H1 & H2 & H3 & H4 & H5)].
  - rewrite IH. destruct (st !! a) as [ta|] eqn:Es; [|left; reflexivity].
    destruct (g !! a) as [r|] eqn:Eg; [|left; reflexivity].
    destruct (r_wipe r) eqn:Ew; [|left; reflexivity].
    right. exists ta, g, r. repeat split; auto. left. reflexivity.
  - right. destruct (st !! a) as [ta0|] eqn:Es; [|discriminate].
    destruct (g !! a) as [r0|] eqn:Eg.
    + destruct (r_wipe r0) eqn:Ew.
      * injection H1 as <-. exists ta0, g, r0. split; [reflexivity|]. split; [exact H2|].
        split; [left; reflexivity|]. auto.
      * injection H1 as <-. exists ta0, g', r. split; [reflexivity|]. split; [exact H2|].
        split; [right; exact H3|]. auto.
    + injection H1 as <-. exists ta0, g', r. split; [reflexivity|]. split; [exact H2|].
      split; [right; exact H3|]. auto.
Qed.

Lemma status_transition_destroyed s o :
  was_destroyed (status_transition s o) = was_destroyed s || was_destroyed o.
Proof. destruct s, o; reflexivity. Qed.
(* ---- one address of extend_state on a clean split *)
Lemma extend_acct p0 pm pe a s1 s2 (F : Z -> Prop) ob1 ost ob2 :
  acct_inv2 p0 pm a s1 ob1 ->
  acct_ok F pm pe a s2 ob2 ->
  (~ F a -> was_destroyed s1 = false) ->
  (ost = ob1 \/ exists ta, ob1 = Some ta /\ ost = Some (drained ta)
                           /\ is_Some ob2 /\ was_destroyed s2 = true) ->
  acct_inv p0 pe a (extend_state_acct ost ob2).
Proof.
  intros H1 H2 HF Hst.
  destruct ob2 as [o|].
  - (* the second bundle knows the address: it was touched, hence not destroyed at the split *)
    destruct H2 as [(_ & Hn & _)|(Hnf & H2)]; [discriminate|].
    specialize (HF Hnf).
    destruct H2 as (Hoi & Hoo & Hos & Hoc & Host & _).
    destruct ob1 as [ta|].
    + destruct H1 as (Hti & Hto & Hts & Htc & Htst & _). subst s1 s2.
      assert (Hwd : forall t', b_status t' = b_status ta ->
                was_destroyed (status_transition (b_status t') (b_status o)) = was_destroyed (b_status o))
        by (intros t' ->; rewrite status_transition_destroyed, HF; reflexivity).
      assert (Hgoal : forall t', b_oinfo t' = b_oinfo ta -> b_status t' = b_status ta ->
                (was_destroyed (b_status o) = false -> b_storage t' = b_storage ta) ->
                acct_inv p0 pe a (extend_state_acct (Some t') (Some o))).
      { intros t' Eo Es Est. cbn [extend_state_acct acct_inv b_info b_oinfo b_storage b_status].
        split; [exact Hoi|]. split; [|split].
        - intros He. apply oinfo_eqb_strip in He. rewrite Eo in He. congruence.
        - intros k. rewrite Hos. unfold slot_view; cbn [b_storage b_status].
          rewrite (Hwd t' Es).
          destruct (was_destroyed (b_status o)) eqn:Ed; [reflexivity|].
          rewrite lookup_extend_storage, (Est eq_refl).
          destruct (b_storage o !! k) as [u|]; cbn [extend_slot].
          + destruct (b_storage ta !! k); reflexivity.
          + rewrite Hts. unfold slot_view. rewrite HF. reflexivity.
        - rewrite (Hwd t' Es). intros Ed k sl. rewrite Ed, lookup_extend_storage, (Est Ed).
          specialize (Hoc Ed). specialize (Htc HF).
          destruct (b_storage o !! k) as [u|] eqn:Eu; cbn [extend_slot].
          + destruct (b_storage ta !! k) as [m|] eqn:Em; intros [= <-]; cbn [s_orig s_pres]; intros Heq.
            * rewrite <- Heq. symmetry. apply (Htc _ _ Em).
            * rewrite <- Heq, (Hoc _ _ Eu), Hts. unfold slot_view. rewrite Em, HF. reflexivity.
          + intros Hm Heq. rewrite <- Heq. symmetry. apply (Htc _ _ Hm). }
      destruct Hst as [->|(ta' & [= <-] & -> & _ & Hd)].
      * apply Hgoal; reflexivity.
      * apply Hgoal; try reflexivity. intros Hnd. congruence.
    + (* only the second bundle knows it *)
      destruct H1 as (Ha & Hk & _).
      assert (E : ost = None) by (destruct Hst as [->|(ta & Hx & _)]; [reflexivity | discriminate]).
      subst ost. cbn [extend_state_acct acct_inv].
      split; [exact Hoi|]. split; [|split].
      * intros He. apply oinfo_eqb_strip in He. congruence.
      * intros k. rewrite Hos. unfold slot_view. rewrite Hk. reflexivity.
      * intros Ed k sl Hsl Heq. rewrite <- Heq, (Hoc Ed _ _ Hsl). symmetry. apply Hk.
  - (* the second bundle does not know the address: nothing happened to it *)
    assert (Hsame : acc_get pe a = acc_get pm a /\ forall k, stor_get pe a k = stor_get pm a k).
    { destruct H2 as [(_ & _ & Ha & Hk)|(_ & Ha & Hk & _)]; auto. }
    destruct Hsame as (Ha & Hk).
    assert (E : ost = ob1).
    { destruct Hst as [->|(ta & _ & _ & [x Hx] & _)]; [reflexivity | discriminate]. }
    subst ost. cbn [extend_state_acct].
    apply (acct_inv2_inv _ _ _ s1). apply (acct_inv2_ext _ pm); assumption.
Qed.
Lemma flat_app g1 g2 : flat (g1 ++ g2) = flat g1 ++ flat g2.
Proof. unfold flat. rewrite concat_app, concat_app. reflexivity. Qed.

(* C18: on a clean split the joined bundle describes the final state *)
Theorem extend_changeset p0 g1 g2 b1 b2 known :
  HistOK p0 (g1 ++ g2) -> CleanSplit g2 ->
  bundle_of true g1 = Some b1 -> bundle_of true g2 = Some b2 ->
  plain_equiv (apply_changeset (to_plain_state (extend b1 b2) known) p0) (plain_after p0 (g1 ++ g2)).
Proof.
  intros (Hw & Hn & Hok) Hclean Hb1 Hb2. apply plain_nocode_nocode in Hn.
  rewrite flat_app, hist_ok_app in Hok. apply andb_true_iff in Hok as [Hok1 Hok2].
  destruct (binv_history p0 true g1 bundle_empty (h0 p0) (hinv_h0 _ Hw Hn) (binv_empty p0) Hok1)
    as (b1' & Hb1' & Hbi1 & Hh1).
  unfold bundle_of in Hb1, Hb2. rewrite Hb1 in Hb1'. injection Hb1' as <-.
  set (hm := hist_run (h0 p0) (flat g1)) in *.
  set (F := fun a => was_destroyed (status_at (h_st hm) (h_plain hm) a) = true).
  assert (HbF : binvF F bundle_empty (h_plain hm) hm).
  { intros a. unfold bundle_empty; cbn [bs_state]. rewrite lookup_empty.
    destruct (was_destroyed (status_at (h_st hm) (h_plain hm) a)) eqn:Ed.
    - left. split; [exact Ed|]. auto.
    - right. split; [unfold F; congruence|]. cbn [acct_inv2].
      split; [reflexivity|]. split; [reflexivity|]. intros E. rewrite E in Ed. discriminate. }
  assert (Hr0 : rinv bundle_empty hm) by (intros g a r []).
  assert (Hunt : forall a, F a -> untouched a (flat g2)).
  { intros a Ha. apply (clean_untouched (flat g2) [] hm a Hclean Hok2); [intros [] | exact Ha]. }
  destruct (binvF_history F (h_plain hm) g2 bundle_empty hm Hh1 HbF Hr0 Hunt Hok2)
    as (b2' & Hb2' & Hbi2 & Hri2).
  rewrite Hb2 in Hb2'. injection Hb2' as <-.
  apply changeset_of_inv. intros a.
  unfold plain_after. rewrite flat_app, hist_run_app. fold hm.
  set (he := hist_run hm (flat g2)) in *.
  pose proof (extend_fold_state (bs_reverts b2) (bs_state b1) [] a) as Hfold. cbv zeta in Hfold.
  unfold extend. destruct (fold_left extend_group (bs_reverts b2) (bs_state b1, [])) as [st revs].
  cbn [fst bs_state] in *. unfold extend_state. rewrite lookup_merge, diag_None_l by reflexivity.
  apply (extend_acct p0 (h_plain hm) (h_plain he) a
           (status_at (h_st hm) (h_plain hm) a) (status_at (h_st he) (h_plain he) a) F (bs_state b1 !! a)).
  - apply Hbi1.
  - apply Hbi2.
  - intros Hnf. unfold F in Hnf.
    destruct (was_destroyed (status_at (h_st hm) (h_plain hm) a)); [exfalso; apply Hnf; reflexivity | reflexivity].
  - destruct Hfold as [->|(ta & g & r & H1 & H2 & Hin & Hga & Hwr)]; [left; reflexivity|].
    right. exists ta. split; [exact H1|]. split; [exact H2|].
    destruct (Hri2 g a r Hin Hga) as (Hs & Hwd). split; [exact Hs | apply Hwd, Hwr].
Qed.
