(* Proofs about the opcode layer Model/MemoryOps.v: every memory instruction keeps the
   SharedMemory invariant, never touches a byte below the frame's checkpoint, never shrinks the
   frame's memory, keeps it word aligned and never gives gas back; the memory expansion of the
   resize_memory! macro is charged exactly by the difference of the expansion costs; MCOPY is a
   memmove; the *COPY instructions zero-pad beyond the end of their source. *)
From RevmV Require Import Base.Word Model.Memory Model.MemoryOps Spec.MemorySpec Proofs.MemoryProofs.
From Coq Require Import ZifyBool.
Local Open Scope Z_scope.

(* ------------------------------------------------------------------ same size, same frame *)
Definition keeps (m m' : smem) : Prop := inv m' /\ frame_eq m m' /\ mlen m' = mlen m.

Lemma keeps_refl m : inv m -> keeps m m.
Proof. intros I. split; [assumption|split; [apply frame_eq_refl|reflexivity]]. Qed.
Lemma keeps_trans a b c : keeps a b -> keeps b c -> keeps a c.
Proof. intros (A1 & A2 & A3) (B1 & B2 & B3). split; [assumption|]. split; [eapply frame_eq_trans; eassumption|congruence]. Qed.
Lemma write_keeps m off v : inv m -> keeps m (fst (write m off v)).
Proof. intros I. destruct (write_frame m off v I) as (A & B & C). split; [assumption|split; assumption]. Qed.
Lemma set_keeps m off v : inv m -> keeps m (fst (set m off v)).
Proof. intros I. unfold set. destruct v; [apply keeps_refl; assumption|apply write_keeps; assumption]. Qed.
Lemma set_data_keeps m moff doff len data : inv m -> keeps m (fst (set_data m moff doff len data)).
Proof.
  intros I. unfold set_data. destruct (doff >=? zlen data); [apply write_keeps; assumption|].
  pose proof (write_keeps m moff (zfirstn (Z.min (doff + len) (zlen data) - doff) (zskipn doff data)) I) as K.
  destruct (write m moff _) as [m1 p1]. cbn [fst] in *. destruct p1; [assumption|].
  eapply keeps_trans; [eassumption|]. apply write_keeps. apply K.
Qed.
Lemma copy_keeps m dst src len : inv m -> keeps m (fst (copy m dst src len)).
Proof.
  intros I. unfold copy. destruct (slice m src len); [|apply keeps_refl; assumption].
  destruct ((0 <=? dst) && (dst + len <=? mlen m)); [apply write_keeps; assumption|apply keeps_refl; assumption].
Qed.

(* ------------------------------------------------------------------ resize_memory! *)
Lemma sat64_bounds x : 0 <= sat64 x < pow64.
Proof. unfold sat64, pow64. destruct (x <? 0) eqn:A; [lia|]. destruct (x <? 18446744073709551616) eqn:B; lia. Qed.

Lemma words_cover (len ns : Z) :
  0 <= len -> len mod 32 = 0 -> len < ns -> ns < pow64 ->
  let nw := num_words ns in
  0 <= nw /\ len <= nw * 32 /\ num_words (nw * 32) = nw.
Proof.
  intros H0 HA HL HN nw. subst nw. unfold num_words.
  destruct (Z_lt_le_dec (ns + 31) pow64) as [S|S].
  - rewrite (sat64_small (ns + 31)) by lia.
    assert (ns <= (ns + 31) / 32 * 32) by (pose proof (Z.div_mod (ns + 31) 32 ltac:(lia)); pose proof (Z.mod_pos_bound (ns + 31) 32 ltac:(lia)); lia).
    assert (0 <= (ns + 31) / 32) by (apply Z.div_pos; lia).
    assert ((ns + 31) / 32 * 32 <= ns + 31) by (pose proof (Z.div_mod (ns + 31) 32 ltac:(lia)); pose proof (Z.mod_pos_bound (ns + 31) 32 ltac:(lia)); lia).
    repeat split; try lia.
    rewrite sat64_small by (unfold pow64 in *; lia). rewrite Z.div_add_l by lia. change (31 / 32) with 0. lia.
  - rewrite (sat64_big (ns + 31)) by lia. unfold pow64 in *.
    change ((18446744073709551616 - 1) / 32) with 576460752303423487.
    pose proof (Z.div_mod len 32 ltac:(lia)). rewrite HA in *.
    repeat split; try lia.
Qed.

(* what resize_memory! does to (memory, gas): the frame's memory only grows, stays aligned, the
   gas only decreases, and on success the difference is exactly the difference of the expansion
   costs memory_gas(words after) - memory_gas(words before) *)
Lemma resize_macro_ok m g off len m' g' r :
  inv m -> 0 <= mlen m -> mlen m mod 32 = 0 -> 0 <= g ->
  resize_macro m g off len = Some (m', g', r) ->
  inv m' /\ frame_eq m m' /\ mlen m <= mlen m' /\ mlen m' mod 32 = 0 /\ 0 <= g' <= g /\
  (r = 0 \/ r = MemoryOOG) /\
  (r = MemoryOOG -> m' = m /\ g' = g) /\
  (r = 0 -> g - g' = current_expansion_cost m' - current_expansion_cost m).
Proof.
  intros I L0 LA G0. unfold resize_macro.
  destruct (Z.gtb_spec (sat64 (off + len)) (mlen m)) as [N|N].
  2:{ intros E. injection E as <- <- <-.
      split; [assumption|]. split; [apply frame_eq_refl|]. split; [lia|]. split; [assumption|]. split; [lia|].
      split; [left; reflexivity|]. split; [intros; discriminate|]. intros _. lia. }
  pose proof (sat64_bounds (off + len)) as SB.
  destruct (words_cover (mlen m) (sat64 (off + len)) L0 LA N ltac:(lia)) as (W0 & W1 & W2).
  unfold resize_memory.
  set (nw := num_words (sat64 (off + len))) in *.
  destruct (Z.ltb_spec (memory_gas nw - current_expansion_cost m) 0) as [C0|C0]; [discriminate|].
  destruct (Z.leb_spec (memory_gas nw - current_expansion_cost m) g) as [C1|C1].
  - intros E. injection E as <- <- <-.
    destruct (resize_frame m (nw * 32) I ltac:(lia)) as (A & B & C).
    assert (mlen (resize m (nw * 32)) mod 32 = 0) as AL by (rewrite C; apply Z.mod_mul; lia).
    assert (current_expansion_cost (resize m (nw * 32)) = memory_gas nw) as CE
      by (unfold current_expansion_cost, memory_gas_for_len; rewrite C, W2; reflexivity).
    split; [assumption|]. split; [assumption|]. split; [lia|]. split; [assumption|]. split; [lia|].
    split; [left; reflexivity|]. split; [intros; discriminate|]. intros _. rewrite CE. lia.
  - intros E. injection E as <- <- <-.
    split; [assumption|]. split; [apply frame_eq_refl|]. split; [lia|]. split; [assumption|]. split; [lia|].
    split; [right; reflexivity|]. split; [intros _; split; reflexivity|]. intros; discriminate.
Qed.

(* ------------------------------------------------------------------ every instruction *)
Definition st_ok (m0 : smem) (g0 : Z) (m : smem) (g : Z) : Prop :=
  inv m /\ frame_eq m0 m /\ mlen m0 <= mlen m /\ 0 <= mlen m /\ mlen m mod 32 = 0 /\ 0 <= g <= g0.
Definition res_ok (m0 : smem) (g0 : Z) (r : ores) : Prop := st_ok m0 g0 (o_mem r) (o_gas r).

(* operands are stack words: non-negative *)
Definition pop_nonneg (o : pop) : Prop :=
  match o with
  | PMload a => 0 <= a
  | PMstore a b | PMstore8 a b | PKeccak a b | PReturn a b | PRevert a b => 0 <= a /\ 0 <= b
  | PMsize | PStop => True
  | PMcopy a b c | PCalldatacopy a b c | PCodecopy a b c | PReturndatacopy a b c | PLog a b c => 0 <= a /\ 0 <= b /\ 0 <= c
  | PCall a b c d e => 0 <= a /\ 0 <= b /\ 0 <= c /\ 0 <= d /\ 0 <= e
  end.

Lemma st_keeps m0 g0 m g m' : st_ok m0 g0 m g -> keeps m m' -> st_ok m0 g0 m' g.
Proof.
  intros (A & B & C & D & E & F) (K1 & K2 & K3). unfold st_ok. rewrite K3.
  split; [assumption|]. split; [eapply frame_eq_trans; eassumption|].
  split; [lia|]. split; [lia|]. split; [assumption|]. lia.
Qed.
Lemma st_gas m0 g0 m g g' : st_ok m0 g0 m g -> 0 <= g' <= g -> st_ok m0 g0 m g'.
Proof.
  intros (A & B & C & D & E & F) H. unfold st_ok.
  split; [assumption|]. split; [assumption|]. split; [lia|]. split; [lia|]. split; [assumption|]. lia.
Qed.

Lemma ok_mk m0 g0 m g a b c d : st_ok m0 g0 m g -> res_ok m0 g0 (mkO m g a b c d).
Proof. intros H. exact H. Qed.
Lemma ok_fail m0 g0 m g r : st_ok m0 g0 m g -> res_ok m0 g0 (fail m g r).
Proof. intros H. exact H. Qed.
Lemma ok_done m0 g0 m g : st_ok m0 g0 m g -> res_ok m0 g0 (done m g).
Proof. intros H. exact H. Qed.
Lemma ok_charge m0 g0 m g c k : st_ok m0 g0 m g -> 0 <= c ->
  (forall g', st_ok m0 g0 m g' -> res_ok m0 g0 (k g')) -> res_ok m0 g0 (charge m g c k).
Proof.
  intros S C K. unfold charge. destruct (Z.leb_spec c g); [|apply ok_fail; assumption].
  apply K. eapply st_gas; [eassumption|]. destruct S as (_ & _ & _ & _ & _ & F). lia.
Qed.
Lemma checked64_nonneg x c : checked64 x = Some c -> 0 <= c.
Proof. unfold checked64, is_u64. destruct ((0 <=? x) && (x <? pow64)) eqn:E; [|discriminate]. intros H. injection H as <-. lia. Qed.
Lemma ok_charge_opt m0 g0 m g c k : st_ok m0 g0 m g -> (forall x, c = Some x -> 0 <= x) ->
  (forall g', st_ok m0 g0 m g' -> res_ok m0 g0 (k g')) -> res_ok m0 g0 (charge_opt m g c k).
Proof.
  intros S C K. unfold charge_opt. destruct c as [c|]; [|apply ok_fail; assumption].
  apply ok_charge; auto.
Qed.
Lemma ok_usize m0 g0 m g v k : st_ok m0 g0 m g ->
  (forall v', res_ok m0 g0 (k v')) -> res_ok m0 g0 (usize_or_fail m g v k).
Proof. intros S K. unfold usize_or_fail. destruct (v <? pow64); [apply K|apply ok_fail; assumption]. Qed.
Lemma ok_with_mem m0 g0 m g off len k : st_ok m0 g0 m g ->
  (forall m' g', st_ok m0 g0 m' g' -> res_ok m0 g0 (k m' g')) -> res_ok m0 g0 (with_mem m g off len k).
Proof.
  intros S K. unfold with_mem. destruct (resize_macro m g off len) as [[[m' g'] r]|] eqn:E; [|apply ok_fail; assumption].
  destruct S as (A & B & C & D & E' & F).
  destruct (resize_macro_ok m g off len m' g' r A D E' ltac:(lia) E) as (R1 & R2 & R3 & R4 & R5 & _).
  assert (st_ok m0 g0 m' g') as S'.
  { unfold st_ok. split; [assumption|]. split; [eapply frame_eq_trans; eassumption|].
    split; [lia|]. split; [lia|]. split; [assumption|]. lia. }
  destruct (r =? 0); [apply K; assumption|apply ok_fail; assumption].
Qed.
Lemma ok_after_write m0 g0 m g w : st_ok m0 g0 m g -> keeps m (fst w) -> res_ok m0 g0 (after_write w g).
Proof.
  intros S K. unfold after_write. destruct w as [m' p]. cbn [fst] in K.
  destruct p; [apply ok_fail|apply ok_done]; eapply st_keeps; eassumption.
Qed.

Lemma cost_per_word_nonneg len mult x : cost_per_word len mult = Some x -> 0 <= x.
Proof. apply checked64_nonneg. Qed.
Lemma verylowcopy_nonneg len x : verylowcopy_cost len = Some x -> 0 <= x.
Proof. unfold verylowcopy_cost. destruct (cost_per_word len 3); [apply checked64_nonneg|discriminate]. Qed.
Lemma keccak_nonneg len x : keccak256_cost len = Some x -> 0 <= x.
Proof. unfold keccak256_cost. destruct (cost_per_word len 6); [apply checked64_nonneg|discriminate]. Qed.
Lemma log_nonneg n len x : log_cost n len = Some x -> 0 <= x.
Proof.
  unfold log_cost. destruct (checked64 (8 * len)); [|discriminate].
  destruct (checked64 (375 + z)); [apply checked64_nonneg|discriminate].
Qed.

Ltac ok_step :=
  match goal with
  | |- res_ok _ _ (mkO _ _ _ _ _ _) => apply ok_mk; assumption
  | |- res_ok _ _ (fail _ _ _) => apply ok_fail; assumption
  | |- res_ok _ _ (done _ _) => apply ok_done; assumption
  | |- res_ok _ _ (after_write _ _) =>
      eapply ok_after_write; [eassumption|first [apply set_keeps|apply set_data_keeps|apply copy_keeps];
                                         match goal with H : st_ok _ _ ?m _ |- inv ?m => exact (proj1 H) end]
  | |- res_ok _ _ (charge _ _ _ _) => apply ok_charge; [assumption|lia|intros ? ?]
  | |- res_ok _ _ (charge_opt _ _ _ _) =>
      apply ok_charge_opt; [assumption|first [apply verylowcopy_nonneg|apply keccak_nonneg|apply log_nonneg]|intros ? ?]
  | |- res_ok _ _ (usize_or_fail _ _ _ _) => apply ok_usize; [assumption|intros ?]
  | |- res_ok _ _ (with_mem _ _ _ _ _) => apply ok_with_mem; [assumption|intros ? ? ?]
  | |- res_ok _ _ (if ?b then _ else _) => destruct b
  | |- res_ok _ _ (match ?x with Some _ => _ | None => _ end) => destruct x
  end.

Lemma ok_data_copy m0 g0 m g moff doff len data : st_ok m0 g0 m g -> res_ok m0 g0 (data_copy m g moff doff len data).
Proof. intros S. unfold data_copy. repeat ok_step. Qed.
Lemma ok_return_inner m0 g0 m g off len r : st_ok m0 g0 m g -> res_ok m0 g0 (return_inner m g off len r).
Proof. intros S. unfold return_inner. repeat ok_step. Qed.
Lemma ok_call_range m0 g0 m g off len k : st_ok m0 g0 m g ->
  (forall m' g', st_ok m0 g0 m' g' -> res_ok m0 g0 (k m' g')) -> res_ok m0 g0 (call_range m g off len k).
Proof. intros S K. unfold call_range. repeat ok_step; apply K; assumption. Qed.

Theorem exec_frame e m g o :
  inv m -> 0 <= mlen m -> mlen m mod 32 = 0 -> 0 <= g -> pop_nonneg o ->
  res_ok m g (exec e m g o).
Proof.
  intros I L0 LA G0 NN.
  assert (st_ok m g m g) as S.
  { unfold st_ok. split; [assumption|]. split; [apply frame_eq_refl|]. split; [lia|]. split; [lia|]. split; [assumption|]. lia. }
  destruct o; cbn [exec].
  - repeat ok_step.
  - repeat ok_step.
  - repeat ok_step.
  - repeat ok_step.
  - repeat ok_step.
  - apply ok_data_copy; assumption.
  - apply ok_data_copy; assumption.
  - repeat ok_step.
  - repeat ok_step.
  - repeat ok_step.
  - apply ok_return_inner; assumption.
  - apply ok_return_inner; assumption.
  - apply ok_mk; assumption.
  - cbn [pop_nonneg] in NN.
    apply ok_call_range; [assumption|intros m1 g1 S1].
    destruct (if in_len =? 0 then Some [] else slice m1 in_off in_len); [|apply ok_fail; assumption].
    apply ok_call_range; [assumption|intros m2 g2 S2].
    apply ok_charge; [assumption|unfold WARM_STORAGE_READ_COST; lia|intros g3 S3].
    apply ok_charge; [assumption| |intros g4 S4; apply ok_mk; assumption].
    destruct S3 as (_ & _ & _ & _ & _ & F3).
    assert (0 <= g3 - g3 / 64) by (pose proof (Z.div_le_upper_bound g3 64 g3 ltac:(lia) ltac:(lia)); lia).
    assert (0 <= usize_sat gas_arg) by (unfold usize_sat, pow64; destruct (gas_arg <? _); lia).
    lia.
Qed.

(* ------------------------------------------------------------------ exact expansion charge *)
(* MSTORE as the representative of "static gas, then resize_memory!, then write": on success the
   gas consumed is the static 3 plus exactly memory_gas(words after) - memory_gas(words before) *)
Theorem mstore_charge e m g off v :
  inv m -> 0 <= mlen m -> mlen m mod 32 = 0 -> 0 <= g ->
  let r := exec e m g (PMstore off v) in
  o_res r = R_Continue ->
  g - o_gas r = 3 + (current_expansion_cost (o_mem r) - current_expansion_cost m).
Proof.
  intros I L0 LA G0. cbn [exec]. unfold charge.
  destruct (Z.leb_spec 3 g) as [C|C]; [|cbn; discriminate].
  unfold usize_or_fail. destruct (off <? pow64); [|cbn; discriminate].
  unfold with_mem. destruct (resize_macro m (g - 3) off 32) as [[[m' g'] r]|] eqn:E; [|cbn; discriminate].
  destruct (resize_macro_ok m (g - 3) off 32 m' g' r I L0 LA ltac:(lia) E) as (R1 & R2 & R3 & R4 & R5 & R6 & R7 & R8).
  destruct (Z.eqb_spec r 0) as [Z0|Z0].
  2:{ cbn. unfold R_Continue. intros H. lia. }
  specialize (R8 Z0).
  pose proof (set_keeps m' off (to_be32 v) R1) as (K1 & K2 & K3).
  unfold after_write, set_u256. destruct (set m' off (to_be32 v)) as [m2 p]. cbn [fst] in *.
  destruct p; [cbn; discriminate|]. unfold done. cbn [o_res o_gas o_mem]. intros _.
  unfold current_expansion_cost in *. rewrite K3. lia.
Qed.

(* ------------------------------------------------------------------ MCOPY is a memmove *)
Lemma zlen_ctx m : inv m -> zlen (ctx m) = mlen m.
Proof. intros (I1 & I2). unfold ctx, mlen, blen in *. rewrite zlen_zskipn by lia. reflexivity. Qed.

(* SharedMemory::copy with both ranges inside the memory: the source bytes are read as they were
   before the copy, whatever the overlap (EIP-5656) *)
Theorem copy_memmove m dst src len :
  inv m -> 0 <= dst -> 0 <= src -> 0 <= len -> mlen m < pow64 ->
  src + len <= mlen m -> dst + len <= mlen m ->
  snd (copy m dst src len) = false /\
  mlen (fst (copy m dst src len)) = mlen m /\
  ctx (fst (copy m dst src len)) =
    zfirstn dst (ctx m) ++ zfirstn len (zskipn src (ctx m)) ++ zskipn (dst + len) (ctx m).
Proof.
  intros I D S L B HS HD. unfold copy, slice.
  pose proof (zlen_ctx m I) as ZC.
  assert (zlen (zfirstn len (zskipn src (ctx m))) = len) as ZL.
  { rewrite zlen_zfirstn; [reflexivity|]. rewrite zlen_zskipn by lia. lia. }
  replace ((0 <=? src) && (0 <=? len) && (src + len <? pow64) && (src + len <=? mlen m)) with true by lia.
  replace ((0 <=? dst) && (dst + len <=? mlen m)) with true by lia.
  assert (snd (write m dst (zfirstn len (zskipn src (ctx m)))) = false) as P.
  { unfold write. rewrite ZL. replace ((0 <=? dst) && (dst + len <? pow64) && (dst + len <=? mlen m)) with true by lia. reflexivity. }
  split; [assumption|].
  destruct (write_window m dst _ I P) as (A & C). rewrite ZL in C. split; assumption.
Qed.
