(* Proofs about Model/Instance.v: every entry point leaves a clean instance on every path, a
   clean instance cannot be told apart from a freshly built one, hence reuse = fresh for all
   sequences. *)
From RevmV Require Import Base.Word Model.Instance.
Local Open Scope Z_scope.

Lemma js_clear_fresh js : js_clear js = js_new (j_spec js) [].
Proof. reflexivity. Qed.

Lemma js_finalize_spec js :
  fst (js_finalize js) = (j_state js, j_logs js) /\ snd (js_finalize js) = js_new (j_spec js) (j_warm js).
Proof. split; reflexivity. Qed.

Section Proofs.
Variables (db txenv err rcore l1info : Type).
Variable canon : Z -> Z.
Variable shanghai prague : Z -> bool.
Variable validate_env : bool -> Z -> txenv -> option err.
Variable initial_tx_gas : Z -> txenv -> err + (Z * Z).
Variable is_deposit : txenv -> bool.
Variable l1_fetch : Z -> db -> db * (err + l1info).
Variable tx_against_state :
  bool -> Z -> txenv -> option l1info -> db -> list (Z * Z) -> list Z -> (list (Z * Z) * db) * option err.
Variable coinbase_of : txenv -> Z.
Variable load_access_list : txenv -> db -> jstate -> (jstate * db) * option err.
Variable precompiles_of : bool -> Z -> list Z.
Variable exec : bool -> Z -> txenv -> Z * Z -> jstate -> db -> list Z -> option l1info -> exec_out db err rcore.
Variable end_handle : bool -> Z -> txenv -> db -> (err + (rcore * list (Z * Z) * list Z))
                      -> db * (err + (rcore * list (Z * Z) * list Z)).
Variable commit : db -> list (Z * Z) -> db.

Notation inst := (instance db err l1info).
Notation pre_inner := (preverify_inner validate_env initial_tx_gas is_deposit l1_fetch tx_against_state).
Notation tp_inner := (transact_preverified_inner canon shanghai prague coinbase_of load_access_list precompiles_of exec).
Notation fin := (finish end_handle).
Notation call_ := (call canon shanghai prague validate_env initial_tx_gas is_deposit l1_fetch tx_against_state
                        coinbase_of load_access_list precompiles_of exec end_handle commit).
Notation run_reused_ := (run_reused canon shanghai prague validate_env initial_tx_gas is_deposit l1_fetch tx_against_state
                        coinbase_of load_access_list precompiles_of exec end_handle commit).
Notation run_fresh_ := (run_fresh canon shanghai prague validate_env initial_tx_gas is_deposit l1_fetch tx_against_state
                        coinbase_of load_access_list precompiles_of exec end_handle commit).

(* mainnet instances never hold L1 block info *)
Definition l1_ok (i : inst) : Prop := i_optimism i = false -> i_l1 i = None.

(* ------------------------------------------------------------------ clear *)

Lemma clear_clean (i : inst) : l1_ok i -> clean (clear i).
Proof.
  intros H. unfold clean, clear. cbn. repeat split.
  destruct (i_optimism i) eqn:E; [reflexivity | apply H; exact E].
Qed.

Lemma clear_keeps (i : inst) :
  i_db (clear i) = i_db i /\ i_spec (clear i) = i_spec i /\ i_optimism (clear i) = i_optimism i
  /\ i_precompiles (clear i) = i_precompiles i.
Proof. repeat split. Qed.

(* ------------------------------------------------------------------ l1_ok and the handler fields are invariant *)

Ltac fields_tac :=
  cbn; split; [reflexivity|]; split; [reflexivity|];
  let H1 := fresh "H" in let H2 := fresh "H" in
  intros H1 H2; try discriminate; try (apply H1; reflexivity); try exact (H1 H2).

Lemma pre_inner_fields (i : inst) tx :
  let i' := snd (pre_inner i tx) in
  i_spec i' = i_spec i /\ i_optimism i' = i_optimism i /\ (l1_ok i -> l1_ok i').
Proof.
  unfold preverify_inner, l1_ok.
  destruct (validate_env (i_optimism i) (i_spec i) tx); [cbn; tauto|].
  destruct (initial_tx_gas (i_spec i) tx); [cbn; tauto|].
  destruct (i_optimism i) eqn:Eo; cbn [andb negb].
  - destruct (is_deposit tx) eqn:Ed; cbn [negb].
    + fields_tac.
    + destruct (i_l1 i) as [x|].
      * destruct (tx_against_state true (i_spec i) tx (Some x) (i_db i) (j_state (i_js i)) (j_warm (i_js i))) as [[st d2] [e|]];
          fields_tac.
      * destruct (l1_fetch (i_spec i) (i_db i)) as [d [e|x]].
        -- fields_tac.
        -- destruct (tx_against_state true (i_spec i) tx (Some x) d (j_state (i_js i)) (j_warm (i_js i))) as [[st d2] [e|]];
             fields_tac.
  - destruct (tx_against_state false (i_spec i) tx (i_l1 i) (i_db i) (j_state (i_js i)) (j_warm (i_js i))) as [[st d2] [e|]];
      fields_tac.
Qed.

Lemma output_fields (i : inst) (r : rcore) :
  let i' := snd (output i r) in
  i_spec i' = i_spec i /\ i_optimism i' = i_optimism i /\ i_l1 i' = i_l1 i.
Proof. unfold output. destruct (i_err i); cbn; repeat split. Qed.

Lemma tp_inner_fields (i : inst) tx gas :
  let i' := snd (tp_inner i tx gas) in
  i_spec i' = i_spec i /\ i_optimism i' = i_optimism i /\ i_l1 i' = i_l1 i.
Proof.
  unfold transact_preverified_inner.
  destruct (load_access_list tx (i_db i) _) as [[js2 d2] [e|]]; [cbn; repeat split|].
  destruct (o_frame _) as [e|r]; [cbn; repeat split|].
  match goal with |- context [output ?i4 r] => pose proof (output_fields i4 r) as O end.
  cbn in O. exact O.
Qed.

Lemma finish_clean (i : inst) tx out : l1_ok i -> clean (snd (fin i tx out)).
Proof.
  intros H. unfold finish. destruct (end_handle (i_optimism i) (i_spec i) tx (i_db i) out) as [d out'].
  cbn [snd]. apply clear_clean. exact H.
Qed.

Lemma finish_fields (i : inst) tx out :
  i_spec (snd (fin i tx out)) = i_spec i /\ i_optimism (snd (fin i tx out)) = i_optimism i.
Proof.
  unfold finish. destruct (end_handle (i_optimism i) (i_spec i) tx (i_db i) out) as [d out'].
  cbn. split; reflexivity.
Qed.

Lemma l1_ok_of_fields (a b : inst) : i_optimism b = i_optimism a -> i_l1 b = i_l1 a -> l1_ok a -> l1_ok b.
Proof. unfold l1_ok. intros Ho Hl H Hb. rewrite Hl. apply H. rewrite <- Ho. exact Hb. Qed.

(* every entry point, on every path (validation error, database error, execution error, revert,
   halt, success), ends in a clean instance with the same handler *)
Theorem call_clean (i : inst) e tx :
  l1_ok i ->
  let i' := snd (call_ i e tx) in
  clean i' /\ i_spec i' = i_spec i /\ i_optimism i' = i_optimism i.
Proof.
  intros H.
  assert (Htr : let i' := snd (transact canon shanghai prague validate_env initial_tx_gas is_deposit l1_fetch
                                         tx_against_state coinbase_of load_access_list precompiles_of exec end_handle i tx) in
                clean i' /\ i_spec i' = i_spec i /\ i_optimism i' = i_optimism i).
  { unfold transact. pose proof (pre_inner_fields i tx) as P. cbn zeta in P.
    destruct (pre_inner i tx) as [[e0|gas] i1]; cbn [snd] in P; destruct P as [Ps [Po Pl]].
    - cbn [snd]. split; [apply clear_clean; apply Pl; exact H|]. cbn. tauto.
    - pose proof (tp_inner_fields i1 tx gas) as T. cbn zeta in T.
      destruct (tp_inner i1 tx gas) as [out i2]. cbn [snd] in T. destruct T as [Ts [To Tl]].
      pose proof (finish_fields i2 tx out) as [Fs Fo].
      split; [apply finish_clean; apply (l1_ok_of_fields i1 i2 To Tl); apply Pl; exact H|].
      rewrite Fs, Fo, Ts, To. tauto. }
  destruct e; unfold call.
  - destruct (transact _ _ _ _ _ _ _ _ _ _ _ _ _ i tx) as [r i'] eqn:E. cbn [snd] in *. exact Htr.
  - unfold transact_commit.
    destruct (transact _ _ _ _ _ _ _ _ _ _ _ _ _ i tx) as [r i'] eqn:E. cbn [snd] in Htr.
    destruct r as [e0|[[r st] logs]]; cbn [snd]; [exact Htr|].
    destruct Htr as [[Hj [He Hl]] [Hs Ho]]. unfold clean. cbn. tauto.
  - unfold preverify_transaction. pose proof (pre_inner_fields i tx) as P. cbn zeta in P.
    destruct (pre_inner i tx) as [[e0|gas] i1]; cbn [snd] in *; destruct P as [Ps [Po Pl]];
      (split; [apply clear_clean; apply Pl; exact H | cbn; tauto]).
  - unfold transact_preverified. destruct (initial_tx_gas (i_spec i) tx) as [e0|gas].
    + cbn [snd]. split; [apply clear_clean; exact H | cbn; tauto].
    + pose proof (tp_inner_fields i tx gas) as T. cbn zeta in T.
      destruct (tp_inner i tx gas) as [out i2]. cbn [snd] in T. destruct T as [Ts [To Tl]].
      pose proof (finish_fields i2 tx out) as [Fs Fo].
      destruct (fin i2 tx out) as [out' i3] eqn:E. cbn [snd] in *.
      split; [|rewrite Fs, Fo, Ts, To; tauto].
      pose proof (finish_clean i2 tx out (l1_ok_of_fields i i2 To Tl H)) as C. rewrite E in C. exact C.
Qed.

(* ------------------------------------------------------------------ clean = fresh for the next call *)

Lemma clean_sim_fresh (i : inst) : clean i -> sim i (fresh (i_spec i) (i_optimism i) (i_db i)).
Proof.
  intros [Hj [He Hl]]. unfold sim, fresh. cbn. rewrite Hj, He, Hl. cbn. repeat split.
Qed.

Lemma sim_refl (a : inst) : sim a a.
Proof. unfold sim. repeat split. Qed.

(* instances that differ only in precompile set and journaled spec *)
Lemma sim_eq_parts (a b : inst) : sim a b ->
  exists js, i_js a = js /\ i_js b = js_set_spec js (j_spec (i_js b)) /\
  i_err a = i_err b /\ i_db a = i_db b /\ i_l1 a = i_l1 b /\ i_spec a = i_spec b /\ i_optimism a = i_optimism b.
Proof.
  intros [H1 [H2 [H3 [H4 [H5 [H6 H]]]]]]. exists (i_js a). split; [reflexivity|]. split; [|exact H].
  destruct (i_js a), (i_js b). cbn in *. subst. reflexivity.
Qed.

Lemma sim_clear (a b : inst) : sim a b -> sim (clear a) (clear b).
Proof.
  intros [H1 [H2 [H3 [H4 [H5 [H6 [H7 [H8 [H9 [H10 H11]]]]]]]]]]. unfold sim, clear. cbn.
  rewrite H8, H9, H10, H11. repeat split.
Qed.

Lemma pre_inner_sim (a b : inst) tx : sim a b ->
  fst (pre_inner a tx) = fst (pre_inner b tx) /\ sim (snd (pre_inner a tx)) (snd (pre_inner b tx)).
Proof.
  intros S. pose proof S as [H1 [H2 [H3 [H4 [H5 [H6 [H7 [H8 [H9 [H10 H11]]]]]]]]]].
  unfold preverify_inner. rewrite H1, H6, H8, H9, H10, H11.
  destruct (validate_env (i_optimism b) (i_spec b) tx); [split; [reflexivity | exact S]|].
  destruct (initial_tx_gas (i_spec b) tx); [split; [reflexivity | exact S]|].
  destruct (i_optimism b && negb (is_deposit tx)).
  - destruct (i_l1 b) as [x|].
    + destruct (i_optimism b && is_deposit tx).
      * split; [reflexivity|]. unfold sim. cbn. tauto.
      * destruct (tx_against_state _ _ _ _ _ _ _) as [[st d2] [e|]]; (split; [reflexivity|]; unfold sim; cbn; tauto).
    + destruct (l1_fetch (i_spec b) (i_db b)) as [d [e|x]].
      * split; [reflexivity|]. unfold sim. cbn. tauto.
      * destruct (i_optimism b && is_deposit tx).
        -- split; [reflexivity|]. unfold sim. cbn. tauto.
        -- destruct (tx_against_state _ _ _ _ _ _ _) as [[st d2] [e|]]; (split; [reflexivity|]; unfold sim; cbn; tauto).
  - destruct (i_optimism b && is_deposit tx).
    + split; [reflexivity|]. unfold sim. cbn. tauto.
    + destruct (tx_against_state _ _ _ _ _ _ _) as [[st d2] [e|]]; (split; [reflexivity|]; unfold sim; cbn; tauto).
Qed.

Lemma output_sim (a b : inst) (r : rcore) : sim a b ->
  fst (output a r) = fst (output b r) /\ sim (snd (output a r)) (snd (output b r)).
Proof.
  intros [H1 [H2 [H3 [H4 [H5 [H6 [H7 [H8 [H9 [H10 H11]]]]]]]]]]. unfold output. rewrite H7.
  destruct (i_err b).
  - split; [reflexivity|]. unfold sim. cbn. tauto.
  - unfold js_finalize. cbn. rewrite H1, H3. split; [reflexivity|]. unfold sim. cbn. tauto.
Qed.

(* the frame reads the journaled state only after set_spec_id, and the precompile set only after
   set_precompiles: equal results, and afterwards even the precompile sets agree *)
Lemma tp_inner_sim (a b : inst) tx gas : sim a b ->
  fst (tp_inner a tx gas) = fst (tp_inner b tx gas) /\ sim (snd (tp_inner a tx gas)) (snd (tp_inner b tx gas)).
Proof.
  intros S. pose proof S as [H1 [H2 [H3 [H4 [H5 [H6 [H7 [H8 [H9 [H10 H11]]]]]]]]]].
  unfold transact_preverified_inner.
  assert (Ejs : js_set_spec (i_js a) (canon (i_spec a)) = js_set_spec (i_js b) (canon (i_spec b))).
  { unfold js_set_spec. rewrite H1, H2, H3, H4, H5, H6, H10. reflexivity. }
  rewrite Ejs, H8, H9, H10, H11.
  destruct (load_access_list tx (i_db b) _) as [[js2 d2] [e|]].
  - split; [reflexivity|]. unfold sim. cbn. tauto.
  - destruct (exec _ _ _ _ _ _ _ _) as [fr ojs odb oerr]. cbn [o_frame o_js o_db o_err].
    destruct fr as [e|r].
    + split; [reflexivity|]. unfold sim. cbn. tauto.
    + apply output_sim. unfold sim. cbn. tauto.
Qed.

Lemma finish_sim (a b : inst) tx out : sim a b ->
  fst (fin a tx out) = fst (fin b tx out) /\ sim (snd (fin a tx out)) (snd (fin b tx out)).
Proof.
  intros S. pose proof S as [H1 [H2 [H3 [H4 [H5 [H6 [H7 [H8 [H9 [H10 H11]]]]]]]]]].
  unfold finish. rewrite H8, H10, H11.
  destruct (end_handle (i_optimism b) (i_spec b) tx (i_db b) out) as [d out'].
  split; [reflexivity|]. apply sim_clear. unfold sim. cbn. tauto.
Qed.

Theorem call_sim (a b : inst) e tx : sim a b ->
  fst (call_ a e tx) = fst (call_ b e tx) /\ sim (snd (call_ a e tx)) (snd (call_ b e tx)).
Proof.
  intros S.
  assert (Htr : fst (transact canon shanghai prague validate_env initial_tx_gas is_deposit l1_fetch tx_against_state
                              coinbase_of load_access_list precompiles_of exec end_handle a tx)
                = fst (transact canon shanghai prague validate_env initial_tx_gas is_deposit l1_fetch tx_against_state
                              coinbase_of load_access_list precompiles_of exec end_handle b tx)
                /\ sim (snd (transact canon shanghai prague validate_env initial_tx_gas is_deposit l1_fetch tx_against_state
                              coinbase_of load_access_list precompiles_of exec end_handle a tx))
                       (snd (transact canon shanghai prague validate_env initial_tx_gas is_deposit l1_fetch tx_against_state
                              coinbase_of load_access_list precompiles_of exec end_handle b tx))).
  { unfold transact. destruct (pre_inner_sim a b tx S) as [Pf Ps].
    destruct (pre_inner a tx) as [ra a1], (pre_inner b tx) as [rb b1]. cbn [fst snd] in Pf, Ps. subst rb.
    destruct ra as [e0|gas].
    - cbn [fst snd]. split; [reflexivity | apply sim_clear; exact Ps].
    - destruct (tp_inner_sim a1 b1 tx gas Ps) as [Tf Ts].
      destruct (tp_inner a1 tx gas) as [oa a2], (tp_inner b1 tx gas) as [ob b2]. cbn [fst snd] in Tf, Ts. subst ob.
      apply finish_sim. exact Ts. }
  destruct e; unfold call.
  - destruct (transact _ _ _ _ _ _ _ _ _ _ _ _ _ a tx) as [ra a'], (transact _ _ _ _ _ _ _ _ _ _ _ _ _ b tx) as [rb b'].
    cbn [fst snd] in *. destruct Htr as [-> Hs]. split; [reflexivity | exact Hs].
  - unfold transact_commit.
    destruct (transact _ _ _ _ _ _ _ _ _ _ _ _ _ a tx) as [ra a'], (transact _ _ _ _ _ _ _ _ _ _ _ _ _ b tx) as [rb b'].
    cbn [fst snd] in Htr. destruct Htr as [-> Hs].
    destruct rb as [e0|[[r st] logs]]; cbn [fst snd]; (split; [reflexivity|]); [exact Hs|].
    destruct Hs as [H1 [H2 [H3 [H4 [H5 [H6 [H7 [H8 [H9 [H10 H11]]]]]]]]]]. unfold sim. cbn. rewrite H8. tauto.
  - unfold preverify_transaction. destruct (pre_inner_sim a b tx S) as [Pf Ps].
    destruct (pre_inner a tx) as [ra a1], (pre_inner b tx) as [rb b1]. cbn [fst snd] in Pf, Ps. subst rb.
    destruct ra; cbn [fst snd]; (split; [reflexivity | apply sim_clear; exact Ps]).
  - unfold transact_preverified. pose proof S as [H1 [H2 [H3 [H4 [H5 [H6 [H7 [H8 [H9 [H10 H11]]]]]]]]]].
    rewrite H10. destruct (initial_tx_gas (i_spec b) tx) as [e0|gas].
    + cbn [fst snd]. split; [reflexivity | apply sim_clear; exact S].
    + destruct (tp_inner_sim a b tx gas S) as [Tf Ts].
      destruct (tp_inner a tx gas) as [oa a2], (tp_inner b tx gas) as [ob b2]. cbn [fst snd] in Tf, Ts. subst ob.
      destruct (finish_sim a2 b2 tx oa Ts) as [Ff Fs].
      destruct (fin a2 tx oa) as [x a3], (fin b2 tx oa) as [y b3]. cbn [fst snd] in *. subst y.
      split; [reflexivity | exact Fs].
Qed.

Lemma sim_db (a b : inst) : sim a b -> i_db a = i_db b.
Proof. intros [_ [_ [_ [_ [_ [_ [_ [H _]]]]]]]]. exact H. Qed.

Lemma l1_ok_clean (i : inst) : clean i -> l1_ok i.
Proof. intros [_ [_ H]] _. exact H. Qed.

Lemma modify_spec_clean (i : inst) s : clean i -> clean (modify_spec_id i s).
Proof. intros [Hj [He Hl]]. unfold clean, modify_spec_id. cbn. tauto. Qed.

(* Reuse = fresh: for every sequence of calls (any entry point, any transaction, any outcome) and
   spec changes, one reused instance produces the outcomes and the final database that freshly
   built instances over the database of the moment produce. *)
Theorem reuse_equals_fresh : forall (l : list (step txenv)) (i : inst),
  clean i ->
  fst (run_reused_ i l) = fst (run_fresh_ (i_spec i) (i_optimism i) (i_db i) l)
  /\ i_db (snd (run_reused_ i l)) = snd (run_fresh_ (i_spec i) (i_optimism i) (i_db i) l)
  /\ clean (snd (run_reused_ i l)).
Proof.
  induction l as [|st t IH]; intros i C.
  - cbn. split; [reflexivity|]. split; [reflexivity | exact C].
  - destruct st as [e tx | s].
    + cbn [run_reused run_fresh].
      destruct (call_sim i (fresh (i_spec i) (i_optimism i) (i_db i)) e tx (clean_sim_fresh i C)) as [Cf Cs].
      destruct (call_clean i e tx (l1_ok_clean i C)) as [Cc [Csp Cop]].
      destruct (call_ i e tx) as [o i'] eqn:E1.
      destruct (call_ (fresh (i_spec i) (i_optimism i) (i_db i)) e tx) as [o2 f'] eqn:E2.
      cbn [fst snd] in *. subst o2.
      destruct (IH i' Cc) as [I1 [I2 I3]].
      rewrite Csp, Cop, (sim_db _ _ Cs) in *.
      destruct (run_reused_ i' t) as [os i''].
      destruct (run_fresh_ (i_spec i) (i_optimism i) (i_db f') t) as [os2 d'].
      cbn [fst snd] in *. subst os2. split; [reflexivity|]. split; [exact I2 | exact I3].
    + cbn [run_reused run_fresh].
      apply (IH (modify_spec_id i s) (modify_spec_clean i s C)).
Qed.

End Proofs.
