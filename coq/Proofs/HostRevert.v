(* C06: reverting a checkpoint restores the view, for every history of operations with nested
   checkpoints. *)
From Coq Require Import FunctionalExtensionality.
From RevmV Require Import Base.Word Model.Host Proofs.HostView Proofs.HostUndo Proofs.HostGood
  Proofs.HostOps Proofs.HostOps2 Proofs.HostOps3 Proofs.HostOps4.
Local Open Scope Z_scope.

(* ------------------------------------------------------------------ logs / depth / journal are
   not read by undo *)
Definition reframe (s : jstate) (l : list Z) (dp : Z) (j : list (list entry)) : jstate :=
  mkJ (st s) (ts s) l dp j (spurious s) (cancun s) (warm_pre s).

Lemma undo_reframe spur e s l dp j :
  undo spur e (reframe s l dp j) =
  match undo spur e s with Some u => Some (reframe u l dp j) | None => None end.
Proof.
  destruct e; cbn [undo]; unfold put, set_st, set_ts, reframe;
    cbn [st ts logs depth journal spurious cancun warm_pre];
    repeat match goal with
           | |- context [match upd ?m ?a ?v ?x with _ => _ end] => unfold upd
           | |- context [if ?c then _ else _] => destruct c
           | |- context [match st s ?a with _ => _ end] => destruct (st s a)
           | |- context [match a_storage ?a ?k with _ => _ end] => destruct (a_storage a k)
           end; reflexivity.
Qed.

Lemma undo_list_reframe spur es : forall s l dp j,
  undo_list spur es (reframe s l dp j) =
  match undo_list spur es s with Some u => Some (reframe u l dp j) | None => None end.
Proof.
  induction es as [|e r IH]; intros s l dp j; cbn [undo_list]; [reflexivity|].
  rewrite undo_reframe. destruct (undo spur e s); [apply IH|reflexivity].
Qed.

Lemma view_reframe d s l dp j : cview_of d (reframe s l dp j) = cview_of d s.
Proof. reflexivity. Qed.

Lemma WF_reframe d s l dp j : WF d s -> j <> [] -> WF d (reframe s l dp j).
Proof. intros (A & B & C) N. split; [exact A|]. split; [exact B|exact N]. Qed.

Lemma sub_reframe s l dp j : sub s (reframe s l dp j) /\ sub (reframe s l dp j) s.
Proof. split; split; auto. Qed.

(* ------------------------------------------------------------------ undo keeps WF *)
Lemma WF_bal_of d s a acc : WF d s -> st s a = Some acc -> in_u256 (a_bal acc).
Proof. intros [[A _] _] E. eapply A; eauto. Qed.

Lemma WF_undo d spur e s s' : WF d s -> undo spur e s = Some s' -> WF d s'.
Proof.
  intros W. destruct e; cbn [undo]; intros H.
  - destruct (st s a) as [acc|] eqn:E; [|discriminate]. injection H as <-.
    eapply WF_put_bal; [exact W|exact E|exact (WF_bal_of d s a acc W E)|cbn; auto].
  - destruct (st s a) as [acc|] eqn:E; [|discriminate].
    assert (W1 : WF d (put s a (acc_bal (acc_selfd acc was_destroyed) (wrap256 (a_bal acc + had_balance))))).
    { eapply WF_put_bal; [exact W|exact E|cbn; apply wrap256_range|cbn; auto]. }
    destruct (a =? target); [injection H as <-; exact W1|].
    destruct (st _ target) as [tacc|] eqn:E2; [|discriminate]. injection H as <-.
    eapply WF_put_bal; [exact W1|exact E2|cbn; apply wrap256_range|cbn; auto].
  - destruct (spur && (a =? PRECOMPILE3)); [injection H as <-; exact W|].
    destruct (st s a) as [acc|] eqn:E; [|discriminate]. injection H as <-.
    eapply WF_put_bal; [exact W|exact E|exact (WF_bal_of d s a acc W E)|cbn; auto].
  - destruct (st s from) as [fa|] eqn:E; [|discriminate].
    assert (W1 : WF d (put s from (acc_bal fa (wrap256 (a_bal fa + balance))))).
    { eapply WF_put_bal; [exact W|exact E|cbn; apply wrap256_range|cbn; auto]. }
    destruct (st _ to) as [ta|] eqn:E2; [|discriminate]. injection H as <-.
    eapply WF_put_bal; [exact W1|exact E2|cbn; apply wrap256_range|cbn; auto].
  - destruct (st s a) as [acc|] eqn:E; [|discriminate]. injection H as <-.
    eapply WF_put_bal; [exact W|exact E|exact (WF_bal_of d s a acc W E)|cbn; auto].
  - destruct (st s a) as [acc|] eqn:E; [|discriminate]. injection H as <-.
    eapply WF_put_bal; [exact W|exact E|exact (WF_bal_of d s a acc W E)|cbn; discriminate].
  - destruct (st s a) as [acc|] eqn:E; [|discriminate].
    destruct (a_storage acc k); [|discriminate]. injection H as <-. apply WF_put_storage; auto.
  - destruct (st s a) as [acc|] eqn:E; [|discriminate].
    destruct (a_storage acc k); [|discriminate]. injection H as <-. apply WF_put_storage; auto.
  - injection H as <-. apply WF_set_ts. exact W.
  - destruct (st s a) as [acc|] eqn:E; [|discriminate]. injection H as <-.
    eapply WF_put_bal; [exact W|exact E|exact (WF_bal_of d s a acc W E)|cbn; auto].
Qed.

Lemma WF_undo_list d spur es : forall s s', WF d s -> undo_list spur es s = Some s' -> WF d s'.
Proof.
  induction es as [|e r IH]; intros s s' W H; cbn [undo_list] in H; [injection H as <-; exact W|].
  destruct (undo spur e s) eqn:E; [|discriminate]. eapply IH; [eapply WF_undo; eauto|exact H].
Qed.

(* ------------------------------------------------------------------ the invariant *)
Definition cp_ok (s0 : jstate) (cp : checkpoint_t) : Prop :=
  (length (journal s0) + 1 <= journal_i cp)%nat /\ (length (logs s0) <= log_i cp)%nat.

(* s0: the state when the outer checkpoint was taken; s: a later state; cps: the checkpoints
   opened since and not yet closed *)
Definition Inv (d : db) (s0 s : jstate) (cps : list checkpoint_t) : Prop :=
  exists top,
    top <> [] /\ journal s = top ++ journal s0 /\
    (exists u, undo_list (spurious s0) (concat top) s = Some u /\ cview_of d u = cview_of d s0) /\
    (exists ex, logs s = logs s0 ++ ex) /\ same_cfg s0 s /\ WF d s /\ Forall (cp_ok s0) cps.

Lemma add_entries_top E top base : top <> [] -> add_entries E (top ++ base) = add_entries E top ++ base.
Proof. destruct top; [congruence|reflexivity]. Qed.
Lemma concat_add_entries E top : top <> [] -> concat (add_entries E top) = E ++ concat top.
Proof. destruct top; [congruence|]. cbn. rewrite app_assoc. reflexivity. Qed.
Lemma add_entries_ne E top : add_entries E top <> [].
Proof. destruct top; cbn; congruence. Qed.

Lemma Inv_good d s0 s s' cps : Inv d s0 s cps -> Good d s s' -> WF d s' -> Inv d s0 s' cps.
Proof.
  intros (top & N & J & (u & U & V) & (ex & L) & C & W & F)
         (E & J' & (x & Ux & Vx) & S & L' & D' & C') W'.
  exists (add_entries E top). split; [apply add_entries_ne|].
  split; [rewrite J', J; apply add_entries_top; exact N|].
  destruct C as (c1 & c2 & c3). destruct C' as (d1 & d2 & d3).
  split.
  - rewrite concat_add_entries by exact N. rewrite undo_list_app. rewrite c1 in Ux. rewrite Ux.
    destruct (undo_list_frame _ _ _ _ Ux) as (_ & _ & _ & Fx & _ & _ & Sx1 & Sx2).
    assert (Hc : exists u', undo_list (spurious s0) (concat top) x = Some u' /\
                            cview_of d u' = cview_of d u /\ sub u u').
    { apply (undo_list_congr d (spurious s0) (concat top) s x u);
        [congruence|congruence|exact Vx|eapply sub_trans; [exact S|exact Sx1]|exact U]. }
    destruct Hc as (u' & Hu & Vu & _). exists u'. split; [exact Hu|congruence].
  - split; [exists ex; congruence|]. split; [unfold same_cfg; repeat split; congruence|].
    split; [exact W'|exact F].
Qed.

Lemma Inv_reframe d s0 s cps l dp top' :
  Inv d s0 s cps ->
  (exists top, journal s = top ++ journal s0 /\ concat top' = concat top) -> top' <> [] ->
  (exists ex, l = logs s0 ++ ex) ->
  Inv d s0 (reframe s l dp (top' ++ journal s0)) cps.
Proof.
  intros (top & N & J & (u & U & V) & _ & C & W & F) (top2 & J2 & Cc) N' L.
  assert (top2 = top) as -> by (rewrite J in J2; apply app_inv_tail in J2; congruence).
  exists top'. split; [exact N'|]. split; [reflexivity|]. split.
  - rewrite Cc, undo_list_reframe, U. eexists. split; [reflexivity|]. rewrite view_reframe. exact V.
  - split; [exact L|]. split; [exact C|]. split; [|exact F].
    apply WF_reframe; [exact W|]. destruct top'; [congruence|cbn; congruence].
Qed.

(* opening a checkpoint *)
Lemma Inv_checkpoint d s0 s cps :
  Inv d s0 s cps -> Inv d s0 (fst (checkpoint s)) (snd (checkpoint s) :: cps).
Proof.
  intros I. pose proof I as (top & N & J & _ & (ex & L) & _ & _ & F).
  unfold checkpoint. cbn [fst snd].
  assert (Inv d s0 (reframe s (logs s) (depth s + 1) (([] :: top) ++ journal s0)) cps) as I2.
  { apply Inv_reframe; [exact I|exists top; split; [exact J|reflexivity]|congruence|exists ex; exact L]. }
  replace (set_journal (set_depth s (depth s + 1)) ([] :: journal s))
    with (reframe s (logs s) (depth s + 1) (([] :: top) ++ journal s0))
    by (rewrite J; reflexivity).
  destruct I2 as (top2 & A1 & A2 & A3 & A4 & A5 & A6 & A7).
  exists top2. repeat (split; [assumption|]). constructor; [|exact F].
  split; cbn [journal_i log_i].
  - rewrite J, app_length. destruct top; [congruence|cbn; lia].
  - rewrite L, app_length. lia.
Qed.

Lemma Inv_commit d s0 s cp cps : Inv d s0 s (cp :: cps) -> Inv d s0 (checkpoint_commit s) cps.
Proof.
  intros I. pose proof I as (top & N & J & _ & (ex & L) & _ & _ & F).
  unfold checkpoint_commit.
  replace (set_depth s (depth s - 1)) with (reframe s (logs s) (depth s - 1) (top ++ journal s0))
    by (rewrite <- J; destruct s; reflexivity).
  assert (Inv d s0 (reframe s (logs s) (depth s - 1) (top ++ journal s0)) (cp :: cps)) as I2.
  { apply Inv_reframe; [exact I|exists top; split; [exact J|reflexivity]|exact N|exists ex; exact L]. }
  destruct I2 as (top2 & A1 & A2 & A3 & A4 & A5 & A6 & A7).
  exists top2. repeat (split; [assumption|]). inversion A7; assumption.
Qed.

Lemma Inv_log d s0 s cps l : Inv d s0 s cps -> Inv d s0 (log s l) cps.
Proof.
  intros I. pose proof I as (top & N & J & _ & (ex & L) & _ & _ & F).
  unfold log.
  replace (set_logs s (logs s ++ [l])) with (reframe s (logs s ++ [l]) (depth s) (top ++ journal s0))
    by (rewrite <- J; destruct s; reflexivity).
  apply Inv_reframe; [exact I|exists top; split; [exact J|reflexivity]|exact N|].
  exists (ex ++ [l]). rewrite L, app_assoc. reflexivity.
Qed.

Lemma firstn_app_le {A} n (l1 l2 : list A) : (n <= length l1)%nat -> firstn n (l1 ++ l2) = firstn n l1.
Proof. intros H. rewrite firstn_app. replace (n - length l1)%nat with 0%nat by lia. cbn. apply app_nil_r. Qed.
Lemma skipn_app_le {A} n (l1 l2 : list A) : (n <= length l1)%nat -> skipn n (l1 ++ l2) = skipn n l1 ++ l2.
Proof. intros H. rewrite skipn_app. replace (n - length l1)%nat with 0%nat by lia. reflexivity. Qed.
Lemma concat_firstn_skipn {A} n (l : list (list A)) : concat l = concat (firstn n l) ++ concat (skipn n l).
Proof. rewrite <- concat_app, firstn_skipn. reflexivity. Qed.

(* reverting an inner checkpoint *)
Lemma Inv_revert d s0 s cp cps :
  Inv d s0 s (cp :: cps) -> exists s', checkpoint_revert s cp = Some s' /\ Inv d s0 s' cps.
Proof.
  intros (top & N & J & (u & U & V) & (ex & L) & C & W & F).
  inversion F as [|? ? [Cj Cl] F']; subst.
  unfold checkpoint_revert.
  set (n := (length (journal s) - journal_i cp)%nat).
  assert (Hn : (n <= length top - 1)%nat).
  { unfold n. rewrite J, app_length. lia. }
  assert (Ht : (0 < length top)%nat) by (destruct top; [congruence|cbn; lia]).
  assert (Hf : firstn n (journal s) = firstn n top) by (rewrite J; apply firstn_app_le; lia).
  assert (Hk : skipn n (journal s) = skipn n top ++ journal s0) by (rewrite J; apply skipn_app_le; lia).
  rewrite Hf, Hk.
  rewrite (concat_firstn_skipn n top), undo_list_app in U.
  destruct C as (c1 & c2 & c3). rewrite c1.
  destruct (undo_list (spurious s0) (concat (firstn n top)) s) as [s1|] eqn:U1; [|discriminate].
  eexists. split; [reflexivity|].
  replace (set_journal (set_logs (set_depth s1 (depth s - 1)) (firstn (log_i cp) (logs s))) (skipn n top ++ journal s0))
    with (reframe s1 (firstn (log_i cp) (logs s)) (depth s - 1) (skipn n top ++ journal s0))
    by reflexivity.
  destruct (undo_list_frame _ _ _ _ U1) as (f1 & f2 & f3 & f4 & f5 & f6 & _ & _).
  exists (skipn n top). split.
  { intros Hs. apply (f_equal (@length _)) in Hs. rewrite skipn_length in Hs. cbn in Hs. lia. }
  split; [reflexivity|]. split.
  { rewrite undo_list_reframe, U. eexists. split; [reflexivity|]. rewrite view_reframe. exact V. }
  split.
  { rewrite L. rewrite firstn_app. exists (firstn (log_i cp - length (logs s0)) ex).
    rewrite firstn_all2 by lia. reflexivity. }
  split; [unfold same_cfg; cbn; repeat split; congruence|].
  split; [|exact F'].
  apply WF_reframe; [eapply WF_undo_list; eauto|].
  intros Hs. apply (f_equal (@length _)) in Hs. rewrite app_length, skipn_length in Hs. cbn in Hs. lia.
Qed.
