(* C16, contracts_cover: every account of the post-history state whose code hash is neither the
   empty-code hash nor the hash the address had in the pre-state finds its code in the
   changeset's contracts.  Needs the "byte code travels with the info" part of TransOK (code_ok
   and the h_code check): the transition a merge group accumulates carries the code whenever its
   hash differs from the previous info's hash. *)
From stdpp Require Import gmap.
From Coq Require Import ZArith Lia.
From RevmV Require Import Model.Bundle Spec.BundleSpec Spec.BundleHist Proofs.BundleProofs
  Proofs.BundleProofsBase Proofs.BundleProofsAcct Proofs.BundleProofsLift.
Local Open Scope Z_scope.

(* ------------------------------------------------------------------ byte code travels with the info *)
Lemma trans_ok_code h a t :
  trans_ok h a t = true ->
  code_ok t = true /\
  match h_code h !! a with Some b => b = has_code (t_pinfo t) | None => True end.
Proof.
  unfold trans_ok. rewrite !andb_true_iff. intros ((_ & Hc) & He). split; [exact Hc|].
  destruct (h_code h !! a); [apply Bool.eqb_prop, He | exact I].
Qed.

(* an info with real code that does not carry it has the hash of the previous info, which did not
   carry code either *)
Definition mt_code (t : tacc) : Prop :=
  forall i, t_info t = Some i -> i_hash i <> KECCAK_EMPTY -> i_code i = None ->
    exists pi, t_pinfo t = Some pi /\ i_hash pi = i_hash i /\ i_code pi = None.

Lemma code_ok_mt t : code_ok t = true -> mt_code t.
Proof.
  intros H i Hi Hne Hc. unfold code_ok in H. rewrite Hi in H.
  apply orb_true_iff in H as [H|H]; [apply orb_true_iff in H as [H|H]|].
  - apply Z.eqb_eq in H. congruence.
  - unfold has_code in H. rewrite Hc in H. discriminate.
  - destruct (t_pinfo t) as [pi|]; [|discriminate]. apply andb_true_iff in H as [H1 H2].
    apply Z.eqb_eq in H1. exists pi. split; [reflexivity|]. split; [exact H1|].
    unfold has_code in H2. destruct (i_code pi); [discriminate|reflexivity].
Qed.

Lemma ta_update_infos t o :
  t_info (ta_update t o) = t_info o /\ t_pinfo (ta_update t o) = t_pinfo t.
Proof. unfold ta_update. destruct (t_status o); split; reflexivity. Qed.

Lemma strip_hash (x y : option info) : strip <$> x = strip <$> y -> i_hash <$> x = i_hash <$> y.
Proof.
  destruct x as [x|], y as [y|]; simpl; intros H; try discriminate; [|reflexivity].
  injection H as _ _ H. rewrite H. reflexivity.
Qed.

Definition gcode (h2 : hstate) (m : tstate) : Prop :=
  forall a t, m !! a = Some t -> mt_code t /\ h_code h2 !! a = Some (has_code (t_info t)).

Lemma gcode_start h : gcode h ∅.
Proof. intros a t H. assert (E : (∅ : tstate) !! a = None) by apply lookup_empty. congruence. Qed.

Lemma gcode_step h1 h2 m at_ :
  hinv h2 -> ginv h1 h2 m -> gcode h2 m -> trans_ok h2 at_.1 at_.2 = true ->
  gcode (hist_step h2 at_) (add_transition m at_).
Proof.
  destruct at_ as [a o]; cbn [fst snd]. intros Hh Hg Hc Hok a' t'.
  unfold gcode, ginv, add_transition, hist_step, tstate in *; cbn [fst snd h_code].
  pose proof (trans_ok_code _ _ _ Hok) as (Hco & Hhc).
  pose proof (trans_ok_elim _ _ _ Hok) as (_ & Hpi & _).
  destruct (decide (a = a')) as [<-|Hne].
  - rewrite lookup_insert.
    destruct (m !! a) as [t|] eqn:Em.
    + rewrite lookup_insert. intros [= <-].
      destruct (ta_update_infos t o) as (Ei & Ep). rewrite Ei. split; [|reflexivity].
      intros i Hi Hne Hcn. rewrite Ei in Hi. rewrite Ep.
      destruct (code_ok_mt _ Hco i Hi Hne Hcn) as (pi' & Hpo & Hh' & Hc').
      destruct (Hc a t Em) as (Mt & Hcode). specialize (Hg a). rewrite Em in Hg.
      destruct Hg as (Hm & _). pose proof (mt_info _ _ _ _ Hm) as Mi.
      rewrite Hcode in Hhc. rewrite Hpo in Hhc, Hpi.
      rewrite <- Mi in Hpi.
      destruct (t_info t) as [it|] eqn:Eit; [|simpl in Hpi; discriminate Hpi].
      assert (Hhit : i_hash it = i_hash pi').
      { simpl in Hpi. injection Hpi as _ _ H. simpl in H. congruence. }
      assert (Hcit : i_code it = None).
      { unfold has_code in Hhc. rewrite Hc' in Hhc. destruct (i_code it); [discriminate|reflexivity]. }
      destruct (Mt it Eit) as (pi & Hp & Hhp & Hcp); [congruence | exact Hcit |].
      exists pi. split; [exact Hp|]. split; [congruence | exact Hcp].
    + rewrite lookup_insert. intros [= <-]. split; [apply code_ok_mt, Hco | reflexivity].
  - rewrite lookup_insert_ne by exact Hne.
    assert (Hl : (match m !! a with Some e => <[a := ta_update e o]> m | None => <[a := o]> m end) !! a'
                 = m !! a').
    { destruct (m !! a); apply lookup_insert_ne; exact Hne. }
    rewrite Hl. apply Hc.
Qed.

Lemma gcode_run h1 l : forall h2 m,
  hinv h2 -> ginv h1 h2 m -> gcode h2 m -> hist_ok h2 l = true ->
  gcode (hist_run h2 l) (add_transitions m l).
Proof.
  induction l as [|x l IH]; intros h2 m Hh Hg Hc Hok; simpl in *.
  - exact Hc.
  - apply andb_true_iff in Hok as [Hx Hl].
    apply IH.
    + destruct x; apply hinv_step; assumption.
    + apply ginv_step; assumption.
    + apply (gcode_step h1); assumption.
    + exact Hl.
Qed.

Lemma gcode_group_from h1 g : forall h2 m,
  hinv h2 -> ginv h1 h2 m -> gcode h2 m -> hist_ok h2 (concat g) = true ->
  gcode (hist_run h2 (concat g)) (fold_left add_transitions g m).
Proof.
  induction g as [|tx g IH]; intros h2 m Hh Hg Hc Hok; simpl in *.
  - exact Hc.
  - rewrite hist_ok_app in Hok. apply andb_true_iff in Hok as [Ht Hr].
    destruct (ginv_run h1 tx h2 m Hh Hg Ht) as (Hh' & Hg').
    rewrite hist_run_app. apply IH; try assumption. apply (gcode_run h1); assumption.
Qed.
Lemma gcode_group h g :
  hinv h -> hist_ok h (concat g) = true -> gcode (hist_run h (concat g)) (group_tstate g).
Proof.
  intros Hh Hok. apply (gcode_group_from h); [exact Hh | apply ginv_start | apply gcode_start | exact Hok].
Qed.
(* ------------------------------------------------------------------ the contracts table *)
(* every account with real code either still has the code hash it had in the pre-state or finds
   its code in the bundle's contracts *)
Definition cinv (c : gmap Z Z) (p0 p : plain) : Prop :=
  forall a i, acc_get p a = Some i -> i_hash i <> KECCAK_EMPTY ->
    i_hash <$> acc_get p0 a = Some (i_hash i) \/ is_Some (c !! i_hash i).

Lemma cinv_start p0 : cinv ∅ p0 p0.
Proof. intros a i Hi _. left. rewrite Hi. reflexivity. Qed.

Lemma add_contract_mono (c : gmap Z Z) t h : is_Some (c !! h) -> is_Some (add_contract c t !! h).
Proof.
  intros H. unfold add_contract. destruct (has_new_contract t) as [[h' code]|]; [|exact H].
  destruct (decide (h' = h)) as [->|Hne].
  - rewrite lookup_insert. eexists; reflexivity.
  - rewrite lookup_insert_ne by exact Hne. exact H.
Qed.

Lemma contracts_fold (c0 : gmap Z Z) (m : gmap Z tacc) :
  let c' := map_fold (fun _ t c => add_contract c t) c0 m in
  (forall h, is_Some (c0 !! h) -> is_Some (c' !! h)) /\
  (forall a t h code, m !! a = Some t -> has_new_contract t = Some (h, code) -> is_Some (c' !! h)).
Proof.
  apply (map_fold_ind (fun (r : gmap Z Z) (m : gmap Z tacc) =>
    (forall h, is_Some (c0 !! h) -> is_Some (r !! h)) /\
    (forall a t h code, m !! a = Some t -> has_new_contract t = Some (h, code) -> is_Some (r !! h)))).
  - split; [auto|]. intros a t h code H. rewrite lookup_empty in H. discriminate.
  - intros i x m' r Hi (H1 & H2). split.
    + intros h Hh. apply add_contract_mono, H1, Hh.
    + intros a t h code Ha Hn. destruct (decide (i = a)) as [->|Hne].
      * rewrite lookup_insert in Ha. injection Ha as ->.
        unfold add_contract. rewrite Hn. rewrite lookup_insert. eexists; reflexivity.
      * rewrite lookup_insert_ne in Ha by exact Hne. apply add_contract_mono. apply (H2 _ _ _ _ Ha Hn).
Qed.

Lemma cinv_group b p0 h1 h2 (m : gmap Z tacc) retain b' :
  cinv (bs_contracts b) p0 (h_plain h1) -> ginv h1 h2 m -> gcode h2 m ->
  apply_transitions_and_create_reverts b m retain = Some b' ->
  cinv (bs_contracts b') p0 (h_plain h2).
Proof.
  intros Hc Hg Hgc Ha. unfold apply_transitions_and_create_reverts, tstate in *.
  destruct (bool_decide _); [|discriminate]. injection Ha as <-. cbn [bs_contracts].
  destruct (contracts_fold (bs_contracts b) m) as (Hmono & Hnew).
  intros a i Hi Hne. specialize (Hg a). unfold ginv, gcode, tstate in *.
  destruct (m !! a) as [t|] eqn:Em.
  - destruct Hg as (Hm & _). destruct (Hgc a t Em) as (Mt & _).
    pose proof (mt_info _ _ _ _ Hm) as Mi. pose proof (mt_pinfo _ _ _ _ Hm) as Mp.
    rewrite Hi in Mi. destruct (t_info t) as [it|] eqn:Eit; [|discriminate Mi].
    assert (Hhi : i_hash it = i_hash i) by (simpl in Mi; injection Mi as <-; reflexivity).
    destruct (decide (i_hash <$> t_pinfo t = Some (i_hash it))) as [Heq|Hneq].
    + (* same hash as before the group *)
      destruct (t_pinfo t) as [pi|] eqn:Epi; [|discriminate Heq].
      simpl in Heq. injection Heq as Heq. simpl in Mp. symmetry in Mp.
      destruct (Hc a (strip pi) Mp) as [Hl|Hr].
      * simpl. congruence.
      * left. rewrite Hl. simpl. congruence.
      * right. apply Hmono. simpl in Hr. rewrite <- Hhi, <- Heq. exact Hr.
    + (* new hash: the merged transition carries the code *)
      right. rewrite <- Hhi.
      destruct (i_code it) as [code|] eqn:Ec.
      * apply (Hnew a t (i_hash it) code Em).
        unfold has_new_contract. rewrite Eit. cbn [fmap option_fmap option_map].
        rewrite bool_decide_eq_false_2; [cbn; rewrite Ec; reflexivity|].
        intros H. apply Hneq. rewrite <- H. reflexivity.
      * destruct (Mt it Eit) as (pi & Hp & Hh & _); [congruence | exact Ec |].
        exfalso. apply Hneq. rewrite Hp. simpl. congruence.
  - destruct Hg as (Hacc & _). rewrite Hacc in Hi.
    destruct (Hc a i Hi Hne) as [Hl|Hr]; [left; exact Hl | right; apply Hmono, Hr].
Qed.
Lemma cinv_history p0 retain groups : forall b h b',
  hinv h -> binv b p0 h -> cinv (bs_contracts b) p0 (h_plain h) ->
  hist_ok h (flat groups) = true -> bundle_from retain b groups = Some b' ->
  cinv (bs_contracts b') p0 (h_plain (hist_run h (flat groups))).
Proof.
  induction groups as [|g gs IH]; intros b h b' Hh Hb Hc Hok Hbf.
  - injection Hbf as <-. exact Hc.
  - rewrite flat_cons in *. rewrite hist_ok_app in Hok. apply andb_true_iff in Hok as [Hg Hr].
    destruct (ginv_group h g Hh Hg) as (Hh' & Hgi).
    pose proof (gcode_group h g Hh Hg) as Hgc.
    destruct (binv_group b p0 h _ _ retain Hh Hb Hgi) as (b1 & Hb1 & Hbi).
    rewrite bundle_from_cons, Hb1 in Hbf.
    pose proof (cinv_group b p0 h _ _ retain b1 Hc Hgi Hgc Hb1) as Hc1.
    rewrite hist_run_app. apply (IH b1 _ b' Hh' Hbi Hc1 Hr Hbf).
Qed.

Theorem contracts_correct p0 groups retain known b :
  HistOK p0 groups -> bundle_of retain groups = Some b ->
  contracts_cover (to_plain_state b known) p0 (plain_after p0 groups).
Proof.
  intros (Hw & Hn & Hok) Hb. apply plain_nocode_nocode in Hn.
  pose proof (cinv_history p0 retain groups bundle_empty (h0 p0) b (hinv_h0 _ Hw Hn)
                (binv_empty p0) (cinv_start p0) Hok Hb) as Hc.
  intros a i Hi Hne Hp0. destruct (Hc a i Hi Hne) as [Hl|[code Hr]]; [congruence|].
  exists code. unfold to_plain_state; cbn [cs_contracts].
  apply map_filter_lookup_Some. split; [exact Hr | exact Hne].
Qed.

(* C16, full statement *)
Theorem changeset_full p0 groups retain known :
  HistOK p0 groups ->
  exists b, bundle_of retain groups = Some b /\
    plain_equiv (apply_changeset (to_plain_state b known) p0) (plain_after p0 groups) /\
    contracts_cover (to_plain_state b known) p0 (plain_after p0 groups).
Proof.
  intros Hok. destruct (changeset_correct p0 groups retain known Hok) as (b & Hb & He).
  exists b. split; [exact Hb|]. split; [exact He|]. apply (contracts_correct _ _ retain); assumption.
Qed.
