(* Good-ness of storage, transient storage, transfer and selfdestruct. *)
From Coq Require Import FunctionalExtensionality.
From RevmV Require Import Base.Word Model.Host Proofs.HostView Proofs.HostUndo Proofs.HostGood Proofs.HostOps.
Local Open Scope Z_scope.

(* ------------------------------------------------------------------ sload / sstore *)
Lemma Good_sload d s a k s' v c : WF d s -> sload d s a k = Some (s', v, c) -> Good d s s'.
Proof.
  intros (Wb & Cz & N). unfold sload. destruct (st s a) as [acc|] eqn:E; [|discriminate].
  destruct (a_storage acc k) as [sl|] eqn:K.
  - destruct (s_cold sl) eqn:C; [|intros [= <- _ _]; apply Good_refl; exact N].
    intros [= <- _ _].
    eapply (Good_one d s a acc _ (acc_storage acc (upd (a_storage acc) k (Some (mkSlot (s_orig sl) (s_pres sl) true)))));
      [exact E| |reflexivity| |].
    + cbn [a_storage acc_storage]. intros x. apply upd_some_dom.
    + cbn [undo]. rewrite st_push, st_put, Z.eqb_refl. cbn [a_storage acc_storage]. rewrite upd_same.
      cbn [s_orig s_pres]. rewrite upd_upd. reflexivity.
    + unfold view_of_acc. cbn. f_equal. rewrite slot_view_upd. cbn.
      extensionality x. unfold upd. destruct (x =? k) eqn:X; [|reflexivity].
      apply Z.eqb_eq in X. subst. unfold slot_view. rewrite K, C. reflexivity.
  - intros [= <- _ _].
    set (v0 := if a_created acc then 0 else db_storage d a k).
    eapply (Good_one d s a acc _ (acc_storage acc (upd (a_storage acc) k (Some (mkSlot v0 v0 true)))));
      [exact E| |reflexivity| |].
    + cbn [a_storage acc_storage]. intros x. apply upd_some_dom.
    + cbn [undo]. rewrite st_push, st_put, Z.eqb_refl. cbn [a_storage acc_storage]. rewrite upd_same.
      cbn [s_orig s_pres]. rewrite upd_upd. reflexivity.
    + unfold view_of_acc. cbn. f_equal. rewrite slot_view_upd. cbn.
      extensionality x. unfold upd. destruct (x =? k) eqn:X; [|reflexivity].
      apply Z.eqb_eq in X. subst. unfold slot_view. rewrite K.
      assert (v0 = db_storage d a k) as ->; [|reflexivity].
      unfold v0. destruct (a_created acc) eqn:Cr; [|reflexivity]. symmetry. eapply Cz; eauto.
Qed.

Lemma WF_put_storage d s a acc st' :
  WF d s -> st s a = Some acc -> WF d (put s a (acc_storage acc st')).
Proof.
  intros (A & B & C) E. split; [|split; [|exact C]].
  - apply WFb_put; [exact A|]. destruct A as [A _]. apply (A a acc E).
  - eapply CZ_put; eauto.
Qed.
Lemma WF_push d s e : WF d s -> WF d (push s e).
Proof.
  intros (A & B & C). split; [apply WFb_push; exact A|]. split; [apply CZ_push; exact B|].
  unfold push. destruct (journal s); cbn; congruence.
Qed.

Lemma WF_sload d s a k s' v c : WF d s -> sload d s a k = Some (s', v, c) -> WF d s'.
Proof.
  intros W. unfold sload. destruct (st s a) as [acc|] eqn:E; [|discriminate].
  destruct (a_storage acc k) as [sl|].
  - destruct (s_cold sl); intros [= <- _ _]; [|exact W]. apply WF_push, WF_put_storage; auto.
  - intros [= <- _ _]. apply WF_push, WF_put_storage; auto.
Qed.

Lemma sload_slot d s a k s' v c :
  sload d s a k = Some (s', v, c) ->
  exists acc sl, st s' a = Some acc /\ a_storage acc k = Some sl /\ s_pres sl = v.
Proof.
  unfold sload. destruct (st s a) as [acc|] eqn:E; [|discriminate].
  destruct (a_storage acc k) as [sl|] eqn:K.
  - destruct (s_cold sl); intros [= <- <- _].
    + rewrite st_push, st_put, Z.eqb_refl. eexists _, _. split; [reflexivity|].
      cbn [a_storage acc_storage]. rewrite upd_same. split; reflexivity.
    + eauto.
  - intros [= <- <- _]. rewrite st_push, st_put, Z.eqb_refl. eexists _, _. split; [reflexivity|].
    cbn [a_storage acc_storage]. rewrite upd_same. split; reflexivity.
Qed.

Lemma Good_sstore d s a k new s' o p c : WF d s -> sstore d s a k new = Some (s', o, p, c) -> Good d s s'.
Proof.
  intros W. unfold sstore. destruct (sload d s a k) as [[[s1 present] cold]|] eqn:L; [|discriminate].
  pose proof (Good_sload d s a k s1 present cold W L) as G1.
  destruct (sload_slot _ _ _ _ _ _ _ L) as (acc & sl & E & K & P).
  rewrite E, K. destruct (present =? new) eqn:Q; [intros [= <- _ _ _]; exact G1|].
  intros [= <- _ _ _]. eapply Good_trans; [exact G1|].
  rewrite <- push_put.
  eapply (Good_one d s1 a acc _ (acc_storage acc (upd (a_storage acc) k (Some (mkSlot (s_orig sl) present (s_cold sl))))));
    [exact E| |reflexivity| |].
  - cbn [a_storage acc_storage]. intros x. apply upd_some_dom.
  - cbn [undo]. rewrite st_push, st_put, Z.eqb_refl. cbn [a_storage acc_storage]. rewrite upd_same.
    cbn [s_orig s_cold]. rewrite upd_upd. reflexivity.
  - unfold view_of_acc. cbn. f_equal. rewrite slot_view_upd. cbn.
    extensionality x. unfold upd. destruct (x =? k) eqn:X; [|reflexivity].
    apply Z.eqb_eq in X. subst. unfold slot_view. rewrite K. reflexivity.
Qed.

Lemma WF_sstore d s a k new s' o p c : WF d s -> sstore d s a k new = Some (s', o, p, c) -> WF d s'.
Proof.
  intros W. unfold sstore. destruct (sload d s a k) as [[[s1 present] cold]|] eqn:L; [|discriminate].
  pose proof (WF_sload d s a k s1 present cold W L) as W1.
  destruct (st s1 a) as [acc|] eqn:E; [|discriminate].
  destruct (a_storage acc k) as [sl|]; [|discriminate].
  destruct (present =? new); intros [= <- _ _ _]; [exact W1|].
  rewrite <- push_put. apply WF_push, WF_put_storage; auto.
Qed.

(* ------------------------------------------------------------------ tstore *)
Lemma Good_ts_push d s a k new :
  journal s <> [] -> Good d s (push (set_ts s (upd2 (ts s) a k new)) (TransientStorageChange a k (ts s a k))).
Proof.
  intros N. exists [TransientStorageChange a k (ts s a k)]. split.
  { unfold push. cbn [journal set_ts]. destruct (journal s); reflexivity. }
  split.
  { cbn [undo_list undo]. eexists. split; [reflexivity|]. apply cview_ext.
    - intros x. cbn [cview_of cv_acc]. unfold view_acc. cbn [st set_ts spurious warm_pre].
      rewrite st_push, spur_push, wp_push. reflexivity.
    - cbn [cview_of cv_ts ts set_ts]. rewrite ts_push. cbn [ts set_ts].
      extensionality x. extensionality y. unfold upd2.
      destruct ((x =? a) && (y =? k)) eqn:Q; [|reflexivity].
      apply andb_true_iff in Q. destruct Q as [Q1 Q2]. apply Z.eqb_eq in Q1, Q2. subst. reflexivity. }
  split.
  { split; intros x; unfold has_acc, has_slot; rewrite st_push; auto. }
  split; [unfold push; destruct (journal (set_ts s _)); reflexivity|].
  split; [unfold push; destruct (journal (set_ts s _)); reflexivity|].
  unfold same_cfg. rewrite spur_push, wp_push. unfold push. destruct (journal (set_ts s _)); repeat split.
Qed.

Lemma Good_tstore d s a k new : journal s <> [] -> Good d s (tstore s a k new).
Proof.
  intros N. unfold tstore.
  assert (Same : forall v, ts s a k = v -> Good d s (set_ts s (upd2 (ts s) a k v))).
  { intros v Hv. replace (set_ts s (upd2 (ts s) a k v)) with s; [apply Good_refl; exact N|].
    destruct s. unfold set_ts. cbn in *. f_equal. extensionality x. extensionality y. unfold upd2.
    destruct ((x =? a) && (y =? k)) eqn:Q; [|reflexivity].
    apply andb_true_iff in Q. destruct Q as [Q1 Q2]. apply Z.eqb_eq in Q1, Q2. subst. reflexivity. }
  destruct (new =? 0) eqn:Z0.
  - apply Z.eqb_eq in Z0. subst. destruct (ts s a k =? 0) eqn:P.
    + apply Z.eqb_eq in P. apply Same. exact P.
    + apply Good_ts_push. exact N.
  - destruct (ts s a k =? new) eqn:P.
    + apply Z.eqb_eq in P. apply Same. exact P.
    + apply Good_ts_push. exact N.
Qed.

Lemma WF_set_ts d s f : WF d s -> WF d (set_ts s f).
Proof. intros (A & B & C). exact (conj A (conj B C)). Qed.
Lemma WF_tstore d s a k new : WF d s -> WF d (tstore s a k new).
Proof.
  intros W. unfold tstore.
  destruct (new =? 0); destruct (_ =? _); try apply WF_push; apply WF_set_ts; exact W.
Qed.
