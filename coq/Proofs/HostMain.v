(* C06 main theorem: create_account_checkpoint, one history step, all histories. *)
From Coq Require Import FunctionalExtensionality.
From RevmV Require Import Base.Word Model.Host Proofs.HostView Proofs.HostUndo Proofs.HostGood
  Proofs.HostOps Proofs.HostOps2 Proofs.HostOps3 Proofs.HostOps4 Proofs.HostRevert.
Local Open Scope Z_scope.

(* the contract under which revm calls the journaled-state operations *)
Definition hop_ok (d : db) (s : jstate) (o : hop) : Prop :=
  match o with
  | HSetCode a c => exists acc, st s a = Some acc /\ a_code acc = 0
  | HTransfer f t v => 0 <= v
  | HCreate c a hs v =>
      0 <= v /\ c <> a /\ (hs = false -> forall k, db_storage d a k = 0) /\
      (forall acc, st s a = Some acc -> a_created acc = true ->
                   a_nonce acc <> 0 \/ a_code acc <> 0 \/ hs = true)
  | _ => True
  end.

Fixpoint contract (d : db) (sc : jstate * list checkpoint_t) (h : list hop) : Prop :=
  match h with
  | [] => True
  | o :: r => hop_ok d (fst sc) o /\
              match run_hop d sc o with Some sc' => contract d sc' r | None => True end
  end.

Lemma WF_checkpoint d s : WF d s -> WF d (fst (checkpoint s)).
Proof. intros (A & B & C). split; [exact A|]. split; [exact B|]. cbn. congruence. Qed.

Lemma acc5_eq (spur : bool) acc v :
  (if spur then acc_nonce (acc_bal (acc_touched (acc_created acc true) true) v) 1
   else acc_bal (acc_touched (acc_created acc true) true) v)
  = acc_bal (acc_touched (acc_nonce (acc_created acc true) (if spur then 1 else a_nonce acc)) true) v.
Proof. destruct spur; destruct acc; reflexivity. Qed.
Lemma acc5_eq' (spur : bool) acc v :
  (if spur then acc_nonce (acc_bal (acc_created acc true) v) 1 else acc_bal (acc_created acc true) v)
  = acc_bal (acc_nonce (acc_created acc true) (if spur then 1 else a_nonce acc)) v.
Proof. destruct spur; destruct acc; reflexivity. Qed.

Lemma create_spec d s c a hs v s' r :
  WF d s -> hop_ok d s (HCreate c a hs v) ->
  create_account_checkpoint s c a hs v (spurious s) = Some (s', r) ->
  exists sB, Good d (fst (checkpoint s)) sB /\ WF d sB /\
    match r with
    | CreateOk cp' => cp' = snd (checkpoint s) /\ s' = sB
    | _ => checkpoint_revert sB (snd (checkpoint s)) = Some s'
    end.
Proof.
  intros W (Hv & Nca & Hz & Hcr). unfold create_account_checkpoint.
  pose proof (WF_checkpoint d s W) as W1.
  destruct (checkpoint s) as [s1 cp] eqn:CP. cbn [fst snd] in *.
  assert (N1 : journal s1 <> []) by (apply W1).
  assert (Sp : spurious s1 = spurious s) by (unfold checkpoint in CP; injection CP as <- _; reflexivity).
  assert (St1 : st s1 = st s) by (unfold checkpoint in CP; injection CP as <- _; reflexivity).
  destruct (st s1 a) as [acc|] eqn:Ea; [|discriminate].
  destruct (negb (a_code acc =? 0) || negb (a_nonce acc =? 0) || hs) eqn:Col.
  - destruct (checkpoint_revert s1 cp) as [s2|] eqn:R; [|discriminate]. intros [= <- <-].
    exists s1. split; [apply Good_refl; exact N1|]. split; [exact W1|exact R].
  - apply orb_false_iff in Col. destruct Col as [Col Hs]. apply orb_false_iff in Col.
    destruct Col as [Cc Cn]. apply negb_false_iff, Z.eqb_eq in Cc, Cn. subst hs.
    assert (Cr : a_created acc = false).
    { destruct (a_created acc) eqn:Q; [|reflexivity]. rewrite St1 in Ea.
      destruct (Hcr acc Ea Q) as [H|[H|H]]; congruence. }
    (* the reordered pipeline: nonce written together with the created flag *)
    set (n1 := if spurious s then 1 else a_nonce acc).
    set (accN := acc_nonce (acc_created acc true) n1).
    set (s2n := push (put s1 a accN) (AccountCreated a)).
    assert (G2 : Good d s1 s2n).
    { eapply (Good_one d s1 a acc accN (acc_nonce (acc_created accN false) 0)); [exact Ea|auto|reflexivity| |].
      - unfold s2n. cbn [undo]. rewrite st_push, st_put, Z.eqb_refl. reflexivity.
      - unfold view_of_acc. cbn. rewrite Cr, Cn. reflexivity. }
    assert (W2 : WF d s2n).
    { apply WF_push. destruct W1 as (A & B & C). split; [|split; [|exact C]].
      - apply WFb_put; [exact A|]. cbn. destruct A as [A _]. eapply A; eauto.
      - intros x ac. rewrite st_put. destruct (x =? a) eqn:X; [|apply B].
        apply Z.eqb_eq in X. subst. intros _ _. apply Hz. reflexivity. }
    assert (E2n : st s2n a = Some accN) by (unfold s2n; rewrite st_push, st_put, Z.eqb_refl; reflexivity).
    pose proof (Good_touch_account d s2n a accN (proj2 (proj2 W2)) E2n) as G3.
    pose proof (WF_touch_account d s2n a accN W2 E2n) as W3.
    set (s3n := touch_account s2n a accN) in *.
    (* model states *)
    set (s2 := push (put s1 a (acc_created acc true)) (AccountCreated a)).
    assert (E2 : st s2 a = Some (acc_created acc true)) by (unfold s2; rewrite st_push, st_put, Z.eqb_refl; reflexivity).
    rewrite E2.
    set (s3 := touch_account s2 a (acc_created acc true)).
    destruct (st s3 a) as [acc3|] eqn:E3; [|discriminate].
    assert (B3 : a_bal acc3 = a_bal acc).
    { unfold s3 in E3. rewrite touch_account_st, Z.eqb_refl in E3.
      destruct (negb (a_touched (acc_created acc true))); cbn in E3.
      - injection E3 as <-. reflexivity.
      - rewrite E2 in E3. injection E3 as <-. reflexivity. }
    assert (Ra : in_u256 (a_bal acc)) by (destruct W1 as [[A _] _]; eapply A; eauto).
    destruct (pow256 <=? a_bal acc3 + v) eqn:Ov.
    + (* OverflowPayment: reverted at once *)
      destruct (checkpoint_revert s3 cp) as [s4|] eqn:R; [|discriminate]. intros [= <- <-].
      exists s3. split; [|split; [|exact R]].
      * eapply Good_trans.
        -- eapply (Good_one d s1 a acc (acc_created acc true) (acc_nonce (acc_created (acc_created acc true) false) 0) (AccountCreated a));
             [exact Ea|auto|reflexivity| |].
           ++ try unfold s2. cbn [undo]. rewrite st_push, st_put, Z.eqb_refl. reflexivity.
           ++ unfold view_of_acc. cbn. rewrite Cr, Cn. reflexivity.
        -- apply Good_touch_account; [|exact E2]. unfold s2, push. destruct (journal (put s1 a _)); cbn; congruence.
      * apply WF_touch_account; [|exact E2]. apply WF_push.
        destruct W1 as (A & B & C). split; [|split; [|exact C]].
        -- apply WFb_put; [exact A|]. cbn. exact Ra.
        -- intros x ac. rewrite st_put. destruct (x =? a) eqn:X; [|apply B].
           apply Z.eqb_eq in X. subst. intros _ _. apply Hz. reflexivity.
    + apply Z.leb_gt in Ov. rewrite B3 in Ov.
      set (acc5 := if spurious s then acc_nonce (acc_bal acc3 (a_bal acc3 + v)) 1 else acc_bal acc3 (a_bal acc3 + v)).
      (* s5 of the model equals the reordered s5n *)
      assert (E3n : exists acc3n, st s3n a = Some acc3n /\
                    put s3 a acc5 = put s3n a (acc_bal acc3n (a_bal acc3n + v)) /\ a_bal acc3n = a_bal acc).
      { unfold s3, s3n, touch_account in *. cbn [a_touched accN acc_nonce acc_created] in *.
        destruct (a_touched acc) eqn:T.
        - exists accN. split; [exact E2n|]. rewrite E2 in E3. injection E3 as <-. split; [|reflexivity].
          unfold s2, s2n. rewrite !push_put, !put_put_same. f_equal.
          unfold acc5. apply acc5_eq'.
        - rewrite st_put, Z.eqb_refl in E3. injection E3 as <-.
          eexists. split; [rewrite st_put, Z.eqb_refl; reflexivity|]. split; [|reflexivity].
          unfold s2, s2n. rewrite !push_put, !put_put_same. f_equal.
          unfold acc5, accN. cbn [a_bal acc_touched acc_created acc_nonce acc_bal]. apply acc5_eq. }
      destruct E3n as (acc3n & E3n & Eq5 & B3n).
      fold acc5. rewrite Eq5.
      rewrite st_put, (eqb_ne c a Nca).
      destruct (st s3n c) as [cacc|] eqn:Ec; [|discriminate]. intros [= <- <-].
      eexists. split; [|split; [|split; reflexivity]].
      * eapply Good_trans; [exact G2|]. eapply Good_trans; [exact G3|].
        rewrite (put_put_comm s3n a c) by congruence.
        apply Good_xfer_ne; auto.
        -- apply wrap_wrap_sub_add. destruct W3 as [[A _] _]. eapply A; eauto.
        -- rewrite B3n. apply wrap_add_sub. exact Ra.
      * apply WF_push. eapply WF_put_bal; [|rewrite st_put, (eqb_ne c a Nca); exact Ec|cbn; apply wrap256_range|cbn; auto].
        eapply WF_put_bal; [exact W3|exact E3n|cbn; rewrite B3n; unfold in_u256 in *; lia|cbn; auto].
Qed.

(* ------------------------------------------------------------------ one step of a history *)
Lemma Inv_WF d s0 s cps : Inv d s0 s cps -> WF d s.
Proof. intros (top & _ & _ & _ & _ & _ & W & _). exact W. Qed.

Lemma Inv_hop d s0 s cps o s' cps' :
  Inv d s0 s cps -> hop_ok d s o -> run_hop d (s, cps) o = Some (s', cps') -> Inv d s0 s' cps'.
Proof.
  intros I Hok. pose proof (Inv_WF _ _ _ _ I) as W. pose proof (proj2 (proj2 W)) as N.
  destruct o; cbn [run_hop hop_ok] in *.
  - intros [= <- <-]. eapply Inv_good; [exact I|apply Good_load; exact N|apply WF_load; exact W].
  - destruct (load_account_delegated d s a) as [[[s1 c] e] dc] eqn:L. intros [= <- <-].
    eapply Inv_good; [exact I|eapply Good_load_delegated; eauto|eapply WF_load_delegated; eauto].
  - intros [= <- <-]. eapply Inv_good; [exact I|apply Good_touch; exact N|apply WF_touch; exact W].
  - destruct (inc_nonce s a) as [[s1 r]|] eqn:L; [|discriminate]. intros [= <- <-].
    eapply Inv_good; [exact I|eapply Good_inc_nonce; eauto|eapply WF_inc_nonce; eauto].
  - destruct (set_code s a c) as [s1|] eqn:L; [|discriminate]. intros [= <- <-].
    destruct Hok as (acc & Ea & Ec).
    eapply Inv_good; [exact I|eapply Good_set_code; eauto|eapply WF_set_code; eauto].
  - destruct (transfer d s f t v) as [[s1 r]|] eqn:L; [|discriminate]. intros [= <- <-].
    destruct (Good_transfer d s f t v s1 r W Hok L) as [G W'].
    eapply Inv_good; eauto.
  - destruct (create_account_checkpoint s caller addr has_storage v (spurious s)) as [[s1 r]|] eqn:L; [|discriminate].
    destruct (create_spec d s caller addr has_storage v s1 r W Hok L) as (sB & G & WB & R).
    pose proof (Inv_checkpoint d s0 s cps I) as I1.
    pose proof (Inv_good d s0 _ sB _ I1 G WB) as I2.
    destruct r as [cp'| |].
    + destruct R as [-> ->]. intros [= <- <-]. exact I2.
    + destruct (Inv_revert d s0 sB _ cps I2) as (s2 & R2 & I3). rewrite R in R2. injection R2 as <-.
      intros [= <- <-]. exact I3.
    + destruct (Inv_revert d s0 sB _ cps I2) as (s2 & R2 & I3). rewrite R in R2. injection R2 as <-.
      intros [= <- <-]. exact I3.
  - destruct (sload d s a k) as [[[s1 v] c]|] eqn:L; [|discriminate]. intros [= <- <-].
    eapply Inv_good; [exact I|eapply Good_sload; eauto|eapply WF_sload; eauto].
  - destruct (sstore d s a k v) as [[[[s1 o] p] c]|] eqn:L; [|discriminate]. intros [= <- <-].
    eapply Inv_good; [exact I|eapply Good_sstore; eauto|eapply WF_sstore; eauto].
  - intros [= <- <-]. exact I.
  - intros [= <- <-]. eapply Inv_good; [exact I|apply Good_tstore; exact N|apply WF_tstore; exact W].
  - intros [= <- <-]. apply Inv_log. exact I.
  - destruct (selfdestruct d s a t) as [[[[[s1 hv] te] pd] c]|] eqn:L; [|discriminate]. intros [= <- <-].
    destruct (Good_selfdestruct d s a t s1 hv te pd c W L) as [G W'].
    eapply Inv_good; eauto.
  - pose proof (Inv_checkpoint d s0 s cps I) as I1. destruct (checkpoint s) as [s1 cp].
    intros [= <- <-]. exact I1.
  - destruct cps as [|cp r]; intros [= <- <-]; [exact I|]. eapply Inv_commit; eauto.
  - destruct cps as [|cp r]; [intros [= <- <-]; exact I|].
    destruct (Inv_revert d s0 s cp r I) as (s2 & R2 & I3). rewrite R2. intros [= <- <-]. exact I3.
Qed.

Lemma Inv_hops d s0 h : forall s cps s' cps',
  Inv d s0 s cps -> contract d (s, cps) h -> run_hops d (s, cps) h = Some (s', cps') -> Inv d s0 s' cps'.
Proof.
  induction h as [|o r IH]; intros s cps s' cps' I C R; cbn [run_hops contract] in *.
  - injection R as <- <-. exact I.
  - destruct C as [Hok C]. cbn [fst] in Hok.
    destruct (run_hop d (s, cps) o) as [[s1 cps1]|] eqn:E; [|discriminate].
    eapply IH; [eapply Inv_hop; eauto|exact C|exact R].
Qed.

(* depth bookkeeping: depth = depth at the outer checkpoint + 1 + number of open checkpoints *)
Lemma Good_depth d s s' : Good d s s' -> depth s' = depth s.
Proof. intros (E & _ & _ & _ & _ & D & _). exact D. Qed.

Lemma revert_depth s cp s' : checkpoint_revert s cp = Some s' -> depth s' = depth s - 1.
Proof.
  unfold checkpoint_revert. destruct (undo_list _ _ s); [|discriminate]. intros [= <-]. reflexivity.
Qed.

Lemma depth_hop d s0 s cps o s' cps' :
  Inv d s0 s cps -> hop_ok d s o -> run_hop d (s, cps) o = Some (s', cps') ->
  depth s = depth s0 + 1 + Z.of_nat (length cps) -> depth s' = depth s0 + 1 + Z.of_nat (length cps').
Proof.
  intros I Hok. pose proof (Inv_WF _ _ _ _ I) as W. pose proof (proj2 (proj2 W)) as N.
  destruct o; cbn [run_hop hop_ok] in *.
  - intros [= <- <-] D. rewrite (Good_depth d s _ (Good_load d s a N)). exact D.
  - destruct (load_account_delegated d s a) as [[[s1 c] e] dc] eqn:L. intros [= <- <-] D.
    rewrite (Good_depth d s s1); [exact D|eapply Good_load_delegated; eauto].
  - intros [= <- <-] D. rewrite (Good_depth d s _ (Good_touch d s a N)). exact D.
  - destruct (inc_nonce s a) as [[s1 r]|] eqn:L; [|discriminate]. intros [= <- <-] D.
    rewrite (Good_depth d s s1); [exact D|eapply Good_inc_nonce; eauto].
  - destruct (set_code s a c) as [s1|] eqn:L; [|discriminate]. intros [= <- <-] D.
    destruct Hok as (acc & Ea & Ec). rewrite (Good_depth d s s1); [exact D|eapply Good_set_code; eauto].
  - destruct (transfer d s f t v) as [[s1 r]|] eqn:L; [|discriminate]. intros [= <- <-] D.
    destruct (Good_transfer d s f t v s1 r W Hok L) as [G _]. rewrite (Good_depth d s s1 G). exact D.
  - destruct (create_account_checkpoint s caller addr has_storage v (spurious s)) as [[s1 r]|] eqn:L; [|discriminate].
    destruct (create_spec d s caller addr has_storage v s1 r W Hok L) as (sB & G & WB & R).
    pose proof (Good_depth _ _ _ G) as DB. cbn [checkpoint fst depth set_journal set_depth] in DB.
    destruct r as [cp'| |].
    + destruct R as [-> ->]. intros [= <- <-] D. cbn [length]. rewrite DB. lia.
    + intros [= <- <-] D. rewrite (revert_depth _ _ _ R), DB. lia.
    + intros [= <- <-] D. rewrite (revert_depth _ _ _ R), DB. lia.
  - destruct (sload d s a k) as [[[s1 v] c]|] eqn:L; [|discriminate]. intros [= <- <-] D.
    rewrite (Good_depth d s s1); [exact D|eapply Good_sload; eauto].
  - destruct (sstore d s a k v) as [[[[s1 o] p] c]|] eqn:L; [|discriminate]. intros [= <- <-] D.
    rewrite (Good_depth d s s1); [exact D|eapply Good_sstore; eauto].
  - intros [= <- <-] D. exact D.
  - intros [= <- <-] D. rewrite (Good_depth d s _ (Good_tstore d s a k v N)). exact D.
  - intros [= <- <-] D. exact D.
  - destruct (selfdestruct d s a t) as [[[[[s1 hv] te] pd] c]|] eqn:L; [|discriminate]. intros [= <- <-] D.
    destruct (Good_selfdestruct d s a t s1 hv te pd c W L) as [G _]. rewrite (Good_depth d s s1 G). exact D.
  - intros [= <- <-] D. cbn [depth set_journal set_depth length]. lia.
  - destruct cps as [|cp r]; intros [= <- <-] D; [exact D|]. cbn [checkpoint_commit depth set_depth length] in *. lia.
  - destruct cps as [|cp r]; [intros [= <- <-] D; exact D|].
    destruct (checkpoint_revert s cp) as [s2|] eqn:R; [|discriminate]. intros [= <- <-] D.
    rewrite (revert_depth _ _ _ R). cbn [length] in D. lia.
Qed.

Lemma depth_hops d s0 h : forall s cps s' cps',
  Inv d s0 s cps -> contract d (s, cps) h -> run_hops d (s, cps) h = Some (s', cps') ->
  depth s = depth s0 + 1 + Z.of_nat (length cps) -> depth s' = depth s0 + 1 + Z.of_nat (length cps').
Proof.
  induction h as [|o r IH]; intros s cps s' cps' I C R D; cbn [run_hops contract] in *.
  - injection R as <- <-. exact D.
  - destruct C as [Hok C]. cbn [fst] in Hok.
    destruct (run_hop d (s, cps) o) as [[s1 cps1]|] eqn:E; [|discriminate].
    eapply IH; [eapply Inv_hop; eauto|exact C|exact R|eapply depth_hop; eauto].
Qed.

(* ------------------------------------------------------------------ the theorem *)
Theorem revert_restores d s h s1 cp s2 cps :
  WF d s -> checkpoint s = (s1, cp) -> contract d (s1, []) h -> run_hops d (s1, []) h = Some (s2, cps) ->
  exists s3, checkpoint_revert s2 cp = Some s3 /\
    cview_of d s3 = cview_of d s /\ logs s3 = logs s /\ journal s3 = journal s /\
    depth s3 = depth s + Z.of_nat (length cps) /\
    spurious s3 = spurious s /\ cancun s3 = cancun s /\ warm_pre s3 = warm_pre s.
Proof.
  intros W CP C R.
  assert (I0 : Inv d s s1 []).
  { unfold checkpoint in CP. injection CP as <- _. exists [[]].
    split; [congruence|]. split; [reflexivity|]. split; [exists (set_journal (set_depth s (depth s + 1)) ([] :: journal s)); split; reflexivity|].
    split; [exists []; cbn; rewrite app_nil_r; reflexivity|]. split; [repeat split|].
    split; [|constructor]. destruct W as (A & B & N). split; [exact A|]. split; [exact B|cbn; congruence]. }
  pose proof (Inv_hops d s h s1 [] s2 cps I0 C R) as (top & N & J & (u & U & V) & (ex & L) & (c1 & c2 & c3) & W2 & F).
  assert (D2 : depth s2 = depth s + 1 + Z.of_nat (length cps)).
  { eapply (depth_hops d s h s1 [] s2 cps I0 C R). unfold checkpoint in CP. injection CP as <- _. cbn. lia. }
  assert (Hcp : cp = mkCp (length (logs s)) (length (journal s))) by (unfold checkpoint in CP; congruence).
  subst cp. unfold checkpoint_revert. cbn [journal_i log_i].
  assert (Hn : (length (journal s2) - length (journal s))%nat = length top) by (rewrite J, app_length; lia).
  rewrite Hn.
  assert (Hf : firstn (length top) (journal s2) = top) by (rewrite J, firstn_app_le by lia; apply firstn_all).
  assert (Hk : skipn (length top) (journal s2) = journal s) by (rewrite J, skipn_app_le by lia; rewrite skipn_all; reflexivity).
  rewrite Hf, Hk, c1, U.
  eexists. split; [reflexivity|].
  destruct (undo_list_frame _ _ _ _ U) as (f1 & f2 & f3 & f4 & f5 & f6 & _ & _).
  split; [exact V|]. cbn [logs journal depth spurious cancun warm_pre set_journal set_logs set_depth].
  split; [rewrite L, firstn_app, firstn_all2 by lia; replace (length (logs s) - length (logs s))%nat with 0%nat by lia; cbn; apply app_nil_r|].
  split; [reflexivity|].
  split; [lia|]. repeat split; congruence.
Qed.
