(* C17 clause 1: the reverts apply_transitions_and_create_reverts records for a merge group, read
   as plain reverts and applied by the specification apply_plain_revert, take the plain state after
   the group back to the plain state before it - for every TransOK history and every grouping.
   Built on the per-cell analysis of Proofs/BundleProofsAcct.v. *)
From stdpp Require Import gmap.
From Coq Require Import ZArith Lia.
From RevmV Require Import Model.Bundle Spec.BundleSpec Spec.BundleHist Proofs.BundleProofs
  Proofs.BundleProofsBase Proofs.BundleProofsAcct Proofs.BundleProofsLift.
Local Open Scope Z_scope.

(* what a (possibly absent) account revert says about one address *)
Definition orv_acc (r : option arevert) (cur : option info) : option info :=
  match r with
  | Some rv => match r_acc rv with RevertTo i => Some (strip i) | DeleteIt => None | DoNothing => cur end
  | None => cur
  end.
Definition orv_slot (r : option arevert) (p0v curv : Z) (k : Z) : Z :=
  match r with
  | None => curv
  | Some rv =>
      match r_storage rv !! k with
      | None => if r_wipe rv then p0v else curv
      | Some (RSome v) => v
      | Some RDestroyed => if r_wipe rv then p0v else 0
      end
  end.

Lemma orv_acc_filter rv cur : orv_acc (filter_empty (Some rv)) cur = orv_acc (Some rv) cur.
Proof.
  unfold filter_empty, ar_is_empty. destruct rv as [ir ps st w]; cbn [r_acc r_storage r_wipe].
  destruct ir; try reflexivity. destruct (map_is_empty ps && negb w); reflexivity.
Qed.
Lemma orv_slot_filter rv p0v curv k :
  orv_slot (filter_empty (Some rv)) p0v curv k = orv_slot (Some rv) p0v curv k.
Proof.
  unfold filter_empty, ar_is_empty. destruct rv as [ir ps st w]; cbn [r_acc r_storage r_wipe].
  destruct ir; try reflexivity.
  destruct (map_is_empty ps) eqn:E; destruct w; try reflexivity.
  apply map_is_empty_true in E. subst ps. cbn [andb negb orv_slot r_storage r_wipe].
  rewrite lookup_empty. reflexivity.
Qed.

Lemma default_stor_get p a k : default 0 (default ∅ (p_stor p !! a) !! k) = stor_get p a k.
Proof. unfold stor_get. destruct (p_stor p !! a); simpl; [reflexivity|]. rewrite lookup_empty. reflexivity. Qed.

(* one group of plain reverts applied by the specification, address by address *)
Lemma plain_revert_acc p0 (g : gmap Z arevert) cur a :
  acc_get (apply_plain_revert p0 (mkPR (omap pr_account_of g) (omap pr_storage_of g)) cur) a
  = orv_acc (g !! a) (acc_get cur a).
Proof.
  unfold acc_get, apply_plain_revert; cbn [p_acc pr_accounts].
  rewrite lookup_merge, lookup_fmap, lookup_omap, diag_None_l by reflexivity.
  destruct (g !! a) as [rv|]; cbn; [|reflexivity].
  unfold pr_account_of. destruct (r_acc rv); reflexivity.
Qed.
Lemma plain_revert_stor p0 (g : gmap Z arevert) cur a k :
  stor_get (apply_plain_revert p0 (mkPR (omap pr_account_of g) (omap pr_storage_of g)) cur) a k
  = orv_slot (g !! a) (stor_get p0 a k) (stor_get cur a k) k.
Proof.
  unfold stor_get at 1. unfold apply_plain_revert; cbn [p_stor pr_storage].
  rewrite lookup_merge, map_lookup_imap, lookup_omap, diag_None_l by reflexivity.
  destruct (g !! a) as [rv|]; cbn [mbind option_bind orv_slot]; [|reflexivity].
  unfold pr_storage_of.
  destruct (r_wipe rv) eqn:Ew; cbn [orb].
  - cbn. rewrite lookup_merge, diag_None_l by reflexivity. rewrite <- (default_stor_get p0 a k).
    destruct (r_storage rv !! k) as [[v|]|]; reflexivity.
  - destruct (map_is_empty (r_storage rv)) eqn:Ee; cbn.
    + apply map_is_empty_true in Ee. rewrite Ee, lookup_empty. reflexivity.
    + rewrite lookup_merge, diag_None_l by reflexivity. rewrite <- (default_stor_get cur a k).
      destruct (r_storage rv !! k) as [[v|]|]; reflexivity.
Qed.
(* ---- slot shapes of the reverts update_and_create_revert builds *)
Lemma slot_prev p1 p2 a (T : gmap Z slot) ir st p0v k :
  (forall k, stor_get p2 a k = match T !! k with Some s => s_pres s | None => stor_get p1 a k end) ->
  (forall k s, T !! k = Some s -> s_orig s = stor_get p1 a k) ->
  orv_slot (Some (mkAR ir (previous_storage_from_update T) st false)) p0v (stor_get p2 a k) k
  = stor_get p1 a k.
Proof.
  intros H2 Ho. cbn [orv_slot r_storage r_wipe]. unfold previous_storage_from_update.
  rewrite lookup_omap. specialize (H2 k).
  destruct (T !! k) as [s|] eqn:E; cbn [mbind option_bind].
  - destruct (is_changed s) eqn:Ec.
    + apply (Ho _ _ E).
    + unfold is_changed in Ec. apply negb_false_iff, Z.eqb_eq in Ec.
      rewrite H2, <- Ec. apply (Ho _ _ E).
  - exact H2.
Qed.

Lemma slot_sd_wipe p1 a (B : gmap Z slot) ir st p0v curv k :
  stor_get p1 a k = match B !! k with Some s => s_pres s | None => p0v end ->
  orv_slot (Some (mkAR ir ((fun s => RSome (s_pres s)) <$> B) st true)) p0v curv k = stor_get p1 a k.
Proof.
  intros H1. cbn [orv_slot r_storage r_wipe]. rewrite lookup_fmap, H1.
  destruct (B !! k); reflexivity.
Qed.

Lemma slot_sd_again_wipe p1 a (B T : gmap Z slot) ir st p0v curv k :
  stor_get p1 a k = match B !! k with Some s => s_pres s | None => p0v end ->
  orv_slot (Some (mkAR ir (merge sd_again_slot B T) st true)) p0v curv k = stor_get p1 a k.
Proof.
  intros H1. cbn [orv_slot r_storage r_wipe]. rewrite lookup_merge, H1.
  destruct (B !! k), (T !! k); reflexivity.
Qed.

Lemma slot_sd_again_nowipe p1 a (X T : gmap Z slot) ir st p0v curv k :
  stor_get p1 a k = match X !! k with Some s => s_pres s | None => 0 end ->
  (X !! k = None -> T !! k = None -> curv = 0) ->
  orv_slot (Some (mkAR ir (merge sd_again_slot X T) st false)) p0v curv k = stor_get p1 a k.
Proof.
  intros H1 H2. cbn [orv_slot r_storage r_wipe]. rewrite lookup_merge, H1.
  destruct (X !! k), (T !! k); try reflexivity. apply H2; reflexivity.
Qed.

(* ---- account shapes *)
Lemma acc_info_revert p1 p2 a bi ti ps st w :
  strip <$> bi = acc_get p1 a -> strip <$> ti = acc_get p2 a -> bi <> None ->
  orv_acc (Some (mkAR (if negb (oinfo_eqb bi ti) then RevertTo (default info_default bi) else DoNothing)
                      ps st w)) (acc_get p2 a) = acc_get p1 a.
Proof.
  intros Hb Ht Hn. cbn [orv_acc r_acc]. destruct (oinfo_eqb bi ti) eqn:E; cbn [negb].
  - apply oinfo_eqb_strip in E. congruence.
  - destruct bi; [|congruence]. rewrite <- Hb. reflexivity.
Qed.
Lemma acc_revert_to p1 a bi ps st w cur :
  strip <$> bi = acc_get p1 a -> bi <> None ->
  orv_acc (Some (mkAR (RevertTo (default info_default bi)) ps st w)) cur = acc_get p1 a.
Proof. intros Hb Hn. cbn [orv_acc r_acc]. destruct bi; [|congruence]. rewrite <- Hb. reflexivity. Qed.
(* the revert update_and_create_revert records takes the state after the group back to the state
   before it, on the address it belongs to *)
Lemma ucr_revert p0 p1 p2 a b t b' r :
  strip <$> b_info b = acc_get p1 a ->
  (forall k, stor_get p1 a k = slot_view b p0 a k) ->
  b_status b = t_pstatus t ->
  mt_ok p1 p2 a t ->
  (is_gone (t_pstatus t) = true <-> acc_get p1 a = None) ->
  (acc_get p1 a = None -> forall k, stor_get p1 a k = 0) ->
  update_and_create_revert b t = Some (b', r) ->
  orv_acc r (acc_get p2 a) = acc_get p1 a
  /\ forall k, orv_slot r (stor_get p0 a k) (stor_get p2 a k) k = stor_get p1 a k.
Proof.
  intros Hbi Hsv Hst [Mp Mi Mr Mg Mw1 Mw2 Ms Mo] Hg Hz Hu.
  destruct b as [bi boi B bs], t as [ti ts tpi tps T w].
  unfold slot_view in Hsv.
  cbn [b_info b_oinfo b_storage b_status t_info t_status t_pinfo t_pstatus t_storage t_wiped] in *.
  subst bs.
  assert (Hnn : is_gone tps = false -> bi <> None).
  { intros Hf ->. simpl in Hbi. symmetry in Hbi. apply Hg in Hbi. congruence. }
  assert (Hzz : is_gone tps = true -> forall k, stor_get p1 a k = 0) by (intros H; apply Hz, Hg, H).
  assert (Hnone1 : is_gone tps = true -> acc_get p1 a = None) by apply Hg.
  assert (Heff : (w = true -> is_gone tps = true) ->
     (forall k, stor_get p2 a k = match T !! k with Some s => s_pres s | None => stor_get p1 a k end) /\
     (forall k s, T !! k = Some s -> s_orig s = stor_get p1 a k)).
  { intros Hw. destruct w.
    - specialize (Hzz (Hw eq_refl)). split.
      + intros k. rewrite Ms, Hzz. reflexivity.
      + intros k s Hk. rewrite (Mo _ _ Hk), Hzz. reflexivity.
    - split; [exact Ms | exact Mo]. }
  assert (Hgone2 : ti = None -> forall k, stor_get p2 a k = 0).
  { intros ->. destruct Mg as (_ & -> & ->). intros k. rewrite Ms, lookup_empty. reflexivity. }
  clear Hg Hz Mp.
  destruct tps, ts; try discriminate Mr; destruct w;
    try (specialize (Mw1 eq_refl); discriminate Mw1);
    try (specialize (Mw2 eq_refl eq_refl); discriminate Mw2);
    ucr_red Hu;
    apply (f_equal (fun o : option (bacc * option arevert) => match o with Some x => snd x | None => None end)) in Hu;
    cbv beta iota delta [snd] in Hu; subst r; try rewrite orv_acc_filter;
    (split; [| intros k; try rewrite orv_slot_filter]).
  all: try (first
    [ apply acc_info_revert; [exact Hbi | exact Mi | apply Hnn; reflexivity]
    | apply acc_revert_to; [exact Hbi | apply Hnn; reflexivity]
    | cbn [orv_acc r_acc]; symmetry; apply Hnone1; reflexivity
    | cbn [orv_acc]; rewrite Hnone1 by reflexivity; destruct ti; [discriminate Mg|];
      rewrite <- Mi; reflexivity ]; fail).
  all: try (first
    [ let E := fresh "E" in
      assert (E : (forall k, stor_get p2 a k = match T !! k with Some s => s_pres s | None => stor_get p1 a k end) /\
                  (forall k s, T !! k = Some s -> s_orig s = stor_get p1 a k))
        by (apply Heff; first [intros _; reflexivity | intros H; discriminate H]);
      destruct E as [E1 E2]; apply slot_prev; assumption
    | apply slot_sd_wipe; apply Hsv
    | apply slot_sd_again_wipe; apply Hsv
    | apply slot_sd_again_nowipe; [apply Hsv | intros _ HT; rewrite Ms, HT; reflexivity]
    | apply slot_sd_again_nowipe;
        [apply Hsv | intros _ _; apply Hgone2; destruct ti; [discriminate Mg | reflexivity]]
    | apply slot_sd_again_nowipe;
        [rewrite lookup_empty; apply Hzz; reflexivity
        | intros _ HT; rewrite Ms, HT; first [reflexivity | apply Hzz; reflexivity]]
    | cbn [orv_slot]; rewrite (Hzz eq_refl); apply Hgone2; destruct ti; [discriminate Mg | reflexivity] ]; fail).
Qed.
(* the same for the per-address step of apply_transitions_and_create_reverts (known or unknown
   address) *)
Lemma acct_revert p0 p1 p2 a ob t ob' r :
  acct_inv2 p0 p1 a (t_pstatus t) ob -> mt_ok p1 p2 a t ->
  (is_gone (t_pstatus t) = true <-> acc_get p1 a = None) ->
  (acc_get p1 a = None -> forall k, stor_get p1 a k = 0) ->
  acct_apply ob t = Some (ob', r) ->
  orv_acc r (acc_get p2 a) = acc_get p1 a
  /\ forall k, orv_slot r (stor_get p0 a k) (stor_get p2 a k) k = stor_get p1 a k.
Proof.
  intros Hinv Hm Hg Hz Ha. destruct ob as [b|]; unfold acct_apply in Ha.
  - destruct Hinv as (Hi & _ & Hs & _ & Hst & _).
    destruct (update_and_create_revert b t) as [[b1 r1]|] eqn:Hu; [|discriminate].
    injection Ha as _ <-. apply (ucr_revert p0 p1 p2 a b t b1 r1); assumption.
  - destruct Hinv as (Hacc & Hk & Hn).
    destruct (update_and_create_revert (original_bundle_account t) t) as [[b1 r1]|] eqn:Hu; [|discriminate].
    assert (Hr : r = r1) by (destruct r1; injection Ha as _ <-; reflexivity).
    subst r. apply (ucr_revert p0 p1 p2 a (original_bundle_account t) t b1 r1); try assumption.
    + exact (mt_pinfo _ _ _ _ Hm).
    + intros k. unfold slot_view, original_bundle_account; cbn [b_storage b_status].
      rewrite lookup_empty. destruct (was_destroyed (t_pstatus t)) eqn:Ed; [|apply Hk].
      apply Hz, Hg. destruct (t_pstatus t); try discriminate Ed; try reflexivity. congruence.
    + reflexivity.
Qed.

Definition rev_proj (x : option (option bacc * option arevert)) : option arevert :=
  match x with Some (_, Some ar) => Some ar | _ => None end.

Lemma apply_pointwise_rev b p0 h1 h2 (m : gmap Z tacc) a :
  hinv h1 -> binv b p0 h1 -> ginv h1 h2 m ->
  let r := diag_None apply_merge (bs_state b !! a) (m !! a) ≫= rev_proj in
  orv_acc r (acc_get (h_plain h2) a) = acc_get (h_plain h1) a
  /\ forall k, orv_slot r (stor_get p0 a k) (stor_get (h_plain h2) a k) k = stor_get (h_plain h1) a k.
Proof.
  intros Hh Hb Hg. specialize (Hb a). specialize (Hg a). unfold ginv, tstate in *.
  destruct (m !! a) as [t|] eqn:Em.
  - destruct Hg as (Hm & Hp & Hs).
    rewrite <- Hp in Hb.
    assert (Hgone : is_gone (t_pstatus t) = true <-> acc_get (h_plain h1) a = None)
      by (rewrite Hp; apply status_at_gone, Hh).
    assert (Hz : acc_get (h_plain h1) a = None -> forall k, stor_get (h_plain h1) a k = 0)
      by (intros H k; apply (proj1 Hh), H).
    destruct (acct_step _ _ _ _ _ _ Hb Hm Hgone Hz) as (ob' & r & Ha & _).
    assert (E : diag_None apply_merge (bs_state b !! a) (Some t) = Some (Some (ob', r)))
      by (destruct (bs_state b !! a); cbn [diag_None apply_merge]; rewrite Ha; reflexivity).
    rewrite E. cbn [mbind option_bind rev_proj].
    assert (E2 : match r with Some ar => Some ar | None => None end = r) by (destruct r; reflexivity).
    rewrite E2. apply (acct_revert p0 (h_plain h1) (h_plain h2) a (bs_state b !! a) t ob' r); assumption.
  - destruct Hg as (Ha & Hk & Hs).
    assert (E : diag_None apply_merge (bs_state b !! a) None ≫= rev_proj = None)
      by (destruct (bs_state b !! a); reflexivity).
    rewrite E. cbn [orv_acc orv_slot]. split; [exact Ha | exact Hk].
Qed.

(* one group: the recorded reverts, read as plain reverts, take the state after the group back to
   the state before it *)
Lemma revert_group b p0 h1 h2 m b' :
  hinv h1 -> binv b p0 h1 -> ginv h1 h2 m ->
  apply_transitions_and_create_reverts b m true = Some b' ->
  exists g, bs_reverts b' = bs_reverts b ++ [g] /\
    plain_equiv (apply_plain_revert p0 (mkPR (omap pr_account_of g) (omap pr_storage_of g)) (h_plain h2))
                (h_plain h1).
Proof.
  intros Hh Hb Hg Ha. unfold apply_transitions_and_create_reverts, tstate in *.
  destruct (bool_decide _); [|discriminate]. injection Ha as <-. cbn [bs_reverts].
  eexists. split; [reflexivity|].
  split.
  - intros a. rewrite plain_revert_acc, lookup_omap, lookup_merge.
    apply (apply_pointwise_rev b p0 h1 h2 m a Hh Hb Hg).
  - intros a k. rewrite plain_revert_stor, lookup_omap, lookup_merge.
    apply (apply_pointwise_rev b p0 h1 h2 m a Hh Hb Hg).
Qed.
(* the whole history: the k-th recorded revert group takes the state after k+1 groups back to
   the state after k groups *)
Lemma rev_history p0 groups : forall b h b',
  hinv h -> binv b p0 h -> hist_ok h (flat groups) = true ->
  bundle_from true b groups = Some b' ->
  exists revs, bs_reverts b' = bs_reverts b ++ revs /\
    forall k g, nth_error revs k = Some g ->
      plain_equiv (apply_plain_revert p0 (mkPR (omap pr_account_of g) (omap pr_storage_of g))
                     (h_plain (hist_run h (flat (firstn (S k) groups)))))
                  (h_plain (hist_run h (flat (firstn k groups)))).
Proof.
  induction groups as [|g gs IH]; intros b h b' Hh Hb Hok Hbf.
  - injection Hbf as <-. exists []. split; [rewrite app_nil_r; reflexivity|].
    intros k g Hk. destruct k; discriminate.
  - rewrite flat_cons, hist_ok_app in Hok. apply andb_true_iff in Hok as [Hg Hr].
    destruct (ginv_group h g Hh Hg) as (Hh' & Hgi).
    destruct (binv_group b p0 h _ _ true Hh Hb Hgi) as (b1 & Hb1 & Hbi).
    rewrite bundle_from_cons, Hb1 in Hbf.
    destruct (revert_group b p0 h _ _ b1 Hh Hb Hgi Hb1) as (g0 & Hrev & Heq).
    destruct (IH b1 _ b' Hh' Hbi Hr Hbf) as (revs & Hrevs & Hnth).
    exists (g0 :: revs). split.
    + rewrite Hrevs, Hrev, <- app_assoc. reflexivity.
    + intros k g1 Hk. destruct k as [|k]; cbn [nth_error] in Hk.
      * injection Hk as <-. cbn [firstn]. rewrite flat_cons.
        assert (E : flat [] = []) by reflexivity. rewrite E, app_nil_r. exact Heq.
      * specialize (Hnth k g1 Hk).
        change (firstn (S (S k)) (g :: gs)) with (g :: firstn (S k) gs).
        change (firstn (S k) (g :: gs)) with (g :: firstn k gs).
        rewrite !flat_cons, !hist_run_app. exact Hnth.
Qed.

Theorem reverts_correct p0 groups b k r :
  HistOK p0 groups -> bundle_of true groups = Some b ->
  nth_error (to_plain_state_reverts (bs_reverts b)) k = Some r ->
  plain_equiv (apply_plain_revert p0 r (plain_after p0 (firstn (S k) groups)))
              (plain_after p0 (firstn k groups)).
Proof.
  intros (Hw & Hn & Hok) Hb Hk. apply plain_nocode_nocode in Hn.
  destruct (rev_history p0 groups bundle_empty (h0 p0) b (hinv_h0 _ Hw Hn) (binv_empty p0) Hok Hb)
    as (revs & Hrevs & Hnth).
  cbn [bundle_empty bs_reverts app] in Hrevs. rewrite Hrevs in Hk.
  unfold to_plain_state_reverts in Hk. rewrite nth_error_map in Hk.
  destruct (nth_error revs k) as [g|] eqn:Eg; [|discriminate]. injection Hk as <-.
  apply (Hnth _ _ Eg).
Qed.
