(* Proofs about the validation model (Model/EofValidate.v). *)
From RevmV Require Import Model.Eof Model.EofValidate Proofs.EofProofs.
From Coq Require Import ZArith List Lia Bool.
Import ListNotations.
Local Open Scope Z_scope.

(* ---- acceptance implies the decode-level facts ---- *)
Lemma validate_eof_codes_top e k cts :
  validate_eof_codes e k = VOk cts ->
  len (code_section (body e)) = len (types_section (body e)) /\
  1 <= len (code_section (body e)) /\
  (exists t0, nth_z (types_section (body e)) 0 = Some t0 /\ inputs t0 = 0 /\ outputs t0 = 128).
Proof.
  unfold validate_eof_codes. intros H.
  destruct (len (code_section (body e)) =? len (types_section (body e))) eqn:E1; cbn [negb] in H; [|discriminate].
  destruct (len (code_section (body e)) =? 0) eqn:E0; [discriminate|].
  destruct (nth_z (types_section (body e)) 0) as [t0|] eqn:Et; cbn [vidx vbind] in H; [|discriminate].
  destruct (inputs t0 =? 0) eqn:Ei; cbn [negb orb] in H; [|discriminate].
  unfold is_non_returning in H. destruct (outputs t0 =? 128) eqn:Eo; cbn [negb] in H; [|discriminate].
  apply Z.eqb_eq in E1, Ei, Eo. apply Z.eqb_neq in E0. pose proof (len_nonneg (code_section (body e))).
  repeat split; try lia. exists t0. auto.
Qed.

Theorem validate_accept_facts bs k :
  bytes_ok bs -> validate_raw_eof_inner_r bs k = VOk tt ->
  len bs <= MAX_INITCODE_SIZE /\
  exists e, decode bs = Ok e /\ is_data_filled (body e) = true /\
    len (code_section (body e)) = len (types_section (body e)) /\
    1 <= len (code_section (body e)) <= 1024 /\ len (container_section (body e)) <= 256 /\
    (exists t0, nth_z (types_section (body e)) 0 = Some t0 /\ inputs t0 = 0 /\ outputs t0 = 128).
Proof.
  intros Hb H. unfold validate_raw_eof_inner_r in H.
  destruct (Z.gtb_spec (len bs) MAX_INITCODE_SIZE) as [|Hl]; [discriminate|].
  split; [assumption|].
  destruct (decode bs) as [e| |] eqn:Ed; try discriminate.
  exists e. split; [reflexivity|].
  pose proof (decode_section_counts bs e Hb Ed) as (C1 & C2 & C3 & _).
  unfold validate_eof_inner in H.
  destruct (is_data_filled (body e)) eqn:Ef; cbn [negb] in H; [|discriminate].
  split; [reflexivity|].
  assert (T : exists cts, validate_eof_codes e k = VOk cts).
  { destruct (len (container_section (body e)) =? 0).
    - destruct (validate_eof_codes e k) as [cts| | |]; cbn [vbind] in H; try discriminate. eauto.
    - cbn [containers_loop] in H.
      destruct (validate_eof_codes e k) as [cts| | |]; cbn [vbind] in H; try discriminate. eauto. }
  destruct T as (cts & T). apply validate_eof_codes_top in T. destruct T as (T1 & T2 & T3).
  repeat split; try lia. exact T3.
Qed.

(* ---- the instruction walk of validate_eof_code ---- *)
Definition next_pc (code : bytes) (i : Z) : option Z :=
  match get code i with
  | None => None
  | Some op =>
    match op_info op with
    | None => None
    | Some o =>
      if op =? OP_RJUMPV then
        match get code (i + 1) with Some mx => Some (i + 1 + op_imm o + (mx + 1) * 2) | None => None end
      else Some (i + 1 + op_imm o)
    end
  end.

Definition operand_ok (code : bytes) (ntypes ncont : Z) (i : Z) : Prop :=
  forall op, get code i = Some op ->
   ((op = OP_CALLF \/ op = OP_JUMPF) -> exists x, read_u16_at code (i + 1) = VOk x /\ 0 <= x < ntypes) /\
   ((op = OP_EOFCREATE \/ op = OP_RETURNCONTRACT) -> exists x, get code (i + 1) = Some x /\ x < ncont).

Lemma op_table_imm_nonneg :
  forallb (fun x => match x with Some (_, _, m, _, _) => 0 <=? m | None => true end) eof_op_table = true.
Proof. vm_compute. reflexivity. Qed.

Lemma op_info_imm_nonneg op o : op_info op = Some o -> 0 <= op_imm o.
Proof.
  unfold op_info. destruct (nth_error eof_op_table (Z.to_nat op)) as [[[[[[i oo] m] ne] t]|]|] eqn:E; try discriminate.
  intros H. inversion H. subst o. cbn [op_imm].
  pose proof op_table_imm_nonneg as F. rewrite forallb_forall in F.
  specialize (F _ (nth_error_In _ _ E)). cbn in F. apply Z.leb_le in F. exact F.
Qed.

Lemma nth_z_lt {A} (l : list A) i x : nth_z l i = Some x -> 0 <= i < len l.
Proof.
  unfold nth_z. destruct (Z.leb_spec 0 i) as [Hi|Hi]; [|discriminate]. intros Hn.
  assert (Hs : nth_error l (Z.to_nat i) <> None) by congruence.
  apply nth_error_Some in Hs. unfold len. lia.
Qed.

Lemma read_u16_nonneg code i x : bytes_ok code -> read_u16_at code i = VOk x -> 0 <= x.
Proof.
  intros Hb. unfold read_u16_at.
  destruct (get code i) as [h|] eqn:Eh; cbn [vidx vbind]; [|discriminate].
  destruct (get code (i + 1)) as [l|] eqn:El; cbn [vidx vbind]; [|discriminate].
  intros H. inversion H. apply get_in in Eh, El. unfold bytes_ok in Hb. rewrite Forall_forall in Hb.
  pose proof (Hb _ Eh). pose proof (Hb _ El). lia.
Qed.

Ltac vstep H :=
  match type of H with
  | vbind ?r _ = VOk _ => let E := fresh "E" in destruct r eqn:E; cbn [vbind] in H; try discriminate H
  end.

Ltac fin :=
  repeat split; try lia; try (f_equal; lia);
  try (intros _; assumption);
  try (intros _; match goal with X : exists _, _ /\ _ |- _ =>
         let xx := fresh in let X1 := fresh in let X2 := fresh in
         destruct X as (xx & X1 & X2); exists xx; split; [congruence|lia] end);
  try (intros [?|?]; unfold OP_RJUMPV, OP_CALLF, OP_JUMPF, OP_EOFCREATE, OP_RETURNCONTRACT in *; lia).

Ltac vstepn H x Ex :=
  match type of H with
  | vbind ?r _ = VOk _ => destruct r as [x| | |] eqn:Ex; cbn [vbind] in H; try discriminate H
  end.
Ltac ifd H := match type of H with context [if ?c then _ else _] => destruct c eqn:?; try discriminate H end.
(* the common tail of [step]: stack check, jump processing, new state *)
Ltac tail H := cbv beta iota in H; ifd H; vstep H; inversion H; cbn [l_i].

Lemma step_facts code ds tt ncont types s s' :
  bytes_ok code ->
  step code ds tt ncont types s = VOk s' ->
  next_pc code (l_i s) = Some (l_i s') /\ l_i s < l_i s' /\ operand_ok code (len types) ncont (l_i s).
Proof.
  intros Hb H. unfold step in H.
  destruct (get code (l_i s)) as [op|] eqn:Eop; cbn [vidx vbind] in H; [|discriminate].
  destruct (op_info op) as [o|] eqn:Eo; [|discriminate].
  pose proof (op_info_imm_nonneg _ _ Eo) as Himm.
  destruct (op_not_eof o); [discriminate|].
  destruct (nth_z (l_jumps s) (l_i s)) as [ti0|] eqn:Eti; cbn [vidx vbind] in H; [|discriminate].
  destruct (l_after_term s && negb _); [discriminate|].
  vstep H.
  unfold next_pc, operand_ok. rewrite Eop, Eo.
  enough (G : (if op =? OP_RJUMPV
               then match get code (l_i s + 1) with
                    | Some mx => Some (l_i s + 1 + op_imm o + (mx + 1) * 2)
                    | None => None end
               else Some (l_i s + 1 + op_imm o)) = Some (l_i s') /\ l_i s < l_i s' /\
              ((op = OP_CALLF \/ op = OP_JUMPF) ->
               exists x, read_u16_at code (l_i s + 1) = VOk x /\ 0 <= x < len types) /\
              ((op = OP_EOFCREATE \/ op = OP_RETURNCONTRACT) ->
               exists x, get code (l_i s + 1) = Some x /\ x < ncont)).
  { destruct G as (G1 & G2 & G3 & G4). split; [exact G1|]. split; [exact G2|].
    intros op0 E'. inversion E'. subst op0. split; assumption. }
  (* the opcode dispatch *)
  destruct ((op =? OP_RJUMP) || (op =? OP_RJUMPI)) eqn:B1; cbv beta iota in H.
  { vstepn H m Em. vstep Em. inversion Em. subst m. clear Em. tail H.
    assert (op <> OP_RJUMPV /\ op <> OP_CALLF /\ op <> OP_JUMPF /\ op <> OP_EOFCREATE /\ op <> OP_RETURNCONTRACT)
      as (N1 & N2 & N3 & N4 & N5)
      by (apply orb_true_iff in B1; rewrite !Z.eqb_eq in B1; unfold OP_RJUMP, OP_RJUMPI, OP_RJUMPV, OP_CALLF, OP_JUMPF, OP_EOFCREATE, OP_RETURNCONTRACT in *; lia).
    apply Z.eqb_neq in N1. rewrite N1. fin. }
  apply orb_false_iff in B1. destruct B1 as (B1a & B1b).
  destruct (op =? OP_RJUMPV) eqn:B2; cbv beta iota in H |- *.
  { vstepn H m Em. destruct (get code (l_i s + 1)) as [mx|] eqn:Emx; cbn [vidx vbind] in Em; [|discriminate].
    ifd Em. vstep Em. vstep Em. inversion Em. subst m. clear Em. tail H.
    apply Z.eqb_eq in B2.
    assert (0 <= mx). { apply get_in in Emx. unfold bytes_ok in Hb. rewrite Forall_forall in Hb. apply Hb in Emx. lia. }
    fin. }
  destruct (op =? OP_CALLF) eqn:B3; cbv beta iota in H.
  { apply Z.eqb_eq in B3. vstepn H m Em. vstepn Em sec Esec.
    destruct (nth_z types sec) as [tgt|] eqn:Et; [|discriminate].
    assert (X : exists x, read_u16_at code (l_i s + 1) = VOk x /\ 0 <= x < len types)
      by (exists sec; split; [assumption|apply nth_z_lt in Et; lia]).
    clear Et.
    ifd Em. vstep Em. ifd Em.
    inversion Em. subst m. clear Em. tail H. fin. }
  destruct (op =? OP_JUMPF) eqn:B4; cbv beta iota in H.
  { apply Z.eqb_eq in B4. vstepn H m Em. vstepn Em sec Esec.
    destruct (nth_z types sec) as [tgt|] eqn:Et; [|discriminate].
    assert (X : exists x, read_u16_at code (l_i s + 1) = VOk x /\ 0 <= x < len types)
      by (exists sec; split; [assumption|apply nth_z_lt in Et; lia]).
    clear Et.
    ifd Em. vstep Em.
    destruct (is_non_returning tgt).
    - inversion Em. subst m. clear Em. tail H. fin.
    - ifd Em. ifd Em. ifd Em.
      inversion Em. subst m. clear Em. tail H. fin. }
  destruct (op =? OP_EOFCREATE) eqn:B5; cbv beta iota in H.
  { apply Z.eqb_eq in B5. vstepn H m Em.
    destruct (get code (l_i s + 1)) as [x|] eqn:Ex; cbn [vidx vbind] in Em; [|discriminate].
    destruct (Z.geb_spec x ncont) as [|Hx]; [discriminate|].
    assert (X : exists x, get code (l_i s + 1) = Some x /\ x < ncont) by (exists x; auto).
    vstep Em. inversion Em. subst m. clear Em. tail H. fin. }
  destruct (op =? OP_RETURNCONTRACT) eqn:B6; cbv beta iota in H.
  { apply Z.eqb_eq in B6. vstepn H m Em.
    destruct (get code (l_i s + 1)) as [x|] eqn:Ex; cbn [vidx vbind] in Em; [|discriminate].
    destruct (Z.geb_spec x ncont) as [|Hx]; [discriminate|].
    assert (X : exists x, get code (l_i s + 1) = Some x /\ x < ncont) by (exists x; auto).
    destruct (get_or_insert_differs _ _) as [tr d]. destruct d; [discriminate|].
    vstep Em. inversion Em. subst m. clear Em. tail H. fin. }
  (* all remaining opcodes: no additional immediates, no operand obligations *)
  apply Z.eqb_neq in B3, B4, B5, B6.
  assert (R : l_i s' = l_i s + 1 + op_imm o).
  { vstepn H m Em.
    repeat (first [ ifd Em | vstep Em
                  | match type of Em with context [let '(_, _) := ?p in _] => destruct p end ]);
    inversion Em; subst m; clear Em; tail H; lia. }
  rewrite R. repeat split; try lia; try (intros [?|?]; congruence).
Qed.

(* From position i the section splits into whole instructions up to its end (positions advance
   by 1 + immediate size, RJUMPV with its table), and every instruction on the way has its
   section / sub-container operand in range. *)
Inductive walk_ok (code : bytes) (ntypes ncont : Z) : Z -> Prop :=
| walk_end i : len code <= i -> walk_ok code ntypes ncont i
| walk_step i j : i < len code -> next_pc code i = Some j -> i < j ->
    operand_ok code ntypes ncont i -> walk_ok code ntypes ncont j -> walk_ok code ntypes ncont i.

Lemma code_loop_walk code ds tt ncont types : bytes_ok code -> forall fuel s sf,
  code_loop fuel code ds tt ncont types s = VOk sf -> walk_ok code (len types) ncont (l_i s).
Proof.
  intros Hb. induction fuel as [|f IH]; intros s sf H; cbn [code_loop] in H;
    destruct (Z.ltb_spec (l_i s) (len code)) as [Hlt|Hge].
  - discriminate.
  - apply walk_end. lia.
  - destruct (step code ds tt ncont types s) as [s'| | |] eqn:Es; cbn [vbind] in H; try discriminate.
    destruct (step_facts _ _ _ _ _ _ _ Hb Es) as (N & L & O).
    eapply walk_step; eauto.
  - apply walk_end. lia.
Qed.

Theorem validate_eof_code_walk code ds idx ncont types tr tr' :
  bytes_ok code -> validate_eof_code code ds idx ncont types tr = VOk tr' ->
  walk_ok code (len types) ncont 0.
Proof.
  intros Hb H. unfold validate_eof_code in H.
  destruct (nth_z types idx) as [tt|]; cbn [vidx vbind] in H; [|discriminate].
  destruct (code_loop _ _ _ _ _ _ _) as [s| | |] eqn:El; cbn [vbind] in H; try discriminate.
  apply code_loop_walk in El; [|assumption]. exact El.
Qed.
