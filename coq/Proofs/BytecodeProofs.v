(* Proofs for C27: stored bytecode keeps its original bytes, length and hash; EIP-7702
   designators round-trip. *)
From RevmV Require Import Model.Bytecode.
Local Open Scope Z_scope.

Lemma bytes_eqb_eq a b : bytes_eqb a b = true <-> a = b.
Proof.
  revert b. induction a as [|x a IH]; intros [|y b]; cbn [bytes_eqb]; try (split; congruence).
  rewrite andb_true_iff, Z.eqb_eq, IH. split; [intros [-> ->]; reflexivity|intros [= -> ->]; tauto].
Qed.

Lemma bytes_eqb_refl a : bytes_eqb a a = true.
Proof. apply bytes_eqb_eq. reflexivity. Qed.

Lemma firstn_app_exact {A} (b p : list A) : firstn (length b) (b ++ p) = b.
Proof. induction b as [|x b IH]; [reflexivity|]. cbn. rewrite IH. reflexivity. Qed.

Lemma zlen_nil_inv {A} (l : list A) : zlen l = 0 -> l = [].
Proof. destruct l; [reflexivity|]. unfold zlen. cbn [length]. lia. Qed.

(* ---- accessors ---------------------------------------------------------------------------- *)
Lemma slice_eq_bytes bc : original_byte_slice bc = original_bytes bc.
Proof. destruct bc; reflexivity. Qed.

Lemma len_eq bc : bc_len bc = zlen (original_bytes bc).
Proof. unfold bc_len. rewrite slice_eq_bytes. reflexivity. Qed.

Lemma new_legacy_bytes b :
  original_bytes (new_legacy b) = b /\ original_byte_slice (new_legacy b) = b /\
  bc_len (new_legacy b) = zlen b.
Proof. repeat split. Qed.

(* jump analysis never changes the original bytes (for every variant) *)
Lemma to_analysed_original_bytes bc : original_bytes (to_analysed bc) = original_bytes bc.
Proof.
  destruct bc as [b|a|r|e]; try reflexivity.
  cbn [to_analysed original_bytes]. unfold la_original_bytes. cbn [la_original_len la_bytecode].
  unfold zlen. rewrite Nat2Z.id. apply firstn_app_exact.
Qed.

Lemma to_analysed_len bc : bc_len (to_analysed bc) = bc_len bc.
Proof. rewrite !len_eq, to_analysed_original_bytes. reflexivity. Qed.

Lemma to_analysed_bytes_padded b :
  bc_bytes (to_analysed (LegacyRaw b)) = b ++ repeat 0 33.
Proof. reflexivity. Qed.

Lemma to_analysed_execution_ready bc : is_execution_ready (to_analysed bc) = true.
Proof. destruct bc; reflexivity. Qed.

(* ---- hash --------------------------------------------------------------------------------- *)
Lemma keccak_empty_eq : KECCAK_EMPTY = keccak256 [].
Proof. vm_compute. reflexivity. Qed.

Lemma hash_slow_spec bc :
  hash_slow bc = if bc_len bc =? 0 then KECCAK_EMPTY else keccak256 (original_bytes bc).
Proof. unfold hash_slow, is_empty. rewrite slice_eq_bytes. reflexivity. Qed.

Lemma hash_slow_keccak bc : hash_slow bc = keccak256 (original_bytes bc).
Proof.
  rewrite hash_slow_spec. destruct (bc_len bc =? 0) eqn:E; [|reflexivity].
  apply Z.eqb_eq in E. rewrite len_eq in E. apply zlen_nil_inv in E. rewrite E.
  exact keccak_empty_eq.
Qed.

Lemma to_analysed_hash bc : hash_slow (to_analysed bc) = hash_slow bc.
Proof. rewrite !hash_slow_keccak, to_analysed_original_bytes. reflexivity. Qed.

(* ---- EIP-7702 ------------------------------------------------------------------------------ *)
Definition designator (a : list Z) : list Z := [0xef; 0x01; 0x00] ++ a.

Lemma eip7702_new_raw_bytes a : eip7702_raw (eip7702_new a) = designator a.
Proof. reflexivity. Qed.

Lemma eip7702_new_len a : length a = 20%nat -> zlen (eip7702_raw (eip7702_new a)) = 23.
Proof. intros H. unfold zlen. cbn. rewrite H. reflexivity. Qed.

Lemma eip7702_new_address a : eip7702_address (eip7702_new a) = a.
Proof. reflexivity. Qed.

Lemma eip7702_roundtrip a :
  length a = 20%nat -> eip7702_new_raw (eip7702_raw (eip7702_new a)) = inl (eip7702_new a).
Proof.
  intros H. unfold eip7702_new_raw. rewrite (eip7702_new_len a H). cbn [Z.eqb negb].
  change (zlen _ =? 23) with true. reflexivity.
Qed.

Lemma starts_with_magic raw :
  starts_with raw EIP7702_MAGIC_BYTES = true <-> exists r, raw = 0xef :: 0x01 :: r.
Proof.
  unfold starts_with, EIP7702_MAGIC_BYTES. split.
  - destruct raw as [|b0 [|b1 r]]; try (cbn; discriminate).
    intros H. apply andb_true_iff in H. destruct H as [_ H].
    cbn [length firstn bytes_eqb] in H.
    apply andb_true_iff in H. destruct H as [H0 H]. apply andb_true_iff in H. destruct H as [H1 _].
    apply Z.eqb_eq in H0, H1. subst. eexists. reflexivity.
  - intros (r & ->). reflexivity.
Qed.

Lemma eip7702_new_raw_ok raw e :
  eip7702_new_raw raw = inl e <->
  exists a, length a = 20%nat /\ raw = designator a /\ e = eip7702_new a.
Proof.
  unfold eip7702_new_raw. split.
  - destruct (zlen raw =? 23) eqn:EL; cbn [negb]; [|discriminate].
    destruct (starts_with raw EIP7702_MAGIC_BYTES) eqn:EM; cbn [negb]; [|discriminate].
    destruct (nth 2 raw 0 =? EIP7702_VERSION) eqn:EV; cbn [negb]; [|discriminate].
    intros [= <-]. apply starts_with_magic in EM. destruct EM as (r & ->).
    destruct r as [|v a]; [discriminate|]. cbn [nth] in EV. apply Z.eqb_eq in EV. subst v.
    exists a. apply Z.eqb_eq in EL. unfold zlen in EL. cbn [length] in EL.
    split; [lia|]. split; reflexivity.
  - intros (a & Ha & -> & ->). change (designator a) with (eip7702_raw (eip7702_new a)).
    rewrite (eip7702_new_len a Ha). reflexivity.
Qed.

Lemma eip7702_new_raw_invalid_length raw :
  eip7702_new_raw raw = inr InvalidLength <-> zlen raw <> 23.
Proof.
  unfold eip7702_new_raw. destruct (zlen raw =? 23) eqn:EL; cbn [negb].
  - apply Z.eqb_eq in EL.
    destruct (starts_with _ _); cbn [negb]; [destruct (nth 2 raw 0 =? _); cbn [negb]|];
      split; try discriminate; intros; lia.
  - apply Z.eqb_neq in EL. tauto.
Qed.

Lemma eip7702_new_raw_invalid_magic raw :
  eip7702_new_raw raw = inr InvalidMagic <->
  zlen raw = 23 /\ starts_with raw EIP7702_MAGIC_BYTES = false.
Proof.
  unfold eip7702_new_raw. destruct (zlen raw =? 23) eqn:EL; cbn [negb].
  - apply Z.eqb_eq in EL.
    destruct (starts_with _ _); cbn [negb]; [destruct (nth 2 raw 0 =? _); cbn [negb]|];
      split; try discriminate; try tauto; intros [_ H]; discriminate.
  - apply Z.eqb_neq in EL. split; [discriminate|tauto].
Qed.

Lemma eip7702_new_raw_unsupported raw :
  eip7702_new_raw raw = inr UnsupportedVersion <->
  zlen raw = 23 /\ starts_with raw EIP7702_MAGIC_BYTES = true /\ nth 2 raw 0 <> 0.
Proof.
  unfold eip7702_new_raw, EIP7702_VERSION. destruct (zlen raw =? 23) eqn:EL; cbn [negb].
  - apply Z.eqb_eq in EL.
    destruct (starts_with _ _); cbn [negb].
    + destruct (nth 2 raw 0 =? 0) eqn:EV; cbn [negb].
      * apply Z.eqb_eq in EV. split; [discriminate|tauto].
      * apply Z.eqb_neq in EV. tauto.
    + split; [discriminate|]. intros (_ & H & _). discriminate.
  - apply Z.eqb_neq in EL. split; [discriminate|tauto].
Qed.

(* decoding keeps the 23 bytes and re-encoding the decoded address gives the same value *)
Lemma eip7702_decode_reencode raw e :
  eip7702_new_raw raw = inl e ->
  eip7702_raw e = raw /\ eip7702_new (eip7702_address e) = e /\
  eip7702_raw (eip7702_new (eip7702_address e)) = raw /\ length (eip7702_address e) = 20%nat.
Proof.
  intros H. apply eip7702_new_raw_ok in H. destruct H as (a & Ha & -> & ->).
  repeat split. exact Ha.
Qed.

(* ---- classification ------------------------------------------------------------------------ *)
Lemma prefix2_spec b p :
  prefix2 b = Some p -> forall m, length m = 2%nat -> (bytes_eqb p m = starts_with b m).
Proof.
  unfold prefix2, starts_with. destruct (2 <=? length b)%nat eqn:E; [|discriminate].
  intros [= <-] m Hm. rewrite Hm, E. reflexivity.
Qed.

Lemma prefix2_none b m : prefix2 b = None -> length m = 2%nat -> starts_with b m = false.
Proof.
  unfold prefix2, starts_with. destruct (2 <=? length b)%nat eqn:E; [discriminate|].
  intros _ ->. rewrite E. reflexivity.
Qed.

Lemma new_raw_checked_spec dec b :
  new_raw_checked dec b =
  if starts_with b EOF_MAGIC_BYTES then (if dec b then inl (Eof b) else inr ErrEof)
  else if starts_with b EIP7702_MAGIC_BYTES then
    match eip7702_new_raw b with inl e => inl (Eip7702 e) | inr err => inr (ErrEip7702 err) end
  else inl (LegacyRaw b).
Proof.
  unfold new_raw_checked. destruct (prefix2 b) as [p|] eqn:E.
  - rewrite (prefix2_spec b p E EOF_MAGIC_BYTES eq_refl),
            (prefix2_spec b p E EIP7702_MAGIC_BYTES eq_refl). reflexivity.
  - rewrite (prefix2_none b EOF_MAGIC_BYTES E eq_refl),
            (prefix2_none b EIP7702_MAGIC_BYTES E eq_refl). reflexivity.
Qed.

(* every value that is built reports exactly the input bytes and their length *)
Lemma new_raw_checked_keeps_bytes dec b bc :
  new_raw_checked dec b = inl bc ->
  original_bytes bc = b /\ original_byte_slice bc = b /\ bc_len bc = zlen b.
Proof.
  intros H. assert (Hb : original_bytes bc = b).
  { rewrite new_raw_checked_spec in H.
    destruct (starts_with b EOF_MAGIC_BYTES).
    - destruct (dec b); [|discriminate]. injection H as <-. reflexivity.
    - destruct (starts_with b EIP7702_MAGIC_BYTES).
      + destruct (eip7702_new_raw b) as [e|err] eqn:E; [|discriminate]. injection H as <-.
        apply eip7702_decode_reencode in E. apply E.
      + injection H as <-. reflexivity. }
  split; [exact Hb|]. split; [rewrite slice_eq_bytes; exact Hb|]. rewrite len_eq. f_equal. exact Hb.
Qed.

Lemma new_raw_checked_designator dec a :
  length a = 20%nat -> new_raw_checked dec (designator a) = inl (new_eip7702 a).
Proof.
  intros Ha. rewrite new_raw_checked_spec. cbn [starts_with].
  change (starts_with (designator a) EOF_MAGIC_BYTES) with false.
  change (starts_with (designator a) EIP7702_MAGIC_BYTES) with true. cbn iota.
  change (designator a) with (eip7702_raw (eip7702_new a)).
  rewrite (eip7702_roundtrip a Ha). reflexivity.
Qed.
