(* C06 lifted to the composed interpreter (create-free fragment): the execution of a frame is a
   history of journaled-state operations inside the C06 contract; a failed child frame restores
   the caller's view (Proofs/HostMain.v revert_restores applied to that history). *)
From RevmV Require Import Base.Word Model.Step Model.Evm Proofs.StepProofs Proofs.EvmProofs Proofs.EvmFrameProofs.
From RevmV Require Model.Frames Model.Host Proofs.HostView Proofs.HostOps Proofs.HostRevert Proofs.HostMain Proofs.FramesProofs.
Local Open Scope Z_scope.

Import Host.

(* ---------------------------------------------------------------- histories that are inside the C06 contract by their shape *)
Definition okhop (o : hop) : Prop :=
  match o with
  | HTransfer _ _ v => 0 <= v
  | HSetCode _ _ | HCreate _ _ _ _ => False
  | _ => True
  end.

Lemma okhops_contract d h : forall sc, Forall okhop h -> HostMain.contract d sc h.
Proof.
  induction h as [|o r IH]; intros sc HF; cbn [HostMain.contract]; [exact Logic.I|].
  inversion HF as [|? ? Ho Hr]; subst. split.
  - destruct o; cbn in *; auto; contradiction.
  - destruct (run_hop d sc o); [apply IH, Hr|exact Logic.I].
Qed.

(* well bracketed from height k, ending at height k': never closes a checkpoint it did not open *)
Fixpoint wbh (k : nat) (h : list hop) : option nat :=
  match h with
  | [] => Some k
  | HCheckpoint :: r => wbh (S k) r
  | (HCommit | HRevert) :: r => match k with O => None | S k' => wbh k' r end
  | HCreate _ _ _ _ :: _ => None
  | _ :: r => wbh k r
  end.

Lemma wbh_app h1 : forall k k1 h2, wbh k h1 = Some k1 -> wbh k (h1 ++ h2) = wbh k1 h2.
Proof.
  induction h1 as [|o r IH]; intros k k1 h2 E; cbn [app].
  - cbn in E. injection E as <-. reflexivity.
  - destruct o; cbn [wbh] in *; try (apply IH; exact E); try discriminate.
    + destruct k; [discriminate|]. apply IH; exact E.
    + destruct k; [discriminate|]. apply IH; exact E.
Qed.

(* the run of a well-bracketed history does not look below its own checkpoints *)
Lemma run_hops_base d base h : forall s cps s' cps' k',
  wbh (length cps) h = Some k' -> run_hops d (s, cps ++ base) h = Some (s', cps') ->
  exists cps1, cps' = cps1 ++ base /\ length cps1 = k' /\ run_hops d (s, cps) h = Some (s', cps1).
Proof.
  induction h as [|o r IH]; intros s cps s' cps' k' W E.
  - cbn in E, W. injection E as <- <-. injection W as <-. exists cps. auto.
  - cbn [run_hops] in E |- *.
    destruct o as [a|a|a|a|a c|f t v|c a hs v|a k|a k v|a k|a k v|l|a t| | | ]; cbn [wbh] in W; cbn [run_hop] in E |- *; try discriminate.
    + destruct (load_account d s a). cbn [fst] in *. eapply IH; eassumption.
    + destruct (load_account_delegated d s a) as [[[s1 x] y] z]. eapply IH; eassumption.
    + eapply IH; eassumption.
    + destruct (inc_nonce s a) as [[s1 x]|]; [|discriminate]. eapply IH; eassumption.
    + destruct (set_code s a c) as [s1|]; [|discriminate]. eapply IH; eassumption.
    + destruct (transfer d s f t v) as [[s1 x]|]; [|discriminate]. eapply IH; eassumption.
    + destruct (sload d s a k) as [[[s1 x] y]|]; [|discriminate]. eapply IH; eassumption.
    + destruct (sstore d s a k v) as [[[[s1 x] y] z]|]; [|discriminate]. eapply IH; eassumption.
    + eapply IH; eassumption.
    + eapply IH; eassumption.
    + eapply IH; eassumption.
    + destruct (selfdestruct d s a t) as [[[[[s1 x] y] z] w]|]; [|discriminate]. eapply IH; eassumption.
    + destruct (checkpoint s) as [s1 cp]. apply (IH s1 (cp :: cps)); assumption.
    + destruct cps as [|cp cps0]; [discriminate|]. cbn [app length] in *. apply (IH _ cps0); assumption.
    + destruct cps as [|cp cps0]; [discriminate|]. cbn [app length] in *.
      destruct (checkpoint_revert s cp); [|discriminate]. apply (IH _ cps0); assumption.
Qed.

(* ---------------------------------------------------------------- segments of a C06 history *)
(* sc' is reached from sc by journaled-state operations that are inside the C06 contract by
   their shape and that close exactly the checkpoints they open *)
Definition seg (d : db) (sc sc' : Fr.st_sc) : Prop :=
  exists h, Forall okhop h /\ wbh 0 h = Some 0%nat /\ run_hops d sc h = Some sc'.

Lemma seg_refl d sc : seg d sc sc.
Proof. exists []. repeat split; constructor. Qed.
Lemma seg_trans d sc1 sc2 sc3 : seg d sc1 sc2 -> seg d sc2 sc3 -> seg d sc1 sc3.
Proof.
  intros (h1 & A1 & B1 & C1) (h2 & A2 & B2 & C2). exists (h1 ++ h2). split; [apply Forall_app; auto|]. split.
  - rewrite (wbh_app h1 0 0 h2 B1). exact B2.
  - rewrite FramesProofs.run_hops_app, C1. exact C2.
Qed.
Lemma seg_one d sc sc' o :
  okhop o -> wbh 0 [o] = Some 0%nat -> run_hop d sc o = Some sc' -> seg d sc sc'.
Proof. intros A B C. exists [o]. split; [repeat constructor; exact A|]. split; [exact B|]. cbn [run_hops]. rewrite C. reflexivity. Qed.

Definition gseg (W : world) (G G' : gstate) : Prop :=
  g_codes G' = g_codes G /\ seg (gdb W G) (g_sc G) (g_sc G').
Lemma gseg_refl W G : gseg W G G. Proof. split; [reflexivity|apply seg_refl]. Qed.
Lemma gseg_trans W G1 G2 G3 : gseg W G1 G2 -> gseg W G2 G3 -> gseg W G1 G3.
Proof.
  intros [A B] [C D]. split; [congruence|]. eapply seg_trans; [exact B|].
  unfold gdb in *. rewrite A in D. exact D.
Qed.
(* a state change made by one plain host operation *)
Lemma gseg_set_s W G s o :
  okhop o -> wbh 0 [o] = Some 0%nat ->
  run_hop (gdb W G) (gs G, snd (g_sc G)) o = Some (s, snd (g_sc G)) -> gseg W G (set_s G s).
Proof.
  intros A B C. split; [reflexivity|]. cbn [set_s g_sc]. eapply seg_one; [exact A|exact B|].
  unfold gs in C. destruct (g_sc G); exact C.
Qed.

Lemma call_post_gseg W G F c I : gseg W G (fst (op_call_post W G F c I)).
Proof.
  unfold op_call_post. destruct (load_account_delegated _ _ _) as [[[s1 x] y] z] eqn:E. cbn [fst].
  apply (gseg_set_s W G s1 (HLoadDelegated (cp_to c))); [exact Logic.I|reflexivity|]. cbn [run_hop]. rewrite E. reflexivity.
Qed.

Lemma step_gseg W G F I : gseg W G (fst (step W G F I)).
Proof.
  unfold step. cbv zeta.
  repeat match goal with
  | |- gseg _ _ (fst (if ?b then _ else _)) => destruct b
  end; cbn [fst]; try apply gseg_refl.
  - unfold op_balance. destruct (i_stk I); [apply gseg_refl|].
    destruct (load_account _ _ _) as [s1 c] eqn:E. apply (gseg_set_s W G s1 (HLoad (addr_of_word z))); [exact Logic.I|reflexivity|].
    cbn [run_hop]. rewrite E. reflexivity.
  - unfold op_extcodesize, host_code, load_code. destruct (i_stk I); [apply gseg_refl|].
    destruct (load_account _ _ _) as [s1 c] eqn:E.
    assert (gseg W G (set_s G s1)).
    { apply (gseg_set_s W G s1 (HLoad (addr_of_word z))); [exact Logic.I|reflexivity|]. cbn [run_hop]. rewrite E. reflexivity. }
    destruct (code_bytes _ _); assumption.
  - unfold op_extcodecopy, host_code, load_code. destruct (i_stk I) as [|a [|b [|c [|dd r]]]]; try apply gseg_refl.
    destruct (load_account _ _ _) as [s1 cc] eqn:E.
    assert (gseg W G (set_s G s1)).
    { apply (gseg_set_s W G s1 (HLoad (addr_of_word a))); [exact Logic.I|reflexivity|]. cbn [run_hop]. rewrite E. reflexivity. }
    destruct (code_bytes _ _); assumption.
  - unfold op_extcodehash, load_code. destruct (i_stk I); [apply gseg_refl|].
    destruct (load_account _ _ _) as [s1 c] eqn:E. apply (gseg_set_s W G s1 (HLoad (addr_of_word z))); [exact Logic.I|reflexivity|].
    cbn [run_hop]. rewrite E. reflexivity.
  - unfold op_selfbalance. destruct (Gas.record_cost _ _) as [g' ok]. destruct ok; [|apply gseg_refl].
    destruct (load_account _ _ _) as [s1 c] eqn:E. apply (gseg_set_s W G s1 (HLoad (f_target F))); [exact Logic.I|reflexivity|].
    cbn [run_hop]. rewrite E. reflexivity.
  - unfold op_sload. destruct (i_stk I); [apply gseg_refl|].
    destruct (sload _ _ _ _) as [[[s1 v] c]|] eqn:E; [|apply gseg_refl].
    apply (gseg_set_s W G s1 (HSload (f_target F) z)); [exact Logic.I|reflexivity|]. cbn [run_hop]. rewrite E. reflexivity.
  - unfold op_sstore. destruct (f_static F); [apply gseg_refl|]. destruct (i_stk I) as [|k [|v r]]; try apply gseg_refl.
    destruct (sstore _ _ _ _ _) as [[[[s1 o] p] c]|] eqn:E; [|apply gseg_refl].
    apply (gseg_set_s W G s1 (HSstore (f_target F) k v)); [exact Logic.I|reflexivity|]. cbn [run_hop]. rewrite E. reflexivity.
  - unfold op_tstore. destruct (f_static F); [apply gseg_refl|]. destruct (Gas.record_cost _ _) as [g' ok]. destruct ok; cbn [negb]; [|apply gseg_refl].
    cbn [set_gas i_stk]. destruct (i_stk I) as [|k [|v r]]; try apply gseg_refl.
    apply (gseg_set_s W G _ (HTstore (f_target F) k v)); [exact Logic.I|reflexivity|reflexivity].
  - destruct (op_log F _ I); cbn [finish_pre fst]; try apply gseg_refl.
    + unfold do_log. split; [reflexivity|]. cbn [set_s g_sc fst snd].
      eapply (seg_one _ _ _ (HLog (g_nlog G))); [exact Logic.I|reflexivity|].
      unfold gs. destruct (g_sc G). reflexivity.
    + apply call_post_gseg.
  - destruct (op_call_pre F _ I); cbn [finish_pre fst]; try apply gseg_refl; [|apply call_post_gseg].
    unfold do_log. split; [reflexivity|]. cbn [set_s g_sc fst snd].
    eapply (seg_one _ _ _ (HLog (g_nlog G))); [exact Logic.I|reflexivity|]. unfold gs. destruct (g_sc G). reflexivity.
  - destruct (op_call_pre F _ I); cbn [finish_pre fst]; try apply gseg_refl; [|apply call_post_gseg].
    unfold do_log. split; [reflexivity|]. cbn [set_s g_sc fst snd].
    eapply (seg_one _ _ _ (HLog (g_nlog G))); [exact Logic.I|reflexivity|]. unfold gs. destruct (g_sc G). reflexivity.
  - destruct (op_call_pre F _ I); cbn [finish_pre fst]; try apply gseg_refl; [|apply call_post_gseg].
    unfold do_log. split; [reflexivity|]. cbn [set_s g_sc fst snd].
    eapply (seg_one _ _ _ (HLog (g_nlog G))); [exact Logic.I|reflexivity|]. unfold gs. destruct (g_sc G). reflexivity.
  - destruct (op_call_pre F _ I); cbn [finish_pre fst]; try apply gseg_refl; [|apply call_post_gseg].
    unfold do_log. split; [reflexivity|]. cbn [set_s g_sc fst snd].
    eapply (seg_one _ _ _ (HLog (g_nlog G))); [exact Logic.I|reflexivity|]. unfold gs. destruct (g_sc G). reflexivity.
  - unfold op_selfdestruct. destruct (f_static F); [apply gseg_refl|]. destruct (i_stk I); [apply gseg_refl|].
    destruct (selfdestruct _ _ _ _) as [[[[[s1 a] b] c] dd]|] eqn:E; [|apply gseg_refl].
    match goal with |- context [match ?o with Some _ => _ | None => _ end] => destruct o end; [|apply gseg_refl].
    apply (gseg_set_s W G s1 (HSelfdestruct (f_target F) (addr_of_word z))); [exact Logic.I|reflexivity|]. cbn [run_hop]. rewrite E. reflexivity.
Qed.

(* ---------------------------------------------------------------- make_call_frame as a history *)
Import Frames FramesProofs.

Definition fr_height (r : frame_or_result) : nat := match r with FFrame _ => 1%nat | FResult _ => 0%nat end.
Definition value_ok (ci : call_inputs) : Prop := match ci_value ci with Transfer v => 0 <= v | Apparent _ => True end.

Lemma call_hops_shape d s cps ci sc1 fr :
  make_call_frame d (s, cps) ci = Some (sc1, fr) -> value_ok ci ->
  Forall okhop (hops_of_call d s ci) /\ wbh 0 (hops_of_call d s ci) = Some (fr_height fr).
Proof.
  unfold make_call_frame, hops_of_call, value_ok.
  destruct (depth s >? CALL_STACK_LIMIT); [intros [= _ <-]; split; [constructor|reflexivity]|].
  destruct (load_account_delegated d s (ci_bytecode ci)) as [[[s1 c1] e1] dc1] eqn:L1.
  destruct (checkpoint s1) as [s2 cp] eqn:CP.
  assert (Tail : forall s3 sc'' r'',
    match (if ci_ext_delegate ci then None else ci_precompile ci) with
    | Some true => Some ((checkpoint_commit s3, cps), FResult (RPrecompile true))
    | Some false => match checkpoint_revert s3 cp with Some s4 => Some ((s4, cps), FResult (RPrecompile false)) | None => None end
    | None =>
        let '(s4, _) := load_code d s3 (ci_bytecode ci) in
        match st s4 (ci_bytecode ci) with
        | None => None
        | Some acc =>
            if ci_ext_delegate ci && negb (ci_code_is_eof ci) then
              match checkpoint_revert s4 cp with
              | Some s5 => Some ((s5, cps), FResult RInvalidExtDelegateCallTarget) | None => None end
            else if a_code acc =? 0 then Some ((checkpoint_commit s4, cps), FResult RStop)
            else Some ((match db_delegate d (a_code acc) with Some t => fst (load_code d s4 t) | None => s4 end,
                        cp :: cps), FFrame cp)
        end
    end = Some (sc'', r'') ->
    Forall okhop (call_tail d ci s3) /\ wbh 1 (call_tail d ci s3) = Some (fr_height r'')).
  { intros s3 sc'' r''. unfold call_tail. destruct (if ci_ext_delegate ci then None else ci_precompile ci) as [[|]|].
    - intros [= _ <-]. split; [repeat constructor|reflexivity].
    - destruct (checkpoint_revert s3 cp); [intros [= _ <-]; split; [repeat constructor|reflexivity]|discriminate].
    - unfold load_code. destruct (load_account d s3 (ci_bytecode ci)) as [s4 c4] eqn:L4.
      destruct (st s4 (ci_bytecode ci)) as [acc|]; [|discriminate].
      destruct (ci_ext_delegate ci && negb (ci_code_is_eof ci)).
      + destruct (checkpoint_revert s4 cp); [intros [= _ <-]; split; [repeat constructor|reflexivity]|discriminate].
      + destruct (a_code acc =? 0); [intros [= _ <-]; split; [repeat constructor|reflexivity]|].
        destruct (db_delegate d (a_code acc)); intros [= _ <-]; split; try reflexivity; repeat constructor. }
  destruct (ci_value ci) as [v|v].
  - destruct (v =? 0).
    + intros H _. destruct (Tail _ _ _ H) as [A B]. split.
      * repeat (constructor; [exact Logic.I|]). exact A.
      * cbn [app wbh]. exact B.
    + destruct (transfer d s2 (ci_caller ci) (ci_target ci) v) as [[s3 [| |]]|] eqn:T; [| | |discriminate].
      * intros H V. destruct (Tail _ _ _ H) as [A B]. split.
        -- constructor; [exact Logic.I|]. constructor; [exact Logic.I|]. constructor; [exact V|]. exact A.
        -- cbn [app wbh]. exact B.
      * destruct (checkpoint_revert s3 cp); [|discriminate]. intros [= _ <-] V. split; [repeat constructor; exact V|reflexivity].
      * destruct (checkpoint_revert s3 cp); [|discriminate]. intros [= _ <-] V. split; [repeat constructor; exact V|reflexivity].
  - intros H _. destruct (Tail _ _ _ H) as [A B]. split.
    + repeat (constructor; [exact Logic.I|]). exact A.
    + cbn [app wbh]. exact B.
Qed.

(* ---------------------------------------------------------------- the create-free interpreter *)
Definition BAD_CREATE := 4.
Fixpoint exec_nc (fuel : nat) (W : world) (G : gstate) (F : fctx) (I : istate) {struct fuel}
    : xres (gstate * iresult) :=
  match fuel with
  | O => XOutOfFuel
  | S f =>
      match step W G F I with
      | (G1, SNext I1) => exec_nc f W G1 F I1
      | (G1, SEnd r out I1) => XDone (G1, mkIR r out (i_gas I1))
      | (G1, SCall c I1) =>
          match do_call W (exec_nc f W) G1 c with
          | XDone (G2, r) =>
              match insert_call_outcome I1 c r with
              | Some I2 => exec_nc f W G2 F I2
              | None => XBad BAD_PANIC
              end
          | XOutOfFuel => XOutOfFuel
          | XBad k => XBad k
          end
      | (G1, SCreate c I1) => XBad BAD_CREATE
      | (G1, SBad k) => XBad k
      end
  end.

Definition rec_impl (r1 r2 : rec_t) : Prop := forall G F I x, r1 G F I = XDone x -> r2 G F I = XDone x.
Lemma do_call_impl W r1 r2 G c x : rec_impl r1 r2 -> do_call W r1 G c = XDone x -> do_call W r2 G c = XDone x.
Proof.
  intros HI. unfold do_call. destruct (Fr.make_call_frame _ _ _) as [[sc1 [r|cp]]|]; try (intros E; exact E).
  destruct (code_of_account _ _ _); [|intros E; exact E].
  match goal with |- context [r1 ?g ?f ?i] => destruct (r1 g f i) as [[G2 r]| |k] eqn:E1 end; try discriminate.
  rewrite (HI _ _ _ _ E1). intros E; exact E.
Qed.
(* whatever the create-free interpreter computes, the interpreter computes *)
Theorem exec_nc_sound W : forall f, rec_impl (exec_nc f W) (exec f W).
Proof.
  induction f as [|f IH]; intros G F I x E; [discriminate|].
  cbn [exec_nc] in E. cbn [exec].
  destruct (step W G F I) as [G1 [I1|r out I1|c I1|c I1|k]]; try discriminate; try exact E.
  - apply IH; exact E.
  - destruct (do_call W (exec_nc f W) G1 c) as [[G2 r]| |k] eqn:EC; try discriminate.
    rewrite (do_call_impl W _ _ _ _ _ IH EC). destruct (insert_call_outcome I1 c r); [apply IH; exact E|discriminate].
Qed.

Lemma wbh_shift h : forall k k' n, wbh k h = Some k' -> wbh (k + n) h = Some (k' + n)%nat.
Proof.
  induction h as [|o r IH]; intros k k' n E.
  - cbn in *. injection E as <-. reflexivity.
  - destruct o; cbn [wbh] in *; try (apply IH; exact E); try discriminate.
    + apply (IH (S k) k' n E).
    + destruct k; [discriminate|]. cbn [Nat.add]. apply IH; exact E.
    + destruct k; [discriminate|]. cbn [Nat.add]. apply IH; exact E.
Qed.

Definition rec_seg (W : world) (rec : rec_t) : Prop :=
  forall G F I G' r, rec G F I = XDone (G', r) -> gseg W G G'.

Lemma do_call_seg W rec G c G' r :
  rec_seg W rec -> (cq_transfers c = true -> 0 <= cq_value c) ->
  do_call W rec G c = XDone (G', r) -> gseg W G G'.
Proof.
  intros HR HV. unfold do_call. destruct (g_sc G) as [s cps] eqn:EG.
  match goal with |- match Fr.make_call_frame ?d ?sc ?ci0 with _ => _ end = _ -> _ => set (ci := ci0) end.
  match goal with |- match Fr.make_call_frame ?d ?sc ci with _ => _ end = _ -> _ =>
    destruct (Fr.make_call_frame d sc ci) as [[sc1 fr]|] eqn:EM; [|discriminate];
    pose proof (call_as_hops _ _ _ _ _ _ EM) as RH;
    assert (VO : value_ok ci) by (unfold value_ok, ci; cbn [ci_value]; destruct (cq_transfers c); [apply HV; reflexivity|exact Logic.I]);
    destruct (call_hops_shape _ _ _ _ _ _ EM VO) as [OK WB] end.
  assert (S1 : gseg W G (set_sc G sc1) \/ exists cp, fr = FFrame cp).
  { destruct fr as [fr|cp]; [left|right; eauto]. split; [reflexivity|]. cbn [set_sc g_sc]. rewrite EG.
    eexists. split; [exact OK|]. split; [exact WB|exact RH]. }
  destruct fr as [fr|cp].
  - destruct S1 as [S1|[cp E]]; [|discriminate].
    destruct fr; try discriminate; try (intros E; injection E as <- _; exact S1).
    match goal with |- match ?p with Some _ => _ | None => _ end = _ -> _ => destruct p end; [|discriminate].
    intros E; injection E as <- _; exact S1.
  - clear S1. destruct (code_of_account _ _ _); [|discriminate].
    match goal with |- context [rec ?g ?f ?i] => destruct (rec g f i) as [[G2 r2]| |k] eqn:ER end; try discriminate.
    apply HR in ER. destruct ER as [C2 (hc & OKc & WBc & RHc)]. cbn [set_sc g_sc g_codes] in C2, RHc.
    destruct (Fr.call_return (g_sc G2) (is_ok (ir_res r2))) as [sc3|] eqn:ECR; [|discriminate].
    intros E; injection E as <- _. split; [exact C2|]. cbn [set_sc g_sc]. rewrite EG.
    exists (hops_of_call (gdb W G) s ci ++ hc ++ [if is_ok (ir_res r2) then HCommit else HRevert]).
    split; [apply Forall_app; split; [exact OK|]; apply Forall_app; split; [exact OKc|]; constructor; [destruct (is_ok _); exact Logic.I|constructor]|].
    split.
    + rewrite (wbh_app _ 0 1 _ WB). rewrite (wbh_app hc 1 1 _ (wbh_shift hc 0 0 1 WBc)). destruct (is_ok _); reflexivity.
    + rewrite run_hops_app, RH. unfold gdb in *. cbn [set_sc g_codes] in RHc. rewrite run_hops_app, RHc.
      cbn [run_hops]. unfold Fr.call_return in ECR. destruct (g_sc G2) as [s2 cps2]. cbn [run_hop].
      destruct cps2 as [|cp2 r2']; [discriminate|]. destruct (is_ok (ir_res r2)).
      * injection ECR as <-. reflexivity.
      * destruct (checkpoint_revert s2 cp2); [|discriminate]. injection ECR as <-. reflexivity.
Qed.

(* child-frame execution is a history of journaled-state operations inside the C06 contract *)
Theorem exec_nc_seg W : forall f, rec_seg W (exec_nc f W).
Proof.
  induction f as [|f IH]; intros G F I G' r E; [discriminate|].
  cbn [exec_nc] in E. pose proof (step_gseg W G F I) as SG.
  destruct (step W G F I) as [G1 [I1|r1 out I1|c I1|c I1|k]] eqn:ES; cbn [fst] in SG; try discriminate.
  - eapply gseg_trans; [exact SG|]. eapply IH; eassumption.
  - injection E as <- _. exact SG.
  - destruct (do_call W (exec_nc f W) G1 c) as [[G2 r2]| |k] eqn:EC; try discriminate.
    apply (do_call_seg W _ _ _ _ _ IH (step_call_value _ _ _ _ _ _ _ ES)) in EC.
    destruct (insert_call_outcome I1 c r2); [|discriminate].
    eapply gseg_trans; [exact SG|]. eapply gseg_trans; [exact EC|]. eapply IH; eassumption.
Qed.

(* ---------------------------------------------------------------- C06 lifted: a failed child frame *)
Lemma call_hops_frame d s cps ci sc1 cp :
  make_call_frame d (s, cps) ci = Some (sc1, FFrame cp) -> value_ok ci ->
  exists s_ld s_chk rest,
    fst (fst (fst (load_account_delegated d s (ci_bytecode ci)))) = s_ld /\
    checkpoint s_ld = (s_chk, cp) /\
    Forall okhop rest /\ (forall k, wbh k rest = Some k) /\
    run_hops d (s_chk, cp :: cps) rest = Some sc1.
Proof.
  intros EM VO. pose proof (call_as_hops _ _ _ _ _ _ EM) as RH. revert EM VO RH.
  unfold make_call_frame, hops_of_call, value_ok.
  destruct (depth s >? CALL_STACK_LIMIT); [discriminate|].
  destruct (load_account_delegated d s (ci_bytecode ci)) as [[[s1 c1] e1] dc1] eqn:L1.
  destruct (checkpoint s1) as [s2 cp'] eqn:CP. cbn [fst].
  assert (Pre : forall rest, run_hops d (s, cps) ([HLoadDelegated (ci_bytecode ci); HCheckpoint] ++ rest)
                             = run_hops d (s2, cp' :: cps) rest).
  { intros rest. cbn [app run_hops run_hop]. rewrite L1. cbn [run_hops run_hop]. rewrite CP. reflexivity. }
  assert (Tail : forall s3,
    match (if ci_ext_delegate ci then None else ci_precompile ci) with
    | Some true => Some ((checkpoint_commit s3, cps), FResult (RPrecompile true))
    | Some false => match checkpoint_revert s3 cp' with Some s4 => Some ((s4, cps), FResult (RPrecompile false)) | None => None end
    | None =>
        let '(s4, _) := load_code d s3 (ci_bytecode ci) in
        match st s4 (ci_bytecode ci) with
        | None => None
        | Some acc =>
            if ci_ext_delegate ci && negb (ci_code_is_eof ci) then
              match checkpoint_revert s4 cp' with
              | Some s5 => Some ((s5, cps), FResult RInvalidExtDelegateCallTarget) | None => None end
            else if a_code acc =? 0 then Some ((checkpoint_commit s4, cps), FResult RStop)
            else Some ((match db_delegate d (a_code acc) with Some t => fst (load_code d s4 t) | None => s4 end,
                        cp' :: cps), FFrame cp')
        end
    end = Some (sc1, FFrame cp) ->
    cp' = cp /\ Forall okhop (call_tail d ci s3) /\ (forall k, wbh k (call_tail d ci s3) = Some k)).
  { intros s3. unfold call_tail. destruct (if ci_ext_delegate ci then None else ci_precompile ci) as [[|]|].
    - discriminate.
    - destruct (checkpoint_revert s3 cp'); discriminate.
    - unfold load_code. destruct (load_account d s3 (ci_bytecode ci)) as [s4 c4] eqn:L4.
      destruct (st s4 (ci_bytecode ci)) as [acc|]; [|discriminate].
      destruct (ci_ext_delegate ci && negb (ci_code_is_eof ci)).
      + destruct (checkpoint_revert s4 cp'); discriminate.
      + destruct (a_code acc =? 0); [discriminate|].
        destruct (db_delegate d (a_code acc)); intros [= _ <-]; (split; [reflexivity|]); split; try (intros; reflexivity); repeat constructor. }
  destruct (ci_value ci) as [v|v].
  - destruct (v =? 0).
    + intros H _ RH. destruct (Tail _ H) as (-> & A & B). rewrite Pre in RH.
      exists s1, s2, ([HLoad (ci_target ci); HTouch (ci_target ci)] ++ call_tail d ci (touch (fst (load_account d s2 (ci_target ci))) (ci_target ci))).
      split; [reflexivity|]. split; [exact CP|]. split; [repeat (constructor; [exact Logic.I|]); exact A|]. split; [|exact RH].
      intros k. cbn [app wbh]. apply B.
    + destruct (transfer d s2 (ci_caller ci) (ci_target ci) v) as [[s3 [| |]]|] eqn:T; [| | |discriminate].
      * intros H V RH. destruct (Tail _ H) as (-> & A & B). rewrite Pre in RH.
        exists s1, s2, ([HTransfer (ci_caller ci) (ci_target ci) v] ++ call_tail d ci s3).
        split; [reflexivity|]. split; [exact CP|]. split; [constructor; [exact V|exact A]|]. split; [|exact RH].
        intros k. cbn [app wbh]. apply B.
      * destruct (checkpoint_revert s3 cp'); discriminate.
      * destruct (checkpoint_revert s3 cp'); discriminate.
  - intros H _ RH. destruct (Tail _ H) as (-> & A & B). rewrite Pre in RH.
    exists s1, s2, (call_tail d ci s2). split; [reflexivity|]. split; [exact CP|]. split; [exact A|]. split; [exact B|exact RH].
Qed.

(* the CallInputs that do_call builds *)
Definition call_inputs_of (W : world) (c : callreq) : call_inputs :=
  let gl := cq_gas_limit c in
  let oracle := if is_precompile W (cq_bytecode c)
                then Some (pre_lookup (w_pre W) (cq_bytecode c) gl (cq_input c)) else None in
  let pres := match oracle with
              | Some (Some o) => Some (precompile_result gl o)
              | _ => None end in
  Fr.mkCI (cq_caller c) (cq_target c) (cq_bytecode c)
    (if cq_transfers c then Fr.Transfer (cq_value c) else Fr.Apparent (cq_value c)) false
    (match oracle with
     | Some _ => Some (match pres with Some r => is_ok (ir_res r) | None => false end)
     | None => None end) false.

(* C06 lifted to the (create-free) interpreter: when a call opens a child frame and the child
   does not end ok (revert, exceptional halt, out of gas — after any storage writes, transient
   writes, logs, value transfers, self-destructs and nested calls of its own), the caller is back
   at the state it had when the checkpoint was taken, i.e. right after the callee was loaded:
   the same observation of every account and slot (balance, nonce, code, flags, warm / cold,
   original and present values), the same transient storage, logs, journal and depth. *)
Theorem failed_child_restores_view W f G c G' r s0 sc1 cp :
  let d := gdb W G in
  HostRevert.Inv d s0 (gs G) (snd (g_sc G)) ->
  (cq_transfers c = true -> 0 <= cq_value c) ->
  Fr.make_call_frame d (g_sc G) (call_inputs_of W c) = Some (sc1, FFrame cp) ->
  do_call W (exec_nc f W) G c = XDone (G', r) -> is_ok (ir_res r) = false ->
  let s_ld := fst (fst (fst (load_account_delegated d (gs G) (cq_bytecode c)))) in
  HostView.cview_of d (gs G') = HostView.cview_of d s_ld /\ logs (gs G') = logs s_ld /\
  journal (gs G') = journal s_ld /\ depth (gs G') = depth s_ld /\ snd (g_sc G') = snd (g_sc G).
Proof.
  intros d INV HV EM ED NOK s_ld.
  unfold gs in *. destruct (g_sc G) as [s cps] eqn:EG. cbn [fst snd] in *.
  assert (VO : value_ok (call_inputs_of W c)).
  { unfold value_ok, call_inputs_of. cbn [ci_value]. destruct (cq_transfers c); [apply HV; reflexivity|exact Logic.I]. }
  destruct (call_hops_frame _ _ _ _ _ _ EM VO) as (s_ld' & s_chk & rest & ELD & ECP & OKr & WBr & RHr).
  change (ci_bytecode (call_inputs_of W c)) with (cq_bytecode c) in ELD. fold s_ld in ELD. subst s_ld'.
  (* the child *)
  unfold do_call in ED. rewrite EG in ED. change (Fr.make_call_frame (gdb W G) (s, cps) _) with (Fr.make_call_frame d (s, cps) (call_inputs_of W c)) in ED.
  rewrite EM in ED.
  destruct (code_of_account _ _ _); [|discriminate].
  match type of ED with context [exec_nc f W ?g ?fr ?i] => destruct (exec_nc f W g fr i) as [[G2 r2]| |k] eqn:ER end; try discriminate.
  destruct (Fr.call_return (g_sc G2) (is_ok (ir_res r2))) as [sc3|] eqn:ECR; [|discriminate].
  injection ED as <- <-. rewrite NOK in ECR.
  pose proof (exec_nc_seg W f _ _ _ _ _ ER) as [C2 (hc & OKc & WBc & RHc)]. cbn [set_sc g_sc g_codes] in C2, RHc.
  change (gdb W (set_sc G sc1)) with d in RHc.
  (* the history after the checkpoint, relative to it *)
  assert (RUN : run_hops d (s_chk, [] ++ cp :: cps) (rest ++ hc) = Some (g_sc G2)).
  { cbn [app]. rewrite run_hops_app, RHr. exact RHc. }
  assert (WB : wbh (length (@nil checkpoint_t)) (rest ++ hc) = Some 0%nat).
  { cbn [length]. rewrite (wbh_app rest 0 0 hc (WBr 0%nat)). exact WBc. }
  destruct (g_sc G2) as [s2 cps2] eqn:EG2.
  destruct (run_hops_base d (cp :: cps) (rest ++ hc) s_chk [] s2 cps2 0%nat WB RUN) as (cps1 & E1 & L1 & RUN0).
  destruct cps1; [|discriminate]. cbn [app] in E1. subst cps2.
  (* well-formedness at the checkpoint: one more operation of the history that reached G *)
  assert (WFld : HostOps.WF d s_ld).
  { eapply HostMain.Inv_WF. eapply (HostMain.Inv_hop d s0 s cps (HLoadDelegated (cq_bytecode c))); [exact INV|exact Logic.I|].
    cbn [run_hop]. unfold s_ld. destruct (load_account_delegated d s (cq_bytecode c)) as [[[x1 x2] x3] x4]. reflexivity. }
  destruct (HostMain.revert_restores d s_ld (rest ++ hc) s_chk cp s2 [] WFld ECP
              (okhops_contract d _ _ (proj2 (Forall_app _ _ _) (conj OKr OKc))) RUN0)
    as (s3 & ER3 & V & L & J & D & _).
  unfold Fr.call_return in ECR. rewrite ER3 in ECR. injection ECR as <-.
  cbn [set_sc g_sc fst snd length] in *. rewrite Z.add_0_r in D. auto.
Qed.
