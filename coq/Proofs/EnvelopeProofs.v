(* Proofs for C02: the validation pipeline of Model/Envelope.v rejects exactly the transactions
   that break a rule of Spec/ValidSpec.v, and a rejection
   leaves the instance as it was. *)
From RevmV Require Import Base.Word Model.Envelope Spec.ValidSpec Model.TypedTx.
From Coq Require Import ZifyBool.
Local Open Scope Z_scope.

(* ------------------------------------------------------------------ well-formed inputs *)
(* machine ranges of the fields; the optional_* features are off *)
Definition features_off (c : cfg_env) : Prop :=
  c_disable_balance_check c = false /\ c_disable_block_gas_limit c = false /\
  c_disable_eip3607 c = false /\ c_disable_base_fee c = false.
Definition wf_cfg (c : cfg_env) : Prop :=
  features_off c /\ match c_limit_contract_code_size c with Some l => in_u64 l | None => True end.
Definition wf_block (b : block_env) : Prop :=
  in_u256 (b_gas_limit b) /\ in_u256 (b_basefee b) /\
  match b_blob_gasprice b with Some p => in_u128 p | None => True end.
Definition wf_sender (s : sender) : Prop := in_u64 (s_nonce s) /\ in_u256 (s_balance s).
Definition wf_tx (t : Spec.typed_tx) : Prop :=
  let c := Spec.common_of t in
  in_u64 (Spec.nonce c) /\ in_u64 (Spec.gas_limit c) /\ in_u256 (Spec.value c) /\
  Z.of_nat (length (Spec.data c)) < pow63 /\
  in_u256 (Spec.max_fee_of t) /\
  match Spec.priority_of t with Some p => in_u256 p | None => True end /\
  Forall (fun k => 0 <= k) (Spec.access_list_of t) /\
  0 <= Spec.auth_count_of t /\
  match t with Spec.Eip4844 _ _ _ _ _ m _ => in_u256 m | _ => True end.

(* note 6.4: a 1559 transaction before LONDON is outside the domain *)
Definition in_domain (spec : Z) (t : Spec.typed_tx) : Prop :=
  match t with Spec.Eip1559 _ _ _ _ _ => LONDON <= spec | _ => True end.

(* ------------------------------------------------------------------ gas *)
Lemma zlen_cons {A} (x : A) l : zlen (x :: l) = 1 + zlen l.
Proof. unfold zlen. cbn [length]. lia. Qed.
Lemma zlen_nonneg {A} (l : list A) : 0 <= zlen l.
Proof. unfold zlen. lia. Qed.
Lemma count_zero_cons b d : count_zero (b :: d) = (if b =? 0 then 1 else 0) + count_zero d.
Proof. unfold count_zero. cbn [filter]. destruct (b =? 0); rewrite ?zlen_cons; lia. Qed.
Lemma count_zero_range d : 0 <= count_zero d <= zlen d.
Proof. induction d as [|b d IH]; [unfold count_zero, zlen; cbn; lia|].
  rewrite count_zero_cons, zlen_cons. destruct (b =? 0); lia. Qed.

Lemma data_cost_eq f d :
  Spec.data_cost f d = get_tokens_in_calldata d (enabled f ISTANBUL) * STANDARD_TOKEN_COST.
Proof.
  unfold get_tokens_in_calldata, STANDARD_TOKEN_COST, enabled, ISTANBUL, Spec.ISTANBUL,
    NON_ZERO_BYTE_MULTIPLIER_ISTANBUL, NON_ZERO_BYTE_MULTIPLIER.
  induction d as [|b d IH]; [reflexivity|].
  cbn [Spec.data_cost fold_right] in *. unfold Spec.data_cost in IH. rewrite IH.
  rewrite count_zero_cons, zlen_cons. unfold Spec.byte_cost, Spec.ISTANBUL.
  destruct (b =? 0); destruct (9 <=? f); lia.
Qed.
Lemma tokens_eq d : Spec.tokens d = get_tokens_in_calldata d true.
Proof.
  unfold get_tokens_in_calldata, NON_ZERO_BYTE_MULTIPLIER_ISTANBUL.
  induction d as [|b d IH]; [reflexivity|].
  cbn [Spec.tokens fold_right] in *. unfold Spec.tokens in IH. rewrite IH.
  rewrite count_zero_cons, zlen_cons. unfold Spec.byte_tokens. destruct (b =? 0); lia.
Qed.
Lemma tokens_nonneg d b : 0 <= get_tokens_in_calldata d b.
Proof. unfold get_tokens_in_calldata, NON_ZERO_BYTE_MULTIPLIER_ISTANBUL, NON_ZERO_BYTE_MULTIPLIER.
  pose proof (count_zero_range d). destruct b; nia. Qed.
Lemma al_cost_eq al :
  Spec.al_cost al = zlen al * ACCESS_LIST_ADDRESS + zsum al * ACCESS_LIST_STORAGE_KEY.
Proof. unfold ACCESS_LIST_ADDRESS, ACCESS_LIST_STORAGE_KEY.
  induction al as [|k al IH]; [reflexivity|].
  cbn [Spec.al_cost fold_right zsum] in *. unfold Spec.al_cost in IH. rewrite IH, zlen_cons.
  unfold zsum. lia. Qed.
Lemma al_cost_nonneg al : Forall (fun k => 0 <= k) al -> 0 <= Spec.al_cost al.
Proof. induction 1; cbn [Spec.al_cost fold_right] in *; [lia|]. unfold Spec.al_cost in *. lia. Qed.
Lemma initcode_cost_eq len : 0 <= len < pow63 -> initcode_cost len = 2 * Spec.words len.
Proof. intros H. unfold initcode_cost, num_words, INITCODE_WORD_COST, Spec.words, sat64.
  unfold pow63, pow64 in *. destruct (len + 31 <? 0) eqn:A; [lia|].
  destruct (len + 31 <? 18446744073709551616) eqn:B; [reflexivity|lia]. Qed.

Lemma to_tx_env_create t : tx_is_create (to_tx_env t) = Spec.is_create t.
Proof. unfold to_tx_env, Spec.is_create. cbn. reflexivity. Qed.
Lemma to_tx_env_auth t :
  match tx_authorization_list (to_tx_env t) with Some n => n | None => 0 end = Spec.auth_count_of t.
Proof. destruct t; reflexivity. Qed.

Lemma initial_gas_eq spec c b t :
  Z.of_nat (length (Spec.data (Spec.common_of t))) < pow63 ->
  fst (initial_and_floor spec (mkEnv c b (to_tx_env t))) = Spec.intrinsic_gas spec t.
Proof.
  intros Hlen. unfold initial_and_floor. cbn [e_tx]. rewrite to_tx_env_auth, to_tx_env_create.
  unfold calculate_initial_tx_gas, Spec.intrinsic_gas.
  cbn [to_tx_env tx_data tx_access_list].
  rewrite data_cost_eq, al_cost_eq.
  unfold enabled, BERLIN, HOMESTEAD, SHANGHAI, PRAGUE, ISTANBUL, Spec.BERLIN, Spec.HOMESTEAD,
    Spec.SHANGHAI, Spec.PRAGUE, STANDARD_TOKEN_COST, PER_EMPTY_ACCOUNT_COST.
  assert (IC : initcode_cost (zlen (Spec.data (Spec.common_of t))) =
               2 * Spec.words (Z.of_nat (length (Spec.data (Spec.common_of t))))).
  { apply initcode_cost_eq. unfold zlen. lia. }
  destruct (18 <=? spec) eqn:P; cbn [fst];
    destruct (11 <=? spec), (Spec.is_create t), (2 <=? spec), (16 <=? spec); cbn [andb];
    rewrite ?IC; lia.
Qed.
Lemma floor_gas_eq spec c b t :
  PRAGUE <= spec ->
  snd (initial_and_floor spec (mkEnv c b (to_tx_env t))) = Spec.floor_gas t.
Proof.
  intros HP. unfold initial_and_floor, calculate_initial_tx_gas, Spec.floor_gas. cbn [e_tx].
  unfold PRAGUE in HP. unfold enabled, PRAGUE, ISTANBUL.
  replace (18 <=? spec) with true by lia. replace (9 <=? spec) with true by lia. cbn [snd].
  rewrite tokens_eq. unfold calc_tx_floor_cost, TOTAL_COST_FLOOR_PER_TOKEN.
  cbn [to_tx_env tx_data]. lia.
Qed.
Lemma intrinsic_ge_21000 spec t : wf_tx t -> 21000 <= Spec.intrinsic_gas spec t.
Proof.
  intros (_ & _ & _ & _ & _ & _ & Hal & Hau & _). unfold Spec.intrinsic_gas.
  rewrite data_cost_eq. pose proof (tokens_nonneg (Spec.data (Spec.common_of t)) (enabled spec ISTANBUL)).
  pose proof (al_cost_nonneg _ Hal).
  assert (0 <= Spec.words (Z.of_nat (length (Spec.data (Spec.common_of t))))).
  { unfold Spec.words. apply Z.div_pos; lia. }
  unfold STANDARD_TOKEN_COST.
  destruct (Spec.is_create t && (Spec.HOMESTEAD <=? spec)), (Spec.BERLIN <=? spec),
    (Spec.is_create t && (Spec.SHANGHAI <=? spec)), (Spec.PRAGUE <=? spec); lia.
Qed.

(* ------------------------------------------------------------------ stage lemmas *)
Ltac zb := repeat match goal with
  | H : (_ <=? _) = true |- _ => apply Z.leb_le in H
  | H : (_ <=? _) = false |- _ => apply Z.leb_gt in H
  | H : (_ <? _) = true |- _ => apply Z.ltb_lt in H
  | H : (_ <? _) = false |- _ => apply Z.ltb_ge in H
  | H : (_ =? _) = true |- _ => apply Z.eqb_eq in H
  | H : (_ =? _) = false |- _ => apply Z.eqb_neq in H
  end.

Section Stages.
  Variables (spec : Z) (c : cfg_env) (b : block_env) (t : Spec.typed_tx) (s : sender).
  Let e := mkEnv c b (to_tx_env t).
  Let x := ctx_of spec c b s.

  Lemma stage_block : validate_block_env spec e = None <-> Spec.block_ok x.
  Proof.
    unfold validate_block_env, Spec.block_ok, e, x, ctx_of, enabled, MERGE, CANCUN, Spec.MERGE, Spec.CANCUN.
    cbn [e_block Spec.fork Spec.has_prevrandao Spec.blob_base_fee].
    destruct (15 <=? spec) eqn:M; destruct (17 <=? spec) eqn:C; destruct (b_prevrandao_set b);
      destruct (b_blob_gasprice b); cbn [andb negb]; zb;
      (split; [intros H; try discriminate H; split; intros; (congruence || lia)
              | intros [H1 H2]; try reflexivity; exfalso;
                try (specialize (H1 M); discriminate H1); try (specialize (H2 C); congruence)]).
  Qed.

  Let gl := Spec.gas_limit (Spec.common_of t).

  Lemma stage_gas :
    wf_tx t ->
    (validate_initial_tx_gas spec e = None <->
     Spec.intrinsic_gas spec t <= gl /\ (Spec.PRAGUE <= spec -> Spec.floor_gas t <= gl)).
  Proof.
    intros W. pose proof W as (_ & _ & _ & Hlen & _).
    unfold validate_initial_tx_gas.
    pose proof (initial_gas_eq spec c b t Hlen) as HI.
    pose proof (floor_gas_eq spec c b t) as HF. fold e in HI, HF.
    destruct (initial_and_floor spec e) as [ini flo]. cbn [fst snd] in HI, HF. subst ini.
    replace (tx_gas_limit (e_tx e)) with gl by reflexivity.
    unfold enabled, PRAGUE in *. unfold Spec.PRAGUE.
    destruct (gl <? Spec.intrinsic_gas spec t) eqn:A; zb.
    - split; [discriminate | lia].
    - destruct (18 <=? spec) eqn:P; zb; cbn [andb].
      + rewrite (HF P). destruct (gl <? Spec.floor_gas t) eqn:B; zb;
          (split; [intros H; try discriminate H; lia | intros; try reflexivity; lia]).
      + split; [lia | reflexivity].
  Qed.

  (* the sender stage; a blob transaction reaches it only from CANCUN *)
  Lemma stage_sender :
    wf_cfg c -> wf_tx t -> wf_sender s ->
    (match t with Spec.Eip4844 _ _ _ _ _ _ _ => CANCUN <= spec | _ => True end) ->
    ((exists bal, validate_tx_against_state spec e s = inr bal) <-> Spec.sender_ok x t).
  Proof.
    intros ((F1 & _ & F3 & _) & _) (Wn & Wg & Wv & _ & Wf & _ & _ & _ & Wm) (Sn & Sb) HB.
    unfold validate_tx_against_state, Spec.sender_ok, x, ctx_of.
    cbn [Spec.sender_code Spec.sender_nonce Spec.sender_balance Spec.fork e e_tx e_cfg].
    rewrite F3. cbn [negb andb].
    replace (tx_nonce (to_tx_env t)) with (Some (Spec.nonce (Spec.common_of t))) by reflexivity.
    replace (tx_gas_limit (to_tx_env t)) with gl by reflexivity.
    replace (tx_gas_price (to_tx_env t)) with (Spec.max_fee_of t) by reflexivity.
    replace (tx_value (to_tx_env t)) with (Spec.value (Spec.common_of t)) by reflexivity.
    unfold Spec.max_cost. fold gl.
    assert (P0 : 0 <= gl * Spec.max_fee_of t).
    { apply Z.mul_nonneg_nonneg; unfold gl; unfold_pows; lia. }
    set (p := gl * Spec.max_fee_of t) in *.
    assert (FEE : enabled spec CANCUN = true ->
                  (match tx_max_fee_per_blob_gas (to_tx_env t) with
                   | Some m => checked256 (m * get_total_blob_gas (to_tx_env t))
                   | None => Some 0 end) =
                  (if Spec.max_blob_fee t <? pow256 then Some (Spec.max_blob_fee t) else None)).
    { intros _. destruct t; cbn [to_tx_env tx_max_fee_per_blob_gas Spec.max_blob_fee] in *; try reflexivity.
      unfold get_total_blob_gas, GAS_PER_BLOB, zlen, Spec.blob_gas, checked256, is_u256.
      cbn [to_tx_env tx_blob_hashes Spec.blobs_of].
      set (q := max_fee_per_blob_gas * (131072 * Z.of_nat (length blob_version_bytes))).
      assert (0 <= q). { apply Z.mul_nonneg_nonneg; unfold_pows; lia. }
      destruct (q <? pow256) eqn:Q; zb.
      - replace (0 <=? q) with true by lia. reflexivity.
      - rewrite andb_false_r. reflexivity. }
    assert (F0 : 0 <= Spec.max_blob_fee t).
    { destruct t; cbn [Spec.max_blob_fee]; try lia. unfold Spec.blob_gas.
      apply Z.mul_nonneg_nonneg; unfold_pows; lia. }
    assert (FNC : enabled spec CANCUN = false -> Spec.max_blob_fee t = 0).
    { unfold enabled. intros EC. zb. destruct t; try reflexivity. lia. }
    set (mbf := Spec.max_blob_fee t) in *.
    unfold enabled, PRAGUE, Spec.PRAGUE.
    destruct (s_code s) eqn:SC; cbn [code_class_of].
    3: { split; [intros [bal H]; discriminate H | intros ([H|[H _]] & _); discriminate H]. }
    2: destruct (18 <=? spec) eqn:PR; cbn [negb]; zb.
    3: { split; [intros [bal H]; discriminate H | intros ([H|[_ H]] & _); [discriminate H | lia]]. }
    all: destruct (s_nonce s <? Spec.nonce (Spec.common_of t)) eqn:N1; zb;
      [split; [intros [bal H]; discriminate H | intros (_ & H & _); lia]|];
      destruct (Spec.nonce (Spec.common_of t) <? s_nonce s) eqn:N2; zb;
      [split; [intros [bal H]; discriminate H | intros (_ & H & _); lia]|];
      destruct (s_nonce s =? pow64 - 1) eqn:N3; zb;
      [split; [intros [bal H]; discriminate H | intros (_ & _ & H & _); unfold pow64 in *; lia]|];
      unfold checked256 at 1 2, is_u256;
      destruct ((0 <=? p) && (p <? pow256)) eqn:C1;
      [|split; [intros [bal H]; discriminate H | intros (_ & _ & _ & H); unfold_pows; lia]];
      destruct ((0 <=? p + Spec.value (Spec.common_of t)) && (p + Spec.value (Spec.common_of t) <? pow256)) eqn:C2;
      [|split; [intros [bal H]; discriminate H | intros (_ & _ & _ & H); unfold_pows; lia]].
    all: zb; set (v := Spec.value (Spec.common_of t)) in *;
      destruct (CANCUN <=? spec) eqn:EC;
      [rewrite (FEE EC); destruct (mbf <? pow256) eqn:MB; zb;
       [unfold checked256, is_u256;
        destruct ((0 <=? p + v + mbf) && (p + v + mbf <? pow256)) eqn:C3|]
      |rewrite (FNC EC) in *].
    all: rewrite ?F1.
    all: try (destruct (s_balance s <? p + v + mbf) eqn:BL; zb).
    all: try (destruct (s_balance s <? p + v) eqn:BL2; zb).
    all: split; [intros [bal H]; try discriminate H | intros (HC & HN1 & HN2 & HM)].
    all: try (exfalso; unfold_pows; lia).
    all: try (eexists; reflexivity).
    all: repeat split; try (unfold_pows; lia); try (left; reflexivity); try (right; split; [reflexivity|lia]).
  Qed.

  Definition fee_model : Prop :=
    LONDON <= spec ->
    match Spec.priority_of t with Some p => p <= Spec.max_fee_of t | None => True end /\
    b_basefee b <= effective_gas_price e.

  Lemma all_version_kzg_spec l : all_version_kzg l = true <-> Forall (fun v => v = 1) l.
  Proof. unfold all_version_kzg, VERSIONED_HASH_VERSION_KZG. rewrite forallb_forall, Forall_forall.
    split; intros H v Hv; specialize (H v Hv); [apply Z.eqb_eq | apply Z.eqb_eq]; exact H. Qed.

  Lemma max_initcode_eq :
    wf_cfg c ->
    (match c_limit_contract_code_size c with Some l => sat64 (l * 2) | None => MAX_INITCODE_SIZE end)
    = Spec.max_initcode x.
  Proof. intros (_ & W). unfold x, ctx_of. cbn [Spec.max_initcode]. destruct (c_limit_contract_code_size c); [|reflexivity].
    unfold sat64. unfold_pows. destruct (z * 2 <? 0) eqn:A; zb; [lia|].
    destruct (z * 2 <? 18446744073709551616) eqn:B; zb; lia. Qed.

  Ltac brk := match goal with
    | |- context [if ?c then _ else _] =>
        lazymatch c with context [if _ then _ else _] => fail | context [match _ with _ => _ end] => fail | _ => destruct c eqn:? end
    | |- context [match ?c with Some _ => _ | None => _ end] =>
        lazymatch c with context [if _ then _ else _] => fail | context [match _ with _ => _ end] => fail | _ => destruct c eqn:? end
    end.

  Ltac bb := repeat match goal with
    | H : _ && _ = true |- _ => apply andb_true_iff in H; destruct H
    | H : negb _ = true |- _ => apply negb_true_iff in H
    | H : negb _ = false |- _ => apply negb_false_iff in H
    | H : true = false |- _ => discriminate H
    | H : false = true |- _ => discriminate H
    end.
  Ltac fwd := repeat match goal with
    | H : ?A -> _ |- _ => let HA := fresh in assert (HA : A) by (try reflexivity; lia); specialize (H HA)
    | H : _ /\ _ |- _ => destruct H
    end.
  Ltac fin := bb; zb; (split; [intros HH; try discriminate HH; repeat split; intros; try lia; try congruence; try discriminate
                          | intros HH; try reflexivity; exfalso; fwd; intuition (try lia; try congruence; try discriminate)]).

  Lemma stage_tx :
    wf_cfg c -> wf_tx t -> wf_block b -> Spec.block_ok x -> in_domain spec t ->
    (validate_tx spec e = VOk <->
     Spec.chain_id_ok x t /\ gl <= b_gas_limit b /\ Spec.access_list_ok x t /\ Spec.type_ok x t /\ fee_model /\
     Spec.initcode_ok x t /\ Spec.blob_ok x t /\ Spec.set_code_ok x t).
  Proof.
    intros WC WT WB BO DOM. pose proof (max_initcode_eq WC) as MI.
    destruct WC as ((F1 & F2 & F3 & F4) & _).
    unfold validate_tx, fee_model. cbn [e e_tx e_cfg e_block]. rewrite F2, F4. cbn [negb andb].
    rewrite MI. clear MI.
    unfold Spec.chain_id_ok, Spec.access_list_ok, Spec.type_ok, Spec.initcode_ok, Spec.blob_ok, Spec.set_code_ok.
    replace (Spec.chain x) with (c_chain_id c) by reflexivity.
    replace (Spec.fork x) with spec by reflexivity.
    replace (Spec.max_blobs x) with (blob_max_count c spec) by reflexivity.
    replace (Spec.blob_base_fee x) with (b_blob_gasprice b) by reflexivity.
    set (eff := effective_gas_price (mkEnv c b (to_tx_env t))).
    set (mi := Spec.max_initcode x).
    destruct t; cbn [to_tx_env tx_chain_id tx_gas_limit tx_access_list tx_gas_priority_fee tx_gas_price
                     tx_is_create tx_data tx_blob_hashes tx_max_fee_per_blob_gas tx_authorization_list
                     Spec.chain_id_of Spec.common_of Spec.access_list_of Spec.priority_of Spec.max_fee_of
                     Spec.blobs_of Spec.is_create is_some is_nil orb negb andb].
    all: unfold in_domain in *; unfold enabled, BERLIN, LONDON, SHANGHAI, CANCUN, PRAGUE, Spec.BERLIN, Spec.LONDON, Spec.SHANGHAI,
           Spec.CANCUN, Spec.PRAGUE, zlen, gl, Spec.is_create in *;
         cbn [Spec.common_of] in *.
    1-3: try destruct chain_id as [chain_id|]; destruct (Spec.to c0); try destruct al as [|k al];
         cbn [is_nil negb andb]; repeat brk; fin.
    - (* EIP-4844 *)
      destruct BO as [_ BO2]. unfold x, ctx_of, Spec.CANCUN in BO2. cbn [Spec.fork Spec.blob_base_fee] in BO2.
      destruct (Spec.to c0); destruct al as [|k al]; destruct blob_version_bytes as [|v bl];
        destruct (b_blob_gasprice b) as [price|];
        try (destruct (all_version_kzg (v :: bl)) eqn:AV;
             [apply all_version_kzg_spec in AV
             |assert (~ Forall (fun v => v = 1) (v :: bl))
                by (intro FA; apply all_version_kzg_spec in FA; congruence)]);
        cbn [is_nil negb andb]; repeat brk; fin.
    - (* EIP-7702 *)
      destruct WT as (_ & _ & _ & _ & _ & _ & _ & Hau & _). cbn [Spec.auth_count_of] in Hau.
      destruct (Spec.to c0); destruct al as [|k al]; cbn [is_nil negb andb]; repeat brk; fin.
  Qed.
End Stages.

