(* Composition of C12 (the stack) with the reference interpreter (Model/Step.v, Model/Evm.v).
   Step.v keeps the stack as a top-first list and performs the pop! / push! checks itself; the
   reference for "how many words an instruction pops and pushes" is the table reflected from the
   compiled revm (Gen/OpInfo.v, OPCODE_INFO_JUMPTABLE), not the model.  Proved for every opcode:
   an instruction that continues has popped [inputs] and pushed [outputs] words of that table,
   the stack never exceeds 1024 words, StackUnderflow is reported exactly when fewer than
   [inputs] words are there, StackOverflow only when the result would exceed 1024, and in both
   cases the transaction state is as before the instruction. *)
From Coq Require Import ZifyBool.
From RevmV Require Import Base.Word Model.Step Model.Evm Proofs.StepProofs Proofs.EvmProofs Proofs.EvmMiscProofs.
From RevmV Require Gen.OpInfo Model.Arith Spec.GateSpec.
Local Open Scope Z_scope.

(* (inputs, outputs) of the reflected opcode table *)
Definition op_io (op : Z) : Z * Z :=
  match nth (Z.to_nat op) OpInfo.op_info_table None with
  | Some (i, o, _, _, _) => (i, o)
  | None => (0, 0)
  end.

(* ---------------------------------------------------------------- list lengths *)
Lemma zlen_cons {A} (a : A) l : zlen (a :: l) = zlen l + 1.
Proof. unfold zlen. cbn [length]. lia. Qed.
Lemma zlen_nil {A} : zlen (@nil A) = 0. Proof. reflexivity. Qed.
Lemma zlen_nonneg {A} (l : list A) : 0 <= zlen l. Proof. unfold zlen. lia. Qed.
Lemma set_nth_length i v l : length (set_nth i v l) = length l.
Proof. revert i. induction l as [|x r IH]; intros i; [destruct i; reflexivity|]. destruct i; cbn; [reflexivity|]. rewrite IH. reflexivity. Qed.
Lemma zlen_set_nth i v l : zlen (set_nth i v l) = zlen l.
Proof. unfold zlen. rewrite set_nth_length. reflexivity. Qed.

(* ---------------------------------------------------------------- what one instruction must guarantee *)
(* n: words on the stack before the instruction *)
Definition SP (n ins outs : Z) : posts :=
  mkPosts (fun I' => ins <= n /\ zlen (i_stk I') = n - ins + outs /\ zlen (i_stk I') <= 1024)
          (fun _ I' => 1 <= ins <= n /\ zlen (i_stk I') = n - ins /\ outs = 1)
          (fun _ I' => 1 <= ins <= n /\ zlen (i_stk I') = n - ins /\ outs = 1)
          (fun r _ => (r = R_StackUnderflow -> n < ins) /\
                      (r = R_StackOverflow -> ins <= n /\ 1024 < n - ins + outs)).

(* with the transaction state: a stack error leaves it as it was ([X]: the one exception) *)
Definition HS (n ins outs : Z) (G : gstate) (X : gstate -> Prop) (h : hres) : Prop :=
  Q (SP n ins outs) (snd h) /\
  (forall r out I', snd h = SEnd r out I' -> r = R_StackUnderflow \/ r = R_StackOverflow ->
     out = [] /\ (fst h = G \/ X (fst h))).
Definition noX : gstate -> Prop := fun _ => False.

(* ---------------------------------------------------------------- brute force over one instruction *)
Ltac simp :=
  cbv beta iota zeta;
  cbn [i_stk i_pc i_mem i_gas i_rd set_gas set_stk set_mem set_pc set_rd fst snd negb
       Arith.i_res Arith.i_stack Arith.i_gas] in *.
Ltac unf :=
  unfold with_gas_opt, with_gas, usize_or_fail, mem_resize, mem_op, push_next, next, halt, pure in *.
Ltac brk :=
  repeat (simp; unf; match goal with
  | |- context [match ?x with _ => _ end] =>
      lazymatch x with
      | context [match _ with _ => _ end] => fail
      | _ => destruct x eqn:?
      end
  end); simp.
Ltac consts :=
  unfold R_Stop, R_Return, R_SelfDestruct, R_Revert, R_CallTooDeep, R_OutOfFunds, R_OutOfGas, R_MemoryOOG,
    R_PrecompileOOG, R_InvalidOperandOOG, R_OpcodeNotFound, R_CallNotAllowedInsideStatic,
    R_StateChangeDuringStaticCall, R_InvalidFEOpcode, R_InvalidJump, R_NotActivated, R_StackUnderflow,
    R_StackOverflow, R_OutOfOffset, R_CreateCollision, R_OverflowPayment, R_PrecompileError, R_NonceOverflow,
    R_CreateContractSizeLimit, R_CreateContractStartingWithEF, R_CreateInitCodeSizeLimit,
    R_EOFOpcodeDisabledInLegacy in *.
Ltac lens := rewrite ?zlen_cons, ?zlen_nil, ?zlen_set_nth in *.
Ltac finQ :=
  cbn [Q SP p_next p_call p_create p_end i_stk i_pc i_mem i_gas i_rd set_gas set_stk set_mem set_pc set_rd]; consts; lens;
  repeat match goal with |- context [zlen ?l] => lazymatch goal with _ : 0 <= zlen l |- _ => fail | _ => pose proof (zlen_nonneg l) end end;
  first [exact Logic.I | repeat split; intros; try discriminate; lia].
(* the shape of the per-instruction lemmas *)
Definition S1 (I : istate) (ins outs : Z) (x : sres) : Prop :=
  zlen (i_stk I) <= 1024 -> Q (SP (zlen (i_stk I)) ins outs) x.

Lemma op_pop_S I : S1 I 1 0 (op_pop I).
Proof. intros Hn. unfold op_pop. unf. brk; finQ. Qed.
Lemma op_push_env_S I v : S1 I 0 1 (op_push_env v I).
Proof. intros Hn. unfold op_push_env. unf. brk; finQ. Qed.
Lemma op_keccak_S I : S1 I 2 1 (op_keccak256 I).
Proof. intros Hn. unfold op_keccak256. unf. brk; finQ. Qed.
Lemma op_calldataload_S F I : S1 I 1 1 (op_calldataload F I).
Proof. intros Hn. unfold op_calldataload. unf. brk; finQ. Qed.
Lemma op_copy_S I d : S1 I 3 0 (op_copy d I).
Proof. intros Hn. unfold op_copy. unf. brk; finQ. Qed.
Lemma op_returndatacopy_S I : S1 I 3 0 (op_returndatacopy I).
Proof. intros Hn. unfold op_returndatacopy. unf. brk; finQ. Qed.
Lemma op_mload_S I : S1 I 1 1 (op_mload I).
Proof. intros Hn. unfold op_mload. unf. brk; finQ. Qed.
Lemma op_mstore_S I : S1 I 2 0 (op_mstore I).
Proof. intros Hn. unfold op_mstore. unf. brk; finQ. Qed.
Lemma op_mstore8_S I : S1 I 2 0 (op_mstore8 I).
Proof. intros Hn. unfold op_mstore8. unf. brk; finQ. Qed.
Lemma op_mcopy_S I : S1 I 3 0 (op_mcopy I).
Proof. intros Hn. unfold op_mcopy. unf. brk; finQ. Qed.
Lemma op_jump_S F I : S1 I 1 0 (op_jump F I).
Proof. intros Hn. unfold op_jump. unf. brk; finQ. Qed.
Lemma op_jumpi_S F I : S1 I 2 0 (op_jumpi F I).
Proof. intros Hn. unfold op_jumpi. unf. brk; finQ. Qed.
Lemma op_pushn_S F I n : S1 I 0 1 (op_pushn F n I).
Proof. intros Hn. unfold op_pushn. unf. brk; finQ. Qed.
Lemma op_dup_S I n : 1 <= n -> S1 I n (n + 1) (op_dup n I).
Proof. intros H1 Hn. unfold op_dup. unf. brk; finQ. Qed.
Lemma op_swap_S I n : 1 <= n -> S1 I (n + 1) (n + 1) (op_swap n I).
Proof. intros H1 Hn. unfold op_swap. unf. brk; finQ. Qed.
Lemma op_return_S I r : r <> R_StackUnderflow -> r <> R_StackOverflow -> S1 I 2 0 (op_return r I).
Proof. intros N1 N2 Hn. unfold op_return. unf. brk; finQ. Qed.
Lemma op_blobhash_S W I : S1 I 1 1 (op_blobhash W I).
Proof. intros Hn. unfold op_blobhash. unf. brk; finQ. Qed.
Lemma op_blockhash_S W I : S1 I 1 1 (op_blockhash W I).
Proof. intros Hn. unfold op_blockhash. unf. brk; finQ. Qed.
Lemma op_create_S W F I : S1 I 3 1 (op_create W F false I).
Proof. intros Hn. unfold op_create. unf. brk; finQ. Qed.
Lemma op_create2_S W F I : S1 I 4 1 (op_create W F true I).
Proof. intros Hn. unfold op_create. unf. brk; finQ. Qed.
Lemma op_gas_S I : S1 I 0 1 (with_gas G.BASE I (fun I1 => push_next (rem I1) I1)).
Proof. intros Hn. unf. brk; finQ. Qed.
Lemma op_jumpdest_S I : S1 I 0 0 (with_gas G.JUMPDEST I next).
Proof. intros Hn. unf. brk; finQ. Qed.

(* arithmetic: every opcode of Model/Arith.v *)
Ltac arith_one :=
  intros Hn; unfold op_arith; cbv beta iota delta [Arith.step];
  unfold Arith.shiftop, Arith.expop; unfold Arith.binop, Arith.unop, Arith.ternop; unfold Arith.with_gas; brk; finQ.
Lemma op_arith_S2 W I op :
  In op [0x01;0x02;0x03;0x04;0x05;0x06;0x07;0x0a;0x0b;0x10;0x11;0x12;0x13;0x14;0x16;0x17;0x18;0x1a;0x1b;0x1c;0x1d] ->
  S1 I 2 1 (op_arith W op I).
Proof. intros H. repeat (destruct H as [<-|H]; [arith_one|]). destruct H. Qed.
Lemma op_arith_S1 W I op : In op [0x15;0x19] -> S1 I 1 1 (op_arith W op I).
Proof. intros H. repeat (destruct H as [<-|H]; [arith_one|]). destruct H. Qed.
Lemma op_arith_S3 W I op : In op [0x08;0x09] -> S1 I 3 1 (op_arith W op I).
Proof. intros H. repeat (destruct H as [<-|H]; [arith_one|]). destruct H. Qed.

(* ---------------------------------------------------------------- instructions with a host part *)
Lemma HS_pure n ins outs G X x :
  Q (SP n ins outs) x -> (forall r out I', x = SEnd r out I' -> r = R_StackUnderflow \/ r = R_StackOverflow -> out = []) ->
  HS n ins outs G X (G, x).
Proof. intros HQ HO. split; [exact HQ|]. intros r out I' E Hr. cbn [fst snd] in *. split; [eapply HO; eassumption|left; reflexivity]. Qed.

(* the second half for a result that is a plain halt or comes out of the combinators: the output
   of a stack error is empty *)
Definition OE (x : sres) : Prop :=
  forall r out I', x = SEnd r out I' -> r = R_StackUnderflow \/ r = R_StackOverflow -> out = [].
Ltac finO := intros r0 out0 I0' E0 Hr0; first [discriminate E0 | injection E0 as <- <- <-; first [reflexivity | exfalso; consts; destruct Hr0; discriminate]].

Lemma OE_pop I : OE (op_pop I). Proof. unfold OE, op_pop. unf. brk; finO. Qed.
Lemma OE_push_env I v : OE (op_push_env v I). Proof. unfold OE, op_push_env. unf. brk; finO. Qed.
Lemma OE_keccak I : OE (op_keccak256 I). Proof. unfold OE, op_keccak256. unf. brk; finO. Qed.
Lemma OE_calldataload F I : OE (op_calldataload F I). Proof. unfold OE, op_calldataload. unf. brk; finO. Qed.
Lemma OE_copy I d : OE (op_copy d I). Proof. unfold OE, op_copy. unf. brk; finO. Qed.
Lemma OE_returndatacopy I : OE (op_returndatacopy I). Proof. unfold OE, op_returndatacopy. unf. brk; finO. Qed.
Lemma OE_mload I : OE (op_mload I). Proof. unfold OE, op_mload. unf. brk; finO. Qed.
Lemma OE_mstore I : OE (op_mstore I). Proof. unfold OE, op_mstore. unf. brk; finO. Qed.
Lemma OE_mstore8 I : OE (op_mstore8 I). Proof. unfold OE, op_mstore8. unf. brk; finO. Qed.
Lemma OE_mcopy I : OE (op_mcopy I). Proof. unfold OE, op_mcopy. unf. brk; finO. Qed.
Lemma OE_jump F I : OE (op_jump F I). Proof. unfold OE, op_jump. unf. brk; finO. Qed.
Lemma OE_jumpi F I : OE (op_jumpi F I). Proof. unfold OE, op_jumpi. unf. brk; finO. Qed.
Lemma OE_pushn F I n : OE (op_pushn F n I). Proof. unfold OE, op_pushn. unf. brk; finO. Qed.
Lemma OE_dup I n : OE (op_dup n I). Proof. unfold OE, op_dup. unf. brk; finO. Qed.
Lemma OE_swap I n : OE (op_swap n I). Proof. unfold OE, op_swap. unf. brk; finO. Qed.
Lemma OE_return I r : r <> R_StackUnderflow -> r <> R_StackOverflow -> OE (op_return r I).
Proof. intros N1 N2. unfold OE, op_return. unf. brk; intros r0 out0 I0' E0 Hr0; first [discriminate E0 | injection E0 as <- <- <-; first [reflexivity | exfalso; destruct Hr0; first [contradiction | consts; discriminate]]]. Qed.
Lemma OE_blobhash W I : OE (op_blobhash W I). Proof. unfold OE, op_blobhash. unf. brk; finO. Qed.
Lemma OE_blockhash W I : OE (op_blockhash W I). Proof. unfold OE, op_blockhash. unf. brk; finO. Qed.
Lemma OE_create W F b I : OE (op_create W F b I). Proof. unfold OE, op_create. unf. destruct b; brk; finO. Qed.
Lemma OE_gas I : OE (with_gas G.BASE I (fun I1 => push_next (rem I1) I1)). Proof. unfold OE. unf. brk; finO. Qed.
Lemma OE_jumpdest I : OE (with_gas G.JUMPDEST I next). Proof. unfold OE. unf. brk; finO. Qed.
Lemma OE_arith W op I : OE (op_arith W op I).
Proof. unfold OE, op_arith. destruct (Arith.i_res _); unf; finO. Qed.
Lemma OE_halt r I : OE (halt r I).
Proof. unfold OE, halt. intros r0 out0 I0' E0 _. injection E0 as _ <- _. reflexivity. Qed.

(* host instructions: the state is only changed on paths that do not end in a stack error *)
Ltac finH :=
  split; [finQ|];
  intros r0 out0 I0' E0 Hr0;
  first [discriminate E0
        | injection E0 as <- <- <-;
          first [split; [reflexivity|left; reflexivity]
                | exfalso; consts; lens; destruct Hr0 as [Hr0|Hr0]; first [discriminate Hr0 | lia]]].

Definition H1 (G : gstate) (I : istate) (ins outs : Z) (X : gstate -> Prop) (h : hres) : Prop :=
  zlen (i_stk I) <= 1024 -> HS (zlen (i_stk I)) ins outs G X h.

Lemma op_balance_S W G I : H1 G I 1 1 noX (op_balance W G I).
Proof. intros Hn. unfold HS, op_balance. unf. brk; finH. Qed.
Lemma op_extcodesize_S W G I : H1 G I 1 1 noX (op_extcodesize W G I).
Proof. intros Hn. unfold HS, op_extcodesize, host_code. unf. brk; finH. Qed.
Lemma op_extcodehash_S W G I : H1 G I 1 1 noX (op_extcodehash W G I).
Proof. intros Hn. unfold HS, op_extcodehash. unf. brk; finH. Qed.
Lemma op_extcodecopy_S W G I : H1 G I 4 0 noX (op_extcodecopy W G I).
Proof. intros Hn. unfold HS, op_extcodecopy, host_code. unf. brk; finH. Qed.
Lemma op_sload_S W G F I : H1 G I 1 1 noX (op_sload W G F I).
Proof. intros Hn. unfold HS, op_sload. unf. brk; finH. Qed.
Lemma op_sstore_S W G F I : H1 G I 2 0 noX (op_sstore W G F I).
Proof. intros Hn. unfold HS, op_sstore. unf. brk; finH. Qed.
Lemma op_tload_S G F I : H1 G I 1 1 noX (op_tload G F I).
Proof. intros Hn. unfold HS, op_tload. unf. brk; finH. Qed.
Lemma op_tstore_S G F I : H1 G I 2 0 noX (op_tstore G F I).
Proof. intros Hn. unfold HS, op_tstore. unf. brk; finH. Qed.
Lemma op_selfdestruct_S W G F I : H1 G I 1 0 noX (op_selfdestruct W G F I).
Proof. intros Hn. unfold HS, op_selfdestruct. unf. brk; finH. Qed.
(* SELFBALANCE asks the host before it pushes: on a full stack the frame ends with StackOverflow
   after the executing account has been (re-)loaded *)
Lemma op_selfbalance_S W G F I :
  H1 G I 0 1 (fun G' => G' = set_s G (fst (H.load_account (gdb W G) (gs G) (f_target F)))) (op_selfbalance W G F I).
Proof.
  intros Hn. unfold HS, op_selfbalance. unf. brk; (split; [finQ|]);
  intros r0 out0 I0' E0 Hr0; first [discriminate E0 | injection E0 as <- <- <-];
  (split; [reflexivity|]); first [left; reflexivity | right; reflexivity | right; match goal with H : H.load_account _ _ _ = _ |- _ => rewrite H end; reflexivity].
Qed.

(* LOG0..LOG4 *)
Lemma op_log_S W G F I n :
  0 <= n -> H1 G I (n + 2) 0 noX (finish_pre W G F (op_log F n I)).
Proof.
  intros H0 Hn. unfold HS, op_log. unf. brk; cbn [finish_pre fst snd];
  repeat match goal with
  | H : (zlen ?l <? n) = false |- context [skipn (Z.to_nat n) ?l] =>
      let E := fresh in assert (E : zlen (skipn (Z.to_nat n) l) = zlen l - n) by (unfold zlen in *; rewrite skipn_length; lia);
      revert E; generalize (skipn (Z.to_nat n) l); intros ? ?
  end; finH.
Qed.

(* CALL family *)
Lemma call_mem_stk I off len I2 o l : call_mem I off len = inr (I2, o, l) -> i_stk I2 = i_stk I.
Proof. unfold call_mem. brk; intros E; try discriminate; injection E as <- _ _; reflexivity. Qed.
Lemma call_mem_err I off len e : call_mem I off len = inl e ->
  forall n ins outs, Q (SP n ins outs) e /\ OE e.
Proof.
  unfold call_mem. brk; intros E; try discriminate; injection E as <-; intros n ins outs; (split; [unfold halt; finQ|]);
    first [apply OE_halt | unfold OE; intros; discriminate].
Qed.

Definition call_ins (sch : scheme) : Z := match sch with SchCall | SchCallCode => 7 | _ => 6 end.

Lemma op_call_pre_S F I sch :
  zlen (i_stk I) <= 1024 ->
  match op_call_pre F sch I with
  | PDone r => Q (SP (zlen (i_stk I)) (call_ins sch) 1) r /\ OE r
  | PLog _ _ => False
  | PCall c I3 => call_ins sch <= zlen (i_stk I) /\ zlen (i_stk I3) = zlen (i_stk I) - call_ins sch /\ cp_scheme c = sch
  end.
Proof.
  intros Hn. unfold op_call_pre.
  destruct (i_stk I) as [|lg [|to r]] eqn:ES; try (split; [unfold halt; destruct sch; finQ|apply OE_halt]).
  match goal with |- context [match ?o with Some _ => _ | None => _ end] => destruct o as [[value r1]|] eqn:EP end;
    [|split; [unfold halt; destruct sch; try discriminate; destruct r; try discriminate; finQ|apply OE_halt]].
  assert (L1 : zlen r1 = zlen (lg :: to :: r) - (call_ins sch - 4)).
  { destruct sch; cbn [call_ins]; try (destruct r; [discriminate|]); injection EP as _ <-; lens; lia. }
  destruct (value <? 0); [split; [exact Logic.I|unfold OE; intros; discriminate]|].
  match goal with |- context [if ?b then _ else _] => destruct b end; [split; [unfold halt; finQ|apply OE_halt]|].
  cbn [set_stk i_stk]. destruct r1 as [|io [|il [|oo [|ol r2]]]];
    try (split; [unfold halt; destruct sch; cbn [call_ins] in *; finQ|apply OE_halt]).
  destruct (call_mem _ io il) as [e|[[I2 io'] il']] eqn:E1; [apply (call_mem_err _ _ _ _ E1)|].
  apply call_mem_stk in E1.
  match goal with |- context [match ?o with Some _ => _ | None => _ end] => destruct o end;
    [|split; [exact Logic.I|unfold OE; intros; discriminate]].
  destruct (call_mem I2 oo ol) as [e|[[I3 oo'] ol']] eqn:E2; [apply (call_mem_err _ _ _ _ E2)|].
  apply call_mem_stk in E2. rewrite E2, E1. cbn [set_stk i_stk cp_scheme]. lens. pose proof (zlen_nonneg r2). repeat split; lia.
Qed.

Lemma op_call_post_S W G F c I n ins :
  1 <= ins <= n -> zlen (i_stk I) = n - ins ->
  HS n ins 1 G noX (op_call_post W G F c I).
Proof.
  intros L E. unfold HS, op_call_post. unf. brk;
  (split; [cbn [Q SP p_next p_call p_create p_end i_stk i_pc i_mem i_gas i_rd set_gas set_stk set_mem set_pc set_rd]; consts; first [exact Logic.I | repeat split; intros; try discriminate; lia]|]);
  intros r0 out0 I0' E0 Hr0; first [discriminate E0 | injection E0 as <- <- <-; exfalso; consts; destruct Hr0; discriminate].
Qed.

Lemma finish_call_S W G F I sch :
  H1 G I (call_ins sch) 1 noX (finish_pre W G F (op_call_pre F sch I)).
Proof.
  intros Hn. pose proof (op_call_pre_S F I sch Hn) as HP.
  destruct (op_call_pre F sch I) as [r|l I'|c I3]; cbn [finish_pre].
  - destruct HP as [A B]. split; [exact A|]. intros r0 out0 I0' E0 Hr0. cbn [fst snd] in *. split; [eapply B; eassumption|left; reflexivity].
  - destruct HP.
  - destruct HP as (A & B & _). apply op_call_post_S; [destruct sch; cbn [call_ins] in *; lia|assumption].
Qed.

(* ---------------------------------------------------------------- every instruction *)
Lemma HS_halt n ins outs G X r I :
  r <> R_StackUnderflow -> r <> R_StackOverflow -> HS n ins outs G X (G, halt r I).
Proof.
  intros N1 N2. split.
  - cbn [snd halt Q SP p_end]. split; intros; contradiction.
  - intros r0 out0 I0' E0 _. cbn [snd fst halt] in *. injection E0 as _ <- _. split; [reflexivity|left; reflexivity].
Qed.
Lemma HS_bad n ins outs G X k : HS n ins outs G X (G, SBad k).
Proof. split; [exact Logic.I|]. intros r0 out0 I0' E0. discriminate E0. Qed.

Ltac io :=
  match goal with |- context [op_io ?k] => let v := eval vm_compute in (op_io k) in change (op_io k) with v end; cbn [fst snd].

(* enumerate lo <= op <= hi with op a variable *)
Ltac enum_range op lo cnt :=
  lazymatch cnt with
  | O => exfalso; lia
  | S ?c =>
      let H := fresh "EN" in
      assert (H : op = lo \/ lo + 1 <= op) by lia;
      destruct H as [H|H]; [subst op | let lo' := eval vm_compute in (lo + 1) in enum_range op lo' c]
  end.

(* the exception of SELFBALANCE, as a function of the opcode *)
Definition stack_err_exception (W : world) (G : gstate) (F : fctx) (op : Z) : gstate -> Prop :=
  fun G' => op = 0x47 /\ G' = set_s G (fst (H.load_account (gdb W G) (gs G) (f_target F))).

Lemma HS_weaken n ins outs G (X Y : gstate -> Prop) h : (forall g, X g -> Y g) -> HS n ins outs G X h -> HS n ins outs G Y h.
Proof. intros XY [A B]. split; [exact A|]. intros r out I' E Hr. destruct (B r out I' E Hr) as [O [C|C]]; auto. Qed.

Ltac pure_op L LO := apply HS_pure; [apply L; assumption | apply LO].

Theorem step_HS W G F I :
  zlen (i_stk I) <= 1024 ->
  let op := opcode_at F (i_pc I) in
  HS (zlen (i_stk I)) (fst (op_io op)) (snd (op_io op)) G (stack_err_exception W G F op) (step W G F I).
Proof.
  intros Hn. unfold step. cbv zeta.
  set (op := opcode_at F (i_pc I)). clearbody op.
  assert (WK : forall h, HS (zlen (i_stk I)) (fst (op_io op)) (snd (op_io op)) G noX h ->
                         HS (zlen (i_stk I)) (fst (op_io op)) (snd (op_io op)) G (stack_err_exception W G F op) h).
  { intros h. apply HS_weaken. intros g []. }
  destruct (_ && f_static F); [apply HS_halt; discriminate|].
  destruct (_ =? GateSpec.C_LATER); [apply HS_halt; discriminate|].
  destruct (_ =? GateSpec.C_UNDEFINED); [apply HS_halt; discriminate|].
  destruct (_ =? GateSpec.C_EOF_ONLY); [apply HS_halt; discriminate|].
  destruct (_ =? GateSpec.C_INVALID); [apply HS_halt; discriminate|].
  destruct (GateSpec.gate (w_spec W) op GateSpec.Legacy =? GateSpec.C_DEFINED) eqn:ED; cbn [negb]; [|apply HS_bad].
  apply Z.eqb_eq in ED. apply gate_defined_cases in ED.
  repeat match goal with
  | |- HS _ _ _ _ _ (if ?b then _ else _) =>
      let C := fresh "C" in destruct b eqn:C;
      [first [apply Z.eqb_eq in C; subst op | idtac]
      |try (match type of C with (_ =? _) = false => apply Z.eqb_neq in C end)]
  end.
  (* 0x00 STOP *)
  - io. apply HS_pure; [cbn [Q SP p_end]; consts; split; intros; discriminate|]. intros r out I' E _. injection E as _ <- _. reflexivity.
  (* arithmetic *)
  - assert (R1 : 1 <= op <= 0x0b \/ 0x10 <= op <= 0x1d) by lia. apply WK. clear WK. destruct R1 as [R1|R1].
    + enum_range op 1 11%nat; io;
        (apply HS_pure; [first [apply op_arith_S2 | apply op_arith_S1 | apply op_arith_S3]; [cbn; tauto|assumption]|apply OE_arith]).
    + enum_range op 16 14%nat; io;
        (apply HS_pure; [first [apply op_arith_S2 | apply op_arith_S1 | apply op_arith_S3]; [cbn; tauto|assumption]|apply OE_arith]).
  - io. apply WK. pure_op op_keccak_S OE_keccak.
  - io. apply WK. pure_op op_push_env_S OE_push_env.
  - io. apply WK. apply op_balance_S; assumption.
  - io. apply WK. pure_op op_push_env_S OE_push_env.
  - io. apply WK. pure_op op_push_env_S OE_push_env.
  - io. apply WK. pure_op op_push_env_S OE_push_env.
  - io. apply WK. pure_op op_calldataload_S OE_calldataload.
  - io. apply WK. pure_op op_push_env_S OE_push_env.
  - io. apply WK. pure_op op_copy_S OE_copy.
  - io. apply WK. pure_op op_push_env_S OE_push_env.
  - io. apply WK. pure_op op_copy_S OE_copy.
  - io. apply WK. pure_op op_push_env_S OE_push_env.
  - io. apply WK. apply op_extcodesize_S; assumption.
  - io. apply WK. apply op_extcodecopy_S; assumption.
  - io. apply WK. pure_op op_push_env_S OE_push_env.
  - io. apply WK. pure_op op_returndatacopy_S OE_returndatacopy.
  - io. apply WK. apply op_extcodehash_S; assumption.
  - io. apply WK. pure_op op_blockhash_S OE_blockhash.
  - io. apply WK. pure_op op_push_env_S OE_push_env.
  - io. apply WK. pure_op op_push_env_S OE_push_env.
  - io. apply WK. pure_op op_push_env_S OE_push_env.
  - io. apply WK. pure_op op_push_env_S OE_push_env.
  - io. apply WK. pure_op op_push_env_S OE_push_env.
  - io. apply WK. pure_op op_push_env_S OE_push_env.
  - io. eapply HS_weaken; [|apply op_selfbalance_S; assumption]. intros g ->. split; reflexivity.
  - io. apply WK. pure_op op_push_env_S OE_push_env.
  - io. apply WK. pure_op op_blobhash_S OE_blobhash.
  - io. apply WK. pure_op op_push_env_S OE_push_env.
  - io. apply WK. pure_op op_pop_S OE_pop.
  - io. apply WK. pure_op op_mload_S OE_mload.
  - io. apply WK. pure_op op_mstore_S OE_mstore.
  - io. apply WK. pure_op op_mstore8_S OE_mstore8.
  - io. apply WK. apply op_sload_S; assumption.
  - io. apply WK. apply op_sstore_S; assumption.
  - io. apply WK. pure_op op_jump_S OE_jump.
  - io. apply WK. pure_op op_jumpi_S OE_jumpi.
  - io. apply WK. pure_op op_push_env_S OE_push_env.
  - io. apply WK. pure_op op_push_env_S OE_push_env.
  - io. apply WK. pure_op op_gas_S OE_gas.
  - io. apply WK. pure_op op_jumpdest_S OE_jumpdest.
  - io. apply WK. apply op_tload_S; assumption.
  - io. apply WK. apply op_tstore_S; assumption.
  - io. apply WK. pure_op op_mcopy_S OE_mcopy.
  - io. apply WK. pure_op op_push_env_S OE_push_env.
  (* PUSH1..PUSH32 *)
  - apply WK. clear WK. assert (R1 : 0x60 <= op <= 0x7f) by lia.
    enum_range op 96 32%nat; io; pure_op op_pushn_S OE_pushn.
  (* DUP1..DUP16 *)
  - apply WK. clear WK. assert (R1 : 0x80 <= op <= 0x8f) by lia.
    enum_range op 128 16%nat; io; (apply HS_pure; [match goal with |- Q _ (op_dup ?k I) => apply (op_dup_S I k); [lia|exact Hn] end|apply OE_dup]).
  (* SWAP1..SWAP16 *)
  - apply WK. clear WK. assert (R1 : 0x90 <= op <= 0x9f) by lia.
    enum_range op 144 16%nat; io; (apply HS_pure; [match goal with |- Q _ (op_swap ?k I) => apply (op_swap_S I k); [lia|exact Hn] end|apply OE_swap]).
  (* LOG0..LOG4 *)
  - apply WK. clear WK. assert (R1 : 0xa0 <= op <= 0xa4) by lia.
    enum_range op 160 5%nat; io; (match goal with |- HS _ _ _ _ _ (finish_pre _ _ _ (op_log _ ?k _)) => apply (op_log_S W G F I k); [lia|exact Hn] end).
  - io. apply WK. pure_op op_create_S OE_create.
  - io. apply WK. apply (finish_call_S W G F I SchCall Hn).
  - io. apply WK. apply (finish_call_S W G F I SchCallCode Hn).
  - io. apply WK. apply HS_pure; [apply op_return_S; [discriminate|discriminate|assumption]|apply OE_return; discriminate].
  - io. apply WK. apply (finish_call_S W G F I SchDelegateCall Hn).
  - io. apply WK. pure_op op_create2_S OE_create.
  - io. apply WK. apply (finish_call_S W G F I SchStaticCall Hn).
  - io. apply WK. apply HS_pure; [apply op_return_S; [discriminate|discriminate|assumption]|apply OE_return; discriminate].
  - io. apply WK. apply op_selfdestruct_S; assumption.
  - apply HS_bad.
Qed.

(* ---------------------------------------------------------------- the headline forms *)
(* one instruction, any opcode: the stack effect is that of the reflected opcode table; a stack
   error is reported exactly for the reason it names, with empty output and the transaction state
   untouched (SELFBALANCE on a full stack: after the host (re-)loaded the executing account) *)
Theorem step_stack W G F I G' x :
  zlen (i_stk I) <= 1024 -> step W G F I = (G', x) ->
  let op := opcode_at F (i_pc I) in
  let ins := fst (op_io op) in let outs := snd (op_io op) in let n := zlen (i_stk I) in
  match x with
  | SNext I' => ins <= n /\ zlen (i_stk I') = n - ins + outs /\ zlen (i_stk I') <= 1024
  | SCall _ I' | SCreate _ I' => 1 <= ins <= n /\ zlen (i_stk I') = n - ins /\ outs = 1
  | SEnd r out I' =>
      (r = R_StackUnderflow -> n < ins /\ out = [] /\ G' = G) /\
      (r = R_StackOverflow -> ins <= n /\ 1024 < n - ins + outs /\ out = [] /\
         (G' = G \/ (op = 0x47 /\ G' = set_s G (fst (H.load_account (gdb W G) (gs G) (f_target F))))))
  | SBad _ => True
  end.
Proof.
  intros Hn ES. cbv zeta. destruct (step_HS W G F I Hn) as [A B]. cbv zeta in A, B. rewrite ES in A, B. cbn [fst snd] in A, B.
  destruct x as [I'|r out I'|c I'|c I'|k]; try exact A.
  destruct A as [A1 A2]. split.
  - intros ->. pose proof (A1 eq_refl) as L. destruct (B _ _ _ eq_refl (or_introl eq_refl)) as [O [C|[C1 C2]]].
    + auto.
    + exfalso. rewrite C1 in L. change (fst (op_io 71)) with 0 in L. pose proof (zlen_nonneg (i_stk I)). lia.
  - intros ->. destruct (A2 eq_refl) as [L1 L2]. destruct (B _ _ _ eq_refl (or_intror eq_refl)) as [O C].
    split; [exact L1|]. split; [exact L2|]. split; [exact O|]. destruct C as [C|C]; [left; exact C|right; exact C].
Qed.

(* an instruction that needs more words than the stack holds never continues *)
Corollary step_short_stack_ends W G F I :
  zlen (i_stk I) <= 1024 -> zlen (i_stk I) < fst (op_io (opcode_at F (i_pc I))) ->
  match snd (step W G F I) with SEnd _ _ _ | SBad _ => True | _ => False end.
Proof.
  intros Hn Lt. destruct (step W G F I) as [G' x] eqn:ES. pose proof (step_stack W G F I G' x Hn ES) as S. cbv zeta in S. cbn [snd].
  destruct x; try exact Logic.I; lia.
Qed.

(* where the caller resumes: exactly one word (the status / the address) has been pushed *)
Lemma insert_call_stk I c r I2 : insert_call_outcome I c r = Some I2 -> exists v, i_stk I2 = v :: i_stk I.
Proof.
  unfold insert_call_outcome.
  assert (PM : forall I3 flag I4,
    (let '(m', panicked) := M.set (i_mem I3) (cq_ret_off c) (firstn (Z.to_nat (Z.min (cq_ret_len c) (zlen (ir_out r)))) (ir_out r)) in
     if panicked then None else Some (set_stk (set_mem I3 m') (flag :: i_stk I3))) = Some I4 -> i_stk I4 = flag :: i_stk I3).
  { intros I3 flag I4. destruct (M.set _ _ _) as [m' p]. destruct p; [discriminate|]. intros E. injection E as <-. reflexivity. }
  destruct (is_ok _).
  - destruct (Gas.erase_cost _ _); [|discriminate]. destruct (Gas.record_refund _ _); [|discriminate].
    intros E. apply PM in E. eexists. exact E.
  - destruct (is_revert _).
    + destruct (Gas.erase_cost _ _); [|discriminate]. intros E. apply PM in E. eexists. exact E.
    + intros E. injection E as <-. eexists. reflexivity.
Qed.
Lemma insert_create_stk I r a I2 : insert_create_outcome I r a = Some I2 -> exists v, i_stk I2 = v :: i_stk I.
Proof.
  unfold insert_create_outcome. destruct (is_ok _).
  - destruct (Gas.erase_cost _ _); [|discriminate]. destruct (Gas.record_refund _ _); [|discriminate].
    intros E. injection E as <-. eexists. reflexivity.
  - destruct (is_revert _).
    + destruct (Gas.erase_cost _ _); [|discriminate]. intros E. injection E as <-. eexists. reflexivity.
    + intros E. injection E as <-. eexists. reflexivity.
Qed.

(* along a whole run, in every frame: at most 1024 words *)
Theorem reach_stack W f G F I Gx Fx Ix :
  reach W f G F I Gx Fx Ix -> zlen (i_stk I) <= 1024 -> zlen (i_stk Ix) <= 1024.
Proof.
  apply (reach_inv W (fun _ _ I0 => zlen (i_stk I0) <= 1024)).
  - intros G0 F0 I0 G1 I1 HP ES. pose proof (step_stack W G0 F0 I0 G1 _ HP ES) as S. cbv beta iota zeta in S. lia.
  - intros G0 F0 I0 G1 c I1 Gc Fc Ic _ _ EC. apply call_child_new in EC. destruct EC as [-> _]. cbn. lia.
  - intros f0 G0 F0 I0 G1 c I1 G2 r I2 HP ES _ EI. pose proof (step_stack W G0 F0 I0 G1 _ HP ES) as S. cbv beta iota zeta in S.
    apply insert_call_stk in EI. destruct EI as [v ->]. rewrite zlen_cons. lia.
  - intros G0 F0 I0 G1 c I1 Gc Fc Ic _ _ EC. apply create_child_new in EC. destruct EC as [-> _]. cbn. lia.
  - intros f0 G0 F0 I0 G1 c I1 G2 r a I2 HP ES _ EI. pose proof (step_stack W G0 F0 I0 G1 _ HP ES) as S. cbv beta iota zeta in S.
    apply insert_create_stk in EI. destruct EI as [v ->]. rewrite zlen_cons. lia.
Qed.

(* the resumed caller has the table's effect too: inputs popped, one output pushed *)
Theorem call_stack_effect W G F I G1 c I1 r I2 :
  zlen (i_stk I) <= 1024 -> step W G F I = (G1, SCall c I1) -> insert_call_outcome I1 c r = Some I2 ->
  let ins := fst (op_io (opcode_at F (i_pc I))) in
  zlen (i_stk I2) = zlen (i_stk I) - ins + snd (op_io (opcode_at F (i_pc I))) /\ zlen (i_stk I2) <= 1024.
Proof.
  intros Hn ES EI. pose proof (step_stack W G F I G1 _ Hn ES) as S. cbv beta iota zeta in *.
  apply insert_call_stk in EI. destruct EI as [v ->]. rewrite zlen_cons. lia.
Qed.
Theorem create_stack_effect W G F I G1 c I1 r a I2 :
  zlen (i_stk I) <= 1024 -> step W G F I = (G1, SCreate c I1) -> insert_create_outcome I1 r a = Some I2 ->
  let ins := fst (op_io (opcode_at F (i_pc I))) in
  zlen (i_stk I2) = zlen (i_stk I) - ins + snd (op_io (opcode_at F (i_pc I))) /\ zlen (i_stk I2) <= 1024.
Proof.
  intros Hn ES EI. pose proof (step_stack W G F I G1 _ Hn ES) as S. cbv beta iota zeta in *.
  apply insert_create_stk in EI. destruct EI as [v ->]. rewrite zlen_cons. lia.
Qed.
