(* C10 on the composed interpreter (Model/Step.v + Model/Evm.v over Model/Host.v, Model/Frames.v):
   a frame that runs with f_static = true — and everything it calls, at any depth — leaves the
   state-visible part of the journaled state unchanged.

   "State-visible" = the observation of Proofs/HostView.v (cview_of / view_acc) with the access
   marks projected away: per address balance, nonce, code, created / selfdestructed /
   loaded-as-not-existing flags and per slot (original value, present value); transient storage;
   the log list.  What a static frame MAY change (and does): warm/cold status of accounts and
   slots, the touched flag (Transfer(0) in make_call_frame touches the call target even inside a
   static call; CALLCODE with value inside a static frame is a self-transfer that touches the
   frame's own account), whether an account / slot is held in the journaled state or still only
   in the database (not part of the observation at all), journal entries, gas.

   Structure: host operations a static frame can reach keep the projection (the SV_ lemmas); a revert is
   handled by C06 (revert_restores) through the history of the reverted frame (exec_nc_seg);
   one instruction of a static frame (step_static_GSV), the requests it issues (step_SR: the child
   of a static frame is static, never a create; CALL carries no value; CALLCODE transfers to
   itself); induction on fuel (exec_nc_static); a static frame never creates, so the full
   interpreter agrees with the create-free one on it (static_exec_nc). *)
From Coq Require Import FunctionalExtensionality.
From RevmV Require Import Base.Word Model.Step Model.Evm Proofs.StepProofs Proofs.EvmProofs
  Proofs.EvmFrameProofs Proofs.EvmHistoryProofs.
From RevmV Require Model.Frames Model.Host Proofs.HostView Proofs.HostUndo Proofs.HostGood
  Proofs.HostOps Proofs.HostOps2 Proofs.HostOps3 Proofs.HostRevert Proofs.HostMain Proofs.FramesProofs.
Local Open Scope Z_scope.

Import Host HostView.

(* ---------------------------------------------------------------- the state-visible projection *)
Record svacc := mkSV {
  sv_bal : Z; sv_nonce : Z; sv_code : Z;
  sv_created : bool; sv_selfd : bool; sv_lane : bool;
  sv_slot : Z -> Z * Z }.                       (* original, present *)

(* an account observation without touched / warm / per-slot warm *)
Definition sv_of (v : aview) : svacc :=
  mkSV (v_bal v) (v_nonce v) (v_code v) (v_created v) (v_selfd v) (v_lane v)
       (fun k => fst (v_slot v k)).

Definition static_proj (V : cview) : (Z -> svacc) * (Z -> Z -> Z) :=
  (fun a => sv_of (cv_acc V a), cv_ts V).

(* s' shows the same state as s: projections of the views equal, same logs *)
Definition SV (d : db) (s s' : jstate) : Prop :=
  static_proj (cview_of d s') = static_proj (cview_of d s) /\ logs s' = logs s.

Lemma SV_refl d s : SV d s s. Proof. split; reflexivity. Qed.
Lemma SV_trans d s1 s2 s3 : SV d s1 s2 -> SV d s2 s3 -> SV d s1 s3.
Proof. intros [A B] [C D]. split; congruence. Qed.
Lemma SV_same_view d s s' : cview_of d s' = cview_of d s -> logs s' = logs s -> SV d s s'.
Proof. intros A B. split; [rewrite A; reflexivity|exact B]. Qed.

(* the account the journaled state stands for at an address *)
Definition cur (d : db) (s : jstate) (a : Z) : account :=
  match st s a with Some acc => acc | None => account_from_db d a end.
Definition sva (d : db) (a : Z) (acc : account) : svacc :=
  mkSV (a_bal acc) (a_nonce acc) (a_code acc) (a_created acc) (a_selfd acc) (a_lane acc)
       (fun k => fst (slot_view d a acc k)).

Lemma sv_view_acc d s a : sv_of (view_acc d s a) = sva d a (cur d s a).
Proof.
  unfold view_acc, cur. destruct (st s a) as [acc|]; [reflexivity|].
  unfold sva, sv_of, account_from_db. destruct (db_basic d a) as [[[b n] c]|]; reflexivity.
Qed.

Lemma SV_intro d s s' :
  (forall x, sva d x (cur d s' x) = sva d x (cur d s x)) -> ts s' = ts s -> logs s' = logs s -> SV d s s'.
Proof.
  intros A B C. split; [|exact C]. unfold static_proj, cview_of. cbn [cv_acc cv_ts]. rewrite B.
  f_equal. extensionality x. rewrite !sv_view_acc. apply A.
Qed.

Lemma sva_ext d a acc acc' :
  a_bal acc' = a_bal acc -> a_nonce acc' = a_nonce acc -> a_code acc' = a_code acc ->
  a_created acc' = a_created acc -> a_selfd acc' = a_selfd acc -> a_lane acc' = a_lane acc ->
  (forall k, fst (slot_view d a acc' k) = fst (slot_view d a acc k)) -> sva d a acc' = sva d a acc.
Proof.
  intros A B C D E F S. unfold sva. rewrite A, B, C, D, E, F. f_equal. extensionality k. apply S.
Qed.

Lemma logs_push s e : logs (push s e) = logs s.
Proof. unfold push. destruct (journal s); reflexivity. Qed.

Lemma SV_push d s e : SV d s (push s e).
Proof.
  apply SV_intro; [|apply ts_push|apply logs_push]. intros x. unfold cur. rewrite st_push. reflexivity.
Qed.

Lemma SV_put d s a acc : sva d a acc = sva d a (cur d s a) -> SV d s (put s a acc).
Proof.
  intros E. apply SV_intro; [|reflexivity|reflexivity]. intros x. unfold cur at 1. rewrite st_put.
  destruct (x =? a) eqn:X; [apply Z.eqb_eq in X; subst; exact E|reflexivity].
Qed.

Lemma cur_some d s a acc : st s a = Some acc -> cur d s a = acc.
Proof. intros E. unfold cur. rewrite E. reflexivity. Qed.

(* ---------------------------------------------------------------- host operations of a static frame *)
Lemma SV_touch_account d s a acc : st s a = Some acc -> SV d s (touch_account s a acc).
Proof.
  intros E. unfold touch_account. destruct (a_touched acc); [apply SV_refl|].
  eapply SV_trans; [apply SV_push|]. apply SV_put. rewrite (cur_some d _ a acc) by (rewrite st_push; exact E).
  reflexivity.
Qed.

Lemma SV_touch d s a : SV d s (touch s a).
Proof. unfold touch. destruct (st s a) eqn:E; [apply SV_touch_account; exact E|apply SV_refl]. Qed.

Lemma SV_load d s a : SV d s (fst (load_account d s a)).
Proof.
  unfold load_account. destruct (st s a) as [acc|] eqn:E.
  - destruct (a_cold acc); cbn [fst]; [|apply SV_refl].
    eapply SV_trans; [apply SV_put|apply SV_push]. rewrite (cur_some d s a acc E). reflexivity.
  - assert (P : SV d s (put s a (account_from_db d a))).
    { apply SV_put. unfold cur. rewrite E. reflexivity. }
    destruct (warm_pre s a); cbn [fst]; [exact P|]. eapply SV_trans; [exact P|apply SV_push].
Qed.

Lemma SV_load_delegated d s a s' c e dc : load_account_delegated d s a = (s', c, e, dc) -> SV d s s'.
Proof.
  unfold load_account_delegated, load_code.
  pose proof (SV_load d s a) as S1. destruct (load_account d s a) as [s1 cold]. cbn [fst] in S1.
  destruct (st s1 a) as [acc|]; [|intros [= <- _ _ _]; exact S1].
  destruct (db_delegate d (a_code acc)) as [t|]; [|intros [= <- _ _ _]; exact S1].
  pose proof (SV_load d s1 t) as S2. destruct (load_account d s1 t) as [s2 dcold]. cbn [fst] in S2.
  intros [= <- _ _ _]. eapply SV_trans; eassumption.
Qed.

(* SLOAD: a slot that was only in the database is brought in with its database value (0 for an
   account created in this transaction, whose database storage is empty: HostOps.CZ) *)
Lemma SV_sload d s a k s1 v c : HostOps.CZ d s -> sload d s a k = Some (s1, v, c) -> SV d s s1.
Proof.
  intros HC. unfold sload. destruct (st s a) as [acc|] eqn:E; [|discriminate].
  destruct (a_storage acc k) as [sl|] eqn:Es.
  - destruct (s_cold sl); [|intros [= <- _ _]; apply SV_refl].
    intros [= <- _ _]. eapply SV_trans; [apply SV_put|apply SV_push].
    rewrite (cur_some d s a acc E). apply sva_ext; try reflexivity.
    intros k'. unfold slot_view. cbn [a_storage acc_storage]. unfold upd.
    destruct (k' =? k) eqn:K; [apply Z.eqb_eq in K; subst; rewrite Es|]; reflexivity.
  - intros [= <- _ _]. eapply SV_trans; [apply SV_put|apply SV_push].
    rewrite (cur_some d s a acc E). apply sva_ext; try reflexivity.
    intros k'. unfold slot_view. cbn [a_storage acc_storage]. unfold upd.
    destruct (k' =? k) eqn:K; [apply Z.eqb_eq in K; subst; rewrite Es|reflexivity].
    cbn [s_orig s_pres s_cold fst]. destruct (a_created acc) eqn:Cr; [rewrite (HC a acc E Cr k)|]; reflexivity.
Qed.

Lemma SV_checkpoint d s : SV d s (fst (checkpoint s)).
Proof. apply SV_intro; reflexivity. Qed.
Lemma SV_commit d s : SV d s (checkpoint_commit s).
Proof. apply SV_intro; reflexivity. Qed.

Lemma touch_account_touched s a acc : a_touched acc = true -> touch_account s a acc = s.
Proof. intros T. unfold touch_account. rewrite T. reflexivity. Qed.

(* CALLCODE with value inside a static frame: make_call_frame transfers from the frame's account
   to itself; the balance is debited and credited back *)
Lemma SV_transfer_self d s a v s' : transfer d s a a v = Some (s', XferOk) -> SV d s s'.
Proof.
  unfold transfer.
  pose proof (SV_load d s a) as L1. destruct (load_account d s a) as [s1 c1]. cbn [fst] in L1.
  pose proof (SV_load d s1 a) as L2. destruct (load_account d s1 a) as [s2 c2]. cbn [fst] in L2.
  destruct (st s2 a) as [fa|] eqn:E2; [|discriminate].
  pose proof (SV_touch_account d s2 a fa E2) as L3.
  destruct (st (touch_account s2 a fa) a) as [fa3|] eqn:E3; [|discriminate].
  destruct (HostOps3.touched_after s2 a fa fa3 E3 E2) as [T3 _].
  set (s3 := touch_account s2 a fa) in *.
  destruct (a_bal fa3 <? v); [discriminate|].
  rewrite st_put, Z.eqb_refl.
  rewrite !(touch_account_touched _ a (acc_bal fa3 (a_bal fa3 - v))) by exact T3.
  rewrite st_put, Z.eqb_refl. cbn [a_bal acc_bal].
  destruct (pow256 <=? a_bal fa3 - v + v); [destruct (st _ a); discriminate|].
  intros [= <-]. eapply SV_trans; [exact L1|]. eapply SV_trans; [exact L2|]. eapply SV_trans; [exact L3|].
  eapply SV_trans; [|apply SV_push]. rewrite HostOps.put_put_same. apply SV_put.
  rewrite (cur_some d s3 a fa3 E3). apply sva_ext; try reflexivity. cbn [a_bal acc_bal]. ring.
Qed.

(* a revert: C06 on the history since the checkpoint *)
Lemma revert_SV d s s1 cp h s2 s3 :
  HostOps.WF d s -> checkpoint s = (s1, cp) -> Forall okhop h ->
  run_hops d (s1, []) h = Some (s2, []) -> checkpoint_revert s2 cp = Some s3 -> SV d s s3.
Proof.
  intros W CP OK RH RV.
  destruct (HostMain.revert_restores d s h s1 cp s2 [] W CP (okhops_contract d h _ OK) RH)
    as (s3' & R & V & L & _).
  rewrite RV in R. injection R as <-. apply SV_same_view; assumption.
Qed.

(* ---------------------------------------------------------------- make_call_frame for a static callee *)
Import Frames FramesProofs.

(* the CallInputs a static frame (or STATICCALL) hands to make_call_frame: a Transfer value is
   zero, or the transfer goes from the frame's account to itself (CALLCODE) *)
Definition sci (ci : call_inputs) : Prop :=
  ci_ext_delegate ci = false /\
  match ci_value ci with
  | Transfer v => 0 <= v /\ (v = 0 \/ ci_caller ci = ci_target ci)
  | Apparent _ => True
  end.

Lemma sci_value_ok ci : sci ci -> value_ok ci.
Proof. intros [_ V]. unfold value_ok. destruct (ci_value ci); [apply V|exact Logic.I]. Qed.

Lemma mcf_SV d s cps ci s' cps' fr :
  HostOps.WF d s -> sci ci -> make_call_frame d (s, cps) ci = Some ((s', cps'), fr) -> SV d s s'.
Proof.
  intros W [XD VV]. unfold make_call_frame. rewrite XD. cbn [andb].
  destruct (depth s >? CALL_STACK_LIMIT); [intros [= <- _ _]; apply SV_refl|].
  destruct (load_account_delegated d s (ci_bytecode ci)) as [[[s1 c1] e1] dc1] eqn:L1.
  pose proof (SV_load_delegated _ _ _ _ _ _ _ L1) as S1.
  pose proof (HostOps.WF_load_delegated _ _ _ _ _ _ _ W L1) as W1.
  destruct (checkpoint s1) as [s2 cp] eqn:CP.
  assert (S2 : SV d s1 s2) by (pose proof (SV_checkpoint d s1) as X; rewrite CP in X; exact X).
  assert (Tail : forall s3 h, SV d s2 s3 -> Forall okhop h -> run_hops d (s2, []) h = Some (s3, []) ->
    match ci_precompile ci with
    | Some true => Some ((checkpoint_commit s3, cps), FResult (RPrecompile true))
    | Some false => match checkpoint_revert s3 cp with Some s4 => Some ((s4, cps), FResult (RPrecompile false)) | None => None end
    | None =>
        let '(s4, _) := load_code d s3 (ci_bytecode ci) in
        match st s4 (ci_bytecode ci) with
        | None => None
        | Some acc =>
            if a_code acc =? 0 then Some ((checkpoint_commit s4, cps), FResult RStop)
            else Some ((match db_delegate d (a_code acc) with Some t => fst (load_code d s4 t) | None => s4 end,
                        cp :: cps), FFrame cp)
        end
    end = Some ((s', cps'), fr) -> SV d s s').
  { intros s3 h S3 OK RH. destruct (ci_precompile ci) as [[|]|].
    - intros [= <- _ _]. eapply SV_trans; [exact S1|]. eapply SV_trans; [exact S2|].
      eapply SV_trans; [exact S3|apply SV_commit].
    - destruct (checkpoint_revert s3 cp) as [s4|] eqn:RV; [|discriminate]. intros [= <- _ _].
      eapply SV_trans; [exact S1|]. eapply (revert_SV d s1 s2 cp h s3 s4); eassumption.
    - unfold load_code. pose proof (SV_load d s3 (ci_bytecode ci)) as S4.
      destruct (load_account d s3 (ci_bytecode ci)) as [s4 c4]. cbn [fst] in S4.
      destruct (st s4 (ci_bytecode ci)) as [acc|]; [|discriminate].
      assert (S04 : SV d s s4).
      { eapply SV_trans; [exact S1|]. eapply SV_trans; [exact S2|]. eapply SV_trans; [exact S3|exact S4]. }
      destruct (a_code acc =? 0); [intros [= <- _ _]; eapply SV_trans; [exact S04|apply SV_commit]|].
      destruct (db_delegate d (a_code acc)) as [t|]; intros [= <- _ _]; [|exact S04].
      eapply SV_trans; [exact S04|apply SV_load]. }
  destruct (ci_value ci) as [v|v].
  - destruct VV as [V0 VV]. destruct (v =? 0) eqn:VZ.
    + apply (Tail _ [HLoad (ci_target ci); HTouch (ci_target ci)]).
      * eapply SV_trans; [apply SV_load|apply SV_touch].
      * repeat constructor.
      * reflexivity.
    + destruct VV as [->|CT]; [discriminate|]. rewrite CT.
      destruct (transfer d s2 (ci_target ci) (ci_target ci) v) as [[s3 [| |]]|] eqn:T; [| | |discriminate].
      * apply (Tail _ [HTransfer (ci_target ci) (ci_target ci) v]).
        -- eapply SV_transfer_self; exact T.
        -- repeat constructor. exact V0.
        -- cbn [run_hops run_hop]. rewrite T. reflexivity.
      * destruct (checkpoint_revert s3 cp) as [s4|] eqn:RV; [|discriminate]. intros [= <- _ _].
        eapply SV_trans; [exact S1|].
        eapply (revert_SV d s1 s2 cp [HTransfer (ci_target ci) (ci_target ci) v] s3 s4); try eassumption.
        -- repeat constructor. exact V0.
        -- cbn [run_hops run_hop]. rewrite T. reflexivity.
      * destruct (checkpoint_revert s3 cp) as [s4|] eqn:RV; [|discriminate]. intros [= <- _ _].
        eapply SV_trans; [exact S1|].
        eapply (revert_SV d s1 s2 cp [HTransfer (ci_target ci) (ci_target ci) v] s3 s4); try eassumption.
        -- repeat constructor. exact V0.
        -- cbn [run_hops run_hop]. rewrite T. reflexivity.
  - apply (Tail s2 []); [apply SV_refl|constructor|reflexivity].
Qed.

(* the invariant of C06 histories is kept by make_call_frame and by whatever a frame does *)
Lemma mcf_Inv d s0 s cps ci sc1 fr :
  HostRevert.Inv d s0 s cps -> value_ok ci -> make_call_frame d (s, cps) ci = Some (sc1, fr) ->
  HostRevert.Inv d s0 (fst sc1) (snd sc1).
Proof.
  intros I VO EM. destruct (call_hops_shape _ _ _ _ _ _ EM VO) as [OK _].
  apply call_as_hops in EM. destruct sc1 as [s1 cps1]. cbn [fst snd].
  eapply HostMain.Inv_hops; [exact I|apply okhops_contract; exact OK|exact EM].
Qed.

Lemma gseg_Inv W G G' s0 :
  gseg W G G' -> HostRevert.Inv (gdb W G) s0 (gs G) (snd (g_sc G)) ->
  HostRevert.Inv (gdb W G') s0 (gs G') (snd (g_sc G')).
Proof.
  intros [C (h & OK & _ & RH)] I. unfold gdb in *. rewrite C. unfold gs in *.
  destruct (g_sc G) as [s cps]. destruct (g_sc G') as [s' cps']. cbn [fst snd] in *.
  eapply HostMain.Inv_hops; [exact I|apply okhops_contract; exact OK|exact RH].
Qed.

(* ---------------------------------------------------------------- the same at the level of gstate *)
Definition GSV (W : world) (G G' : gstate) : Prop :=
  SV (gdb W G) (gs G) (gs G') /\ g_codes G' = g_codes G /\ g_logtab G' = g_logtab G /\ g_nlog G' = g_nlog G.

Lemma GSV_refl W G : GSV W G G.
Proof. split; [apply SV_refl|auto]. Qed.
Lemma GSV_trans W G1 G2 G3 : GSV W G1 G2 -> GSV W G2 G3 -> GSV W G1 G3.
Proof.
  intros (A & B & C & D) (A' & B' & C' & D'). unfold gdb in *. rewrite B in A'.
  split; [eapply SV_trans; eassumption|]. repeat split; congruence.
Qed.
Lemma GSV_set_s W G s : SV (gdb W G) (gs G) s -> GSV W G (set_s G s).
Proof. intros S. split; [exact S|auto]. Qed.
Lemma GSV_set_sc W G sc : SV (gdb W G) (gs G) (fst sc) -> GSV W G (set_sc G sc).
Proof. intros S. split; [exact S|auto]. Qed.

(* ---------------------------------------------------------------- one instruction of a static frame *)
Lemma GSV_load W G a : GSV W G (set_s G (fst (load_account (gdb W G) (gs G) a))).
Proof. apply GSV_set_s, SV_load. Qed.

Lemma call_post_GSV W G F c I : GSV W G (fst (op_call_post W G F c I)).
Proof.
  unfold op_call_post. destruct (load_account_delegated _ _ _) as [[[s1 x] y] z] eqn:E. cbn [fst].
  apply GSV_set_s. eapply SV_load_delegated; exact E.
Qed.

(* the reading instructions only load (any frame, static or not) *)
Lemma op_balance_GSV W G I : GSV W G (fst (op_balance W G I)).
Proof.
  unfold op_balance. destruct (i_stk I); [apply GSV_refl|].
  pose proof (GSV_load W G (addr_of_word z)) as X. destruct (load_account _ _ _). exact X.
Qed.
Lemma op_extcodesize_GSV W G I : GSV W G (fst (op_extcodesize W G I)).
Proof.
  unfold op_extcodesize, host_code, load_code. destruct (i_stk I); [apply GSV_refl|].
  pose proof (GSV_load W G (addr_of_word z)) as X. destruct (load_account _ _ _).
  destruct (code_bytes _ _); exact X.
Qed.
Lemma op_extcodecopy_GSV W G I : GSV W G (fst (op_extcodecopy W G I)).
Proof.
  unfold op_extcodecopy, host_code, load_code. destruct (i_stk I) as [|a [|b [|c [|dd r]]]]; try apply GSV_refl.
  pose proof (GSV_load W G (addr_of_word a)) as X. destruct (load_account _ _ _).
  destruct (code_bytes _ _); exact X.
Qed.
Lemma op_extcodehash_GSV W G I : GSV W G (fst (op_extcodehash W G I)).
Proof.
  unfold op_extcodehash, load_code. destruct (i_stk I); [apply GSV_refl|].
  pose proof (GSV_load W G (addr_of_word z)) as X. destruct (load_account _ _ _). exact X.
Qed.
Lemma op_selfbalance_GSV W G F I : GSV W G (fst (op_selfbalance W G F I)).
Proof.
  unfold op_selfbalance. destruct (Gas.record_cost _ _) as [g' ok]. destruct ok; [|apply GSV_refl].
  pose proof (GSV_load W G (f_target F)) as X. destruct (load_account _ _ _). exact X.
Qed.
Lemma op_sload_GSV W G F I : HostOps.CZ (gdb W G) (gs G) -> GSV W G (fst (op_sload W G F I)).
Proof.
  intros HC. unfold op_sload. destruct (i_stk I); [apply GSV_refl|].
  destruct (sload _ _ _ _) as [[[s1 v] c]|] eqn:E; [|apply GSV_refl].
  apply GSV_set_s. eapply SV_sload; [exact HC|exact E].
Qed.

(* whatever the instruction is: SSTORE / TSTORE / LOGn / SELFDESTRUCT end a static frame before
   the host is asked (CREATE / CREATE2 never ask it) *)
Lemma step_static_GSV W G F I :
  f_static F = true -> HostOps.CZ (gdb W G) (gs G) -> GSV W G (fst (step W G F I)).
Proof.
  intros ST HC. unfold step. cbv zeta.
  repeat match goal with
  | |- GSV _ _ (fst (if ?b then _ else _)) => destruct b
  end; cbn [fst]; try apply GSV_refl.
  - apply op_balance_GSV.
  - apply op_extcodesize_GSV.
  - apply op_extcodecopy_GSV.
  - apply op_extcodehash_GSV.
  - apply op_selfbalance_GSV.
  - apply op_sload_GSV; exact HC.
  - unfold op_sstore. rewrite ST. apply GSV_refl.
  - unfold op_tstore. rewrite ST. apply GSV_refl.
  - unfold op_log. rewrite ST. apply GSV_refl.
  - pose proof (op_call_pre_Q F I SchCall) as HL. destruct (op_call_pre F SchCall I); cbn [finish_pre fst];
      [apply GSV_refl|destruct HL|apply call_post_GSV].
  - pose proof (op_call_pre_Q F I SchCallCode) as HL. destruct (op_call_pre F SchCallCode I); cbn [finish_pre fst];
      [apply GSV_refl|destruct HL|apply call_post_GSV].
  - pose proof (op_call_pre_Q F I SchDelegateCall) as HL. destruct (op_call_pre F SchDelegateCall I); cbn [finish_pre fst];
      [apply GSV_refl|destruct HL|apply call_post_GSV].
  - pose proof (op_call_pre_Q F I SchStaticCall) as HL. destruct (op_call_pre F SchStaticCall I); cbn [finish_pre fst];
      [apply GSV_refl|destruct HL|apply call_post_GSV].
  - unfold op_selfdestruct. rewrite ST. apply GSV_refl.
Qed.

(* ---------------------------------------------------------------- the requests an instruction issues *)
(* what the four call instructions put into the request, relative to the issuing frame *)
Definition callreq_ok (F : fctx) (c : callreq) : Prop :=
  match cq_scheme c with
  | SchStaticCall => cq_static c = true /\ cq_transfers c = true /\ cq_value c = 0
  | SchCall => cq_static c = f_static F /\ cq_transfers c = true /\ (f_static F = true -> cq_value c = 0)
  | SchCallCode => cq_static c = f_static F /\ cq_transfers c = true /\ cq_caller c = cq_target c
  | SchDelegateCall => cq_static c = f_static F /\ cq_transfers c = false
  end.

(* a call runs its callee in static mode; it moves no value between different accounts *)
Definition sreq (c : callreq) : Prop :=
  cq_static c = true /\
  (cq_transfers c = true -> 0 <= cq_value c /\ (cq_value c = 0 \/ cq_caller c = cq_target c)).

(* a predicate on the outcome of an instruction that looks at requests only *)
Definition SRg (Pc : callreq -> Prop) (Pk : Prop) (r : sres) : Prop :=
  match r with
  | SCall c _ => Pc c
  | SCreate _ _ => Pk
  | _ => True
  end.
Definition SR (F : fctx) : sres -> Prop := SRg (callreq_ok F) (f_static F = false).
(* no request at all *)
Definition NCr : sres -> Prop := SRg (fun _ => False) True.

Section Combinators.
Variables (Pc : callreq -> Prop) (Pk : Prop).
Lemma SR_with_gas c I k : (forall I1, SRg Pc Pk (k I1)) -> SRg Pc Pk (with_gas c I k).
Proof. intros H. unfold with_gas. destruct (Gas.record_cost _ _) as [g' ok]. destruct ok; [apply H|exact Logic.I]. Qed.
Lemma SR_with_gas_opt oc I k : (forall I1, SRg Pc Pk (k I1)) -> SRg Pc Pk (with_gas_opt oc I k).
Proof. intros H. unfold with_gas_opt. destruct oc; [apply SR_with_gas; exact H|exact Logic.I]. Qed.
Lemma SR_push_next v I : SRg Pc Pk (push_next v I).
Proof. unfold push_next. destruct (_ <=? _); exact Logic.I. Qed.
Lemma SR_usize v I k : (forall x, SRg Pc Pk (k x)) -> SRg Pc Pk (usize_or_fail v I k).
Proof. intros H. unfold usize_or_fail. destruct (_ <? _); [apply H|exact Logic.I]. Qed.
Lemma SR_mem_resize I off len k : (forall I1, SRg Pc Pk (k I1)) -> SRg Pc Pk (mem_resize I off len k).
Proof.
  intros H. unfold mem_resize. destruct (Memory.resize_macro _ _ _ _) as [[[m' g'] c]|]; [|exact Logic.I].
  destruct (c =? 0); [apply H|exact Logic.I].
Qed.
Lemma SR_mem_op r I k : (forall I1, SRg Pc Pk (k I1)) -> SRg Pc Pk (mem_op r I k).
Proof. intros H. unfold mem_op. destruct r as [m' p]. destruct p; [exact Logic.I|apply H]. Qed.
End Combinators.

Ltac sr :=
  unfold SR, NCr; cbv beta zeta;
  repeat first
  [ exact Logic.I | assumption
  | progress cbn [snd]
  | apply SR_push_next
  | apply SR_with_gas; intros | apply SR_with_gas_opt; intros | apply SR_usize; intros
  | apply SR_mem_resize; intros | apply SR_mem_op; intros
  | progress cbv beta zeta
  | match goal with |- SRg _ _ (match ?x with _ => _ end) => destruct x end
  | match goal with |- SRg _ _ (snd (match ?x with _ => _ end)) => destruct x end ].

Lemma call_mem_SR F I off len :
  match call_mem I off len with inl e => SR F e | inr _ => True end.
Proof.
  unfold call_mem. destruct (pow64 <=? len); [exact Logic.I|]. destruct (len =? 0); [exact Logic.I|].
  destruct (pow64 <=? off); [exact Logic.I|].
  destruct (Memory.resize_macro _ _ _ _) as [[[m' gr] c]|]; [|exact Logic.I]. destruct (c =? 0); exact Logic.I.
Qed.

(* LOGn: in a static frame it ends the frame; otherwise it ends, or logs and continues *)
Lemma op_log_pre F n I :
  match op_log F n I with PDone r => SR F r | PLog _ _ => f_static F = false | PCall _ _ => False end.
Proof.
  unfold op_log. destruct (f_static F) eqn:ST; [exact Logic.I|].
  destruct (i_stk I) as [|off [|len r]]; try exact Logic.I.
  destruct (pow64 <=? len); [exact Logic.I|]. destruct (GasCalc.log_cost n len); [|exact Logic.I].
  destruct (Gas.record_cost _ _) as [g' ok]. destruct ok; cbn [negb]; [|exact Logic.I].
  cbv zeta.
  assert (FIN : forall I2 data,
    match (if zlen (i_stk I2) <? n then PDone (halt R_StackUnderflow I2)
           else PLog (mkLog (f_target F) (firstn (Z.to_nat n) (i_stk I2)) data)
                     (set_pc (set_stk I2 (skipn (Z.to_nat n) (i_stk I2))) (i_pc I2 + 1)))
    with PDone r => SR F r | PLog _ _ => false = false | PCall _ _ => False end).
  { intros I2 data. destruct (_ <? n); [exact Logic.I|reflexivity]. }
  destruct (len =? 0); [apply FIN|]. destruct (pow64 <=? off); [exact Logic.I|].
  destruct (Memory.resize_macro _ _ _ _) as [[[m' gr] c]|]; [|exact Logic.I].
  destruct (c =? 0); [|exact Logic.I]. destruct (Memory.slice _ _ _); [apply FIN|exact Logic.I].
Qed.

(* CALL / CALLCODE / DELEGATECALL / STATICCALL before the host is asked: the value check of CALL *)
Lemma op_call_pre_SR F sch I :
  match op_call_pre F sch I with
  | PDone r => SR F r
  | PLog _ _ => False
  | PCall c _ => cp_scheme c = sch /\ 0 <= cp_value c /\ (sch = SchCall -> f_static F = true -> cp_value c = 0)
  end.
Proof.
  unfold op_call_pre. destruct (i_stk I) as [|lg [|to r]]; try exact Logic.I.
  match goal with |- context [match ?o with Some _ => _ | None => _ end] => destruct o as [[value r1]|] end; [|exact Logic.I].
  destruct (value <? 0) eqn:VN; [exact Logic.I|]. apply Z.ltb_ge in VN.
  destruct (match sch with SchCall => _ | _ => false end) eqn:CHK; [exact Logic.I|].
  cbn [set_stk i_stk]. destruct r1 as [|io [|il [|oo [|ol r2]]]]; try exact Logic.I.
  match goal with |- context [call_mem ?I1 io il] =>
    pose proof (call_mem_SR F I1 io il) as M1; destruct (call_mem I1 io il) as [e|[[I2 io'] il']] end; [exact M1|].
  match goal with |- context [match ?o with Some _ => _ | None => _ end] => destruct o end; [|exact Logic.I].
  pose proof (call_mem_SR F I2 oo ol) as M2. destruct (call_mem I2 oo ol) as [e|[[I3 oo'] ol']]; [exact M2|].
  cbn [cp_scheme cp_value]. split; [reflexivity|]. split; [exact VN|].
  intros -> ST. rewrite ST in CHK. cbn [andb] in CHK. apply negb_false_iff, Z.eqb_eq in CHK. exact CHK.
Qed.

(* the request built once the callee is loaded *)
Lemma op_call_post_SR W G F c I :
  (cp_scheme c = SchCall -> f_static F = true -> cp_value c = 0) ->
  SR F (snd (op_call_post W G F c I)).
Proof.
  intros HV. unfold op_call_post. destruct (load_account_delegated _ _ _) as [[[s1 cold] empty] dcold].
  cbn [snd]. unfold SR. apply SR_with_gas. intros I1. apply SR_with_gas. intros I2. cbv zeta. unfold SRg, callreq_ok.
  destruct (cp_scheme c) eqn:SC; cbn [cq_scheme cq_static cq_transfers cq_value cq_caller cq_target]; auto.
Qed.

Lemma finish_call_SR W G F sch I : SR F (snd (finish_pre W G F (op_call_pre F sch I))).
Proof.
  pose proof (op_call_pre_SR F sch I) as HP. destruct (op_call_pre F sch I) as [r|l I'|c I']; cbn [finish_pre snd].
  - exact HP.
  - destruct HP.
  - destruct HP as (SC & _ & HV). apply op_call_post_SR. intros E. apply HV. congruence.
Qed.

Lemma op_create_SR W F is2 I : SR F (op_create W F is2 I).
Proof. unfold op_create. destruct (f_static F) eqn:ST; [exact Logic.I|]. sr. Qed.

(* every instruction: a call request is built as callreq_ok says; a create request comes only
   from a frame that is not static *)
Theorem step_SR W G F I : SR F (snd (step W G F I)).
Proof.
  unfold step. cbv zeta.
  repeat match goal with
  | |- SR _ (snd (if ?b then _ else _)) => destruct b
  end; cbn [snd]; try exact Logic.I;
  try apply finish_call_SR; try apply op_create_SR.
  - unfold op_arith. sr.
  - unfold op_keccak256. sr.
  - unfold op_push_env. sr.
  - unfold op_balance. sr.
  - unfold op_push_env. sr.
  - unfold op_push_env. sr.
  - unfold op_push_env. sr.
  - unfold op_calldataload. sr.
  - unfold op_push_env. sr.
  - unfold op_copy. sr.
  - unfold op_push_env. sr.
  - unfold op_copy. sr.
  - unfold op_push_env. sr.
  - unfold op_extcodesize. sr.
  - unfold op_extcodecopy. sr.
  - unfold op_push_env. sr.
  - unfold op_returndatacopy. sr.
  - unfold op_extcodehash. sr.
  - unfold op_blockhash. sr.
  - unfold op_push_env. sr.
  - unfold op_push_env. sr.
  - unfold op_push_env. sr.
  - unfold op_push_env. sr.
  - unfold op_push_env. sr.
  - unfold op_push_env. sr.
  - unfold op_selfbalance. sr.
  - unfold op_push_env. sr.
  - unfold op_blobhash. sr.
  - unfold op_push_env. sr.
  - unfold op_pop. sr.
  - unfold op_mload. sr.
  - unfold op_mstore. sr.
  - unfold op_mstore8. sr.
  - unfold op_sload. sr.
  - unfold op_sstore. sr.
  - unfold op_jump. sr.
  - unfold op_jumpi. sr.
  - unfold op_push_env. sr.
  - unfold op_push_env. sr.
  - sr.
  - sr.
  - unfold op_tload. sr.
  - unfold op_tstore. sr.
  - unfold op_mcopy. sr.
  - unfold op_push_env. sr.
  - unfold op_pushn. sr.
  - unfold op_dup. sr.
  - unfold op_swap. sr.
  - pose proof (op_log_pre F (opcode_at F (i_pc I) - 160) I) as HP.
    destruct (op_log F _ I); cbn [finish_pre snd]; [exact HP|exact Logic.I|destruct HP].
  - unfold op_return. sr.
  - unfold op_return. sr.
  - unfold op_selfdestruct. sr.
Qed.

(* ---------------------------------------------------------------- flag inheritance *)
(* a call issued by a static frame runs its callee static (whatever the call kind) and moves no
   value between different accounts *)
Lemma callreq_ok_static F c :
  f_static F = true -> callreq_ok F c -> (cq_transfers c = true -> 0 <= cq_value c) -> sreq c.
Proof.
  intros ST HS HV. unfold callreq_ok in HS. unfold sreq. destruct (cq_scheme c).
  - destruct HS as (A & B & C). split; [congruence|]. intros T. split; [apply HV; exact T|left; apply C; exact ST].
  - destruct HS as (A & B & C). split; [congruence|]. intros T. split; [apply HV; exact T|right; exact C].
  - destruct HS as (A & B). split; [congruence|]. intros T. congruence.
  - destruct HS as (A & B & C). split; [exact A|]. intros T. split; [rewrite C; reflexivity|left; exact C].
Qed.

Lemma callreq_ok_staticcall F c : cq_scheme c = SchStaticCall -> callreq_ok F c -> sreq c.
Proof.
  intros SC HS. unfold callreq_ok in HS. rewrite SC in HS. destruct HS as (A & B & C).
  split; [exact A|]. intros _. split; [rewrite C; reflexivity|left; exact C].
Qed.

Theorem step_static_req W G F I G1 c I1 :
  f_static F = true -> step W G F I = (G1, SCall c I1) -> sreq c.
Proof.
  intros ST E. pose proof (step_SR W G F I) as HS. rewrite E in HS. cbn [snd SR SRg] in HS.
  exact (callreq_ok_static F c ST HS (step_call_value _ _ _ _ _ _ _ E)).
Qed.

Theorem step_static_no_create W G F I G1 c I1 :
  f_static F = true -> step W G F I = (G1, SCreate c I1) -> False.
Proof. intros ST E. pose proof (step_SR W G F I) as HS. rewrite E in HS. cbn [snd SR SRg] in HS. congruence. Qed.

Lemma sreq_sci W c : sreq c -> sci (call_inputs_of W c).
Proof.
  intros [_ V]. split; [reflexivity|]. unfold call_inputs_of. cbn [ci_value ci_caller ci_target].
  destruct (cq_transfers c); [apply V; reflexivity|exact Logic.I].
Qed.

(* ---------------------------------------------------------------- frames *)
Definition rec_static (W : world) (rec : rec_t) : Prop :=
  forall G F I G' r s0, f_static F = true -> HostRevert.Inv (gdb W G) s0 (gs G) (snd (g_sc G)) ->
    rec G F I = XDone (G', r) -> GSV W G G'.

(* a call whose callee runs static: make_call_frame (load, checkpoint, touch or self-transfer),
   the callee with everything below it, call_return (commit, or revert = C06) *)
Lemma do_call_static W f G c G' r s0 :
  rec_static W (exec_nc f W) -> HostRevert.Inv (gdb W G) s0 (gs G) (snd (g_sc G)) -> sreq c ->
  do_call W (exec_nc f W) G c = XDone (G', r) -> GSV W G G'.
Proof.
  intros HR INV SQ ED.
  pose proof (HostMain.Inv_WF _ _ _ _ INV) as WF0.
  pose proof (sreq_sci W c SQ) as SCI.
  assert (HV : cq_transfers c = true -> 0 <= cq_value c) by (intros T; apply (proj2 SQ T)).
  pose proof ED as ED0. unfold do_call in ED. cbv zeta in ED.
  change (Fr.make_call_frame (gdb W G) (g_sc G) _)
    with (make_call_frame (gdb W G) (g_sc G) (call_inputs_of W c)) in ED.
  destruct (make_call_frame (gdb W G) (g_sc G) (call_inputs_of W c)) as [[[s1 cps1] fr]|] eqn:EM; [|discriminate].
  assert (S1 : SV (gdb W G) (gs G) s1).
  { revert EM. unfold gs in *. destruct (g_sc G) as [s cps]. cbn [fst snd] in *. intros EM.
    eapply mcf_SV; eassumption. }
  assert (INV1 : HostRevert.Inv (gdb W G) s0 s1 cps1).
  { revert EM. unfold gs in *. destruct (g_sc G) as [s cps]. cbn [fst snd] in *. intros EM.
    exact (mcf_Inv _ _ _ _ _ _ _ INV (sci_value_ok _ SCI) EM). }
  assert (GS1 : GSV W G (set_sc G (s1, cps1))) by (apply GSV_set_sc; exact S1).
  destruct fr as [fr|cp].
  - destruct fr; try discriminate; try (injection ED as <- _; exact GS1).
    match type of ED with match ?p with Some _ => _ | None => _ end = _ => destruct p end; [|discriminate].
    injection ED as <- _; exact GS1.
  - destruct (code_of_account _ _ _) as [code|]; [|discriminate].
    match type of ED with context [exec_nc f W ?g ?fr ?i] =>
      destruct (exec_nc f W g fr i) as [[G2 r2]| |k] eqn:ER end; try discriminate.
    destruct (Fr.call_return (g_sc G2) (is_ok (ir_res r2))) as [sc3|] eqn:ECR; [|discriminate].
    injection ED as <- <-.
    assert (GS2 : GSV W (set_sc G (s1, cps1)) G2) by (refine (HR (set_sc G (s1, cps1)) _ _ _ _ s0 _ INV1 ER); exact (proj1 SQ)).
    pose proof (GSV_trans _ _ _ _ GS1 GS2) as GS02.
    destruct (is_ok (ir_res r2)) eqn:OK.
    + eapply GSV_trans; [exact GS02|]. unfold Fr.call_return in ECR.
      apply GSV_set_sc. unfold gs. destruct (g_sc G2) as [s2 cps2]. destruct cps2 as [|cp2 rest]; [discriminate|].
      injection ECR as <-. cbn [fst]. apply SV_commit.
    + destruct (failed_child_restores_view W f G c _ _ s0 (s1, cps1) cp INV HV EM ED0 OK) as (V & L & _).
      destruct GS02 as (_ & C2 & T2 & N2). split; [|auto].
      destruct (load_account_delegated (gdb W G) (gs G) (cq_bytecode c)) as [[[s_ld x1] x2] x3] eqn:ELD.
      cbn [fst] in V, L. eapply SV_trans; [eapply SV_load_delegated; exact ELD|].
      apply SV_same_view; assumption.
Qed.

(* the main induction: a static frame of the create-free interpreter *)
Theorem exec_nc_static W : forall f, rec_static W (exec_nc f W).
Proof.
  induction f as [|f IH]; intros G F I G' r s0 ST INV E; [discriminate|].
  cbn [exec_nc] in E.
  pose proof (step_static_GSV W G F I ST (proj1 (proj2 (HostMain.Inv_WF _ _ _ _ INV)))) as SG.
  pose proof (gseg_Inv W G _ s0 (step_gseg W G F I) INV) as INV1.
  destruct (step W G F I) as [G1 [I1|r1 out I1|c I1|c I1|k]] eqn:ES; cbn [fst] in *; try discriminate.
  - eapply GSV_trans; [exact SG|]. eapply IH; eassumption.
  - injection E as <- _. exact SG.
  - destruct (do_call W (exec_nc f W) G1 c) as [[G2 r2]| |k] eqn:EC; try discriminate.
    pose proof (step_static_req W G F I G1 c I1 ST ES) as SQ.
    pose proof (do_call_static W f G1 c G2 r2 s0 IH INV1 SQ EC) as GC.
    pose proof (do_call_seg W _ _ _ _ _ (exec_nc_seg W f) (step_call_value _ _ _ _ _ _ _ ES) EC) as SC.
    pose proof (gseg_Inv W G1 G2 s0 SC INV1) as INV2.
    destruct (insert_call_outcome I1 c r2); [|discriminate].
    eapply GSV_trans; [exact SG|]. eapply GSV_trans; [exact GC|]. eapply IH; eassumption.
Qed.

(* ---------------------------------------------------------------- the full interpreter *)
Definition rec_static_impl (r1 r2 : rec_t) : Prop :=
  forall G F I x, f_static F = true -> r1 G F I = XDone x -> r2 G F I = XDone x.

Lemma do_call_static_impl W r1 r2 G c x :
  rec_static_impl r1 r2 -> cq_static c = true -> do_call W r1 G c = XDone x -> do_call W r2 G c = XDone x.
Proof.
  intros HI ST. unfold do_call. destruct (Fr.make_call_frame _ _ _) as [[sc1 [r|cp]]|]; try (intros E; exact E).
  destruct (code_of_account _ _ _) as [l|]; [|intros E; exact E].
  match goal with |- context [r1 ?g ?f ?i] => destruct (r1 g f i) as [[G2 r]| |k] eqn:E1 end; try discriminate.
  rewrite (HI _ (mk_fctx l (cq_input c) (cq_target c) (cq_caller c) (cq_value c) (cq_static c)) _ _ ST E1).
  intros E; exact E.
Qed.

(* a static frame never reaches CREATE / CREATE2 (they end the frame first), nor does anything
   below it: on static frames the interpreter is the create-free interpreter *)
Theorem static_exec_nc W : forall f, rec_static_impl (exec f W) (exec_nc f W).
Proof.
  induction f as [|f IH]; intros G F I x ST E; [discriminate|].
  cbn [exec] in E. cbn [exec_nc].
  pose proof (step_static_req W G F I) as HQ. pose proof (step_static_no_create W G F I) as HN.
  destruct (step W G F I) as [G1 [I1|r out I1|c I1|c I1|k]]; try exact E.
  - apply IH; assumption.
  - specialize (HQ G1 c I1 ST eq_refl).
    destruct (do_call W (exec f W) G1 c) as [[G2 r]| |k] eqn:EC; try discriminate.
    rewrite (do_call_static_impl W _ _ _ _ _ IH (proj1 HQ) EC).
    destruct (insert_call_outcome I1 c r); [apply IH; assumption|discriminate].
  - destruct (HN G1 c I1 ST eq_refl).
Qed.

Theorem exec_static_preserves W f G F I G' r s0 :
  f_static F = true -> HostRevert.Inv (gdb W G) s0 (gs G) (snd (g_sc G)) ->
  exec f W G F I = XDone (G', r) -> GSV W G G'.
Proof.
  intros ST INV E. eapply exec_nc_static; [exact ST|exact INV|]. apply static_exec_nc; eassumption.
Qed.

Theorem static_call_preserves W f G c G' r s0 :
  sreq c -> HostRevert.Inv (gdb W G) s0 (gs G) (snd (g_sc G)) ->
  do_call W (exec f W) G c = XDone (G', r) -> GSV W G G'.
Proof.
  intros SQ INV E. eapply do_call_static; [apply exec_nc_static|exact INV|exact SQ|].
  eapply do_call_static_impl; [apply static_exec_nc|exact (proj1 SQ)|exact E].
Qed.

(* ---------------------------------------------------------------- STATICCALL seen from its caller *)
(* an instruction (of any frame) that ends in a call request has only loaded the callee *)
Definition HCp (W : world) (G : gstate) (h : hres) : Prop :=
  match snd h with SCall _ _ => GSV W G (fst h) | _ => True end.
Lemma HCp_pure W G r : HCp W G (G, r).
Proof. unfold HCp. cbn [fst snd]. destruct r; try exact Logic.I. apply GSV_refl. Qed.
Lemma HCp_gsv W G h : GSV W G (fst h) -> HCp W G h.
Proof. intros X. unfold HCp. destruct (snd h); try exact Logic.I. exact X. Qed.
Lemma HCp_nc W G h : NCr (snd h) -> HCp W G h.
Proof. unfold HCp, NCr, SRg. destruct (snd h); intros X; try exact Logic.I. destruct X. Qed.
Lemma HCp_call W G F sch I : HCp W G (finish_pre W G F (op_call_pre F sch I)).
Proof.
  pose proof (op_call_pre_Q F I sch) as HL. destruct (op_call_pre F sch I); cbn [finish_pre].
  - apply HCp_pure.
  - destruct HL.
  - apply HCp_gsv, call_post_GSV.
Qed.

Lemma step_call_GSV W G F I G1 c I1 :
  HostOps.CZ (gdb W G) (gs G) -> step W G F I = (G1, SCall c I1) -> GSV W G G1.
Proof.
  intros HC E. assert (K : HCp W G (step W G F I)); [|rewrite E in K; exact K]. clear E.
  unfold step. cbv zeta.
  repeat match goal with
  | |- HCp _ _ (if ?b then _ else _) => destruct b
  end; try apply HCp_pure; try apply HCp_call.
  - apply HCp_gsv, op_balance_GSV.
  - apply HCp_gsv, op_extcodesize_GSV.
  - apply HCp_gsv, op_extcodecopy_GSV.
  - apply HCp_gsv, op_extcodehash_GSV.
  - apply HCp_gsv, op_selfbalance_GSV.
  - apply HCp_gsv, op_sload_GSV, HC.
  - apply HCp_nc. unfold op_sstore. sr.
  - apply HCp_nc. unfold op_tstore. sr.
  - pose proof (op_log_pre F (opcode_at F (i_pc I) - 160) I) as HP.
    destruct (op_log F _ I); cbn [finish_pre]; [apply HCp_pure|exact Logic.I|destruct HP].
  - apply HCp_nc. unfold op_selfdestruct. sr.
Qed.

(* STATICCALL from any frame: the instruction, make_call_frame, the callee with everything below
   it and call_return together change nothing state-visible *)
Theorem staticcall_preserves W f G F I G1 c I1 G2 r s0 :
  HostRevert.Inv (gdb W G) s0 (gs G) (snd (g_sc G)) ->
  step W G F I = (G1, SCall c I1) -> cq_scheme c = SchStaticCall ->
  do_call W (exec f W) G1 c = XDone (G2, r) -> GSV W G G2.
Proof.
  intros INV ES SC ED.
  pose proof (step_call_GSV W G F I G1 c I1 (proj1 (proj2 (HostMain.Inv_WF _ _ _ _ INV))) ES) as S1.
  pose proof (step_gseg W G F I) as SS. rewrite ES in SS. cbn [fst] in SS.
  pose proof (gseg_Inv W G G1 s0 SS INV) as INV1.
  pose proof (step_SR W G F I) as HS. rewrite ES in HS. cbn [snd SR SRg] in HS.
  eapply GSV_trans; [exact S1|].
  eapply static_call_preserves; [exact (callreq_ok_staticcall F c SC HS)|exact INV1|exact ED].
Qed.

(* ---------------------------------------------------------------- reading the projection *)
Lemma static_proj_fields V V' :
  static_proj V' = static_proj V ->
  cv_ts V' = cv_ts V /\
  forall a, v_bal (cv_acc V' a) = v_bal (cv_acc V a) /\ v_nonce (cv_acc V' a) = v_nonce (cv_acc V a) /\
            v_code (cv_acc V' a) = v_code (cv_acc V a) /\ v_created (cv_acc V' a) = v_created (cv_acc V a) /\
            v_selfd (cv_acc V' a) = v_selfd (cv_acc V a) /\ v_lane (cv_acc V' a) = v_lane (cv_acc V a) /\
            forall k, fst (v_slot (cv_acc V' a) k) = fst (v_slot (cv_acc V a) k).
Proof.
  intros E. unfold static_proj in E. injection E as E1 E2. split; [exact E2|]. intros a.
  pose proof (f_equal (fun f => f a) E1) as Ea. cbv beta in Ea. unfold sv_of in Ea.
  injection Ea as A B C D E F S. repeat (split; [assumption|]). intros k.
  exact (f_equal (fun f => f k) S).
Qed.

(* the start of a static callee reached from the start state of a transaction satisfies the
   invariant (used by the non-vacuity example) *)
Lemma Inv_after_call_frame d s ci sc1 fr :
  tx_start d s -> value_ok ci -> make_call_frame d (s, []) ci = Some (sc1, fr) ->
  HostRevert.Inv d (virtual0 s) (fst sc1) (snd sc1).
Proof. intros T VO EM. eapply mcf_Inv; [apply Inv_tx_start; exact T|exact VO|exact EM]. Qed.

(* ---------------------------------------------------------------- every attempt fails the frame *)
Lemma gate_legacy_cases s b :
  GateSpec.gate s b GateSpec.Legacy = GateSpec.C_INVALID \/ GateSpec.gate s b GateSpec.Legacy = GateSpec.C_EOF_ONLY \/
  GateSpec.gate s b GateSpec.Legacy = GateSpec.C_UNDEFINED \/ GateSpec.gate s b GateSpec.Legacy = GateSpec.C_DEFINED \/
  GateSpec.gate s b GateSpec.Legacy = GateSpec.C_LATER.
Proof.
  unfold GateSpec.gate. destruct (b =? GateSpec.INVALID); auto. destruct (GateSpec.eof_only b); auto.
  destruct (GateSpec.legacy_intro b); auto. destruct (GateSpec.enabled s z); auto.
Qed.

(* SSTORE, TSTORE, LOG0-4, CREATE, CREATE2, SELFDESTRUCT *)
Definition static_refused (op : Z) : Prop :=
  op = 0x55 \/ op = 0x5d \/ 0xa0 <= op <= 0xa4 \/ op = 0xf0 \/ op = 0xf5 \/ op = 0xff.

(* a failing end of the frame: neither ok nor revert (all gas is consumed, the checkpoint is reverted) *)
Definition fails_frame (G : gstate) (h : hres) : Prop :=
  exists r I', h = (G, SEnd r [] I') /\ is_ok r = false /\ is_revert r = false.

Ltac dispatch :=
  repeat match goal with
  | |- fails_frame _ (if ?b then _ else _) =>
      let H := fresh "D" in
      destruct b eqn:H;
      [first [apply Z.eqb_eq in H | apply Z.leb_le in H]; try (exfalso; lia)
      |first [apply Z.eqb_neq in H | apply Z.leb_gt in H]]
  end.
Ltac failed := eexists; eexists; split; [reflexivity|split; reflexivity].

Lemma step_gate_fails W G F I (body : hres) :
  let op := opcode_at F (i_pc I) in
  let c := GateSpec.gate (w_spec W) op GateSpec.Legacy in
  fails_frame G body ->
  fails_frame G
   (if c =? GateSpec.C_LATER then (G, halt R_NotActivated I)
    else if c =? GateSpec.C_UNDEFINED then (G, halt R_OpcodeNotFound I)
    else if c =? GateSpec.C_EOF_ONLY then (G, halt R_EOFOpcodeDisabledInLegacy I)
    else if c =? GateSpec.C_INVALID then (G, halt R_InvalidFEOpcode I)
    else if negb (c =? GateSpec.C_DEFINED) then (G, SBad BAD_UNSUPPORTED)
    else body).
Proof.
  intros op c HB. pose proof (gate_legacy_cases (w_spec W) op) as GC. fold c in GC.
  destruct (c =? GateSpec.C_LATER) eqn:C1; [failed|]. destruct (c =? GateSpec.C_UNDEFINED) eqn:C2; [failed|].
  destruct (c =? GateSpec.C_EOF_ONLY) eqn:C3; [failed|]. destruct (c =? GateSpec.C_INVALID) eqn:C4; [failed|].
  destruct (c =? GateSpec.C_DEFINED) eqn:C5; cbn [negb]; [exact HB|].
  apply Z.eqb_neq in C1, C2, C3, C4, C5. exfalso. intuition congruence.
Qed.

(* in a static frame each of these instructions ends the frame with a failure, before the
   journaled state is asked for anything *)
Theorem step_static_mutation_fails W G F I :
  f_static F = true -> static_refused (opcode_at F (i_pc I)) -> fails_frame G (step W G F I).
Proof.
  intros ST HR. unfold step. cbv zeta. rewrite ST, andb_true_r. unfold static_refused in HR.
  set (op := opcode_at F (i_pc I)) in *.
  destruct (op =? 0xf5) eqn:C0; [failed|]. apply Z.eqb_neq in C0.
  apply step_gate_fails. dispatch.
  - unfold op_sstore. rewrite ST. failed.
  - unfold op_tstore. rewrite ST. failed.
  - unfold op_log. rewrite ST. cbn [finish_pre]. failed.
  - unfold op_create. rewrite ST. failed.
  - unfold op_selfdestruct. rewrite ST. failed.
  - exfalso. lia.
Qed.

(* CALL with a non-zero value operand *)
Theorem step_static_value_call_fails W G F I lg to v rest :
  f_static F = true -> opcode_at F (i_pc I) = 0xf1 -> i_stk I = lg :: to :: v :: rest -> 0 < v ->
  fails_frame G (step W G F I).
Proof.
  intros ST HO HS HV. unfold step. cbv zeta. rewrite ST, andb_true_r.
  set (op := opcode_at F (i_pc I)) in *.
  destruct (op =? 0xf5) eqn:C0; [failed|]. apply Z.eqb_neq in C0.
  apply step_gate_fails. dispatch.
  - unfold op_call_pre. rewrite HS, ST. cbn [andb].
    destruct (v <? 0) eqn:V0; [apply Z.ltb_lt in V0; lia|].
    destruct (v =? 0) eqn:V1; [apply Z.eqb_eq in V1; lia|]. cbn [negb finish_pre]. failed.
  - exfalso. lia.
Qed.
