(* C08 part 4: a whole transaction = deduct_caller; the frames (an operation history on the
   journaled state, C07); reimburse_caller; reward_beneficiary. The fee arithmetic is the
   settlement model of C09 (Model/Settlement.v). *)
From Coq Require Import FunctionalExtensionality Lia.
From RevmV Require Import Base.Word Model.Gas Model.Envelope Model.Settlement Proofs.SettlementProofs.
From RevmV Require Import Model.Host Model.Ether Proofs.HostView Proofs.HostUndo Proofs.HostGood
  Proofs.HostOps Proofs.HostOps2 Proofs.HostOps3 Proofs.HostOps4 Proofs.HostRevert Proofs.HostMain
  Model.Frames Proofs.FramesProofs Proofs.EtherProofs Proofs.EtherOps Proofs.EtherHist Proofs.EtherFrames.
Local Open Scope Z_scope.

Lemma sat256_range x : in_u256 (sat256 x).
Proof.
  unfold sat256, in_u256. destruct (x <? 0) eqn:A; [unfold_pows; lia|].
  destruct (x <? pow256) eqn:B; [apply Z.ltb_ge in A; apply Z.ltb_lt in B; lia|unfold_pows; lia].
Qed.

Lemma deduct_range spec e b b1 : deduct_caller_inner spec e b = Some b1 -> in_u256 b1.
Proof.
  unfold deduct_caller_inner. destruct (enabled spec CANCUN).
  - destruct (calc_data_fee e); [|discriminate]. intros [= <-]. apply sat256_range.
  - intros [= <-]. apply sat256_range.
Qed.

(* what runs between deduct_caller and reimburse_caller: an operation history, or a tree of frame
   events (Model/Frames.v) *)
Definition exec_hist (d : db) (h : list hop) (s1 s2 : jstate) : Prop :=
  contract8 d (s1, []) h /\ exists cps, run_hops d (s1, []) h = Some (s2, cps).
Definition exec_frames (d : db) (es : list fevent) (s1 s2 : jstate) : Prop :=
  econtract8 d (s1, []) es /\ exists cps, frun d (s1, []) es = Some (s2, cps).

(* the journaled state of a transaction at its five stations *)
Record tx_stations (d : db) (spec : Z) (e : env) (floor : Z) (f : frame_result) (auth : Z)
       (caller cb : Z) (reward : bool) (exec : jstate -> jstate -> Prop)
       (s0 s1 s2 s3 s4 : jstate) (stl : settlement) : Prop := mkTxS {
  (* deduct_caller: the loaded sender is rewritten with the balance of deduct_caller_inner
     (nonce bump and touch leave balance and created flag alone) *)
  ts_sender : exists facc facc1 b1,
      st s0 caller = Some facc /\ deduct_caller_inner spec e (a_bal facc) = Some b1 /\
      a_bal facc1 = b1 /\ (a_created facc1 = true -> a_created facc = true) /\
      s1 = put s0 caller facc1;
  (* the frames *)
  ts_exec : exec s1 s2;
  (* the settlement arithmetic of C09 on the balances the execution left *)
  ts_settle : settle spec e floor f auth (bal d s0 caller) (bal d s2 caller - bal d s1 caller) (bal d s2 cb) = Some stl;
  (* reimburse_caller writes the sender, reward_beneficiary (if enabled) loads and writes the beneficiary *)
  ts_reimburse : exists facc2, st s2 caller = Some facc2 /\ s3 = put s2 caller (acc_bal facc2 (st_caller stl));
  ts_reward : if reward
              then exists cacc, st (fst (load_account d s3 cb)) cb = Some cacc /\
                                s4 = put (fst (load_account d s3 cb)) cb (acc_bal (acc_touched cacc true) (st_coinbase stl))
              else s4 = s3
}.

Lemma tx_conserves_gen d us spec e initial floor f auth caller cb reward (exec : jstate -> jstate -> Prop) s0 s1 s2 s3 s4 stl :
  (forall x y, WF d x -> exec x y ->
     total d y us = total d x us - (jburn (journal y) - jburn (journal x)) /\ WF d y) ->
  WF d s0 -> NoDup us -> In caller us -> In cb us -> caller <> cb ->
  tx_stations d spec e floor f auth caller cb reward exec s0 s1 s2 s3 s4 stl ->
  validated spec e initial floor f auth (bal d s0 caller) (bal d s2 caller - bal d s1 caller) (bal d s2 cb) ->
  bal d s2 cb + tip spec e * st_gas_used stl < pow256 ->
  total d s4 us =
    total d s0 us
    - (if enabled spec LONDON then b_basefee (e_block e) * st_gas_used stl else 0)
    - blob_fee spec e
    - (jburn (journal s2) - jburn (journal s0))
    - (if reward then 0 else tip spec e * st_gas_used stl).
Proof.
  intros Hex W ND Ic Ib Ncb [Hs He Hst [facc2 [E2 E3]] Hrw] V NS.
  destruct Hs as (facc & facc1 & b1 & E0 & Hd & Hb1 & Hcr & E1).
  (* station 1 *)
  assert (W1 : WF d s1).
  { subst s1. eapply WF_put_bal; [exact W|exact E0| |exact Hcr]. rewrite Hb1. eapply deduct_range; eauto. }
  assert (T1 : total d s1 us = total d s0 us - bal d s0 caller + b1).
  { subst s1. rewrite (total_put d s0 caller facc1 us ND Ic), Hb1. reflexivity. }
  assert (B1 : bal d s1 caller = b1) by (subst s1; rewrite bal_put, Z.eqb_refl; exact Hb1).
  assert (J1 : journal s1 = journal s0) by (subst s1; reflexivity).
  (* station 2 *)
  destruct (Hex s1 s2 W1 He) as [T2 W2].
  (* station 3 *)
  destruct (sender_pays _ _ _ _ _ _ _ _ _ V stl Hst) as [Pay _].
  assert (T3 : total d s3 us = total d s2 us - bal d s2 caller + st_caller stl).
  { subst s3. rewrite (total_put d s2 caller _ us ND Ic). reflexivity. }
  assert (B3 : bal d s3 cb = bal d s2 cb).
  { subst s3. rewrite bal_put. rewrite (eqb_ne cb caller) by congruence. reflexivity. }
  destruct (beneficiary_receives _ _ _ _ _ _ _ _ _ V stl Hst) as (_ & Rcv & _).
  specialize (Rcv NS).
  assert (Tip : effective_gas_price e - tip spec e =
                if enabled spec LONDON then b_basefee (e_block e) else 0).
  { unfold tip. destruct (enabled spec LONDON); lia. }
  rewrite B1 in *. rewrite J1 in T2.
  destruct reward.
  - destruct Hrw as (cacc & Ec & E4).
    pose proof (same8_load d s3 cb) as SL.
    assert (N3 : journal s3 <> []) by (subst s3; rewrite journal_put; apply W2).
    specialize (SL N3).
    assert (T4 : total d s4 us = total d s3 us - bal d s3 cb + st_coinbase stl).
    { subst s4. rewrite (total_put d _ cb _ us ND Ib). cbn [a_bal acc_bal].
      rewrite (same8_total d s3 _ us SL). destruct SL as [SB _]. rewrite SB. reflexivity. }
    rewrite T4, T3, T2, T1, B3.
    destruct (enabled spec LONDON); nia.
  - subst s4. rewrite T3, T2, T1.
    destruct (enabled spec LONDON); nia.
Qed.

Theorem tx_conserves d us spec e initial floor f auth caller cb reward h s0 s1 s2 s3 s4 stl :
  WF d s0 -> NoDup us -> In caller us -> In cb us -> caller <> cb -> covers us h ->
  tx_stations d spec e floor f auth caller cb reward (exec_hist d h) s0 s1 s2 s3 s4 stl ->
  validated spec e initial floor f auth (bal d s0 caller) (bal d s2 caller - bal d s1 caller) (bal d s2 cb) ->
  bal d s2 cb + tip spec e * st_gas_used stl < pow256 ->
  total d s4 us =
    total d s0 us
    - (if enabled spec LONDON then b_basefee (e_block e) * st_gas_used stl else 0)
    - blob_fee spec e
    - (jburn (journal s2) - jburn (journal s0))
    - (if reward then 0 else tip spec e * st_gas_used stl).
Proof.
  intros W ND Ic Ib Ncb Cov. apply tx_conserves_gen; auto.
  intros x y Wx [C [cps R]]. eapply history_conserves; eauto.
Qed.

Theorem tx_conserves_frames d us spec e initial floor f auth caller cb reward es s0 s1 s2 s3 s4 stl :
  WF d s0 -> NoDup us -> In caller us -> In cb us -> caller <> cb -> ecovers us es ->
  tx_stations d spec e floor f auth caller cb reward (exec_frames d es) s0 s1 s2 s3 s4 stl ->
  validated spec e initial floor f auth (bal d s0 caller) (bal d s2 caller - bal d s1 caller) (bal d s2 cb) ->
  bal d s2 cb + tip spec e * st_gas_used stl < pow256 ->
  total d s4 us =
    total d s0 us
    - (if enabled spec LONDON then b_basefee (e_block e) * st_gas_used stl else 0)
    - blob_fee spec e
    - (jburn (journal s2) - jburn (journal s0))
    - (if reward then 0 else tip spec e * st_gas_used stl).
Proof.
  intros W ND Ic Ib Ncb Cov. apply tx_conserves_gen; auto.
  intros x y Wx [C [cps R]]. eapply frames_conserve; eauto.
Qed.
