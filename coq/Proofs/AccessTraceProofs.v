(* The whole-transaction trace oracle (Spec/AccessTrace.v) is the accessed-set specification
   (Spec/AccessSpec.v spec_run) on the translated operation history. *)
From RevmV Require Import Base.Word Model.Host Spec.AccessSpec Spec.TxWarmSpec Spec.AccessTrace.
Local Open Scope Z_scope.

Lemma spec_run_cons ws o r an anr :
  spec_run ws (o :: r) (an :: anr) =
  let '(ws1, a) := spec_step ws o an in
  let '(ws2, ar) := spec_run ws1 r anr in (ws2, a :: ar).
Proof. reflexivity. Qed.

(* one event: the history of the event, run by spec_step, gives the same sets and the same answers *)
Lemma trace_step_is_spec_run dl ws e r anr :
  spec_run ws (hops_of e ++ r) (anns_of dl e ++ anr) =
  let '(ws1, a) := trace_step dl ws e in
  let '(ws2, ar) := spec_run ws1 r anr in
  (ws2, match e with
        | TCreate _ true => [a; []] ++ ar
        | _ => a :: ar
        end).
Proof.
  destruct ws as [w stk].
  destruct e as [op a g ch res|a k g ch res|op a chk ch|s t|a k v| |a reached|ok];
    cbn [hops_of anns_of app trace_step].
  - rewrite spec_run_cons. cbn [spec_step]. destruct (acc_access w a) as [w1 c].
    destruct (spec_run (w1, stk) r anr); reflexivity.
  - rewrite spec_run_cons. cbn [spec_step]. destruct (slot_access w a k) as [w1 c].
    destruct (spec_run (w1, stk) r anr); reflexivity.
  - rewrite spec_run_cons. cbn [spec_step an_deleg]. destruct (acc_access w a) as [w1 c].
    destruct (dl a) as [t|].
    + destruct (acc_access w1 t) as [w2 c2]. destruct (spec_run (w2, stk) r anr); reflexivity.
    + destruct (spec_run (w1, stk) r anr); reflexivity.
  - rewrite spec_run_cons. cbn [spec_step]. destruct (acc_access w t) as [w1 c].
    destruct (spec_run (w1, stk) r anr); reflexivity.
  - rewrite spec_run_cons. cbn [spec_step]. destruct (slot_access w a k) as [w1 c].
    destruct (spec_run (w1, stk) r anr); reflexivity.
  - rewrite spec_run_cons. cbn [spec_step]. destruct (spec_run (w, w :: stk) r anr); reflexivity.
  - destruct reached; cbn [app].
    + rewrite spec_run_cons. cbn [spec_step]. destruct (acc_access w a) as [w1 c].
      rewrite spec_run_cons. cbn [spec_step].
      destruct (spec_run (w1, w1 :: stk) r anr); reflexivity.
    + rewrite spec_run_cons. cbn [spec_step]. destruct (spec_run (w, w :: stk) r anr); reflexivity.
  - destruct ok; cbn [app]; rewrite spec_run_cons; cbn [spec_step]; destruct stk as [|w0 stk'];
      match goal with |- context [spec_run ?x r anr] => destruct (spec_run x r anr) end; reflexivity.
Qed.

(* all events: same final sets and snapshots, same sequence of is_cold answers *)
Theorem trace_run_is_spec_run :
  forall dl tr ws,
    fst (trace_run dl ws tr) = fst (spec_run ws (trace_hops tr) (trace_anns dl tr)) /\
    concat (snd (trace_run dl ws tr)) = concat (snd (spec_run ws (trace_hops tr) (trace_anns dl tr))).
Proof.
  intros dl tr. induction tr as [|e r IH]; intros ws.
  - split; reflexivity.
  - cbn [trace_run trace_hops trace_anns]. rewrite trace_step_is_spec_run.
    destruct (trace_step dl ws e) as [ws1 a]. specialize (IH ws1).
    destruct (trace_run dl ws1 r) as [ws2 ar]. destruct (spec_run ws1 (trace_hops r) (trace_anns dl r)) as [ws3 br].
    cbn [fst snd] in *. destruct IH as [IH1 IH2]. split; [exact IH1|].
    destruct e as [| | | | | |? [|]|]; cbn [concat app]; rewrite ?app_nil_l, IH2; reflexivity.
Qed.

(* the per-event answers are determined by the flat sequence: every event has a fixed number of
   answers (given which callees delegate) *)
Definition n_answers (dl : Z -> option Z) (e : tev) : nat :=
  match e with
  | TAcct _ _ _ _ _ | TSload _ _ _ _ _ | TSelfdestruct _ _ | TSstore _ _ _ => 1
  | TCall _ a _ _ => match dl a with Some _ => 2 | None => 1 end
  | TCreate _ reached => if reached then 1 else 0
  | TOpen | TClose _ => 0
  end%nat.
Lemma trace_step_n_answers dl ws e : length (snd (trace_step dl ws e)) = n_answers dl e.
Proof.
  destruct ws as [w stk]. destruct e as [| | ? a ? ?| | | |? [|]|]; cbn [trace_step n_answers];
    repeat match goal with
    | |- context [acc_access ?x ?y] => destruct (acc_access x y)
    | |- context [slot_access ?x ?y ?z] => destruct (slot_access x y z)
    | |- context [dl ?x] => destruct (dl x)
    | |- context [match ?s with [] => _ | _ :: _ => _ end] => destruct s
    end; reflexivity.
Qed.

(* ------------------------------------------------------------------ the rule list of Spec/TxWarmSpec.v *)
From RevmV Require Import Spec.GateSpec.

Lemma mem_z_In l a : mem_z l a = true <-> In a l.
Proof.
  induction l as [|x r IH]; cbn [mem_z In]; [split; [discriminate|tauto]|].
  rewrite Bool.orb_true_iff, Z.eqb_eq, IH. tauto.
Qed.

Lemma tx_rules :
  forall tx,
    tx_prewarmed tx (tw_sender tx) = true /\
    tx_prewarmed tx (tw_dest tx) = true /\
    (forall a, is_precompile (tw_spec tx) a = true -> tx_prewarmed tx a = true) /\
    (enabled (tw_spec tx) SHANGHAI = true -> tx_prewarmed tx (tw_coinbase tx) = true) /\
    (forall a, prague tx = true -> In a (fst (tx_after_auths tx)) -> tx_prewarmed tx a = true) /\
    (forall t, prague tx = true -> tw_is_create tx = false -> deleg_of tx (tw_dest tx) = Some t ->
               tx_prewarmed tx t = true) /\
    (forall a k, as_slot (tx_initial_sets tx) a k = al_slot (tw_al tx) a k) /\
    (forall a, a <> tw_sender tx -> a <> tw_dest tx -> is_precompile (tw_spec tx) a = false ->
               (enabled (tw_spec tx) SHANGHAI = true -> a <> tw_coinbase tx) ->
               (prague tx = true -> ~ In a (fst (tx_after_auths tx)) /\
                                    deleg_of tx (tw_dest tx) <> Some a) ->
               al_acc (tw_al tx) a = false -> as_acc (tx_initial_sets tx) a = false).
Proof.
  intros tx. unfold tx_prewarmed.
  split; [rewrite Z.eqb_refl; reflexivity|].
  split; [rewrite Z.eqb_refl, Bool.orb_true_r; reflexivity|].
  split; [intros a H; rewrite H, !Bool.orb_true_r; reflexivity|].
  split; [intros H; rewrite H, Z.eqb_refl; cbn [andb]; rewrite !Bool.orb_true_r; reflexivity|].
  split; [intros a P H; apply mem_z_In in H; rewrite P, H; cbn [andb]; rewrite !Bool.orb_true_r; reflexivity|].
  split; [intros t P Cr D; rewrite P, Cr, D; cbn [andb negb opt_is]; rewrite Z.eqb_refl, !Bool.orb_true_r; reflexivity|].
  split; [reflexivity|].
  intros a Hs Hd Hp Hc Hpr Hal. cbn [tx_initial_sets initial_sets as_acc]. unfold tx_prewarmed.
  rewrite Hal, Hp, Bool.orb_false_r.
  apply Z.eqb_neq in Hs, Hd. rewrite Hs, Hd. cbn [orb].
  assert (enabled (tw_spec tx) SHANGHAI && (a =? tw_coinbase tx) = false) as E1.
  { destruct (enabled (tw_spec tx) SHANGHAI); [|reflexivity]. cbn [andb]. apply Z.eqb_neq. auto. }
  rewrite E1. cbn [orb].
  destruct (prague tx) eqn:P; [|reflexivity]. cbn [andb].
  destruct (Hpr eq_refl) as (H2 & H3).
  assert (mem_z (fst (tx_after_auths tx)) a = false) as E2.
  { destruct (mem_z (fst (tx_after_auths tx)) a) eqn:M; [|reflexivity]. apply mem_z_In in M. contradiction. }
  rewrite E2. cbn [orb].
  destruct (negb (tw_is_create tx)); [|reflexivity]. cbn [andb].
  destruct (deleg_of tx (tw_dest tx)) as [t|]; [|reflexivity]. cbn [opt_is].
  apply Z.eqb_neq. intros ->. apply H3. reflexivity.
Qed.
