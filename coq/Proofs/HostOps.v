(* Every journaled operation of the host model is a Good step (Proofs/HostGood.v), and keeps
   the well-formedness invariant. *)
From Coq Require Import FunctionalExtensionality.
From RevmV Require Import Base.Word Model.Host Proofs.HostView Proofs.HostUndo Proofs.HostGood.
Local Open Scope Z_scope.

(* ------------------------------------------------------------------ state equalities *)
Lemma jstate_ext s s' :
  st s = st s' -> ts s = ts s' -> logs s = logs s' -> depth s = depth s' -> journal s = journal s' ->
  spurious s = spurious s' -> cancun s = cancun s' -> warm_pre s = warm_pre s' -> s = s'.
Proof. destruct s, s'. cbn. intros; subst; reflexivity. Qed.

Lemma put_put_same s a x y : put (put s a x) a y = put s a y.
Proof. unfold put, set_st. cbn. rewrite upd_upd. reflexivity. Qed.
Lemma put_put_comm s a b x y : a <> b -> put (put s a x) b y = put (put s b y) a x.
Proof.
  intros N. unfold put, set_st. cbn. f_equal. extensionality z. unfold upd.
  destruct (z =? b) eqn:B; destruct (z =? a) eqn:A; try reflexivity.
  apply Z.eqb_eq in A, B. congruence.
Qed.
Lemma put_id s a acc : st s a = Some acc -> put s a acc = s.
Proof. intros E. destruct s. unfold put, set_st. cbn in *. f_equal. rewrite <- E. apply upd_id. Qed.

Lemma touch_account_put_comm s t ta f fa :
  f <> t -> touch_account (put s f fa) t ta = put (touch_account s t ta) f fa.
Proof.
  intros N. unfold touch_account. destruct (a_touched ta); [reflexivity|].
  rewrite <- !push_put. rewrite (put_put_comm s f t) by exact N. reflexivity.
Qed.

(* ------------------------------------------------------------------ arithmetic *)
Lemma wrap_wrap_add_sub b v : in_u256 b -> wrap256 (wrap256 (b + v) - v) = b.
Proof.
  intros H. unfold wrap256. rewrite Zminus_mod_idemp_l.
  replace (b + v - v) with b by ring. apply Z.mod_small. exact H.
Qed.
Lemma wrap_wrap_sub_add b v : in_u256 b -> wrap256 (wrap256 (b - v) + v) = b.
Proof.
  intros H. unfold wrap256. rewrite Zplus_mod_idemp_l.
  replace (b - v + v) with b by ring. apply Z.mod_small. exact H.
Qed.
Lemma wrap_sub_add b v : in_u256 b -> wrap256 (b - v + v) = b.
Proof. intros H. replace (b - v + v) with b by ring. apply wrap256_id. exact H. Qed.
Lemma wrap_add_sub b v : in_u256 b -> wrap256 (b + v - v) = b.
Proof. intros H. replace (b + v - v) with b by ring. apply wrap256_id. exact H. Qed.

(* ------------------------------------------------------------------ well-formedness *)
Definition WFb (d : db) (s : jstate) : Prop :=
  (forall a acc, st s a = Some acc -> in_u256 (a_bal acc)) /\
  (forall a b n c, db_basic d a = Some (b, n, c) -> in_u256 b).
(* a created account has no storage in the database (has_storage answered truthfully) *)
Definition CZ (d : db) (s : jstate) : Prop :=
  forall a acc, st s a = Some acc -> a_created acc = true -> forall k, db_storage d a k = 0.
Definition WF (d : db) (s : jstate) : Prop := WFb d s /\ CZ d s /\ journal s <> [].

Lemma WFb_put d s a acc : WFb d s -> in_u256 (a_bal acc) -> WFb d (put s a acc).
Proof.
  intros [A B] H. split; [|exact B]. intros x ac. rewrite st_put.
  destruct (x =? a); [intros [= <-]; exact H|apply A].
Qed.
Lemma WFb_push d s e : WFb d s -> WFb d (push s e).
Proof. intros [A B]. split; [|exact B]. intros x ac. rewrite st_push. apply A. Qed.
Lemma CZ_put d s a acc acc' :
  CZ d s -> st s a = Some acc -> (a_created acc' = true -> a_created acc = true) -> CZ d (put s a acc').
Proof.
  intros C E H x ac. rewrite st_put. destruct (x =? a) eqn:X.
  - apply Z.eqb_eq in X. subst. intros [= <-] Hc. eapply C; eauto.
  - apply C.
Qed.
Lemma CZ_push d s e : CZ d s -> CZ d (push s e).
Proof. intros C x ac. rewrite st_push. apply C. Qed.

Lemma from_db_bal d s a : WFb d s -> in_u256 (a_bal (account_from_db d a)).
Proof.
  intros [_ B]. unfold account_from_db. destruct (db_basic d a) as [[[b n] c]|] eqn:E; cbn.
  - eapply B; eauto.
  - unfold_pows. lia.
Qed.

Lemma WF_touch_account d s a acc : WF d s -> st s a = Some acc -> WF d (touch_account s a acc).
Proof.
  intros (A & B & C) E. unfold touch_account. destruct (a_touched acc); [exact (conj A (conj B C))|].
  split; [|split].
  - apply WFb_put; [apply WFb_push; exact A|]. destruct A as [A _]. apply (A a acc E).
  - eapply CZ_put; [apply CZ_push; exact B|rewrite st_push; exact E|auto].
  - cbn [journal put set_st]. unfold push. destruct (journal s); cbn; congruence.
Qed.

Lemma WF_load d s a : WF d s -> WF d (fst (load_account d s a)).
Proof.
  intros (A & B & C). unfold load_account. destruct (st s a) as [acc|] eqn:E.
  - destruct (a_cold acc); cbn [fst]; [|exact (conj A (conj B C))].
    split; [|split].
    + apply WFb_push, WFb_put; [exact A|]. destruct A as [A _]. apply (A a acc E).
    + apply CZ_push. eapply CZ_put; eauto.
    + unfold push. destruct (journal (put s a _)); cbn; congruence.
  - assert (CZ d (put s a (account_from_db d a))) as B'.
    { intros x ac. rewrite st_put. destruct (x =? a) eqn:X; [|apply B].
      intros [= <-]. unfold account_from_db. destruct (db_basic d a) as [[[b n] c]|]; cbn; discriminate. }
    destruct (warm_pre s a); cbn [fst].
    + split; [apply WFb_put; [exact A|eapply from_db_bal; exact A]|]. split; [exact B'|exact C].
    + split; [apply WFb_push, WFb_put; [exact A|eapply from_db_bal; exact A]|].
      split; [apply CZ_push; exact B'|]. unfold push. destruct (journal (put s a _)); cbn; congruence.
Qed.

(* ------------------------------------------------------------------ inc_nonce, set_code, touch *)
Lemma Good_inc_nonce d s a s' r : journal s <> [] -> inc_nonce s a = Some (s', r) -> Good d s s'.
Proof.
  intros N. unfold inc_nonce. destruct (st s a) as [acc|] eqn:E; [|discriminate].
  destruct (a_nonce acc =? U64MAX); [intros [= <- _]; apply Good_refl; exact N|].
  destruct (st (touch_account s a acc) a) as [acc1|] eqn:E1; [|discriminate]. intros [= <- _].
  eapply Good_trans; [apply Good_touch_account; eauto|].
  rewrite <- push_put.
  eapply (Good_one d _ a acc1 (acc_nonce acc1 (a_nonce acc1 + 1)) (acc_nonce acc1 (a_nonce acc1 + 1 - 1)));
    [exact E1|auto|reflexivity| |].
  - cbn [undo]. rewrite st_push, st_put, Z.eqb_refl. reflexivity.
  - unfold view_of_acc. cbn. f_equal. lia.
Qed.

Lemma WF_inc_nonce d s a s' r : WF d s -> inc_nonce s a = Some (s', r) -> WF d s'.
Proof.
  intros W. unfold inc_nonce. destruct (st s a) as [acc|] eqn:E; [|discriminate].
  destruct (a_nonce acc =? U64MAX); [intros [= <- _]; exact W|].
  destruct (st (touch_account s a acc) a) as [acc1|] eqn:E1; [|discriminate]. intros [= <- _].
  destruct (WF_touch_account d s a acc W E) as (A & B & C).
  split; [|split].
  - apply WFb_put; [apply WFb_push; exact A|]. destruct A as [A _]. apply (A a acc1 E1).
  - eapply CZ_put; [apply CZ_push; exact B|rewrite st_push; exact E1|auto].
  - cbn [journal put set_st]. unfold push. destruct (journal _); cbn; congruence.
Qed.

(* set_code is only used on accounts whose code is empty (contract creation) *)
Lemma Good_set_code d s a c s' acc :
  journal s <> [] -> st s a = Some acc -> a_code acc = 0 -> set_code s a c = Some s' -> Good d s s'.
Proof.
  intros N E Z0. unfold set_code. rewrite E.
  destruct (st (touch_account s a acc) a) as [acc1|] eqn:E1; [|discriminate]. intros [= <-].
  eapply Good_trans; [apply Good_touch_account; eauto|].
  rewrite <- push_put.
  eapply (Good_one d _ a acc1 (acc_code acc1 c) (acc_code acc1 0)); [exact E1|auto|reflexivity| |].
  - cbn [undo]. rewrite st_push, st_put, Z.eqb_refl. reflexivity.
  - assert (a_code acc1 = 0) as Hc.
    { rewrite touch_account_st, Z.eqb_refl in E1. destruct (negb (a_touched acc)); cbn in E1.
      - injection E1 as <-. exact Z0.
      - rewrite E in E1. injection E1 as <-. exact Z0. }
    unfold view_of_acc. cbn. rewrite Hc. reflexivity.
Qed.

Lemma WF_set_code d s a c s' : WF d s -> set_code s a c = Some s' -> WF d s'.
Proof.
  intros W. unfold set_code. destruct (st s a) as [acc|] eqn:E; [|discriminate].
  destruct (st (touch_account s a acc) a) as [acc1|] eqn:E1; [|discriminate]. intros [= <-].
  destruct (WF_touch_account d s a acc W E) as (A & B & C).
  split; [|split].
  - apply WFb_put; [apply WFb_push; exact A|]. destruct A as [A _]. apply (A a acc1 E1).
  - eapply CZ_put; [apply CZ_push; exact B|rewrite st_push; exact E1|auto].
  - cbn [journal put set_st]. unfold push. destruct (journal _); cbn; congruence.
Qed.

Lemma Good_touch d s a : journal s <> [] -> Good d s (touch s a).
Proof.
  intros N. unfold touch. destruct (st s a) eqn:E; [apply Good_touch_account; auto|apply Good_refl; exact N].
Qed.
Lemma WF_touch d s a : WF d s -> WF d (touch s a).
Proof. intros W. unfold touch. destruct (st s a) eqn:E; [eapply WF_touch_account; eauto|exact W]. Qed.

Lemma Good_load_delegated d s a s' c e dc :
  journal s <> [] -> load_account_delegated d s a = (s', c, e, dc) -> Good d s s'.
Proof.
  intros N. unfold load_account_delegated, load_code.
  pose proof (Good_load d s a N) as G1. destruct (load_account d s a) as [s1 cold]. cbn [fst] in G1.
  destruct (st s1 a) as [acc|]; [|intros [= <- _ _ _]; exact G1].
  destruct (db_delegate d (a_code acc)) as [t|]; [|intros [= <- _ _ _]; exact G1].
  pose proof (Good_load d s1 t (Good_journal_ne _ _ _ G1)) as G2.
  destruct (load_account d s1 t) as [s2 dcold]. cbn [fst] in G2. intros [= <- _ _ _].
  eapply Good_trans; eauto.
Qed.
Lemma WF_load_delegated d s a s' c e dc :
  WF d s -> load_account_delegated d s a = (s', c, e, dc) -> WF d s'.
Proof.
  intros W. unfold load_account_delegated, load_code.
  pose proof (WF_load d s a W) as W1. destruct (load_account d s a) as [s1 cold]. cbn [fst] in W1.
  destruct (st s1 a) as [acc|]; [|intros [= <- _ _ _]; exact W1].
  destruct (db_delegate d (a_code acc)) as [t|]; [|intros [= <- _ _ _]; exact W1].
  pose proof (WF_load d s1 t W1) as W2.
  destruct (load_account d s1 t) as [s2 dcold]. cbn [fst] in W2. intros [= <- _ _ _]. exact W2.
Qed.
