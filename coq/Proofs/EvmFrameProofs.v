(* C07 lifted to the composed interpreter: frames restore the journal depth and the stack of open
   frame checkpoints (Model/Evm.v over Model/Frames.v, Model/Host.v). *)
From RevmV Require Import Base.Word Model.Step Model.Evm Proofs.StepProofs Proofs.EvmProofs.
From RevmV Require Model.Frames Model.Host.
Local Open Scope Z_scope.

(* ---- host functions keep the journal depth *)
Ltac dsimp := cbn [H.depth H.put H.push H.set_st H.set_ts H.set_logs H.set_journal H.set_depth H.touch_account fst snd] in *.
Ltac brk :=
  repeat match goal with
  | |- context [match ?x with _ => _ end] => destruct x eqn:?
  | |- context [if ?x then _ else _] => destruct x eqn:?
  end.

Lemma push_depth s e : H.depth (H.push s e) = H.depth s.
Proof. unfold H.push. destruct (H.journal s); reflexivity. Qed.
Lemma put_depth s a acc : H.depth (H.put s a acc) = H.depth s.
Proof. reflexivity. Qed.
Lemma touch_account_depth s a acc : H.depth (H.touch_account s a acc) = H.depth s.
Proof. unfold H.touch_account. destruct (H.a_touched acc); [reflexivity|]. rewrite put_depth, push_depth. reflexivity. Qed.
Lemma touch_depth s a : H.depth (H.touch s a) = H.depth s.
Proof. unfold H.touch. destruct (H.st s a); [apply touch_account_depth|reflexivity]. Qed.
Lemma load_account_depth d s a : H.depth (fst (H.load_account d s a)) = H.depth s.
Proof. unfold H.load_account. brk; cbn [fst]; rewrite ?push_depth, ?put_depth; reflexivity. Qed.
Lemma load_delegated_depth d s a : H.depth (fst (fst (fst (H.load_account_delegated d s a)))) = H.depth s.
Proof.
  unfold H.load_account_delegated, H.load_code.
  pose proof (load_account_depth d s a) as L1. destruct (H.load_account d s a) as [s1 cold]. cbn [fst] in L1.
  destruct (H.st s1 a); [|exact L1]. destruct (H.db_delegate d _); [|exact L1].
  pose proof (load_account_depth d s1 z) as L2. destruct (H.load_account d s1 z) as [s2 dc]. cbn [fst] in *. congruence.
Qed.
Lemma sload_depth d s a k s1 v c : H.sload d s a k = Some (s1, v, c) -> H.depth s1 = H.depth s.
Proof. unfold H.sload. brk; intros E; try discriminate; injection E as <- _ _; rewrite ?push_depth, ?put_depth; reflexivity. Qed.
Lemma sstore_depth d s a k n s1 o p c : H.sstore d s a k n = Some (s1, o, p, c) -> H.depth s1 = H.depth s.
Proof.
  unfold H.sstore. destruct (H.sload d s a k) as [[[s0 pv] cold]|] eqn:ES; [|discriminate].
  apply sload_depth in ES. brk; intros E; try discriminate; injection E as <- _ _ _; rewrite ?put_depth, ?push_depth; exact ES.
Qed.
Lemma tstore_depth s a k v : H.depth (H.tstore s a k v) = H.depth s.
Proof. unfold H.tstore. brk; rewrite ?push_depth; reflexivity. Qed.
Lemma selfdestruct_depth d s a t s1 x1 x2 x3 x4 : H.selfdestruct d s a t = Some (s1, x1, x2, x3, x4) -> H.depth s1 = H.depth s.
Proof.
  unfold H.selfdestruct.
  pose proof (load_account_depth d s t) as L1. destruct (H.load_account d s t) as [s0 cold]. cbn [fst] in L1.
  destruct (H.st s0 t) as [tacc0|]; [|discriminate].
  match goal with |- match ?o with Some _ => _ | None => _ end = _ -> _ => destruct o as [s3|] eqn:E3 end; [|discriminate].
  assert (D3 : H.depth s3 = H.depth s).
  { destruct (a =? t); [injection E3 as <-; exact L1|].
    destruct (H.st s0 a); [|discriminate]. destruct (H.st _ t); [|discriminate].
    injection E3 as <-. rewrite put_depth, touch_account_depth. exact L1. }
  clear E3. destruct (H.st s3 a); [|discriminate].
  brk; intros E; injection E as <- _ _ _ _; rewrite ?push_depth, ?put_depth; exact D3.
Qed.

Lemma transfer_depth d s f t v s1 r : H.transfer d s f t v = Some (s1, r) -> H.depth s1 = H.depth s.
Proof.
  unfold H.transfer.
  pose proof (load_account_depth d s f) as L1. destruct (H.load_account d s f) as [s0 c0]. cbn [fst] in L1.
  pose proof (load_account_depth d s0 t) as L2. destruct (H.load_account d s0 t) as [s2 c2]. cbn [fst] in L2.
  destruct (H.st s2 f) as [fa|]; [|discriminate].
  pose proof (touch_account_depth s2 f fa) as L3. set (s3 := H.touch_account s2 f fa) in *.
  destruct (H.st s3 f) as [fa3|]; [|discriminate].
  destruct (H.a_bal fa3 <? v). { intros E; injection E as <- _. congruence. }
  set (s4 := H.put s3 f _). destruct (H.st s4 t) as [ta|]; [|discriminate].
  pose proof (touch_account_depth s4 t ta) as L5. set (s5 := H.touch_account s4 t ta) in *.
  destruct (H.st s5 t) as [ta5|]; [|discriminate].
  assert (H.depth s4 = H.depth s) by (unfold s4; rewrite put_depth; congruence).
  destruct (pow256 <=? _).
  - destruct (H.st s5 f); [|discriminate]. intros E; injection E as <- _. rewrite put_depth. congruence.
  - intros E; injection E as <- _. rewrite push_depth, put_depth. congruence.
Qed.

Lemma revert_depth s cp s' : H.checkpoint_revert s cp = Some s' -> H.depth s' = H.depth s - 1.
Proof. unfold H.checkpoint_revert. destruct (H.undo_list _ _ _); [|discriminate]. intros E; injection E as <-. reflexivity. Qed.

(* ---- the frame functions *)
Lemma make_call_frame_depth d s cps ci s' cps' r :
  Fr.make_call_frame d (s, cps) ci = Some ((s', cps'), r) ->
  match r with
  | Fr.FResult _ => H.depth s' = H.depth s /\ cps' = cps
  | Fr.FFrame cp => H.depth s' = H.depth s + 1 /\ cps' = cp :: cps
  end.
Proof.
  unfold Fr.make_call_frame.
  destruct (H.depth s >? Fr.CALL_STACK_LIMIT). { intros E; injection E as <- <- <-. auto. }
  pose proof (load_delegated_depth d s (Fr.ci_bytecode ci)) as L1.
  destruct (H.load_account_delegated d s (Fr.ci_bytecode ci)) as [[[s1 x1] x2] x3]. cbn [fst] in L1.
  unfold H.checkpoint. cbv zeta.
  set (s2 := H.set_journal (H.set_depth s1 (H.depth s1 + 1)) ([] :: H.journal s1)).
  assert (D2 : H.depth s2 = H.depth s + 1) by (unfold s2; cbn; lia).
  set (cp := H.mkCp _ _).
  match goal with |- match ?av with _ => _ end = _ -> _ => destruct av as [[s3 [err|]]|] eqn:AV end; [| |discriminate].
  - (* value transfer failed *)
    assert (D3 : H.depth s3 = H.depth s2).
    { destruct (Fr.ci_value ci) as [v|v]; [|discriminate]. destruct (v =? 0); [discriminate|].
      destruct (H.transfer d s2 _ _ v) as [[s4 [| |]]|] eqn:ET; try discriminate; injection AV as <- _; eapply transfer_depth; eassumption. }
    destruct (H.checkpoint_revert s3 cp) as [s4|] eqn:ER; [|discriminate]. apply revert_depth in ER.
    intros E; injection E as <- <- <-. split; [lia|reflexivity].
  - assert (D3 : H.depth s3 = H.depth s2).
    { destruct (Fr.ci_value ci) as [v|v]; [|injection AV as <-; reflexivity]. destruct (v =? 0).
      - injection AV as <-. rewrite touch_depth, load_account_depth. reflexivity.
      - destruct (H.transfer d s2 _ _ v) as [[s4 [| |]]|] eqn:ET; try discriminate; injection AV as <-; eapply transfer_depth; eassumption. }
    destruct (if Fr.ci_ext_delegate ci then None else Fr.ci_precompile ci) as [[|]|].
    + intros E; injection E as <- <- <-. cbn. split; [lia|reflexivity].
    + destruct (H.checkpoint_revert s3 cp) as [s4|] eqn:ER; [|discriminate]. apply revert_depth in ER.
      intros E; injection E as <- <- <-. split; [lia|reflexivity].
    + unfold H.load_code. pose proof (load_account_depth d s3 (Fr.ci_bytecode ci)) as L4.
      destruct (H.load_account d s3 (Fr.ci_bytecode ci)) as [s4 c4]. cbn [fst] in L4.
      destruct (H.st s4 (Fr.ci_bytecode ci)) as [acc|]; [|discriminate].
      destruct (Fr.ci_ext_delegate ci && negb (Fr.ci_code_is_eof ci)).
      * destruct (H.checkpoint_revert s4 cp) as [s5|] eqn:ER; [|discriminate]. apply revert_depth in ER.
        intros E; injection E as <- <- <-. split; [lia|reflexivity].
      * destruct (H.a_code acc =? 0).
        { intros E; injection E as <- <- <-. cbn. split; [lia|reflexivity]. }
        intros E; injection E as <- <- <-. split; [|reflexivity].
        destruct (H.db_delegate d (H.a_code acc)); [rewrite load_account_depth|]; lia.
Qed.

Lemma call_return_depth s cps ok s' cps' :
  Fr.call_return (s, cps) ok = Some (s', cps') -> exists cp, cps = cp :: cps' /\ H.depth s' = H.depth s - 1.
Proof.
  unfold Fr.call_return. destruct cps as [|cp r]; [discriminate|]. destruct ok.
  - intros E; injection E as <- <-. exists cp. split; reflexivity.
  - destruct (H.checkpoint_revert s cp) as [s1|] eqn:ER; [|discriminate]. apply revert_depth in ER.
    intros E; injection E as <- <-. exists cp. split; [reflexivity|exact ER].
Qed.

Lemma inc_nonce_depth s a s1 r : H.inc_nonce s a = Some (s1, r) -> H.depth s1 = H.depth s.
Proof.
  unfold H.inc_nonce. destruct (H.st s a) as [acc|]; [|discriminate].
  destruct (H.a_nonce acc =? H.U64MAX). { intros E; injection E as <- _. reflexivity. }
  pose proof (touch_account_depth s a acc). destruct (H.st (H.touch_account s a acc) a); [|discriminate].
  intros E; injection E as <- _. rewrite put_depth, push_depth. assumption.
Qed.
Lemma set_code_depth s a c s1 : H.set_code s a c = Some s1 -> H.depth s1 = H.depth s.
Proof.
  unfold H.set_code. destruct (H.st s a) as [acc|]; [|discriminate].
  pose proof (touch_account_depth s a acc). destruct (H.st (H.touch_account s a acc) a); [|discriminate].
  intros E; injection E as <-. rewrite put_depth, push_depth. assumption.
Qed.
Lemma create_account_checkpoint_depth s caller addr hs v sp s1 r :
  H.create_account_checkpoint s caller addr hs v sp = Some (s1, r) ->
  match r with
  | H.CreateOk _ => H.depth s1 = H.depth s + 1
  | _ => H.depth s1 = H.depth s
  end.
Proof.
  unfold H.create_account_checkpoint, H.checkpoint. cbv zeta.
  set (s0 := H.set_journal (H.set_depth s (H.depth s + 1)) ([] :: H.journal s)).
  assert (D0 : H.depth s0 = H.depth s + 1) by reflexivity.
  set (cp := H.mkCp _ _).
  destruct (H.st s0 addr) as [acc|]; [|discriminate].
  destruct (_ || _).
  { destruct (H.checkpoint_revert s0 cp) as [s2|] eqn:ER; [|discriminate]. apply revert_depth in ER.
    intros E; injection E as <- <-. lia. }
  set (s2 := H.push _ _). assert (D2 : H.depth s2 = H.depth s + 1) by (unfold s2; rewrite push_depth, put_depth; exact D0).
  destruct (H.st s2 addr) as [acc2|]; [|discriminate].
  pose proof (touch_account_depth s2 addr acc2) as D3. set (s3 := H.touch_account s2 addr acc2) in *.
  destruct (H.st s3 addr) as [acc3|]; [|discriminate].
  destruct (pow256 <=? _).
  { destruct (H.checkpoint_revert s3 cp) as [s4|] eqn:ER; [|discriminate]. apply revert_depth in ER.
    intros E; injection E as <- <-. lia. }
  match goal with |- match H.st ?s5 caller with _ => _ end = _ -> _ => assert (D5 : H.depth s5 = H.depth s + 1) by (rewrite put_depth; lia); destruct (H.st s5 caller) end; [|discriminate].
  intros E; injection E as <- <-. rewrite push_depth, put_depth. exact D5.
Qed.

Lemma make_create_frame_depth d s cps cr s' cps' r :
  Fr.make_create_frame d (s, cps) cr = Some ((s', cps'), r) ->
  match r with
  | Fr.FResult _ => H.depth s' = H.depth s /\ cps' = cps
  | Fr.FFrame cp => H.depth s' = H.depth s + 1 /\ cps' = cp :: cps
  end.
Proof.
  unfold Fr.make_create_frame.
  destruct (H.depth s >? Fr.CALL_STACK_LIMIT). { intros E; injection E as <- <- <-. auto. }
  destruct (Fr.cr_init_is_ef00 cr). { intros E; injection E as <- <- <-. auto. }
  pose proof (load_account_depth d s (Fr.cr_caller cr)) as L1.
  destruct (H.load_account d s (Fr.cr_caller cr)) as [s1 c1]. cbn [fst] in L1.
  destruct (H.st s1 (Fr.cr_caller cr)) as [cacc|]; [|discriminate].
  destruct (H.a_bal cacc <? Fr.cr_value cr). { intros E; injection E as <- <- <-. auto. }
  destruct (H.inc_nonce s1 (Fr.cr_caller cr)) as [[s2 [n|]]|] eqn:EN; [| |discriminate]; apply inc_nonce_depth in EN.
  2:{ intros E; injection E as <- <- <-. split; [congruence|reflexivity]. }
  destruct (Fr.cr_created_is_precompile cr). { intros E; injection E as <- <- <-. split; [congruence|reflexivity]. }
  pose proof (load_account_depth d s2 (Fr.cr_created cr)) as L3.
  destruct (H.load_account d s2 (Fr.cr_created cr)) as [s3 c3]. cbn [fst] in L3.
  destruct (H.create_account_checkpoint s3 _ _ _ _ _) as [[s4 [cp| |]]|] eqn:EC; [| | |discriminate];
    apply create_account_checkpoint_depth in EC; intros E; injection E as <- <- <-; (split; [lia|reflexivity]).
Qed.

Lemma fr_create_return_depth s cps a r s' cps' :
  Fr.create_return (s, cps) a r = Some (s', cps') -> exists cp, cps = cp :: cps' /\ H.depth s' = H.depth s - 1.
Proof.
  unfold Fr.create_return. destruct cps as [|cp rest]; [discriminate|]. destruct r as [|c].
  - destruct (H.checkpoint_revert s cp) as [s1|] eqn:ER; [|discriminate]. apply revert_depth in ER.
    intros E; injection E as <- <-. exists cp. auto.
  - destruct (H.set_code _ a c) as [s1|] eqn:ES; [|discriminate]. apply set_code_depth in ES.
    intros E; injection E as <- <-. exists cp. split; [reflexivity|]. rewrite ES. reflexivity.
Qed.

(* ---- one instruction keeps the depth and the stack of open checkpoints *)
Definition same_frame (G G' : gstate) : Prop :=
  H.depth (gs G') = H.depth (gs G) /\ snd (g_sc G') = snd (g_sc G).
Lemma same_frame_refl G : same_frame G G. Proof. split; reflexivity. Qed.
Lemma same_frame_set_s G s : H.depth s = H.depth (gs G) -> same_frame G (set_s G s).
Proof. intros D. split; [exact D|reflexivity]. Qed.

Lemma call_post_same_frame W G F c I : same_frame G (fst (op_call_post W G F c I)).
Proof.
  unfold op_call_post. pose proof (load_delegated_depth (gdb W G) (gs G) (cp_to c)).
  destruct (H.load_account_delegated _ _ _) as [[[s1 x] y] z]. cbn [fst] in *. apply same_frame_set_s. assumption.
Qed.

Lemma step_same_frame W G F I : same_frame G (fst (step W G F I)).
Proof.
  unfold step. cbv zeta.
  repeat match goal with
  | |- same_frame _ (fst (if ?b then _ else _)) => destruct b
  end; cbn [fst]; try apply same_frame_refl.
  - unfold op_balance. destruct (i_stk I); [apply same_frame_refl|].
    pose proof (load_account_depth (gdb W G) (gs G) (addr_of_word z)). destruct (H.load_account _ _ _). apply same_frame_set_s. assumption.
  - unfold op_extcodesize, host_code, H.load_code. destruct (i_stk I); [apply same_frame_refl|].
    pose proof (load_account_depth (gdb W G) (gs G) (addr_of_word z)). destruct (H.load_account _ _ _).
    destruct (code_bytes _ _); apply same_frame_set_s; assumption.
  - unfold op_extcodecopy, host_code, H.load_code. destruct (i_stk I) as [|a [|b [|c [|d r]]]]; try apply same_frame_refl.
    pose proof (load_account_depth (gdb W G) (gs G) (addr_of_word a)). destruct (H.load_account _ _ _).
    destruct (code_bytes _ _); apply same_frame_set_s; assumption.
  - unfold op_extcodehash, H.load_code. destruct (i_stk I); [apply same_frame_refl|].
    pose proof (load_account_depth (gdb W G) (gs G) (addr_of_word z)). destruct (H.load_account _ _ _). apply same_frame_set_s. assumption.
  - unfold op_selfbalance. destruct (Gas.record_cost _ _) as [g' ok]. destruct ok; [|apply same_frame_refl].
    pose proof (load_account_depth (gdb W G) (gs G) (f_target F)). destruct (H.load_account _ _ _). apply same_frame_set_s. assumption.
  - unfold op_sload. destruct (i_stk I); [apply same_frame_refl|].
    destruct (H.sload _ _ _ _) as [[[s1 v] c]|] eqn:E; [|apply same_frame_refl]. apply sload_depth in E. apply same_frame_set_s. assumption.
  - unfold op_sstore. destruct (f_static F); [apply same_frame_refl|]. destruct (i_stk I) as [|k [|v r]]; try apply same_frame_refl.
    destruct (H.sstore _ _ _ _ _) as [[[[s1 o] p] c]|] eqn:E; [|apply same_frame_refl]. apply sstore_depth in E. apply same_frame_set_s. assumption.
  - unfold op_tstore. destruct (f_static F); [apply same_frame_refl|]. destruct (Gas.record_cost _ _) as [g' ok]. destruct ok; cbn [negb]; [|apply same_frame_refl].
    cbn [set_gas i_stk]. destruct (i_stk I) as [|k [|v r]]; try apply same_frame_refl. apply same_frame_set_s, tstore_depth.
  - destruct (op_log F _ I); cbn [finish_pre fst]; try apply same_frame_refl.
    + unfold do_log. split; reflexivity.
    + apply call_post_same_frame.
  - destruct (op_call_pre F _ I); cbn [finish_pre fst]; try apply same_frame_refl; [unfold do_log; split; reflexivity|apply call_post_same_frame].
  - destruct (op_call_pre F _ I); cbn [finish_pre fst]; try apply same_frame_refl; [unfold do_log; split; reflexivity|apply call_post_same_frame].
  - destruct (op_call_pre F _ I); cbn [finish_pre fst]; try apply same_frame_refl; [unfold do_log; split; reflexivity|apply call_post_same_frame].
  - destruct (op_call_pre F _ I); cbn [finish_pre fst]; try apply same_frame_refl; [unfold do_log; split; reflexivity|apply call_post_same_frame].
  - unfold op_selfdestruct. destruct (f_static F); [apply same_frame_refl|]. destruct (i_stk I); [apply same_frame_refl|].
    destruct (H.selfdestruct _ _ _ _) as [[[[[s1 a] b] c] d]|] eqn:E; [|apply same_frame_refl]. apply selfdestruct_depth in E.
    match goal with |- context [match ?o with Some _ => _ | None => _ end] => destruct o end; [|apply same_frame_refl].
    apply same_frame_set_s. assumption.
Qed.

Lemma same_frame_trans G1 G2 G3 : same_frame G1 G2 -> same_frame G2 G3 -> same_frame G1 G3.
Proof. intros [A B] [C D]. split; congruence. Qed.

Definition rec_sf (rec : rec_t) : Prop :=
  forall G F I G' r, rec G F I = XDone (G', r) -> same_frame G G'.

Lemma do_call_sf W rec G c G' r :
  rec_sf rec -> do_call W rec G c = XDone (G', r) -> same_frame G G'.
Proof.
  intros HR. unfold do_call. destruct (g_sc G) as [s cps] eqn:EG.
  destruct (Fr.make_call_frame _ _ _) as [[[s1 cps1] [fr|cp]]|] eqn:EM; [| |discriminate];
    apply make_call_frame_depth in EM; destruct EM as [D C].
  - assert (SF : same_frame G (set_sc G (s1, cps1))).
    { unfold same_frame, gs. cbn [set_sc g_sc fst snd]. rewrite EG. cbn [fst snd]. auto. }
    destruct fr; try discriminate; try (intros E; injection E as <- _; exact SF).
    match goal with |- match ?p with Some _ => _ | None => _ end = _ -> _ => destruct p end; [|discriminate].
    intros E; injection E as <- _; exact SF.
  - destruct (code_of_account _ _ _); [|discriminate].
    match goal with |- context [rec ?g ?f ?i] => destruct (rec g f i) as [[G2 r2]| |k] eqn:ER end; try discriminate.
    apply HR in ER. destruct ER as [D2 C2]. unfold gs in D2. cbn [set_sc g_sc fst snd] in D2, C2.
    destruct (g_sc G2) as [s2 cps2] eqn:EG2. cbn [fst snd] in *.
    destruct (Fr.call_return _ _) as [[s3 cps3]|] eqn:ECR; [|discriminate].
    apply call_return_depth in ECR. destruct ECR as (cp' & EC & D3).
    intros E; injection E as <- _. unfold same_frame, gs. cbn [set_sc g_sc fst snd]. rewrite EG. cbn [fst snd].
    subst. split; [lia|congruence].
Qed.

Lemma create_return_sf W G created r G' r' :
  create_return W G created r = Some (G', r') ->
  exists cp, snd (g_sc G) = cp :: snd (g_sc G') /\ H.depth (gs G') = H.depth (gs G) - 1.
Proof.
  unfold create_return.
  assert (FAIL : forall r1, match Fr.create_return (g_sc G) created Fr.CRFail with
            | Some sc => Some (set_sc G sc, r1) | None => None end = Some (G', r') ->
            exists cp, snd (g_sc G) = cp :: snd (g_sc G') /\ H.depth (gs G') = H.depth (gs G) - 1).
  { intros r1. destruct (g_sc G) as [s cps] eqn:EG. destruct (Fr.create_return _ _ _) as [[s1 cps1]|] eqn:EC; [|discriminate].
    apply fr_create_return_depth in EC. destruct EC as (cp & A & B). intros E; injection E as <- _.
    exists cp. unfold gs. cbn [set_sc g_sc fst snd]. rewrite EG. cbn [fst snd]. auto. }
  destruct (negb _); [apply FAIL|]. destruct (_ && _); [apply FAIL|]. destruct (_ && _); [apply FAIL|].
  destruct (Gas.record_cost _ _) as [g' ok]. destruct (negb ok && _); [apply FAIL|]. clear FAIL.
  destruct (add_code G _) as [G1 id] eqn:EA.
  assert (SC : g_sc G1 = g_sc G).
  { unfold add_code in EA. destruct (code_id _ =? 0); injection EA as <- _; reflexivity. }
  destruct (g_sc G1) as [s cps] eqn:EG. destruct (Fr.create_return _ _ _) as [[s1 cps1]|] eqn:EC; [|discriminate].
  apply fr_create_return_depth in EC. destruct EC as (cp & A & B). intros E; injection E as <- _.
  exists cp. unfold gs. cbn [set_sc g_sc fst snd]. rewrite <- SC. cbn [fst snd]. auto.
Qed.

Lemma do_create_sf W rec G c G' r a :
  rec_sf rec -> do_create W rec G c = XDone (G', r, a) -> same_frame G G'.
Proof.
  intros HR. unfold do_create. destruct (H.load_account _ _ _) as [sx cx]. destruct (g_sc G) as [s cps] eqn:EG.
  destruct (Fr.make_create_frame _ _ _) as [[[s1 cps1] [fr|cp]]|] eqn:EM; [| |discriminate];
    apply make_create_frame_depth in EM; destruct EM as [D C].
  - assert (SF : same_frame G (set_sc G (s1, cps1))).
    { unfold same_frame, gs. cbn [set_sc g_sc fst snd]. rewrite EG. cbn [fst snd]. auto. }
    destruct fr; try discriminate; intros E; injection E as <- _ _; exact SF.
  - match goal with |- context [rec ?g ?f ?i] => destruct (rec g f i) as [[G2 r2]| |k] eqn:ER end; try discriminate.
    apply HR in ER. destruct ER as [D2 C2]. unfold gs in D2. cbn [set_sc g_sc fst snd] in D2, C2.
    destruct (create_return W G2 _ r2) as [[G3 r3]|] eqn:ECR; [|discriminate].
    apply create_return_sf in ECR. destruct ECR as (cp' & EC & D3).
    intros E; injection E as <- _ _. unfold same_frame, gs in *. rewrite EG. cbn [fst snd].
    rewrite C2 in EC. subst. injection EC as _ <-. split; [lia|reflexivity].
Qed.

(* C07 lifted to the interpreter: whatever a frame does — nested calls and creates that succeed,
   revert, halt, hit the depth limit, run out of funds or collide — when it ends the journal
   depth and the stack of open frame checkpoints are what they were when it started *)
Theorem exec_same_frame W : forall f, rec_sf (exec f W).
Proof.
  induction f as [|f IH]; intros G F I G' r E; [discriminate|].
  cbn [exec] in E. pose proof (step_same_frame W G F I) as SF.
  destruct (step W G F I) as [G1 [I1|r1 out I1|c I1|c I1|k]]; cbn [fst] in SF.
  - eapply same_frame_trans; [exact SF|]. eapply IH; eassumption.
  - injection E as <- _. exact SF.
  - destruct (do_call W (exec f W) G1 c) as [[G2 r2]| |k] eqn:EC; try discriminate.
    apply (do_call_sf W _ _ _ _ _ IH) in EC.
    destruct (insert_call_outcome I1 c r2); [|discriminate].
    eapply same_frame_trans; [exact SF|]. eapply same_frame_trans; [exact EC|]. eapply IH; eassumption.
  - destruct (do_create W (exec f W) G1 c) as [[[G2 r2] a]| |k] eqn:EC; try discriminate.
    apply (do_create_sf W _ _ _ _ _ _ IH) in EC.
    destruct (insert_create_outcome I1 r2 a); [|discriminate].
    eapply same_frame_trans; [exact SF|]. eapply same_frame_trans; [exact EC|]. eapply IH; eassumption.
  - discriminate.
Qed.
