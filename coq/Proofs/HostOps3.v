(* Good-ness of transfer and selfdestruct (two-account steps). *)
From Coq Require Import FunctionalExtensionality.
From RevmV Require Import Base.Word Model.Host Proofs.HostView Proofs.HostUndo Proofs.HostGood
  Proofs.HostOps Proofs.HostOps2.
Local Open Scope Z_scope.

Lemma eqb_ne a b : a <> b -> (a =? b) = false.
Proof. intros H. destruct (a =? b) eqn:E; [apply Z.eqb_eq in E; contradiction|reflexivity]. Qed.

Lemma acc_bal_same acc : acc_bal acc (a_bal acc) = acc.
Proof. destruct acc; reflexivity. Qed.

(* two distinct accounts are rewritten, one entry is pushed, and undoing it writes accounts
   with the original views *)
Lemma Good_two d s f t e fa ta fa' ta' fa'' ta'' s' :
  f <> t -> st s f = Some fa -> st s t = Some ta ->
  a_storage fa' = a_storage fa -> a_storage ta' = a_storage ta ->
  s' = push (put (put s f fa') t ta') e ->
  undo (spurious s) e s' = Some (put (put s' f fa'') t ta'') ->
  view_of_acc d (spurious s) f fa'' = view_of_acc d (spurious s) f fa ->
  view_of_acc d (spurious s) t ta'' = view_of_acc d (spurious s) t ta ->
  Good d s s'.
Proof.
  intros N Ef Et Sf St -> U Vf Vt. exists [e]. split.
  { unfold push at 1. cbn [journal put set_st]. destruct (journal s); reflexivity. }
  split.
  { eexists. cbn [undo_list]. rewrite U. split; [reflexivity|]. apply cview_ext.
    - intros x. cbn [cview_of cv_acc].
      rewrite !view_acc_put, view_acc_push, !view_acc_put.
      cbn [spurious put set_st]. rewrite ?spur_push. cbn [spurious put set_st].
      destruct (x =? t) eqn:Xt.
      + apply Z.eqb_eq in Xt. subst. rewrite Vt. symmetry. apply view_acc_present. exact Et.
      + destruct (x =? f) eqn:Xf; [|reflexivity].
        apply Z.eqb_eq in Xf. subst. rewrite Vf. symmetry. apply view_acc_present. exact Ef.
    - cbn [cview_of cv_ts]. rewrite !ts_put, ts_push. reflexivity. }
  split.
  { split.
    - intros x Hx. unfold has_acc. rewrite st_push. apply has_acc_put, has_acc_put. exact Hx.
    - intros x k (ac & Hx & Hk). unfold has_slot. rewrite st_push, !st_put.
      destruct (x =? t) eqn:Xt.
      + apply Z.eqb_eq in Xt. subst. rewrite Et in Hx. injection Hx as <-. eexists. split; [reflexivity|]. congruence.
      + destruct (x =? f) eqn:Xf; [|eauto].
        apply Z.eqb_eq in Xf. subst. rewrite Ef in Hx. injection Hx as <-. eexists. split; [reflexivity|]. congruence. }
  split; [unfold push; destruct (journal (put _ t ta')); reflexivity|].
  split; [unfold push; destruct (journal (put _ t ta')); reflexivity|].
  unfold same_cfg. rewrite spur_push, wp_push. unfold push. destruct (journal (put _ t ta')); repeat split.
Qed.

(* balance transfer between distinct accounts with arbitrary new balances bf', bt' whose
   reversal gives the old ones *)
Lemma Good_xfer_ne d s f t v fa ta bf' bt' :
  f <> t -> st s f = Some fa -> st s t = Some ta ->
  wrap256 (bf' + v) = a_bal fa -> wrap256 (bt' - v) = a_bal ta ->
  Good d s (push (put (put s f (acc_bal fa bf')) t (acc_bal ta bt')) (BalanceTransfer f t v)).
Proof.
  intros N Ef Et Hf Ht.
  eapply (Good_two d s f t _ fa ta (acc_bal fa bf') (acc_bal ta bt')
            (acc_bal (acc_bal fa bf') (wrap256 (bf' + v))) (acc_bal (acc_bal ta bt') (wrap256 (bt' - v))));
    [exact N|exact Ef|exact Et|reflexivity|reflexivity|reflexivity| | |].
  - cbn [undo]. rewrite st_push, !st_put, (eqb_ne f t N), Z.eqb_refl.
    cbn [a_bal acc_bal]. rewrite !st_put, st_push, !st_put, Z.eqb_refl.
    assert ((t =? f) = false) as -> by (apply eqb_ne; congruence).
    cbn [a_bal acc_bal]. reflexivity.
  - rewrite Hf. unfold view_of_acc. cbn. reflexivity.
  - rewrite Ht. unfold view_of_acc. cbn. reflexivity.
Qed.

Lemma Good_xfer_eq d s f v fa b' :
  st s f = Some fa -> wrap256 (wrap256 (b' + v) - v) = a_bal fa ->
  Good d s (push (put s f (acc_bal fa b')) (BalanceTransfer f f v)).
Proof.
  intros Ef H.
  eapply (Good_one d s f fa (acc_bal fa b') (acc_bal fa (wrap256 (wrap256 (b' + v) - v))));
    [exact Ef|auto|reflexivity| |].
  - cbn [undo]. rewrite st_push, st_put, Z.eqb_refl. cbn [a_bal acc_bal].
    rewrite st_put, Z.eqb_refl. cbn [a_bal acc_bal]. rewrite put_put_same. reflexivity.
  - rewrite H. rewrite acc_bal_same. reflexivity.
Qed.

(* ------------------------------------------------------------------ transfer *)
Lemma touched_after (s : jstate) a acc acc1 :
  st (touch_account s a acc) a = Some acc1 -> st s a = Some acc ->
  a_touched acc1 = true /\ a_bal acc1 = a_bal acc.
Proof.
  rewrite touch_account_st, Z.eqb_refl. destruct (a_touched acc) eqn:T; cbn.
  - intros E1 E. rewrite E in E1. injection E1 as <-. auto.
  - intros [= <-] _. auto.
Qed.

Lemma Good_transfer d s f t v s' r :
  WF d s -> 0 <= v -> transfer d s f t v = Some (s', r) -> Good d s s' /\ WF d s'.
Proof.
  intros W Hv. unfold transfer.
  pose proof (Good_load d s f (proj2 (proj2 W))) as G1. pose proof (WF_load d s f W) as W1.
  destruct (load_account d s f) as [s1 c1]. cbn [fst] in *.
  pose proof (Good_load d s1 t (proj2 (proj2 W1))) as G2. pose proof (WF_load d s1 t W1) as W2.
  destruct (load_account d s1 t) as [s2 c2]. cbn [fst] in *.
  assert (G12 : Good d s s2) by (eapply Good_trans; eauto).
  destruct (st s2 f) as [fa|] eqn:Ef; [|discriminate].
  pose proof (Good_touch_account d s2 f fa (proj2 (proj2 W2)) Ef) as G3.
  pose proof (WF_touch_account d s2 f fa W2 Ef) as W3.
  set (s3 := touch_account s2 f fa) in *.
  assert (G13 : Good d s s3) by (eapply Good_trans; eauto).
  destruct (st s3 f) as [fa3|] eqn:Ef3; [|discriminate].
  destruct (touched_after s2 f fa fa3 Ef3 Ef) as [Tf _].
  destruct (a_bal fa3 <? v) eqn:Lt; [intros [= <- _]; split; assumption|].
  apply Z.ltb_ge in Lt.
  assert (Rf : in_u256 (a_bal fa3)) by (destruct W3 as [[A _] _]; eapply A; eauto).
  set (fa' := acc_bal fa3 (a_bal fa3 - v)).
  destruct (Z.eq_dec f t) as [->|Nft].
  - (* from = to *)
    rewrite st_put, Z.eqb_refl.
    assert (touch_account (put s3 t fa') t fa' = put s3 t fa') as ->.
    { unfold touch_account. cbn [a_touched fa' acc_bal]. rewrite Tf. reflexivity. }
    rewrite st_put, Z.eqb_refl. cbn [a_bal fa' acc_bal].
    replace (a_bal fa3 - v + v) with (a_bal fa3) by ring.
    destruct (pow256 <=? a_bal fa3) eqn:Ov.
    { apply Z.leb_le in Ov. unfold in_u256 in Rf. lia. }
    intros [= <- _]. rewrite put_put_same.
    assert (acc_bal fa' (a_bal fa3) = fa3) as -> by (destruct fa3; reflexivity).
    rewrite (put_id s3 t fa3 Ef3). split.
    + eapply Good_trans; [exact G13|].
      replace (push s3 (BalanceTransfer t t v)) with (push (put s3 t (acc_bal fa3 (a_bal fa3))) (BalanceTransfer t t v)).
      * apply Good_xfer_eq; [exact Ef3|]. apply wrap_wrap_add_sub. exact Rf.
      * rewrite acc_bal_same, (put_id s3 t fa3 Ef3). reflexivity.
    + apply WF_push. exact W3.
  - (* from <> to *)
    rewrite st_put, (eqb_ne t f) by congruence.
    destruct (st s3 t) as [ta|] eqn:Et; [|discriminate].
    rewrite (touch_account_put_comm s3 t ta f fa' Nft).
    pose proof (Good_touch_account d s3 t ta (proj2 (proj2 W3)) Et) as G4.
    pose proof (WF_touch_account d s3 t ta W3 Et) as W4.
    set (s4 := touch_account s3 t ta) in *.
    rewrite st_put, (eqb_ne t f) by congruence.
    destruct (st s4 t) as [tb|] eqn:Etb; [|discriminate].
    assert (Ef4 : st s4 f = Some fa3).
    { unfold s4. rewrite touch_account_st, (eqb_ne f t Nft). cbn. exact Ef3. }
    assert (Rt : in_u256 (a_bal tb)) by (destruct W4 as [[A _] _]; eapply A; eauto).
    destruct (pow256 <=? a_bal tb + v) eqn:Ov.
    + (* OverflowPayment: the debit is returned *)
      rewrite st_put, Z.eqb_refl. intros [= <- _]. rewrite put_put_same.
      cbn [a_bal fa' acc_bal]. replace (a_bal fa3 - v + v) with (a_bal fa3) by ring.
      assert (acc_bal fa' (a_bal fa3) = fa3) as -> by (destruct fa3; reflexivity).
      rewrite (put_id s4 f fa3 Ef4). split; [eapply Good_trans; eauto|exact W4].
    + apply Z.leb_gt in Ov. intros [= <- _]. split.
      * eapply Good_trans; [exact G13|]. eapply Good_trans; [exact G4|].
        apply Good_xfer_ne; auto.
        -- apply wrap_sub_add. exact Rf.
        -- apply wrap_add_sub. exact Rt.
      * apply WF_push. destruct W4 as (A & B & C). split; [|split; [|exact C]].
        -- apply WFb_put; [apply WFb_put; [exact A|]|]; cbn [a_bal acc_bal fa']; unfold in_u256 in *; lia.
        -- eapply CZ_put; [eapply CZ_put; [exact B|exact Ef4|auto]| |].
           ++ rewrite st_put, (eqb_ne t f) by congruence. exact Etb.
           ++ auto.
Qed.
