(* Proofs for C29: the model of the wrapped handlers emits exactly the reference trace and
   restores the input stacks; the reference trace is in the grammar; the monitor accepts
   exactly the grammar. *)
From Coq Require Import ZArith List Bool Lia.
From RevmV Require Import Spec.InspectorSpec Model.Inspector.
Import ListNotations.
Local Open Scope Z_scope.

(* ---------- stacks ---------- *)
Lemma pop_push k i s : pop k (push k i s) = Some (i, s).
Proof. destruct k, s; reflexivity. Qed.

Lemma insert_after_open k i s :
  h_insert_outcome k (fst (h_open k i s)) = Some (s, [TClose k i]).
Proof. unfold h_insert_outcome, h_open; simpl. rewrite pop_push. reflexivity. Qed.

Lemma last_after_open k i s :
  h_last_frame_return k (fst (h_open k i s)) = Some (s, [TClose k i]).
Proof. unfold h_last_frame_return, h_open; simpl. rewrite pop_push. reflexivity. Qed.

(* ---------- model = reference trace, stacks restored, no unwrap panic ---------- *)
Lemma run_frame_spec : forall f s, run_frame f s = Some (s, spec_frame f).
Proof.
  induction f as [|r IH|j r IH|c r IH|k i h r IH|k i c IHc r IH]; intro s; simpl.
  - reflexivity.
  - rewrite IH. reflexivity.
  - rewrite IH. simpl. destruct j; reflexivity.
  - rewrite IH. simpl. destruct c; reflexivity.
  - unfold h_insert_outcome. rewrite pop_push. simpl. rewrite IH. reflexivity.
  - rewrite IHc. simpl. unfold h_insert_outcome. rewrite pop_push. simpl. rewrite IH. reflexivity.
Qed.

Lemma transact_spec : forall x s, transact x s = Some (s, spec_tx x).
Proof.
  intros [k i h|k i f] s; simpl.
  - unfold h_last_frame_return. rewrite pop_push. reflexivity.
  - rewrite run_frame_spec. simpl. unfold h_last_frame_return. rewrite pop_push. reflexivity.
Qed.

Lemma transact_all_spec : forall xs s, transact_all xs s = Some (s, map spec_tx xs).
Proof.
  induction xs as [|x r IH]; intro s; simpl; [reflexivity|].
  rewrite transact_spec. simpl. rewrite IH. reflexivity.
Qed.

(* ---------- the reference trace is in the grammar ---------- *)
Lemma spec_frame_items : forall f, items (spec_frame f).
Proof.
  induction f as [|r IH|j r IH|c r IH|k i h r IH|k i c IHc r IH]; simpl.
  - constructor.
  - apply (it_step []); [left; reflexivity|exact IH].
  - destruct j.
    + apply (it_step [TLog]); [right; left; reflexivity|exact IH].
    + apply (it_step []); [left; reflexivity|exact IH].
  - destruct c.
    + apply (it_step [TSelfDestruct]); [right; right; reflexivity|exact IH].
    + apply (it_step []); [left; reflexivity|exact IH].
  - apply (it_step []); [left; reflexivity|]. apply it_br0. exact IH.
  - apply (it_step []); [left; reflexivity|]. apply it_br1; assumption.
Qed.

Lemma spec_tx_wb : forall x, tx_wb (spec_tx x).
Proof.
  intros [k i h|k i f]; simpl.
  - constructor.
  - apply tx_br1. apply spec_frame_items.
Qed.

(* ---------- counting on the reference trace ---------- *)
Lemma count_app p a b : count p (a ++ b) = count p a + count p b.
Proof. unfold count. rewrite filter_app, app_length. lia. Qed.
Lemma count_cons p x l : count p (x :: l) = (if p x then 1 else 0) + count p l.
Proof. unfold count. simpl. destruct (p x); simpl length; lia. Qed.
Lemma count_nil p : count p [] = 0.
Proof. reflexivity. Qed.

Ltac cnt := repeat (rewrite ?count_app, ?count_cons, ?count_nil; simpl is_step; simpl is_step_end;
                    simpl is_log; simpl is_sd; simpl is_init; cbv iota).

Lemma count_steps : forall f, count is_step (spec_frame f) = n_instr f
                           /\ count is_step_end (spec_frame f) = n_instr f.
Proof.
  induction f as [|r [IH1 IH2]|j r [IH1 IH2]|c r [IH1 IH2]|k i h r [IH1 IH2]|k i c [IHc1 IHc2] r [IH1 IH2]];
    cbn [spec_frame n_instr].
  - split; reflexivity.
  - cnt. lia.
  - destruct j; cnt; lia.
  - destruct c; cnt; lia.
  - cnt. lia.
  - cnt. lia.
Qed.

Lemma count_logs : forall f, count is_log (spec_frame f) = n_logs f.
Proof.
  induction f as [|r IH|j r IH|c r IH|k i h r IH|k i c IHc r IH]; cbn [spec_frame n_logs].
  - reflexivity.
  - cnt. lia.
  - destruct j; cnt; lia.
  - destruct c; cnt; lia.
  - cnt. lia.
  - cnt. lia.
Qed.

Lemma count_sds : forall f, count is_sd (spec_frame f) = n_sd f.
Proof.
  induction f as [|r IH|j r IH|c r IH|k i h r IH|k i c IHc r IH]; cbn [spec_frame n_sd].
  - reflexivity.
  - cnt. lia.
  - destruct j; cnt; lia.
  - destruct c; cnt; lia.
  - cnt. lia.
  - cnt. lia.
Qed.

Lemma count_inits : forall f, count is_init (spec_frame f) = n_frames f.
Proof.
  induction f as [|r IH|j r IH|c r IH|k i h r IH|k i c IHc r IH]; cbn [spec_frame n_frames].
  - reflexivity.
  - cnt. lia.
  - destruct j; cnt; lia.
  - destruct c; cnt; lia.
  - cnt. lia.
  - cnt. lia.
Qed.

(* in every word of the grammar, openers and closers of each (kind, inputs) pair up *)
Lemma items_open_close : forall l, items l ->
  forall k i, count (is_open_of k i) l = count (is_close_of k i) l.
Proof.
  induction 1 as [|post t Hm _ IH|k0 i0 t _ IH|k0 i0 inn t _ IHi _ IH]; intros k i.
  - reflexivity.
  - destruct Hm as [-> | [-> | ->]]; simpl app; rewrite !count_cons; simpl; rewrite IH; reflexivity.
  - rewrite !count_cons. simpl. rewrite IH. destruct (kind_eqb k k0 && (i =? i0)); lia.
  - rewrite !count_cons, !count_app, !count_cons. simpl. rewrite IH, IHi.
    destruct (kind_eqb k k0 && (i =? i0)); lia.
Qed.

Lemma items_steps : forall l, items l -> count is_step l = count is_step_end l.
Proof.
  induction 1 as [|post t Hm _ IH|k0 i0 t _ IH|k0 i0 inn t _ IHi _ IH].
  - reflexivity.
  - destruct Hm as [-> | [-> | ->]]; simpl app; cnt; lia.
  - cnt. lia.
  - cnt. lia.
Qed.

(* ---------- monitor: basic facts ---------- *)
Lemma mrun_app : forall a b s m,
  mrun s m (a ++ b) = match mrun s m a with Some (s', m') => mrun s' m' b | None => None end.
Proof.
  induction a as [|t a IH]; intros b s m; simpl; [reflexivity|].
  destruct (mstep s m t) as [[s' m']|]; [apply IH|reflexivity].
Qed.

Lemma mclose_same k i s : s <> [] -> mclose ((k, i) :: s) k i = Some (s, MIdle).
Proof.
  intro H. unfold mclose. assert (kind_eqb k k = true) as -> by (apply kind_eqb_eq; reflexivity).
  rewrite Z.eqb_refl. simpl. destruct s; [congruence|reflexivity].
Qed.

(* completeness: a word of [items] is skipped by the monitor inside any open frame; the mode
   afterwards is MIdle or MAfter, which treat openers, closers and steps alike *)
Definition idleish (m : mode) : Prop := m = MIdle \/ m = MAfter.

Lemma items_mrun : forall t, items t -> forall s m rest, s <> [] -> idleish m ->
  exists m', idleish m' /\ mrun s m (t ++ rest) = mrun s m' rest.
Proof.
  induction 1 as [|post t Hm _ IH|k i t _ IH|k i inn t _ IHi _ IH]; intros s m rest Hs Hm0.
  - exists m. split; [exact Hm0|reflexivity].
  - assert (mrun s m ((TStep :: TStepEnd :: post ++ t) ++ rest) = mrun s MAfter (post ++ t ++ rest)) as ->.
    { simpl. rewrite <- app_assoc. destruct Hm0 as [-> | ->]; reflexivity. }
    destruct Hm as [-> | [-> | ->]]; simpl.
    + apply IH; [exact Hs|right; reflexivity].
    + apply IH; [exact Hs|left; reflexivity].
    + apply IH; [exact Hs|left; reflexivity].
  - assert (mrun s m ((TOpen k i :: TClose k i :: t) ++ rest) = mrun s MIdle (t ++ rest)) as ->.
    { change ((TOpen k i :: TClose k i :: t) ++ rest) with (TOpen k i :: TClose k i :: (t ++ rest)).
      destruct Hm0 as [-> | ->]; cbn [mrun]; cbn [mstep]; rewrite (mclose_same k i s Hs); reflexivity. }
    apply IH; [exact Hs|left; reflexivity].
  - assert (mrun s m ((TOpen k i :: TInitInterp :: inn ++ TClose k i :: t) ++ rest)
            = mrun ((k, i) :: s) MIdle (inn ++ TClose k i :: t ++ rest)) as ->.
    { change ((TOpen k i :: TInitInterp :: inn ++ TClose k i :: t) ++ rest)
        with (TOpen k i :: TInitInterp :: ((inn ++ TClose k i :: t) ++ rest)).
      rewrite <- app_assoc. destruct Hm0 as [-> | ->]; reflexivity. }
    destruct (IHi ((k, i) :: s) MIdle (TClose k i :: t ++ rest)) as (m1 & Hm1 & ->);
      [discriminate|left; reflexivity|].
    assert (mrun ((k, i) :: s) m1 (TClose k i :: t ++ rest) = mrun s MIdle (t ++ rest)) as ->.
    { destruct Hm1 as [-> | ->]; cbn [mrun]; cbn [mstep]; rewrite (mclose_same k i s Hs); reflexivity. }
    apply IH; [exact Hs|left; reflexivity].
Qed.

Lemma tx_wb_balanced : forall l, tx_wb l -> balanced l = true.
Proof.
  intros l [k i|k i inn H]; unfold balanced.
  - cbn [mrun mstep mclose]. assert (kind_eqb k k = true) as -> by (apply kind_eqb_eq; reflexivity).
    rewrite Z.eqb_refl. reflexivity.
  - cbn [mrun mstep].
    destruct (items_mrun inn H [(k, i)] MIdle [TClose k i]) as (m1 & Hm1 & ->);
      [discriminate|left; reflexivity|].
    destruct Hm1 as [-> | ->]; cbn [mrun mstep mclose];
      assert (kind_eqb k k = true) as -> by (apply kind_eqb_eq; reflexivity);
      rewrite Z.eqb_refl; reflexivity.
Qed.

(* soundness: what remains to be read in each monitor state *)
Fixpoint closes (s : list br) (l : list token) : Prop :=
  match s with
  | [] => l = []
  | (k, i) :: s' => exists t1 t2, l = t1 ++ TClose k i :: t2 /\ items t1 /\ closes s' t2
  end.

Definition remaining_ok (s : list br) (m : mode) (l : list token) : Prop :=
  match m with
  | MStart => tx_wb l
  | MDone => l = []
  | MIdle => s <> [] -> closes s l
  | MOpened =>
      match s with
      | [] => True
      | (k, i) :: s' => (exists t2, l = TClose k i :: t2 /\ closes s' t2)
                        \/ (exists l', l = TInitInterp :: l' /\ closes s l')
      end
  | MStep => s <> [] -> exists post l', step_post post /\ l = TStepEnd :: post ++ l' /\ closes s l'
  | MAfter => s <> [] -> exists post l', step_post post /\ l = post ++ l' /\ closes s l'
  end.

(* an item can be put in front of what closes a non-empty stack *)
Lemma closes_prepend : forall s x l, s <> [] ->
  (forall t, items t -> items (x ++ t)) -> closes s l -> closes s (x ++ l).
Proof.
  intros [|[k i] s'] x l Hs Hx Hc; [congruence|].
  destruct Hc as (t1 & t2 & -> & Ht1 & Hc).
  exists (x ++ t1), t2. split; [rewrite app_assoc; reflexivity|]. split; [apply Hx; exact Ht1|exact Hc].
Qed.

Lemma mclose_inv s k i s' m' : mclose s k i = Some (s', m') ->
  s = (k, i) :: s' /\ m' = match s' with [] => MDone | _ => MIdle end.
Proof.
  unfold mclose. destruct s as [|[k' i'] r]; [discriminate|].
  destruct (kind_eqb k k') eqn:Ek; simpl; [|discriminate].
  destruct (i =? i') eqn:Ei; [|discriminate].
  intro H; inversion H; subst. apply kind_eqb_eq in Ek. apply Z.eqb_eq in Ei. subst. split; reflexivity.
Qed.

Lemma closes_after_close : forall s' l',
  remaining_ok s' (match s' with [] => MDone | _ => MIdle end) l' -> closes s' l'.
Proof.
  intros [|b r] l' H; simpl in *; [exact H|]. apply H. discriminate.
Qed.

(* one token read in MIdle (also valid for MAfter, which reads these tokens the same way) *)
Lemma sound_idle_step : forall t l s s1 m1,
  mstep s MIdle t = Some (s1, m1) -> remaining_ok s1 m1 l -> s <> [] -> closes s (t :: l).
Proof.
  intros t l s s1 m1 E H Hs. destruct t; simpl in E; try discriminate.
  - (* open *)
    inversion E; subst. simpl in H.
    destruct H as [(t2 & -> & Hc)|(l' & -> & (t1 & t2 & -> & Ht1 & Hc))].
    + apply (closes_prepend s [TOpen k i; TClose k i] t2 Hs); [|exact Hc].
      intros t Ht. simpl. apply it_br0. exact Ht.
    + replace (TOpen k i :: TInitInterp :: t1 ++ TClose k i :: t2)
        with ((TOpen k i :: TInitInterp :: t1 ++ [TClose k i]) ++ t2)
        by (simpl; rewrite <- app_assoc; reflexivity).
      apply (closes_prepend s _ t2 Hs); [|exact Hc].
      intros t Ht. simpl. rewrite <- app_assoc. simpl. apply it_br1; assumption.
  - (* close *)
    apply mclose_inv in E. destruct E as [-> ->]. simpl.
    exists [], l. split; [reflexivity|]. split; [constructor|].
    apply closes_after_close. exact H.
  - (* step *)
    inversion E; subst. simpl in H. destruct (H Hs) as (post & l' & Hm & -> & Hc).
    replace (TStep :: TStepEnd :: post ++ l') with ((TStep :: TStepEnd :: post) ++ l')
      by (simpl; reflexivity).
    apply (closes_prepend s1 _ l' Hs); [|exact Hc].
    intros t Ht. simpl. apply it_step; assumption.
Qed.

Lemma sound_gen : forall l s m, mrun s m l = Some ([], MDone) -> remaining_ok s m l.
Proof.
  induction l as [|t l IH]; intros s m H.
  - simpl in H. inversion H; subst. reflexivity.
  - simpl in H. destruct (mstep s m t) as [[s1 m1]|] eqn:E; [|discriminate].
    apply IH in H.
    destruct m.
    + (* MStart *)
      destruct t; simpl in E; try discriminate.
      inversion E; subst. simpl in H.
      destruct H as [(t2 & -> & Hc)|(l' & -> & (t1 & t2 & -> & Ht1 & Hc))].
      * simpl in Hc. subst. constructor.
      * simpl in Hc. subst. apply tx_br1. exact Ht1.
    + (* MOpened *)
      destruct t; simpl in E; try discriminate.
      * apply mclose_inv in E. destruct E as [-> ->]. simpl. left. exists l. split; [reflexivity|].
        apply closes_after_close. exact H.
      * inversion E; subst. simpl in H. destruct s1 as [|[k i] r]; simpl; [exact I|].
        right. exists l. split; [reflexivity|]. apply H. discriminate.
    + (* MIdle *)
      intro Hs. exact (sound_idle_step t l s s1 m1 E H Hs).
    + (* MStep *)
      destruct t; simpl in E; try discriminate.
      inversion E; subst. simpl in H. intro Hs. destruct (H Hs) as (post & l' & Hp & -> & Hc).
      exists post, l'. split; [exact Hp|]. split; [reflexivity|exact Hc].
    + (* MAfter *)
      intro Hs. destruct t.
      * exists [], (TOpen k i :: l). split; [left; reflexivity|]. split; [reflexivity|].
        change (mstep s MIdle (TOpen k i) = Some (s1, m1)) in E.
        exact (sound_idle_step _ l s s1 m1 E H Hs).
      * exists [], (TClose k i :: l). split; [left; reflexivity|]. split; [reflexivity|].
        change (mstep s MIdle (TClose k i) = Some (s1, m1)) in E.
        exact (sound_idle_step _ l s s1 m1 E H Hs).
      * exists [], (TStep :: l). split; [left; reflexivity|]. split; [reflexivity|].
        change (mstep s MIdle (TStep) = Some (s1, m1)) in E.
        exact (sound_idle_step _ l s s1 m1 E H Hs).
      * discriminate.
      * simpl in E. inversion E; subst. simpl in H.
        exists [TLog], l. split; [right; left; reflexivity|]. split; [reflexivity|apply H; exact Hs].
      * simpl in E. inversion E; subst. simpl in H.
        exists [TSelfDestruct], l. split; [right; right; reflexivity|]. split; [reflexivity|apply H; exact Hs].
      * discriminate.
    + (* MDone *)
      destruct t; discriminate.
Qed.

Lemma balanced_tx_wb : forall l, balanced l = true -> tx_wb l.
Proof.
  intros l H. unfold balanced in H.
  destruct (mrun [] MStart l) as [[[|b s] m]|] eqn:E; try discriminate.
  destruct m; try discriminate.
  apply sound_gen in E. exact E.
Qed.

Theorem balanced_iff : forall l, balanced l = true <-> tx_wb l.
Proof. intro l; split; [apply balanced_tx_wb|apply tx_wb_balanced]. Qed.

(* ---------- corollaries used by Props/C29.v ---------- *)
Lemma transact_wb : forall x s s' t, transact x s = Some (s', t) -> tx_wb t /\ s' = s.
Proof.
  intros x s s' t H. rewrite transact_spec in H. inversion H; subst. split; [apply spec_tx_wb|reflexivity].
Qed.

Lemma tx_wb_open_close : forall l, tx_wb l ->
  forall k i, count (is_open_of k i) l = count (is_close_of k i) l.
Proof.
  intros l [k0 i0|k0 i0 inn H] k i.
  - rewrite !count_cons. simpl. destruct (kind_eqb k k0 && (i =? i0)); reflexivity.
  - rewrite !count_cons, !count_app, !count_cons. simpl. rewrite (items_open_close inn H).
    destruct (kind_eqb k k0 && (i =? i0)); rewrite ?count_nil; lia.
Qed.

Lemma tx_counts : forall k i f,
  count is_step (spec_tx (TxFrame k i f)) = n_instr f /\
  count is_step_end (spec_tx (TxFrame k i f)) = n_instr f /\
  count is_log (spec_tx (TxFrame k i f)) = n_logs f /\
  count is_sd (spec_tx (TxFrame k i f)) = n_sd f /\
  count is_init (spec_tx (TxFrame k i f)) = 1 + n_frames f.
Proof.
  intros k i f. cbn [spec_tx]. destruct (count_steps f) as [H1 H2].
  pose proof (count_logs f) as H3. pose proof (count_sds f) as H4. pose proof (count_inits f) as H5.
  repeat split; cnt; lia.
Qed.

Lemma tx_counts_noframe : forall k i h p,
  (forall k i, p (TOpen k i) = false) -> (forall k i, p (TClose k i) = false) ->
  count p (spec_tx (TxNoFrame k i h)) = 0.
Proof. intros k i h p Ho Hc. cbn [spec_tx]. rewrite !count_cons, Ho, Hc. reflexivity. Qed.

(* ---------- the loop with the explicit call_stack = the recursive model ---------- *)
Lemma pre_app a b r : pre (a ++ b) r = pre a (pre b r).
Proof. destruct r; simpl; try reflexivity. rewrite app_assoc. reflexivity. Qed.
Lemma pre_nil r : pre [] r = r.
Proof. destruct r; reflexivity. Qed.

(* what happens in the iteration in which the top frame (of kind k) has returned *)
Definition after_return (n : nat) (k : kind) (below : list (kind * frame)) (s : stacks) : loop_result :=
  match below with
  | [] => Returned k s []
  | _ :: _ =>
      match h_insert_outcome k s with
      | Some (s', t2) => pre t2 (run_the_loop n below s')
      | None => Panic
      end
  end.

(* a straight-line prefix only adds its tokens *)
Lemma loop_prefix : forall p f k below s fuel g,
  (execute_frame g = let '(t, a, f') := execute_frame f in (p ++ t, a, f')) ->
  run_the_loop fuel ((k, g) :: below) s = pre p (run_the_loop fuel ((k, f) :: below) s).
Proof.
  intros p f k below s fuel g Hg. destruct fuel as [|n]; [reflexivity|].
  cbn [run_the_loop]. rewrite Hg. destruct (execute_frame f) as [[t a] f'].
  destruct a as [|k' i h|k' i c].
  - destruct below as [|b bl].
    + reflexivity.
    + destruct (h_insert_outcome k s) as [[s' t2]|]; [|reflexivity].
      rewrite <- app_assoc. rewrite pre_app. reflexivity.
  - destruct (h_open k' i s) as [s1 t1]. destruct (h_insert_outcome k' s1) as [[s2 t2]|]; [|reflexivity].
    rewrite <- app_assoc. rewrite pre_app. reflexivity.
  - destruct (h_open k' i s) as [s1 t1]. rewrite <- app_assoc. rewrite pre_app. reflexivity.
Qed.

Lemma loop_is_run_frame : forall f n k below s,
  run_the_loop (iters f + n) ((k, f) :: below) s = pre (spec_frame f) (after_return n k below s).
Proof.
  induction f as [|r IH|j r IH|c r IH|k' i h r IH|k' i c IHc r IH]; intros n k below s.
  - (* FEnd *)
    cbn [iters Nat.add run_the_loop execute_frame spec_frame]. unfold after_return.
    destruct below as [|b bl]; [reflexivity|].
    destruct (h_insert_outcome k s) as [[s' t2]|]; [|reflexivity]. rewrite pre_nil. reflexivity.
  - cbn [iters]. rewrite (loop_prefix instr_plain r k below s (iters r + n) (FInstr r) eq_refl).
    rewrite IH. rewrite <- pre_app. reflexivity.
  - cbn [iters]. rewrite (loop_prefix (instr_log j) r k below s (iters r + n) (FLog j r) eq_refl).
    rewrite IH. rewrite <- pre_app. reflexivity.
  - cbn [iters]. rewrite (loop_prefix (instr_sd c) r k below s (iters r + n) (FSd c r) eq_refl).
    rewrite IH. rewrite <- pre_app. reflexivity.
  - (* FSubNoFrame *)
    cbn [iters Nat.add run_the_loop execute_frame].
    pose proof (insert_after_open k' i s) as Hi. unfold h_open in *. cbn [fst] in Hi. rewrite Hi.
    rewrite IH. rewrite <- pre_app. reflexivity.
  - (* FSubFrame *)
    cbn [iters Nat.add run_the_loop execute_frame]. unfold h_open.
    rewrite <- Nat.add_assoc. rewrite IHc. unfold after_return at 1.
    pose proof (insert_after_open k' i s) as Hi. unfold h_open in Hi. cbn [fst] in Hi. rewrite Hi.
    rewrite IH. rewrite <- !pre_app. f_equal. cbn [spec_frame instr_plain inspector_instruction app].
    rewrite <- !app_assoc. reflexivity.
Qed.

Theorem transact_loop_is_transact : forall x s,
  let fuel := match x with TxFrame _ _ f => iters f | _ => O end in
  match transact x s with
  | Some (s', t) => exists k, transact_loop fuel x s = Returned k s' t
  | None => transact_loop fuel x s = Panic
  end.
Proof.
  intros [k i h|k i f] s; cbn [transact transact_loop]; unfold h_open.
  - unfold h_last_frame_return. rewrite pop_push. simpl. exists k. reflexivity.
  - rewrite run_frame_spec. cbn [bind].
    pose proof (loop_is_run_frame f 0 k [] (push k i s)) as H. rewrite Nat.add_0_r in H. rewrite H.
    unfold after_return. cbn [pre]. rewrite app_nil_r.
    unfold h_last_frame_return. rewrite pop_push. cbn [bind]. exists k. reflexivity.
Qed.
