(* Lemmas about the instruction step function (Model/Step.v): every instruction that lets the
   frame continue consumes at least one unit of gas and moves the program counter either to
   the next instruction, behind the immediate data of a PUSH, or to a destination accepted by
   the jump check of C04. *)
From RevmV Require Import Base.Word Model.Step.
From RevmV Require Model.Gas Model.Arith Model.Jump Model.Memory Model.GasCalc Model.Host.
Local Open Scope Z_scope.

(* ---------------------------------------------------------------- the relation threaded through an instruction *)
(* I1 is reached from I inside one instruction after paying at least c *)
Definition R (c : Z) (I I1 : istate) : Prop :=
  i_pc I1 = i_pc I /\ Gas.limit (i_gas I1) = Gas.limit (i_gas I) /\
  (0 <= rem I -> 0 <= rem I1 /\ rem I1 + c <= rem I).

Lemma R_refl I : R 0 I I.
Proof. unfold R. split; [reflexivity|]. split; [reflexivity|]. intros. lia. Qed.
Lemma R_trans c1 c2 I I1 I2 : R c1 I I1 -> R c2 I1 I2 -> R (c1 + c2) I I2.
Proof. unfold R. intros (A & B & C) (A' & B' & C'). split; [congruence|]. split; [congruence|].
  intros P. destruct (C P) as [P1 P2]. destruct (C' P1) as [P3 P4]. lia. Qed.
Lemma R_weaken c c' I I1 : R c I I1 -> c' <= c -> R c' I I1.
Proof. unfold R. intros (A & B & C) L. split; [exact A|]. split; [exact B|]. intros P. destruct (C P). lia. Qed.
Lemma R_stk c I I1 v : R c I I1 -> R c I (set_stk I1 v).
Proof. exact (fun x => x). Qed.
Lemma R_mem c I I1 v : R c I I1 -> R c I (set_mem I1 v).
Proof. exact (fun x => x). Qed.
Lemma R_rd c I I1 v : R c I I1 -> R c I (set_rd I1 v).
Proof. exact (fun x => x). Qed.

(* what an instruction must guarantee when it continues *)
Inductive pc_move (F : fctx) (I I' : istate) : Prop :=
| PcNext : i_pc I' = i_pc I + 1 -> pc_move F I I'
| PcPush n : 0x60 <= opcode_at F (i_pc I) <= 0x7f -> n = opcode_at F (i_pc I) - 0x5f ->
             i_pc I' = i_pc I + 1 + n -> pc_move F I I'
| PcJump : Jump.jump_ok (f_bc F) (i_pc I') = true -> pc_move F I I'.

Definition Post (F : fctx) (I I' : istate) : Prop :=
  pc_move F I I' /\ Gas.limit (i_gas I') = Gas.limit (i_gas I) /\
  (0 <= rem I -> 0 <= rem I' /\ rem I' + 1 <= rem I).

(* a call / create request: the gas handed to the child (stipend included) plus what the
   parent keeps is less than what the parent had *)
Definition PostCall (I : istate) (gl : Z) (I' : istate) : Prop :=
  i_pc I' = i_pc I /\ Gas.limit (i_gas I') = Gas.limit (i_gas I) /\
  (0 <= rem I -> 0 <= rem I' /\ 0 <= gl /\ rem I' + gl + 1 <= rem I).

(* a frame that ends with a result whose gas is handed back (return_ok! / return_revert!) has
   not gained gas *)
Definition PostEnd (I : istate) (r : Z) (I' : istate) : Prop :=
  is_ok r || is_revert r = true ->
  Gas.limit (i_gas I') = Gas.limit (i_gas I) /\ (0 <= rem I -> 0 <= rem I' <= rem I).

Record posts := mkPosts {
  p_next : istate -> Prop; p_call : callreq -> istate -> Prop; p_create : createreq -> istate -> Prop;
  p_end : Z -> istate -> Prop }.
Definition Q (P : posts) (r : sres) : Prop :=
  match r with
  | SNext I' => p_next P I'
  | SCall c I' => p_call P c I'
  | SCreate c I' => p_create P c I'
  | SEnd r _ I' => p_end P r I'
  | SBad _ => True
  end.
Definition PA (F : fctx) (I : istate) : posts :=
  mkPosts (Post F I) (fun c I' => PostCall I (cq_gas_limit c) I' /\ (cq_transfers c = true -> 0 <= cq_value c)) (fun c I' => PostCall I (kq_gas_limit c) I')
          (PostEnd I).
(* an error result: nothing to show *)
Ltac trivial_end := solve [exact Logic.I | intros HH; vm_compute in HH; discriminate HH].

Lemma Q_bad P k : Q P (SBad k). Proof. exact Logic.I. Qed.

Lemma record_cost_true g c g' :
  Gas.record_cost g c = (g', true) ->
  Gas.limit g' = Gas.limit g /\ Gas.remaining g' = Gas.remaining g - c /\ c <= Gas.remaining g /\
  Gas.refunded g' = Gas.refunded g.
Proof.
  unfold Gas.record_cost. destruct (c <=? Gas.remaining g) eqn:E; intros H; inversion H; subst.
  cbn. apply Z.leb_le in E. auto.
Qed.

Lemma Q_with_gas F I0 c I k :
  (forall I1, R c I I1 -> i_stk I1 = i_stk I -> i_mem I1 = i_mem I -> i_rd I1 = i_rd I -> Q (PA F I0) (k I1)) ->
  Q (PA F I0) (with_gas c I k).
Proof.
  intros Hk. unfold with_gas. destruct (Gas.record_cost (i_gas I) c) as [g' ok] eqn:E.
  destruct ok; [|trivial_end].
  apply record_cost_true in E. destruct E as (L & Rm & Le & _).
  apply Hk; try reflexivity.
  unfold R, rem. cbn [set_gas i_pc i_gas]. split; [reflexivity|]. split; [exact L|]. intros. lia.
Qed.

Lemma Q_with_gas_opt F I0 oc I k :
  (forall c I1, oc = Some c -> R c I I1 -> i_stk I1 = i_stk I -> i_mem I1 = i_mem I -> i_rd I1 = i_rd I -> Q (PA F I0) (k I1)) ->
  Q (PA F I0) (with_gas_opt oc I k).
Proof.
  intros Hk. unfold with_gas_opt. destruct oc as [c|]; [|trivial_end].
  apply (Q_with_gas F I0 c I). intros. eapply Hk; eauto.
Qed.

Lemma Q_usize F I0 v I k : (v < pow64 -> Q (PA F I0) (k v)) -> Q (PA F I0) (usize_or_fail v I k).
Proof. intros H. unfold usize_or_fail. destruct (v <? pow64) eqn:E; [apply H, Z.ltb_lt, E|trivial_end]. Qed.

(* resize_memory!: the gas never goes up *)
Lemma resize_macro_gas m gas off len m' g' c :
  Memory.resize_macro m gas off len = Some (m', g', c) -> c = 0 -> 0 <= gas -> 0 <= g' <= gas.
Proof.
  unfold Memory.resize_macro, Memory.resize_memory.
  destruct (_ >? _).
  - destruct (_ - _ <? 0) eqn:N; [discriminate|]. apply Z.ltb_ge in N.
    destruct (_ - _ <=? gas) eqn:L.
    + intros [= <- <- <-] _ P. apply Z.leb_le in L. lia.
    + intros [= <- <- <-]. discriminate.
  - intros [= <- <- <-] _ P. lia.
Qed.

Lemma Q_mem_resize F I0 I off len k :
  (forall I1, R 0 I I1 -> i_stk I1 = i_stk I -> i_rd I1 = i_rd I -> Q (PA F I0) (k I1)) -> Q (PA F I0) (mem_resize I off len k).
Proof.
  intros Hk. unfold mem_resize.
  destruct (Memory.resize_macro (i_mem I) (rem I) off len) as [[[m' g'] c]|] eqn:E; [|apply Q_bad].
  destruct (c =? 0) eqn:C; [|trivial_end]. apply Z.eqb_eq in C.
  apply Hk; try reflexivity. unfold R, rem. cbn [set_gas set_mem i_pc i_gas Gas.remaining Gas.limit].
  split; [reflexivity|]. split; [reflexivity|]. intros P0. pose proof (resize_macro_gas _ _ _ _ _ _ _ E C P0) as HH. unfold rem in *. cbn [Gas.remaining] in *. lia.
Qed.

Lemma Q_mem_op F I0 r I k :
  (forall I1, R 0 I I1 -> i_stk I1 = i_stk I -> i_rd I1 = i_rd I -> Q (PA F I0) (k I1)) -> Q (PA F I0) (mem_op r I k).
Proof.
  intros Hk. unfold mem_op. destruct r as [m' p]. destruct p; [apply Q_bad|].
  apply Hk; try reflexivity. apply (R_mem 0 I I m'), R_refl.
Qed.

(* the instruction ends with [next] after paying at least 1 *)
Lemma Q_next F I I1 c : R c I I1 -> 1 <= c -> Q (PA F I) (next I1).
Proof.
  intros (A & B & C) L. unfold next, Q, Post. cbn [set_pc i_pc i_gas].
  split; [apply PcNext; cbn; lia|]. split; [exact B|]. unfold rem in *. cbn [set_pc i_gas].
  intros P. destruct (C P). lia.
Qed.
Lemma Q_push_next F I I1 c v : R c I I1 -> 1 <= c -> Q (PA F I) (push_next v I1).
Proof.
  intros HR L. unfold push_next. destruct (_ <=? _); [trivial_end|].
  apply (Q_next F I (set_stk I1 (v :: i_stk I1)) c); auto.
Qed.

Ltac cps_step F I :=
  first
  [ trivial_end
  | apply Q_with_gas; intros ? ? ? ? ?
  | apply Q_with_gas_opt; intros ? ? ? ? ? ? ?
  | apply Q_usize; intros ?
  | apply Q_mem_resize; intros ? ? ? ?
  | apply Q_mem_op; intros ? ? ? ?
  | match goal with |- Q _ (match ?x with _ => _ end) => destruct x eqn:? end
  | match goal with |- Q _ (if ?b then _ else _) => destruct b eqn:? end ].

(* compose the R facts in the context into one fact about the last state *)
Ltac Rs :=
  repeat match goal with
  | H1 : R ?c1 ?I ?I1, H2 : R ?c2 ?I1 ?I2 |- _ =>
      let H := fresh "RR" in pose proof (R_trans _ _ _ _ _ H1 H2) as H; clear H2
  end.

(* ---------------------------------------------------------------- gas formulas are positive *)
Lemma checked64_some x y : checked64 x = Some y -> y = x /\ 0 <= x.
Proof. unfold checked64, is_u64. destruct (0 <=? x) eqn:A; cbn; [|discriminate].
  destruct (x <? pow64); [|discriminate]. intros [= <-]. apply Z.leb_le in A. auto. Qed.

Lemma cost_per_word_nonneg len m w : GasCalc.cost_per_word len m = Some w -> 0 <= w.
Proof. unfold GasCalc.cost_per_word. intros H. apply checked64_some in H. lia. Qed.

Lemma keccak_cost_pos len c : GasCalc.keccak256_cost len = Some c -> 1 <= c.
Proof.
  unfold GasCalc.keccak256_cost, GasCalc.obind, GasCalc.checked_add64.
  destruct (GasCalc.cost_per_word _ _) as [w|] eqn:E; [|discriminate].
  apply cost_per_word_nonneg in E. intros H. apply checked64_some in H. destruct H as [-> _].
  change GasCalc.G.KECCAK256 with 30. lia.
Qed.
Lemma verylowcopy_cost_pos len c : GasCalc.verylowcopy_cost len = Some c -> 1 <= c.
Proof.
  unfold GasCalc.verylowcopy_cost, GasCalc.obind, GasCalc.checked_add64.
  destruct (GasCalc.cost_per_word _ _) as [w|] eqn:E; [|discriminate].
  apply cost_per_word_nonneg in E. intros H. apply checked64_some in H. destruct H as [-> _].
  change GasCalc.G.VERYLOW with 3. lia.
Qed.

(* ---------------------------------------------------------------- arithmetic instructions (Model/Arith.v) *)

Lemma limb_range v i : 0 <= Arith.limb v i < pow64.
Proof. unfold Arith.limb. apply Z.mod_pos_bound. reflexivity. Qed.
Lemma lz_range x : 0 < x < pow64 -> 0 <= Arith.leading_zeros64 x <= 63.
Proof.
  intros [A B]. unfold Arith.leading_zeros64. destruct (x =? 0) eqn:E; [apply Z.eqb_eq in E; lia|].
  pose proof (Z.log2_nonneg x). assert (Z.log2 x < 64) by (apply Z.log2_lt_pow2; [lia|exact B]). lia.
Qed.
Lemma log2floor_loop_nonneg n v l : Z.of_nat n * 64 <= l -> 0 <= Arith.log2floor_loop n v l.
Proof.
  revert l. induction n as [|n IH]; intros l L; cbn [Arith.log2floor_loop].
  - lia.
  - rewrite Nat2Z.inj_succ in L. destruct (Arith.limb v (Z.of_nat n) =? 0) eqn:E.
    + apply IH. lia.
    + apply Z.eqb_neq in E. pose proof (limb_range v (Z.of_nat n)).
      assert (0 <= Arith.leading_zeros64 (Arith.limb v (Z.of_nat n)) <= 63) by (apply lz_range; lia).
      destruct (_ =? 0) eqn:E2; [apply Z.eqb_eq in E2|apply Z.eqb_neq in E2]; lia.
Qed.
Lemma exp_cost_pos spec p c : Arith.exp_cost spec p = Some c -> 1 <= c.
Proof.
  assert (HE : Arith.EXP = 10) by reflexivity.
  unfold Arith.exp_cost. destruct (p =? 0); [intros H; assert (c = Arith.EXP) by congruence; lia|].
  assert (0 <= Arith.log2floor p) by (apply log2floor_loop_nonneg; cbn; lia).
  unfold Arith.checked_mul256, Arith.checked_add256.
  set (gb := if Arith.is_enabled_in spec Arith.SPURIOUS_DRAGON then 50 else 10).
  assert (10 <= gb) by (unfold gb; destruct (Arith.is_enabled_in _ _); lia).
  assert (0 <= Arith.log2floor p / 8) by (apply Z.div_pos; lia).
  assert (0 <= gb * (Arith.log2floor p / 8 + 1)) by (apply Z.mul_nonneg_nonneg; lia).
  destruct (_ <? pow256); [|discriminate]. destruct (_ <? pow256); [|discriminate].
  destruct (_ <? pow64); [|discriminate]. intros H3. assert (H4 : c = Arith.EXP + gb * (Arith.log2floor p / 8 + 1)) by congruence. lia.
Qed.

Lemma arith_step_gas spec op st g :
  Arith.i_res (Arith.step spec op st g) = Arith.Continue ->
  Gas.limit (Arith.i_gas (Arith.step spec op st g)) = Gas.limit g /\
  Gas.remaining (Arith.i_gas (Arith.step spec op st g)) + 1 <= Gas.remaining g /\
  (0 <= Gas.remaining g -> 0 <= Gas.remaining (Arith.i_gas (Arith.step spec op st g))).
Proof.
  assert (B : forall c f, 1 <= c -> Arith.i_res (Arith.binop c f st g) = Arith.Continue ->
    Gas.limit (Arith.i_gas (Arith.binop c f st g)) = Gas.limit g /\
    Gas.remaining (Arith.i_gas (Arith.binop c f st g)) + 1 <= Gas.remaining g /\
    (0 <= Gas.remaining g -> 0 <= Gas.remaining (Arith.i_gas (Arith.binop c f st g)))).
  { intros c f Hc. unfold Arith.binop, Arith.with_gas, Gas.record_cost.
    destruct (c <=? Gas.remaining g) eqn:E; [|discriminate]. apply Z.leb_le in E.
    destruct st as [|a [|b r]]; cbn; try discriminate. intros _. lia. }
  assert (U : forall c f, 1 <= c -> Arith.i_res (Arith.unop c f st g) = Arith.Continue ->
    Gas.limit (Arith.i_gas (Arith.unop c f st g)) = Gas.limit g /\
    Gas.remaining (Arith.i_gas (Arith.unop c f st g)) + 1 <= Gas.remaining g /\
    (0 <= Gas.remaining g -> 0 <= Gas.remaining (Arith.i_gas (Arith.unop c f st g)))).
  { intros c f Hc. unfold Arith.unop, Arith.with_gas, Gas.record_cost.
    destruct (c <=? Gas.remaining g) eqn:E; [|discriminate]. apply Z.leb_le in E.
    destruct st as [|a r]; cbn; try discriminate. intros _. lia. }
  assert (T : forall c f, 1 <= c -> Arith.i_res (Arith.ternop c f st g) = Arith.Continue ->
    Gas.limit (Arith.i_gas (Arith.ternop c f st g)) = Gas.limit g /\
    Gas.remaining (Arith.i_gas (Arith.ternop c f st g)) + 1 <= Gas.remaining g /\
    (0 <= Gas.remaining g -> 0 <= Gas.remaining (Arith.i_gas (Arith.ternop c f st g)))).
  { intros c f Hc. unfold Arith.ternop, Arith.with_gas, Gas.record_cost.
    destruct (c <=? Gas.remaining g) eqn:E; [|discriminate]. apply Z.leb_le in E.
    destruct st as [|a [|b [|m r]]]; cbn; try discriminate. intros _. lia. }
  assert (S : forall f, Arith.i_res (Arith.shiftop spec f st g) = Arith.Continue ->
    Gas.limit (Arith.i_gas (Arith.shiftop spec f st g)) = Gas.limit g /\
    Gas.remaining (Arith.i_gas (Arith.shiftop spec f st g)) + 1 <= Gas.remaining g /\
    (0 <= Gas.remaining g -> 0 <= Gas.remaining (Arith.i_gas (Arith.shiftop spec f st g)))).
  { intros f. unfold Arith.shiftop. destruct (negb _); [discriminate|]. apply B. unfold Arith.VERYLOW. lia. }
  assert (X : Arith.i_res (Arith.expop spec st g) = Arith.Continue ->
    Gas.limit (Arith.i_gas (Arith.expop spec st g)) = Gas.limit g /\
    Gas.remaining (Arith.i_gas (Arith.expop spec st g)) + 1 <= Gas.remaining g /\
    (0 <= Gas.remaining g -> 0 <= Gas.remaining (Arith.i_gas (Arith.expop spec st g)))).
  { unfold Arith.expop. destruct st as [|a [|b r]]; try discriminate.
    destruct (Arith.exp_cost spec b) as [c|] eqn:E; [|discriminate]. apply exp_cost_pos in E.
    unfold Gas.record_cost. destruct (c <=? Gas.remaining g) eqn:E2; [|discriminate]. apply Z.leb_le in E2.
    cbn. intros _. lia. }
  unfold Arith.step.
  repeat match goal with |- context [match ?x with _ => _ end] => destruct x end;
    try discriminate; try (apply B; unfold Arith.VERYLOW, Arith.LOW, Arith.MID; lia);
    try (apply U; unfold Arith.VERYLOW; lia); try (apply T; unfold Arith.MID; lia); try apply S; try apply X.
Qed.

(* ---------------------------------------------------------------- per-instruction lemmas *)

Ltac consts := unfold G.VERYLOW, G.BASE, G.LOW, G.MID, G.HIGH, G.JUMPDEST, G.BLOCKHASH, G.WARM_STORAGE_READ_COST in *.
Ltac fin F I :=
  Rs; first [eapply Q_next | eapply Q_push_next];
  [ repeat (first [apply R_stk | apply R_mem | apply R_rd]); eassumption | consts; try lia ].
Ltac norm :=
  repeat match goal with
  | H : R ?c (set_stk ?X ?v) ?Y |- _ => change (R c X Y) in H
  | H : R ?c (set_mem ?X ?v) ?Y |- _ => change (R c X Y) in H
  | H : R ?c (set_rd ?X ?v) ?Y |- _ => change (R c X Y) in H
  end.
Ltac cps F I := repeat (first [cps_step F I | progress cbv zeta]); norm.

Lemma op_pop_Q F I : Q (PA F I) (op_pop I).
Proof. unfold op_pop. cps F I. fin F I. Qed.
Lemma op_push_env_Q F I v : Q (PA F I) (op_push_env v I).
Proof. unfold op_push_env. cps F I. fin F I. Qed.
Lemma op_mload_Q F I : Q (PA F I) (op_mload I).
Proof. unfold op_mload. cps F I. fin F I. Qed.
Lemma op_mstore_Q F I : Q (PA F I) (op_mstore I).
Proof. unfold op_mstore. cps F I. all: fin F I. Qed.
Lemma op_mstore8_Q F I : Q (PA F I) (op_mstore8 I).
Proof. unfold op_mstore8. cps F I. all: fin F I. Qed.
Lemma op_keccak_Q F I : Q (PA F I) (op_keccak256 I).
Proof. unfold op_keccak256. cps F I.
  all: match goal with H : GasCalc.keccak256_cost _ = Some _ |- _ => apply keccak_cost_pos in H end; fin F I.
Qed.
Lemma op_calldataload_Q F I : Q (PA F I) (op_calldataload F I).
Proof. unfold op_calldataload. cps F I. all: fin F I. Qed.
Lemma op_copy_Q F I d : Q (PA F I) (op_copy d I).
Proof. unfold op_copy. cps F I.
  all: match goal with H : GasCalc.verylowcopy_cost _ = Some _ |- _ => apply verylowcopy_cost_pos in H end; fin F I.
Qed.
Lemma op_returndatacopy_Q F I : Q (PA F I) (op_returndatacopy I).
Proof. unfold op_returndatacopy. cps F I.
  all: match goal with H : GasCalc.verylowcopy_cost _ = Some _ |- _ => apply verylowcopy_cost_pos in H end; fin F I.
Qed.
Lemma op_mcopy_Q F I : Q (PA F I) (op_mcopy I).
Proof. unfold op_mcopy. cps F I.
  all: match goal with H : GasCalc.verylowcopy_cost _ = Some _ |- _ => apply verylowcopy_cost_pos in H end; fin F I.
Qed.
Lemma op_dup_Q F I n : Q (PA F I) (op_dup n I).
Proof. unfold op_dup. cps F I. all: fin F I. Qed.
Lemma op_swap_Q F I n : Q (PA F I) (op_swap n I).
Proof. unfold op_swap. cps F I. all: fin F I. Qed.
Ltac fin_end :=
  Rs; unfold Q, PA, p_end, PostEnd; intros _;
  repeat match goal with H : R _ _ _ |- _ => destruct H as (? & ? & ?) end;
  unfold rem in *; cbn [set_stk set_mem set_rd set_gas set_pc i_gas] in *;
  split; [congruence|]; intros P0;
  repeat match goal with H : 0 <= Gas.remaining (i_gas ?X) -> _ |- _ => specialize (H P0); destruct H end;
  consts; lia.
Lemma op_return_Q F I r : Q (PA F I) (op_return r I).
Proof. unfold op_return. cps F I. all: fin_end. Qed.
Lemma op_blobhash_Q W F I : Q (PA F I) (op_blobhash W I).
Proof. unfold op_blobhash. cps F I. all: fin F I. Qed.
Lemma op_blockhash_Q W F I : Q (PA F I) (op_blockhash W I).
Proof. unfold op_blockhash. cps F I. all: fin F I. Qed.

Lemma op_arith_Q W F I op : Q (PA F I) (op_arith W op I).
Proof.
  unfold op_arith. destruct (Arith.i_res _) eqn:E; try trivial_end.
  destruct (arith_step_gas _ _ _ _ E) as (A & B & C).
  unfold next, Q, Post. split; [apply PcNext; reflexivity|]. split; [exact A|]. unfold rem. cbn [set_pc set_gas set_stk i_gas]. intros P. split; [apply C, P|exact B].
Qed.

Lemma op_jump_Q F I : Q (PA F I) (op_jump F I).
Proof.
  unfold op_jump. cps F I. unfold Jump.op_jump, Jump.jump_inner in *.
  destruct (Jump.jump_ok (f_bc F) z) eqn:J; [|discriminate].
  match goal with H : Jump.JContinue _ = Jump.JContinue _ |- _ => injection H as <- end.
  destruct H as (A & B & C). unfold Q, Post. split; [apply PcJump; exact J|]. split; [exact B|].
  unfold rem in *. cbn [set_pc set_stk i_gas]. intros P. destruct (C P). consts. lia.
Qed.
Lemma op_jumpi_Q F I : Q (PA F I) (op_jumpi F I).
Proof.
  unfold op_jumpi. cps F I. unfold Jump.op_jumpi, Jump.jump_inner in *.
  destruct H as (A & B & C).
  destruct (z0 =? 0).
  - match goal with H : Jump.JContinue _ = Jump.JContinue _ |- _ => injection H as <- end.
    unfold Q, Post. split; [apply PcNext; cbn [set_pc set_stk i_pc]; lia|]. split; [exact B|].
    unfold rem in *. cbn [set_pc set_stk i_gas]. intros P. destruct (C P). consts. lia.
  - destruct (Jump.jump_ok (f_bc F) z) eqn:J; [|discriminate].
    match goal with H : Jump.JContinue _ = Jump.JContinue _ |- _ => injection H as <- end.
    unfold Q, Post. split; [apply PcJump; exact J|]. split; [exact B|].
    unfold rem in *. cbn [set_pc set_stk i_gas]. intros P. destruct (C P). consts. lia.
Qed.

Lemma op_pushn_Q F I op :
  opcode_at F (i_pc I) = op -> 0x60 <= op <= 0x7f -> Q (PA F I) (op_pushn F (op - 0x5f) I).
Proof.
  intros E Rg. unfold op_pushn. cps F I. destruct H as (A & B & C).
  unfold Q, Post. split.
  - eapply PcPush with (n := op - 0x5f); rewrite ?E; try lia. cbn [set_pc set_stk i_pc]. lia.
  - split; [exact B|]. unfold rem in *. cbn [set_pc set_stk i_gas]. intros P. destruct (C P). consts. lia.
Qed.

Ltac hsplit :=
  repeat match goal with
  | |- context [let '(_, _) := ?x in _] => destruct x
  | |- context [match ?x with (_, _) => _ end] => destruct x
  end; cbn [snd fst].

Lemma warm_cold_pos c : 1 <= GasCalc.warm_cold_cost c.
Proof. unfold GasCalc.warm_cold_cost. destruct c; [change GasCalc.G.COLD_ACCOUNT_ACCESS_COST with 2600|change GasCalc.G.WARM_STORAGE_READ_COST with 100]; lia. Qed.

Lemma op_balance_Q W G F I : Q (PA F I) (snd (op_balance W G I)).
Proof.
  unfold op_balance. destruct (i_stk I); [trivial_end|]. hsplit.
  cps F I. pose proof (warm_cold_pos b). fin F I; repeat destruct (en _ _); lia.
Qed.
Lemma op_selfbalance_Q W G F I : Q (PA F I) (snd (op_selfbalance W G F I)).
Proof.
  unfold op_selfbalance. destruct (Gas.record_cost _ _) as [g' ok] eqn:E. destruct ok; [|trivial_end].
  hsplit. apply record_cost_true in E. destruct E as (L & Rm & Le & _).
  eapply (Q_push_next F I _ G.LOW); [|consts; lia].
  unfold R, rem. cbn [set_gas i_pc i_gas]. split; [reflexivity|]. split; [exact L|]. intros. lia.
Qed.
Lemma op_extcodesize_Q W G F I : Q (PA F I) (snd (op_extcodesize W G I)).
Proof.
  unfold op_extcodesize. destruct (i_stk I); [trivial_end|]. unfold host_code. hsplit.
  match goal with |- context [match ?o with Some _ => _ | None => _ end] => destruct o end; [|trivial_end]. cbn [snd].
  cps F I. pose proof (warm_cold_pos b). fin F I; repeat destruct (en _ _); lia.
Qed.
Lemma op_extcodehash_Q W G F I : Q (PA F I) (snd (op_extcodehash W G I)).
Proof.
  unfold op_extcodehash. destruct (i_stk I); [trivial_end|]. hsplit.
  cps F I. pose proof (warm_cold_pos b). fin F I; repeat destruct (en _ _); lia.
Qed.
Lemma extcodecopy_cost_pos s len cold c : GasCalc.extcodecopy_cost s len cold = Some c -> 1 <= c.
Proof.
  unfold GasCalc.extcodecopy_cost, GasCalc.obind, GasCalc.checked_add64.
  destruct (GasCalc.cost_per_word _ _) as [w|] eqn:E; [|discriminate].
  apply cost_per_word_nonneg in E. intros H. apply checked64_some in H. destruct H as [-> _].
  pose proof (warm_cold_pos cold). repeat destruct (GasCalc.enabled _ _); lia.
Qed.
Lemma op_extcodecopy_Q W G F I : Q (PA F I) (snd (op_extcodecopy W G I)).
Proof.
  unfold op_extcodecopy. destruct (i_stk I) as [|a [|b [|c [|d r]]]]; try trivial_end. unfold host_code. hsplit.
  match goal with |- context [match ?o with Some _ => _ | None => _ end] => destruct o end; [|trivial_end]. cbn [snd].
  cps F I.
  all: match goal with H : GasCalc.extcodecopy_cost _ _ _ = Some _ |- _ => apply extcodecopy_cost_pos in H end; fin F I.
Qed.
Lemma sload_cost_pos s c : 1 <= GasCalc.sload_cost s c.
Proof. unfold GasCalc.sload_cost. repeat destruct (GasCalc.enabled _ _); try destruct c;
  try change GasCalc.G.COLD_SLOAD_COST with 2100; try change GasCalc.G.WARM_STORAGE_READ_COST with 100;
  try change GasCalc.G.INSTANBUL_SLOAD_GAS with 800; lia. Qed.
Lemma op_sload_Q W G F I : Q (PA F I) (snd (op_sload W G F I)).
Proof.
  unfold op_sload. destruct (i_stk I); [trivial_end|].
  destruct (H.sload _ _ _ _) as [[[s1 v] cold]|]; [|trivial_end]. cbn [snd].
  cps F I. pose proof (sload_cost_pos (spec_of_z (w_spec W)) cold). fin F I.
Qed.

Lemma record_refund_some g r g' :
  Gas.record_refund g r = Some g' -> Gas.limit g' = Gas.limit g /\ Gas.remaining g' = Gas.remaining g.
Proof. unfold Gas.record_refund. destruct (is_i64 _); [|discriminate]. intros H. assert (g' = Gas.mkGas (Gas.limit g) (Gas.remaining g) (Gas.refunded g + r)) by congruence. subst. auto. Qed.

Lemma R_refund c I I1 g' r : R c I I1 -> Gas.record_refund (i_gas I1) r = Some g' -> R c I (set_gas I1 g').
Proof.
  intros (A & B & C) H. apply record_refund_some in H. destruct H as [L Rm].
  unfold R, rem in *. cbn [set_gas i_pc i_gas]. split; [exact A|]. split; [congruence|]. rewrite Rm. exact C.
Qed.

Lemma sstore_cost_pos s v gas cold c : GasCalc.sstore_cost s v gas cold = Some c -> 1 <= c.
Proof.
  unfold GasCalc.sstore_cost, GasCalc.istanbul_sstore_cost, GasCalc.frontier_sstore_cost.
  change GasCalc.G.WARM_STORAGE_READ_COST with 100. change GasCalc.G.WARM_SSTORE_RESET with 2900.
  change GasCalc.G.SSTORE_SET with 20000. change GasCalc.G.SSTORE_RESET with 5000.
  change GasCalc.G.COLD_SLOAD_COST with 2100. change GasCalc.G.INSTANBUL_SLOAD_GAS with 800.
  repeat match goal with |- context [if ?b then _ else _] => destruct b end;
    intros H; try discriminate; assert (HH := f_equal (fun o => match o with Some x => x | None => 0 end) H);
    cbv beta iota in HH; lia.
Qed.

Lemma op_sstore_Q W G F I : Q (PA F I) (snd (op_sstore W G F I)).
Proof.
  unfold op_sstore. destruct (f_static F); [trivial_end|].
  destruct (i_stk I) as [|k [|v r]]; try trivial_end.
  destruct (H.sstore _ _ _ _ _) as [[[[s1 orig] present] cold]|]; [|trivial_end]. cbn [snd].
  cps F I.
  match goal with H : GasCalc.sstore_cost _ _ _ _ = Some _ |- _ => apply sstore_cost_pos in H end.
  eapply Q_next; [eapply R_refund; eassumption|lia].
Qed.

Lemma op_tload_Q G F I : Q (PA F I) (snd (op_tload G F I)).
Proof. unfold op_tload. cbn [snd]. cps F I. fin F I. Qed.
Lemma op_tstore_Q G F I : Q (PA F I) (snd (op_tstore G F I)).
Proof.
  unfold op_tstore. destruct (f_static F); [trivial_end|].
  destruct (Gas.record_cost _ _) as [g' ok] eqn:E. destruct ok; cbn [negb]; [|trivial_end].
  apply record_cost_true in E. destruct E as (L & Rm & Le & _).
  cbn [set_gas i_stk]. destruct (i_stk I) as [|k [|v r]]; try trivial_end. cbn [snd].
  eapply (Q_next F I _ G.WARM_STORAGE_READ_COST); [|consts; lia].
  unfold R, rem. cbn [set_gas set_stk i_pc i_gas]. split; [reflexivity|]. split; [exact L|]. intros. lia.
Qed.
Lemma op_selfdestruct_Q W G F I : Q (PA F I) (snd (op_selfdestruct W G F I)).
Proof.
  unfold op_selfdestruct. destruct (f_static F); [trivial_end|].
  destruct (i_stk I) as [|t r]; [trivial_end|].
  destruct (H.selfdestruct _ _ _ _) as [[[[[s1 a] b] c] d]|]; [|trivial_end].
  assert (HG : forall g1, Gas.limit g1 = Gas.limit (i_gas I) -> Gas.remaining g1 = Gas.remaining (i_gas I) ->
     Q (PA F I) (with_gas (GasCalc.selfdestruct_cost (spec_of_z (w_spec W)) a b d) (set_gas (set_stk I r) g1)
                  (fun I1 => SEnd R_SelfDestruct [] I1))).
  { intros g1 L Rm. cps F I. destruct H as (A & B & C). unfold Q, PA, p_end, PostEnd. intros _.
    unfold rem in *. cbn [set_gas set_stk i_gas i_pc] in *. split; [congruence|]. intros P0.
    rewrite Rm in C. destruct (C P0).
    assert (0 <= GasCalc.selfdestruct_cost (spec_of_z (w_spec W)) a b d).
    { unfold GasCalc.selfdestruct_cost. change GasCalc.G.COLD_ACCOUNT_ACCESS_COST with 2600.
      repeat match goal with |- context [if ?x then _ else _] => destruct x end; lia. }
    lia. }
  destruct (negb (en (w_spec W) E.LONDON) && negb c).
  - destruct (Gas.record_refund _ _) as [g1|] eqn:ER; [|trivial_end]. cbn [snd].
    apply record_refund_some in ER. cbn [set_stk i_gas] in ER. destruct ER. apply HG; assumption.
  - cbn [snd]. apply HG; reflexivity.
Qed.

Lemma create2_cost_pos len c : GasCalc.create2_cost len = Some c -> 1 <= c.
Proof.
  unfold GasCalc.create2_cost, GasCalc.obind, GasCalc.checked_add64.
  destruct (GasCalc.cost_per_word _ _) as [w|] eqn:E; [|discriminate].
  apply cost_per_word_nonneg in E. intros H. apply checked64_some in H. destruct H as [-> _].
  change GasCalc.G.CREATE with 32000. lia.
Qed.
Lemma initcode_cost_nonneg len c : GasCalc.initcode_cost len = Some c -> 0 <= c.
Proof. apply cost_per_word_nonneg. Qed.

Ltac div64 :=
  repeat match goal with
  | |- context [?x / 64] =>
      lazymatch goal with
      | _ : 0 <= x / 64 <= x |- _ => fail
      | _ => assert (0 <= x / 64 <= x) by (split; [apply Z.div_pos; lia | apply Z.div_le_upper_bound; lia])
      end
  end.
Ltac fin_req :=
  Rs;
  repeat match goal with H : GasCalc.create2_cost _ = Some _ |- _ => apply create2_cost_pos in H end;
  repeat match goal with H : GasCalc.initcode_cost _ = Some _ |- _ => apply initcode_cost_nonneg in H end;
  unfold Q, PA, p_create, p_call, PostCall; cbn [kq_gas_limit cq_gas_limit];
  repeat match goal with H : R _ _ _ |- _ => destruct H as (? & ? & ?) end;
  split; [congruence|]; split; [congruence|]; intros P0;
  repeat match goal with H : 0 <= rem ?X -> _ |- _ => specialize (H P0); destruct H end;
  consts; unfold G.CREATE in *.

Lemma op_create_Q W F I b : Q (PA F I) (op_create W F b I).
Proof.
  unfold op_create. destruct (f_static F); [trivial_end|]. destruct (_ && _); [trivial_end|].
  destruct (i_stk I) as [|v [|c [|l r]]]; try trivial_end.
  cps F I.
  all: fin_req; div64; destruct (en _ E.TANGERINE); lia.
Qed.
Lemma log_cost_pos n len c : 0 <= n -> GasCalc.log_cost n len = Some c -> 1 <= c.
Proof.
  intros Hn. unfold GasCalc.log_cost, GasCalc.obind, GasCalc.checked_add64.
  destruct (checked64 (GasCalc.G.LOGDATA * len)) as [d|] eqn:E; [|discriminate]. apply checked64_some in E.
  destruct (checked64 (GasCalc.G.LOG + d)) as [x|] eqn:E2; [|discriminate]. apply checked64_some in E2.
  intros H. apply checked64_some in H. change GasCalc.G.LOG with 375 in *. change GasCalc.G.LOGTOPIC with 375 in *. nia.
Qed.

(* LOG: the continuation state *)
Lemma op_log_Q F I n : 0 <= n ->
  match op_log F n I with
  | PDone r => Q (PA F I) r
  | PLog _ I' => Post F I I'
  | PCall _ _ => False
  end.
Proof.
  intros Hn. unfold op_log. destruct (f_static F); [trivial_end|].
  destruct (i_stk I) as [|off [|len r]]; try trivial_end.
  destruct (pow64 <=? len); [trivial_end|].
  destruct (GasCalc.log_cost n len) as [c|] eqn:EC; [|trivial_end]. apply log_cost_pos in EC; [|exact Hn].
  destruct (Gas.record_cost _ _) as [g' ok] eqn:E. destruct ok; cbn [negb]; [|trivial_end].
  apply record_cost_true in E. cbn [set_stk i_gas] in E. destruct E as (L & Rm & Le & _).
  assert (R1 : R c I (set_gas (set_stk I r) g')).
  { unfold R, rem. cbn [set_gas set_stk i_pc i_gas]. split; [reflexivity|]. split; [exact L|]. intros. lia. }
  assert (FIN : forall I2 data, R c I I2 ->
     match (if zlen (i_stk I2) <? n then PDone (halt R_StackUnderflow I2)
            else PLog (mkLog (f_target F) (firstn (Z.to_nat n) (i_stk I2)) data)
                      (set_pc (set_stk I2 (skipn (Z.to_nat n) (i_stk I2))) (i_pc I2 + 1))) with
     | PDone r => Q (PA F I) r | PLog _ I' => Post F I I' | PCall _ _ => False end).
  { intros I2 data (A & B & C). destruct (_ <? n); [trivial_end|].
    unfold Post. split; [apply PcNext; cbn [set_pc i_pc]; lia|]. split; [exact B|].
    unfold rem in *. cbn [set_pc set_stk i_gas]. intros P. destruct (C P). lia. }
  cbv zeta. destruct (len =? 0); [apply FIN, R1|].
  destruct (pow64 <=? off); [trivial_end|].
  destruct (Memory.resize_macro _ _ _ _) as [[[m' gr] cc]|] eqn:EM; [|trivial_end].
  destruct (cc =? 0) eqn:C0; [|trivial_end]. apply Z.eqb_eq in C0.
  destruct (Memory.slice _ _ _); [|trivial_end].
  apply FIN.
  destruct R1 as (A & B & C).
  unfold R, rem in *. cbn [set_gas set_mem set_stk i_pc i_gas Gas.remaining Gas.limit] in *.
  split; [reflexivity|]. split; [exact L|]. intros P. destruct (C P) as [P1 P2].
  pose proof (resize_macro_gas _ _ _ _ _ _ _ EM C0 P1). lia.
Qed.


Lemma call_mem_inr I off len I2 o l : call_mem I off len = inr (I2, o, l) -> R 0 I I2.
Proof.
  unfold call_mem. destruct (pow64 <=? len); [discriminate|]. destruct (len =? 0).
  - intros H. assert (I2 = I) by congruence. subst. apply R_refl.
  - destruct (pow64 <=? off); [discriminate|].
    destruct (Memory.resize_macro _ _ _ _) as [[[m' gr] cc]|] eqn:EM; [|discriminate].
    destruct (cc =? 0) eqn:C0; [|discriminate]. apply Z.eqb_eq in C0.
    intros H. assert (I2 = set_gas (set_mem I m') (Gas.mkGas (Gas.limit (i_gas I)) gr (Gas.refunded (i_gas I)))) by congruence. subst I2.
    unfold R, rem. cbn [set_gas set_mem i_pc i_gas Gas.remaining Gas.limit].
    split; [reflexivity|]. split; [reflexivity|]. intros P.
    unfold rem in *. pose proof (resize_macro_gas _ _ _ _ _ _ _ EM C0 P). lia.
Qed.
Lemma call_mem_inl I off len e : call_mem I off len = inl e -> forall F I0, Q (PA F I0) e.
Proof.
  unfold call_mem. intros H F I0.
  destruct (pow64 <=? len); [injection H as <-; trivial_end|].
  destruct (len =? 0); [discriminate|].
  destruct (pow64 <=? off); [injection H as <-; trivial_end|].
  destruct (Memory.resize_macro _ _ _ _) as [[[m' gr] cc]|]; [|injection H as <-; trivial_end].
  destruct (cc =? 0); [discriminate|injection H as <-; trivial_end].
Qed.

Lemma op_call_pre_Q F I sch :
  match op_call_pre F sch I with
  | PDone r => Q (PA F I) r
  | PLog _ _ => False
  | PCall c I3 => R 0 I I3 /\ 0 <= cp_local c /\ 0 <= cp_value c
  end.
Proof.
  unfold op_call_pre. destruct (i_stk I) as [|lg [|to r]]; try trivial_end.
  match goal with |- context [match ?o with Some _ => _ | None => _ end] => destruct o as [[value r1]|] end; [|trivial_end].
  destruct (value <? 0) eqn:VN; [trivial_end|]. apply Z.ltb_ge in VN.
  destruct (match sch with SchCall => _ | _ => false end); [trivial_end|].
  cbn [set_stk i_stk]. destruct r1 as [|io [|il [|oo [|ol r2]]]]; try trivial_end.
  destruct (call_mem _ _ _) as [e|[[I2 io'] il']] eqn:E1; [eapply call_mem_inl; eassumption|].
  apply call_mem_inr in E1.
  match goal with |- context [match ?o with Some _ => _ | None => _ end] => destruct o end; [|trivial_end].
  destruct (call_mem I2 oo ol) as [e|[[I3 oo'] ol']] eqn:E2; [eapply call_mem_inl; eassumption|].
  apply call_mem_inr in E2. change (R 0 I I2) in E1.
  pose proof (R_trans _ _ _ _ _ E1 E2) as RR. split; [exact RR|]. cbn [cp_local cp_value]. split; [|exact VN].
  unfold sat_u64, Arith.as_u64_saturated. destruct (_ =? 0); [apply Z.mod_pos_bound; reflexivity|unfold pow64; lia].
Qed.

Lemma call_cost_pos s tv cold dc em : 40 <= GasCalc.call_cost s tv cold dc em /\ (tv = true -> 9040 <= GasCalc.call_cost s tv cold dc em).
Proof.
  unfold GasCalc.call_cost, GasCalc.warm_cold_cost_with_delegation, GasCalc.warm_cold_cost.
  change GasCalc.G.COLD_ACCOUNT_ACCESS_COST with 2600. change GasCalc.G.WARM_STORAGE_READ_COST with 100.
  change GasCalc.G.CALLVALUE with 9000. change GasCalc.G.NEWACCOUNT with 25000.
  destruct (GasCalc.enabled s Specs.BERLIN); destruct (GasCalc.enabled s Specs.TANGERINE);
  destruct (GasCalc.enabled s Specs.SPURIOUS_DRAGON); destruct tv; destruct cold; destruct em;
  destruct dc as [[|]|]; split; intros; try discriminate; lia.
Qed.

Lemma op_call_post_Q W G F c I0 I : R 0 I0 I -> 0 <= cp_local c -> 0 <= cp_value c -> Q (PA F I0) (snd (op_call_post W G F c I)).
Proof.
  intros R0 HL HV. unfold op_call_post. hsplit. cps F I.
  match goal with _ : R (GasCalc.call_cost ?s ?tv ?cold ?dc ?em) _ _ |- _ => pose proof (call_cost_pos s tv cold dc em) as [CP1 CP2]; set (cc := GasCalc.call_cost s tv cold dc em) in * end.
  Rs. unfold Q, PA, p_call, PostCall.
  split; [|destruct (cp_scheme c); cbn [cq_transfers cq_value]; intros; (exact HV || lia || discriminate)].
  repeat match goal with H : R _ _ _ |- _ => destruct H as (? & ? & ?) end.
  split; [congruence|]. split; [destruct (cp_scheme c); cbn [cq_gas_limit]; congruence|]. intros P0.
  repeat match goal with H : 0 <= rem ?X -> _ |- _ => specialize (H P0); destruct H end.
  set (gl := if en (w_spec W) E.TANGERINE then Z.min (Gas.remaining_63_of_64_parts (i_gas I1)) (cp_local c) else cp_local c) in *.
  assert (GL : cq_gas_limit (match cp_scheme c with
     | SchCall => mkCall (cp_scheme c) (if negb (cp_value c =? 0) then sat64 (gl + G.CALL_STIPEND) else gl) (cp_to c) (f_target F) (cp_to c) (cp_value c) true (f_static F) (cp_input c) (cp_ret_off c) (cp_ret_len c)
     | SchCallCode => mkCall (cp_scheme c) (if negb (cp_value c =? 0) then sat64 (gl + G.CALL_STIPEND) else gl) (f_target F) (f_target F) (cp_to c) (cp_value c) true (f_static F) (cp_input c) (cp_ret_off c) (cp_ret_len c)
     | SchDelegateCall => mkCall (cp_scheme c) (if negb (cp_value c =? 0) then sat64 (gl + G.CALL_STIPEND) else gl) (f_target F) (f_caller F) (cp_to c) (f_value F) false (f_static F) (cp_input c) (cp_ret_off c) (cp_ret_len c)
     | SchStaticCall => mkCall (cp_scheme c) (if negb (cp_value c =? 0) then sat64 (gl + G.CALL_STIPEND) else gl) (cp_to c) (f_target F) (cp_to c) 0 true true (cp_input c) (cp_ret_off c) (cp_ret_len c)
     end) = (if negb (cp_value c =? 0) then sat64 (gl + G.CALL_STIPEND) else gl)) by (destruct (cp_scheme c); reflexivity).
  rewrite GL. clear GL.
  assert (0 <= gl -> 0 <= sat64 (gl + G.CALL_STIPEND) <= gl + 2300).
  { intros. unfold sat64. change G.CALL_STIPEND with 2300. destruct (_ <? 0) eqn:A; [apply Z.ltb_lt in A; lia|].
    destruct (_ <? pow64) eqn:B; [lia|]. apply Z.ltb_ge in B. unfold pow64 in *. lia. }
  assert (0 <= gl).
  { unfold gl, Gas.remaining_63_of_64_parts. unfold rem in *.
    assert (0 <= Gas.remaining (i_gas I1) / 64 <= Gas.remaining (i_gas I1)) by (split; [apply Z.div_pos; lia | apply Z.div_le_upper_bound; lia]).
    destruct (en _ _); lia. }
  destruct (negb (cp_value c =? 0)); [specialize (CP2 eq_refl)|]; lia.
Qed.
Lemma gate_defined_cases s b :
  GateSpec.gate s b GateSpec.Legacy = GateSpec.C_DEFINED ->
  0 <= b <= 0x0b \/ 0x10 <= b <= 0x1d \/ b = 0x20 \/ 0x30 <= b <= 0x4a \/ 0x50 <= b <= 0xa4 \/
  0xf0 <= b <= 0xf5 \/ b = 0xfa \/ b = 0xfd \/ b = 0xff.
Proof.
  unfold GateSpec.gate. destruct (b =? GateSpec.INVALID); [discriminate|].
  destruct (GateSpec.eof_only b); [discriminate|].
  unfold GateSpec.legacy_intro, GateSpec.legacy_table, GateSpec.lookup.
  repeat match goal with
  | |- context [if (?lo <=? b) && (b <=? ?hi) then _ else _] =>
      let E := fresh "E" in
      destruct ((lo <=? b) && (b <=? hi)) eqn:E;
      [apply andb_prop in E; destruct E as [E1 E2]; apply Z.leb_le in E1; apply Z.leb_le in E2; intros _; lia|clear E]
  end; discriminate.
Qed.

Theorem step_Q W G F I : Q (PA F I) (snd (step W G F I)).
Proof.
  unfold step. cbv zeta.
  set (op := opcode_at F (i_pc I)).
  destruct (_ && f_static F); [trivial_end|].
  destruct (_ =? GateSpec.C_LATER); [trivial_end|].
  destruct (_ =? GateSpec.C_UNDEFINED); [trivial_end|].
  destruct (_ =? GateSpec.C_EOF_ONLY); [trivial_end|].
  destruct (_ =? GateSpec.C_INVALID); [trivial_end|].
  destruct (GateSpec.gate (w_spec W) op GateSpec.Legacy =? GateSpec.C_DEFINED) eqn:ED; cbn [negb]; [|trivial_end].
  apply Z.eqb_eq in ED. apply gate_defined_cases in ED.
  repeat match goal with
  | |- Q _ (snd (if ?b then _ else _)) =>
      let H := fresh "C" in destruct b eqn:H; [|first [apply Z.eqb_neq in H | apply Z.leb_gt in H]]
  end; cbn [snd];
  try trivial_end;
  first [ apply op_arith_Q | apply op_keccak_Q | apply op_push_env_Q | apply op_balance_Q | apply op_calldataload_Q
        | apply op_copy_Q | apply op_extcodesize_Q | apply op_extcodecopy_Q | apply op_returndatacopy_Q
        | apply op_extcodehash_Q | apply op_blockhash_Q | apply op_selfbalance_Q | apply op_blobhash_Q
        | apply op_pop_Q | apply op_mload_Q | apply op_mstore_Q | apply op_mstore8_Q | apply op_sload_Q
        | apply op_sstore_Q | apply op_jump_Q | apply op_jumpi_Q | apply op_tload_Q | apply op_tstore_Q
        | apply op_mcopy_Q | apply op_dup_Q | apply op_swap_Q | apply op_create_Q | apply op_return_Q
        | apply op_selfdestruct_Q
        | (unfold Q, PA, p_end, PostEnd; intros _; split; [reflexivity|intros; lia]) | idtac ].
  - cps F I. fin F I.
  - cps F I. fin F I.
  - apply op_pushn_Q; [reflexivity|]. fold op. lia.
  - pose proof (op_log_Q F I (op - 160)) as HL. destruct (op_log F (op - 160) I); cbn [finish_pre snd].
    + apply HL. lia.
    + apply HL. lia.
    + exfalso. apply HL. lia.
  - pose proof (op_call_pre_Q F I SchCall) as HL. destruct (op_call_pre F SchCall I); cbn [finish_pre snd];
      [exact HL|destruct HL|destruct HL as (? & ? & ?); apply op_call_post_Q; assumption].
  - pose proof (op_call_pre_Q F I SchCallCode) as HL. destruct (op_call_pre F SchCallCode I); cbn [finish_pre snd];
      [exact HL|destruct HL|destruct HL as (? & ? & ?); apply op_call_post_Q; assumption].
  - pose proof (op_call_pre_Q F I SchDelegateCall) as HL. destruct (op_call_pre F SchDelegateCall I); cbn [finish_pre snd];
      [exact HL|destruct HL|destruct HL as (? & ? & ?); apply op_call_post_Q; assumption].
  - pose proof (op_call_pre_Q F I SchStaticCall) as HL. destruct (op_call_pre F SchStaticCall I); cbn [finish_pre snd];
      [exact HL|destruct HL|destruct HL as (? & ? & ?); apply op_call_post_Q; assumption].
Qed.

Theorem step_next W G F I G' I' : step W G F I = (G', SNext I') -> Post F I I'.
Proof. intros E. pose proof (step_Q W G F I) as HQ. rewrite E in HQ. exact HQ. Qed.

(* a continuing instruction consumes gas: the headline form *)
Corollary step_next_gas W G F I G' I' :
  step W G F I = (G', SNext I') -> 0 <= rem I ->
  Gas.limit (i_gas I') = Gas.limit (i_gas I) /\ 0 <= rem I' /\ rem I' + 1 <= rem I.
Proof. intros E P. destruct (step_next _ _ _ _ _ _ E) as (_ & L & C). destruct (C P). auto. Qed.

Corollary step_call_gas W G F I G' c I' :
  step W G F I = (G', SCall c I') -> 0 <= rem I ->
  Gas.limit (i_gas I') = Gas.limit (i_gas I) /\ 0 <= rem I' /\ 0 <= cq_gas_limit c /\
  rem I' + cq_gas_limit c + 1 <= rem I.
Proof.
  intros E P. assert (HQ : Q (PA F I) (snd (step W G F I))) by exact (step_Q W G F I).
  rewrite E in HQ. destruct HQ as ((_ & L & C) & _). destruct (C P) as (A & B & D). auto.
Qed.
Corollary step_call_value W G F I G' c I' :
  step W G F I = (G', SCall c I') -> cq_transfers c = true -> 0 <= cq_value c.
Proof. intros E. pose proof (step_Q W G F I) as HQ. rewrite E in HQ. exact (proj2 HQ). Qed.
Corollary step_create_gas W G F I G' c I' :
  step W G F I = (G', SCreate c I') -> 0 <= rem I ->
  Gas.limit (i_gas I') = Gas.limit (i_gas I) /\ 0 <= rem I' /\ 0 <= kq_gas_limit c /\
  rem I' + kq_gas_limit c + 1 <= rem I.
Proof.
  intros E P. assert (HQ : Q (PA F I) (snd (step W G F I))) by exact (step_Q W G F I).
  rewrite E in HQ. destruct HQ as (_ & L & C). destruct (C P) as (A & B & D). auto.
Qed.
Corollary step_request_pc W G F I G' :
  (forall c I', step W G F I = (G', SCall c I') -> i_pc I' = i_pc I) /\
  (forall c I', step W G F I = (G', SCreate c I') -> i_pc I' = i_pc I).
Proof.
  split; intros c I' E; pose proof (step_Q W G F I) as HQ; rewrite E in HQ; [destruct HQ as ((A & _) & _)|destruct HQ as (A & _)]; exact A.
Qed.

Corollary step_end_gas W G F I G' r out I' :
  step W G F I = (G', SEnd r out I') -> is_ok r || is_revert r = true -> 0 <= rem I ->
  Gas.limit (i_gas I') = Gas.limit (i_gas I) /\ 0 <= rem I' <= rem I.
Proof.
  intros E OK P. pose proof (step_Q W G F I) as HQ. rewrite E in HQ.
  destruct (HQ OK) as (L & C). split; [exact L|apply C, P].
Qed.
