(* Proofs about the EOF codec model (Model/Eof.v). *)
From RevmV Require Import Model.Eof.
From Coq Require Import ZArith List Lia Bool.
Import ListNotations.
Local Open Scope Z_scope.

(* ------------------------------------------------------------------ lists *)
Lemma len_nil {A} : len (@nil A) = 0. Proof. reflexivity. Qed.
Lemma len_cons {A} (x : A) l : len (x :: l) = len l + 1.
Proof. unfold len. cbn [length]. lia. Qed.
Lemma len_app {A} (a b : list A) : len (a ++ b) = len a + len b.
Proof. unfold len. rewrite app_length. lia. Qed.
Lemma len_nonneg {A} (l : list A) : 0 <= len l.
Proof. unfold len. lia. Qed.
Lemma len_firstn {A} (l : list A) n : 0 <= n <= len l -> len (firstn (Z.to_nat n) l) = n.
Proof. unfold len. intros. rewrite firstn_length. lia. Qed.
Lemma len_skipn {A} (l : list A) n : 0 <= n <= len l -> len (skipn (Z.to_nat n) l) = len l - n.
Proof. unfold len. intros. rewrite skipn_length. lia. Qed.
Lemma len_0_nil {A} (l : list A) : len l = 0 -> l = [].
Proof. destruct l; [reflexivity|]. rewrite len_cons. pose proof (len_nonneg l). lia. Qed.

Lemma nth_error_skipn {A} : forall n (l : list A) x,
  nth_error l n = Some x -> skipn n l = x :: skipn (S n) l.
Proof.
  induction n as [|n IH]; intros [|y l] x H; cbn in H; try discriminate.
  - now inversion H.
  - cbn [skipn]. rewrite (IH _ _ H). reflexivity.
Qed.

Lemma get_skipn l i x : get l i = Some x ->
  0 <= i < len l /\ skipn (Z.to_nat i) l = x :: skipn (Z.to_nat (i + 1)) l.
Proof.
  unfold get. destruct (0 <=? i) eqn:A; [|discriminate]. destruct (i <? len l) eqn:B; [|discriminate].
  cbn [andb]. intros H. apply Z.leb_le in A. apply Z.ltb_lt in B. split; [lia|].
  replace (Z.to_nat (i + 1)) with (S (Z.to_nat i)) by lia. now apply nth_error_skipn.
Qed.

Lemma get_in l i x : get l i = Some x -> In x l.
Proof.
  unfold get. destruct (_ && _); [|discriminate]. apply nth_error_In.
Qed.

Lemma get_defined l i : 0 <= i < len l -> exists x, get l i = Some x.
Proof.
  intros H. unfold get. replace ((0 <=? i) && (i <? len l)) with true.
  - destruct (nth_error l (Z.to_nat i)) eqn:E; [eauto|].
    apply nth_error_None in E. unfold len in H. lia.
  - symmetry. apply andb_true_iff. split; [apply Z.leb_le|apply Z.ltb_lt]; lia.
Qed.

Lemma get_app_exact pre x r i : len pre = i -> get (pre ++ x :: r) i = Some x.
Proof.
  intros H. unfold get. rewrite len_app, len_cons.
  pose proof (len_nonneg pre). pose proof (len_nonneg r).
  replace ((0 <=? i) && (i <? len pre + (len r + 1))) with true
    by (symmetry; apply andb_true_iff; split; [apply Z.leb_le|apply Z.ltb_lt]; lia).
  rewrite nth_error_app2 by (unfold len in H; lia).
  replace (Z.to_nat i - length pre)%nat with 0%nat by (unfold len in H; lia). reflexivity.
Qed.

Lemma slice_from_spec l a r : slice_from l a = Some r ->
  0 <= a <= len l /\ r = skipn (Z.to_nat a) l.
Proof.
  unfold slice_from. destruct (0 <=? a) eqn:A; [|discriminate]. destruct (a <=? len l) eqn:B; [|discriminate].
  cbn [andb]. intros H. inversion H. apply Z.leb_le in A, B. split; [lia|reflexivity].
Qed.
Lemma slice_from_defined l a : 0 <= a <= len l -> slice_from l a = Some (skipn (Z.to_nat a) l).
Proof.
  intros H. unfold slice_from.
  replace ((0 <=? a) && (a <=? len l)) with true; [reflexivity|].
  symmetry. apply andb_true_iff. split; apply Z.leb_le; lia.
Qed.
Lemma slice_spec l a b s : slice l a b = Some s ->
  0 <= a <= b /\ b <= len l /\ s = firstn (Z.to_nat (b - a)) (skipn (Z.to_nat a) l).
Proof.
  unfold slice. destruct (0 <=? a) eqn:A; [|discriminate]. destruct (a <=? b) eqn:B; [|discriminate].
  destruct (b <=? len l) eqn:C; [|discriminate]. cbn [andb]. intros H. inversion H.
  apply Z.leb_le in A, B, C. repeat split; lia.
Qed.
Lemma slice_defined l a b : 0 <= a <= b -> b <= len l ->
  slice l a b = Some (firstn (Z.to_nat (b - a)) (skipn (Z.to_nat a) l)).
Proof.
  intros H1 H2. unfold slice.
  replace ((0 <=? a) && (a <=? b) && (b <=? len l)) with true; [reflexivity|].
  symmetry. rewrite !andb_true_iff. repeat split; apply Z.leb_le; lia.
Qed.

Lemma skipn_skipn {A} : forall (b a : nat) (l : list A), skipn a (skipn b l) = skipn (b + a) l.
Proof.
  induction b as [|b IH]; intros a l; [reflexivity|].
  destruct l as [|x l]; [now rewrite !skipn_nil|]. cbn [skipn Nat.add]. apply IH.
Qed.
Lemma skipn_skipn_Z {A} (l : list A) a b : 0 <= a -> 0 <= b ->
  skipn (Z.to_nat b) (skipn (Z.to_nat a) l) = skipn (Z.to_nat (a + b)) l.
Proof.
  intros. rewrite skipn_skipn. f_equal. lia.
Qed.

(* a slice splits the remaining input *)
Lemma slice_split l a b s : slice l a b = Some s ->
  skipn (Z.to_nat a) l = s ++ skipn (Z.to_nat b) l /\ len s = b - a.
Proof.
  intros H. apply slice_spec in H. destruct H as (H1 & H2 & ->). split.
  - rewrite <- (firstn_skipn (Z.to_nat (b - a)) (skipn (Z.to_nat a) l)) at 1.
    f_equal. rewrite skipn_skipn. f_equal. lia.
  - rewrite len_firstn; [lia|]. rewrite len_skipn; lia.
Qed.

Lemma skipn_app_exact {A} (pre r : list A) n : len pre = n -> skipn (Z.to_nat n) (pre ++ r) = r.
Proof.
  intros H. unfold len in H. rewrite skipn_app.
  replace (Z.to_nat n - length pre)%nat with 0%nat by lia.
  rewrite skipn_all2 by lia. reflexivity.
Qed.
Lemma firstn_app_exact {A} (pre r : list A) n : len pre = n -> firstn (Z.to_nat n) (pre ++ r) = pre.
Proof.
  intros H. unfold len in H. rewrite firstn_app.
  replace (Z.to_nat n - length pre)%nat with 0%nat by lia.
  rewrite firstn_all2 by lia. cbn. apply app_nil_r.
Qed.

Lemma slice_app_exact pre s r : slice (pre ++ s ++ r) (len pre) (len pre + len s) = Some s.
Proof.
  pose proof (len_nonneg pre). pose proof (len_nonneg s). pose proof (len_nonneg r).
  rewrite slice_defined; [|lia|rewrite !len_app; lia].
  f_equal. rewrite skipn_app_exact by reflexivity.
  replace (len pre + len s - len pre) with (len s) by lia.
  apply firstn_app_exact. reflexivity.
Qed.

(* ------------------------------------------------------------------ bytes *)
Definition bytes_ok (l : bytes) : Prop := Forall (fun b => 0 <= b < 256) l.
Lemma is_bytes_ok l : is_bytes l = true <-> bytes_ok l.
Proof.
  unfold is_bytes, bytes_ok. rewrite forallb_forall, Forall_forall.
  split; intros H x Hx; specialize (H x Hx); unfold is_byte in *;
    rewrite andb_true_iff, Z.leb_le, Z.ltb_lt in *; lia.
Qed.
Lemma bytes_ok_app a b : bytes_ok (a ++ b) <-> bytes_ok a /\ bytes_ok b.
Proof. apply Forall_app. Qed.
Lemma bytes_ok_skipn l n : bytes_ok l -> bytes_ok (skipn n l).
Proof.
  intros H. rewrite <- (firstn_skipn n l) in H. apply bytes_ok_app in H. tauto.
Qed.
Lemma bytes_ok_firstn l n : bytes_ok l -> bytes_ok (firstn n l).
Proof.
  intros H. rewrite <- (firstn_skipn n l) in H. apply bytes_ok_app in H. tauto.
Qed.

Lemma u16_round hi lo : 0 <= hi < 256 -> 0 <= lo < 256 -> u16_to_be (u16_of_be hi lo) = [hi; lo].
Proof.
  intros H1 H2. unfold u16_to_be, u16_of_be. f_equal; [|f_equal].
  - rewrite Z.div_add_l by lia. rewrite Z.div_small by lia. lia.
  - rewrite Z.add_comm, Z.mod_add by lia. apply Z.mod_small. lia.
Qed.
Lemma u16_range hi lo : 0 <= hi < 256 -> 0 <= lo < 256 -> 0 <= u16_of_be hi lo <= 65535.
Proof. unfold u16_of_be. lia. Qed.
Lemma u16_unround x : u16_of_be (x / 256) (x mod 256) = x.
Proof. unfold u16_of_be. pose proof (Z.div_mod x 256). lia. Qed.
Lemma u16_to_be_ok x : 0 <= x <= 65535 -> bytes_ok (u16_to_be x).
Proof.
  intros H. unfold u16_to_be. repeat constructor.
  - apply Z.div_pos; lia.
  - apply Z.div_lt_upper_bound; lia.
  - apply Z.mod_pos_bound; lia.
  - apply Z.mod_pos_bound; lia.
Qed.

(* ------------------------------------------------------------------ decode_helpers *)
Lemma consume_u8_eq input :
  consume_u8 input = match input with [] => Err MissingInput | b :: r => Ok (r, b) end.
Proof.
  destruct input as [|b r]; [reflexivity|].
  unfold consume_u8. pose proof (len_nonneg r). rewrite len_cons.
  destruct (len r + 1 =? 0) eqn:E; [apply Z.eqb_eq in E; lia|].
  rewrite slice_from_defined by (rewrite len_cons; lia).
  change (Z.to_nat 1) with 1%nat. cbn [skipn idx bind].
  pose proof (get_app_exact [] b r 0 eq_refl) as G. cbn [app] in G. rewrite G. reflexivity.
Qed.

Lemma consume_u16_eq input :
  consume_u16 input = match input with
                      | b0 :: b1 :: r => Ok (r, u16_of_be b0 b1)
                      | _ => Err MissingInput
                      end.
Proof.
  destruct input as [|b0 [|b1 r]]; try reflexivity.
  unfold consume_u16. pose proof (len_nonneg r). rewrite !len_cons.
  destruct (len r + 1 + 1 <? 2) eqn:E; [apply Z.ltb_lt in E; lia|].
  rewrite slice_defined by (rewrite ?len_cons; lia).
  rewrite slice_from_defined by (rewrite !len_cons; lia).
  change (Z.to_nat (2 - 0)) with 2%nat. change (Z.to_nat 0) with 0%nat. change (Z.to_nat 2) with 2%nat.
  cbn [skipn firstn idx bind].
  pose proof (get_app_exact [] b0 [b1] 0 eq_refl) as G0. cbn [app] in G0. rewrite G0.
  pose proof (get_app_exact [b0] b1 [] 1 eq_refl) as G1. cbn [app] in G1. rewrite G1. reflexivity.
Qed.

(* ------------------------------------------------------------------ section sizes *)
Definition size_ok (s : Z) : Prop := 1 <= s <= 65535.

Lemma encode_sizes_len l : len (encode_sizes l) = 2 * len l.
Proof.
  induction l as [|x l IH]; [reflexivity|].
  unfold encode_sizes in *. cbn [flat_map]. rewrite len_app, IH, len_cons.
  unfold u16_to_be. rewrite !len_cons, len_nil. lia.
Qed.

Lemma read_sizes_sound : forall cnt input i sizes,
  bytes_ok input -> 0 <= i -> read_sizes input i cnt = Ok sizes ->
  skipn (Z.to_nat (2 * i)) input = encode_sizes sizes ++ skipn (Z.to_nat (2 * (i + Z.of_nat cnt))) input
  /\ length sizes = cnt /\ Forall size_ok sizes.
Proof.
  induction cnt as [|c IH]; intros input i sizes Hb Hi H; cbn [read_sizes] in H.
  - inversion H. subst. cbn [encode_sizes flat_map app length]. rewrite Z.add_0_r. auto.
  - destruct (get input (i * 2)) as [hi|] eqn:Ehi; cbn [idx bind] in H; [|discriminate].
    destruct (get input (i * 2 + 1)) as [lo|] eqn:Elo; cbn [idx bind] in H; [|discriminate].
    destruct (u16_of_be hi lo =? 0) eqn:Ez; [discriminate|].
    destruct (read_sizes input (i + 1) c) as [rest| |] eqn:Er; cbn [bind] in H; try discriminate.
    inversion H. subst sizes. clear H.
    assert (Hhi : 0 <= hi < 256).
    { apply get_in in Ehi. unfold bytes_ok in Hb. rewrite Forall_forall in Hb. auto. }
    assert (Hlo : 0 <= lo < 256).
    { apply get_in in Elo. unfold bytes_ok in Hb. rewrite Forall_forall in Hb. auto. }
    apply get_skipn in Ehi. apply get_skipn in Elo.
    destruct Ehi as (Ri & Shi). destruct Elo as (Rl & Slo).
    destruct (IH input (i + 1) rest Hb ltac:(lia) Er) as (S1 & S2 & S3).
    repeat split.
    + replace (2 * i) with (i * 2) by lia. rewrite Shi, Slo.
      unfold encode_sizes. cbn [flat_map]. rewrite u16_round by assumption.
      cbn [app]. do 2 f_equal.
      replace (i * 2 + 1 + 1) with (2 * (i + 1)) by lia. rewrite S1. unfold encode_sizes.
      do 3 f_equal. lia.
    + cbn [length]. lia.
    + constructor; [|assumption]. apply Z.eqb_neq in Ez. pose proof (u16_range hi lo Hhi Hlo).
      unfold size_ok. lia.
Qed.

Lemma read_sizes_no_panic : forall cnt input i,
  0 <= i -> 2 * (i + Z.of_nat cnt) <= len input -> read_sizes input i cnt <> Panic.
Proof.
  induction cnt as [|c IH]; intros input i Hi Hl; cbn [read_sizes]; [discriminate|].
  destruct (get_defined input (i * 2)) as [hi ->]; [lia|].
  destruct (get_defined input (i * 2 + 1)) as [lo ->]; [lia|].
  cbn [idx bind]. destruct (_ =? 0); [discriminate|].
  specialize (IH input (i + 1) ltac:(lia) ltac:(lia)).
  destruct (read_sizes input (i + 1) c); cbn [bind]; congruence.
Qed.

Lemma read_sizes_complete : forall sizes pre rest i,
  len pre = 2 * i -> Forall size_ok sizes ->
  read_sizes (pre ++ encode_sizes sizes ++ rest) i (length sizes) = Ok sizes.
Proof.
  induction sizes as [|s sizes IH]; intros pre rest i Hp Hs; [reflexivity|].
  inversion Hs as [|? ? Hs1 Hs2]. subst.
  cbn [length]. change (encode_sizes (s :: sizes)) with (u16_to_be s ++ encode_sizes sizes).
  unfold u16_to_be. cbn [app]. cbn [read_sizes].
  rewrite get_app_exact by lia. cbn [idx bind].
  replace (pre ++ s / 256 :: s mod 256 :: encode_sizes sizes ++ rest)
    with ((pre ++ [s / 256]) ++ s mod 256 :: encode_sizes sizes ++ rest)
    by (rewrite <- app_assoc; reflexivity).
  rewrite get_app_exact by (rewrite len_app, len_cons, len_nil; lia). cbn [idx bind].
  rewrite u16_unround. unfold size_ok in Hs1.
  destruct (s =? 0) eqn:E; [apply Z.eqb_eq in E; lia|].
  replace ((pre ++ [s / 256]) ++ s mod 256 :: encode_sizes sizes ++ rest)
    with ((pre ++ [s / 256; s mod 256]) ++ encode_sizes sizes ++ rest)
    by (rewrite <- !app_assoc; reflexivity).
  rewrite IH; [reflexivity| |assumption].
  rewrite len_app, !len_cons, len_nil. lia.
Qed.

Lemma bytes_ok_cons b l : bytes_ok (b :: l) <-> 0 <= b < 256 /\ bytes_ok l.
Proof. unfold bytes_ok. split; [intros H; inversion H; auto|intros [H1 H2]; constructor; auto]. Qed.

Lemma encode_sizes_ok l : Forall size_ok l -> bytes_ok (encode_sizes l).
Proof.
  induction 1 as [|x l Hx _ IH]; [constructor|].
  change (encode_sizes (x :: l)) with (u16_to_be x ++ encode_sizes l).
  apply bytes_ok_app. split; [|assumption]. apply u16_to_be_ok. unfold size_ok in Hx. lia.
Qed.

Lemma section_size_sound input rest sizes sum :
  bytes_ok input -> consume_header_section_size input = Ok (rest, sizes, sum) ->
  input = u16_to_be (len sizes) ++ encode_sizes sizes ++ rest
  /\ 1 <= len sizes <= 65535 /\ Forall size_ok sizes /\ sum = sum_list sizes.
Proof.
  intros Hb H. unfold consume_header_section_size in H. rewrite consume_u16_eq in H.
  destruct input as [|b0 [|b1 inp]]; try discriminate. cbn [bind fst snd] in H.
  apply bytes_ok_cons in Hb. destruct Hb as (Hb0 & Hb). apply bytes_ok_cons in Hb. destruct Hb as (Hb1 & Hb).
  pose proof (u16_range b0 b1 Hb0 Hb1) as Hr.
  destruct (u16_of_be b0 b1 =? 0) eqn:E0; [discriminate|]. apply Z.eqb_neq in E0.
  destruct (len inp <? u16_of_be b0 b1 * 2) eqn:E1; [discriminate|]. apply Z.ltb_ge in E1.
  destruct (read_sizes inp 0 (Z.to_nat (u16_of_be b0 b1))) as [sz| |] eqn:Er; cbn [bind] in H; try discriminate.
  destruct (slice_from inp (u16_of_be b0 b1 * 2)) as [r|] eqn:Es; cbn [idx bind] in H; try discriminate.
  inversion H. subst r sz sum. clear H.
  apply read_sizes_sound in Er; [|assumption|lia]. destruct Er as (S1 & S2 & S3).
  apply slice_from_spec in Es. destruct Es as (_ & ->).
  assert (Hl : len sizes = u16_of_be b0 b1) by (unfold len; lia).
  repeat split; try lia; try assumption.
  rewrite Hl, u16_round by assumption. cbn [app]. do 2 f_equal.
  change (Z.to_nat (2 * 0)) with 0%nat in S1. cbn [skipn] in S1. rewrite S1 at 1.
  do 2 f_equal. lia.
Qed.

Lemma section_size_no_panic input : bytes_ok input -> consume_header_section_size input <> Panic.
Proof.
  intros Hb. unfold consume_header_section_size. rewrite consume_u16_eq.
  destruct input as [|b0 [|b1 inp]]; try discriminate. cbn [bind fst snd].
  apply bytes_ok_cons in Hb. destruct Hb as (Hb0 & Hb). apply bytes_ok_cons in Hb. destruct Hb as (Hb1 & Hb).
  pose proof (u16_range b0 b1 Hb0 Hb1) as Hr.
  destruct (_ =? 0) eqn:E0; [discriminate|].
  destruct (len inp <? _) eqn:E1; [discriminate|]. apply Z.ltb_ge in E1.
  pose proof (len_nonneg inp).
  pose proof (read_sizes_no_panic (Z.to_nat (u16_of_be b0 b1)) inp 0 ltac:(lia) ltac:(lia)) as NP.
  destruct (read_sizes inp 0 _); cbn [bind]; try congruence.
  rewrite slice_from_defined by lia. cbn [idx bind]. discriminate.
Qed.

Lemma section_size_complete sizes rest :
  1 <= len sizes <= 65535 -> Forall size_ok sizes ->
  consume_header_section_size (u16_to_be (len sizes) ++ encode_sizes sizes ++ rest)
  = Ok (rest, sizes, sum_list sizes).
Proof.
  intros Hl Hs. unfold consume_header_section_size. rewrite consume_u16_eq.
  unfold u16_to_be at 1. cbn [app bind fst snd]. rewrite u16_unround.
  destruct (len sizes =? 0) eqn:E0; [apply Z.eqb_eq in E0; lia|].
  pose proof (len_nonneg rest).
  destruct (len (encode_sizes sizes ++ rest) <? len sizes * 2) eqn:E1.
  { apply Z.ltb_lt in E1. rewrite len_app, encode_sizes_len in E1. lia. }
  replace (Z.to_nat (len sizes)) with (length sizes) by (unfold len; lia).
  pose proof (read_sizes_complete sizes [] rest 0 eq_refl Hs) as R. cbn [app] in R. rewrite R.
  cbn [bind]. rewrite slice_from_defined by (rewrite len_app, encode_sizes_len; lia).
  cbn [idx bind]. rewrite skipn_app_exact by (rewrite encode_sizes_len; lia). reflexivity.
Qed.

(* ------------------------------------------------------------------ header *)
Definition wf_header (h : EofHeader) : Prop :=
  types_size h = 4 * len (code_sizes h) /\ 1 <= len (code_sizes h) <= 1024 /\
  len (container_sizes h) <= 256 /\ Forall size_ok (code_sizes h) /\
  Forall size_ok (container_sizes h) /\ 0 <= data_size h <= 65535 /\
  sum_code_sizes h = sum_list (code_sizes h) /\ sum_container_sizes h = sum_list (container_sizes h).

Ltac u8 H Hb b Rb := rewrite consume_u8_eq in H;
  match type of H with context [match ?i with [] => _ | _ :: _ => _ end] =>
    let r := fresh "inp" in destruct i as [|b r]; [discriminate H|];
    cbn [bind fst snd] in H; apply bytes_ok_cons in Hb; destruct Hb as (Rb & Hb) end.
Ltac u16 H Hb b0 b1 Rb0 Rb1 := rewrite consume_u16_eq in H;
  match type of H with context [match ?i with [] => _ | _ :: _ => _ end] =>
    let r := fresh "inp" in
    destruct i as [|b0 [|b1 r]]; [discriminate H|discriminate H|];
    cbn [bind fst snd] in H; apply bytes_ok_cons in Hb;
    destruct Hb as (Rb0 & Hb); apply bytes_ok_cons in Hb; destruct Hb as (Rb1 & Hb) end.
Ltac chk H E := match type of H with context [if negb (?x =? ?c) then _ else _] =>
   destruct (x =? c) eqn:E; cbn [negb] in H;
   [apply Z.eqb_eq in E|discriminate H] end.
Ltac secsize H Hb inp' sizes sum Hs :=
  match type of H with context [consume_header_section_size ?x] =>
    destruct (consume_header_section_size x) as [[[inp' sizes] sum]| |] eqn:Hs; cbn [bind] in H;
    [|discriminate H|discriminate H];
    apply section_size_sound in Hs; [|exact Hb];
    let Hi := fresh "Hi" in
    destruct Hs as (Hi & Hs); subst x;
    apply bytes_ok_app in Hb; destruct Hb as (_ & Hb);
    apply bytes_ok_app in Hb; destruct Hb as (_ & Hb) end.

Lemma as_u16_small x : 0 <= x <= 65535 -> as_u16 x = x.
Proof. intros. unfold as_u16. apply Z.mod_small. lia. Qed.

Lemma header_sound input h rest :
  bytes_ok input -> header_decode input = Ok (h, rest) ->
  input = header_encode h ++ rest /\ wf_header h /\ bytes_ok rest.
Proof.
  intros Hb H. unfold header_decode in H.
  u16 H Hb m0 m1 Rm0 Rm1. chk H Em. u8 H Hb v Rv. chk H Ev. u8 H Hb kt Rkt. chk H Ekt.
  u16 H Hb t0 t1 Rt0 Rt1. chk H Et. u8 H Hb kc Rkc. chk H Ekc.
  secsize H Hb inp' sizes sm Hs. destruct Hs as (Hn & Hsz & ->).
  destruct (len sizes >? 1024) eqn:E1024; [discriminate|].
  destruct (len sizes =? 0) eqn:E0; [discriminate|].
  chk H Ecnt. u8 H Hb k Rk.
  assert (Hmagic : m0 = 239 /\ m1 = 0) by (unfold u16_of_be in Em; lia).
  destruct Hmagic as (-> & ->). subst v kt kc.
  pose proof (u16_range t0 t1 Rt0 Rt1) as Hts.
  assert (Hts4 : u16_of_be t0 t1 = 4 * len sizes).
  { pose proof (Z.div_mod (u16_of_be t0 t1) 4 ltac:(lia)). lia. }
  assert (H1024 : len sizes <= 1024) by (destruct (Z.gtb_spec (len sizes) 1024); [discriminate|lia]).
  destruct (k =? KIND_CONTAINER) eqn:Ek.
  - apply Z.eqb_eq in Ek. subst k.
    secsize H Hb inp'' csizes csum Hc. destruct Hc as (Hcn & Hcsz & ->).
    destruct (len csizes >? 256) eqn:E256; [discriminate|].
    assert (H256 : len csizes <= 256) by (destruct (Z.gtb_spec (len csizes) 256); [discriminate|lia]).
    u8 H Hb kd Rkd. chk H Ekd. cbn [bind] in H. u16 H Hb d0 d1 Rd0 Rd1. u8 H Hb tm Rtm. chk H Etm.
    inversion H. subst. clear H.
    pose proof (u16_range d0 d1 Rd0 Rd1) as Hds.
    split; [|split; [|assumption]].
    + unfold header_encode. cbn [types_size code_sizes container_sizes data_size].
      destruct (len csizes =? 0) eqn:Ec0; [apply Z.eqb_eq in Ec0; lia|].
      rewrite !u16_round by assumption. rewrite !as_u16_small by lia.
      unfold KIND_TYPES, KIND_CODE, KIND_CONTAINER, KIND_DATA, KIND_TERMINAL.
      repeat (rewrite <- ?app_assoc; cbn [app]). reflexivity.
    + unfold wf_header. cbn [types_size code_sizes container_sizes data_size sum_code_sizes sum_container_sizes].
      repeat split; try lia; try assumption.
  - destruct (k =? KIND_DATA) eqn:Ed; [|discriminate]. apply Z.eqb_eq in Ed. subst k.
    cbn [bind] in H. u16 H Hb d0 d1 Rd0 Rd1. u8 H Hb tm Rtm. chk H Etm.
    inversion H. subst. clear H.
    pose proof (u16_range d0 d1 Rd0 Rd1) as Hds.
    split; [|split; [|assumption]].
    + unfold header_encode. cbn [types_size code_sizes container_sizes data_size].
      change (len (@nil Z) =? 0) with true. cbv iota.
      rewrite !u16_round by assumption. rewrite !as_u16_small by lia.
      unfold KIND_TYPES, KIND_CODE, KIND_CONTAINER, KIND_DATA, KIND_TERMINAL.
      repeat (rewrite <- ?app_assoc; cbn [app]). reflexivity.
    + unfold wf_header. cbn [types_size code_sizes container_sizes data_size sum_code_sizes sum_container_sizes].
      repeat split; try lia; try assumption; try constructor.
      rewrite len_nil. lia.
Qed.

Ltac g8 Hb := rewrite consume_u8_eq;
  match goal with |- context [match ?i with [] => _ | _ :: _ => _ end] =>
    let b := fresh "b" in let r := fresh "inp" in destruct i as [|b r]; [discriminate|];
    cbn [bind fst snd]; apply bytes_ok_cons in Hb; destruct Hb as (_ & Hb) end.
Ltac g16 Hb := rewrite consume_u16_eq;
  match goal with |- context [match ?i with [] => _ | _ :: _ => _ end] =>
    let b0 := fresh "b" in let b1 := fresh "b" in let r := fresh "inp" in
    destruct i as [|b0 [|b1 r]]; [discriminate|discriminate|];
    cbn [bind fst snd]; apply bytes_ok_cons in Hb; destruct Hb as (_ & Hb);
    apply bytes_ok_cons in Hb; destruct Hb as (_ & Hb) end.
Ltac gchk := match goal with |- context [if negb ?c then _ else _] =>
   destruct c; cbn [negb]; [|discriminate] end.
Ltac gsec Hb :=
  match goal with |- context [consume_header_section_size ?x] =>
    let Hs := fresh "Hs" in
    pose proof (section_size_no_panic x Hb) as Hs;
    let q := fresh "q" in let E := fresh "E" in
    destruct (consume_header_section_size x) as [[[? ?] ?]| |] eqn:E; cbn [bind];
    [|discriminate|congruence];
    apply section_size_sound in E; [|exact Hb]; destruct E as (E & _); subst x;
    apply bytes_ok_app in Hb; destruct Hb as (_ & Hb);
    apply bytes_ok_app in Hb; destruct Hb as (_ & Hb); clear Hs end.

Lemma header_no_panic input : bytes_ok input -> header_decode input <> Panic.
Proof.
  intros Hb. unfold header_decode.
  g16 Hb. gchk. g8 Hb. gchk. g8 Hb. gchk. g16 Hb. gchk. g8 Hb. gchk.
  gsec Hb.
  destruct (_ >? 1024); [discriminate|]. destruct (_ =? 0); [discriminate|]. gchk.
  g8 Hb. destruct (_ =? KIND_CONTAINER).
  - gsec Hb. destruct (_ >? 256); [discriminate|]. g8 Hb. gchk. cbn [bind].
    g16 Hb. g8 Hb. gchk. discriminate.
  - destruct (_ =? KIND_DATA); [|discriminate]. cbn [bind]. g16 Hb. g8 Hb. gchk. discriminate.
Qed.

Lemma header_encode_len h :
  len (header_encode h) = header_size h.
Proof.
  unfold header_encode, header_size, u16_to_be.
  destruct (len (container_sizes h) =? 0);
    repeat (rewrite ?len_app, ?len_cons, ?len_nil, ?encode_sizes_len); lia.
Qed.

Lemma header_complete h rest :
  wf_header h -> header_decode (header_encode h ++ rest) = Ok (h, rest).
Proof.
  intros (Hts & Hn & Hc & Hsz & Hcsz & Hd & Hs1 & Hs2). destruct h as [ts cs ks ds s1 s2].
  cbn [types_size code_sizes container_sizes data_size sum_code_sizes sum_container_sizes] in *.
  subst ts s1 s2.
  unfold header_decode, header_encode.
  cbn [types_size code_sizes container_sizes data_size sum_code_sizes sum_container_sizes].
  rewrite (as_u16_small (len cs)) by lia.
  unfold u16_to_be at 1. unfold KIND_TYPES, KIND_CODE, KIND_TERMINAL.
  repeat (rewrite <- ?app_assoc; cbn [app]).
  rewrite consume_u16_eq. cbn [bind fst snd]. change (u16_of_be 239 0 =? 61184) with true. cbn [negb].
  rewrite consume_u8_eq. cbn [bind fst snd]. rewrite Z.eqb_refl. cbn [negb].
  rewrite consume_u8_eq. cbn [bind fst snd]. rewrite Z.eqb_refl. cbn [negb].
  rewrite consume_u16_eq. cbn [bind fst snd]. rewrite u16_unround.
  replace (4 * len cs) with (len cs * 4) by lia. rewrite Z.mod_mul by lia. rewrite Z.eqb_refl. cbn [negb].
  rewrite consume_u8_eq. cbn [bind fst snd]. rewrite Z.eqb_refl. cbn [negb].
  rewrite section_size_complete by (assumption || lia). cbn [bind].
  destruct (Z.gtb_spec (len cs) 1024); [lia|].
  destruct (len cs =? 0) eqn:E0; [apply Z.eqb_eq in E0; lia|].
  rewrite Z.div_mul by lia. rewrite Z.eqb_refl. cbn [negb].
  pose proof (len_nonneg ks) as Hk0.
  destruct (len ks =? 0) eqn:Ek.
  - apply Z.eqb_eq in Ek. apply len_0_nil in Ek. subst ks.
    unfold KIND_DATA, KIND_CONTAINER. cbn [app].
    rewrite consume_u8_eq. cbn [bind fst snd]. change (4 =? 3) with false. rewrite Z.eqb_refl. cbn [bind].
    unfold u16_to_be. cbn [app].
    rewrite consume_u16_eq. cbn [bind fst snd]. rewrite u16_unround.
    rewrite consume_u8_eq. cbn [bind fst snd]. rewrite Z.eqb_refl. cbn [negb]. reflexivity.
  - apply Z.eqb_neq in Ek.
    rewrite (as_u16_small (len ks)) by lia.
    unfold KIND_DATA, KIND_CONTAINER. repeat (rewrite <- ?app_assoc; cbn [app]).
    rewrite consume_u8_eq. cbn [bind fst snd]. rewrite Z.eqb_refl.
    rewrite section_size_complete by (assumption || lia). cbn [bind].
    destruct (Z.gtb_spec (len ks) 256); [lia|].
    rewrite consume_u8_eq. cbn [bind fst snd]. rewrite Z.eqb_refl. cbn [negb bind].
    unfold u16_to_be. cbn [app].
    rewrite consume_u16_eq. cbn [bind fst snd]. rewrite u16_unround.
    rewrite consume_u8_eq. cbn [bind fst snd]. rewrite Z.eqb_refl. cbn [negb]. reflexivity.
Qed.

(* ------------------------------------------------------------------ types section *)
Definition types_ok (t : TypesSection) : Prop :=
  0 <= inputs t <= 127 /\ 0 <= outputs t <= 128 /\ 0 <= max_stack_size t <= 1023 /\
  inputs t <= max_stack_size t.

Lemma types_validate_ok t : types_validate t = Ok tt <->
  inputs t <= 127 /\ outputs t <= 128 /\ max_stack_size t <= 1023 /\ inputs t <= max_stack_size t.
Proof.
  unfold types_validate.
  destruct (Z.gtb_spec (inputs t) 127), (Z.gtb_spec (outputs t) 128), (Z.gtb_spec (max_stack_size t) 1023),
    (Z.gtb_spec (inputs t) (max_stack_size t)); cbn [orb]; split; intros HH; try discriminate; try lia; reflexivity.
Qed.
Lemma types_validate_cases t : types_validate t = Ok tt \/ types_validate t = Err InvalidTypesSection.
Proof. unfold types_validate. destruct (_ || _); [auto|]. destruct (_ >? _); auto. Qed.

Lemma types_encode_len t : len (types_encode t) = 4.
Proof. reflexivity. Qed.

Lemma types_sound input t rest :
  bytes_ok input -> types_decode input = Ok (t, rest) ->
  input = types_encode t ++ rest /\ types_ok t /\ bytes_ok rest.
Proof.
  intros Hb H. unfold types_decode in H.
  u8 H Hb i Ri. u8 H Hb o Ro. u16 H Hb m0 m1 Rm0 Rm1.
  destruct (types_validate_cases (mkTypes i o (u16_of_be m0 m1))) as [V|V]; rewrite V in H; cbn [bind] in H; [|discriminate].
  inversion H. subst. clear H. apply types_validate_ok in V. cbn [inputs outputs max_stack_size] in V.
  pose proof (u16_range m0 m1 Rm0 Rm1).
  split; [|split; [|assumption]].
  - unfold types_encode. cbn [inputs outputs max_stack_size]. rewrite u16_round by assumption. reflexivity.
  - unfold types_ok. cbn [inputs outputs max_stack_size]. lia.
Qed.

Lemma types_no_panic input : types_decode input <> Panic.
Proof.
  unfold types_decode. rewrite consume_u8_eq. destruct input as [|i input]; [discriminate|]. cbn [bind fst snd].
  rewrite consume_u8_eq. destruct input as [|o input]; [discriminate|]. cbn [bind fst snd].
  rewrite consume_u16_eq. destruct input as [|m0 [|m1 input]]; try discriminate. cbn [bind fst snd].
  destruct (types_validate_cases (mkTypes i o (u16_of_be m0 m1))) as [V|V]; rewrite V; cbn [bind]; discriminate.
Qed.

Lemma types_complete t rest : types_ok t -> types_decode (types_encode t ++ rest) = Ok (t, rest).
Proof.
  intros (H1 & H2 & H3 & H4). unfold types_decode, types_encode, u16_to_be. cbn [app].
  rewrite consume_u8_eq. cbn [bind fst snd]. rewrite consume_u8_eq. cbn [bind fst snd].
  rewrite consume_u16_eq. cbn [bind fst snd]. rewrite u16_unround.
  destruct t as [i o m]. cbn [inputs outputs max_stack_size] in *.
  assert (V : types_validate (mkTypes i o m) = Ok tt) by (apply types_validate_ok; cbn; lia).
  rewrite V. reflexivity.
Qed.

Lemma decode_types_sound : forall cnt input ts,
  bytes_ok input -> decode_types input cnt = Ok ts ->
  exists rest, input = flat_map types_encode ts ++ rest /\ length ts = cnt /\ Forall types_ok ts
               /\ bytes_ok rest.
Proof.
  induction cnt as [|c IH]; intros input ts Hb H; cbn [decode_types] in H.
  - inversion H. exists input. auto.
  - destruct (types_decode input) as [[t r]| |] eqn:Et; cbn [bind fst snd] in H; try discriminate.
    destruct (decode_types r c) as [ts'| |] eqn:Er; cbn [bind] in H; try discriminate.
    inversion H. subst ts. clear H.
    apply types_sound in Et; [|assumption]. destruct Et as (-> & Tok & Hbr).
    destruct (IH r ts' Hbr Er) as (rest & -> & L & F & Hbrest).
    exists rest. cbn [flat_map length]. rewrite <- app_assoc. repeat split; auto.
Qed.

Lemma decode_types_no_panic : forall cnt input, decode_types input cnt <> Panic.
Proof.
  induction cnt as [|c IH]; intros input; cbn [decode_types]; [discriminate|].
  pose proof (types_no_panic input). destruct (types_decode input) as [[t r]| |]; cbn [bind fst snd]; try congruence.
  specialize (IH r). destruct (decode_types r c); cbn [bind]; congruence.
Qed.

Lemma decode_types_complete : forall ts rest, Forall types_ok ts ->
  decode_types (flat_map types_encode ts ++ rest) (length ts) = Ok ts.
Proof.
  induction ts as [|t ts IH]; intros rest H; [reflexivity|].
  inversion H. subst. cbn [flat_map length decode_types]. rewrite <- app_assoc.
  rewrite types_complete by assumption. cbn [bind fst snd]. rewrite IH by assumption. reflexivity.
Qed.

Lemma flat_map_types_len ts : len (flat_map types_encode ts) = 4 * len ts.
Proof.
  induction ts as [|t ts IH]; [reflexivity|]. cbn [flat_map]. rewrite len_app, IH, len_cons, types_encode_len. lia.
Qed.

(* ------------------------------------------------------------------ code / container sections *)
Lemma sum_list_nonneg l : Forall (fun s => 0 <= s) l -> 0 <= sum_list l.
Proof. induction 1; cbn [sum_list fold_right]; [lia|]. fold (sum_list l). lia. Qed.
Lemma size_ok_nonneg l : Forall size_ok l -> Forall (fun s => 0 <= s) l.
Proof. apply Forall_impl. unfold size_ok. intros; lia. Qed.

Lemma extract_sound : forall sizes input start secs e,
  0 <= start <= len input -> Forall (fun s => 0 <= s) sizes -> extract input start sizes = Ok (secs, e) ->
  e = start + sum_list sizes /\ e <= len input /\
  skipn (Z.to_nat start) input = concat secs ++ skipn (Z.to_nat e) input /\ map len secs = sizes.
Proof.
  induction sizes as [|s sizes IH]; intros input start secs e Hs Hf H; cbn [extract] in H.
  - inversion H. subst. cbn. repeat split; lia.
  - inversion Hf as [|? ? Hs0 Hf']. subst.
    destruct (slice input start (start + s)) as [sec|] eqn:Es; cbn [idx bind] in H; [|discriminate].
    destruct (extract input (start + s) sizes) as [[secs' e']| |] eqn:Ex; cbn [bind fst snd] in H; try discriminate.
    inversion H. subst. clear H.
    pose proof (slice_spec _ _ _ _ Es) as (B1 & B2 & _).
    apply slice_split in Es. destruct Es as (Sp & Ls).
    destruct (IH input (start + s) secs' e ltac:(lia) Hf' Ex) as (-> & Le & Sk & Mp).
    cbn [sum_list fold_right concat map]. fold (sum_list sizes).
    repeat split; try lia.
    + rewrite Sp, Sk, app_assoc. reflexivity.
    + rewrite Mp. f_equal. lia.
Qed.

Lemma extract_no_panic : forall sizes input start,
  0 <= start -> Forall (fun s => 0 <= s) sizes -> start + sum_list sizes <= len input ->
  extract input start sizes <> Panic.
Proof.
  induction sizes as [|s sizes IH]; intros input start Hs Hf Hl; cbn [extract]; [discriminate|].
  inversion Hf as [|? ? Hs0 Hf']. subst. cbn [sum_list fold_right] in Hl. fold (sum_list sizes) in Hl.
  pose proof (sum_list_nonneg sizes Hf').
  rewrite slice_defined by lia. cbn [idx bind].
  specialize (IH input (start + s) ltac:(lia) Hf' ltac:(lia)).
  destruct (extract input (start + s) sizes) as [[? ?]| |]; cbn [bind]; congruence.
Qed.

Lemma extract_complete : forall secs pre rest,
  extract (pre ++ concat secs ++ rest) (len pre) (map len secs) = Ok (secs, len pre + len (concat secs)).
Proof.
  induction secs as [|s secs IH]; intros pre rest.
  - cbn [concat map extract]. rewrite len_nil. do 2 f_equal. lia.
  - cbn [map extract concat]. rewrite <- app_assoc. rewrite slice_app_exact. cbn [idx bind].
    replace (pre ++ s ++ concat secs ++ rest) with ((pre ++ s) ++ concat secs ++ rest) by (rewrite <- app_assoc; reflexivity).
    replace (len pre + len s) with (len (pre ++ s)) by (rewrite len_app; reflexivity).
    rewrite IH. cbn [bind fst snd]. rewrite !len_app. do 2 f_equal. lia.
Qed.

(* ------------------------------------------------------------------ body *)
Definition wf_body (h : EofHeader) (b : EofBody) : Prop :=
  len (types_section b) = len (code_sizes h) /\ Forall types_ok (types_section b) /\
  map len (code_section b) = code_sizes h /\ map len (container_section b) = container_sizes h /\
  len (data_section b) <= data_size h /\
  is_data_filled b = (len (data_section b) =? data_size h).

Lemma len_concat (l : list bytes) : len (concat l) = sum_list (map len l).
Proof.
  induction l as [|x l IH]; [reflexivity|]. cbn [concat map sum_list fold_right].
  rewrite len_app, IH. reflexivity.
Qed.

Lemma types_count_wf h : wf_header h -> types_count h = len (code_sizes h).
Proof.
  intros (Hts & _). unfold types_count. rewrite Hts. rewrite Z.mul_comm. apply Z.div_mul. lia.
Qed.

Lemma body_sound input h b :
  bytes_ok input -> wf_header h -> body_decode input h = Ok b ->
  skipn (Z.to_nat (header_size h)) input = body_encode b /\ wf_body h b /\
  len input = header_size h + types_size h + sum_code_sizes h + sum_container_sizes h + len (data_section b).
Proof.
  intros Hb Hw H. pose proof (types_count_wf h Hw) as Htc.
  destruct Hw as (Hts & Hn & Hc & Hsz & Hcsz & Hd & Hs1 & Hs2).
  unfold body_decode in H.
  assert (Hhs : 0 <= header_size h).
  { unfold header_size. pose proof (len_nonneg (code_sizes h)). pose proof (len_nonneg (container_sizes h)).
    destruct (_ =? 0); lia. }
  pose proof (sum_list_nonneg _ (size_ok_nonneg _ Hsz)) as Hsc.
  pose proof (sum_list_nonneg _ (size_ok_nonneg _ Hcsz)) as Hsk.
  rewrite Hs1, Hs2 in *.
  destruct (Z.ltb_spec (len input) (header_size h + (sum_list (code_sizes h) + sum_list (container_sizes h) + types_size h))) as [|Hlo]; [discriminate|].
  destruct (Z.gtb_spec (len input) (header_size h + (sum_list (code_sizes h) + sum_list (container_sizes h) + types_size h + data_size h))) as [|Hhi]; [discriminate|].
  rewrite slice_from_defined in H by lia. cbn [idx bind] in H.
  destruct (decode_types _ _) as [ts| |] eqn:Et; cbn [bind] in H; try discriminate.
  apply decode_types_sound in Et; [|apply bytes_ok_skipn; assumption].
  destruct Et as (rest & Sk0 & Lts & Fts & _).
  destruct (extract input (header_size h + types_size h) (code_sizes h)) as [[codes e1]| |] eqn:Ec; cbn [bind fst snd] in H; try discriminate.
  apply extract_sound in Ec; [|lia|apply size_ok_nonneg; assumption].
  destruct Ec as (-> & Le1 & Sk1 & Mc).
  destruct (extract input _ (container_sizes h)) as [[conts e2]| |] eqn:Ek; cbn [bind fst snd] in H; try discriminate.
  apply extract_sound in Ek; [|lia|apply size_ok_nonneg; assumption].
  destruct Ek as (-> & Le2 & Sk2 & Mk).
  rewrite slice_from_defined in H by lia. cbn [idx bind] in H.
  inversion H. subst b. clear H.
  assert (Lts' : len ts = len (code_sizes h)) by (unfold len in *; lia).
  assert (Sk01 : skipn (Z.to_nat (header_size h + types_size h)) input = rest).
  { rewrite <- skipn_skipn_Z by lia. rewrite Sk0. apply skipn_app_exact.
    rewrite flat_map_types_len. lia. }
  split; [|split].
  - unfold body_encode. cbn [types_section code_section container_section data_section].
    rewrite Sk0. f_equal. rewrite <- Sk01, Sk1. f_equal. rewrite Sk2. reflexivity.
  - unfold wf_body. cbn [types_section code_section container_section data_section is_data_filled].
    rewrite len_skipn by lia. repeat split; auto. lia.
  - cbn [data_section]. rewrite len_skipn by lia. lia.
Qed.

Lemma body_no_panic input h : wf_header h -> body_decode input h <> Panic.
Proof.
  intros Hw. destruct Hw as (Hts & Hn & Hc & Hsz & Hcsz & Hd & Hs1 & Hs2).
  unfold body_decode.
  assert (Hhs : 0 <= header_size h).
  { unfold header_size. pose proof (len_nonneg (code_sizes h)). pose proof (len_nonneg (container_sizes h)).
    destruct (_ =? 0); lia. }
  pose proof (sum_list_nonneg _ (size_ok_nonneg _ Hsz)) as Hsc.
  pose proof (sum_list_nonneg _ (size_ok_nonneg _ Hcsz)) as Hsk.
  rewrite Hs1, Hs2 in *.
  destruct (Z.ltb_spec (len input) (header_size h + (sum_list (code_sizes h) + sum_list (container_sizes h) + types_size h))) as [|Hlo]; [discriminate|].
  destruct (Z.gtb_spec (len input) (header_size h + (sum_list (code_sizes h) + sum_list (container_sizes h) + types_size h + data_size h))) as [|Hhi]; [discriminate|].
  rewrite slice_from_defined by lia. cbn [idx bind].
  pose proof (decode_types_no_panic (Z.to_nat (types_count h)) (skipn (Z.to_nat (header_size h)) input)) as NP.
  destruct (decode_types _ _) as [ts| |]; cbn [bind]; try congruence.
  pose proof (extract_no_panic (code_sizes h) input (header_size h + types_size h) ltac:(lia)
                (size_ok_nonneg _ Hsz) ltac:(lia)) as NP1.
  destruct (extract input (header_size h + types_size h) (code_sizes h)) as [[codes e1]| |] eqn:Ec; cbn [bind fst snd]; try congruence.
  apply extract_sound in Ec; [|lia|apply size_ok_nonneg; assumption].
  destruct Ec as (-> & Le1 & _).
  pose proof (extract_no_panic (container_sizes h) input (header_size h + types_size h + sum_list (code_sizes h)) ltac:(lia)
                (size_ok_nonneg _ Hcsz) ltac:(lia)) as NP2.
  destruct (extract input _ (container_sizes h)) as [[conts e2]| |] eqn:Ek; cbn [bind fst snd]; try congruence.
  apply extract_sound in Ek; [|lia|apply size_ok_nonneg; assumption].
  destruct Ek as (-> & Le2 & _).
  rewrite slice_from_defined by lia. cbn [idx bind]. discriminate.
Qed.

Lemma body_complete h b :
  wf_header h -> wf_body h b -> body_decode (header_encode h ++ body_encode b) h = Ok b.
Proof.
  intros Hw (Wt & Wf & Wc & Wk & Wd & Wfl). pose proof (types_count_wf h Hw) as Htc.
  destruct Hw as (Hts & Hn & Hc & Hsz & Hcsz & Hd & Hs1 & Hs2).
  unfold body_decode.
  pose proof (header_encode_len h) as Hl.
  pose proof (len_nonneg (header_encode h)) as Hhs. rewrite Hl in Hhs.
  pose proof (len_nonneg (data_section b)) as Hdn.
  assert (Lc : len (concat (code_section b)) = sum_list (code_sizes h)) by (rewrite len_concat, Wc; reflexivity).
  assert (Lk : len (concat (container_section b)) = sum_list (container_sizes h)) by (rewrite len_concat, Wk; reflexivity).
  pose proof (len_nonneg (concat (code_section b))). pose proof (len_nonneg (concat (container_section b))).
  assert (Lin : len (header_encode h ++ body_encode b) =
                header_size h + types_size h + sum_list (code_sizes h) + sum_list (container_sizes h) + len (data_section b)).
  { unfold body_encode. rewrite !len_app, flat_map_types_len, Hl, Lc, Lk. lia. }
  rewrite Hs1, Hs2, Lin.
  destruct (Z.ltb_spec (header_size h + types_size h + sum_list (code_sizes h) + sum_list (container_sizes h) + len (data_section b))
                       (header_size h + (sum_list (code_sizes h) + sum_list (container_sizes h) + types_size h))); [lia|].
  destruct (Z.gtb_spec (header_size h + types_size h + sum_list (code_sizes h) + sum_list (container_sizes h) + len (data_section b))
                       (header_size h + (sum_list (code_sizes h) + sum_list (container_sizes h) + types_size h + data_size h))); [lia|].
  rewrite slice_from_defined by (rewrite Lin; lia). cbn [idx bind].
  rewrite skipn_app_exact by assumption.
  unfold body_encode at 1.
  replace (Z.to_nat (types_count h)) with (length (types_section b)) by (unfold len in *; lia).
  rewrite decode_types_complete by assumption. cbn [bind].
  (* code sections *)
  unfold body_encode.
  replace (header_encode h ++ flat_map types_encode (types_section b) ++ concat (code_section b) ++ concat (container_section b) ++ data_section b)
    with ((header_encode h ++ flat_map types_encode (types_section b)) ++ concat (code_section b) ++ concat (container_section b) ++ data_section b)
    by (rewrite <- app_assoc; reflexivity).
  replace (header_size h + types_size h) with (len (header_encode h ++ flat_map types_encode (types_section b)))
    by (rewrite len_app, flat_map_types_len, Hl; lia).
  rewrite <- Wc. rewrite extract_complete. cbn [bind fst snd].
  (* container sections *)
  replace ((header_encode h ++ flat_map types_encode (types_section b)) ++ concat (code_section b) ++ concat (container_section b) ++ data_section b)
    with (((header_encode h ++ flat_map types_encode (types_section b)) ++ concat (code_section b)) ++ concat (container_section b) ++ data_section b)
    by (rewrite <- !app_assoc; reflexivity).
  replace (len (header_encode h ++ flat_map types_encode (types_section b)) + len (concat (code_section b)))
    with (len ((header_encode h ++ flat_map types_encode (types_section b)) ++ concat (code_section b)))
    by (rewrite !len_app; reflexivity).
  rewrite <- Wk. rewrite extract_complete. cbn [bind fst snd].
  rewrite slice_from_defined
    by (rewrite !len_app; pose proof (len_nonneg (flat_map types_encode (types_section b))); lia).
  cbn [idx bind].
  rewrite app_assoc. rewrite skipn_app_exact by (rewrite !len_app; reflexivity).
  destruct b as [ts cs ks d f]. cbn [types_section code_section container_section data_section is_data_filled] in *.
  rewrite Wfl. reflexivity.
Qed.

(* ------------------------------------------------------------------ Eof::decode / encode_slow *)
Definition wf_eof (e : Eof) : Prop :=
  wf_header (header e) /\ wf_body (header e) (body e) /\ raw e = encode_slow e.

Lemma header_size_nonneg h : 0 <= header_size h.
Proof.
  unfold header_size. pose proof (len_nonneg (code_sizes h)). pose proof (len_nonneg (container_sizes h)).
  destruct (_ =? 0); lia.
Qed.

Theorem decode_roundtrip bs e :
  bytes_ok bs -> decode bs = Ok e -> encode_slow e = bs /\ raw e = bs /\ wf_eof e.
Proof.
  intros Hb H. unfold decode in H.
  destruct (header_decode bs) as [[h rest]| |] eqn:Eh; cbn [bind fst] in H; try discriminate.
  destruct (body_decode bs h) as [b| |] eqn:Eb; cbn [bind] in H; try discriminate.
  inversion H. subst e. clear H.
  apply header_sound in Eh; [|assumption]. destruct Eh as (Ebs & Hw & _).
  apply body_sound in Eb; [|assumption|assumption]. destruct Eb as (Sk & Wb & _).
  assert (Er : rest = body_encode b).
  { rewrite <- Sk. rewrite Ebs at 1. symmetry. apply skipn_app_exact. apply header_encode_len. }
  unfold encode_slow, wf_eof. cbn [header body raw]. subst rest. rewrite <- Ebs. auto.
Qed.

Theorem decode_no_panic bs : bytes_ok bs -> decode bs <> Panic.
Proof.
  intros Hb. unfold decode. pose proof (header_no_panic bs Hb) as NP.
  destruct (header_decode bs) as [[h rest]| |] eqn:Eh; cbn [bind fst]; try congruence.
  apply header_sound in Eh; [|assumption]. destruct Eh as (_ & Hw & _).
  pose proof (body_no_panic bs h Hw). destruct (body_decode bs h); cbn [bind]; congruence.
Qed.

Theorem decode_complete e : wf_eof e -> decode (encode_slow e) = Ok e.
Proof.
  intros (Hw & Wb & Hr). destruct e as [h b r]. unfold encode_slow in *. cbn [header body raw] in *.
  unfold decode. rewrite header_complete by assumption. cbn [bind fst].
  rewrite body_complete by assumption. cbn [bind]. subst r. reflexivity.
Qed.

(* ------------------------------------------------------------------ decode_dangling *)
Lemma body_size_nonneg h : wf_header h -> 0 <= body_size h.
Proof.
  intros (Hts & Hn & Hc & Hsz & Hcsz & Hd & Hs1 & Hs2). unfold body_size.
  pose proof (sum_list_nonneg _ (size_ok_nonneg _ Hsz)). pose proof (sum_list_nonneg _ (size_ok_nonneg _ Hcsz)). lia.
Qed.

Theorem decode_dangling_spec bs e d :
  bytes_ok bs -> decode_dangling bs = Ok (e, d) ->
  bs = raw e ++ d /\ len (raw e) = eof_size (header e) /\ decode (raw e) = Ok e /\
  is_data_filled (body e) = true.
Proof.
  intros Hb H. unfold decode_dangling in H.
  destruct (header_decode bs) as [[h rest]| |] eqn:Eh; cbn [bind fst] in H; try discriminate.
  apply header_sound in Eh; [|assumption]. destruct Eh as (Ebs & Hw & Hbr).
  pose proof (body_size_nonneg h Hw) as Hbs. pose proof (header_size_nonneg h) as Hhs.
  destruct (Z.gtb_spec (body_size h + header_size h) (len bs)) as [|Hle]; [discriminate|].
  rewrite slice_from_defined in H by lia. cbn [idx bind] in H.
  rewrite slice_defined in H by lia. cbn [idx bind] in H.
  change (Z.to_nat 0) with 0%nat in H. cbn [skipn] in H. rewrite Z.sub_0_r in H.
  destruct (body_decode _ h) as [b| |] eqn:Eb; cbn [bind] in H; try discriminate.
  inversion H. subst e d. clear H. cbn [raw header body].
  set (n := body_size h + header_size h) in *.
  assert (Hraw : firstn (Z.to_nat n) bs = header_encode h ++ firstn (Z.to_nat (body_size h)) rest).
  { rewrite Ebs at 1. rewrite firstn_app. pose proof (header_encode_len h) as L. unfold len in L.
    rewrite firstn_all2 by lia. f_equal. f_equal. lia. }
  assert (Ln : len (firstn (Z.to_nat n) bs) = n) by (apply len_firstn; lia).
  split; [symmetry; apply firstn_skipn|]. split; [unfold eof_size; lia|].
  assert (Hbp : bytes_ok (firstn (Z.to_nat n) bs)) by (apply bytes_ok_firstn; assumption).
  pose proof (body_sound _ _ _ Hbp Hw Eb) as (_ & _ & Lb).
  split.
  - unfold decode. rewrite Hraw at 1. rewrite header_complete by assumption. cbn [bind fst].
    rewrite Eb. reflexivity.
  - pose proof (body_sound _ _ _ Hbp Hw Eb) as (_ & Wb & _).
    destruct Wb as (_ & _ & _ & _ & _ & ->). apply Z.eqb_eq.
    rewrite Ln in Lb. subst n. unfold body_size in Lb. lia.
Qed.

Theorem decode_dangling_no_panic bs : bytes_ok bs -> decode_dangling bs <> Panic.
Proof.
  intros Hb. unfold decode_dangling. pose proof (header_no_panic bs Hb) as NP.
  destruct (header_decode bs) as [[h rest]| |] eqn:Eh; cbn [bind fst]; try congruence.
  apply header_sound in Eh; [|assumption]. destruct Eh as (_ & Hw & _).
  pose proof (body_size_nonneg h Hw) as Hbs. pose proof (header_size_nonneg h) as Hhs.
  destruct (Z.gtb_spec (body_size h + header_size h) (len bs)) as [|Hle]; [discriminate|].
  rewrite slice_from_defined by lia. cbn [idx bind].
  rewrite slice_defined by lia. cbn [idx bind].
  pose proof (body_no_panic (firstn (Z.to_nat (body_size h + header_size h - 0)) (skipn (Z.to_nat 0) bs)) h Hw).
  destruct (body_decode _ h); cbn [bind]; congruence.
Qed.

Theorem decode_dangling_complete bs e d :
  bytes_ok bs -> decode bs = Ok e -> is_data_filled (body e) = true ->
  decode_dangling (bs ++ d) = Ok (e, d).
Proof.
  intros Hb H Hf. unfold decode in H.
  destruct (header_decode bs) as [[h rest]| |] eqn:Eh; cbn [bind fst] in H; try discriminate.
  destruct (body_decode bs h) as [b| |] eqn:Eb; cbn [bind] in H; try discriminate.
  inversion H. subst e. clear H. cbn [body] in Hf.
  apply header_sound in Eh; [|assumption]. destruct Eh as (Ebs & Hw & _).
  pose proof (body_sound _ _ _ Hb Hw Eb) as (_ & Wb & Lb).
  destruct Wb as (_ & _ & _ & _ & _ & Wfl). rewrite Wfl in Hf. apply Z.eqb_eq in Hf.
  assert (Ln : body_size h + header_size h = len bs) by (unfold body_size; lia).
  unfold decode_dangling. rewrite Ebs at 1. rewrite <- app_assoc.
  rewrite header_complete by assumption. cbn [bind fst].
  pose proof (len_nonneg bs). pose proof (len_nonneg d).
  rewrite Ln, len_app.
  destruct (Z.gtb_spec (len bs) (len bs + len d)); [lia|].
  rewrite slice_from_defined by (rewrite len_app; lia). cbn [idx bind].
  rewrite slice_defined by (rewrite ?len_app; lia). cbn [idx bind].
  change (Z.to_nat 0) with 0%nat. cbn [skipn]. rewrite Z.sub_0_r.
  rewrite firstn_app_exact by reflexivity. rewrite skipn_app_exact by reflexivity.
  rewrite Eb. reflexivity.
Qed.

(* ------------------------------------------------------------------ facts used by the interpreter *)
Lemma map_len_length (l : list bytes) (s : list Z) : map len l = s -> len l = len s.
Proof. intros <-. unfold len. rewrite map_length. reflexivity. Qed.

Theorem decode_section_counts bs e :
  bytes_ok bs -> decode bs = Ok e ->
  len (types_section (body e)) = len (code_section (body e)) /\
  1 <= len (code_section (body e)) <= 1024 /\
  len (container_section (body e)) <= 256 /\
  Forall (fun c => 1 <= len c <= 65535) (code_section (body e)) /\
  Forall (fun c => 1 <= len c <= 65535) (container_section (body e)) /\
  len bs <= eof_size (header e) /\ eof_size (header e) - len bs <= data_size (header e) /\
  0 <= data_size_raw_i (header e) /\ data_size_raw_i (header e) + 2 <= len bs.
Proof.
  intros Hb H. pose proof (decode_roundtrip bs e Hb H) as (_ & _ & Hw & Wb & _).
  unfold decode in H.
  destruct (header_decode bs) as [[h rest]| |] eqn:Eh; cbn [bind fst] in H; try discriminate.
  destruct (body_decode bs h) as [b| |] eqn:Eb; cbn [bind] in H; try discriminate.
  inversion H. subst e. clear H. cbn [header body] in *.
  pose proof (body_sound _ _ _ Hb Hw Eb) as (_ & _ & Lb).
  destruct Wb as (Wt & _ & Wc & Wk & Wd & _).
  pose proof Hw as (Hts & Hn & Hc & Hsz & Hcsz & Hd & Hs1 & Hs2).
  pose proof (map_len_length _ _ Wc) as Lc. pose proof (map_len_length _ _ Wk) as Lk.
  pose proof (len_nonneg (data_section b)).
  pose proof (sum_list_nonneg _ (size_ok_nonneg _ Hsz)). pose proof (sum_list_nonneg _ (size_ok_nonneg _ Hcsz)).
  assert (Hds : 0 <= data_size_raw_i h /\ data_size_raw_i h + 3 = header_size h).
  { unfold data_size_raw_i, header_size. pose proof (len_nonneg (code_sizes h)). pose proof (len_nonneg (container_sizes h)).
    destruct (_ =? 0); lia. }
  repeat split; try lia.
  - rewrite <- Wc in Hsz. rewrite Forall_map in Hsz. exact Hsz.
  - rewrite <- Wk in Hcsz. rewrite Forall_map in Hcsz. exact Hcsz.
  - unfold eof_size, body_size. lia.
  - unfold eof_size, body_size. lia.
Qed.
