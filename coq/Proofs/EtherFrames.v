(* C08 part 5: conservation for frame trees. The frame functions of evm_context.rs
   (make_call_frame, make_create_frame, call_return, create_return; Model/Frames.v, C07) are
   operation histories; the extra C08 hypothesis on creates (the creator holds the endowment)
   is established by make_create_frame itself, so that only the C06 contract and the absence of
   an overflowing self-destruct credit (F13) remain as hypotheses. *)
From Coq Require Import FunctionalExtensionality Lia.
From RevmV Require Import Base.Word Model.Host Model.Ether Model.Frames Proofs.HostView Proofs.HostUndo Proofs.HostGood
  Proofs.HostOps Proofs.HostOps2 Proofs.HostOps3 Proofs.HostOps4 Proofs.HostRevert Proofs.HostMain
  Proofs.FramesProofs Proofs.EtherProofs Proofs.EtherOps Proofs.EtherHist.
Local Open Scope Z_scope.

(* operations for which C08 asks nothing beyond C06 *)
Definition no_cs (o : hop) : Prop :=
  match o with HCreate _ _ _ _ | HSelfdestruct _ _ => False | _ => True end.

Lemma hop_ok8_no_cs d s o : no_cs o -> hop_ok d s o -> hop_ok8 d s o.
Proof. intros N H. split; [exact H|]. destruct o; cbn in *; auto; contradiction. Qed.

Lemma contract_contract8 d h : Forall no_cs h -> forall sc, contract d sc h -> contract8 d sc h.
Proof.
  induction 1 as [|o r No _ IH]; intros sc; cbn [contract contract8]; [auto|].
  intros [Hok C]. split; [apply hop_ok8_no_cs; assumption|].
  destruct (run_hop d sc o); [apply IH; exact C|exact I].
Qed.

Lemma Forall_no_cs_app l1 l2 : Forall no_cs l1 -> Forall no_cs l2 -> Forall no_cs (l1 ++ l2).
Proof. intros A B. apply Forall_app. split; assumption. Qed.

Lemma call_tail_no_cs d ci s3 : Forall no_cs (call_tail d ci s3).
Proof.
  unfold call_tail. destruct (if ci_ext_delegate ci then None else ci_precompile ci) as [[|]|];
    [repeat constructor|repeat constructor|].
  destruct (load_code d s3 (ci_bytecode ci)) as [s4 c]. constructor; [exact I|].
  destruct (st s4 (ci_bytecode ci)) as [acc|]; [|constructor].
  destruct (ci_ext_delegate ci && negb (ci_code_is_eof ci)); [repeat constructor|].
  destruct (a_code acc =? 0); [repeat constructor|].
  destruct (db_delegate d (a_code acc)); repeat constructor.
Qed.

Lemma hops_of_call_no_cs d s ci : Forall no_cs (hops_of_call d s ci).
Proof.
  unfold hops_of_call. destruct (depth s >? CALL_STACK_LIMIT); [constructor|].
  destruct (load_account_delegated d s (ci_bytecode ci)) as [[[s1 ?] ?] ?].
  destruct (checkpoint s1) as [s2 cp].
  destruct (ci_value ci) as [v|v].
  - destruct (v =? 0).
    + apply Forall_no_cs_app; [repeat constructor|]. apply Forall_no_cs_app; [repeat constructor|apply call_tail_no_cs].
    + destruct (transfer d s2 (ci_caller ci) (ci_target ci) v) as [[s3 [| |]]|];
        try (apply Forall_no_cs_app; [repeat constructor|]); try (apply Forall_no_cs_app; [repeat constructor|apply call_tail_no_cs]);
        repeat constructor.
  - apply Forall_no_cs_app; [repeat constructor|apply call_tail_no_cs].
Qed.

(* make_create_frame has compared the creator's balance with the endowment *)
Lemma create_hops_contract8 d s cps cr :
  WF d s -> contract d (s, cps) (hops_of_create d s cr) -> contract8 d (s, cps) (hops_of_create d s cr).
Proof.
  intros W. unfold hops_of_create.
  destruct (depth s >? CALL_STACK_LIMIT); [auto|].
  destruct (cr_init_is_ef00 cr); [auto|].
  pose proof (same8_load d s (cr_caller cr) (proj2 (proj2 W))) as S1.
  pose proof (load_journal_ne d s (cr_caller cr) (proj2 (proj2 W))) as N1.
  destruct (load_account d s (cr_caller cr)) as [s1 c1] eqn:L1. cbn [fst] in *.
  assert (Short : forall l, Forall no_cs l -> contract d (s, cps) l -> contract8 d (s, cps) l)
    by (intros l Hl; apply contract_contract8; exact Hl).
  destruct (st s1 (cr_caller cr)) as [cacc|] eqn:Ec; [|apply Short; repeat constructor].
  destruct (a_bal cacc <? cr_value cr) eqn:Lt; [apply Short; repeat constructor|].
  apply Z.ltb_ge in Lt.
  destruct (inc_nonce s1 (cr_caller cr)) as [[s2 [n|]]|] eqn:N; [|apply Short; repeat constructor|apply Short; repeat constructor].
  destruct (cr_created_is_precompile cr); [apply Short; repeat constructor|].
  pose proof (same8_inc_nonce d s1 (cr_caller cr) s2 (Some n) N1 N) as S2.
  cbn [contract contract8 run_hop fst]. rewrite L1. cbn [fst]. rewrite N.
  intros (H1 & H2 & H3 & C4). split; [apply hop_ok8_no_cs; [exact I|exact H1]|].
  split; [apply hop_ok8_no_cs; [exact I|exact H2]|].
  split; [apply hop_ok8_no_cs; [exact I|exact H3]|].
  assert (N2 : journal s2 <> []).
  { unfold inc_nonce in N. rewrite Ec in N. destruct (a_nonce cacc =? U64MAX); [injection N as <- _; exact N1|].
    destruct (st (touch_account s1 (cr_caller cr) cacc) (cr_caller cr)); [|discriminate].
    injection N as <- _. rewrite journal_put. apply journal_push_ne. }
  pose proof (same8_load d s2 (cr_created cr) N2) as S3.
  destruct C4 as [H4 C5]. split.
  - split; [exact H4|].
    change (cr_value cr <= bal d (fst (load_account d s2 (cr_created cr))) (cr_caller cr)).
    destruct S3 as [B3 _]. destruct S2 as [B2 _]. rewrite B3, B2, (bal_present d s1 _ cacc Ec). exact Lt.
  - destruct (run_hop d (fst (load_account d s2 (cr_created cr)), cps)
                (HCreate (cr_caller cr) (cr_created cr) (cr_has_storage cr) (cr_value cr))); exact I.
Qed.

(* the C08 contract of an event: C06's contract of its operations, and no overflowing
   self-destruct credit *)
Definition event_ok8 (d : db) (sc : st_sc) (e : fevent) : Prop :=
  match e with
  | EHop (HSelfdestruct a t) => a <> t -> bal d (fst sc) t + bal d (fst sc) a < pow256
  | _ => True
  end.

Fixpoint econtract8 (d : db) (sc : st_sc) (es : list fevent) : Prop :=
  match es with
  | [] => True
  | e :: r => contract d sc (hops_of_event d sc e) /\ event_ok8 d sc e /\
              match fstep d sc e with Some (sc', _) => econtract8 d sc' r | None => True end
  end.

Definition event_addrs (e : fevent) : list Z :=
  match e with
  | EHop o => hop_addrs o
  | ECall ci => [ci_caller ci; ci_target ci]
  | ECreate cr => [cr_caller cr; cr_created cr]
  | _ => []
  end.
Definition ecovers (us : list Z) (es : list fevent) : Prop :=
  forall e a, In e es -> In a (event_addrs e) -> In a us.

Lemma covers_no_addrs us h : Forall (fun o => hop_addrs o = []) h -> covers us h.
Proof.
  induction 1 as [|o r Ho _ IH]; intros a; cbn [hist_addrs]; [intros []|].
  rewrite Ho. cbn. apply IH.
Qed.

Lemma covers_app us h1 h2 : covers us h1 -> covers us h2 -> covers us (h1 ++ h2).
Proof.
  unfold covers. induction h1 as [|o r IH]; cbn [app hist_addrs]; intros A B a Ha; [apply B; exact Ha|].
  apply in_app_or in Ha. destruct Ha as [Ha|Ha]; [apply A; apply in_or_app; auto|].
  apply IH; auto. intros x Hx. apply A. apply in_or_app. auto.
Qed.

Lemma call_tail_covers us d ci s3 : covers us (call_tail d ci s3).
Proof.
  apply covers_no_addrs. unfold call_tail.
  destruct (if ci_ext_delegate ci then None else ci_precompile ci) as [[|]|]; [repeat constructor|repeat constructor|].
  destruct (load_code d s3 (ci_bytecode ci)) as [s4 c]. constructor; [reflexivity|].
  destruct (st s4 (ci_bytecode ci)) as [acc|]; [|constructor].
  destruct (ci_ext_delegate ci && negb (ci_code_is_eof ci)); [repeat constructor|].
  destruct (a_code acc =? 0); [repeat constructor|].
  destruct (db_delegate d (a_code acc)); repeat constructor.
Qed.

Lemma event_covers us d sc e :
  (forall a, In a (event_addrs e) -> In a us) -> covers us (hops_of_event d sc e).
Proof.
  intros H. destruct e; cbn [hops_of_event event_addrs] in *.
  - intros a. cbn [hist_addrs]. rewrite app_nil_r. apply H.
  - unfold hops_of_call. destruct (depth (fst sc) >? CALL_STACK_LIMIT); [intros a []|].
    destruct (load_account_delegated d (fst sc) (ci_bytecode ci)) as [[[s1 ?] ?] ?].
    destruct (checkpoint s1) as [s2 cp].
    assert (P : covers us [HLoadDelegated (ci_bytecode ci); HCheckpoint]) by (intros a []).
    assert (T : forall v, covers us [HTransfer (ci_caller ci) (ci_target ci) v]).
    { intros v a. cbn. intros [<-|[<-|[]]]; apply H; cbn; auto. }
    destruct (ci_value ci) as [v|v].
    + destruct (v =? 0).
      * apply covers_app; [exact P|]. apply covers_app; [intros a []|apply call_tail_covers].
      * destruct (transfer d s2 (ci_caller ci) (ci_target ci) v) as [[s3 [| |]]|].
        -- apply covers_app; [exact P|]. apply covers_app; [apply T|apply call_tail_covers].
        -- apply covers_app; [exact P|]. apply (covers_app us [_] [_]); [apply T|intros a []].
        -- apply covers_app; [exact P|]. apply (covers_app us [_] [_]); [apply T|intros a []].
        -- apply covers_app; [exact P|]. apply T.
    + apply covers_app; [exact P|apply call_tail_covers].
  - destruct ok; intros a [].
  - unfold hops_of_create. destruct (depth (fst sc) >? CALL_STACK_LIMIT); [intros a []|].
    destruct (cr_init_is_ef00 cr); [intros a []|].
    destruct (load_account d (fst sc) (cr_caller cr)) as [s1 c1].
    destruct (st s1 (cr_caller cr)) as [cacc|]; [|intros a []].
    destruct (a_bal cacc <? cr_value cr); [intros a []|].
    destruct (inc_nonce s1 (cr_caller cr)) as [[s2 [n|]]|]; [|intros a []|intros a []].
    destruct (cr_created_is_precompile cr); [intros a []|].
    intros a. cbn. intros [<-|[<-|[]]]; apply H; cbn; auto.
  - destruct r; intros a [].
Qed.

Lemma event_contract8 d s cps e x :
  WF d s -> fstep d (s, cps) e = Some x ->
  contract d (s, cps) (hops_of_event d (s, cps) e) -> event_ok8 d (s, cps) e ->
  contract8 d (s, cps) (hops_of_event d (s, cps) e).
Proof.
  intros W F C E. destruct e; cbn [hops_of_event fst] in *.
  - cbn [fstep] in F. destruct (plain_hop o) eqn:P; [|discriminate].
    cbn [contract contract8 fst] in *. destruct C as [Hok C]. split.
    + split; [exact Hok|]. destruct o; try exact I; [discriminate P|exact E].
    + destruct (run_hop d (s, cps) o); exact I.
  - apply contract_contract8; [apply hops_of_call_no_cs|exact C].
  - apply contract_contract8; [destruct ok; repeat constructor|exact C].
  - apply create_hops_contract8; assumption.
  - apply contract_contract8; [destruct r; repeat constructor|exact C].
Qed.

Lemma I8_events d us s0 es : forall s cps s' cps',
  NoDup us -> ecovers us es -> I8 d us s0 s cps -> econtract8 d (s, cps) es ->
  frun d (s, cps) es = Some (s', cps') -> I8 d us s0 s' cps'.
Proof.
  induction es as [|e r IH]; intros s cps s' cps' ND Cov I C R; cbn [frun econtract8] in *.
  - injection R as <- <-. exact I.
  - destruct C as (Ch & Ek & C).
    destruct (fstep d (s, cps) e) as [[[s1 cps1] r1]|] eqn:F; [|discriminate].
    pose proof (fstep_as_hops _ _ _ _ _ F) as H.
    assert (W : WF d s) by (destruct I as (gs & _ & _ & _ & W); exact W).
    apply (IH s1 cps1 s' cps' ND); [intros e' a He; apply Cov; right; exact He| |exact C|exact R].
    eapply (I8_hops d us s0 (hops_of_event d (s, cps) e) s cps s1 cps1 ND);
      [apply event_covers; intros a Ha; apply (Cov e a); [left; reflexivity|exact Ha]|exact I| |exact H].
    eapply event_contract8; eauto.
Qed.

(* every run of frame events (calls, creates, their returns with commit or revert, host
   operations of the running frames) conserves total + burnt *)
Theorem frames_conserve d us s es s' cps' :
  WF d s -> NoDup us -> ecovers us es -> econtract8 d (s, []) es ->
  frun d (s, []) es = Some (s', cps') ->
  total d s' us = total d s us - (jburn (journal s') - jburn (journal s)) /\ WF d s'.
Proof.
  intros W ND Cov C R.
  destruct (I8_events d us s es s [] s' cps' ND Cov (I8_init d us s W) C R) as (gs & _ & _ & P & W').
  split; [unfold phi in P; lia|exact W'].
Qed.
