(* Soundness of the EOF validator model, per code section (continued): access-tracker facts and
   the recorded stack-height intervals.
   [stack_cert code types tt lo hi]: the intervals [lo p, hi p] attached to instruction starts
   contain the entry height, are closed under fall-through and relative jumps (with the height
   change of the instruction), and satisfy every local rule the validator checks: required
   items <= lo, hi <= declared max_stack_size, CALLF/JUMPF room for the callee's max stack,
   JUMPF/RETF output counts. [stack_cert_sound]: every (pc, height) an execution of the section
   can go through ([hreach]) lies inside its interval, hence meets all those rules. *)
From RevmV Require Import Model.Eof Model.EofValidate Proofs.EofProofs Proofs.EofValidateProofs
  Proofs.EofValidateTables Proofs.EofValidateStep Proofs.EofValidateDispatch Proofs.EofValidateProofs2.
From Coq Require Import ZArith List Lia Bool.
Import ListNotations.
Local Open Scope Z_scope.

(* ------------------------------------------------------------------------------------------ *)
(* access tracker                                                                              *)
(* ------------------------------------------------------------------------------------------ *)
Definition sec_marks (code : bytes) (tr : Tracker) : Prop :=
  forall p, is_start code p -> tracker_marks code p tr.

Definition InvT (code : bytes) (tr0 : Tracker) (s : LoopState) : Prop :=
  tr_le tr0 (l_tracker s) /\
  forall p, reach code p -> p < l_i s -> tracker_marks code p (l_tracker s).

Lemma step_InvT code ds tt nc types tr0 s s' :
  bytes_ok code -> Inv1 code (len types) nc ds s -> InvT code tr0 s ->
  step code ds tt nc types s = VOk s' -> InvT code tr0 s'.
Proof.
  intros Hb (_ & I2 & _) (T1 & T2) H.
  pose proof (step_table _ _ _ _ _ _ _ Hb H) as (targets & Etg & Enext & Bi & Bi' & HR & Htg).
  apply step_inv in H.
  destruct H as (op & o & ti0 & J2 & J3 & diff & req & add & targets' & returning & tr &
                 Eop & Eo & Ene & Eti & Hat & HJ2 & Hd & Hreq & Hpj & Es').
  destruct (dispatch_tracker _ _ _ _ _ _ _ _ _ _ _ _ _ _ _ _ _ Hd Eop) as (Hle & Hm).
  assert (Et : l_tracker s' = tr) by (rewrite Es'; reflexivity). unfold InvT. rewrite Et.
  split; [eapply tr_le_trans; eassumption|].
  intros p Hp Hpl.
  destruct (reach_below_next code (l_i s) (l_i s') p Hb I2 Enext Hp Hpl) as [C|C]; [|subst p; exact Hm].
  eapply tracker_marks_mono; [exact Hle|]. apply T2; assumption.
Qed.

(* ------------------------------------------------------------------------------------------ *)
(* stack-height intervals                                                                      *)
(* ------------------------------------------------------------------------------------------ *)
Definition stack_cert (code : bytes) (types : list TypesSection) (tt : TypesSection) (lo hi : Z -> Z) : Prop :=
  lo 0 <= inputs tt <= hi 0 /\
  (outputs tt = 128 -> forall p, is_start code p -> ~ instr_returns code types p) /\
  forall p, is_start code p ->
    hi p <= max_stack_size tt /\
    exists req diff, instr_stack code types tt p = Some (req, diff) /\ req <= lo p /\
      instr_limits code types tt p (hi p) /\
      (forall n, ~ term_at code p -> next_pc code p = Some n -> lo n <= lo p + diff /\ hi p + diff <= hi n) /\
      (forall tg t, jump_targets code p = Some tg -> In t tg -> lo t <= lo p + diff /\ hi p + diff <= hi t).

Definition stack_safe (code : bytes) (types : list TypesSection) (tt : TypesSection) : Prop :=
  exists lo hi, stack_cert code types tt lo hi.

(* (pc, stack height relative to the frame base) pairs an execution of the section goes through:
   entry with [inputs] items; an instruction needs [req] items and changes the height by [diff]
   (CALLF: the callee returns with exactly its declared outputs); successors are the
   fall-through of a non-terminating instruction and the relative-jump targets *)
Inductive hreach (code : bytes) (types : list TypesSection) (tt : TypesSection) : Z -> Z -> Prop :=
| hr_entry : hreach code types tt 0 (inputs tt)
| hr_next p h n req diff : hreach code types tt p h -> is_start code p ->
    instr_stack code types tt p = Some (req, diff) -> req <= h ->
    ~ term_at code p -> next_pc code p = Some n -> hreach code types tt n (h + diff)
| hr_jump p h t tg req diff : hreach code types tt p h -> is_start code p ->
    instr_stack code types tt p = Some (req, diff) -> req <= h ->
    jump_targets code p = Some tg -> In t tg -> hreach code types tt t (h + diff).

Theorem stack_cert_sound code types tt lo hi :
  stack_cert code types tt lo hi -> forall p h, hreach code types tt p h -> lo p <= h <= hi p.
Proof.
  intros (C0 & _ & C) p h H. induction H as [|p h n req diff H IH S E R T N|p h t tg req diff H IH S E R J I].
  - exact C0.
  - destruct (C p S) as (_ & req' & diff' & E' & _ & _ & Cn & _). rewrite E in E'. inversion E'. subst req' diff'.
    destruct (Cn n T N). lia.
  - destruct (C p S) as (_ & req' & diff' & E' & _ & _ & _ & Cj). rewrite E in E'. inversion E'. subst req' diff'.
    destruct (Cj tg t J I). lia.
Qed.

Lemma instr_limits_mono code types tt p h h' : h <= h' -> instr_limits code types tt p h' -> instr_limits code types tt p h.
Proof.
  intros Hle L op E. destruct (L op E) as (L1 & L2 & L3). split; [|split].
  - intros X. destruct (L1 X) as (x & tgt & A & B & C & D). exists x, tgt. repeat split; auto; lia.
  - intros X. destruct (L2 X) as (x & tgt & A & B & C & D). exists x, tgt. split; [exact A|]. split; [exact B|].
    split; [lia|]. intros Y. destruct (D Y). split; lia.
  - intros X. specialize (L3 X). lia.
Qed.

(* what holds at every instruction an execution arrives at *)
Theorem stack_cert_at code types tt lo hi p h :
  stack_cert code types tt lo hi -> hreach code types tt p h -> is_start code p ->
  h <= max_stack_size tt /\
  exists req diff, instr_stack code types tt p = Some (req, diff) /\ req <= h /\
    instr_limits code types tt p h /\
    (get code p = Some OP_RETF -> h = outputs tt).
Proof.
  intros C H S. pose proof (stack_cert_sound _ _ _ _ _ C p h H) as B.
  destruct C as (_ & _ & C). destruct (C p S) as (M & req & diff & E & R & L & _).
  split; [lia|]. exists req, diff. split; [exact E|]. split; [lia|].
  split; [eapply instr_limits_mono; [|exact L]; lia|].
  intros Eop. destruct (L _ Eop) as (_ & _ & L3). specialize (L3 eq_refl).
  unfold instr_stack in E. rewrite Eop in E. destruct (op_info OP_RETF) as [o|]; [|discriminate].
  change (OP_RETF =? OP_CALLF) with false in E. change (OP_RETF =? OP_JUMPF) with false in E.
  change (OP_RETF =? OP_RETF) with true in E. cbv iota in E. inversion E. lia.
Qed.

(* ---- loop invariant for the intervals ---- *)
Definition InvS (code : bytes) (types : list TypesSection) (tt : TypesSection) (s : LoopState) : Prop :=
  (forall p, reach code p -> p < l_i s ->
     exists a req diff, nth_z (l_jumps s) p = Some a /\ instr_stack code types tt p = Some (req, diff) /\
       req <= smallest a /\ instr_limits code types tt p (biggest a) /\
       (forall tg t, jump_targets code p = Some tg -> In t tg ->
          exists b, nth_z (l_jumps s) t = Some b /\ smallest b <= smallest a + diff /\ biggest a + diff <= biggest b) /\
       (forall n, ~ term_at code p -> next_pc code p = Some n ->
          (n < l_i s -> exists b, nth_z (l_jumps s) n = Some b /\ smallest b <= smallest a + diff /\ biggest a + diff <= biggest b) /\
          (n = l_i s -> l_after_term s = false /\ l_next_smallest s = smallest a + diff /\ l_next_biggest s = biggest a + diff))) /\
  (l_i s = 0 -> l_after_term s = false /\ l_next_smallest s = inputs tt /\ l_next_biggest s = inputs tt) /\
  (0 < l_i s -> exists b, nth_z (l_jumps s) 0 = Some b /\ smallest b <= inputs tt <= biggest b) /\
  (l_returning s = false -> forall p, reach code p -> p < l_i s -> ~ instr_returns code types p).

Lemma cur_info_bounds s ti0 : l_after_term s = false ->
  smallest (cur_info s ti0) <= l_next_smallest s /\ l_next_biggest s <= biggest (cur_info s ti0).
Proof. intros E. unfold cur_info. rewrite E. cbn [smallest biggest]. lia. Qed.

Lemma step_InvS code ds tt nc types s s' :
  bytes_ok code -> Inv1 code (len types) nc ds s -> InvS code types tt s ->
  step code ds tt nc types s = VOk s' -> InvS code types tt s'.
Proof.
  intros Hb (I1 & I2 & I3 & _) (SA & SB & SB' & SC) H.
  pose proof (step_table _ _ _ _ _ _ _ Hb H) as (targets & Etg & Enext & Bi & Bi' & HR & Htg).
  pose proof (step_stack _ _ _ _ _ _ _ Hb H) as
    (ti0 & req & diff & targets' & Eti & Est & Hreq & Hlim & Etg' & Hns & Hnb & Hterm & Hret & HS).
  rewrite Etg in Etg'. inversion Etg'. subst targets'. clear Etg'.
  assert (Hself : exists ai, nth_z (l_jumps s') (l_i s) = Some ai /\
                    smallest ai = smallest (cur_info s ti0) /\ biggest ai = biggest (cur_info s ti0)).
  { destruct (jrel_some_fwd _ _ _ _ _ HS Eti) as (ai & Eai & (_ & _ & _ & X & _)). exists ai. split; [exact Eai|]. apply X. reflexivity. }
  destruct Hself as (ai & Eai & Ais & Aib).
  unfold InvS. split; [|split; [|split]].
  - intros p Hp Hpl.
    destruct (reach_below_next code (l_i s) (l_i s') p Hb I2 Enext Hp Hpl) as [C|C].
    + destruct (SA p Hp C) as (a & rq & df & Ea & Es & Hr & Hl & Hj & Hn).
      destruct (jrel_some_fwd _ _ _ _ _ HS Ea) as (a' & Ea' & (_ & _ & Fz & _)). destruct (Fz C) as (Fs & Fb).
      exists a', rq, df. split; [exact Ea'|]. split; [exact Es|]. split; [lia|]. split; [rewrite Fb; exact Hl|].
      split.
      * intros tg t Ej Ht. destruct (Hj tg t Ej Ht) as (b & Eb & B1 & B2).
        destruct (jrel_some_fwd _ _ _ _ _ HS Eb) as (b' & Eb' & (W1 & W2 & _)). exists b'. split; [exact Eb'|]. lia.
      * intros n Nt En. pose proof (reach_linear code Hb (l_i s) p n I2 Hp C En) as Hnle.
        destruct (Hn n Nt En) as (Hn1 & Hn2). split; [|intros; lia].
        intros _. destruct (Z_lt_le_dec n (l_i s)) as [D|D].
        -- destruct (Hn1 D) as (b & Eb & B1 & B2).
           destruct (jrel_some_fwd _ _ _ _ _ HS Eb) as (b' & Eb' & (W1 & W2 & _)). exists b'. split; [exact Eb'|]. lia.
        -- assert (n = l_i s) by lia. subst n. destruct (Hn2 eq_refl) as (At & Ns & Nb).
           pose proof (cur_info_bounds s ti0 At). exists ai. split; [exact Eai|]. lia.
    + subst p. exists ai, req, diff. split; [exact Eai|]. split; [exact Est|]. split; [lia|].
      split; [rewrite Aib; exact Hlim|]. split.
      * intros tg t Ej Ht. rewrite Etg in Ej. inversion Ej. subst tg.
        destruct (nth_z_defined (l_jumps s') t) as (b' & Eb').
        { pose proof (Htg t Ht). destruct HR as (L & _). unfold len in *. lia. }
        destruct (jrel_some_bwd _ _ _ _ _ HS Eb') as (b & Eb & (_ & _ & _ & _ & X)).
        exists b'. split; [exact Eb'|]. destruct (X Ht). lia.
      * intros n Nt En. rewrite Enext in En. inversion En. subst n. split; [intros; lia|]. intros _.
        split; [|lia]. destruct (l_after_term s') eqn:E; [|reflexivity]. exfalso. apply Nt. apply Hterm. reflexivity.
  - intros; lia.
  - intros _. destruct (Z.eq_dec (l_i s) 0) as [E0|E0].
    + destruct (SB E0) as (At & Ns & Nb). pose proof (cur_info_bounds s ti0 At).
      rewrite E0 in Eai. exists ai. split; [exact Eai|]. lia.
    + destruct (SB' ltac:(lia)) as (b & Eb & B).
      destruct (jrel_some_fwd _ _ _ _ _ HS Eb) as (b' & Eb' & (W1 & W2 & _)). exists b'. split; [exact Eb'|]. lia.
  - intros R p Hp Hpl. destruct (Hret R) as (R0 & Ri).
    destruct (reach_below_next code (l_i s) (l_i s') p Hb I2 Enext Hp Hpl) as [C|C]; [|subst p; exact Ri].
    apply SC; assumption.
Qed.

Lemma fold_max_ge (l : list Info) : forall acc,
  acc <= fold_left (fun acc inf => Z.max (biggest inf) acc) l acc /\
  forall a, In a l -> biggest a <= fold_left (fun acc inf => Z.max (biggest inf) acc) l acc.
Proof.
  induction l as [|x l IH]; intros acc; cbn [fold_left].
  - split; [lia|intros a []].
  - destruct (IH (Z.max (biggest x) acc)) as (A & B). split; [lia|].
    intros a [->|Ha]; [lia|apply B; exact Ha].
Qed.

(* ------------------------------------------------------------------------------------------ *)
(* everything acceptance of one section implies                                                *)
(* ------------------------------------------------------------------------------------------ *)
Definition section_ok (code : bytes) (types : list TypesSection) (idx nc ds : Z) : Prop :=
  walk_safe code (len types) nc ds /\
  exists tt, nth_z types idx = Some tt /\ stack_safe code types tt.

Theorem validate_eof_code_sound code ds idx nc types tr tr' :
  bytes_ok code -> validate_eof_code code ds idx nc types tr = VOk tr' ->
  section_ok code types idx nc ds /\ tr_le tr tr' /\ sec_marks code tr'.
Proof.
  intros Hb H. pose proof (validate_eof_code_walk_safe _ _ _ _ _ _ _ Hb H) as W.
  unfold validate_eof_code in H.
  destruct (nth_z types idx) as [tt|] eqn:Ett; cbn [vidx vbind] in H; [|discriminate].
  destruct (code_loop _ _ _ _ _ _ _) as [sf| | |] eqn:El; cbn [vbind] in H; try discriminate.
  destruct (Bool.eqb (l_returning sf) (is_non_returning tt)) eqn:Eret; [discriminate|].
  destruct (l_after_term sf) eqn:Eat; cbn [negb] in H; [|discriminate].
  destruct (Z.eqb_spec (fold_left (fun acc inf => Z.max (biggest inf) acc) (l_jumps sf) 0) (max_stack_size tt)) as [Emax|];
    cbn [negb] in H; [|discriminate].
  inversion H. subst tr'. clear H.
  apply (code_loop_inv code ds tt nc types
           (fun s => Inv1 code (len types) nc ds s /\ InvT code tr s /\ InvS code types tt s)) in El.
  - destruct El as (((I1 & I2 & I3 & I4 & I5 & I6 & I7) & (T1 & T2) & (SA & SB & SB' & SC)) & Hge).
    assert (Ei : l_i sf = len code) by lia. rewrite Ei in *.
    split; [split; [exact W|]|split; [exact T1|]].
    + exists tt. split; [first [exact Ett|reflexivity]|].
      exists (fun p => match nth_z (l_jumps sf) p with Some a => smallest a | None => 0 end),
             (fun p => match nth_z (l_jumps sf) p with Some a => biggest a | None => 0 end).
      destruct W as (_ & _ & (pl & (Hpl & Bpl) & _)).
      split; [|split].
      * destruct (SB' ltac:(lia)) as (b & Eb & B). rewrite Eb. exact B.
      * intros Ho p (Hp & Bp). apply SC; [|exact Hp|lia].
        unfold is_non_returning in Eret. rewrite Ho in Eret. change (128 =? 128) with true in Eret.
        destruct (l_returning sf); [discriminate|reflexivity].
      * intros p (Hp & Bp). destruct (SA p Hp ltac:(lia)) as (a & rq & df & Ea & Es & Hr & Hl & Hj & Hn).
        rewrite Ea. split.
        { rewrite <- Emax. apply fold_max_ge. eapply nth_z_In. exact Ea. }
        exists rq, df. split; [exact Es|]. split; [exact Hr|]. split; [exact Hl|]. split.
        -- intros n Nt En. destruct (Hn n Nt En) as (Hn1 & Hn2).
           destruct (Z_lt_le_dec n (len code)) as [D|D].
           ++ destruct (Hn1 D) as (b & Eb & B). rewrite Eb. exact B.
           ++ exfalso. destruct (I6 p Hp ltac:(lia)) as (((op & o & n' & _ & _ & _ & En' & Bn') & _) & _).
              rewrite En in En'. inversion En'. subst n'. assert (n = len code) by lia. subst n.
              destruct (Hn2 eq_refl) as (X & _). congruence.
        -- intros tg t Ej Ht. destruct (Hj tg t Ej Ht) as (b & Eb & B). rewrite Eb. exact B.
    + intros p (Hp & Bp). apply T2; [exact Hp|lia].
  - intros s s' (A & B & C) Hlt Hst. split; [eapply step_Inv1; eassumption|].
    split; [eapply step_InvT; eassumption|eapply step_InvS; eassumption].
  - split; [apply Inv1_init; exact Hb|]. split.
    + split; [apply tr_le_refl|]. cbn [l_i]. intros p Hp Hlt. pose proof (reach_nonneg _ _ Hb Hp). lia.
    + unfold InvS. cbn [l_i l_jumps l_after_term l_next_smallest l_next_biggest l_returning].
      split; [intros p Hp Hlt; pose proof (reach_nonneg _ _ Hb Hp); lia|].
      split; [auto|]. split; [intros; lia|]. intros _ p Hp Hlt. pose proof (reach_nonneg _ _ Hb Hp). lia.
Qed.
