(* C15, whole State: accounts are independent, so the per-account invariant of
   Proofs/StateDbProofs.v lifts to every history of State operations. *)
From RevmV Require Import Model.AcctStatus Model.StateDb Spec.PlainStateSpec Proofs.StateDbProofs.
Local Open Scope Z_scope.

Definition DbOK (D : db) : Prop := forall a, DbAccOK (aget a (db_accounts D)).

(* cache accounts refine the reference; an address that was never loaded still has the
   database's account as reference *)
Definition AInv (D : db) (m : list (Z * cacc)) (racc : Z -> option rplain) : Prop :=
  forall a, match aget a m with
            | Some c => Inv (db_storage D a) c (racc a)
            | None => racc a = option_map ref_of_dbacc (aget a (db_accounts D))
            end.

Definition SInv (D : db) (s : state) (rs : rstate) : Prop :=
  st_db s = D /\ st_use_bundle s = false /\ AInv D (st_accounts s) (rs_acc rs) /\
  (forall h c, sget h (st_contracts s) = Some c -> c = db_code D h).

(* ---- reference side of a State history *)
Definition rs_step (clear : bool) (rs : rstate) (o : sop) : bool * rstate :=
  match o with
  | OCommit l => (clear, rs_commit clear rs l)
  | OIncr l => (clear, rs_increment rs l)
  | ODrain l => (clear, rs_drain rs l)
  | OSetClear b => (b, rs)
  | _ => (clear, rs)
  end.
Fixpoint rs_run (clear : bool) (rs : rstate) (h : list sop) : rstate :=
  match h with
  | [] => rs
  | o :: t => rs_run (fst (rs_step clear rs o)) (snd (rs_step clear rs o)) t
  end.
Fixpoint st_run (s : state) (h : list sop) : option state :=
  match h with
  | [] => Some s
  | o :: t => match st_step s o with Some (s', _) => st_run s' t | None => None end
  end.

(* ---- contract of a history: the API contract (storage / commit only on loaded accounts) and
   EvmOutOK w.r.t. the evolving reference *)
Fixpoint commit_ok (clear : bool) (m : list (Z * cacc)) (rs : rstate) (l : list (Z * eacc)) : Prop :=
  match l with
  | [] => True
  | (a, e) :: t =>
    (e_touched e = true -> aget a m <> None) /\ EvmOutOK clear (rs_acc rs a) e = true /\
    commit_ok clear m (mkRS (upd (rs_acc rs) a (spec_commit clear (rs_acc rs a) e))
                            (spec_note_code (rs_code rs) e)) t
  end.
Fixpoint drain_ok (rs : rstate) (l : list Z) : Prop :=
  match l with
  | [] => True
  | a :: t =>
    match rs_acc rs a with Some q => (i_balance (r_info q) <? pow128) = true | None => True end /\
    drain_ok (mkRS (upd (rs_acc rs) a (spec_drain (rs_acc rs a))) (rs_code rs)) t
  end.
Definition sop_ok (s : state) (rs : rstate) (o : sop) : Prop :=
  match o with
  | OStorage a _ => aget a (st_accounts s) <> None
  | OCommit l => commit_ok (st_clear s) (st_accounts s) rs l
  | ODrain l => drain_ok rs l
  | _ => True
  end.
Fixpoint shist_ok (s : state) (rs : rstate) (h : list sop) : Prop :=
  match h with
  | [] => True
  | o :: t =>
    sop_ok s rs o /\
    match st_step s o with
    | Some (s', _) => shist_ok s' (snd (rs_step (st_clear s) rs o)) t
    | None => True
    end
  end.

(* ---- map facts *)
Lemma aget_aset_same {A} a (v : A) m : aget a (aset a v m) = Some v.
Proof. unfold aset. simpl. rewrite Z.eqb_refl. reflexivity. Qed.
Lemma aget_aset_other {A} a b (v : A) m : b <> a -> aget b (aset a v m) = aget b m.
Proof. intro H. unfold aset. simpl. apply Z.eqb_neq in H. rewrite H. reflexivity. Qed.
Lemma upd_same {A} (f : Z -> A) a v : upd f a v a = v.
Proof. unfold upd. rewrite Z.eqb_refl. reflexivity. Qed.
Lemma upd_other {A} (f : Z -> A) a b v : b <> a -> upd f a v b = f b.
Proof. intro H. unfold upd. apply Z.eqb_neq in H. rewrite H. reflexivity. Qed.

Lemma ainv_update D m racc a c' r' :
  AInv D m racc -> Inv (db_storage D a) c' r' -> AInv D (aset a c' m) (upd racc a r').
Proof.
  intros H HI b. destruct (Z.eq_dec b a) as [->|Hne].
  - rewrite aget_aset_same, upd_same. exact HI.
  - rewrite (aget_aset_other a b c' m Hne), (upd_other racc a b r' Hne). apply H.
Qed.
Lemma ainv_ext D m f g : AInv D m f -> (forall a, g a = f a) -> AInv D m g.
Proof. intros H E a. rewrite E. apply H. Qed.

Lemma loaded_mono {A} (m : list (Z * A)) a v b : aget b m <> None -> aget b (aset a v m) <> None.
Proof.
  intro H. destruct (Z.eq_dec b a) as [->|Hne]; [rewrite aget_aset_same; discriminate|].
  rewrite aget_aset_other; assumption.
Qed.

(* ---- loading *)
Lemma load_ainv D m racc a :
  DbOK D -> AInv D m racc -> aget a m = None ->
  AInv D (aset a (load_from_db D a) m) racc.
Proof.
  intros HD H Hn.
  assert (Hr : racc a = option_map ref_of_dbacc (aget a (db_accounts D))).
  { specialize (H a). rewrite Hn in H. exact H. }
  apply (ainv_ext D _ (upd racc a (racc a))).
  - apply ainv_update; [exact H|]. rewrite Hr.
    exact (load_inv (aget a (db_accounts D)) (HD a)).
  - intro b. unfold upd. destruct (b =? a) eqn:E; [|reflexivity]. apply Z.eqb_eq in E. subst. reflexivity.
Qed.

Lemma load_sinv D s rs a :
  DbOK D -> SInv D s rs ->
  let s' := fst (load_cache_account s a) in
  let c := snd (load_cache_account s a) in
  SInv D s' rs /\ aget a (st_accounts s') = Some c /\ st_clear s' = st_clear s /\
  st_contracts s' = st_contracts s /\
  (forall b, aget b (st_accounts s) <> None -> aget b (st_accounts s') <> None).
Proof.
  intros HD [Hdb [Hub [HA HC]]]. unfold load_cache_account.
  destruct (aget a (st_accounts s)) as [c|] eqn:E; simpl.
  - repeat split; try assumption. auto.
  - assert (Hf : load_fresh s a = load_from_db D a).
    { unfold load_fresh. rewrite Hub, Hdb. reflexivity. }
    rewrite Hf. repeat split; simpl; try assumption.
    + apply load_ainv; assumption.
    + apply aget_aset_same.
    + intros b Hb. apply loaded_mono. exact Hb.
Qed.

(* replacing the account that is in the cache *)
Lemma sinv_set D s rs a c' r' code' :
  SInv D s rs -> Inv (db_storage D a) c' r' ->
  SInv D (with_accounts s (aset a c' (st_accounts s))) (mkRS (upd (rs_acc rs) a r') code').
Proof.
  intros [Hdb [Hub [HA HC]]] HI. repeat split; simpl; try assumption.
  apply ainv_update; assumption.
Qed.

(* ---- commit *)
Lemma commit_lift D clear l : forall m0 m rs,
  AInv D m (rs_acc rs) -> (forall b, aget b m0 <> None -> aget b m <> None) ->
  commit_ok clear m0 rs l ->
  exists m' ts, apply_evm_state clear m l = Some (m', ts) /\
                AInv D m' (rs_acc (rs_commit clear rs l)) /\
                (forall b, aget b m <> None -> aget b m' <> None).
Proof.
  induction l as [|[a e] t IH]; intros m0 m rs HA Hmono Hok; simpl in *.
  - exists m, []. repeat split; auto.
  - destruct Hok as [Hl [Hout Ht]].
    destruct (e_touched e) eqn:Et; simpl.
    + assert (Hla : aget a m <> None) by (apply Hmono, Hl; reflexivity).
      destruct (aget a m) as [c|] eqn:Ea; [|contradiction].
      pose proof (HA a) as HI. rewrite Ea in HI.
      destruct (step_commit (db_storage D a) c (rs_acc rs a) clear e HI Hout) as [c' [Es HI']].
      unfold acc_step in Es. destruct (apply_account_state clear c e) as [[c1 t1]|]; [|discriminate].
      simpl in Es. inversion Es; subst c1.
      destruct (IH m0 (aset a c' m)
                  (mkRS (upd (rs_acc rs) a (spec_commit clear (rs_acc rs a) e)) (spec_note_code (rs_code rs) e)))
        as [m' [ts [E [HA' Hm']]]].
      * simpl. apply ainv_update; assumption.
      * intros b Hb. apply loaded_mono, Hmono, Hb.
      * exact Ht.
      * rewrite E. eexists. eexists. split; [reflexivity|]. split; [exact HA'|].
        intros b Hb. apply Hm', loaded_mono, Hb.
    + destruct (IH m0 m
                  (mkRS (upd (rs_acc rs) a (spec_commit clear (rs_acc rs a) e)) (spec_note_code (rs_code rs) e)))
        as [m' [ts [E [HA' Hm']]]].
      * simpl. apply (ainv_ext D m (rs_acc rs)); [exact HA|].
        intro b. unfold upd, spec_commit. rewrite Et. simpl. destruct (b =? a) eqn:Eb; [|reflexivity].
        apply Z.eqb_eq in Eb. subst. reflexivity.
      * exact Hmono.
      * exact Ht.
      * exists m', ts. repeat split; assumption.
Qed.

(* ---- increments and drains *)
Lemma incr_lift D l : forall s rs,
  DbOK D -> SInv D s rs ->
  let s' := fst (st_increment_balances s l) in
  SInv D s' (rs_increment rs l) /\ st_clear s' = st_clear s /\
  (forall b, aget b (st_accounts s) <> None -> aget b (st_accounts s') <> None).
Proof.
  induction l as [|[a n] t IH]; intros s rs HD HS; simpl.
  - split; [exact HS|split; [reflexivity|auto]].
  - destruct (n =? 0) eqn:En.
    + destruct (IH s (mkRS (upd (rs_acc rs) a (spec_increment (rs_acc rs a) n)) (rs_code rs)) HD) as [H1 [H2 H3]].
      * destruct HS as [Hdb [Hub [HA HC]]]. repeat split; simpl; try assumption.
        apply (ainv_ext D _ (rs_acc rs)); [exact HA|]. intro b. unfold upd, spec_increment. rewrite En.
        destruct (b =? a) eqn:Eb; [|reflexivity]. apply Z.eqb_eq in Eb. subst. reflexivity.
      * split; [exact H1|split; [exact H2|exact H3]].
    + destruct (load_sinv D s rs a HD HS) as [HS1 [Ec [Hcl [_ Hmono]]]].
      destruct (load_cache_account s a) as [s1 c] eqn:El. simpl in *.
      unfold increment_balance. rewrite En.
      destruct (account_info_change c (fun i => add_balance_sat i n)) as [c' tr] eqn:Eaic.
      pose proof (proj1 (proj2 (proj2 HS1)) a) as HI. rewrite Ec in HI.
      assert (HI' : Inv (db_storage D a) c' (spec_increment (rs_acc rs a) n)).
      { pose proof (step_info_change (db_storage D a) c (rs_acc rs a) _ (add_balance_map_ok n) HI) as H.
        rewrite Eaic in H. simpl in H. unfold spec_increment. rewrite En. destruct (rs_acc rs a); exact H. }
      pose proof (sinv_set D s1 rs a c' _ (rs_code rs) HS1 HI') as HS2.
      destruct (IH _ _ HD HS2) as [H1 [H2 H3]].
      destruct (st_increment_balances (with_accounts s1 (aset a c' (st_accounts s1))) t) as [s2 ts] eqn:E2.
      simpl in *. split; [exact H1|split; [congruence|]].
      intros b Hb. apply H3. apply (loaded_mono (st_accounts s1) a c' b). apply Hmono, Hb.
Qed.

Lemma drain_lift D l : forall s rs,
  DbOK D -> SInv D s rs -> drain_ok rs l ->
  exists s' bs ts, st_drain_balances s l = Some (s', bs, ts) /\
    SInv D s' (rs_drain rs l) /\ st_clear s' = st_clear s /\
    (forall b, aget b (st_accounts s) <> None -> aget b (st_accounts s') <> None).
Proof.
  induction l as [|a t IH]; intros s rs HD HS Hok; simpl in *.
  - exists s, [], []. split; [reflexivity|]. split; [exact HS|split; [reflexivity|auto]].
  - destruct Hok as [Hb Ht].
    destruct (load_sinv D s rs a HD HS) as [HS1 [Ec [Hcl [_ Hmono]]]].
    destruct (load_cache_account s a) as [s1 c] eqn:El. simpl in *.
    pose proof (proj1 (proj2 (proj2 HS1)) a) as HI. rewrite Ec in HI.
    destruct (step_any (db_storage D a) c (rs_acc rs a) ADrain HI) as [c' [Es HI']].
    { simpl. destruct (rs_acc rs a); [exact Hb|reflexivity]. }
    simpl in Es. destruct (drain_balance c) as [[bal [c1 t1]]|]; [|discriminate].
    inversion Es; subst c1. simpl in HI'.
    pose proof (sinv_set D s1 rs a c' _ (rs_code rs) HS1 HI') as HS2.
    destruct (IH _ _ HD HS2 Ht) as [s2 [bs [ts [E [H1 [H2 H3]]]]]].
    rewrite E. eexists. eexists. eexists. split; [reflexivity|]. split; [exact H1|split; [simpl in H2; congruence|]].
    intros b Hb'. apply H3. apply (loaded_mono (st_accounts s1) a c' b). apply Hmono, Hb'.
Qed.

(* ---- one operation *)
Lemma sstep_any D s rs o :
  DbOK D -> SInv D s rs -> sop_ok s rs o ->
  exists s' res, st_step s o = Some (s', res) /\
    SInv D s' (snd (rs_step (st_clear s) rs o)) /\ st_clear s' = fst (rs_step (st_clear s) rs o).
Proof.
  intros HD HS Hok. destruct o as [a|a k|h|l|l|l|b]; simpl in *.
  - (* basic *)
    destruct (load_sinv D s rs a HD HS) as [HS1 [_ [Hcl _]]]. unfold st_basic.
    destruct (load_cache_account s a) as [s1 c]. simpl in *. eexists. eexists. split; [reflexivity|]. split; assumption.
  - (* storage *)
    unfold st_storage. destruct (aget a (st_accounts s)) as [c|] eqn:Ea; [|contradiction].
    destruct HS as [Hdb [Hub [HA HC]]]. pose proof (HA a) as HI. rewrite Ea in HI.
    rewrite Hdb. destruct (cacc_storage (db_storage D a) c k) as [c' v] eqn:Es.
    eexists. eexists. split; [reflexivity|]. split; [|reflexivity].
    repeat split; simpl; try assumption.
    apply (ainv_ext D _ (upd (rs_acc rs) a (rs_acc rs a))).
    + apply ainv_update; [exact HA|]. pose proof (inv_read (db_storage D a) c (rs_acc rs a) k HI) as H.
      rewrite Es in H. exact H.
    + intro b. unfold upd. destruct (b =? a) eqn:E; [|reflexivity]. apply Z.eqb_eq in E. subst. reflexivity.
  - (* code_by_hash *)
    destruct HS as [Hdb [Hub [HA HC]]]. unfold st_code_by_hash.
    destruct (sget h (st_contracts s)) as [c|] eqn:Eh.
    + eexists. eexists. split; [reflexivity|]. split; [|reflexivity]. repeat split; assumption.
    + rewrite Hub. eexists. eexists. split; [reflexivity|]. split; [|reflexivity].
      repeat split; simpl; try assumption.
      intros h' c'. unfold sget, aset. simpl. destruct (h' =? h) eqn:E.
      * apply Z.eqb_eq in E. subst h'. intro H. inversion H. rewrite Hdb. reflexivity.
      * apply HC.
  - (* commit *)
    destruct HS as [Hdb [Hub [HA HC]]]. unfold st_commit.
    destruct (commit_lift D (st_clear s) l (st_accounts s) (st_accounts s) rs HA (fun b H => H) Hok)
      as [m' [ts [E [HA' _]]]].
    rewrite E. eexists. eexists. split; [reflexivity|]. split; [|reflexivity]. repeat split; simpl; assumption.
  - (* increment *)
    destruct (incr_lift D l s rs HD HS) as [H1 [H2 _]].
    destruct (st_increment_balances s l) as [s' ts]. simpl in *.
    eexists. eexists. split; [reflexivity|]. split; assumption.
  - (* drain *)
    destruct (drain_lift D l s rs HD HS Hok) as [s' [bs [ts [E [H1 [H2 _]]]]]].
    rewrite E. eexists. eexists. split; [reflexivity|]. split; assumption.
  - (* set_state_clear_flag *)
    eexists. eexists. split; [reflexivity|]. split; [|reflexivity].
    destruct HS as [Hdb [Hub [HA HC]]]. repeat split; simpl; assumption.
Qed.

Lemma srun_any D h : forall s rs,
  DbOK D -> SInv D s rs -> shist_ok s rs h ->
  exists s', st_run s h = Some s' /\ SInv D s' (rs_run (st_clear s) rs h).
Proof.
  induction h as [|o t IH]; intros s rs HD HS Hh; simpl in *.
  - exists s. split; [reflexivity|exact HS].
  - destruct Hh as [Hok Ht]. destruct (sstep_any D s rs o HD HS Hok) as [s' [res [E [HS' Hc]]]].
    rewrite E in *. rewrite <- Hc. apply IH; assumption.
Qed.

Theorem state_refinement :
  forall (D : db) (clear : bool) (h : list sop),
    DbOK D -> shist_ok (state_new D clear) (ref_of_db D) h ->
    exists s, st_run (state_new D clear) h = Some s /\ SInv D s (rs_run clear (ref_of_db D) h).
Proof.
  intros D clear h HD Hh. apply (srun_any D h (state_new D clear) (ref_of_db D) HD); [|exact Hh].
  repeat split; simpl; try reflexivity. intros h' c H. discriminate.
Qed.

(* what the invariant says about reads *)
Theorem state_reads :
  forall D s rs, DbOK D -> SInv D s rs ->
    (forall a, oinfo_same (snd (st_basic s a)) (ref_basic (rs_acc rs a))) /\
    (forall a k s' v, st_storage s a k = Some (s', v) -> v = ref_storage (rs_acc rs a) k) /\
    (forall h, snd (st_code_by_hash s h) = db_code D h).
Proof.
  intros D s rs HD HS. split; [|split].
  - intro a. destruct (load_sinv D s rs a HD HS) as [HS1 [Ec _]]. unfold st_basic.
    destruct (load_cache_account s a) as [s1 c]. simpl in *.
    pose proof (proj1 (proj2 (proj2 HS1)) a) as HI. rewrite Ec in HI. apply (inv_reads _ _ _ HI).
  - intros a k s' v H. unfold st_storage in H. destruct HS as [Hdb [Hub [HA HC]]].
    destruct (aget a (st_accounts s)) as [c|] eqn:Ea; [|discriminate].
    pose proof (HA a) as HI. rewrite Ea in HI. rewrite Hdb in H.
    destruct (cacc_storage (db_storage D a) c k) as [c' v'] eqn:Es. inversion H; subst.
    pose proof (proj2 (inv_reads _ _ _ HI) k) as Hv. rewrite Es in Hv. exact Hv.
  - intro h. destruct HS as [Hdb [Hub [HA HC]]]. unfold st_code_by_hash.
    destruct (sget h (st_contracts s)) as [c|] eqn:Eh; simpl; [apply HC; exact Eh|].
    rewrite Hub. simpl. rewrite Hdb. reflexivity.
Qed.
